import Mathlib.Tactic.Ring
import Mathlib.Tactic.FieldSimp
import Mathlib.Tactic.Linarith
import Mathlib.Tactic.LinearCombination
import Mathlib.Tactic.Positivity
import Splipy.Model.Factories

/-!
# Helper lemmas for C13: placement rotations, revolve/extrude rows, three-point centre
-/

namespace Splipy.Fac

variable {K : Type} [Field K] [LinearOrder K] [IsStrictOrderedRing K]

/-! ## evaluation of the point-wise maps on explicit points -/

omit [LinearOrder K] [IsStrictOrderedRing K] in
@[simp] theorem rotZPt_cons (c s x y : K) (rest : List K) :
    rotZPt c s (x :: y :: rest) = (x * c - y * s) :: (x * s + y * c) :: rest := rfl

omit [LinearOrder K] [IsStrictOrderedRing K] in
@[simp] theorem rotYPt_cons (c s x y z : K) (rest : List K) :
    rotYPt c s (x :: y :: z :: rest) = (x * c + z * s) :: y :: (-(x * s) + z * c) :: rest := rfl

omit [LinearOrder K] [IsStrictOrderedRing K] in
@[simp] theorem rotXPt_cons (c s x y z : K) (rest : List K) :
    rotXPt c s (x :: y :: z :: rest) = x :: (y * c - z * s) :: (y * s + z * c) :: rest := rfl

omit [LinearOrder K] [IsStrictOrderedRing K] in
@[simp] theorem scaleZW_cons (w x y z h : K) (rest : List K) :
    scaleZW w (x :: y :: z :: h :: rest) = x :: y :: (z * w) :: (h * w) :: rest := rfl

/-! ## the normal -/

/-- `R_z(θ) R_y(φ) e_z = n/‖n‖` under the relations the two `atan2` calls imply
    (`ρ = √(n_x²+n_y²)`, `N = ‖n‖`); for `ρ = 0` the value of `θ` is irrelevant. -/
theorem flip_ez (nx ny nz ρ N ct st cp sp : K)
    (hρ : ρ ^ 2 = nx ^ 2 + ny ^ 2) (hN : N ≠ 0)
    (hθ : ρ ≠ 0 → ct * ρ = nx ∧ st * ρ = ny)
    (hcp : cp * N = nz) (hsp : sp * N = ρ) :
    rotZPt ct st (rotYPt cp sp [0, 0, 1]) = [nx / N, ny / N, nz / N] := by
  have hcp' : cp = nz / N := by field_simp; exact hcp
  have hsp' : sp = ρ / N := by field_simp; exact hsp
  simp only [rotYPt_cons, rotZPt_cons]
  by_cases h0 : ρ = 0
  · have hsum : nx ^ 2 + ny ^ 2 = 0 := by rw [← hρ, h0]; ring
    have hx : nx = 0 := by
      have : nx ^ 2 ≤ 0 := by nlinarith [sq_nonneg ny]
      exact pow_eq_zero_iff (two_ne_zero) |>.mp (le_antisymm this (sq_nonneg nx))
    have hy : ny = 0 := by
      have : ny ^ 2 ≤ 0 := by nlinarith [sq_nonneg nx]
      exact pow_eq_zero_iff (two_ne_zero) |>.mp (le_antisymm this (sq_nonneg ny))
    subst hcp' hsp'
    rw [h0, hx, hy]
    simp
  · obtain ⟨h1, h2⟩ := hθ h0
    have hct : ct = nx / ρ := by field_simp; exact h1
    have hst : st = ny / ρ := by field_simp; exact h2
    subst hcp' hsp' hct hst
    congr 1
    · field_simp; ring
    · congr 1
      · field_simp; ring
      · congr 1
        ring

/-! ## the x-axis -/

omit [LinearOrder K] [IsStrictOrderedRing K] in
/-- `R_z(θ) R_y(φ)` undoes `R_y(−φ) R_z(−θ)` (what `rotate_local_x_axis` applies). -/
theorem flip_localX (x y z ct st cp sp : K) (ht : ct ^ 2 + st ^ 2 = 1) (hp : cp ^ 2 + sp ^ 2 = 1) :
    rotZPt ct st (rotYPt cp sp (rotYPt cp (-sp) (rotZPt ct (-st) [x, y, z]))) = [x, y, z] := by
  simp only [rotYPt_cons, rotZPt_cons]
  congr 1
  · linear_combination (x * ct ^ 2 + y * st * ct) * hp + x * ht
  · congr 1
    · linear_combination (x * ct * st + y * st ^ 2) * hp + y * ht
    · congr 1
      linear_combination z * hp

omit [LinearOrder K] [IsStrictOrderedRing K] in
/-- third component of the back-rotated x-axis is `(xaxis · n)/‖n‖`-proportional: zero when the
    requested x-axis is orthogonal to the normal. -/
theorem localX_z (x y z nx ny nz N ct st cp sp : K)
    (hnx : N * (sp * ct) = nx) (hny : N * (sp * st) = ny) (hnz : N * cp = nz) (hN : N ≠ 0)
    (horth : x * nx + y * ny + z * nz = 0) :
    (rotYPt cp (-sp) (rotZPt ct (-st) [x, y, z])) =
      [(x * ct - y * -st) * cp + z * -sp, x * -st + y * ct, 0] := by
  simp only [rotYPt_cons, rotZPt_cons]
  congr 3
  have : N * (-((x * ct - y * -st) * -sp) + z * cp) = 0 := by
    rw [← horth, ← hnx, ← hny, ← hnz]; ring
  rcases mul_eq_zero.mp this with h | h
  · exact absurd h hN
  · exact h

omit [LinearOrder K] [IsStrictOrderedRing K] in
/-- rotations preserve the squared norm. -/
theorem rot_norm (x y z ct st cp sp : K) (ht : ct ^ 2 + st ^ 2 = 1) (hp : cp ^ 2 + sp ^ 2 = 1) :
    ((x * cp + z * sp) * ct - y * st) ^ 2 + ((x * cp + z * sp) * st + y * ct) ^ 2
      + (-(x * sp) + z * cp) ^ 2 = x ^ 2 + y ^ 2 + z ^ 2 := by
  linear_combination ((x * cp + z * sp) ^ 2 + y ^ 2) * ht + (x ^ 2 + z ^ 2) * hp

/-! ## revolve / extrude rows -/

omit [LinearOrder K] [IsStrictOrderedRing K] in
theorem revolveRows_getElem? (prof arc : List (Pt K)) (j : ℕ) (x y w : K)
    (h : arc[j]? = some [x, y, w]) :
    (revolveRows prof arc)[j]? = some (prof.map (fun p => scaleZW w (rotZPt x y p))) := by
  simp [revolveRows, List.getElem?_map, h]

omit [LinearOrder K] [IsStrictOrderedRing K] in
theorem revolveRowsStep_getElem? (prof : List (Pt K)) (cd sd : K) (ws : List K) (j : ℕ) (hj : j < ws.length) :
    (revolveRowsStep prof cd sd ws)[j]? =
      some (prof.map (fun p => scaleZW (ws.getD j 1) (rotZPt (angleIter cd sd j).1 (angleIter cd sd j).2 p))) := by
  simp [revolveRowsStep, List.getElem?_map, List.getElem?_range hj]

/-! ## three-point centre -/

omit [LinearOrder K] [IsStrictOrderedRing K] in
/-- In-plane decomposition used for the end point of the three-point arc. -/
theorem plane_decomp (a1 a2 a3 b1 b2 b3 n1 n2 n3 : K)
    (h0 : a1 * n1 + a2 * n2 + a3 * n3 = 0) (h2 : b1 * n1 + b2 * n2 + b3 * n3 = 0) :
    let NN := n1 ^ 2 + n2 ^ 2 + n3 ^ 2
    let ab := a1 * b1 + a2 * b2 + a3 * b3
    let aa := a1 ^ 2 + a2 ^ 2 + a3 ^ 2
    let trip := (a2 * b3 - a3 * b2) * n1 + (a3 * b1 - a1 * b3) * n2 + (a1 * b2 - a2 * b1) * n3
    NN * ab * a1 + trip * (n2 * a3 - n3 * a2) = NN * aa * b1 ∧
    NN * ab * a2 + trip * (n3 * a1 - n1 * a3) = NN * aa * b2 ∧
    NN * ab * a3 + trip * (n1 * a2 - n2 * a1) = NN * aa * b3 := by
  refine ⟨?_, ?_, ?_⟩
  · linear_combination (a2 * (-b1 * n2 + b2 * n1) - a3 * (b1 * n3 - b3 * n1)) * h0
      + (-a2 * (-a1 * n2 + a2 * n1) + a3 * (a1 * n3 - a3 * n1)) * h2
  · linear_combination (-a1 * (-b1 * n2 + b2 * n1) + a3 * (-b2 * n3 + b3 * n2)) * h0
      + (a1 * (-a1 * n2 + a2 * n1) - a3 * (-a2 * n3 + a3 * n2)) * h2
  · linear_combination (a1 * (b1 * n3 - b3 * n1) - a2 * (-b2 * n3 + b3 * n2)) * h0
      + (-a1 * (a1 * n3 - a3 * n1) + a2 * (-a2 * n3 + a3 * n2)) * h2

omit [LinearOrder K] [IsStrictOrderedRing K] in
/-- Lagrange: for `a, b ⟂ N` the triple product squared is `|a×b|²·|N|²`. -/
theorem triple_sq (a1 a2 a3 b1 b2 b3 n1 n2 n3 : K)
    (h0 : a1 * n1 + a2 * n2 + a3 * n3 = 0) (h2 : b1 * n1 + b2 * n2 + b3 * n3 = 0) :
    ((a2 * b3 - a3 * b2) * n1 + (a3 * b1 - a1 * b3) * n2 + (a1 * b2 - a2 * b1) * n3) ^ 2
      = ((a2 * b3 - a3 * b2) ^ 2 + (a3 * b1 - a1 * b3) ^ 2 + (a1 * b2 - a2 * b1) ^ 2)
          * (n1 ^ 2 + n2 ^ 2 + n3 ^ 2) := by
  have e1 : b1 * (a1 * n1 + a2 * n2 + a3 * n3) - a1 * (b1 * n1 + b2 * n2 + b3 * n3) = 0 := by
    rw [h0, h2]; ring
  have e2 : b2 * (a1 * n1 + a2 * n2 + a3 * n3) - a2 * (b1 * n1 + b2 * n2 + b3 * n3) = 0 := by
    rw [h0, h2]; ring
  have e3 : b3 * (a1 * n1 + a2 * n2 + a3 * n3) - a3 * (b1 * n1 + b2 * n2 + b3 * n3) = 0 := by
    rw [h0, h2]; ring
  linear_combination
    (-(b1 * (a1 * n1 + a2 * n2 + a3 * n3) - a1 * (b1 * n1 + b2 * n2 + b3 * n3))) * e1
    + (-(b2 * (a1 * n1 + a2 * n2 + a3 * n3) - a2 * (b1 * n1 + b2 * n2 + b3 * n3))) * e2
    + (-(b3 * (a1 * n1 + a2 * n2 + a3 * n3) - a3 * (b1 * n1 + b2 * n2 + b3 * n3))) * e3

/-- what `place` does to one homogeneous control point `[X, Y, W]` of a planar rational object
    (`C13_model_nets`, part 3): pre-rotation by `α`, embedding in 3D, `R_z(θ) R_y(φ)`, translation. -/
def placePt (ca sa ct st cp sp : K) (center : List K) (p : Pt K) : Pt K :=
  translatePt true 3 center (rotZPt ct st (rotYPt cp sp (setDimPt 2 3 (rotZPt ca sa p))))

/-! ## linear combinations of control points, `solve3` -/

/-- `β0·p0 + β1·p1 + β2·p2` component-wise. -/
def lin3 (β0 β1 β2 : K) (p0 p1 p2 : Pt K) : Pt K :=
  List.zipWith3 (fun a b c => β0 * a + β1 * b + β2 * c) p0 p1 p2

/-- `(1−v)·p + v·q` component-wise. -/
def lerpPt (v : K) (p q : Pt K) : Pt K := List.zipWith (fun a b => (1 - v) * a + v * b) p q

omit [IsStrictOrderedRing K] in
/-- Cramer's rule is correct: what `solve3` returns solves the system. -/
theorem solve3_spec (a11 a12 a13 a21 a22 a23 a31 a32 a33 b1 b2 b3 x y z : K)
    (h : solve3 [a11, a12, a13] [a21, a22, a23] [a31, a32, a33] [b1, b2, b3] = .ok [x, y, z]) :
    a11 * x + a12 * y + a13 * z = b1 ∧ a21 * x + a22 * y + a23 * z = b2 ∧
    a31 * x + a32 * y + a33 * z = b3 := by
  unfold solve3 at h
  simp only at h
  split_ifs at h with hd
  simp only [pure, Except.pure, Except.ok.injEq, List.cons.injEq, and_true] at h
  obtain ⟨hx, hy, hz⟩ := h
  simp only [det3] at hx hy hz hd
  set D := a11 * (a22 * a33 - a23 * a32) - a12 * (a21 * a33 - a23 * a31) + a13 * (a21 * a32 - a22 * a31)
    with hD
  have hne : D ≠ 0 := hd
  clear_value D
  subst hx hy hz
  refine ⟨?_, ?_, ?_⟩ <;> (field_simp; rw [hD]; ring)

/-- angles `0, φ1, θ` positively oriented on the unit circle ⇒ `φ1` lies between `0` and `θ`. -/
theorem between_of_orient (c s c1 s1 : K) (h : c ^ 2 + s ^ 2 = 1) (h1 : c1 ^ 2 + s1 ^ 2 = 1)
    (ho : 0 < s1 * (1 - c) + s * (c1 - 1)) :
    (0 ≤ s → 0 < s1 ∧ c < c1) ∧ (s < 0 → 0 ≤ s1 ∨ c1 < c) := by
  have hc : c ≤ 1 := by nlinarith [sq_nonneg s]
  have hc1 : c1 ≤ 1 := by nlinarith [sq_nonneg s1]
  have hcm : -1 ≤ c := by nlinarith [sq_nonneg s]
  have hc1m : -1 ≤ c1 := by nlinarith [sq_nonneg s1]
  constructor
  · intro hs
    have hs1 : 0 < s1 := by
      by_contra hneg
      push Not at hneg
      have : s1 * (1 - c) ≤ 0 := mul_nonpos_of_nonpos_of_nonneg hneg (by linarith)
      have : s * (c1 - 1) ≤ 0 := mul_nonpos_of_nonneg_of_nonpos hs (by linarith)
      linarith
    refine ⟨hs1, ?_⟩
    by_contra hle
    push Not at hle
    -- s1 (1-c) > s (1-c1) ≥ 0, square both sides
    have hA : s * (1 - c1) < s1 * (1 - c) := by linarith
    have hB : 0 ≤ s * (1 - c1) := mul_nonneg hs (by linarith)
    have hsq : (s * (1 - c1)) ^ 2 < (s1 * (1 - c)) ^ 2 := by
      apply pow_lt_pow_left₀ hA hB (by norm_num)
    have e1 : (s * (1 - c1)) ^ 2 = (1 - c) * (1 + c) * (1 - c1) ^ 2 := by
      have : s ^ 2 = (1 - c) * (1 + c) := by linear_combination h
      rw [mul_pow, this]
    have e2 : (s1 * (1 - c)) ^ 2 = (1 - c1) * (1 + c1) * (1 - c) ^ 2 := by
      have : s1 ^ 2 = (1 - c1) * (1 + c1) := by linear_combination h1
      rw [mul_pow, this]
    rw [e1, e2] at hsq
    -- (1-c)(1-c1) [ (1+c)(1-c1) - (1+c1)(1-c) ] < 0, i.e. (1-c)(1-c1) * 2 (c - c1) < 0
    have hprod : 0 ≤ (1 - c) * (1 - c1) * (2 * (c - c1)) := by
      apply mul_nonneg (mul_nonneg (by linarith) (by linarith)) (by linarith)
    nlinarith
  · intro hs
    by_contra hcon
    push Not at hcon
    obtain ⟨hs1, hcc⟩ := hcon
    -- both negative: (-s1)(1-c) < (-s)(1-c1)
    have hA : (-s1) * (1 - c) < (-s) * (1 - c1) := by linarith
    have hB : 0 ≤ (-s1) * (1 - c) := mul_nonneg (by linarith) (by linarith)
    have hsq : ((-s1) * (1 - c)) ^ 2 < ((-s) * (1 - c1)) ^ 2 := by
      apply pow_lt_pow_left₀ hA hB (by norm_num)
    have e1 : ((-s) * (1 - c1)) ^ 2 = (1 - c) * (1 + c) * (1 - c1) ^ 2 := by
      have : s ^ 2 = (1 - c) * (1 + c) := by linear_combination h
      rw [mul_pow, neg_sq, this]
    have e2 : ((-s1) * (1 - c)) ^ 2 = (1 - c1) * (1 + c1) * (1 - c) ^ 2 := by
      have : s1 ^ 2 = (1 - c1) * (1 + c1) := by linear_combination h1
      rw [mul_pow, neg_sq, this]
    rw [e1, e2] at hsq
    have hprod : 0 ≤ (1 - c) * (1 - c1) * (2 * (c1 - c)) := by
      apply mul_nonneg (mul_nonneg (by linarith) (by linarith)) (by linarith)
    nlinarith

/-- the travel normal of three points of a circle given by their angles: orientation value. -/
theorem orient_of_travel_normal (a1 a2 a3 n1 n2 n3 ρ2 L c s c1 s1 : K)
    (h0 : a1 * n1 + a2 * n2 + a3 * n3 = 0) (hρ : ρ2 = a1 ^ 2 + a2 ^ 2 + a3 ^ 2)
    (hL : L ^ 2 = n1 ^ 2 + n2 ^ 2 + n3 ^ 2) (hLpos : 0 < L)
    (hn1 : n1 = ((a2 - (c * a2 + s * ((n3 * a1 - n1 * a3) / L))) * ((c1 * a3 + s1 * ((n1 * a2 - n2 * a1) / L)) - (c * a3 + s * ((n1 * a2 - n2 * a1) / L)))
               - (a3 - (c * a3 + s * ((n1 * a2 - n2 * a1) / L))) * ((c1 * a2 + s1 * ((n3 * a1 - n1 * a3) / L)) - (c * a2 + s * ((n3 * a1 - n1 * a3) / L)))))
    (hn2 : n2 = ((a3 - (c * a3 + s * ((n1 * a2 - n2 * a1) / L))) * ((c1 * a1 + s1 * ((n2 * a3 - n3 * a2) / L)) - (c * a1 + s * ((n2 * a3 - n3 * a2) / L)))
               - (a1 - (c * a1 + s * ((n2 * a3 - n3 * a2) / L))) * ((c1 * a3 + s1 * ((n1 * a2 - n2 * a1) / L)) - (c * a3 + s * ((n1 * a2 - n2 * a1) / L)))))
    (hn3 : n3 = ((a1 - (c * a1 + s * ((n2 * a3 - n3 * a2) / L))) * ((c1 * a2 + s1 * ((n3 * a1 - n1 * a3) / L)) - (c * a2 + s * ((n3 * a1 - n1 * a3) / L)))
               - (a2 - (c * a2 + s * ((n3 * a1 - n1 * a3) / L))) * ((c1 * a1 + s1 * ((n2 * a3 - n3 * a2) / L)) - (c * a1 + s * ((n2 * a3 - n3 * a2) / L))))) :
    (s1 * (1 - c) + s * (c1 - 1)) * ρ2 = L := by
  have hL0 : L ≠ 0 := ne_of_gt hLpos
  set κ := s1 * (1 - c) + s * (c1 - 1) with hκ
  have key : n1 * ((a2 - (c * a2 + s * ((n3 * a1 - n1 * a3) / L))) * ((c1 * a3 + s1 * ((n1 * a2 - n2 * a1) / L)) - (c * a3 + s * ((n1 * a2 - n2 * a1) / L)))
               - (a3 - (c * a3 + s * ((n1 * a2 - n2 * a1) / L))) * ((c1 * a2 + s1 * ((n3 * a1 - n1 * a3) / L)) - (c * a2 + s * ((n3 * a1 - n1 * a3) / L))))
      + n2 * ((a3 - (c * a3 + s * ((n1 * a2 - n2 * a1) / L))) * ((c1 * a1 + s1 * ((n2 * a3 - n3 * a2) / L)) - (c * a1 + s * ((n2 * a3 - n3 * a2) / L)))
               - (a1 - (c * a1 + s * ((n2 * a3 - n3 * a2) / L))) * ((c1 * a3 + s1 * ((n1 * a2 - n2 * a1) / L)) - (c * a3 + s * ((n1 * a2 - n2 * a1) / L))))
      + n3 * ((a1 - (c * a1 + s * ((n2 * a3 - n3 * a2) / L))) * ((c1 * a2 + s1 * ((n3 * a1 - n1 * a3) / L)) - (c * a2 + s * ((n3 * a1 - n1 * a3) / L)))
               - (a2 - (c * a2 + s * ((n3 * a1 - n1 * a3) / L))) * ((c1 * a1 + s1 * ((n2 * a3 - n3 * a2) / L)) - (c * a1 + s * ((n2 * a3 - n3 * a2) / L))))
      = κ * ((n1 ^ 2 + n2 ^ 2 + n3 ^ 2) * (a1 ^ 2 + a2 ^ 2 + a3 ^ 2) - (a1 * n1 + a2 * n2 + a3 * n3) ^ 2) / L := by
    rw [hκ]; field_simp; ring
  rw [← hn1, ← hn2, ← hn3, h0, ← hL, ← hρ] at key
  have hL2 : L ^ 2 ≠ 0 := pow_ne_zero 2 hL0
  have e : L ^ 2 * L = L ^ 2 * (κ * ρ2) := by
    have h2 : n1 * n1 + n2 * n2 + n3 * n3 = L ^ 2 := by rw [hL]; ring
    rw [h2] at key
    field_simp at key
    linear_combination key
  exact (mul_left_cancel₀ hL2 e).symm

end Splipy.Fac
