import Splipy.Lemmas.C18NumberingE

/-!
# C18 — the read phase is idempotent: the final numbers are transported onto themselves
-/

set_option linter.unusedSectionVars false

namespace Splipy.MP.C18L

open Splipy.MP

variable {α : Type} [Inhabited α]

theorem ndarr_ext_getD {a b : NdArr α} (hs : a.shape = b.shape) (ha : a.SizeOK) (hb : b.SizeOK)
    (h : ∀ q, q < shapeSize a.shape → a.data.getD q default = b.data.getD q default) : a = b := by
  obtain ⟨sa, da⟩ := a
  obtain ⟨sb, db⟩ := b
  simp only [NdArr.SizeOK] at ha hb hs h
  subst hs
  congr 1
  apply Array.ext
  · rw [ha, hb]
  · intro i h1 h2
    have := h i (by rw [← ha]; exact h1)
    simpa [Array.getD, h1, h2] using this

theorem resolveView_congr (A A' : Array (NdArr α)) (v : CpView) (h : A'.getD v.top default = A.getD v.top default) :
    resolveView A' v = resolveView A v := by
  unfold resolveView; rw [h]

theorem getD_default_of_ge (A : Array (NdArr α)) {k : ℕ} (h : ¬ k < A.size) : A.getD k default = default := by
  rw [Array.getD_eq_getD_getElem?, Array.getElem?_eq_none (by omega)]; rfl

/-- the loop over the faces of patch `k` gives the same array `k` from two states that agree on the
    arrays that are read (`Pr`), and at `k` on the positions no remaining face overwrites -/
theorem readFaces_congr (k : ℕ) (s : List ℕ) (Pr : ℕ → Prop) (hPr : ∀ i, Pr i → i ≠ k) :
    ∀ (fs : List FaceLink) (A A' B : Array (NdArr α)),
    (∀ f ∈ fs, f.owned = false → ∀ v, f.src = some v → Pr v.top) →
    A'.size = A.size → (∀ i, Pr i → A'.getD i default = A.getD i default) →
    (A.getD k default).shape = s → (A'.getD k default).shape = s →
    (A.getD k default).SizeOK → (A'.getD k default).SizeOK →
    (∀ q, q < shapeSize s → ¬ FlaggedBy fs s q →
      (A'.getD k default).data.getD q default = (A.getD k default).data.getD q default) →
    fs.foldlM (readFace k) A = .ok B →
    ∃ B', fs.foldlM (readFace k) A' = .ok B' ∧ B'.getD k default = B.getD k default
  | [], A, A', B, _, _, _, hs, hs', hw, hw', hag, h => by
    simp only [List.foldlM_nil, pure, Except.pure, Except.ok.injEq] at h
    subst h
    refine ⟨A', rfl, ndarr_ext_getD (by rw [hs, hs']) hw' hw (fun q hq => ?_)⟩
    rw [hs'] at hq
    exact hag q hq (by rintro ⟨f, hf, _⟩; simp at hf)
  | f :: fs, A, A', B, hord, hsz, hsame, hs, hs', hw, hw', hag, h => by
    rw [List.foldlM_cons] at h ⊢
    simp only [bind, Except.bind] at h ⊢
    split at h
    · cases h
    · rename_i A1 hA1
      rcases readFace_ok hA1 with ⟨ho, rfl⟩ | ⟨ho, ori, v, hori, hv, hshape, rfl⟩
      · -- owned: nothing happens
        have h1 : readFace k A' f = .ok A' := by unfold readFace; simp [ho]
        rw [h1]
        refine readFaces_congr k s Pr hPr fs A1 A' B (fun g hg => hord g (List.mem_cons_of_mem _ hg)) hsz hsame hs hs'
          hw hw' (fun q hq hnf => hag q hq ?_) h
        rintro ⟨g, hg, hg1, hg2⟩
        rcases List.mem_cons.1 hg with rfl | hg'
        · rw [ho] at hg1; cases hg1
        · exact hnf ⟨g, hg', hg1, hg2⟩
      · have hpr := hord f (by simp) ho v hv
        have hrv : resolveView A' v = resolveView A v := resolveView_congr A A' v (hsame _ hpr)
        have h1 : readFace k A' f = .ok (A'.setIfInBounds k ((A'.getD k default).setSect f.sec
            (ori.mapArray (resolveView A v)))) := by
          unfold readFace
          simp only [ho, Bool.false_eq_true, if_false, hori, hv, hrv]
          rw [hs'] ; rw [hs] at hshape
          simp [hshape]
        rw [h1]
        by_cases hk : k < A.size
        · have hk' : k < A'.size := by rw [hsz]; exact hk
          refine readFaces_congr k s Pr hPr fs _ _ B (fun g hg => hord g (List.mem_cons_of_mem _ hg))
            (by simp [hsz]) ?_ ?_ ?_ ?_ ?_ ?_ h
          · intro i hi
            rw [getD_setIfInBounds, getD_setIfInBounds]
            simp [hPr i hi, hsame i hi]
          · rw [getD_setIfInBounds, if_pos ⟨rfl, hk⟩, setSect_shape, hs]
          · rw [getD_setIfInBounds, if_pos ⟨rfl, hk'⟩, setSect_shape, hs']
          · rw [getD_setIfInBounds, if_pos ⟨rfl, hk⟩]; exact setSect_wf _ _ _
          · rw [getD_setIfInBounds, if_pos ⟨rfl, hk'⟩]; exact setSect_wf _ _ _
          · intro q hq hnf
            rw [getD_setIfInBounds, getD_setIfInBounds, if_pos ⟨rfl, hk'⟩, if_pos ⟨rfl, hk⟩]
            rw [setSect_getD _ _ _ (by rw [hs']; exact hq), setSect_getD _ _ _ (by rw [hs]; exact hq), hs, hs']
            by_cases hon : onSection f.sec s (unravel s q) = true
            · rw [if_pos hon, if_pos hon]
            · rw [if_neg hon, if_neg hon]
              refine hag q hq ?_
              rintro ⟨g, hg, hg1, hg2⟩
              rcases List.mem_cons.1 hg with rfl | hg'
              · exact hon hg2
              · exact hnf ⟨g, hg', hg1, hg2⟩
        · -- `k` outside the array: nothing is written
          have hk' : ¬ k < A'.size := by rw [hsz]; exact hk
          have e1 : A.setIfInBounds k ((A.getD k default).setSect f.sec (ori.mapArray (resolveView A v))) = A :=
            Array.setIfInBounds_eq_of_size_le (by omega)
          have e2 : A'.setIfInBounds k ((A'.getD k default).setSect f.sec (ori.mapArray (resolveView A v))) = A' :=
            Array.setIfInBounds_eq_of_size_le (by omega)
          rw [e1] at h
          rw [e2]
          refine readFaces_congr k s Pr hPr fs A A' B (fun g hg => hord g (List.mem_cons_of_mem _ hg)) hsz hsame hs hs'
            hw hw' (fun q hq _ => ?_) h
          rw [getD_default_of_ge A hk, getD_default_of_ge A' hk']

end Splipy.MP.C18L

namespace Splipy.MP.C18L

open Splipy.MP

variable {α : Type} [Inhabited α]

theorem readFaces_size (k : ℕ) : ∀ (fs : List FaceLink) (A B : Array (NdArr α)),
    fs.foldlM (readFace k) A = .ok B → B.size = A.size
  | [], A, B, h => by
    simp only [List.foldlM_nil, pure, Except.pure, Except.ok.injEq] at h
    subst h; rfl
  | f :: fs, A, B, h => by
    rw [List.foldlM_cons] at h
    simp only [bind, Except.bind] at h
    split at h
    · cases h
    · rename_i A1 hA1
      rw [readFaces_size k fs A1 B h, readFace_size hA1]

/-- the steps `off …` give the same arrays from two states that agree on the arrays already done
    and on the unflagged positions of the arrays still to do -/
theorem runFrom_congr (plans : List PatchPlan) (hord : WellOrdered plans) :
    ∀ (l : List PatchPlan) (off : ℕ) (A A' B : Array (NdArr α)),
    (∀ i p, l[i]? = some p → plans[off + i]? = some p) →
    Shaped plans A → Shaped plans A' → A'.size = A.size →
    (∀ j, j < off → A'.getD j default = A.getD j default) →
    (∀ k p, off ≤ k → plans[k]? = some p → ∀ q, q < shapeSize p.shape → ¬ Flagged p q →
      (A'.getD k default).data.getD q default = (A.getD k default).data.getD q default) →
    runFrom l off A = .ok B →
    ∃ B', runFrom l off A' = .ok B' ∧ B'.size = B.size ∧
      (∀ j, j < off + l.length → B'.getD j default = B.getD j default) ∧
      (∀ j, off + l.length ≤ j → B'.getD j default = A'.getD j default ∧ B.getD j default = A.getD j default)
  | [], off, A, A', B, _, _, _, hsz, hlt, _, h => by
    simp only [runFrom, List.zipIdx_nil, List.foldlM_nil, pure, Except.pure, Except.ok.injEq] at h
    subst h
    exact ⟨A', rfl, hsz, fun j hj => hlt j (by simpa using hj), fun j _ => ⟨rfl, rfl⟩⟩
  | p :: l, off, A, A', B, hl, hsh, hsh', hsz, hlt, hun, h => by
    simp only [runFrom, List.zipIdx_cons, List.foldlM_cons, bind, Except.bind] at h ⊢
    split at h
    · cases h
    · rename_i A1 hA1
      have hp : plans[off]? = some p := by simpa using hl 0 p (by simp)
      obtain ⟨hs, hwf⟩ := hsh off p hp
      obtain ⟨hs', hwf'⟩ := hsh' off p hp
      have hordp : ∀ f ∈ p.faces, f.owned = false → ∀ v, f.src = some v → v.top < off :=
        fun f hf ho v hv => hord off p hp f hf ho v hv
      obtain ⟨A1', hA1', hkeq⟩ := readFaces_congr off p.shape (fun i => i < off) (fun i hi => by omega)
        p.faces A A' A1 hordp hsz (fun i hi => hlt i hi) hs hs' hwf hwf'
        (fun q hq hnf => hun off p (le_refl _) hp q hq hnf) hA1
      have hA1'' : readOneG off p A' = .ok A1' := hA1'
      rw [hA1'']
      obtain ⟨s1, s2, s3, -⟩ := readFaces_spec off p.shape (fun i => i < off) (fun i hi => by omega)
        p.faces A A1 hA1 hs hwf hordp
      obtain ⟨s1', s2', s3', -⟩ := readFaces_spec off p.shape (fun i => i < off) (fun i hi => by omega)
        p.faces A' A1' hA1' hs' hwf' hordp
      have hsh1 : Shaped plans A1 := by
        intro k p' hp'
        by_cases hk : k = off
        · subst hk; rw [hp] at hp'; cases hp'; exact ⟨s2, s3⟩
        · rw [s1 k hk]; exact hsh k p' hp'
      have hsh1' : Shaped plans A1' := by
        intro k p' hp'
        by_cases hk : k = off
        · subst hk; rw [hp] at hp'; cases hp'; exact ⟨s2', s3'⟩
        · rw [s1' k hk]; exact hsh' k p' hp'
      obtain ⟨B', hB', hBsz, hB1, hB2⟩ := runFrom_congr plans hord l (off + 1) A1 A1' B
        (fun i p' hi => by
          have := hl (i + 1) p' (by simpa using hi)
          rw [show off + 1 + i = off + (i + 1) by omega]; exact this)
        hsh1 hsh1'
        (by rw [readFaces_size off p.faces A' A1' hA1', readFaces_size off p.faces A A1 hA1, hsz])
        (fun j hj => by
          by_cases hjo : j = off
          · subst hjo; exact hkeq
          · rw [s1' j hjo, s1 j hjo]; exact hlt j (by omega))
        (fun k p' hk hp' q hq hnf => by
          rw [s1' k (by omega), s1 k (by omega)]
          exact hun k p' (by omega) hp' q hq hnf) h
      refine ⟨B', hB', hBsz, fun j hj => hB1 j (by simp at hj ⊢; omega), fun j hj => ?_⟩
      simp only [List.length_cons] at hj
      obtain ⟨e1, e2⟩ := hB2 j (by omega)
      exact ⟨by rw [e1, s1' j (by omega)], by rw [e2, s1 j (by omega)]⟩

theorem runFrom_size : ∀ (l : List PatchPlan) (off : ℕ) (A B : Array (NdArr α)), runFrom l off A = .ok B → B.size = A.size
  | [], off, A, B, h => by
    simp only [runFrom, List.zipIdx_nil, List.foldlM_nil, pure, Except.pure, Except.ok.injEq] at h
    subst h; rfl
  | p :: l, off, A, B, h => by
    simp only [runFrom, List.zipIdx_cons, List.foldlM_cons, bind, Except.bind] at h
    split at h
    · cases h
    · rename_i A1 hA1
      have := runFrom_size l (off + 1) A1 B h
      rw [this]
      exact readFaces_size off p.faces A A1 hA1

/-- **idempotence**: transporting the RESULT of the read phase through the face links once more
    reproduces it. -/
theorem readAllG_idem (plans : List PatchPlan) (hord : WellOrdered plans) (A B : Array (NdArr α))
    (hsh : Shaped plans A) (hsz : A.size = plans.length) (h : readAllG plans A = .ok B) : readAllG plans B = .ok B := by
  rw [readAllG_eq_runFrom] at h ⊢
  obtain ⟨hshB, -, hspec⟩ := runFrom_spec plans hord plans 0 A B (fun i p h => by simpa using h) h hsh
  have hBsz := runFrom_size plans 0 A B h
  obtain ⟨B', hB', hsz', hB1, hB2⟩ := runFrom_congr plans hord plans 0 A B B (fun i p h => by simpa using h)
    hsh hshB hBsz (fun j hj => by omega)
    (fun k p _ hp q hq hnf => by
      have hk : k < 0 + plans.length := by
        have := (List.getElem?_eq_some_iff.1 hp).1; omega
      exact (hspec k p (Nat.zero_le _) hk hp q hq).1 hnf) h
  rw [hB']
  congr 1
  apply Array.ext (by rw [hsz'])
  intro i h1 h2
  have hi : i < 0 + plans.length := by rw [hBsz, hsz] at h2; omega
  have := hB1 i hi
  simpa [Array.getD, h1, h2] using this

end Splipy.MP.C18L
