import Splipy.Lemmas.C04Refine
import Mathlib.Algebra.Order.BigOperators.Group.Finset
import Mathlib.Algebra.BigOperators.Intervals

/-!
# C04 helper lemmas, part 14: the knot values of `geometric_refine`
-/

namespace Splipy
namespace C04

set_option linter.unusedSectionVars false

variable {K : Type} [Field K] [LinearOrder K] [IsStrictOrderedRing K] [FloorRing K]

/-- `Σ_{j<m} α^j` -/
def geoS (α : K) (m : ℕ) : K := (Finset.range m).sum (fun j => α ^ j)

theorem geoS_succ (α : K) (m : ℕ) : geoS α (m + 1) = geoS α m + α ^ m := by
  unfold geoS; rw [Finset.sum_range_succ]

theorem geoS_pos (α : K) (hα : 0 < α) (m : ℕ) (hm : 0 < m) : 0 < geoS α m := by
  induction m with
  | zero => omega
  | succ m ih =>
    rw [geoS_succ]
    rcases Nat.eq_zero_or_pos m with h | h
    · subst h; simp [geoS]
    · exact add_pos (ih h) (pow_pos hα m)

theorem geoS_strictMono (α : K) (hα : 0 < α) {a b : ℕ} (h : a < b) : geoS α a < geoS α b := by
  induction b with
  | zero => omega
  | succ b ih =>
    rw [geoS_succ]
    rcases Nat.lt_or_ge a b with h' | h'
    · exact lt_trans (ih h') (lt_add_of_pos_right _ (pow_pos hα b))
    · have : a = b := by omega
      subst this
      exact lt_add_of_pos_right _ (pow_pos hα a)

theorem geoFold1 (α : K) (m : ℕ) :
    (List.range m).foldl (fun (sp : K × K) _ => (sp.1 + sp.2, sp.2 * α)) (0, 1) = (geoS α m, α ^ m) := by
  induction m with
  | zero => simp [geoS]
  | succ m ih =>
    rw [List.range_succ, List.foldl_append, ih]
    simp only [List.foldl_cons, List.foldl_nil]
    rw [geoS_succ, pow_succ]

theorem geoFold2 (α ks dk d0 : K) (i : ℕ) :
    (List.range i).foldl (fun (st : List K × K × K) _ =>
        (st.1 ++ [ks + st.2.1 * dk], st.2.1 + α * st.2.2, st.2.2 * α)) ([], d0, d0)
      = ((List.range i).map (fun j => ks + (geoS α (j + 1) * d0) * dk), geoS α (i + 1) * d0, α ^ i * d0) := by
  induction i with
  | zero => simp [geoS]
  | succ i ih =>
    rw [List.range_succ, List.foldl_append, ih]
    simp only [List.foldl_cons, List.foldl_nil, List.map_append, List.map_cons, List.map_nil]
    congr 1
    congr 1
    · rw [geoS_succ α (i + 1)]; ring
    · rw [pow_succ]; ring

/-- The values `geometric_refine` computes for `α > 0`: `n` of them, each strictly between
    `knot_start` and `knot_end` (when these differ), namely `ks + (Σ_{j≤i} α^j / Σ_{j≤n} α^j)·(ke-ks)`. -/
theorem geometricValues_spec (α : K) (hα : 0 < α) (n : ℕ) (ks ke : K) :
    ∃ vals, Obj.geometricValues α n ks ke = .ok vals ∧ vals.length = n ∧
      (∀ v ∈ vals, ∃ j, j < n ∧ v = ks + (geoS α (j + 1) / geoS α (n + 1)) * (ke - ks)) ∧
      (ks < ke → ∀ v ∈ vals, ks < v ∧ v < ke) ∧ (ks = ke → ∀ v ∈ vals, v = ks) := by
  have hS : 0 < geoS α (n + 1) := geoS_pos α hα _ (by omega)
  have hform : Obj.geometricValues α n ks ke
      = .ok ((List.range n).map (fun j => ks + (geoS α (j + 1) * (1 / geoS α (n + 1))) * (ke - ks))) := by
    unfold Obj.geometricValues
    simp only [geoFold1]
    rw [if_neg (ne_of_gt hS)]
    have := geoFold2 α ks (ke - ks) (1 / geoS α (n + 1)) (n + 1 - 1)
    simp only [Nat.add_sub_cancel] at this ⊢
    rw [this]
  have hmem : ∀ v ∈ (List.range n).map (fun j => ks + (geoS α (j + 1) * (1 / geoS α (n + 1))) * (ke - ks)),
      ∃ j, j < n ∧ v = ks + (geoS α (j + 1) / geoS α (n + 1)) * (ke - ks) := by
    intro v hv
    simp only [List.mem_map, List.mem_range] at hv
    obtain ⟨j, hj, rfl⟩ := hv
    exact ⟨j, hj, by rw [mul_one_div]⟩
  refine ⟨_, hform, by simp, hmem, fun hlt v hv => ?_, fun heq v hv => ?_⟩
  · obtain ⟨j, hj, rfl⟩ := hmem v hv
    have h1 : 0 < geoS α (j + 1) / geoS α (n + 1) := div_pos (geoS_pos α hα _ (by omega)) hS
    have h2 : geoS α (j + 1) / geoS α (n + 1) < 1 :=
      (div_lt_one hS).2 (geoS_strictMono α hα (by omega))
    have hd : 0 < ke - ks := sub_pos.2 hlt
    constructor
    · have := mul_pos h1 hd; linarith
    · have := mul_lt_mul_of_pos_right h2 hd; linarith
  · obtain ⟨j, hj, rfl⟩ := hmem v hv
    rw [heq, sub_self, mul_zero, add_zero]


theorem spanFold_size (tol : K) (ks : List K) (acc : Array K) (h : 0 < acc.size) :
    0 < (ks.foldl (spanStep tol) acc).size := by
  induction ks generalizing acc with
  | nil => exact h
  | cons k ks ih =>
    simp only [List.foldl_cons]
    apply ih
    unfold spanStep
    split_ifs
    · simp
    · exact h

theorem knotSpans_ne_nil (b : Basis K) (tol : K) : (b.knotSpans tol false).toList ≠ [] := by
  have : 0 < (b.knotSpans tol false).size := by
    unfold Basis.knotSpans
    exact spanFold_size tol _ _ (by simp)
  intro h
  have h2 : (b.knotSpans tol false).size = 0 := by rw [← Array.length_toList, h]; rfl
  omega

theorem head_le_last (l : List K) (hl : l.Pairwise (· < ·)) (hne : l ≠ []) :
    l.headD 0 ∈ l ∧ l.getLastD 0 ∈ l ∧ (l.headD 0 = l.getLastD 0 ∨ l.headD 0 < l.getLastD 0) := by
  cases l with
  | nil => exact absurd rfl hne
  | cons a t =>
    cases t with
    | nil => simp
    | cons b t' =>
      have hlast : (a :: b :: t').getLastD 0 = (b :: t').getLast (by simp) := by
        simp [List.getLastD]
      refine ⟨by simp, ?_, Or.inr ?_⟩
      · rw [hlast]; exact List.mem_cons_of_mem _ (List.getLast_mem _)
      · rw [hlast]
        exact (List.pairwise_cons.1 hl).1 _ (List.getLast_mem _)

theorem knotExists_self (atol rtol : K) (ha : 0 ≤ atol) (hr : 0 ≤ rtol) (l : List K) (e : K)
    (he : e ∈ l) : knotExists atol rtol l e = true := by
  unfold knotExists
  rw [List.any_eq_true]
  refine ⟨e, he, ?_⟩
  rw [decide_eq_true_eq, sub_self, abs_zero]
  exact add_nonneg ha (mul_nonneg hr (abs_nonneg e))

/-- What `geometric_refine(obj, α, n, direction)` (no `reverse`) inserts, for `α > 0`, `n ≥ 1`,
    non-negative tolerances, along a valid direction: it IS `insert_knot` of a list of values that all
    lie in `[start, end)` — in fact strictly inside the domain. -/
theorem geometricRefine_values (o : Obj K) (tol atol rtol α : K) (htol : 0 ≤ tol) (hat : 0 ≤ atol)
    (hrt : 0 ≤ rtol) (hα : 0 < α) (n : ℕ) (hn : 1 ≤ n) (dir : ℕ) (hpd : dir < o.pardim)
    (hv : (o.basis dir).Valid) :
    ∃ xs : List K, o.geometricRefine tol atol rtol α (n : Int) dir false = o.insertKnots xs dir ∧
      xs.length ≤ n ∧ ∀ v ∈ xs, (o.basis dir).start < v ∧ v < (o.basis dir).stop := by
  obtain ⟨hs1, hs2⟩ := knotSpans_spec (o.basis dir) hv tol htol
  set spans := ((o.basis dir).knotSpans tol false).toList with hsp
  obtain ⟨hh, hl, hcmp⟩ := head_le_last spans hs1 (knotSpans_ne_nil _ _)
  obtain ⟨vals, hvals, hlen, _, hlt, heq⟩ :=
    geometricValues_spec α hα n (spans.headD 0) (spans.getLastD 0)
  refine ⟨vals.filter (fun k => !knotExists atol rtol spans k), ?_, ?_, ?_⟩
  · unfold Obj.geometricRefine
    have h0 : ¬ ((n : Int) ≤ 0) := by omega
    simp only [h0, hpd, not_true_eq_false, if_false, Bool.false_eq_true, Int.toNat_natCast, ← hsp, hvals]
    unfold Obj.insertFiltered Obj.insertKnotDir
    simp only [hpd, if_true, ← hsp]
    simp only [bind_pure]
    rfl
  · exact le_trans (List.length_filter_le _ _) (le_of_eq hlen)
  · intro v hv'
    rw [List.mem_filter] at hv'
    obtain ⟨hvm, hvf⟩ := hv'
    rcases hcmp with hc | hc
    · exfalso
      have : v = spans.headD 0 := heq hc v hvm
      rw [this, knotExists_self atol rtol hat hrt spans _ hh] at hvf
      simp at hvf
    · obtain ⟨h1, h2⟩ := hlt hc v hvm
      exact ⟨lt_of_le_of_lt (hs2 _ hh).1 h1, lt_of_lt_of_le h2 (hs2 _ hl).2⟩

end C04
end Splipy
