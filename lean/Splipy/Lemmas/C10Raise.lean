import Splipy.Properties.C05
import Splipy.Lemmas.C10Basic
import Splipy.Lemmas.C10Ctor
import Splipy.Model.History

/-!
# C10: `raise_order` / `lower_order` keep an object well formed (clamped bases, built on C05)

Built on the C05 theorems (`C05_geometry_clamped_full/_surface/_volume`,
`C05_lower_left_inverse_clamped/_surface/_volume`, `dirOK_clamped`); nothing of C05 is re-proved.
New here:

* `C10R.colsum_one` / `C10R.dirOK_clamped_pos`: every column of the (non-negative) degree-elevation
  matrix of a clamped continuous direction sums to ONE (elevate the constant `1`; partition of unity
  of both bases on the domain; uniqueness by Schoenberg–Whitney at the Greville abscissae,
  `greville_colloc_injective`).  Hence positive weights stay STRICTLY positive;
* `C10R.reinterpolate_wf`: the net returned by the interpolation of `raise_order_implicit` /
  `lower_order` is a full array (every `tensordot` is an `Array.ofFn` of the right size);
* `Obj.WellFormed.toC06` / `of_C06`: bridges to the C06/C05 predicate `C06.WF`;
* `History.stepOut_raiseOrder_wf_partial`: curves, surfaces, volumes, all calling patterns;
* `History.stepOut_lowerOrder_wf_partial` (left-inverse form) and `stepOut_lowerOrder_zero`;
* non-vacuity over `ℚ` (`exCurve_runs`, `exSurf_runs`).
-/

set_option linter.unusedSectionVars false
set_option linter.unusedVariables false

namespace Splipy

variable {K : Type} [Field K] [LinearOrder K] [IsStrictOrderedRing K] [FloorRing K]

open Finset

/-! ## 0. The columns of a degree-elevation matrix sum to one -/

namespace C10R

/-- A positive combination with non-negative weights that sum to one is positive. -/
theorem sum_mul_pos (n : ℕ) (f w : ℕ → K) (hf : ∀ j, j < n → 0 < f j) (hw : ∀ j, 0 ≤ w j)
    (h1 : ∑ j ∈ range n, w j = 1) : 0 < ∑ j ∈ range n, f j * w j := by
  apply Finset.sum_pos'
  · intro j hj; exact mul_nonneg (hf j (mem_range.mp hj)).le (hw j)
  · by_contra hcon
    push Not at hcon
    have : ∑ j ∈ range n, w j = 0 := by
      apply Finset.sum_eq_zero
      intro j hj
      have h2 := hcon j hj
      have h3 := hf j (mem_range.mp hj)
      have h4 := hw j
      by_contra hne
      have : 0 < w j := lt_of_le_of_ne h4 (Ne.symm hne)
      exact absurd (mul_pos h3 this) (not_lt.mpr h2)
    rw [this] at h1
    exact zero_ne_one h1

/-- Partition of unity of the Cox–de Boor functions of a valid non-periodic basis on its domain. -/
theorem spec_partition {b : Basis K} (hv : b.Valid) (hper : b.periodic = -1) (s : Side) (x : K)
    (hx : s.mem b.start b.stop x) :
    ∑ j ∈ range b.numFunctions, B s b.kn (b.order - 1) j x = 1 := by
  have hn : b.knots.size - b.order = b.numFunctions := by
    unfold Basis.numFunctions; rw [hper]; simp
  have hx' : s.mem (b.kn (b.order - 1)) (b.kn b.numFunctions) x := by
    rw [← hn]; exact hx
  obtain ⟨μ, h1, h2, h3⟩ := exists_span s b.kn hv.kn_mono _ _ x hx'
  exact B_sum_range_eq_one s b.kn hv.kn_mono (b.order - 1) μ b.numFunctions h1 h2 x h3

/-- **The columns of a degree-elevation matrix sum to one.**  `b'` clamped continuous of order
    `p ≥ 2`; `b` any valid non-periodic basis on the same domain; `E` represents the splines on `b`
    in `b'` at the Cox–de Boor level.  Elevating the constant `1` gives a spline on `b'` that equals
    `1` on the domain; by Schoenberg–Whitney at the Greville abscissae its coefficients are `1`. -/
theorem colsum_one (tol : K) (htol : 0 < tol) (p : ℕ) (hp : 2 ≤ p) (x0 xl : K)
    (umid : List K) (mmid : List ℕ) (hlen : umid.length = mmid.length)
    (hsep : Separated tol (clampedU x0 xl umid)) (hm : ∀ j ∈ mmid, 1 ≤ j)
    (hmq : ∀ j ∈ mmid, j ≤ p - 1) (b : Basis K) (hv : b.Valid) (hper : b.periodic = -1)
    (hstart : b.start = (openBasis p (clampedU x0 xl umid) (clampedM p mmid)).start)
    (hstop : b.stop = (openBasis p (clampedU x0 xl umid) (clampedM p mmid)).stop)
    (E : ℕ → ℕ → K) (hE : SpecVia b (openBasis p (clampedU x0 xl umid) (clampedM p mmid)) E) :
    ∀ k, k < (openBasis p (clampedU x0 xl umid) (clampedM p mmid)).numFunctions →
      ∑ j ∈ range b.numFunctions, E j k = 1 := by
  set b' := openBasis p (clampedU x0 xl umid) (clampedM p mmid) with hb'
  have hv' : b'.Valid := openBasis_clamped_valid tol htol.le p (by omega) x0 xl umid mmid hlen hsep
  have hper' : b'.periodic = -1 := rfl
  have hlenUM := clamped_lengths p x0 xl umid mmid hlen
  have hMpos := clampedM_pos p (by omega) mmid hm
  have hkn : ∀ n, b'.kn n = (clampedU x0 xl umid).getD (blkC (clampedM p mmid) n) 0 := by
    intro n
    rw [kn_eq_knSeq b' (expand (clampedU x0 xl umid) (clampedM p mmid)) rfl,
      knSeq_expand _ _ hlenUM hMpos]
  have hnf : b'.numFunctions = p + mmid.sum := by
    rw [hb', numFunctions_clamped p x0 xl umid mmid hlen, el_length_expand umid mmid hlen]
  have hord : b'.order = p := rfl
  obtain ⟨k0, k1, k2⟩ := blkC_clamped p hp mmid hmq
  have hτ := hv'.kn_mono
  have hq : 1 ≤ b'.order - 1 := by rw [hord]; omega
  have hn : b'.order - 1 + 1 ≤ b'.numFunctions := by rw [hord, hnf]; omega
  have hc0 : b'.kn 0 = b'.kn (b'.order - 1) := by rw [hord, hkn, hkn, k0]
  have hc1 : b'.kn b'.numFunctions = b'.kn (b'.numFunctions + (b'.order - 1)) := by
    rw [hord, hnf, hkn, hkn, k1]
  have hmult : ∀ i, 1 ≤ i → i < b'.numFunctions → b'.kn i < b'.kn (i + (b'.order - 1)) := by
    intro i hi1 hi2
    rw [hord, hkn, hkn]
    rw [hnf] at hi2
    apply separated_getD_lt tol htol.le _ hsep _ _ (k2 i hi1 hi2)
    have : blkC (clampedM p mmid) (i + (p - 1)) ≤ (clampedM p mmid).length - 1 := min_le_right _ _
    have hl2 : 1 ≤ (clampedM p mmid).length := by simp [clampedM]
    omega
  have hnp := greville_nestedPts b'.kn hτ (b'.order - 1) b'.numFunctions hq hn hc0 hc1 hmult
  have hn' : b'.knots.size - b'.order = b'.numFunctions := by
    unfold Basis.numFunctions; rw [hper']; simp
  -- every Greville abscissa lies in the domain, on the side used by the collocation row
  have hdom : ∀ l, l < b'.numFunctions →
      (grevSide b'.numFunctions l).mem b'.start b'.stop (grevilleAbscissa b'.kn (b'.order - 1) l) := by
    intro l hl
    have hst : b'.start = b'.kn (b'.order - 1) := rfl
    have hsp : b'.stop = b'.kn b'.numFunctions := by unfold Basis.stop; rw [hn']
    rw [hst, hsp, ← hnp.first, ← hnp.last]
    unfold grevSide
    by_cases hlast : l + 1 = b'.numFunctions
    · rw [if_pos hlast]
      have e : l = b'.numFunctions - 1 := by omega
      subst e
      refine ⟨?_, le_refl _⟩
      have := hnp.strict 0 (b'.numFunctions - 1 - 1) (by omega)
      rwa [show 0 + (b'.numFunctions - 1 - 1) + 1 = b'.numFunctions - 1 by omega] at this
    · rw [if_neg hlast]
      constructor
      · rcases Nat.eq_zero_or_pos l with h0 | h0
        · subst h0; exact le_refl _
        · have := hnp.strict 0 (l - 1) (by omega)
          rw [show 0 + (l - 1) + 1 = l by omega] at this
          exact this.le
      · have := hnp.strict l (b'.numFunctions - 1 - l - 1) (by omega)
        rwa [show l + (b'.numFunctions - 1 - l - 1) + 1 = b'.numFunctions - 1 by omega] at this
  have key := greville_colloc_injective b'.kn hτ (b'.order - 1) b'.numFunctions hq hn hc0 hc1 hmult
    (fun k => ∑ j ∈ range b.numFunctions, E j k - 1) (by
      intro l hl
      set s := grevSide b'.numFunctions l
      set x := grevilleAbscissa b'.kn (b'.order - 1) l
      have hd' := hdom l hl
      have hd : s.mem b.start b.stop x := by rw [hstart, hstop]; exact hd'
      have p1 := spec_partition hv hper s x hd
      have p2 := spec_partition hv' hper' s x hd'
      have hs := hE s (fun _ => 1) x
      unfold splineVal at hs
      simp only [mul_one, one_mul] at hs
      rw [p1] at hs
      rw [Finset.sum_congr rfl (fun k _ => sub_mul _ _ _), Finset.sum_sub_distrib, hs]
      simp only [one_mul]
      rw [p2]; ring)
  intro k hk
  have := key k hk
  linarith

/-- `dirOK_clamped` with the column sums: the elevation matrix of a clamped continuous direction is
    non-negative and every column sums to one (so every column has a positive entry). -/
theorem dirOK_clamped_pos (tol : K) (htol : 0 < tol) (q a : ℕ) (hqa : 1 ≤ q + a) (x0 xl : K)
    (umid : List K) (mmid : List ℕ) (hlen : umid.length = mmid.length)
    (hm : ∀ j ∈ mmid, 1 ≤ j ∧ j ≤ q)
    (hgap : Separated (2 * ((q + a : ℕ) : K) * tol) (clampedU x0 xl umid)) :
    ∃ E : ℕ → ℕ → K, (∀ i j, 0 ≤ E i j) ∧
      (∀ k, k < (openBasis (q+1+a) (clampedU x0 xl umid) (clampedM (q+1+a) (mmid.map (· + a)))).numFunctions →
        ∑ j ∈ range (openBasis (q+1) (clampedU x0 xl umid) (clampedM (q+1) mmid)).numFunctions, E j k = 1) ∧
      DirOK tol (openBasis (q+1) (clampedU x0 xl umid) (clampedM (q+1) mmid)) a
        (openBasis (q+1+a) (clampedU x0 xl umid) (clampedM (q+1+a) (mmid.map (· + a)))) E := by
  obtain ⟨E, hE0, hd⟩ := dirOK_clamped tol htol q a hqa x0 xl umid mmid hlen hm hgap
  refine ⟨E, hE0, ?_, hd⟩
  have hfac : tol ≤ 2 * ((q + a : ℕ) : K) * tol := by
    have h1 : (1 : K) ≤ ((q + a : ℕ) : K) := by exact_mod_cast hqa
    nlinarith
  have hsep : Separated tol (clampedU x0 xl umid) := separated_mono hfac hgap
  have hlen' : umid.length = (mmid.map (· + a)).length := by simpa using hlen
  rcases hd.same with ⟨_, _, hspec⟩ | ⟨hbb, hEid⟩
  · apply colsum_one tol htol (q+1+a) (by omega) x0 xl umid (mmid.map (· + a)) hlen' hsep
      (by
        intro j hj; rw [List.mem_map] at hj; obtain ⟨j0, hj0, rfl⟩ := hj
        have := (hm j0 hj0).1; omega)
      (by
        intro j hj; rw [List.mem_map] at hj; obtain ⟨j0, hj0, rfl⟩ := hj
        have := (hm j0 hj0).2; omega)
      _ (openBasis_clamped_valid tol htol.le (q+1) (by omega) x0 xl umid mmid hlen hsep) rfl
      (by rw [clamped_start (q+1+a) (by omega), clamped_start (q+1) (by omega)])
      (by rw [clamped_stop (q+1+a) (by omega) x0 xl umid _ hlen', clamped_stop (q+1) (by omega) x0 xl umid mmid hlen])
      E hspec
  · intro k hk
    rw [hEid, ← hbb]
    simp [Finset.sum_ite_eq', hk]

end C10R

/-! ## 1. Bridges between `Obj.WellFormed` (C10) and `C06.WF` -/

namespace Obj

theorem counts_eq_ofFn (o : Obj K) :
    o.counts = List.ofFn (fun d : Fin o.bases.size => (o.basis d).numFunctions) := by
  apply List.ext_getElem
  · simp [Obj.counts]
  · intro i h1 h2
    have hi : i < o.bases.size := by simpa [Obj.counts] using h1
    simp [Obj.counts, Obj.basis, Array.getD]

theorem WellFormed.toC06 {o : Obj K} (h : o.WellFormed) : C06.WF o o.bases.size where
  size := rfl
  valid := fun d => h.valid d d.isLt
  shape := by
    rw [h.shape_eq', counts_eq_ofFn]; rfl

theorem WellFormed.of_C06 {o' : Obj K} {m : ℕ} (hw : C06.WF o' m)
    (hsize : o'.cps.data.size = Tensor.prod o'.cps.shape) (hdim : 1 ≤ o'.dimension)
    (hpos : o'.WeightsPos) : o'.WellFormed := by
  have hcounts : o'.cps.shape = o'.counts ++ [o'.ncomp] := by
    rw [hw.shape, counts_eq_ofFn]
    have := hw.size
    subst this
    rfl
  have hnc : o'.ncomp = o'.ncompSpec := by
    unfold Obj.ncompSpec
    unfold Obj.dimension at hdim ⊢
    split_ifs at hdim ⊢ <;> omega
  refine WellFormed.of_weightsPos ?_ (by rw [← hnc]; exact hcounts) hsize hdim ?_ hpos
  · rw [pardim_of_shape hcounts, counts_length]
  · intro d hd
    exact hw.valid ⟨d, by rw [← hw.size]; exact hd⟩

end Obj

/-! ## 2. The result net of `raise_order_implicit` / `lower_order` has as many entries as its shape says -/

namespace C10R

/-- `np.tensordot(M, t, axes=(1, pardim-1))` always produces a full array of the same rank. -/
theorem tensordotFront_wf (M : Mat K) (t : Tensor K) (pd : ℕ) (h : pd - 1 < t.shape.length) :
    (Tensor.tensordotFront M t pd).data.size = Tensor.prod (Tensor.tensordotFront M t pd).shape
      ∧ (Tensor.tensordotFront M t pd).shape.length = t.shape.length := by
  unfold Tensor.tensordotFront
  simp only [Array.size_ofFn, List.length_cons]
  refine ⟨?_, ?_⟩
  · rw [C06.prod_cons, List.eraseIdx_eq_take_drop_succ, C06.prod_append, Nat.mul_assoc]
  · rw [List.length_eraseIdx_of_lt h]; omega

theorem foldl_tensordotFront_wf (pd : ℕ) (Ns : List (Mat K)) (t : Tensor K)
    (ht : t.data.size = Tensor.prod t.shape) (hl : pd - 1 < t.shape.length) :
    (Ns.foldl (fun t N => Tensor.tensordotFront N t pd) t).data.size
        = Tensor.prod (Ns.foldl (fun t N => Tensor.tensordotFront N t pd) t).shape
      ∧ (Ns.foldl (fun t N => Tensor.tensordotFront N t pd) t).shape.length = t.shape.length := by
  induction Ns generalizing t with
  | nil => exact ⟨ht, rfl⟩
  | cons N Ns ih =>
    obtain ⟨h1, h2⟩ := tensordotFront_wf N t pd hl
    obtain ⟨h3, h4⟩ := ih (Tensor.tensordotFront N t pd) h1 (by rw [h2]; exact hl)
    exact ⟨h3, h4.trans h2⟩

theorem solveChain_wf (pd : ℕ) (Ns : List (Mat K)) (t T : Tensor K)
    (ht : t.data.size = Tensor.prod t.shape) (hl : pd - 1 < t.shape.length)
    (hs : Obj.solveChain pd Ns t = .ok T) :
    T.data.size = Tensor.prod T.shape ∧ T.shape.length = t.shape.length := by
  induction Ns generalizing t with
  | nil =>
    simp only [Obj.solveChain] at hs
    injection hs with hs; subst hs; exact ⟨ht, rfl⟩
  | cons N Ns ih =>
    simp only [Obj.solveChain] at hs
    split at hs
    · cases hs
    · rename_i Ni hNi
      obtain ⟨h1, h2⟩ := tensordotFront_wf Ni t pd hl
      obtain ⟨h3, h4⟩ := ih (Tensor.tensordotFront Ni t pd) h1 (by rw [h2]; exact hl) hs
      exact ⟨h3, h4.trans h2⟩

/-- The interpolation shared by `raise_order_implicit` and `lower_order` returns a full array of
    the same rank. -/
theorem reinterpolate_wf (o : Obj K) (tol : K) (nb : List (Basis K)) (T : Tensor K)
    (ht : o.cps.data.size = Tensor.prod o.cps.shape) (hpd : 0 < o.cps.shape.length)
    (hs : o.reinterpolate tol nb = .ok T) :
    T.data.size = Tensor.prod T.shape ∧ T.shape.length = o.cps.shape.length := by
  unfold Obj.reinterpolate at hs
  split at hs
  · cases hs
  · rename_i pts hpts
    simp only [] at hs
    have hl : o.pardim - 1 < o.cps.shape.length := by unfold Obj.pardim; omega
    obtain ⟨h1, h2⟩ := foldl_tensordotFront_wf o.pardim
      ((List.zip o.bases.toList pts).map (fun x => Obj.basisMat x.1 tol x.2.toList 0 true)).reverse o.cps ht hl
    obtain ⟨h3, h4⟩ := solveChain_wf o.pardim _ _ T h1 (by rw [h2]; exact hl) hs
    exact ⟨h3, h4.trans h2⟩

theorem raiseOrderImplicit_data_size (o o' : Obj K) (tol : K) (rs : List ℕ)
    (ht : o.cps.data.size = Tensor.prod o.cps.shape) (hpd : 0 < o.cps.shape.length)
    (hs : o.raiseOrderImplicit tol rs = .ok o') :
    o'.cps.data.size = Tensor.prod o'.cps.shape := by
  unfold Obj.raiseOrderImplicit at hs
  cases hb : Obj.raiseBases tol o.bases.toList rs with
  | error e => rw [hb] at hs; cases hs
  | ok nb =>
    rw [hb] at hs
    simp only [] at hs
    cases hT : o.reinterpolate tol nb with
    | error e => rw [hT] at hs; cases hs
    | ok T =>
      rw [hT] at hs
      injection hs with hs; subst hs
      exact (reinterpolate_wf o tol nb T ht hpd hT).1

theorem lowerOrder_data_size (o o' : Obj K) (tol : K) (ls : List Int) (r : Ret)
    (ht : o.cps.data.size = Tensor.prod o.cps.shape) (hpd : 0 < o.cps.shape.length)
    (hs : o.lowerOrder tol ls = .ok (r, o')) :
    o'.cps.data.size = Tensor.prod o'.cps.shape := by
  unfold Obj.lowerOrder at hs
  simp only [] at hs
  generalize (if ls.length = 1 then List.replicate o.pardim (ls.headD 0) else ls) = ls' at hs
  by_cases hall : (ls'.all fun l => decide (l = 0)) = true
  · rw [if_pos hall] at hs
    injection hs with hs
    rw [← (Prod.mk.inj hs).2]; exact ht
  · rw [if_neg hall] at hs
    cases hb : Obj.lowerBases tol o.bases.toList ls' with
    | error e => rw [hb] at hs; cases hs
    | ok nb =>
      rw [hb] at hs
      simp only [] at hs
      cases hT : o.reinterpolate tol nb with
      | error e => rw [hT] at hs; cases hs
      | ok T =>
        rw [hT] at hs
        injection hs with hs
        rw [← (Prod.mk.inj hs).2]
        exact (reinterpolate_wf o tol nb T ht hpd hT).1

end C10R

/-! ## 3. One clamped direction; weights in flat form -/

namespace History

/-- Direction data of the guards: the basis is a clamped continuous basis
    `openBasis (q+1) (clampedU x0 xl umid) (clampedM (q+1) mmid)` in the form of `C05_knots`
    (interior multiplicities `1 ≤ m ≤ q`), `q ≥ qmin`, the new order `q+1+a` is at least 2, and the
    distinct knots are more than `2·(q+a)·tol` apart. -/
def ClampedDir (tol : K) (b : Basis K) (a qmin : ℕ) : Prop :=
  ∃ (q : ℕ) (x0 xl : K) (umid : List K) (mmid : List ℕ),
    qmin ≤ q ∧ 1 ≤ q + a ∧ umid.length = mmid.length ∧ (∀ j ∈ mmid, 1 ≤ j ∧ j ≤ q) ∧
    Separated (2 * ((q + a : ℕ) : K) * tol) (clampedU x0 xl umid) ∧
    b = openBasis (q+1) (clampedU x0 xl umid) (clampedM (q+1) mmid)

end History

namespace C10R
open History

theorem weightsPos_of (o : Obj K) (N : ℕ) (hsz : o.cps.data.size = N * o.ncomp) (hnc : 0 < o.ncomp)
    (H : o.rational = true → ∀ pI, pI < N → 0 < o.cps.get (pI * o.ncomp + o.dimension)) :
    o.WeightsPos := by
  intro hr f hf hm
  have h1 : f / o.ncomp < N := by
    rw [hsz] at hf
    exact Nat.div_lt_of_lt_mul (by rwa [Nat.mul_comm] at hf)
  have := H hr _ h1
  have e : f / o.ncomp * o.ncomp + o.dimension = f := by
    rw [← hm, Nat.mul_comm]; exact Nat.div_add_mod f o.ncomp
  rwa [e] at this

theorem dimension_eq_of {o o' : Obj K} (hnc : o'.ncomp = o.ncomp) (hrat : o'.rational = o.rational) :
    o'.dimension = o.dimension := by
  unfold Obj.dimension; rw [hnc, hrat]

/-- **Surfaces.** -/
theorem raise_surface_wf {o : Obj K} (h : o.WellFormed) (hsz : o.bases.size = 2) (tol : K)
    (htol : 0 < tol) (au av : ℕ) (hnz : au ≠ 0 ∨ av ≠ 0)
    (hu : ClampedDir tol (o.basis 0) au 0) (hv : ClampedDir tol (o.basis 1) av 0) :
    ∃ o', o.raiseOrder tol [(au : Int), (av : Int)] none = .ok (.self, o') ∧ o'.WellFormed := by
  obtain ⟨qu, x0u, xlu, umidu, mmidu, _, hqu, hlenu, hmu, hgapu, hb0⟩ := hu
  obtain ⟨qv, x0v, xlv, umidv, mmidv, _, hqv, hlenv, hmv, hgapv, hb1⟩ := hv
  have hw : C06.WF o 2 := by have := h.toC06; rwa [hsz] at this
  obtain ⟨o', himp, hpub, hwf, h0, h1, _, hnc, hrat, _⟩ := C05_geometry_clamped_surface tol htol
    qu au hqu x0u xlu umidu mmidu hlenu hmu hgapu qv av hqv x0v xlv umidv mmidv hlenv hmv hgapv hnz o hw hb0 hb1
  obtain ⟨Eu, hEu0, hEu1, hdu⟩ := dirOK_clamped_pos tol htol qu au hqu x0u xlu umidu mmidu hlenu hmu hgapu
  obtain ⟨Ev, hEv0, hEv1, hdv⟩ := dirOK_clamped_pos tol htol qv av hqv x0v xlv umidv mmidv hlenv hmv hgapv
  rw [← hb0, ← h0] at hdu hEu1
  rw [← hb1, ← h1] at hdv hEv1
  obtain ⟨o1, himp1, _, _, _, _, _, _, hent⟩ := raiseImplicit_surface o tol hw au av _ _ Eu Ev hdu hdv
  have e1 : o1 = o' := by rw [himp] at himp1; injection himp1 with e; exact e.symm
  subst e1
  have hs := shape_of_wf2 hw
  have hs' := shape_of_wf2 hwf
  have hpd : 0 < o.cps.shape.length := by rw [hs]; simp
  have hsize := raiseOrderImplicit_data_size o o1 tol [au, av] h.data_size hpd himp
  have hdim := dimension_eq_of hnc hrat
  have hlen : o.len = (o.basis 0).numFunctions * (o.basis 1).numFunctions := by
    have := h.prod_shape
    rw [hs, prod3] at this
    exact (Nat.eq_of_mul_eq_mul_right h.ncomp_pos this).symm
  have hn1' : 0 < (o1.basis 1).numFunctions := C06.valid_numFunctions_pos (hwf.valid 1)
  refine ⟨o1, hpub, Obj.WellFormed.of_C06 hwf hsize (by rw [hdim]; exact h.dim_pos) ?_⟩
  apply weightsPos_of o1 ((o1.basis 0).numFunctions * (o1.basis 1).numFunctions)
    (by rw [hsize, hs', prod3]) (by rw [hnc]; exact h.ncomp_pos)
  intro hr pI hp
  have hr0 : o.rational = true := by rw [← hrat]; exact hr
  have hk0 : pI / (o1.basis 1).numFunctions < (o1.basis 0).numFunctions :=
    Nat.div_lt_of_lt_mul (by rwa [Nat.mul_comm] at hp)
  have hk1 : pI % (o1.basis 1).numFunctions < (o1.basis 1).numFunctions := Nat.mod_lt _ hn1'
  have hi : o.dimension < o.ncomp := by have := h.ncomp_rat hr0; omega
  have hp' : pI = pI / (o1.basis 1).numFunctions * (o1.basis 1).numFunctions
      + pI % (o1.basis 1).numFunctions := (Nat.div_add_mod' pI _).symm
  rw [hnc, hdim, hp', hent _ hk0 _ hk1 _ hi]
  apply sum_mul_pos _ _ _ _ (fun a => hEu0 a _) (hEu1 _ hk0)
  intro a ha
  apply sum_mul_pos _ _ _ _ (fun j => hEv0 j _) (hEv1 _ hk1)
  intro j hj
  have := h.weights hr0 (a * (o.basis 1).numFunctions + j) (by
    rw [hlen]
    calc a * (o.basis 1).numFunctions + j < a * (o.basis 1).numFunctions + (o.basis 1).numFunctions := by omega
      _ = (a + 1) * (o.basis 1).numFunctions := by ring
      _ ≤ _ := Nat.mul_le_mul_right _ ha)
  exact this

end C10R

namespace C10R
open History

/-- **Volumes.** -/
theorem raise_volume_wf {o : Obj K} (h : o.WellFormed) (hsz : o.bases.size = 3) (tol : K)
    (htol : 0 < tol) (au av aw : ℕ) (hnz : au ≠ 0 ∨ av ≠ 0 ∨ aw ≠ 0)
    (hu : ClampedDir tol (o.basis 0) au 0) (hv : ClampedDir tol (o.basis 1) av 0)
    (hw3 : ClampedDir tol (o.basis 2) aw 0) :
    ∃ o', o.raiseOrder tol [(au : Int), (av : Int), (aw : Int)] none = .ok (.self, o') ∧ o'.WellFormed := by
  obtain ⟨qu, x0u, xlu, umidu, mmidu, _, hqu, hlenu, hmu, hgapu, hb0⟩ := hu
  obtain ⟨qv, x0v, xlv, umidv, mmidv, _, hqv, hlenv, hmv, hgapv, hb1⟩ := hv
  obtain ⟨qw, x0w, xlw, umidw, mmidw, _, hqw, hlenw, hmw, hgapw, hb2⟩ := hw3
  have hw : C06.WF o 3 := by have := h.toC06; rwa [hsz] at this
  obtain ⟨o', himp, hpub, hwf, h0, h1, h2, _, hnc, hrat, _⟩ := C05_geometry_clamped_volume tol htol
    qu au hqu x0u xlu umidu mmidu hlenu hmu hgapu qv av hqv x0v xlv umidv mmidv hlenv hmv hgapv
    qw aw hqw x0w xlw umidw mmidw hlenw hmw hgapw hnz o hw hb0 hb1 hb2
  obtain ⟨Eu, hEu0, hEu1, hdu⟩ := dirOK_clamped_pos tol htol qu au hqu x0u xlu umidu mmidu hlenu hmu hgapu
  obtain ⟨Ev, hEv0, hEv1, hdv⟩ := dirOK_clamped_pos tol htol qv av hqv x0v xlv umidv mmidv hlenv hmv hgapv
  obtain ⟨Ew, hEw0, hEw1, hdw⟩ := dirOK_clamped_pos tol htol qw aw hqw x0w xlw umidw mmidw hlenw hmw hgapw
  rw [← hb0, ← h0] at hdu hEu1
  rw [← hb1, ← h1] at hdv hEv1
  rw [← hb2, ← h2] at hdw hEw1
  obtain ⟨o1, himp1, _, _, _, _, _, _, _, hent⟩ := raiseImplicit_volume o tol hw au av aw _ _ _ Eu Ev Ew hdu hdv hdw
  have e1 : o1 = o' := by rw [himp] at himp1; injection himp1 with e; exact e.symm
  subst e1
  have hs := shape_of_wf3 hw
  have hs' := shape_of_wf3 hwf
  have hpd : 0 < o.cps.shape.length := by rw [hs]; simp
  have hsize := raiseOrderImplicit_data_size o o1 tol [au, av, aw] h.data_size hpd himp
  have hdim := dimension_eq_of hnc hrat
  have hlen : o.len = (o.basis 0).numFunctions * (o.basis 1).numFunctions * (o.basis 2).numFunctions := by
    have := h.prod_shape
    rw [hs, prod4] at this
    exact (Nat.eq_of_mul_eq_mul_right h.ncomp_pos this).symm
  have hn1' : 0 < (o1.basis 1).numFunctions := C06.valid_numFunctions_pos (hwf.valid 1)
  have hn2' : 0 < (o1.basis 2).numFunctions := C06.valid_numFunctions_pos (hwf.valid 2)
  refine ⟨o1, hpub, Obj.WellFormed.of_C06 hwf hsize (by rw [hdim]; exact h.dim_pos) ?_⟩
  apply weightsPos_of o1 ((o1.basis 0).numFunctions * (o1.basis 1).numFunctions * (o1.basis 2).numFunctions)
    (by rw [hsize, hs', prod4]) (by rw [hnc]; exact h.ncomp_pos)
  intro hr pI hp
  have hr0 : o.rational = true := by rw [← hrat]; exact hr
  set n1' := (o1.basis 1).numFunctions with hn1d
  set n2' := (o1.basis 2).numFunctions with hn2d
  have hk01 : pI / n2' < (o1.basis 0).numFunctions * n1' :=
    Nat.div_lt_of_lt_mul (by rwa [Nat.mul_comm] at hp)
  have hk0 : pI / n2' / n1' < (o1.basis 0).numFunctions :=
    Nat.div_lt_of_lt_mul (by rwa [Nat.mul_comm] at hk01)
  have hk1 : pI / n2' % n1' < n1' := Nat.mod_lt _ hn1'
  have hk2 : pI % n2' < n2' := Nat.mod_lt _ hn2'
  have hi : o.dimension < o.ncomp := by have := h.ncomp_rat hr0; omega
  have hp' : pI = (pI / n2' / n1' * n1' + pI / n2' % n1') * n2' + pI % n2' := by
    rw [Nat.div_add_mod' (pI / n2') n1', Nat.div_add_mod' pI n2']
  have hent' := hent _ hk0 _ hk1 _ hk2 _ hi
  unfold Tensor.entry4 at hent'
  rw [hnc, hdim, hp', hent']
  apply sum_mul_pos _ _ _ _ (fun a => hEu0 a _) (hEu1 _ hk0)
  intro a0 ha0
  apply sum_mul_pos _ _ _ _ (fun j => hEv0 j _) (hEv1 _ hk1)
  intro a1 ha1
  apply sum_mul_pos _ _ _ _ (fun j => hEw0 j _) (hEw1 _ hk2)
  intro j hj
  have := h.weights hr0 ((a0 * (o.basis 1).numFunctions + a1) * (o.basis 2).numFunctions + j) (by
    rw [hlen]
    have hA : a0 * (o.basis 1).numFunctions + a1 + 1 ≤ (o.basis 0).numFunctions * (o.basis 1).numFunctions := by
      calc a0 * (o.basis 1).numFunctions + a1 + 1 ≤ a0 * (o.basis 1).numFunctions + (o.basis 1).numFunctions := by omega
        _ = (a0 + 1) * (o.basis 1).numFunctions := by ring
        _ ≤ _ := Nat.mul_le_mul_right _ ha0
    calc (a0 * (o.basis 1).numFunctions + a1) * (o.basis 2).numFunctions + j
        < (a0 * (o.basis 1).numFunctions + a1) * (o.basis 2).numFunctions + (o.basis 2).numFunctions := by omega
      _ = (a0 * (o.basis 1).numFunctions + a1 + 1) * (o.basis 2).numFunctions := by ring
      _ ≤ _ := Nat.mul_le_mul_right _ hA)
  exact this

end C10R

namespace C10R
open History

theorem curveRaiseOrder_data_size (o o' : Obj K) (tol : K) (a : Int) (r : Ret)
    (ht : o.cps.data.size = Tensor.prod o.cps.shape)
    (hs : o.curveRaiseOrder tol a = .ok (r, o')) :
    o'.cps.data.size = Tensor.prod o'.cps.shape := by
  unfold Obj.curveRaiseOrder at hs
  by_cases h1 : a < 0
  · rw [if_pos h1] at hs; cases hs
  rw [if_neg h1] at hs
  by_cases h2 : a = 0
  · rw [if_pos h2] at hs
    injection hs with hs
    rw [← (Prod.mk.inj hs).2]; exact ht
  rw [if_neg h2] at hs
  simp only [] at hs
  cases hb : (o.basis 0).raiseOrder tol a.toNat with
  | error e => rw [hb] at hs; cases hs
  | ok nb =>
    rw [hb] at hs
    simp only [] at hs
    cases hg : nb.greville with
    | error e => rw [hg] at hs; cases hs
    | ok pts =>
      rw [hg] at hs
      simp only [] at hs
      cases hC : Mat.solveChecked (Obj.basisMat nb tol pts.toList 0 true)
          (Mat.mul (Obj.basisMat (o.basis 0) tol pts.toList 0 true) (Obj.cpsMat o.cps)) with
      | error e => rw [hC] at hs; cases hs
      | ok C =>
        rw [hC] at hs
        injection hs with hs
        rw [← (Prod.mk.inj hs).2]
        simp [Obj.ofCpsMat, Tensor.prod]

theorem bases_of_size1 {o : Obj K} (hsz : o.bases.size = 1) : o.bases = #[o.basis 0] := by
  apply Array.ext
  · simp [hsz]
  · intro i h1 h2
    have hi : i = 0 := by omega
    subst hi
    simp [Obj.basis, Array.getD, hsz]

/-- **Curves** (`Curve.raise_order(a)`, `a ≥ 1`). -/
theorem raise_curve_wf {o : Obj K} (h : o.WellFormed) (hsz : o.bases.size = 1) (tol : K)
    (htol : 0 < tol) (a : ℕ) (ha : 1 ≤ a) (hu : ClampedDir tol (o.basis 0) a 0) (r : Ret) (o' : Obj K)
    (hcall : o.curveRaiseOrder tol (a : Int) = .ok (r, o')) : r = .self ∧ o'.WellFormed := by
  obtain ⟨q, x0, xl, umid, mmid, _, hqa, hlen, hm, hgap, hb0⟩ := hu
  obtain ⟨E, hE0, hE1, hd⟩ := dirOK_clamped_pos tol htol q a hqa x0 xl umid mmid hlen hm hgap
  rw [← hb0] at hd hE1
  set b := o.basis 0 with hbdef
  set b' := openBasis (q+1+a) (clampedU x0 xl umid) (clampedM (q+1+a) (mmid.map (· + a))) with hb'def
  have hb : o.bases = #[b] := bases_of_size1 hsz
  have hcounts : o.counts = [b.numFunctions] := by unfold Obj.counts; rw [hb]; rfl
  have hs : o.cps.shape = [b.numFunctions, o.ncomp] := by rw [h.shape_eq', hcounts]; rfl
  obtain ⟨pts, Ni, hg, hNi⟩ := hd.hsw
  have hP := greville_size b' pts hg
  obtain ⟨_, hinv⟩ := Mat.invChecked_spec _ Ni hNi
  have hrows : (Obj.basisMat b' tol pts.toList 0 true).nrows = pts.size := by
    simp [Mat.nrows, basisMat_size]
  rw [hrows] at hinv
  have hn0 : 0 < b.numFunctions := C06.valid_numFunctions_pos (h.valid 0 (by omega))
  have hpts0 : 0 < pts.size := by rw [hP]; exact C06.valid_numFunctions_pos hd.valid'
  set c' : ℕ → ℕ → K := fun k c => ∑ j ∈ range b.numFunctions, o.cps.get (j * o.ncomp + c) * E j k with hc'
  have H_incl : ∀ t, ∀ c, c < o.ncomp →
      ∑ k ∈ range pts.size, (b'.evaluate tol t 0 true).getD k 0 * c' k c
        = ∑ j ∈ range b.numFunctions, (b.evaluate tol t 0 true).getD j 0 * o.cps.get (j * o.ncomp + c) := by
    intro t c _
    rw [hP]
    exact hd.rows (fun j => o.cps.get (j * o.ncomp + c)) t
  obtain ⟨hr, g1, g2, g3, g4, _⟩ := curveRaiseOrder_spec o tol b b' a ha pts b.numFunctions o.ncomp hn0 hb hs
    hd.raise hg hpts0 (fun i j => Ni.get i j) hinv c' H_incl r o' hcall
  refine ⟨hr, ?_⟩
  have hnc : o'.ncomp = o.ncomp := Obj.ncomp_of_shape (l := [pts.size]) g3
  have hdim := dimension_eq_of hnc g2
  have hb0' : o'.basis 0 = b' := by simp [Obj.basis, g1]
  have hwf : C06.WF o' 1 := by
    refine ⟨by rw [g1]; rfl, ?_, ?_⟩
    · intro d
      have : (d : ℕ) = 0 := by omega
      rw [this, hb0']; exact hd.valid'
    · rw [g3, hnc, hP]
      simp [C06.midx, List.ofFn_succ, hb0']
  have hsize := curveRaiseOrder_data_size o o' tol a r h.data_size hcall
  have hlen0 : o.len = b.numFunctions := by unfold Obj.len; rw [hcounts]; simp [Tensor.prod]
  refine Obj.WellFormed.of_C06 hwf hsize (by rw [hdim]; exact h.dim_pos) ?_
  apply weightsPos_of o' pts.size (by rw [hsize, g3, hnc]; simp [Tensor.prod]) (by rw [hnc]; exact h.ncomp_pos)
  intro hrat pI hp
  have hr0 : o.rational = true := by rw [← g2]; exact hrat
  have hi : o.dimension < o.ncomp := by have := h.ncomp_rat hr0; omega
  rw [hnc, hdim, g4 pI hp _ hi]
  apply sum_mul_pos _ _ _ _ (fun j => hE0 j _) (hE1 _ (by rw [← hP]; exact hp))
  intro j hj
  exact h.weights hr0 j (by rw [hlen0]; exact hj)

end C10R

/-! ## 4. `raise_order` -/

namespace History

/-- How the arguments of the call determine the per-direction amounts `as` (all `≥ 0`):
    a curve dispatches to `Curve.raise_order(amount, direction=None)`, which ignores `direction`
    (at most one further positional argument); surfaces and volumes go through the argument
    normalisation `normRaises` of `SplineObject.raise_order(*raises, direction=None)`
    (`[a]`+`None`: all directions; `[a]`+`direction=d`: direction `d` only; one amount per direction). -/
def RaiseAmounts (o : Obj K) (raises : List Int) (direction : Option Int) (as : List ℕ) : Prop :=
  as.length = o.bases.size ∧
  (if o.bases.size = 1 then ∃ rest : List Int, raises = ((as.headD 0 : ℕ) : Int) :: rest ∧ rest.length ≤ 1
   else Obj.normRaises o.pardim raises direction = .ok (as.map (fun a : ℕ => (a : Int))))

/-- Guard of `stepOut_raiseOrder_wf_partial`: the amounts are non-negative, and — unless all of them
    are `0` — the object has 1, 2 or 3 parametric directions and every basis is clamped continuous in
    the form of `C05_knots` with distinct knots more than `2·(q+a)·tol` apart (`ClampedDir`). -/
def RaiseGuard (tol : K) (o : Obj K) (raises : List Int) (direction : Option Int) : Prop :=
  ∃ as : List ℕ, RaiseAmounts o raises direction as ∧
    ((∃ a ∈ as, a ≠ 0) →
      o.bases.size ≤ 3 ∧ ∀ d, d < o.bases.size → ClampedDir tol (o.basis d) (as.getD d 0) 0)

theorem raiseOrder_norm (o : Obj K) (tol : K) (raises : List Int) (dir : Option Int) (rs : List Int)
    (hn : Obj.normRaises o.pardim raises dir = .ok rs) (hl : rs.length ≠ 1) :
    o.raiseOrder tol raises dir = o.raiseOrder tol rs none := by
  have h2 : Obj.normRaises o.pardim rs none = .ok rs := by
    unfold Obj.normRaises; rw [if_neg hl]
  unfold Obj.raiseOrder
  rw [hn, h2]

theorem map_map_ok {α : Type} (x : PyM (α × Obj K)) (out : Out K)
    (hs : inPlace (x.map (·.2)) = .ok out) : ∃ r o', x = .ok (r, o') ∧ out = { recv := o', news := [] } := by
  unfold inPlace at hs
  cases x with
  | error e => cases hs
  | ok p =>
    obtain ⟨r, o'⟩ := p
    simp only [Except.map] at hs
    injection hs with hs
    exact ⟨r, o', rfl, hs.symm⟩

/-- **`raise_order` keeps a clamped object well formed** (receiver returned, nothing created). -/
theorem stepOut_raiseOrder_wf_partial {o : Obj K} (h : o.WellFormed) (tol : K) (htol : 0 < tol)
    (raises : List Int) (direction : Option Int) (hg : RaiseGuard tol o raises direction) {out : Out K}
    (hs : stepOut tol o (.raiseOrder raises direction) = .ok out) :
    out.recv.WellFormed ∧ out.news = [] := by
  simp only [stepOut] at hs
  obtain ⟨r, o', hcall, rfl⟩ := map_map_ok _ out hs
  refine ⟨?_, rfl⟩
  show o'.WellFormed
  obtain ⟨as, ⟨hlen, hargs⟩, hdirs⟩ := hg
  by_cases hnz : ∃ a ∈ as, a ≠ 0
  · obtain ⟨hle, hcl⟩ := hdirs hnz
    have hpos : 1 ≤ o.bases.size := by
      obtain ⟨a, ha, _⟩ := hnz
      rw [← hlen]; exact List.length_pos_of_mem ha
    have hcases : o.bases.size = 1 ∨ o.bases.size = 2 ∨ o.bases.size = 3 := by omega
    rcases hcases with hsz | hsz | hsz
    · -- curve
      rw [hsz] at hlen
      obtain ⟨a, rfl⟩ := List.length_eq_one_iff.mp hlen
      rw [if_pos hsz] at hargs
      obtain ⟨rest, hraises, hrest⟩ := hargs
      have ha : 1 ≤ a := by
        obtain ⟨a', ha', hne⟩ := hnz
        simp at ha'; subst ha'; omega
      have hc : (o.bases.size == 1) = true := by simp [hsz]
      have hdisp : o.raiseOrderDispatch tol true raises direction = o.curveRaiseOrder tol (a : Int) := by
        rw [hraises]
        unfold Obj.raiseOrderDispatch
        match rest, hrest with
        | [], _ => rfl
        | [x], _ => rfl
        | _ :: _ :: _, hr => simp at hr
      rw [hc, hdisp] at hcall
      have := hcl 0 (by omega)
      exact (C10R.raise_curve_wf h hsz tol htol a ha this r o' hcall).2
    · -- surface
      rw [hsz] at hlen
      obtain ⟨au, av, rfl⟩ := List.length_eq_two.mp hlen
      rw [if_neg (by omega)] at hargs
      have hc : (o.bases.size == 1) = false := by simp [hsz]
      rw [hc] at hcall
      simp only [Obj.raiseOrderDispatch, Bool.false_eq_true, if_false] at hcall
      rw [raiseOrder_norm o tol raises direction _ hargs (by simp)] at hcall
      have hnz' : au ≠ 0 ∨ av ≠ 0 := by
        obtain ⟨a', ha', hne⟩ := hnz
        simp at ha'; rcases ha' with rfl | rfl
        · exact Or.inl hne
        · exact Or.inr hne
      obtain ⟨o'', hpub, hwf⟩ := C10R.raise_surface_wf h hsz tol htol au av hnz' (hcl 0 (by omega)) (hcl 1 (by omega))
      simp only [List.map_cons, List.map_nil] at hcall
      rw [hpub] at hcall
      injection hcall with hcall
      rw [← (Prod.mk.inj hcall).2]; exact hwf
    · -- volume
      rw [hsz] at hlen
      obtain ⟨au, av, aw, rfl⟩ := List.length_eq_three.mp hlen
      rw [if_neg (by omega)] at hargs
      have hc : (o.bases.size == 1) = false := by simp [hsz]
      rw [hc] at hcall
      simp only [Obj.raiseOrderDispatch, Bool.false_eq_true, if_false] at hcall
      rw [raiseOrder_norm o tol raises direction _ hargs (by simp)] at hcall
      have hnz' : au ≠ 0 ∨ av ≠ 0 ∨ aw ≠ 0 := by
        obtain ⟨a', ha', hne⟩ := hnz
        simp at ha'; rcases ha' with rfl | rfl | rfl
        · exact Or.inl hne
        · exact Or.inr (Or.inl hne)
        · exact Or.inr (Or.inr hne)
      obtain ⟨o'', hpub, hwf⟩ := C10R.raise_volume_wf h hsz tol htol au av aw hnz' (hcl 0 (by omega))
        (hcl 1 (by omega)) (hcl 2 (by omega))
      simp only [List.map_cons, List.map_nil] at hcall
      rw [hpub] at hcall
      injection hcall with hcall
      rw [← (Prod.mk.inj hcall).2]; exact hwf
  · -- all amounts are zero: the receiver is returned unchanged
    have hz : ∀ a ∈ as, a = 0 := by
      intro a ha
      by_contra hne
      exact hnz ⟨a, ha, hne⟩
    have : o' = o := by
      by_cases hsz : o.bases.size = 1
      · rw [if_pos hsz] at hargs
        obtain ⟨rest, hraises, hrest⟩ := hargs
        have h0 : as.headD 0 = 0 := by
          cases as with
          | nil => rfl
          | cons a t => exact hz a (by simp)
        rw [h0] at hraises
        have hc : (o.bases.size == 1) = true := by simp [hsz]
        have hdisp : o.raiseOrderDispatch tol true raises direction = o.curveRaiseOrder tol 0 := by
          rw [hraises]
          unfold Obj.raiseOrderDispatch
          match rest, hrest with
          | [], _ => rfl
          | [x], _ => rfl
          | _ :: _ :: _, hr => simp at hr
        rw [hc, hdisp] at hcall
        simp only [Obj.curveRaiseOrder, lt_self_iff_false, if_false, if_true] at hcall
        injection hcall with hcall
        exact (Prod.mk.inj hcall).2.symm
      · rw [if_neg hsz] at hargs
        have hc : (o.bases.size == 1) = false := by simp [hsz]
        rw [hc] at hcall
        simp only [Obj.raiseOrderDispatch, Bool.false_eq_true, if_false] at hcall
        have := (C05_api o tol).1 raises direction _ hargs (by
          intro r hr
          rw [List.mem_map] at hr
          obtain ⟨a, ha, rfl⟩ := hr
          rw [hz a ha]; rfl)
        rw [this] at hcall
        injection hcall with hcall
        exact (Prod.mk.inj hcall).2.symm
    rw [this]; exact h

end History

/-! ## 5. `lower_order` -/

namespace C10R

/-- An object with the bases, shape, rationality and weights of a well-formed object (and a full
    data array) is well formed. -/
theorem wf_of_same {o0 o : Obj K} (h0 : o0.WellFormed) (hb : o.bases = o0.bases)
    (hs : o.cps.shape = o0.cps.shape) (hr : o.rational = o0.rational)
    (hd : o.cps.data.size = Tensor.prod o.cps.shape)
    (hw : o0.rational = true → ∀ pI, pI < o0.len →
      o.cps.get (pI * o0.ncomp + o0.dimension) = o0.cps.get (pI * o0.ncomp + o0.dimension)) :
    o.WellFormed := by
  have hnc : o.ncomp = o0.ncomp := by unfold Obj.ncomp; rw [hs]
  have hdim : o.dimension = o0.dimension := dimension_eq_of hnc hr
  have hc : o.counts = o0.counts := by unfold Obj.counts; rw [hb]
  have hl : o.len = o0.len := by unfold Obj.len; rw [hc]
  have hpd : o.pardim = o0.pardim := by unfold Obj.pardim; rw [hs]
  refine ⟨by rw [hb, hpd]; exact h0.bases_size, ?_, hd, by rw [hdim]; exact h0.dim_pos, ?_, ?_⟩
  · rw [hs, hc]
    have : o.ncompSpec = o0.ncompSpec := by unfold Obj.ncompSpec; rw [hdim, hr]
    rw [this]; exact h0.shape
  · intro d hd'
    rw [hb] at hd'
    have : o.basis d = o0.basis d := by unfold Obj.basis; rw [hb]
    rw [this]; exact h0.valid d hd'
  · intro hrat pI hp
    rw [hr] at hrat
    rw [hl] at hp
    unfold Obj.wt
    rw [hnc, hdim, hw hrat pI hp]
    exact h0.weights hrat pI hp

end C10R

namespace History

theorem fresh_map_ok {α : Type} (o : Obj K) (x : PyM (α × Obj K)) (out : Out K)
    (hs : fresh o (x.map (·.2)) = .ok out) : ∃ r o', x = .ok (r, o') ∧ out = { recv := o, news := [o'] } := by
  unfold fresh at hs
  cases x with
  | error e => cases hs
  | ok p =>
    obtain ⟨r, o'⟩ := p
    simp only [Except.map] at hs
    injection hs with hs
    exact ⟨r, o', rfl, hs.symm⟩

/-- `lower_order` with all amounts `0` is `clone()`: the receiver is untouched and the created
    object is a copy of it. -/
theorem stepOut_lowerOrder_zero (o : Obj K) (tol : K) (lowers : List Int) (hz : ∀ l ∈ lowers, l = 0)
    {out : Out K} (hs : stepOut tol o (.lowerOrder lowers) = .ok out) :
    out.recv = o ∧ out.news = [o] := by
  simp only [stepOut] at hs
  obtain ⟨r, o', hcall, rfl⟩ := fresh_map_ok o _ out hs
  refine ⟨rfl, ?_⟩
  unfold Obj.lowerOrder at hcall
  simp only [] at hcall
  have hall : ((if lowers.length = 1 then List.replicate o.pardim (lowers.headD 0) else lowers).all
      fun l => decide (l = 0)) = true := by
    rw [List.all_eq_true]
    intro l hl
    split_ifs at hl with h1
    · have := List.eq_of_mem_replicate hl
      rw [this]
      cases lowers with
      | nil => simp
      | cons a t => simpa using hz a (by simp)
    · simpa using hz l hl
  rw [if_pos hall] at hcall
  injection hcall with hcall
  rw [(Prod.mk.inj hcall).2]

/-- Guard of `stepOut_lowerOrder_wf_partial`: `lowers` are exactly the amounts `as ≥ 0` of the
    preceding `raise_order` call on `o0`, and — unless they are all `0` — `o0` has 1–3 parametric
    directions, all clamped continuous of order at least 2 (`q ≥ 1`) with the knot spacing of C05. -/
def LowerGuard (tol : K) (o0 : Obj K) (raises : List Int) (direction : Option Int) (lowers : List Int) :
    Prop :=
  ∃ as : List ℕ, RaiseAmounts o0 raises direction as ∧ lowers = as.map (fun a : ℕ => (a : Int)) ∧
    ((∃ a ∈ as, a ≠ 0) →
      o0.bases.size ≤ 3 ∧ ∀ d, d < o0.bases.size → ClampedDir tol (o0.basis d) (as.getD d 0) 1)

theorem ClampedDir.mono {tol : K} {b : Basis K} {a q1 q2 : ℕ} (h : ClampedDir tol b a q2) (hq : q1 ≤ q2) :
    ClampedDir tol b a q1 := by
  obtain ⟨q, x0, xl, umid, mmid, h1, h2⟩ := h
  exact ⟨q, x0, xl, umid, mmid, by omega, h2⟩

theorem LowerGuard.raiseGuard {tol : K} {o0 : Obj K} {raises : List Int} {direction : Option Int}
    {lowers : List Int} (h : LowerGuard tol o0 raises direction lowers) :
    RaiseGuard tol o0 raises direction := by
  obtain ⟨as, h1, _, h3⟩ := h
  exact ⟨as, h1, fun hnz => ⟨(h3 hnz).1, fun d hd => ((h3 hnz).2 d hd).mono (Nat.zero_le _)⟩⟩

/-- **`lower_order` after `raise_order` (left-inverse form).**  `o0` well formed and clamped
    (`LowerGuard`); `out0` the outcome of `o0.raise_order(…)`; then `lower_order` with the same amounts
    on the raised object leaves the receiver untouched and creates ONE object, which is well formed
    and has the bases, control-array shape and rationality of `o0`. -/
theorem stepOut_lowerOrder_wf_partial {o0 : Obj K} (h0 : o0.WellFormed) (tol : K) (htol : 0 < tol)
    (raises : List Int) (direction : Option Int) (lowers : List Int)
    (hg : LowerGuard tol o0 raises direction lowers) {out0 : Out K}
    (hs0 : stepOut tol o0 (.raiseOrder raises direction) = .ok out0) {out : Out K}
    (hs : stepOut tol out0.recv (.lowerOrder lowers) = .ok out) :
    out.recv = out0.recv ∧ ∃ o'', out.news = [o''] ∧ o''.WellFormed ∧ o''.bases = o0.bases
      ∧ o''.cps.shape = o0.cps.shape ∧ o''.rational = o0.rational := by
  have hwf1 := (stepOut_raiseOrder_wf_partial h0 tol htol raises direction hg.raiseGuard hs0).1
  obtain ⟨as, ⟨hlen, hargs⟩, hlow, hdirs⟩ := hg
  by_cases hnz : ∃ a ∈ as, a ≠ 0
  swap
  · -- all amounts zero: raise returned the receiver, lower clones it
    have hz : ∀ a ∈ as, a = 0 := by
      intro a ha
      by_contra hne
      exact hnz ⟨a, ha, hne⟩
    have hzl : ∀ l ∈ lowers, l = 0 := by
      intro l hl
      rw [hlow, List.mem_map] at hl
      obtain ⟨a, ha, rfl⟩ := hl
      rw [hz a ha]; rfl
    obtain ⟨e1, e2⟩ := stepOut_lowerOrder_zero out0.recv tol lowers hzl hs
    have hrecv : out0.recv = o0 := by
      simp only [stepOut] at hs0
      obtain ⟨r, o', hcall, rfl⟩ := map_map_ok _ out0 hs0
      show o' = o0
      by_cases hsz : o0.bases.size = 1
      · rw [if_pos hsz] at hargs
        obtain ⟨rest, hraises, hrest⟩ := hargs
        have h00 : as.headD 0 = 0 := by
          cases as with
          | nil => rfl
          | cons a t => exact hz a (by simp)
        rw [h00] at hraises
        have hc : (o0.bases.size == 1) = true := by simp [hsz]
        have hdisp : o0.raiseOrderDispatch tol true raises direction = o0.curveRaiseOrder tol 0 := by
          rw [hraises]
          unfold Obj.raiseOrderDispatch
          match rest, hrest with
          | [], _ => rfl
          | [x], _ => rfl
          | _ :: _ :: _, hr => simp at hr
        rw [hc, hdisp] at hcall
        simp only [Obj.curveRaiseOrder, lt_self_iff_false, if_false, if_true] at hcall
        injection hcall with hcall
        exact (Prod.mk.inj hcall).2.symm
      · rw [if_neg hsz] at hargs
        have hc : (o0.bases.size == 1) = false := by simp [hsz]
        rw [hc] at hcall
        simp only [Obj.raiseOrderDispatch, Bool.false_eq_true, if_false] at hcall
        have := (C05_api o0 tol).1 raises direction _ hargs (by
          intro r hr
          rw [List.mem_map] at hr
          obtain ⟨a, ha, rfl⟩ := hr
          rw [hz a ha]; rfl)
        rw [this] at hcall
        injection hcall with hcall
        exact (Prod.mk.inj hcall).2.symm
    exact ⟨e1, out0.recv, e2, hwf1, by rw [hrecv], by rw [hrecv], by rw [hrecv]⟩
  obtain ⟨hle, hcl⟩ := hdirs hnz
  have hpos : 1 ≤ o0.bases.size := by
    obtain ⟨a, ha, _⟩ := hnz
    rw [← hlen]; exact List.length_pos_of_mem ha
  simp only [stepOut] at hs0 hs
  obtain ⟨r, o', hcall, rfl⟩ := map_map_ok _ out0 hs0
  obtain ⟨r2, o2, hcall2, rfl⟩ := fresh_map_ok _ _ out hs
  refine ⟨rfl, o2, rfl, ?_⟩
  change o'.lowerOrder tol lowers = .ok (r2, o2) at hcall2
  change o'.WellFormed at hwf1
  have hpd1 : 0 < o'.cps.shape.length := by rw [hwf1.shape]; simp
  have hd2 := C10R.lowerOrder_data_size o' o2 tol lowers r2 hwf1.data_size hpd1 hcall2
  have hcases : o0.bases.size = 1 ∨ o0.bases.size = 2 ∨ o0.bases.size = 3 := by omega
  rcases hcases with hsz | hsz | hsz
  · -- curve
    rw [hsz] at hlen
    obtain ⟨a, rfl⟩ := List.length_eq_one_iff.mp hlen
    rw [if_pos hsz] at hargs
    obtain ⟨rest, hraises, hrest⟩ := hargs
    have ha : 1 ≤ a := by
      obtain ⟨a', ha', hne⟩ := hnz
      simp at ha'; subst ha'; omega
    have hc : (o0.bases.size == 1) = true := by simp [hsz]
    have hdisp : o0.raiseOrderDispatch tol true raises direction = o0.curveRaiseOrder tol (a : Int) := by
      rw [hraises]
      unfold Obj.raiseOrderDispatch
      match rest, hrest with
      | [], _ => rfl
      | [x], _ => rfl
      | _ :: _ :: _, hr => simp at hr
    rw [hc, hdisp] at hcall
    obtain ⟨q, x0, xl, umid, mmid, hq1, hqa, hlenm, hm, hgap, hb0⟩ := hcl 0 (by omega)
    have hb : o0.bases = #[openBasis (q+1) (clampedU x0 xl umid) (clampedM (q+1) mmid)] := by
      rw [C10R.bases_of_size1 hsz, hb0]
    have hcounts : o0.counts = [(o0.basis 0).numFunctions] := by
      unfold Obj.counts; rw [C10R.bases_of_size1 hsz]; rfl
    have hsh : o0.cps.shape = [(openBasis (q+1) (clampedU x0 xl umid) (clampedM (q+1) mmid)).numFunctions, o0.ncomp] := by
      rw [h0.shape_eq', hcounts, hb0]; rfl
    obtain ⟨_, _, o1, hcurve, hel⟩ := C05_geometry_clamped_full tol htol q a ha x0 xl umid mmid hlenm hm
      (Or.inl hgap) o0 o0.ncomp hb hsh
    have e1 : o1 = o' := by
      rw [hcall] at hcurve; injection hcurve with e; exact (Prod.mk.inj e).2.symm
    subst e1
    obtain ⟨o3, hl3, g1, g2, g3, g4⟩ := C05_lower_left_inverse_clamped tol htol q a hq1 ha x0 xl umid mmid
      hlenm hm hgap o0 o1 o0.ncomp hel
    rw [hlow] at hcall2
    simp only [List.map_cons, List.map_nil] at hcall2
    rw [hl3] at hcall2
    injection hcall2 with e
    have e3 : o3 = o2 := (Prod.mk.inj e).2
    subst e3
    have hlen0 : o0.len = (o0.basis 0).numFunctions := by unfold Obj.len; rw [hcounts]; simp [Tensor.prod]
    have hbb : o3.bases = o0.bases := by rw [g1, hb]
    have hss : o3.cps.shape = o0.cps.shape := by rw [g3, hsh]
    have hrr : o3.rational = o0.rational := by rw [g2]; exact hel.2.1
    refine ⟨C10R.wf_of_same h0 hbb hss hrr hd2 ?_, hbb, hss, hrr⟩
    intro hr pI hp
    have hi : o0.dimension < o0.ncomp := by have := h0.ncomp_rat hr; omega
    exact g4 pI (by rw [← hb0, ← hlen0]; exact hp) _ hi
  · -- surface
    rw [hsz] at hlen
    obtain ⟨au, av, rfl⟩ := List.length_eq_two.mp hlen
    rw [if_neg (by omega)] at hargs
    have hc : (o0.bases.size == 1) = false := by simp [hsz]
    rw [hc] at hcall
    simp only [Obj.raiseOrderDispatch, Bool.false_eq_true, if_false] at hcall
    rw [raiseOrder_norm o0 tol raises direction _ hargs (by simp)] at hcall
    have hnz' : au ≠ 0 ∨ av ≠ 0 := by
      obtain ⟨a', ha', hne⟩ := hnz
      simp at ha'; rcases ha' with rfl | rfl
      · exact Or.inl hne
      · exact Or.inr hne
    obtain ⟨qu, x0u, xlu, umidu, mmidu, hqu1, _, hlenu, hmu, hgapu, hb0⟩ := hcl 0 (by omega)
    obtain ⟨qv, x0v, xlv, umidv, mmidv, hqv1, _, hlenv, hmv, hgapv, hb1⟩ := hcl 1 (by omega)
    have hw : C06.WF o0 2 := by have := h0.toC06; rwa [hsz] at this
    obtain ⟨o1, o3, hpub, hl3, g1, g3, g2, g4⟩ := C05_lower_left_inverse_clamped_surface tol htol
      qu au hqu1 x0u xlu umidu mmidu hlenu hmu hgapu qv av hqv1 x0v xlv umidv mmidv hlenv hmv hgapv hnz' o0 hw hb0 hb1
    simp only [List.map_cons, List.map_nil] at hcall
    have e1 : o1 = o' := by
      rw [hcall] at hpub; injection hpub with e; exact (Prod.mk.inj e).2.symm
    subst e1
    rw [hlow] at hcall2
    simp only [List.map_cons, List.map_nil] at hcall2
    rw [hl3] at hcall2
    injection hcall2 with e
    have e3 : o3 = o2 := (Prod.mk.inj e).2
    subst e3
    refine ⟨C10R.wf_of_same h0 g1 g3 g2 hd2 ?_, g1, g3, g2⟩
    intro hr pI hp
    have hi : o0.dimension < o0.ncomp := by have := h0.ncomp_rat hr; omega
    have hlen0 : o0.len = (o0.basis 0).numFunctions * (o0.basis 1).numFunctions := by
      have := h0.prod_shape
      rw [shape_of_wf2 hw, prod3] at this
      exact (Nat.eq_of_mul_eq_mul_right h0.ncomp_pos this).symm
    have hn1 : 0 < (o0.basis 1).numFunctions := C06.valid_numFunctions_pos (hw.valid 1)
    rw [hlen0] at hp
    have hk0 : pI / (o0.basis 1).numFunctions < (o0.basis 0).numFunctions :=
      Nat.div_lt_of_lt_mul (by rwa [Nat.mul_comm] at hp)
    have hp' : pI = pI / (o0.basis 1).numFunctions * (o0.basis 1).numFunctions
        + pI % (o0.basis 1).numFunctions := (Nat.div_add_mod' pI _).symm
    rw [hp']
    exact g4 _ hk0 _ (Nat.mod_lt _ hn1) _ hi
  · -- volume
    rw [hsz] at hlen
    obtain ⟨au, av, aw, rfl⟩ := List.length_eq_three.mp hlen
    rw [if_neg (by omega)] at hargs
    have hc : (o0.bases.size == 1) = false := by simp [hsz]
    rw [hc] at hcall
    simp only [Obj.raiseOrderDispatch, Bool.false_eq_true, if_false] at hcall
    rw [raiseOrder_norm o0 tol raises direction _ hargs (by simp)] at hcall
    have hnz' : au ≠ 0 ∨ av ≠ 0 ∨ aw ≠ 0 := by
      obtain ⟨a', ha', hne⟩ := hnz
      simp at ha'; rcases ha' with rfl | rfl | rfl
      · exact Or.inl hne
      · exact Or.inr (Or.inl hne)
      · exact Or.inr (Or.inr hne)
    obtain ⟨qu, x0u, xlu, umidu, mmidu, hqu1, _, hlenu, hmu, hgapu, hb0⟩ := hcl 0 (by omega)
    obtain ⟨qv, x0v, xlv, umidv, mmidv, hqv1, _, hlenv, hmv, hgapv, hb1⟩ := hcl 1 (by omega)
    obtain ⟨qw, x0w, xlw, umidw, mmidw, hqw1, _, hlenw, hmw, hgapw, hb2⟩ := hcl 2 (by omega)
    have hw : C06.WF o0 3 := by have := h0.toC06; rwa [hsz] at this
    obtain ⟨o1, o3, hpub, hl3, g1, g3, g2, g4⟩ := C05_lower_left_inverse_clamped_volume tol htol
      qu au hqu1 x0u xlu umidu mmidu hlenu hmu hgapu qv av hqv1 x0v xlv umidv mmidv hlenv hmv hgapv
      qw aw hqw1 x0w xlw umidw mmidw hlenw hmw hgapw hnz' o0 hw hb0 hb1 hb2
    simp only [List.map_cons, List.map_nil] at hcall
    have e1 : o1 = o' := by
      rw [hcall] at hpub; injection hpub with e; exact (Prod.mk.inj e).2.symm
    subst e1
    rw [hlow] at hcall2
    simp only [List.map_cons, List.map_nil] at hcall2
    rw [hl3] at hcall2
    injection hcall2 with e
    have e3 : o3 = o2 := (Prod.mk.inj e).2
    subst e3
    refine ⟨C10R.wf_of_same h0 g1 g3 g2 hd2 ?_, g1, g3, g2⟩
    intro hr pI hp
    have hi : o0.dimension < o0.ncomp := by have := h0.ncomp_rat hr; omega
    have hlen0 : o0.len = (o0.basis 0).numFunctions * (o0.basis 1).numFunctions * (o0.basis 2).numFunctions := by
      have := h0.prod_shape
      rw [shape_of_wf3 hw, prod4] at this
      exact (Nat.eq_of_mul_eq_mul_right h0.ncomp_pos this).symm
    set n1 := (o0.basis 1).numFunctions with hn1d
    set n2 := (o0.basis 2).numFunctions with hn2d
    have hn1 : 0 < n1 := C06.valid_numFunctions_pos (hw.valid 1)
    have hn2 : 0 < n2 := C06.valid_numFunctions_pos (hw.valid 2)
    rw [hlen0] at hp
    have hk01 : pI / n2 < (o0.basis 0).numFunctions * n1 :=
      Nat.div_lt_of_lt_mul (by rwa [Nat.mul_comm] at hp)
    have hk0 : pI / n2 / n1 < (o0.basis 0).numFunctions :=
      Nat.div_lt_of_lt_mul (by rwa [Nat.mul_comm] at hk01)
    have hp' : pI = (pI / n2 / n1 * n1 + pI / n2 % n1) * n2 + pI % n2 := by
      rw [Nat.div_add_mod' (pI / n2) n1, Nat.div_add_mod' pI n2]
    have := g4 (pI / n2 / n1) hk0 (pI / n2 % n1) (Nat.mod_lt _ hn1) (pI % n2) (Nat.mod_lt _ hn2) o0.dimension hi
    unfold Tensor.entry4 at this
    rw [hp']
    exact this

end History

/-! ## 6. Non-vacuity over `ℚ` -/

namespace History

/-- A rational clamped quadratic curve (one Bézier segment on `[0,1]`, weights `1, 1, 2`). -/
def exCurve : Obj ℚ :=
  { bases := #[openBasis 3 (clampedU 0 1 []) (clampedM 3 [])],
    cps := { shape := [3, 3], data := #[0, 0, 1,  1, 1, 1,  4, 0, 2] }, rational := true }

theorem exCurve_wf : exCurve.WellFormed := (Obj.wfB_iff _).1 (by decide +kernel)

theorem exCurve_dir : ClampedDir (1/100 : ℚ) (exCurve.basis 0) 1 1 :=
  ⟨2, 0, 1, [], [], by norm_num, by norm_num, rfl, by simp,
    by simp [Separated, clampedU]; norm_num, rfl⟩

theorem exCurve_lowerGuard : LowerGuard (1/100 : ℚ) exCurve [1] none [1] := by
  refine ⟨[1], ⟨rfl, ?_⟩, rfl, fun _ => ⟨by decide, fun d hd => ?_⟩⟩
  · rw [if_pos (by decide)]; exact ⟨[], rfl, by simp⟩
  · have hd' : d < 1 := hd
    have : d = 0 := by omega
    subst this
    exact exCurve_dir

/-- The curve satisfies `RaiseGuard` for `raise_order(1)`. -/
theorem exCurve_raiseGuard : RaiseGuard (1/100 : ℚ) exCurve [1] none := exCurve_lowerGuard.raiseGuard

/-- The hypotheses of `stepOut_raiseOrder_wf_partial` and `stepOut_lowerOrder_wf_partial` are jointly
    satisfiable with calls that SUCCEED: `raise_order(1)` of the rational quadratic curve runs, the
    result is well formed, `lower_order(1)` of it runs and creates a well-formed curve with the
    original basis. -/
theorem exCurve_runs : ∃ out0 out, stepOut (1/100 : ℚ) exCurve (.raiseOrder [1] none) = .ok out0
    ∧ out0.recv.WellFormed ∧ out0.news = []
    ∧ stepOut (1/100 : ℚ) out0.recv (.lowerOrder [1]) = .ok out
    ∧ out.recv = out0.recv ∧ ∃ o'', out.news = [o''] ∧ o''.WellFormed ∧ o''.bases = exCurve.bases := by
  have hgap : Separated (2 * ((2 + 1 : ℕ) : ℚ) * (1/100)) (clampedU (0 : ℚ) 1 []) := by
    simp [Separated, clampedU]; norm_num
  obtain ⟨_, _, o', h1, hel⟩ := C05_geometry_clamped_full (K := ℚ) (1/100) (by norm_num) 2 1 (by norm_num)
    0 1 [] [] rfl (by simp) (Or.inl hgap) exCurve 3 rfl (by decide +kernel)
  obtain ⟨o'', h2, _⟩ := C05_lower_left_inverse_clamped (K := ℚ) (1/100) (by norm_num) 2 1
    (by norm_num) (by norm_num) 0 1 [] [] rfl (by simp) hgap exCurve o' 3 hel
  have hc : (exCurve.bases.size == 1) = true := rfl
  have hs0 : stepOut (1/100 : ℚ) exCurve (.raiseOrder [1] none) = .ok { recv := o', news := [] } := by
    simp only [stepOut, hc, Obj.raiseOrderDispatch, if_true]
    have : exCurve.curveRaiseOrder (1/100) 1 = .ok (.self, o') := h1
    rw [this]; rfl
  have hs : stepOut (1/100 : ℚ) o' (.lowerOrder [1]) = .ok { recv := o', news := [o''] } := by
    simp only [stepOut]
    have : o'.lowerOrder (1/100) [1] = .ok (.new, o'') := h2
    rw [this]; rfl
  obtain ⟨w1, w2⟩ := stepOut_raiseOrder_wf_partial exCurve_wf (1/100) (by norm_num) [1] none
    exCurve_raiseGuard hs0
  obtain ⟨w3, o3, w4, w5, w6, _⟩ := stepOut_lowerOrder_wf_partial exCurve_wf (1/100) (by norm_num) [1] none [1]
    exCurve_lowerGuard hs0 hs
  exact ⟨_, _, hs0, w1, w2, hs, w3, o3, w4, w5, w6⟩

/-- A rational bilinear patch (both bases of order 2 on `[0,1]`, weights `1, 2, 1, 3`). -/
def exSurf : Obj ℚ :=
  { bases := #[openBasis 2 (clampedU 0 1 []) (clampedM 2 []), openBasis 2 (clampedU 0 1 []) (clampedM 2 [])],
    cps := { shape := [2, 2, 3], data := #[0, 0, 1,  0, 2, 2,  1, 0, 1,  3, 3, 3] }, rational := true }

theorem exSurf_wf : exSurf.WellFormed := (Obj.wfB_iff _).1 (by decide +kernel)

theorem exSurf_dir (d : ℕ) (hd : d < 2) : ClampedDir (1/100 : ℚ) (exSurf.basis d) 1 1 := by
  have : d = 0 ∨ d = 1 := by omega
  rcases this with rfl | rfl <;>
  exact ⟨1, 0, 1, [], [], by norm_num, by norm_num, rfl, by simp,
    by simp [Separated, clampedU]; norm_num, rfl⟩

/-- `raise_order(1)` (all directions) and `raise_order(1, direction=1)` on the patch satisfy the guard. -/
theorem exSurf_raiseGuard : RaiseGuard (1/100 : ℚ) exSurf [1] none := by
  refine ⟨[1, 1], ⟨rfl, ?_⟩, fun _ => ⟨by decide, fun d hd => ?_⟩⟩
  · rw [if_neg (by decide)]; rfl
  · have hd' : d < 2 := hd
    have : d = 0 ∨ d = 1 := by omega
    rcases this with rfl | rfl <;> exact (exSurf_dir _ (by omega)).mono (by omega)

/-- … and the call succeeds with a well-formed result. -/
theorem exSurf_runs : ∃ out, stepOut (1/100 : ℚ) exSurf (.raiseOrder [1] none) = .ok out
    ∧ out.recv.WellFormed ∧ out.news = [] := by
  obtain ⟨o', h1, _⟩ := C10R.raise_surface_wf exSurf_wf rfl (1/100) (by norm_num) 1 1 (Or.inl (by decide))
    ((exSurf_dir 0 (by omega)).mono (by omega)) ((exSurf_dir 1 (by omega)).mono (by omega))
  have hc : (exSurf.bases.size == 1) = false := rfl
  have hs0 : stepOut (1/100 : ℚ) exSurf (.raiseOrder [1] none) = .ok { recv := o', news := [] } := by
    simp only [stepOut, hc, Obj.raiseOrderDispatch, Bool.false_eq_true, if_false]
    have hn : Obj.normRaises exSurf.pardim [1] none = .ok [((1 : ℕ) : Int), ((1 : ℕ) : Int)] := rfl
    rw [raiseOrder_norm exSurf (1/100) [1] none _ hn (by simp), h1]; rfl
  obtain ⟨w1, w2⟩ := stepOut_raiseOrder_wf_partial exSurf_wf (1/100) (by norm_num) [1] none
    exSurf_raiseGuard hs0
  exact ⟨_, hs0, w1, w2⟩

/-- The keyword form `raise_order(1, direction=1)`: amounts `[0, 1]` (direction 0 is re-interpolated
    with amount `0`). -/
theorem exSurf_raiseGuard_dir : RaiseGuard (1/100 : ℚ) exSurf [1] (some 1) := by
  refine ⟨[0, 1], ⟨rfl, ?_⟩, fun _ => ⟨by decide, fun d hd => ?_⟩⟩
  · rw [if_neg (by decide)]; rfl
  · have hd' : d < 2 := hd
    have : d = 0 ∨ d = 1 := by omega
    rcases this with rfl | rfl
    · exact ⟨1, 0, 1, [], [], by norm_num, by norm_num, rfl, by simp,
        by simp [Separated, clampedU]; norm_num, rfl⟩
    · exact (exSurf_dir 1 (by omega)).mono (by omega)

end History

end Splipy
