import Splipy.Model.Reparam
import Splipy.Model.Valid
import Mathlib.Tactic.Ring
import Mathlib.Tactic.FieldSimp
import Mathlib.Tactic.Linarith

/-!
# C06 — knot-vector bookkeeping of `Basis.reverse` and `Basis.reparam`

`kn` of the reversed / re-parametrised basis in closed form, preservation of `Basis.Valid`,
involution / inverse laws.
-/

set_option linter.unusedSectionVars false
set_option linter.unusedSimpArgs false

namespace Splipy.C06

open Splipy

variable {K : Type} [Field K] [LinearOrder K]

/-- Total accessor as a case split. -/
theorem kn_eq (b : Basis K) (i : ℕ) :
    b.kn i = if h : i < b.knots.size then b.knots[i] else b.knots.getD (b.knots.size - 1) 0 := by
  unfold Basis.kn
  by_cases h : i < b.knots.size
  · simp [h, Array.getD_eq_getD_getElem?]
  · simp [h, Array.getD_eq_getD_getElem?]

theorem kn_of_lt (b : Basis K) {i : ℕ} (h : i < b.knots.size) : b.kn i = b.knots[i] := by
  rw [kn_eq, dif_pos h]

theorem kn_of_ge (b : Basis K) {i : ℕ} (h : b.knots.size ≤ i) : b.kn i = b.kn (b.knots.size - 1) := by
  unfold Basis.kn
  have h1 : ¬ i < b.knots.size := by omega
  by_cases h0 : b.knots.size = 0
  · simp [Array.getD_eq_getD_getElem?, h0]
  · have h2 : b.knots.size - 1 < b.knots.size := by omega
    simp [Array.getD_eq_getD_getElem?, h1, h2]

/-- `kn` of the index clipped to the array. -/
theorem kn_clip (b : Basis K) (i : ℕ) : b.kn i = b.kn (min i (b.knots.size - 1)) := by
  by_cases h : i < b.knots.size
  · have : min i (b.knots.size - 1) = i := by omega
    rw [this]
  · have : min i (b.knots.size - 1) = b.knots.size - 1 := by omega
    rw [this, kn_of_ge b (by omega)]

/-- Mapping a function over the knot array maps `kn` (non-empty array). -/
theorem kn_map (b : Basis K) (f : K → K) (h0 : 0 < b.knots.size) (i : ℕ) :
    ({ b with knots := b.knots.map f } : Basis K).kn i = f (b.kn i) := by
  unfold Basis.kn
  by_cases h : i < b.knots.size
  · simp [Array.getD_eq_getD_getElem?, h]
  · have h2 : b.knots.size - 1 < b.knots.size := by omega
    simp [Array.getD_eq_getD_getElem?, h, h2]

/-- `kn` of the reversed array. -/
theorem kn_reverse_array (b : Basis K) (i : ℕ) :
    ({ b with knots := b.knots.reverse } : Basis K).kn i = b.kn (b.knots.size - 1 - i) := by
  unfold Basis.kn
  by_cases h0 : b.knots.size = 0
  · simp [Array.getD_eq_getD_getElem?, h0]
  by_cases h : i < b.knots.size
  · have h2 : b.knots.size - 1 - i < b.knots.size := by omega
    simp [Array.getD_eq_getD_getElem?, h, h2, Array.getElem?_reverse]
  · have h2 : b.knots.size - 1 - i = 0 := by omega
    have h3 : 0 < b.knots.size := by omega
    have h4 : b.knots.size - 1 < b.knots.size := by omega
    have h5 : b.knots.size - 1 - (b.knots.size - 1) = 0 := by omega
    simp [Array.getD_eq_getD_getElem?, h, h2, h3, h4, h5, Array.getElem?_reverse]


/-- The formula of `BSplineBasis.reverse`, simplified (`a ≠ e`). -/
theorem reverse_formula (a e x : K) (h : a ≠ e) : (x - a) / (e - a) * (a - e) + e = a + e - x := by
  have h' : e - a ≠ 0 := sub_ne_zero.mpr (Ne.symm h)
  field_simp
  ring

theorem reverse_size (b : Basis K) : b.reverse.knots.size = b.knots.size := by
  simp [Basis.reverse]

theorem reverse_order (b : Basis K) : b.reverse.order = b.order := rfl
theorem reverse_periodic (b : Basis K) : b.reverse.periodic = b.periodic := rfl

/-- **Reversed knot vector**: `kn' j = start + stop - kn (N-1-j)`. -/
theorem reverse_kn (b : Basis K) (h0 : 0 < b.knots.size) (hne : b.start ≠ b.stop) (j : ℕ) :
    b.reverse.kn j = b.start + b.stop - b.kn (b.knots.size - 1 - j) := by
  have e1 : b.reverse = ({ ({ b with knots := b.knots.reverse } : Basis K) with
      knots := (b.knots.reverse).map (fun x => (x - b.start) / (b.stop - b.start) * (b.start - b.stop) + b.stop) }) := rfl
  rw [e1, kn_map _ _ (by simpa using h0), kn_reverse_array, reverse_formula _ _ _ hne]

section Ordered
variable [IsStrictOrderedRing K]

theorem valid_size_pos {b : Basis K} (hv : b.Valid) : 0 < b.knots.size := by
  have := hv.order_pos; have := hv.size_ge; omega

theorem valid_ne {b : Basis K} (hv : b.Valid) : b.start ≠ b.stop := ne_of_lt hv.start_lt_stop

/-- Monotonicity of the total accessor. -/
theorem valid_mono {b : Basis K} (hv : b.Valid) : Monotone b.kn := by
  apply monotone_nat_of_le_succ
  intro i
  by_cases h : i + 1 < b.knots.size
  · exact hv.sorted i h
  · by_cases h' : i < b.knots.size
    · have : i = b.knots.size - 1 := by omega
      rw [kn_of_ge b (show b.knots.size ≤ i + 1 by omega), ← this]
    · rw [kn_of_ge b (show b.knots.size ≤ i + 1 by omega), kn_of_ge b (show b.knots.size ≤ i by omega)]

theorem reverse_start {b : Basis K} (hv : b.Valid) : b.reverse.start = b.start := by
  have h1 := hv.order_pos; have h2 := hv.size_ge
  unfold Basis.start
  rw [reverse_order, reverse_kn b (valid_size_pos hv) (valid_ne hv)]
  have : b.knots.size - 1 - (b.order - 1) = b.knots.size - b.order := by omega
  rw [this]
  unfold Basis.start Basis.stop
  ring

theorem reverse_stop {b : Basis K} (hv : b.Valid) : b.reverse.stop = b.stop := by
  have h1 := hv.order_pos; have h2 := hv.size_ge
  unfold Basis.stop
  rw [reverse_order, reverse_size, reverse_kn b (valid_size_pos hv) (valid_ne hv)]
  have : b.knots.size - 1 - (b.knots.size - b.order) = b.order - 1 := by omega
  rw [this]
  unfold Basis.start Basis.stop
  ring

theorem reverse_numFunctions (b : Basis K) : b.reverse.numFunctions = b.numFunctions := by
  unfold Basis.numFunctions
  rw [reverse_size, reverse_order, reverse_periodic]

theorem reverse_nAll (b : Basis K) : b.reverse.nAll = b.nAll := by
  unfold Basis.nAll
  rw [reverse_size, reverse_order]

/-- `reverse` preserves well-formedness (sortedness, domain, ghost-knot periodicity). -/
theorem reverse_valid {b : Basis K} (hv : b.Valid) : b.reverse.Valid := by
  have h0 := valid_size_pos hv
  have hne := valid_ne hv
  refine ⟨hv.order_pos, by rw [reverse_size]; exact hv.size_ge, ?_, hv.periodic_ge, hv.periodic_le, ?_, ?_⟩
  · intro i hi
    rw [reverse_size] at hi
    rw [reverse_kn b h0 hne, reverse_kn b h0 hne]
    have := valid_mono hv (show b.knots.size - 1 - (i + 1) ≤ b.knots.size - 1 - i by omega)
    linarith
  · rw [reverse_start hv, reverse_stop hv]; exact hv.start_lt_stop
  · intro hp i hi
    rw [reverse_numFunctions, reverse_size] at hi
    rw [reverse_numFunctions, reverse_kn b h0 hne, reverse_kn b h0 hne, reverse_start hv, reverse_stop hv]
    have hg := hv.ghosts hp (b.knots.size - 1 - (i + b.numFunctions)) (by omega)
    have : b.knots.size - 1 - (i + b.numFunctions) + b.numFunctions = b.knots.size - 1 - i := by omega
    rw [this] at hg
    rw [hg]
    ring

/-- `reverse ∘ reverse` is the identity on the knot sequence. -/
theorem reverse_reverse_kn {b : Basis K} (hv : b.Valid) (j : ℕ) : b.reverse.reverse.kn j = b.kn j := by
  have hv' := reverse_valid hv
  rw [reverse_kn _ (valid_size_pos hv') (valid_ne hv'), reverse_start hv, reverse_stop hv, reverse_size,
    reverse_kn b (valid_size_pos hv) (valid_ne hv)]
  have h0 := valid_size_pos hv
  by_cases h : j < b.knots.size
  · have : b.knots.size - 1 - (b.knots.size - 1 - j) = j := by omega
    rw [this]; ring
  · have : b.knots.size - 1 - (b.knots.size - 1 - j) = b.knots.size - 1 := by omega
    rw [this, kn_of_ge b (show b.knots.size ≤ j by omega)]; ring

/-- … and on the array itself. -/
theorem reverse_reverse {b : Basis K} (hv : b.Valid) : b.reverse.reverse = b := by
  have hs : b.reverse.reverse.knots.size = b.knots.size := by rw [reverse_size, reverse_size]
  have hk : b.reverse.reverse.knots = b.knots := by
    apply Array.ext hs
    intro i h1 h2
    have := reverse_reverse_kn hv i
    rwa [kn_of_lt _ h1, kn_of_lt _ h2] at this
  cases b
  simp only [Basis.reverse] at hk ⊢
  simp only [Basis.mk.injEq, true_and]
  exact ⟨hk, trivial⟩

end Ordered

/-! ## `reparam` -/

/-- The successful branch of `Basis.reparam`. -/
def reparamOk (b : Basis K) (s e : K) : Basis K :=
  let k1 := b.knots.map (fun x => x - b.start)
  let b1 : Basis K := { b with knots := k1 }
  let k2 := k1.map (fun x => x / b1.stop)
  { b with knots := k2.map (fun x => x * (e - s) + s) }

theorem reparam_eq (b : Basis K) (s e : K) :
    b.reparam s e = if e ≤ s then .error .value else .ok (reparamOk b s e) := rfl

/-- `end ≤ start` raises `ValueError`. -/
theorem reparam_error (b : Basis K) {s e : K} (h : e ≤ s) : b.reparam s e = .error .value := by
  rw [reparam_eq, if_pos h]

theorem reparam_ok (b : Basis K) {s e : K} (h : s < e) : b.reparam s e = .ok (reparamOk b s e) := by
  rw [reparam_eq, if_neg (not_le.mpr h)]

theorem reparamOk_size (b : Basis K) (s e : K) : (reparamOk b s e).knots.size = b.knots.size := by
  simp [reparamOk]

theorem reparamOk_order (b : Basis K) (s e : K) : (reparamOk b s e).order = b.order := rfl
theorem reparamOk_periodic (b : Basis K) (s e : K) : (reparamOk b s e).periodic = b.periodic := rfl

/-- **Re-parametrised knot vector**: `kn' j = s + (kn j - a)(e - s)/(b_end - a)` (any `s e`). -/
theorem reparamOk_kn (b : Basis K) (h0 : 0 < b.knots.size) (s e : K) (j : ℕ) :
    (reparamOk b s e).kn j = s + (b.kn j - b.start) * (e - s) / (b.stop - b.start) := by
  have hstop : ({ b with knots := b.knots.map (fun x => x - b.start) } : Basis K).stop = b.stop - b.start := by
    unfold Basis.stop
    rw [kn_map b _ h0]
    simp
  have e1 : reparamOk b s e =
      ({ ({ ({ b with knots := b.knots.map (fun x => x - b.start) } : Basis K) with
            knots := (b.knots.map (fun x => x - b.start)).map
              (fun x => x / ({ b with knots := b.knots.map (fun x => x - b.start) } : Basis K).stop) } : Basis K) with
          knots := ((b.knots.map (fun x => x - b.start)).map
              (fun x => x / ({ b with knots := b.knots.map (fun x => x - b.start) } : Basis K).stop)).map
              (fun x => x * (e - s) + s) }) := rfl
  rw [e1, kn_map _ _ (by simpa using h0), kn_map _ _ (by simpa using h0), kn_map _ _ h0, hstop]
  ring

section Ordered2
variable [IsStrictOrderedRing K]

theorem reparamOk_start {b : Basis K} (hv : b.Valid) (s e : K) : (reparamOk b s e).start = s := by
  unfold Basis.start
  rw [reparamOk_order, reparamOk_kn b (valid_size_pos hv)]
  change s + (b.start - b.start) * (e - s) / (b.stop - b.start) = s
  rw [sub_self, zero_mul, zero_div, add_zero]

theorem reparamOk_stop {b : Basis K} (hv : b.Valid) (s e : K) : (reparamOk b s e).stop = e := by
  unfold Basis.stop
  rw [reparamOk_order, reparamOk_size, reparamOk_kn b (valid_size_pos hv)]
  change s + (b.stop - b.start) * (e - s) / (b.stop - b.start) = e
  have h : b.stop - b.start ≠ 0 := sub_ne_zero.mpr (Ne.symm (valid_ne hv))
  field_simp
  ring

theorem reparamOk_numFunctions (b : Basis K) (s e : K) : (reparamOk b s e).numFunctions = b.numFunctions := by
  unfold Basis.numFunctions
  rw [reparamOk_size, reparamOk_order, reparamOk_periodic]

/-- The knots are mapped by the increasing affine map `x ↦ α x + β`,
    `α = (e-s)/(stop-start)`, `β = s - α·start`. -/
theorem reparamOk_kn_affine (b : Basis K) (h0 : 0 < b.knots.size) (s e : K) (j : ℕ) :
    (reparamOk b s e).kn j
      = (e - s) / (b.stop - b.start) * b.kn j + (s - (e - s) / (b.stop - b.start) * b.start) := by
  rw [reparamOk_kn b h0]; ring

theorem reparam_scale_pos {b : Basis K} (hv : b.Valid) {s e : K} (h : s < e) :
    0 < (e - s) / (b.stop - b.start) :=
  div_pos (sub_pos.mpr h) (sub_pos.mpr hv.start_lt_stop)

/-- `reparam` (with `s < e`) preserves well-formedness. -/
theorem reparamOk_valid {b : Basis K} (hv : b.Valid) {s e : K} (h : s < e) : (reparamOk b s e).Valid := by
  have h0 := valid_size_pos hv
  have hα := reparam_scale_pos hv h
  refine ⟨hv.order_pos, by rw [reparamOk_size]; exact hv.size_ge, ?_, hv.periodic_ge, hv.periodic_le, ?_, ?_⟩
  · intro i hi
    rw [reparamOk_size] at hi
    rw [reparamOk_kn_affine b h0, reparamOk_kn_affine b h0]
    have := hv.sorted i hi
    have := mul_le_mul_of_nonneg_left this hα.le
    linarith
  · rw [reparamOk_start hv, reparamOk_stop hv]; exact h
  · intro hp i hi
    rw [reparamOk_numFunctions, reparamOk_size] at hi
    rw [reparamOk_numFunctions, reparamOk_kn b h0, reparamOk_kn b h0, reparamOk_start hv, reparamOk_stop hv,
      hv.ghosts hp i hi]
    have hd : b.stop - b.start ≠ 0 := sub_ne_zero.mpr (Ne.symm (valid_ne hv))
    field_simp
    ring

/-- Re-parametrising back to the old interval restores every knot. -/
theorem reparamOk_back_kn {b : Basis K} (hv : b.Valid) {s e : K} (h : s < e) (j : ℕ) :
    (reparamOk (reparamOk b s e) b.start b.stop).kn j = b.kn j := by
  have hv' := reparamOk_valid hv h
  rw [reparamOk_kn _ (valid_size_pos hv'), reparamOk_start hv, reparamOk_stop hv,
    reparamOk_kn b (valid_size_pos hv)]
  have hd : b.stop - b.start ≠ 0 := sub_ne_zero.mpr (Ne.symm (valid_ne hv))
  have hd' : e - s ≠ 0 := sub_ne_zero.mpr (ne_of_gt h)
  field_simp
  ring

theorem reparamOk_back {b : Basis K} (hv : b.Valid) {s e : K} (h : s < e) :
    reparamOk (reparamOk b s e) b.start b.stop = b := by
  have hs : (reparamOk (reparamOk b s e) b.start b.stop).knots.size = b.knots.size := by
    rw [reparamOk_size, reparamOk_size]
  have hk : (reparamOk (reparamOk b s e) b.start b.stop).knots = b.knots := by
    apply Array.ext hs
    intro i h1 h2
    have := reparamOk_back_kn hv h i
    rwa [kn_of_lt _ h1, kn_of_lt _ h2] at this
  have ho : (reparamOk (reparamOk b s e) b.start b.stop).order = b.order := rfl
  have hp : (reparamOk (reparamOk b s e) b.start b.stop).periodic = b.periodic := rfl
  cases b
  cases hb : reparamOk (reparamOk _ s e) _ _
  rw [hb] at hk ho hp
  simp only at hk ho hp
  subst hk ho hp
  rfl

end Ordered2

end Splipy.C06
