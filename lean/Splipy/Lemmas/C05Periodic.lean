import Splipy.Lemmas.C10Cummax
import Splipy.Lemmas.C05Knots
import Splipy.Model.Valid
import Splipy.Lemmas.Triangle
import Mathlib.Data.List.GetD
import Mathlib.Algebra.Order.Floor.Ring

/-!
# C05 — knot bookkeeping of `raise_order` on PERIODIC bases (ghost-knot trimming)

A standard periodic knot vector of order `p` and continuity `k` is described by one period:
distinct values `w` (`w₀ = start`), multiplicities `μ`, period length `T`:

  `perKnots p k w μ T = last (k+1) knots of (P − T)  ++  P  ++  first p knots of (P + T)`,  `P = expand w μ`.

`BSplineBasis.raise_order(a)` adds `a` copies of every distinct knot (ghosts included), sorts, and
trims `knots[n0·a : −n1·a]` with `n0`, `n1` the numbers of distinct ghost values left of `start` /
right of `end`.  Result (`raiseOrder_periodic`): the standard periodic vector of order `p + a`, the
same `k`, `w`, `T` and multiplicities `μ + a`.
-/

namespace Splipy

set_option linter.unusedSectionVars false

variable {K : Type} [Field K] [LinearOrder K] [IsStrictOrderedRing K]

/-! ## `expand` under shifts, prefixes and suffixes -/

theorem expand_map (f : K → K) : ∀ (u : List K) (m : List ℕ),
    (expand u m).map f = expand (u.map f) m := by
  intro u
  induction u with
  | nil => intro m; simp
  | cons x u ih =>
    intro m
    cases m with
    | nil => simp
    | cons k m => simp [ih m]

theorem length_expand : ∀ (u : List K) (m : List ℕ), u.length = m.length → (expand u m).length = m.sum := by
  intro u
  induction u with
  | nil => intro m h; cases m <;> simp_all
  | cons x u ih =>
    intro m h
    cases m with
    | nil => simp at h
    | cons k m => simp [ih m (by simpa using h)]

theorem sum_map_add (a : ℕ) (l : List ℕ) : (l.map (· + a)).sum = l.sum + a * l.length := by
  induction l with
  | nil => simp
  | cons x l ih =>
    simp only [List.map_cons, List.sum_cons, List.length_cons]
    rw [ih, Nat.mul_succ]; omega

/-- Suffix of an `expand`: dropping `d` knots leaves the groups from some `j` on, the first with `c`
    copies; the same suffix of the raised vector is obtained by dropping `d + a·j`. -/
theorem drop_expand : ∀ (u : List K) (m : List ℕ) (d : ℕ), u.length = m.length → (∀ x ∈ m, 1 ≤ x) →
    d < (expand u m).length →
    ∃ j c, j < u.length ∧ 1 ≤ c ∧ (expand u m).drop d = expand (u.drop j) (c :: m.drop (j+1)) ∧
      ∀ a, (expand u (m.map (· + a))).drop (d + a * j)
        = expand (u.drop j) ((c + a) :: (m.drop (j+1)).map (· + a)) := by
  intro u
  induction u with
  | nil => intro m d _ _ hd; simp at hd
  | cons x u ih =>
    intro m d hlen hm hd
    cases m with
    | nil => simp at hlen
    | cons k m =>
      by_cases hdk : d < k
      · refine ⟨0, k - d, by simp, by omega, ?_, fun a => ?_⟩
        · simp only [expand_cons, List.drop_zero, Nat.zero_add]
          rw [List.drop_append_of_le_length (by simp; omega)]
          simp
        · simp only [List.map_cons, expand_cons, List.drop_zero, Nat.zero_add, Nat.mul_zero, Nat.add_zero]
          rw [List.drop_append_of_le_length (by simp; omega)]
          simp
          congr 2
          omega
      · have hd' : d - k < (expand u m).length := by
          simp only [expand_cons, List.length_append, List.length_replicate] at hd; omega
        obtain ⟨j, c, hj, hc, h1, h2⟩ := ih m (d - k) (by simpa using hlen)
          (fun x hx => hm x (List.mem_cons_of_mem _ hx)) hd'
        refine ⟨j + 1, c, by simp; omega, hc, ?_, fun a => ?_⟩
        · simp only [expand_cons, List.drop_succ_cons]
          rw [List.drop_append]
          simp only [List.length_replicate]
          rw [List.drop_eq_nil_of_le (by simp; omega), List.nil_append, h1]
        · simp only [List.map_cons, expand_cons, List.drop_succ_cons]
          rw [List.drop_append]
          simp only [List.length_replicate]
          rw [List.drop_eq_nil_of_le (by simp; rw [Nat.mul_succ]; omega), List.nil_append]
          have : d + a * (j + 1) - (k + a) = d - k + a * j := by rw [Nat.mul_succ]; omega
          rw [this, h2 a]

/-- Prefix of an `expand`: the first `h` knots are the groups up to some `j`, the last with `c`
    copies; the same prefix of the raised vector has `h + a·(j+1)` knots. -/
theorem take_expand : ∀ (u : List K) (m : List ℕ) (h : ℕ), u.length = m.length → (∀ x ∈ m, 1 ≤ x) →
    1 ≤ h → h ≤ (expand u m).length →
    ∃ j c, j < u.length ∧ 1 ≤ c ∧ (m.headD 0 < h → 1 ≤ j) ∧
      (expand u m).take h = expand (u.take (j+1)) (m.take j ++ [c]) ∧
      ∀ a, (expand u (m.map (· + a))).take (h + a * (j+1))
        = expand (u.take (j+1)) ((m.take j).map (· + a) ++ [c + a]) := by
  intro u
  induction u with
  | nil => intro m h _ _ h1 h2; simp at h2; omega
  | cons x u ih =>
    intro m h hlen hm h1 h2
    cases m with
    | nil => simp at hlen
    | cons k m =>
      by_cases hhk : h ≤ k
      · refine ⟨0, h, by simp, h1, fun hc => by simp at hc; omega, ?_, fun a => ?_⟩
        · simp only [expand_cons, List.take_zero, List.nil_append, Nat.zero_add, List.take_succ_cons, expand_nil_left,
            List.append_nil]
          rw [List.take_append_of_le_length (by simp; omega)]
          simp [hhk]
        · simp only [List.map_cons, expand_cons, List.take_zero, List.map_nil, List.nil_append, Nat.zero_add,
            Nat.mul_one, List.take_succ_cons, expand_nil_left, List.append_nil]
          rw [List.take_append_of_le_length (by simp; omega)]
          simp
          omega
      · have hk' : 1 ≤ h - k := by omega
        have hlen' : h - k ≤ (expand u m).length := by
          simp only [expand_cons, List.length_append, List.length_replicate] at h2; omega
        obtain ⟨j, c, hj, hc, _, e1, e2⟩ := ih m (h - k) (by simpa using hlen)
          (fun x hx => hm x (List.mem_cons_of_mem _ hx)) hk' hlen'
        refine ⟨j + 1, c, by simp; omega, hc, fun _ => by omega, ?_, fun a => ?_⟩
        · simp only [expand_cons, List.take_succ_cons, List.cons_append]
          rw [List.take_append]
          simp only [List.length_replicate]
          rw [List.take_of_length_le (by simp; omega), e1]
        · simp only [List.map_cons, expand_cons, List.take_succ_cons, List.cons_append]
          rw [List.take_append]
          simp only [List.length_replicate]
          rw [List.take_of_length_le (by simp; rw [Nat.mul_succ]; omega)]
          have : h + a * (j + 1 + 1) - (k + a) = h - k + a * (j + 1) := by
            rw [Nat.mul_succ]; omega
          rw [this, e2 a]

/-! ## Binary search in a sorted list (as Python's `bisect_left` on the list of distinct knots) -/

omit [Field K] [IsStrictOrderedRing K] in
theorem bisectLeftAux_congr (f g : ℕ → K) (v : K) (lo hi : ℕ) (h : ∀ i, i < hi → f i = g i) :
    bisectLeftAux f v lo hi = bisectLeftAux g v lo hi := by
  fun_induction bisectLeftAux f v lo hi with
  | case1 lo hi hlt mid hc ih =>
    have hmid : mid = (lo + hi) / 2 := rfl
    rw [bisectLeftAux.eq_1 g v lo hi, dif_pos hlt]
    simp only
    rw [← hmid, ← h mid (by omega), if_pos hc]
    exact ih h
  | case2 lo hi hlt mid hc ih =>
    have hmid : mid = (lo + hi) / 2 := rfl
    rw [bisectLeftAux.eq_1 g v lo hi, dif_pos hlt]
    simp only
    rw [← hmid, ← h mid (by omega), if_neg hc]
    exact ih (fun i hi' => h i (by omega))
  | case3 lo hi hlt =>
    rw [bisectLeftAux.eq_1 g v lo hi, dif_neg hlt]

/-- `bisect_left(l, v)` for a sorted list `l = A ++ C` with `A < v ≤ C`. -/
theorem bisectLeft_list_split (A C : List K) (v : K) (hs : (A ++ C).Pairwise (· ≤ ·))
    (hA : ∀ y ∈ A, y < v) (hC : ∀ y ∈ C, v ≤ y) :
    bisectLeft (fun i => (A ++ C).toArray.getD i 0) v (A ++ C).toArray.size = A.length := by
  -- use a basis carrying the list as knot vector: its `kn` is the monotone extension
  set B : Basis K := { order := 1, knots := (A ++ C).toArray, periodic := -1 } with hB
  have h := bisectL_split B A C v rfl hs hA hC
  unfold Basis.bisectL at h
  rw [← h]
  unfold bisectLeft
  apply bisectLeftAux_congr
  intro i hi
  have hi' : i < (A ++ C).length := by simpa using hi
  rw [kn_of_lt_list B (A ++ C) rfl hi']
  have hi'' : i < A.length + C.length := by simpa using hi'
  simp [Array.getD, hi'']

/-! ## Standard periodic knot vectors -/

/-- `last (k+1) of (P − T) ++ P ++ first p of (P + T)` with `P = expand w μ` (one period). -/
def perKnots (p k : ℕ) (w : List K) (μ : List ℕ) (T : K) : List K :=
  ((expand w μ).map (· - T)).drop (μ.sum - (k + 1)) ++ expand w μ ++ ((expand w μ).map (· + T)).take p

/-- The periodic basis of order `p`, continuity `k`, with the standard knot vector. -/
def perBasis (p k : ℕ) (w : List K) (μ : List ℕ) (T : K) : Basis K :=
  { order := p, knots := (perKnots p k w μ T).toArray, periodic := (k : Int) }

/-- Hypotheses on one period: distinct values `w0 :: wr` more than `tol` apart (also across the
    seam: `w_last + tol < w0 + T`), positive multiplicities, both ghost regions fit into one period,
    `start = w0` (`k + 2 ≤ p ≤ k + 1 + μ0`) and at least one distinct knot beyond `end` (`μ0 < p`). -/
structure PerData (tol : K) (p k : ℕ) (w0 : K) (wr : List K) (μ0 : ℕ) (μr : List ℕ) (T : K) : Prop where
  len : wr.length = μr.length
  pos0 : 1 ≤ μ0
  pos : ∀ x ∈ μr, 1 ≤ x
  sep : Separated tol (w0 :: wr ++ [w0 + T])
  hk : k + 1 ≤ μ0 + μr.sum
  hp : p ≤ μ0 + μr.sum
  seam1 : p ≤ k + 1 + μ0
  seam2 : μ0 < p
  hk2 : k + 2 ≤ p

variable {tol : K} {p k : ℕ} {w0 : K} {wr : List K} {μ0 : ℕ} {μr : List ℕ} {T : K}

theorem PerData.raise (h : PerData tol p k w0 wr μ0 μr T) (a : ℕ) :
    PerData tol (p + a) k w0 wr (μ0 + a) (μr.map (· + a)) T where
  len := by simpa using h.len
  pos0 := by have := h.pos0; omega
  pos := by
    intro x hx; rw [List.mem_map] at hx; obtain ⟨y, hy, rfl⟩ := hx; have := h.pos y hy; omega
  sep := h.sep
  hk := by
    have := sum_map_add a μr
    have := h.hk; omega
  hp := by
    have := sum_map_add a μr
    have := h.hp; omega
  seam1 := by have := h.seam1; omega
  seam2 := by have := h.seam2; omega
  hk2 := by have := h.hk2; omega

/-- Facts about the values of one period. -/
theorem PerData.values (h : PerData tol p k w0 wr μ0 μr T) (h0 : 0 ≤ tol) :
    Separated tol (w0 :: wr) ∧ (∀ x ∈ w0 :: wr, x + tol < w0 + T) ∧ (∀ x ∈ w0 :: wr, w0 ≤ x) ∧ tol < T := by
  have hs : Separated tol ((w0 :: wr) ++ [w0 + T]) := by simpa using h.sep
  have hp := List.pairwise_append.mp hs
  refine ⟨hp.1, fun x hx => hp.2.2 x hx _ (by simp), ?_, ?_⟩
  · intro x hx
    rcases List.mem_cons.mp hx with rfl | hx
    · exact le_rfl
    · have := List.rel_of_pairwise_cons hp.1 hx; linarith
  · have := hp.2.2 w0 (by simp) (w0 + T) (by simp); linarith

/-- The standard periodic vector in `expand` form: ghost groups left (`uL`, `mL`), one period,
    ghost groups right (`uR`, `mR`), together with the corresponding pieces of the RAISED period. -/
theorem PerData.decomp (h : PerData tol p k w0 wr μ0 μr T) :
    ∃ (jL cL jR cR : ℕ), jL < (w0 :: wr).length ∧ 1 ≤ cL ∧ 1 ≤ jR ∧ jR < (w0 :: wr).length ∧ 1 ≤ cR ∧
      perKnots p k (w0 :: wr) (μ0 :: μr) T
        = expand (((w0 :: wr).map (· - T)).drop jL) (cL :: (μ0 :: μr).drop (jL + 1))
          ++ expand (w0 :: wr) (μ0 :: μr)
          ++ expand (((w0 :: wr).map (· + T)).take (jR + 1)) ((μ0 :: μr).take jR ++ [cR]) ∧
      (expand (((w0 :: wr).map (· - T)).drop jL) (cL :: (μ0 :: μr).drop (jL + 1))).length = k + 1 ∧
      (expand (((w0 :: wr).map (· + T)).take (jR + 1)) ((μ0 :: μr).take jR ++ [cR])).length = p ∧
      (∀ a, ((expand (w0 :: wr) ((μ0 :: μr).map (· + a))).map (· - T)).drop
            ((μ0 :: μr).sum - (k + 1) + a * jL)
          = expand (((w0 :: wr).map (· - T)).drop jL) ((cL + a) :: ((μ0 :: μr).drop (jL + 1)).map (· + a))) ∧
      (∀ a, ((expand (w0 :: wr) ((μ0 :: μr).map (· + a))).map (· + T)).take (p + a * (jR + 1))
          = expand (((w0 :: wr).map (· + T)).take (jR + 1)) (((μ0 :: μr).take jR).map (· + a) ++ [cR + a])) := by
  have hlen : (w0 :: wr).length = (μ0 :: μr).length := by simp [h.len]
  have hpos : ∀ x ∈ μ0 :: μr, 1 ≤ x := by
    intro x hx
    rcases List.mem_cons.mp hx with rfl | hx
    · exact h.pos0
    · exact h.pos x hx
  have hL : (expand (w0 :: wr) (μ0 :: μr)).length = (μ0 :: μr).sum := length_expand _ _ hlen
  have hsum : (μ0 :: μr).sum = μ0 + μr.sum := by simp
  have hk := h.hk
  have hp := h.hp
  have hs2 := h.seam2
  have hp0 := h.pos0
  -- left
  have hlenL : ((w0 :: wr).map (· - T)).length = (μ0 :: μr).length := by simp [h.len]
  obtain ⟨jL, cL, hjL, hcL, eL, rL⟩ := drop_expand ((w0 :: wr).map (· - T)) (μ0 :: μr)
    ((μ0 :: μr).sum - (k + 1)) hlenL hpos (by rw [length_expand _ _ hlenL]; omega)
  -- right
  have hlenR : ((w0 :: wr).map (· + T)).length = (μ0 :: μr).length := by simp [h.len]
  obtain ⟨jR, cR, hjR, hcR, hj1, eR, rR⟩ := take_expand ((w0 :: wr).map (· + T)) (μ0 :: μr) p hlenR hpos
    (by omega) (by rw [length_expand _ _ hlenR]; omega)
  refine ⟨jL, cL, jR, cR, by simpa using hjL, hcL, hj1 (by simpa using hs2), by simpa using hjR, hcR, ?_, ?_, ?_,
    fun a => ?_, fun a => ?_⟩
  · unfold perKnots
    rw [expand_map, expand_map, eL, eR]
  · rw [← eL, List.length_drop, length_expand _ _ hlenL]; omega
  · rw [← eR, List.length_take, length_expand _ _ hlenR]; omega
  · rw [expand_map]; exact rL a
  · rw [expand_map]; exact rR a

/-! ## `raise_order` on a standard periodic basis: the trimmed knot list -/

theorem separated_map_add (c : K) {u : List K} (h : Separated tol u) : Separated tol (u.map (· + c)) := by
  unfold Separated at *
  rw [List.pairwise_map]
  exact h.imp (fun hxy => by linarith)

theorem separated_map_sub (c : K) {u : List K} (h : Separated tol u) : Separated tol (u.map (· - c)) := by
  unfold Separated at *
  rw [List.pairwise_map]
  exact h.imp (fun hxy => by linarith)

/-- The knot list handed to the constructor by `raise_order(a)`, `a ≥ 1`, on a standard periodic
    basis is the standard periodic vector of order `p + a` with every multiplicity raised by `a`. -/
theorem raiseOrder_periodic_eq (h : PerData tol p k w0 wr μ0 μr T) (htol : 0 < tol) (a : ℕ) (ha : 1 ≤ a) :
    (perBasis p k (w0 :: wr) (μ0 :: μr) T).raiseOrder tol a
      = Basis.mk? (p + a) (perKnots (p + a) k (w0 :: wr) ((μ0 :: μr).map (· + a)) T).toArray (k : Int) tol := by
  have h0 : 0 ≤ tol := htol.le
  obtain ⟨hsepw, hlt, hge, hT⟩ := h.values h0
  obtain ⟨jL, cL, jR, cR, hjL, hcL, hjR1, hjR, hcR, hK, hlenA, hlenB, rL, rR⟩ := h.decomp
  set w := w0 :: wr with hw
  set μ := μ0 :: μr with hμ
  have hlen : w.length = μ.length := by simp [hw, hμ, h.len]
  have hpos : ∀ x ∈ μ, 1 ≤ x := by
    intro x hx
    rcases List.mem_cons.mp hx with rfl | hx
    · exact h.pos0
    · exact h.pos x hx
  set uL := (w.map (· - T)).drop jL with huL
  set mL := cL :: μ.drop (jL + 1) with hmL
  set uR := (w.map (· + T)).take (jR + 1) with huR
  set mR := μ.take jR ++ [cR] with hmR
  have hlenL : uL.length = mL.length := by
    simp only [huL, hmL, List.length_drop, List.length_map, List.length_cons]
    have : jL < μ.length := by rw [← hlen]; exact hjL
    omega
  have hlenR : uR.length = mR.length := by
    simp only [huR, hmR, List.length_take, List.length_map, List.length_append, List.length_cons, List.length_nil]
    have : jR < μ.length := by rw [← hlen]; exact hjR
    omega
  have huLlen : uL.length = w.length - jL := by simp [huL]
  have huRlen : uR.length = jR + 1 := by
    simp only [huR, List.length_take, List.length_map]; omega
  -- the whole vector in expand form
  have hKe : perKnots p k w μ T = expand (uL ++ w ++ uR) (mL ++ μ ++ mR) := by
    rw [hK, expand_append (uL ++ w) (mL ++ μ) uR mR (by simp [hlenL, hlen]),
      expand_append uL mL w μ hlenL]
  -- positivity of all multiplicities
  have hposL : ∀ x ∈ mL, 1 ≤ x := by
    intro x hx
    rcases List.mem_cons.mp hx with rfl | hx
    · exact hcL
    · exact hpos x (List.mem_of_mem_drop hx)
  have hposR : ∀ x ∈ mR, 1 ≤ x := by
    intro x hx
    rcases List.mem_append.mp hx with hx | hx
    · exact hpos x (List.mem_of_mem_take hx)
    · simp at hx; omega
  -- separation of all distinct values
  have hmemL : ∀ x ∈ uL, ∃ y ∈ w, x = y - T := by
    intro x hx
    have := List.mem_of_mem_drop hx
    rw [List.mem_map] at this
    obtain ⟨y, hy, rfl⟩ := this
    exact ⟨y, hy, rfl⟩
  have hmemR : ∀ x ∈ uR, ∃ y ∈ w, x = y + T := by
    intro x hx
    have := List.mem_of_mem_take hx
    rw [List.mem_map] at this
    obtain ⟨y, hy, rfl⟩ := this
    exact ⟨y, hy, rfl⟩
  have hsepU : Separated tol (uL ++ w ++ uR) := by
    unfold Separated
    rw [List.pairwise_append, List.pairwise_append]
    refine ⟨⟨(separated_map_sub T hsepw).sublist (List.drop_sublist _ _), hsepw, ?_⟩,
      (separated_map_add T hsepw).sublist (List.take_sublist _ _), ?_⟩
    · intro x hx y hy
      obtain ⟨x', hx', rfl⟩ := hmemL x hx
      have := hlt x' hx'; have := hge y hy; linarith
    · intro x hx y hy
      obtain ⟨y', hy', rfl⟩ := hmemR y hy
      have hy0 := hge y' hy'
      rcases List.mem_append.mp hx with hx | hx
      · obtain ⟨x', hx', rfl⟩ := hmemL x hx
        have := hlt x' hx'; linarith
      · have := hlt x hx; linarith
  -- head form for `knotSpans_expand`
  obtain ⟨x, uL', huLx⟩ : ∃ x uL', uL = x :: uL' := by
    cases hc : uL with
    | nil => rw [hc] at huLlen; simp at huLlen; omega
    | cons x t => exact ⟨x, t, rfl⟩
  have hUx : uL ++ w ++ uR = x :: (uL' ++ w ++ uR) := by rw [huLx]; simp
  have hMx : mL ++ μ ++ mR = cL :: (μ.drop (jL + 1) ++ μ ++ mR) := by rw [hmL]; simp
  have hlenU : (uL' ++ w ++ uR).length = (μ.drop (jL + 1) ++ μ ++ mR).length := by
    have : (uL ++ w ++ uR).length = (mL ++ μ ++ mR).length := by simp [hlenL, hlen, hlenR]
    rw [hUx, hMx] at this
    simpa using this
  have hposM : ∀ x ∈ μ.drop (jL + 1) ++ μ ++ mR, 1 ≤ x := by
    intro x hx
    rcases List.mem_append.mp hx with hx | hx
    · rcases List.mem_append.mp hx with hx | hx
      · exact hpos x (List.mem_of_mem_drop hx)
      · exact hpos x hx
    · exact hposR x hx
  have hspans : (perBasis p k w μ T).knotSpans tol true = (uL ++ w ++ uR).toArray := by
    unfold perBasis
    rw [hKe, hUx, hMx]
    exact knotSpans_expand tol h0 p (k : Int) x _ cL _ hcL hlenU (by rw [← hUx]; exact hsepU) hposM
  -- unfold the model
  unfold Basis.raiseOrder
  have ha0 : ¬ a = 0 := by omega
  simp only [ha0, if_false, hspans]
  have hper : (perBasis p k w μ T).periodic > -1 := by show ((k : Int) > -1); omega
  simp only [hper, if_true]
  have hknots : (perBasis p k w μ T).knots.toList = expand (uL ++ w ++ uR) (mL ++ μ ++ mR) := by
    show (perKnots p k w μ T).toArray.toList = _
    rw [hKe]
  have hms := mergeSort_raise tol h0 (uL ++ w ++ uR) (mL ++ μ ++ mR) (by simp [hlenL, hlen, hlenR]) hsepU a
  rw [hknots, hms]
  -- the raised vector in three pieces
  have hXe : expand (uL ++ w ++ uR) ((mL ++ μ ++ mR).map (· + a))
      = expand uL (mL.map (· + a)) ++ expand w (μ.map (· + a)) ++ expand uR (mR.map (· + a)) := by
    rw [List.map_append, List.map_append,
      expand_append (uL ++ w) _ uR _ (by simp [hlenL, hlen]),
      expand_append uL _ w _ (by simpa using hlenL)]
  -- start and end of the domain
  have hP : expand w μ = List.replicate μ0 w0 ++ expand wr μr := by rw [hw, hμ]; rfl
  have hsumμ : μ.sum = μ0 + μr.sum := by rw [hμ]; simp
  have hPlen : (expand w μ).length = μ.sum := length_expand w μ hlen
  have hBR : expand uR mR = List.replicate μ0 (w0 + T) ++ expand (uR.drop 1) (mR.drop 1) := by
    have e1 : uR = (w0 + T) :: uR.drop 1 := by
      rw [huR, hw]; simp
    have e2 : mR = μ0 :: mR.drop 1 := by
      rw [hmR, hμ]
      obtain ⟨j', rfl⟩ : ∃ j', jR = j' + 1 := ⟨jR - 1, by omega⟩
      simp
    conv_lhs => rw [e1, e2]
    rfl
  have hkl : (perBasis p k w μ T).knots = (expand uL mL ++ expand w μ ++ expand uR mR).toArray := by
    show (perKnots p k w μ T).toArray = _
    rw [hK]
  have hk2 := h.hk2
  have hs1 := h.seam1
  have hs2 := h.seam2
  have hp0 := h.pos0
  have hstart : (perBasis p k w μ T).start = w0 := by
    unfold Basis.start
    show (perBasis p k w μ T).kn (p - 1) = w0
    rw [kn_of_lt_list _ _ hkl (by simp [hlenA, hlenB, hPlen]; omega)]
    rw [List.getElem_append_left (by simp [hlenA, hPlen]; omega),
      List.getElem_append_right (by rw [hlenA]; omega)]
    simp only [hP]
    rw [List.getElem_append_left (by simp [hlenA]; omega)]
    simp
  have hstop : (perBasis p k w μ T).stop = w0 + T := by
    unfold Basis.stop
    have hsz : (perBasis p k w μ T).knots.size = k + 1 + μ.sum + p := by
      rw [hkl]; simp [hlenA, hlenB, hPlen]; omega
    show (perBasis p k w μ T).kn ((perBasis p k w μ T).knots.size - p) = w0 + T
    rw [hsz, Nat.add_sub_cancel]
    rw [kn_of_lt_list _ _ hkl (by simp [hlenA, hlenB, hPlen]; omega)]
    rw [List.getElem_append_right (by simp [hlenA, hPlen])]
    simp only [hBR, List.length_append, hlenA, hPlen, Nat.sub_self]
    rw [List.getElem_append_left (by simp; omega)]
    simp
  -- the two binary searches in the list of distinct values
  have hsortedU : (uL ++ w ++ uR).Pairwise (· ≤ ·) := hsepU.imp (fun hxy => by linarith)
  have hbl0 : bisectLeft (fun i => (uL ++ w ++ uR).toArray.getD i 0) w0 (uL ++ w ++ uR).toArray.size = uL.length := by
    have := bisectLeft_list_split uL (w ++ uR) w0 (by rw [← List.append_assoc]; exact hsortedU)
      (fun y hy => by obtain ⟨y', hy', rfl⟩ := hmemL y hy; have := hlt y' hy'; linarith)
      (fun y hy => by
        rcases List.mem_append.mp hy with hy | hy
        · exact hge y hy
        · obtain ⟨y', hy', rfl⟩ := hmemR y hy; have := hge y' hy'; linarith)
    rw [← List.append_assoc] at this
    exact this
  have hbl1 : bisectLeft (fun i => (uL ++ w ++ uR).toArray.getD i 0) (w0 + T) (uL ++ w ++ uR).toArray.size
      = uL.length + w.length := by
    have := bisectLeft_list_split (uL ++ w) uR (w0 + T) hsortedU
      (fun y hy => by
        rcases List.mem_append.mp hy with hy | hy
        · obtain ⟨y', hy', rfl⟩ := hmemL y hy; have := hlt y' hy'; linarith
        · have := hlt y hy; linarith)
      (fun y hy => by obtain ⟨y', hy', rfl⟩ := hmemR y hy; have := hge y' hy'; linarith)
    simpa using this
  rw [hstart, hstop, hbl0, hbl1]
  have hn1 : (uL ++ w ++ uR).length - (uL.length + w.length) - 1 = jR := by
    simp only [List.length_append, huRlen]; omega
  rw [hn1]
  have hne : ¬ (jR * a = 0) := by
    intro hc
    rcases Nat.mul_eq_zero.mp hc with h1 | h1 <;> omega
  simp only [hne, if_false]
  show Basis.mk? (p + a) _ (k : Int) tol = _
  congr 1
  congr 1
  -- the list identity
  rw [hXe]
  set XL := expand uL (mL.map (· + a)) with hXL
  set P' := expand w (μ.map (· + a)) with hP'
  set XR := expand uR (mR.map (· + a)) with hXR
  have hlenμ' : w.length = (μ.map (· + a)).length := by simpa using hlen
  have hP'len : P'.length = μ.sum + a * μ.length := by
    rw [hP', length_expand w _ hlenμ', sum_map_add]
  have hmLa : mL.map (· + a) = (cL + a) :: (μ.drop (jL + 1)).map (· + a) := by rw [hmL]; simp
  have hmRa : mR.map (· + a) = (μ.take jR).map (· + a) ++ [cR + a] := by rw [hmR]; simp
  have hXLeq : XL = (P'.map (· - T)).drop (μ.sum - (k + 1) + a * jL) := by
    rw [hXL, hmLa, hP']; exact (rL a).symm
  have hXReq : XR = (P'.map (· + T)).take (p + a * (jR + 1)) := by
    rw [hXR, hmRa, hP']; exact (rR a).symm
  have hXLlen : XL.length = k + 1 + a * uL.length := by
    rw [hXLeq, List.length_drop, List.length_map, hP'len, huLlen, ← hlen]
    have hkk := h.hk
    rw [← hsumμ] at hkk
    have : a * w.length = a * jL + a * (w.length - jL) := by
      rw [← Nat.mul_add]; congr 1; omega
    omega
  have hXRlen : XR.length = p + a * (jR + 1) := by
    rw [hXReq, List.length_take, List.length_map, hP'len]
    have hpp := h.hp
    rw [← hsumμ] at hpp
    have : a * (jR + 1) ≤ a * μ.length := Nat.mul_le_mul_left a (by rw [← hlen]; omega)
    omega
  have htot : (XL ++ P' ++ XR).length - jR * a = XL.length + P'.length + (p + a) := by
    simp only [List.length_append, hXRlen]
    rw [Nat.mul_succ, Nat.mul_comm jR a]; omega
  rw [htot]
  rw [List.take_append (l₁ := XL ++ P') (l₂ := XR)]
  rw [List.take_of_length_le (by simp)]
  have : XL.length + P'.length + (p + a) - (XL ++ P').length = p + a := by simp
  rw [this]
  rw [List.append_assoc, List.drop_append]
  have hd2 : List.drop (uL.length * a - XL.length) (P' ++ List.take (p + a) XR) = P' ++ List.take (p + a) XR := by
    have : uL.length * a - XL.length = 0 := by rw [hXLlen, Nat.mul_comm]; omega
    rw [this]; rfl
  rw [hd2]
  unfold perKnots
  rw [← hP', List.append_assoc]
  congr 1
  · -- left ghost part
    rw [hXLeq, List.drop_drop, sum_map_add]
    congr 1
    rw [huLlen, ← hlen]
    have hkk := h.hk
    rw [← hsumμ] at hkk
    have : a * w.length = a * jL + (w.length - jL) * a := by
      rw [Nat.mul_comm (w.length - jL) a, ← Nat.mul_add]; congr 1; omega
    omega
  · congr 1
    rw [hXReq, List.take_take]
    congr 1
    rw [Nat.mul_succ]; omega

/-! ## The constructor accepts a sorted periodic knot vector whose end spacings repeat -/

theorem mk?_ok_periodic (p k : ℕ) (l : List K) (tol : K) (h0 : 0 ≤ tol) (hp : 1 ≤ p)
    (hsize : 2 * p ≤ l.length) (hsz : p + k + 1 ≤ l.length) (hs : l.Pairwise (· ≤ ·))
    (hg : ∀ i, i + 1 < p + k →
      l.getD (i + 1) 0 - l.getD i 0 = l.getD (l.length - p - k + i) 0 - l.getD (l.length - p - k - 1 + i) 0) :
    Basis.mk? p l.toArray (k : Int) tol = .ok { order := p, knots := l.toArray, periodic := (k : Int) } := by
  unfold Basis.mk?
  have hmax : max (k : Int) (-1) = (k : Int) := by omega
  have h1 : ¬ p < 1 := by omega
  have h2 : ¬ l.toArray.size < 2 * p := by simp; omega
  have h3 : (List.range (l.toArray.size - 1)).any
      (fun i => decide (l.toArray.getD (i+1) 0 - l.toArray.getD i 0 < -tol)) = false := by
    rw [List.any_eq_false]
    intro i hi
    rw [List.mem_range] at hi
    simp only [List.size_toArray] at hi
    have hi1 : i < l.length := by omega
    have hi2 : i + 1 < l.length := by omega
    have hle : l[i] ≤ l[i+1] := (List.pairwise_iff_getElem.mp hs) i (i+1) hi1 hi2 (by omega)
    simp only [decide_eq_true_eq, not_lt]
    have e1 : l.toArray.getD i 0 = l[i] := by simp [Array.getD, hi1]
    have e2 : l.toArray.getD (i+1) 0 = l[i+1] := by simp [Array.getD, hi2]
    rw [e1, e2]; linarith
  have hget : ∀ j : ℕ, l.toArray.getD j 0 = l.getD j 0 := by
    intro j
    simp [Array.getD, List.getD_eq_getElem?_getD]
    by_cases hj : j < l.length
    · simp [hj]
    · simp [hj]
  have h4 : (List.range ((p : Int) + (k : Int) - 1).toNat).any (fun i =>
      let i : Int := i
      decide (|((fun (i : Int) => l.toArray.getD (if i < 0 then (l.toArray.size : Int) + i else i).toNat 0) (i+1)
          - (fun (i : Int) => l.toArray.getD (if i < 0 then (l.toArray.size : Int) + i else i).toNat 0) i)
        - ((fun (i : Int) => l.toArray.getD (if i < 0 then (l.toArray.size : Int) + i else i).toNat 0) (-(p:Int) - k + i)
          - (fun (i : Int) => l.toArray.getD (if i < 0 then (l.toArray.size : Int) + i else i).toNat 0) (-(p:Int) - k - 1 + i))| > tol))
      = false := by
    rw [List.any_eq_false]
    intro i hi
    rw [List.mem_range] at hi
    have hi' : i + 1 < p + k := by omega
    simp only [decide_eq_true_eq, not_lt, List.size_toArray]
    have c1 : ¬ (((i : Int) + 1) < 0) := by omega
    have c2 : ¬ ((i : Int) < 0) := by omega
    have c3 : (-(p : Int) - (k : Int) + (i : Int)) < 0 := by omega
    have c4 : (-(p : Int) - (k : Int) - 1 + (i : Int)) < 0 := by omega
    simp only [c1, c2, c3, c4, if_true, if_false]
    have t1 : ((i : Int) + 1).toNat = i + 1 := by omega
    have t2 : ((i : Int)).toNat = i := by omega
    have t3 : ((l.length : Int) + (-(p : Int) - (k : Int) + (i : Int))).toNat = l.length - p - k + i := by omega
    have t4 : ((l.length : Int) + (-(p : Int) - (k : Int) - 1 + (i : Int))).toNat = l.length - p - k - 1 + i := by omega
    rw [t1, t2, t3, t4, hget, hget, hget, hget, hg i hi', sub_self, abs_zero]
    exact h0
  have h2' : ¬ ((k : Int) ≥ 0 ∧ ((l.toArray.size : ℕ) : Int) < (p : Int) + (k : Int) + 1) := by
    simp only [List.size_toArray]; omega
  simp only [hmax, h1, h2, h2', if_false]
  have hk0 : (k : Int) ≥ 0 := by omega
  simp only [hk0, true_and]
  rw [h4]
  simp only [Bool.false_eq_true, if_false, h3, Basis.cummax_of_pairwise l hs]

/-! ## Entries, ghost property, sortedness and acceptance of the standard periodic vector -/

theorem PerData.lengths (h : PerData tol p k w0 wr μ0 μr T) :
    (expand (w0 :: wr) (μ0 :: μr)).length = μ0 + μr.sum ∧
    (((expand (w0 :: wr) (μ0 :: μr)).map (· - T)).drop ((μ0 :: μr).sum - (k + 1))).length = k + 1 ∧
    (((expand (w0 :: wr) (μ0 :: μr)).map (· + T)).take p).length = p ∧
    (perKnots p k (w0 :: wr) (μ0 :: μr) T).length = k + 1 + (μ0 + μr.sum) + p := by
  have hL : (expand (w0 :: wr) (μ0 :: μr)).length = μ0 + μr.sum := by
    rw [length_expand _ _ (by simp [h.len])]; simp
  have hk := h.hk
  have hp := h.hp
  have hsum : (μ0 :: μr).sum = μ0 + μr.sum := by simp
  have hA : (((expand (w0 :: wr) (μ0 :: μr)).map (· - T)).drop ((μ0 :: μr).sum - (k + 1))).length = k + 1 := by
    rw [List.length_drop, List.length_map, hL, hsum]; omega
  have hB : (((expand (w0 :: wr) (μ0 :: μr)).map (· + T)).take p).length = p := by
    rw [List.length_take, List.length_map, hL]; omega
  refine ⟨hL, hA, hB, ?_⟩
  unfold perKnots
  rw [List.length_append, List.length_append, hA, hB, hL]

/-- Entries of the standard periodic vector in terms of one period `P`. -/
theorem PerData.entries (h : PerData tol p k w0 wr μ0 μr T) (j : ℕ) :
    (j < k + 1 → (perKnots p k (w0 :: wr) (μ0 :: μr) T).getD j 0
        = (expand (w0 :: wr) (μ0 :: μr)).getD (μ0 + μr.sum - (k + 1) + j) 0 - T) ∧
    (k + 1 ≤ j → j < k + 1 + (μ0 + μr.sum) → (perKnots p k (w0 :: wr) (μ0 :: μr) T).getD j 0
        = (expand (w0 :: wr) (μ0 :: μr)).getD (j - (k + 1)) 0) ∧
    (k + 1 + (μ0 + μr.sum) ≤ j → j < k + 1 + (μ0 + μr.sum) + p →
      (perKnots p k (w0 :: wr) (μ0 :: μr) T).getD j 0
        = (expand (w0 :: wr) (μ0 :: μr)).getD (j - (k + 1) - (μ0 + μr.sum)) 0 + T) := by
  obtain ⟨hL, hA, hB, _⟩ := h.lengths
  have hk := h.hk
  have hp := h.hp
  have hsum : (μ0 :: μr).sum = μ0 + μr.sum := by simp
  set P := expand (w0 :: wr) (μ0 :: μr) with hP
  refine ⟨fun hj => ?_, fun hj1 hj2 => ?_, fun hj1 hj2 => ?_⟩
  · unfold perKnots
    rw [← hP, List.append_assoc, List.getD_append _ _ _ _ (by rw [hA]; exact hj)]
    rw [List.getD_eq_getElem?_getD, List.getElem?_drop, List.getElem?_map, hsum]
    have hidx : μ0 + μr.sum - (k + 1) + j < P.length := by rw [hL]; omega
    rw [List.getD_eq_getElem?_getD, List.getElem?_eq_getElem hidx]
    simp
  · unfold perKnots
    rw [← hP, List.getD_append _ _ _ _ (by rw [List.length_append, hA, hL]; exact hj2),
      List.getD_append_right _ _ _ _ (by rw [hA]; exact hj1), hA]
  · unfold perKnots
    rw [← hP, List.getD_append_right _ _ _ _ (by rw [List.length_append, hA, hL]; exact hj1),
      List.length_append, hA, hL]
    have hidx : j - (k + 1 + (μ0 + μr.sum)) < P.length := by rw [hL]; omega
    have hidx2 : j - (k + 1 + (μ0 + μr.sum)) < p := by omega
    rw [List.getD_eq_getElem?_getD, List.getElem?_take, if_pos hidx2, List.getElem?_map]
    have e : j - (k + 1) - (μ0 + μr.sum) = j - (k + 1 + (μ0 + μr.sum)) := by omega
    rw [e, List.getD_eq_getElem?_getD, List.getElem?_eq_getElem hidx]
    simp

/-- The ghost property: the knot `L = num_functions` places further is the knot plus the period. -/
theorem PerData.ghost (h : PerData tol p k w0 wr μ0 μr T) (j : ℕ) (hj : j ≤ p + k) :
    (perKnots p k (w0 :: wr) (μ0 :: μr) T).getD (j + (μ0 + μr.sum)) 0
      = (perKnots p k (w0 :: wr) (μ0 :: μr) T).getD j 0 + T := by
  have hk := h.hk
  have hp := h.hp
  by_cases hc : j < k + 1
  · rw [((h.entries (j + (μ0 + μr.sum))).2.1 (by omega) (by omega)), ((h.entries j).1 hc)]
    have : j + (μ0 + μr.sum) - (k + 1) = μ0 + μr.sum - (k + 1) + j := by omega
    rw [this]; ring
  · rw [((h.entries (j + (μ0 + μr.sum))).2.2 (by omega) (by omega)), ((h.entries j).2.1 (by omega) (by omega))]
    have : j + (μ0 + μr.sum) - (k + 1) - (μ0 + μr.sum) = j - (k + 1) := by omega
    rw [this]

theorem PerData.sorted (h : PerData tol p k w0 wr μ0 μr T) (h0 : 0 ≤ tol) :
    (perKnots p k (w0 :: wr) (μ0 :: μr) T).Pairwise (· ≤ ·) := by
  obtain ⟨hsepw, hlt, hge, hT⟩ := h.values h0
  have hP : (expand (w0 :: wr) (μ0 :: μr)).Pairwise (· ≤ ·) := expand_sorted tol h0 _ _ hsepw
  have hmemP : ∀ y ∈ expand (w0 :: wr) (μ0 :: μr), y ∈ w0 :: wr := fun y hy => mem_expand _ _ y hy
  unfold perKnots
  rw [List.pairwise_append, List.pairwise_append]
  refine ⟨⟨?_, hP, ?_⟩, ?_, ?_⟩
  · refine List.Pairwise.sublist (List.drop_sublist _ _) ?_
    rw [List.pairwise_map]
    exact hP.imp (fun hxy => by linarith)
  · intro x hx y hy
    have := List.mem_of_mem_drop hx
    rw [List.mem_map] at this
    obtain ⟨x', hx', rfl⟩ := this
    have h1 := hlt x' (hmemP x' hx')
    have h2 := hge y (hmemP y hy)
    linarith
  · refine List.Pairwise.sublist (List.take_sublist _ _) ?_
    rw [List.pairwise_map]
    exact hP.imp (fun hxy => by linarith)
  · intro x hx y hy
    have := List.mem_of_mem_take hy
    rw [List.mem_map] at this
    obtain ⟨y', hy', rfl⟩ := this
    have h2 := hge y' (hmemP y' hy')
    rcases List.mem_append.mp hx with hx | hx
    · have := List.mem_of_mem_drop hx
      rw [List.mem_map] at this
      obtain ⟨x', hx', rfl⟩ := this
      have h1 := hlt x' (hmemP x' hx')
      linarith
    · have h1 := hlt x (hmemP x hx)
      linarith

/-- The constructor accepts the standard periodic vector. -/
theorem PerData.mk?_ok (h : PerData tol p k w0 wr μ0 μr T) (h0 : 0 ≤ tol) :
    Basis.mk? p (perKnots p k (w0 :: wr) (μ0 :: μr) T).toArray (k : Int) tol
      = .ok (perBasis p k (w0 :: wr) (μ0 :: μr) T) := by
  obtain ⟨_, _, _, hlen⟩ := h.lengths
  have hk := h.hk
  have hp := h.hp
  have hk2 := h.hk2
  apply mk?_ok_periodic p k _ tol h0 (by omega) (by rw [hlen]; omega) (by rw [hlen]; omega) (h.sorted h0)
  intro i hi
  rw [hlen]
  have e1 : k + 1 + (μ0 + μr.sum) + p - p - k + i = (i + 1) + (μ0 + μr.sum) := by omega
  have e2 : k + 1 + (μ0 + μr.sum) + p - p - k - 1 + i = i + (μ0 + μr.sum) := by omega
  rw [e1, e2, h.ghost (i + 1) (by omega), h.ghost i (by omega)]
  ring

/-- **`BSplineBasis.raise_order(a)` on a standard periodic basis** returns the standard periodic
    basis of order `p + a`, the same continuity `k`, period and distinct knots, every multiplicity
    raised by `a` (ghost knots trimmed correctly). -/
theorem raiseOrder_periodic (h : PerData tol p k w0 wr μ0 μr T) (htol : 0 < tol) (a : ℕ) :
    (perBasis p k (w0 :: wr) (μ0 :: μr) T).raiseOrder tol a
      = .ok (perBasis (p + a) k (w0 :: wr) ((μ0 :: μr).map (· + a)) T) := by
  by_cases ha : a = 0
  · subst ha
    simp [Basis.raiseOrder]
  · rw [raiseOrder_periodic_eq h htol a (by omega)]
    exact (h.raise a).mk?_ok htol.le

/-! ## Domain, and `continuity` at the knots of a standard periodic basis -/

theorem PerData.expandForm (h : PerData tol p k w0 wr μ0 μr T) (h0 : 0 ≤ tol) :
    ∃ (uL : List K) (mL : List ℕ) (uR' : List K) (mR' : List ℕ),
      perKnots p k (w0 :: wr) (μ0 :: μr) T
        = expand (uL ++ (w0 :: wr) ++ (w0 + T) :: uR') (mL ++ (μ0 :: μr) ++ μ0 :: mR') ∧
      uL.length = mL.length ∧ uR'.length = mR'.length ∧
      Separated tol (uL ++ (w0 :: wr) ++ (w0 + T) :: uR') ∧
      (∀ x ∈ mL ++ (μ0 :: μr) ++ μ0 :: mR', 1 ≤ x) := by
  obtain ⟨hsepw, hlt, hge, hT⟩ := h.values h0
  obtain ⟨jL, cL, jR, cR, hjL, hcL, hjR1, hjR, hcR, hK, hlenA, hlenB, rL, rR⟩ := h.decomp
  set w := w0 :: wr with hw
  set μ := μ0 :: μr with hμ
  have hlen : w.length = μ.length := by simp [hw, hμ, h.len]
  have hpos : ∀ x ∈ μ, 1 ≤ x := by
    intro x hx
    rcases List.mem_cons.mp hx with rfl | hx
    · exact h.pos0
    · exact h.pos x hx
  set uL := (w.map (· - T)).drop jL with huL
  set mL := cL :: μ.drop (jL + 1) with hmL
  set uR := (w.map (· + T)).take (jR + 1) with huR
  set mR := μ.take jR ++ [cR] with hmR
  have hlenL : uL.length = mL.length := by
    simp only [huL, hmL, List.length_drop, List.length_map, List.length_cons]
    have : jL < μ.length := by rw [← hlen]; exact hjL
    omega
  have hlenR : uR.length = mR.length := by
    simp only [huR, hmR, List.length_take, List.length_map, List.length_append, List.length_cons, List.length_nil]
    have : jR < μ.length := by rw [← hlen]; exact hjR
    omega
  have e1 : uR = (w0 + T) :: uR.drop 1 := by rw [huR, hw]; simp
  have e2 : mR = μ0 :: mR.drop 1 := by
    rw [hmR, hμ]
    obtain ⟨j', rfl⟩ : ∃ j', jR = j' + 1 := ⟨jR - 1, by omega⟩
    simp
  have hKe : perKnots p k w μ T = expand (uL ++ w ++ uR) (mL ++ μ ++ mR) := by
    rw [hK, expand_append (uL ++ w) (mL ++ μ) uR mR (by simp [hlenL, hlen]),
      expand_append uL mL w μ hlenL]
  have hposL : ∀ x ∈ mL, 1 ≤ x := by
    intro x hx
    rcases List.mem_cons.mp hx with rfl | hx
    · exact hcL
    · exact hpos x (List.mem_of_mem_drop hx)
  have hposR : ∀ x ∈ mR, 1 ≤ x := by
    intro x hx
    rcases List.mem_append.mp hx with hx | hx
    · exact hpos x (List.mem_of_mem_take hx)
    · simp at hx; omega
  have hmemL : ∀ x ∈ uL, ∃ y ∈ w, x = y - T := by
    intro x hx
    have := List.mem_of_mem_drop hx
    rw [List.mem_map] at this
    obtain ⟨y, hy, rfl⟩ := this
    exact ⟨y, hy, rfl⟩
  have hmemR : ∀ x ∈ uR, ∃ y ∈ w, x = y + T := by
    intro x hx
    have := List.mem_of_mem_take hx
    rw [List.mem_map] at this
    obtain ⟨y, hy, rfl⟩ := this
    exact ⟨y, hy, rfl⟩
  have hsepU : Separated tol (uL ++ w ++ uR) := by
    unfold Separated
    rw [List.pairwise_append, List.pairwise_append]
    refine ⟨⟨(separated_map_sub T hsepw).sublist (List.drop_sublist _ _), hsepw, ?_⟩,
      (separated_map_add T hsepw).sublist (List.take_sublist _ _), ?_⟩
    · intro x hx y hy
      obtain ⟨x', hx', rfl⟩ := hmemL x hx
      have := hlt x' hx'; have := hge y hy; linarith
    · intro x hx y hy
      obtain ⟨y', hy', rfl⟩ := hmemR y hy
      have hy0 := hge y' hy'
      rcases List.mem_append.mp hx with hx | hx
      · obtain ⟨x', hx', rfl⟩ := hmemL x hx
        have := hlt x' hx'; linarith
      · have := hlt x hx; linarith
  refine ⟨uL, mL, uR.drop 1, mR.drop 1, ?_, hlenL, by simp [hlenR], ?_, ?_⟩
  · rw [hKe]; conv_lhs => rw [e1, e2]
  · rw [← e1]; exact hsepU
  · rw [← e2]
    intro x hx
    rcases List.mem_append.mp hx with hx | hx
    · rcases List.mem_append.mp hx with hx | hx
      · exact hposL x hx
      · exact hpos x hx
    · exact hposR x hx

theorem kn_eq_getD (B : Basis K) (l : List K) (hk : B.knots = l.toArray) {i : ℕ} (hi : i < l.length) :
    B.kn i = l.getD i 0 := by
  rw [kn_of_lt_list B l hk hi, List.getD_eq_getElem?_getD, List.getElem?_eq_getElem hi]
  rfl

theorem PerData.start_stop (h : PerData tol p k w0 wr μ0 μr T) :
    (perBasis p k (w0 :: wr) (μ0 :: μr) T).start = w0 ∧
    (perBasis p k (w0 :: wr) (μ0 :: μr) T).stop = w0 + T ∧
    (perBasis p k (w0 :: wr) (μ0 :: μr) T).numFunctions = μ0 + μr.sum := by
  obtain ⟨hL, _, _, hlen⟩ := h.lengths
  have hk := h.hk
  have hp := h.hp
  have hk2 := h.hk2
  have hs1 := h.seam1
  have hp0 := h.pos0
  have hP0 : ∀ j, j < μ0 → (expand (w0 :: wr) (μ0 :: μr)).getD j 0 = w0 := by
    intro j hj
    rw [expand_cons, List.getD_append _ _ _ _ (by simpa using hj)]
    simp [List.getD_eq_getElem?_getD, hj]
  refine ⟨?_, ?_, ?_⟩
  · unfold Basis.start
    show (perBasis p k (w0 :: wr) (μ0 :: μr) T).kn (p - 1) = w0
    rw [kn_eq_getD _ (perKnots p k (w0 :: wr) (μ0 :: μr) T) rfl (by rw [hlen]; omega), (h.entries (p - 1)).2.1 (by omega) (by omega)]
    exact hP0 _ (by omega)
  · unfold Basis.stop
    have hsz : (perBasis p k (w0 :: wr) (μ0 :: μr) T).knots.size = k + 1 + (μ0 + μr.sum) + p := by
      show (perKnots p k (w0 :: wr) (μ0 :: μr) T).toArray.size = _
      simp [hlen]
    show (perBasis p k (w0 :: wr) (μ0 :: μr) T).kn ((perBasis p k (w0 :: wr) (μ0 :: μr) T).knots.size - p) = w0 + T
    rw [hsz, Nat.add_sub_cancel, kn_eq_getD _ (perKnots p k (w0 :: wr) (μ0 :: μr) T) rfl (by rw [hlen]; omega),
      (h.entries (k + 1 + (μ0 + μr.sum))).2.2 (by omega) (by omega)]
    have : k + 1 + (μ0 + μr.sum) - (k + 1) - (μ0 + μr.sum) = 0 := by omega
    rw [this, hP0 0 (by omega)]
  · unfold Basis.numFunctions
    show (perKnots p k (w0 :: wr) (μ0 :: μr) T).toArray.size - p - ((k : Int) + 1).toNat = _
    simp only [List.size_toArray, hlen]
    omega

section Continuity
variable [FloorRing K]

/-- `continuity` at a knot inside the domain (no wrapping), periodic or not. -/
theorem continuity_split_inrange (B : Basis K) (tol : K) (htol : 0 < tol) (A C : List K) (x : K) (c : ℕ)
    (hc1 : 1 ≤ c)
    (hk : B.knots = (A ++ List.replicate c x ++ C).toArray)
    (hs : (A ++ List.replicate c x ++ C).Pairwise (· ≤ ·))
    (hA : ∀ y ∈ A, y + tol < x) (hC : ∀ y ∈ C, x + tol < y)
    (hin : B.start ≤ x ∧ x ≤ B.stop) :
    B.continuity tol x = .ok (some ((B.order : Int) - (c : Int) - 1)) := by
  have hhi : B.bisectL (x + tol) = A.length + c := by
    have := bisectL_split B (A ++ List.replicate c x) C (x + tol) hk hs
      (fun y hy => by
        rcases List.mem_append.mp hy with h | h
        · have := hA y h; linarith
        · rw [List.mem_replicate] at h; rw [h.2]; linarith)
      (fun y hy => le_of_lt (hC y hy))
    simpa using this
  have hlo : B.bisectL (x - tol) = A.length := by
    refine bisectL_split B A (List.replicate c x ++ C) (x - tol) (by rw [hk, List.append_assoc])
      (by rw [← List.append_assoc]; exact hs) (fun y hy => by have := hA y hy; linarith) ?_
    intro y hy
    rcases List.mem_append.mp hy with h | h
    · rw [List.mem_replicate] at h; rw [h.2]; linarith
    · have := hC y h; linarith
  unfold Basis.continuity
  have h2 : ¬ (x < B.start - tol ∨ B.stop + tol < x) := by
    rintro (h | h)
    · exact absurd hin.1 (not_le.mpr (by linarith))
    · exact absurd hin.2 (not_le.mpr (by linarith))
  have h2' : ¬ (x < B.start ∨ x > B.stop) := by
    rintro (h | h)
    · exact absurd hin.1 (not_le.mpr h)
    · exact absurd hin.2 (not_le.mpr h)
  have h3 : ¬ (A.length + c = A.length) := by omega
  by_cases hp : B.periodic ≥ 0
  · simp only [hp, h2', if_true, if_false, hhi, hlo, h3]
    congr 2
    push_cast; ring
  · simp only [hp, h2, if_false, hhi, hlo, h3]
    congr 2
    push_cast; ring

/-- The same in `expand` form. -/
theorem continuity_expand_split_inrange (tol : K) (htol : 0 < tol) (B : Basis K)
    (u1 u2 : List K) (x : K) (m1 m2 : List ℕ) (c : ℕ) (hl1 : u1.length = m1.length)
    (hsep : Separated tol (u1 ++ x :: u2)) (hc1 : 1 ≤ c)
    (hk : B.knots = (expand (u1 ++ x :: u2) (m1 ++ c :: m2)).toArray)
    (hin : B.start ≤ x ∧ x ≤ B.stop) :
    B.continuity tol x = .ok (some ((B.order : Int) - (c : Int) - 1)) := by
  have hE : expand (u1 ++ x :: u2) (m1 ++ c :: m2)
      = expand u1 m1 ++ List.replicate c x ++ expand u2 m2 := by
    rw [expand_append u1 m1 _ _ hl1, expand_cons, List.append_assoc]
  have hp := List.pairwise_append.mp hsep
  refine continuity_split_inrange B tol htol (expand u1 m1) (expand u2 m2) x c hc1 (by rw [hk, hE]) ?_ ?_ ?_ hin
  · rw [← hE]; exact expand_sorted tol (le_of_lt htol) _ _ hsep
  · intro y hy
    exact hp.2.2 y (mem_expand u1 m1 y hy) x (by simp)
  · intro y hy
    exact List.rel_of_pairwise_cons hp.2.1 (mem_expand u2 m2 y hy)

/-- **`continuity` at every knot of the domain of a standard periodic basis**: `p − 1 − multiplicity`,
    at the distinct knot `x` of multiplicity `c` of the period (`w = w1 ++ x :: w2`), and at `end`. -/
theorem PerData.continuity (h : PerData tol p k w0 wr μ0 μr T) (htol : 0 < tol) :
    (∀ (w1 w2 : List K) (x : K) (m1 m2 : List ℕ) (c : ℕ), w0 :: wr = w1 ++ x :: w2 →
      μ0 :: μr = m1 ++ c :: m2 → w1.length = m1.length →
      (perBasis p k (w0 :: wr) (μ0 :: μr) T).continuity tol x = .ok (some ((p : Int) - (c : Int) - 1))) ∧
    (perBasis p k (w0 :: wr) (μ0 :: μr) T).continuity tol (w0 + T) = .ok (some ((p : Int) - (μ0 : Int) - 1)) := by
  have h0 := htol.le
  obtain ⟨hsepw, hlt, hge, hT⟩ := h.values h0
  obtain ⟨uL, mL, uR', mR', hK, hlL, hlR, hsepU, hposU⟩ := h.expandForm h0
  obtain ⟨hst, hsp, _⟩ := h.start_stop
  have hknots : (perBasis p k (w0 :: wr) (μ0 :: μr) T).knots
      = (expand (uL ++ (w0 :: wr) ++ (w0 + T) :: uR') (mL ++ (μ0 :: μr) ++ μ0 :: mR')).toArray := by
    show (perKnots p k (w0 :: wr) (μ0 :: μr) T).toArray = _
    rw [hK]
  constructor
  · intro w1 w2 x m1 m2 c hw hμ hl
    have hxmem : x ∈ w0 :: wr := by rw [hw]; simp
    have hc1 : 1 ≤ c := hposU c (by rw [hμ]; simp)
    have hU : uL ++ (w0 :: wr) ++ (w0 + T) :: uR' = (uL ++ w1) ++ x :: (w2 ++ (w0 + T) :: uR') := by
      rw [hw]; simp
    have hM : mL ++ (μ0 :: μr) ++ μ0 :: mR' = (mL ++ m1) ++ c :: (m2 ++ μ0 :: mR') := by
      rw [hμ]; simp
    have := continuity_expand_split_inrange tol htol (perBasis p k (w0 :: wr) (μ0 :: μr) T)
      (uL ++ w1) (w2 ++ (w0 + T) :: uR') x (mL ++ m1) (m2 ++ μ0 :: mR') c (by simp [hlL, hl])
      (by rw [← hU]; exact hsepU) hc1 (by rw [hknots, hU, hM])
      (by rw [hst, hsp]; exact ⟨hge x hxmem, by have := hlt x hxmem; linarith⟩)
    exact this
  · have := continuity_expand_split_inrange tol htol (perBasis p k (w0 :: wr) (μ0 :: μr) T)
      (uL ++ (w0 :: wr)) uR' (w0 + T) (mL ++ (μ0 :: μr)) mR' μ0 (by simp [hlL, h.len])
      hsepU h.pos0 hknots (by rw [hst, hsp]; exact ⟨by linarith, le_rfl⟩)
    exact this

end Continuity

/-! ## Validity -/

theorem PerData.valid (h : PerData tol p k w0 wr μ0 μr T) (h0 : 0 ≤ tol) :
    (perBasis p k (w0 :: wr) (μ0 :: μr) T).Valid := by
  obtain ⟨_, _, _, hlen⟩ := h.lengths
  obtain ⟨hst, hsp, hnf⟩ := h.start_stop
  obtain ⟨_, _, _, hT⟩ := h.values h0
  have hk := h.hk
  have hp := h.hp
  have hk2 := h.hk2
  have hsz : (perBasis p k (w0 :: wr) (μ0 :: μr) T).knots.size = k + 1 + (μ0 + μr.sum) + p := by
    show (perKnots p k (w0 :: wr) (μ0 :: μr) T).toArray.size = _
    simp [hlen]
  refine ⟨by show 1 ≤ p; omega, by rw [hsz]; show 2 * p ≤ _; omega, ?_, by show (-1 : Int) ≤ (k : Int); omega,
    Or.inl (by show (k : Int) + 2 ≤ (p : Int); omega), by rw [hst, hsp]; linarith, ?_⟩
  · intro i hi
    rw [hsz] at hi
    rw [kn_of_lt_list _ (perKnots p k (w0 :: wr) (μ0 :: μr) T) rfl (by rw [hlen]; omega),
      kn_of_lt_list _ (perKnots p k (w0 :: wr) (μ0 :: μr) T) rfl (by rw [hlen]; omega)]
    exact (List.pairwise_iff_getElem.mp (h.sorted h0)) i (i + 1) (by rw [hlen]; omega) (by rw [hlen]; omega) (by omega)
  · intro _ i hi
    rw [hsz, hnf] at hi
    rw [hnf, hst, hsp, kn_eq_getD _ (perKnots p k (w0 :: wr) (μ0 :: μr) T) rfl (by rw [hlen]; omega),
      kn_eq_getD _ (perKnots p k (w0 :: wr) (μ0 :: μr) T) rfl (by rw [hlen]; omega), h.ghost i (by omega)]
    ring

section LowerDefect
variable [FloorRing K]

theorem continuity_periodic_ok (b : Basis K) (tol : K) (hper : 0 ≤ b.periodic) (x : K) :
    ∃ c, b.continuity tol x = .ok c := by
  unfold Basis.continuity
  simp only [ge_iff_le, hper, if_true]
  split <;> (split <;> exact ⟨_, rfl⟩)

theorem lowerKnots_periodic_ok (b : Basis K) (tol : K) (hper : 0 ≤ b.periodic) (q : ℕ) :
    ∀ l : List K, ∃ r, Basis.lowerKnots b tol q l = .ok r := by
  intro l
  induction l with
  | nil => exact ⟨[], rfl⟩
  | cons x l ih =>
    obtain ⟨c, hc⟩ := continuity_periodic_ok b tol hper x
    obtain ⟨r, hr⟩ := ih
    exact ⟨List.replicate (Basis.lowerMult q c) x ++ r, by simp only [Basis.lowerKnots, hc, hr]⟩

/-- The unfixed shape of `BSplineBasis.lower_order` on ANY periodic basis: once the argument checks
    pass, the undefined name `knot_spans` is reached — `NameError`. -/
theorem lowerOrder_periodic_nameError (b : Basis K) (tol : K) (hper : 0 ≤ b.periodic) (a : Int) (ha : 0 ≤ a)
    (h2 : 2 ≤ (b.order : Int) - a) : b.lowerOrder tol a = .error .name := by
  unfold Basis.lowerOrder
  have h1 : ¬ a < 0 := by omega
  have h3 : ¬ ((b.order : Int) - a < 2) := by omega
  obtain ⟨r, hr⟩ := lowerKnots_periodic_ok b tol hper (b.order - a.toNat) (b.knotSpans tol true).toList
  have hp : b.periodic > -1 := by omega
  simp [h1, h3, hr, hp]

end LowerDefect

end Splipy
