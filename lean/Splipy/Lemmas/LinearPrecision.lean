import Splipy.Lemmas.Basic
import Mathlib.Tactic.LinearCombination

/-!
# L7: linear precision (Greville abscissae)

With `ξ_i = (τ (i+1) + … + τ (i+q)) / q` one has `Σ_i ξ_i B_{i,q}(t) = t` on every knot span
`μ ≥ q`.  (The constant case `Σ_i B_{i,q}(t) = 1` is `B_partition` in `Basic.lean`.)
-/

namespace Splipy

variable {K : Type} [Field K] [LinearOrder K]

/-- `τ (i+1) + … + τ (i+q)`. -/
def grevilleSum (τ : ℕ → K) (q i : ℕ) : K := ∑ k ∈ Finset.range q, τ (i+1+k)

/-- Greville abscissa `ξ_i = (τ (i+1) + … + τ (i+q)) / q` of the `i`-th B-spline of degree `q`. -/
def grevilleAbscissa (τ : ℕ → K) (q i : ℕ) : K := grevilleSum τ q i / (q : K)

omit [LinearOrder K] in
theorem grevilleSum_zero (τ : ℕ → K) (i : ℕ) : grevilleSum τ 0 i = 0 := by
  simp [grevilleSum]

omit [LinearOrder K] in
theorem grevilleSum_succ (τ : ℕ → K) (q i : ℕ) :
    grevilleSum τ (q+1) i = grevilleSum τ q i + τ (i+q+1) := by
  unfold grevilleSum
  rw [Finset.sum_range_succ]
  have e : i+1+q = i+q+1 := by omega
  rw [e]

omit [LinearOrder K] in
theorem grevilleSum_succ' (τ : ℕ → K) (q i : ℕ) :
    grevilleSum τ (q+1) i = τ (i+1) + grevilleSum τ q (i+1) := by
  unfold grevilleSum
  rw [Finset.sum_range_succ', add_comm]
  congr 1
  apply Finset.sum_congr rfl
  intro k _
  congr 1
  omega

/-- Un-normalised linear precision over an initial segment of indices. -/
theorem grevilleSum_mul_B_sum_range (s : Side) (τ : ℕ → K) (hτ : Monotone τ) (q μ N : ℕ)
    (hq : q ≤ μ) (hN : μ < N) (t : K) (h : s.mem (τ μ) (τ (μ+1)) t) :
    ∑ i ∈ Finset.range N, grevilleSum τ q i * B s τ q i t = (q : K) * t := by
  induction q generalizing N with
  | zero =>
    simp [grevilleSum_zero]
  | succ q ih =>
    have key : ∀ i, grevilleSum τ (q+1) i * B s τ (q+1) i t
        = (grevilleSum τ q (i+1) + t) * B s τ q (i+1) t +
        ((fun j => grevilleSum τ (q+1) j * ((t - τ j) / (τ (j+q+1) - τ j) * B s τ q j t)) i
          - (fun j => grevilleSum τ (q+1) j * ((t - τ j) / (τ (j+q+1) - τ j) * B s τ q j t))
              (i+1)) := by
      intro i
      have e : i+1+q+1 = i+q+2 := by omega
      show grevilleSum τ (q+1) i * B s τ (q+1) i t
        = (grevilleSum τ q (i+1) + t) * B s τ q (i+1) t +
          (grevilleSum τ (q+1) i * ((t - τ i) / (τ (i+q+1) - τ i) * B s τ q i t)
            - grevilleSum τ (q+1) (i+1)
                * ((t - τ (i+1)) / (τ (i+1+q+1) - τ (i+1)) * B s τ q (i+1) t))
      rw [B_succ, grevilleSum_succ τ q (i+1), grevilleSum_succ' τ q i, e]
      by_cases hz : τ (i+q+2) = τ (i+1)
      · rw [B_eq_zero_of_knots_eq s τ hτ q (i+1) t (by rw [e]; exact hz)]
        ring
      · have h' : τ (i+q+2) - τ (i+1) ≠ 0 := sub_ne_zero.mpr hz
        field_simp
        ring
    rw [Finset.sum_congr rfl (fun i _ => key i), Finset.sum_add_distrib, Finset.sum_range_sub']
    have h1 := ih (N+1) (by omega) (by omega)
    have h2 := B_sum_range_eq_one s τ hτ q μ (N+1) (by omega) (by omega) t h
    rw [Finset.sum_range_succ'] at h1 h2
    have z0 : B s τ q 0 t = 0 := B_eq_zero_of_mem_of_le s τ hτ q 0 μ t h (by omega)
    have zN : B s τ q N t = 0 := B_eq_zero_of_mem_of_gt s τ hτ q N μ t h hN
    rw [z0] at h1 h2
    simp only [z0, zN]
    have h3 : ∑ i ∈ Finset.range N, (grevilleSum τ q (i+1) + t) * B s τ q (i+1) t
        = ∑ i ∈ Finset.range N, grevilleSum τ q (i+1) * B s τ q (i+1) t
          + t * ∑ i ∈ Finset.range N, B s τ q (i+1) t := by
      rw [Finset.mul_sum, ← Finset.sum_add_distrib]
      apply Finset.sum_congr rfl
      intro i _
      ring
    rw [h3]
    push_cast
    linear_combination h1 + t * h2

/-- Un-normalised linear precision over the `q+1` active indices. -/
theorem grevilleSum_mul_B_sum (s : Side) (τ : ℕ → K) (hτ : Monotone τ) (q μ : ℕ)
    (hq : q ≤ μ) (t : K) (h : s.mem (τ μ) (τ (μ+1)) t) :
    ∑ i ∈ Finset.Icc (μ - q) μ, grevilleSum τ q i * B s τ q i t = (q : K) * t := by
  rw [← grevilleSum_mul_B_sum_range s τ hτ q μ (μ+1) hq (by omega) t h]
  apply Finset.sum_subset
  · intro i hi
    rw [Finset.mem_Icc] at hi
    exact Finset.mem_range.mpr (by omega)
  · intro i hi hni
    rw [Finset.mem_range] at hi
    rw [Finset.mem_Icc] at hni
    rw [B_eq_zero_of_mem_of_le s τ hτ q i μ t h (by omega), mul_zero]

variable [IsStrictOrderedRing K]

/-- **L7**, linear precision: `Σ_i ξ_i B_{i,q}(t) = t` with the Greville abscissae `ξ_i`. -/
theorem linear_precision (s : Side) (τ : ℕ → K) (hτ : Monotone τ) (q μ : ℕ) (hq1 : 1 ≤ q)
    (hq : q ≤ μ) (t : K) (h : s.mem (τ μ) (τ (μ+1)) t) :
    ∑ i ∈ Finset.Icc (μ - q) μ, grevilleAbscissa τ q i * B s τ q i t = t := by
  have hq0 : (q : K) ≠ 0 := Nat.cast_ne_zero.mpr (by omega)
  have h1 := grevilleSum_mul_B_sum s τ hτ q μ hq t h
  have h2 : ∑ i ∈ Finset.Icc (μ - q) μ, grevilleAbscissa τ q i * B s τ q i t
      = (∑ i ∈ Finset.Icc (μ - q) μ, grevilleSum τ q i * B s τ q i t) / (q : K) := by
    rw [div_eq_mul_inv, Finset.sum_mul]
    apply Finset.sum_congr rfl
    intro i _
    unfold grevilleAbscissa
    ring
  rw [h2, h1, mul_div_cancel_left₀ _ hq0]

/-- Linear precision, summed over an initial segment of indices. -/
theorem linear_precision_range (s : Side) (τ : ℕ → K) (hτ : Monotone τ) (q μ N : ℕ)
    (hq1 : 1 ≤ q) (hq : q ≤ μ) (hN : μ < N) (t : K) (h : s.mem (τ μ) (τ (μ+1)) t) :
    ∑ i ∈ Finset.range N, grevilleAbscissa τ q i * B s τ q i t = t := by
  have hq0 : (q : K) ≠ 0 := Nat.cast_ne_zero.mpr (by omega)
  have h1 := grevilleSum_mul_B_sum_range s τ hτ q μ N hq hN t h
  have h2 : ∑ i ∈ Finset.range N, grevilleAbscissa τ q i * B s τ q i t
      = (∑ i ∈ Finset.range N, grevilleSum τ q i * B s τ q i t) / (q : K) := by
    rw [div_eq_mul_inv, Finset.sum_mul]
    apply Finset.sum_congr rfl
    intro i _
    unfold grevilleAbscissa
    ring
  rw [h2, h1, mul_div_cancel_left₀ _ hq0]

/-- Every affine function is reproduced: `Σ_i (a ξ_i + b) B_{i,q}(t) = a t + b`. -/
theorem affine_precision (s : Side) (τ : ℕ → K) (hτ : Monotone τ) (q μ : ℕ) (hq1 : 1 ≤ q)
    (hq : q ≤ μ) (a b t : K) (h : s.mem (τ μ) (τ (μ+1)) t) :
    ∑ i ∈ Finset.Icc (μ - q) μ, (a * grevilleAbscissa τ q i + b) * B s τ q i t = a * t + b := by
  have h1 := linear_precision s τ hτ q μ hq1 hq t h
  have h2 := B_partition s τ hτ q μ hq t h
  have h3 : ∑ i ∈ Finset.Icc (μ - q) μ, (a * grevilleAbscissa τ q i + b) * B s τ q i t
      = a * ∑ i ∈ Finset.Icc (μ - q) μ, grevilleAbscissa τ q i * B s τ q i t
        + b * ∑ i ∈ Finset.Icc (μ - q) μ, B s τ q i t := by
    rw [Finset.mul_sum, Finset.mul_sum, ← Finset.sum_add_distrib]
    apply Finset.sum_congr rfl
    intro i _
    ring
  rw [h3, h1, h2, mul_one]

end Splipy
