import Splipy.Lemmas.C15VolFaces

/-!
# `Obj.evaluate` of a volume on a face versus `Obj.evaluate` of a surface
-/

set_option linter.unusedSectionVars false

namespace Splipy
namespace C15

open C06 C12 Obj Basis Finset Bridge

variable {K : Type} [Field K] [LinearOrder K] [IsStrictOrderedRing K] [FloorRing K]

/-- The homogeneous sum of a volume at `(u, v, w)`. -/
theorem num_volume {o : Obj K} (hw : C06.WF o 3) (hper : ∀ d : Fin 3, (o.basis d).periodic = -1) (comp : ℕ)
    (u v w : K) :
    Bridge.num o.cps ((o.basis 0).numFunctions * (o.basis 1).numFunctions * (o.basis 2).numFunctions) o.ncomp
        (Bridge.Wv (o.basis 1).numFunctions (o.basis 2).numFunctions ((o.basis 0).specRow u)
          ((o.basis 1).specRow v) ((o.basis 2).specRow w)) comp
      = (toTP o 3 comp).eval ![effSide (o.basis 0) u true, effSide (o.basis 1) v true, effSide (o.basis 2) w true]
          ![u, v, w] := by
  have q0 : (o.basis 0).periodic = -1 := hper 0
  have q1 : (o.basis 1).periodic = -1 := hper 1
  have q2 : (o.basis 2).periodic = -1 := hper 2
  rw [toTP_eval_volume hw hper, Bridge.num_Wv]
  apply Finset.sum_congr rfl
  intro i _
  apply Finset.sum_congr rfl
  intro j _
  apply Finset.sum_congr rfl
  intro k _
  rw [Basis.specRow_nonperiodic q0, Basis.specRow_nonperiodic q1, Basis.specRow_nonperiodic q2]
  simp only [Matrix.cons_val_zero, Matrix.cons_val_one, Matrix.cons_val_two, Matrix.tail_cons, Matrix.head_cons]
  ring

/-- Surfaces with the same component maps: `SameMap 2` from the `![·,·]` form. -/
theorem sameMap_surface_of {a b : Obj K} (hn : b.ncomp = a.ncomp)
    (h : ∀ comp, comp < a.ncomp → ∀ (s1 s2 : Side) (x y : K),
      (toTP b 2 comp).eval ![s1, s2] ![x, y] = (toTP a 2 comp).eval ![s1, s2] ![x, y]) :
    SameMap 2 a b := by
  refine ⟨hn, fun comp hc s u => ?_⟩
  have es : s = ![s 0, s 1] := by
    funext d
    rcases d with ⟨d, hd⟩
    interval_cases d <;> rfl
  have eu : u = ![u 0, u 1] := by
    funext d
    rcases d with ⟨d, hd⟩
    interval_cases d <;> rfl
  rw [es, eu]
  exact h comp hc _ _ _ _

/-- **A volume and a surface**: if on the face `u = x` the volume's component maps are the surface's, then
    evaluating the volume on `[x] × vs × ws` returns the numbers of evaluating the surface on `vs × ws`. -/
theorem evaluate_face_u {X a : Obj K} (hX : C06.WF X 3) (ha : C06.WF a 2)
    (hper : ∀ d : Fin 3, (X.basis d).periodic = -1) (pa0 : (a.basis 0).periodic = -1) (pa1 : (a.basis 1).periodic = -1)
    (hst1 : (X.basis 1).stop = (a.basis 0).stop) (hst2 : (X.basis 2).stop = (a.basis 1).stop)
    (hrat : X.rational = a.rational) (hnc : X.ncomp = a.ncomp) (hpos : a.rational = true → 1 ≤ a.ncomp) (x : K)
    (hmap : ∀ comp, comp < a.ncomp → ∀ (s1 s2 : Side) (t1 t2 : K),
      (toTP X 3 comp).eval ![effSide (X.basis 0) x true, s1, s2] ![x, t1, t2]
        = (toTP a 2 comp).eval ![s1, s2] ![t1, t2])
    {tol : K} (htol : 0 < tol) {vs ws : List K} (hnv : vs ≠ []) (hnw : ws ≠ [])
    (hva : ∀ v ∈ vs, (a.basis 0).Admissible tol v) (hvX : ∀ v ∈ vs, (X.basis 1).Admissible tol v)
    (hwa : ∀ w ∈ ws, (a.basis 1).Admissible tol w) (hwX : ∀ w ∈ ws, (X.basis 2).Admissible tol w)
    (hx : (X.basis 0).Admissible tol x) :
    ∃ rX ra, X.evaluate tol [[x], vs, ws] true = .ok rX ∧ a.evaluate tol [vs, ws] true = .ok ra ∧ rX.data = ra.data := by
  obtain ⟨ra, e1, e2, e3⟩ := Bridge.eval_surface (bases_eq_two ha) (ha.valid 0) (ha.valid 1) (surface_shape ha)
    hpos htol hva hwa (fun _ => hnv) (fun _ => hnw)
  obtain ⟨rX, f1, f2, f3⟩ := Bridge.eval_volume (bases_eq_three hX) (hX.valid 0) (hX.valid 1) (hX.valid 2)
    (volume_shape hX) (by rw [hrat, hnc]; exact hpos) htol
    (fun u hu => by rw [List.mem_singleton.mp hu]; exact hx) hvX hwX (fun _ => by simp) (fun _ => hnv) (fun _ => hnw)
  simp only [List.length_singleton, one_mul] at f3
  have hd := e3.data_eq f3 hrat hnc (by
    intro p c hp hc
    have hwpos : 0 < ws.length := List.length_pos_of_ne_nil hnw
    have hq : p / ws.length < vs.length := Nat.div_lt_of_lt_mul (by rw [Nat.mul_comm]; exact hp)
    have h0 : p / ws.length / vs.length = 0 := Nat.div_eq_of_lt hq
    have h1 : p / ws.length % vs.length = p / ws.length := Nat.mod_eq_of_lt hq
    simp only [h0, h1, List.getD_cons_zero]
    rw [← hnc, num_volume hX hper, hnc, num_surface ha pa0 pa1, hmap c hc]
    unfold effSide
    rw [hst1, hst2])
  exact ⟨rX, ra, f1, e1, hd⟩

theorem evaluate_face_v {X a : Obj K} (hX : C06.WF X 3) (ha : C06.WF a 2)
    (hper : ∀ d : Fin 3, (X.basis d).periodic = -1) (pa0 : (a.basis 0).periodic = -1) (pa1 : (a.basis 1).periodic = -1)
    (hst0 : (X.basis 0).stop = (a.basis 0).stop) (hst2 : (X.basis 2).stop = (a.basis 1).stop)
    (hrat : X.rational = a.rational) (hnc : X.ncomp = a.ncomp) (hpos : a.rational = true → 1 ≤ a.ncomp) (x : K)
    (hmap : ∀ comp, comp < a.ncomp → ∀ (s1 s2 : Side) (t1 t2 : K),
      (toTP X 3 comp).eval ![s1, effSide (X.basis 1) x true, s2] ![t1, x, t2]
        = (toTP a 2 comp).eval ![s1, s2] ![t1, t2])
    {tol : K} (htol : 0 < tol) {us ws : List K} (hnu : us ≠ []) (hnw : ws ≠ [])
    (hua : ∀ u ∈ us, (a.basis 0).Admissible tol u) (huX : ∀ u ∈ us, (X.basis 0).Admissible tol u)
    (hwa : ∀ w ∈ ws, (a.basis 1).Admissible tol w) (hwX : ∀ w ∈ ws, (X.basis 2).Admissible tol w)
    (hx : (X.basis 1).Admissible tol x) :
    ∃ rX ra, X.evaluate tol [us, [x], ws] true = .ok rX ∧ a.evaluate tol [us, ws] true = .ok ra ∧ rX.data = ra.data := by
  obtain ⟨ra, e1, e2, e3⟩ := Bridge.eval_surface (bases_eq_two ha) (ha.valid 0) (ha.valid 1) (surface_shape ha)
    hpos htol hua hwa (fun _ => hnu) (fun _ => hnw)
  obtain ⟨rX, f1, f2, f3⟩ := Bridge.eval_volume (bases_eq_three hX) (hX.valid 0) (hX.valid 1) (hX.valid 2)
    (volume_shape hX) (by rw [hrat, hnc]; exact hpos) htol huX
    (fun v hv => by rw [List.mem_singleton.mp hv]; exact hx) hwX (fun _ => hnu) (fun _ => by simp) (fun _ => hnw)
  simp only [List.length_singleton, mul_one, Nat.div_one, Nat.mod_one, List.getD_cons_zero] at f3
  have hd := e3.data_eq f3 hrat hnc (by
    intro p c hp hc
    rw [← hnc, num_volume hX hper, hnc, num_surface ha pa0 pa1, hmap c hc]
    unfold effSide
    rw [hst0, hst2])
  exact ⟨rX, ra, f1, e1, hd⟩

theorem evaluate_face_w {X a : Obj K} (hX : C06.WF X 3) (ha : C06.WF a 2)
    (hper : ∀ d : Fin 3, (X.basis d).periodic = -1) (pa0 : (a.basis 0).periodic = -1) (pa1 : (a.basis 1).periodic = -1)
    (hst0 : (X.basis 0).stop = (a.basis 0).stop) (hst1 : (X.basis 1).stop = (a.basis 1).stop)
    (hrat : X.rational = a.rational) (hnc : X.ncomp = a.ncomp) (hpos : a.rational = true → 1 ≤ a.ncomp) (x : K)
    (hmap : ∀ comp, comp < a.ncomp → ∀ (s1 s2 : Side) (t1 t2 : K),
      (toTP X 3 comp).eval ![s1, s2, effSide (X.basis 2) x true] ![t1, t2, x]
        = (toTP a 2 comp).eval ![s1, s2] ![t1, t2])
    {tol : K} (htol : 0 < tol) {us vs : List K} (hnu : us ≠ []) (hnv : vs ≠ [])
    (hua : ∀ u ∈ us, (a.basis 0).Admissible tol u) (huX : ∀ u ∈ us, (X.basis 0).Admissible tol u)
    (hva : ∀ v ∈ vs, (a.basis 1).Admissible tol v) (hvX : ∀ v ∈ vs, (X.basis 1).Admissible tol v)
    (hx : (X.basis 2).Admissible tol x) :
    ∃ rX ra, X.evaluate tol [us, vs, [x]] true = .ok rX ∧ a.evaluate tol [us, vs] true = .ok ra ∧ rX.data = ra.data := by
  obtain ⟨ra, e1, e2, e3⟩ := Bridge.eval_surface (bases_eq_two ha) (ha.valid 0) (ha.valid 1) (surface_shape ha)
    hpos htol hua hva (fun _ => hnu) (fun _ => hnv)
  obtain ⟨rX, f1, f2, f3⟩ := Bridge.eval_volume (bases_eq_three hX) (hX.valid 0) (hX.valid 1) (hX.valid 2)
    (volume_shape hX) (by rw [hrat, hnc]; exact hpos) htol huX hvX
    (fun w hw => by rw [List.mem_singleton.mp hw]; exact hx) (fun _ => hnu) (fun _ => hnv) (fun _ => by simp)
  simp only [List.length_singleton, mul_one, Nat.div_one, Nat.mod_one, List.getD_cons_zero] at f3
  have hd := e3.data_eq f3 hrat hnc (by
    intro p c hp hc
    rw [← hnc, num_volume hX hper, hnc, num_surface ha pa0 pa1, hmap c hc]
    unfold effSide
    rw [hst0, hst1])
  exact ⟨rX, ra, f1, e1, hd⟩

end C15
end Splipy
