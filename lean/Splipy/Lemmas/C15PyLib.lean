import Splipy.Model.Sections

/-!
# Models of the Python built-ins used by the translated section utilities (property C15)

The translator `harness/translate/sections_translate.py` turns the Python AST of
`splipy/utils/__init__.py::{sections, section_from_index, section_to_index, check_section,
check_direction}` into Lean `do`-blocks over the functions below (trusted models of `itertools` and
list built-ins; python ints are `Int`, `None`/int selectors are `Sel = Option Int`).
-/

namespace Splipy.PyLib

open Splipy.Sections

/-- `range(n)` (empty for `n ≤ 0`). -/
def range (n : Int) : List Int := (List.range n.toNat).map (fun (k : ℕ) => (k : Int))

/-- `itertools.combinations(xs, r)`; `ValueError` for negative `r`. -/
def combosAux {α : Type} : List α → ℕ → List (List α)
  | _, 0 => [[]]
  | [], _+1 => []
  | x :: xs, r+1 => (combosAux xs r).map (x :: ·) ++ combosAux xs (r+1)

def combinations {α : Type} (xs : List α) (r : Int) : PyM (List (List α)) :=
  if r < 0 then .error .value else .ok (combosAux xs r.toNat)

/-- `itertools.product(xs, repeat=n)` (first position slowest); `ValueError` for negative `n`. -/
def productAux {α : Type} (xs : List α) : ℕ → List (List α)
  | 0 => [[]]
  | n+1 => xs.flatMap (fun x => (productAux xs n).map (x :: ·))

def product {α : Type} (xs : List α) (n : Int) : PyM (List (List α)) :=
  if n < 0 then .error .value else .ok (productAux xs n.toNat)

/-- `xs[::-1]`. -/
def reversed {α : Type} (xs : List α) : List α := xs.reverse

/-- `zip(a, b)`. -/
def zip {α β : Type} (a : List α) (b : List β) : List (α × β) := List.zip a b

/-- `enumerate(xs)`. -/
def enumerate {α : Type} (xs : List α) : List (Int × α) :=
  (List.zip (List.range xs.length) xs).map (fun (p : ℕ × α) => ((p.1 : Int), p.2))

/-- `[v] * n`. -/
def listMul {α : Type} (xs : List α) (n : Int) : List α := (List.replicate n.toNat xs).flatten

/-- `len(xs)`. -/
def len {α : Type} (xs : List α) : Int := xs.length

/-- `xs[i] = v` (python index rules, `IndexError` out of range). -/
def setItem {α : Type} (xs : List α) (i : Int) (v : α) : PyM (List α) :=
  let j := if i < 0 then i + xs.length else i
  if 0 ≤ j ∧ j < xs.length then .ok (xs.set j.toNat v) else .error .index

/-- `while len(xs) < n: xs.append(v)`. -/
def padTo {α : Type} (xs : List α) (n : Int) (v : α) : List α :=
  xs ++ List.replicate (n - xs.length).toNat v

/-- `sum(1 for s in xs if s is None)`. -/
def countNone (xs : List Sel) : Int := (xs.filter Option.isNone).length

/-- `'uvw'.index(k)` (`ValueError` when absent). -/
def strIndex (s : String) (k : String) : PyM Int :=
  match (s.toList.map (fun c => String.singleton c)).idxOf? k with
  | some i => .ok (i : Int)
  | none => .error .value

/-- `kwargs[k]` (`KeyError` when absent). -/
def dictGet {β : Type} (d : List (String × β)) (k : String) : PyM β :=
  match d.find? (fun p => p.1 == k) with
  | some p => .ok p.2
  | none => .error .key

/-- `set(d.keys()) & set(s)` as a list (iteration order of a Python set is unspecified; the
    translated loop only performs updates at pairwise different positions). -/
def keysIn {β : Type} (d : List (String × β)) (s : String) : List String :=
  ((d.map (·.1)).filter (fun k => (s.toList.map (fun c => String.singleton c)).contains k)).eraseDups

/-- A token passed as `direction`: an int or a string. -/
abbrev Tok := Int ⊕ String

end Splipy.PyLib
