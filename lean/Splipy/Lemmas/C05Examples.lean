import Splipy.Lemmas.Elevation
import Splipy.Lemmas.C05PerDir

/-!
# C05 — concrete objects for the non-vacuity examples (surfaces, volumes, a periodic tube)
-/

namespace Splipy

/-- Surface: order 2 on `0,0,1,1` in `u`, order 3 on `0,0,0,1,2,2,2` in `v`, `2 × 4` net, 2 components. -/
def c05Surf : Obj ℚ :=
  { bases := #[openBasis 2 (clampedU 0 1 []) (clampedM 2 []), openBasis 3 (clampedU 0 2 [1]) (clampedM 3 [1])],
    cps := ⟨[2, 4, 2], #[0,0, 0,1, 1,2, 0,3,  2,0, 3,1, 2,2, 3,4]⟩, rational := false }

theorem c05Surf_wf : C06.WF c05Surf 2 where
  size := rfl
  valid := by
    intro d
    match d with
    | ⟨0, _⟩ => exact openBasis_clamped_valid (K := ℚ) (1/100) (by norm_num) 2 (by norm_num) 0 1 [] [] rfl (by simp [Separated, clampedU]; norm_num)
    | ⟨1, _⟩ => exact openBasis_clamped_valid (K := ℚ) (1/100) (by norm_num) 3 (by norm_num) 0 2 [1] [1] rfl (by simp [Separated, clampedU]; norm_num)
  shape := by decide

/-- Rational volume: order 2 on `0,0,1,1` in `u` and `v`, order 2 on `0,0,1,2,2` in `w`,
    `2 × 2 × 3` net of 2 homogeneous components (1 coordinate + weight). -/
def c05Vol : Obj ℚ :=
  { bases := #[openBasis 2 (clampedU 0 1 []) (clampedM 2 []), openBasis 2 (clampedU 0 1 []) (clampedM 2 []),
      openBasis 2 (clampedU 0 2 [1]) (clampedM 2 [1])],
    cps := ⟨[2, 2, 3, 2], #[0,1, 1,1, 2,2,  1,1, 3,2, 2,1,  4,1, 0,3, 1,1,  2,2, 5,1, 3,1]⟩, rational := true }

theorem c05Vol_wf : C06.WF c05Vol 3 where
  size := rfl
  valid := by
    intro d
    match d with
    | ⟨0, _⟩ => exact openBasis_clamped_valid (K := ℚ) (1/100) (by norm_num) 2 (by norm_num) 0 1 [] [] rfl (by simp [Separated, clampedU]; norm_num)
    | ⟨1, _⟩ => exact openBasis_clamped_valid (K := ℚ) (1/100) (by norm_num) 2 (by norm_num) 0 1 [] [] rfl (by simp [Separated, clampedU]; norm_num)
    | ⟨2, _⟩ => exact openBasis_clamped_valid (K := ℚ) (1/100) (by norm_num) 2 (by norm_num) 0 2 [1] [1] rfl (by simp [Separated, clampedU]; norm_num)
  shape := by decide

/-- `c05Surf` raised by `(1, 1)` (bases and net; see the kernel-evaluated examples in `Properties/C05.lean`). -/
def c05SurfUp : Obj ℚ :=
  { bases := #[openBasis 3 (clampedU 0 1 []) (clampedM 3 []), openBasis 4 (clampedU 0 2 [1]) (clampedM 4 [2])],
    cps := ⟨[3, 6, 2], #[0, 0, 0, 2/3, 1/6, 7/6, 5/6, 11/6, 2/3, 7/3, 0, 3, 1, 0, 4/3, 2/3, 3/2, 7/6, 3/2, 11/6,
      3/2, 5/2, 3/2, 7/2, 2, 0, 8/3, 2/3, 17/6, 7/6, 13/6, 11/6, 7/3, 8/3, 3, 4]⟩,
    rational := false }

/-- The bases of `c05Vol` raised by `(1, 0, 1)`. -/
def c05VolUpBases : List (Basis ℚ) :=
  [openBasis 3 (clampedU 0 1 []) (clampedM 3 []), openBasis 2 (clampedU 0 1 []) (clampedM 2 []),
    openBasis 3 (clampedU 0 2 [1]) (clampedM 3 [2])]

/-- Object on the bases `c05VolUpBases` with the given net. -/
def c05VolUp (t : Tensor ℚ) : Obj ℚ :=
  { bases := c05VolUpBases.toArray, cps := t, rational := true }

theorem c05PerData : PerData (1/100 : ℚ) 3 0 0 [1] 2 [1] 2 :=
  ⟨rfl, by norm_num, by simp, by simp [Separated]; norm_num, by simp, by simp, by norm_num, by norm_num,
    by norm_num⟩

/-- Tube: periodic in `u` (order 3, `k = 0`, knots `-1,0,0,1,2,2,3`), order 2 on `0,0,1,1` in `v`,
    `3 × 2` net of 2 components. -/
def c05Tube : Obj ℚ :=
  { bases := #[perBasis 3 0 ((0 : ℚ) :: [1]) (2 :: [1]) 2, openBasis 2 (clampedU 0 1 []) (clampedM 2 [])],
    cps := ⟨[3, 2, 2], #[0,0, 0,1,  2,0, 2,3,  1,3, 1,5]⟩, rational := false }

theorem c05Tube_wf : C06.WF c05Tube 2 where
  size := rfl
  valid := by
    intro d
    match d with
    | ⟨0, _⟩ => exact c05PerData.valid (by norm_num)
    | ⟨1, _⟩ => exact openBasis_clamped_valid (K := ℚ) (1/100) (by norm_num) 2 (by norm_num) 0 1 [] [] rfl (by simp [Separated, clampedU]; norm_num)
  shape := by decide

end Splipy
