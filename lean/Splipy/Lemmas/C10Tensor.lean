import Splipy.Lemmas.C10Basic

/-!
# C10 helper lemmas, part 2: rebuilding one parametric axis keeps an object well formed

Every operation that works along one parametric direction (`reverse`, `insert_knot`, `split`,
`make_periodic`, `lower_periodic`, the slicing of `section`) produces its control net with
`Tensor.build3 shape axis m F`: the axis gets length `m`, entry `(a, r, i)` (outer block, position on
the axis, inner position) is `F a r i`.

* `build3_tpos`      : positivity of the weight positions of a `build3` tensor from positivity of `F`
                       on the inner positions that are weight positions (`i ≡ dimension mod ncomp`);
* `at3_pos`          : the corresponding reading of the OLD tensor;
* `WellFormed.build3`: the object-level statement (basis of the direction replaced by a valid one with
                       `m` functions);
* `WellFormed.reindex`: the special case `F a r i = old (a, g r, i)` (`reindexAxis`: flip, roll,
                       slice, take).
-/

set_option linter.unusedSectionVars false

namespace Splipy

variable {K : Type} [Field K] [LinearOrder K]

namespace C10

/-- Weight positions (`f ≡ dim mod nc`) of a tensor hold positive numbers. -/
def TPos (t : Tensor K) (nc dim : ℕ) : Prop := ∀ f, f < t.data.size → f % nc = dim → 0 < t.get f

theorem flat_decomp {o m inn f : ℕ} (hf : f < o * m * inn) :
    ∃ a r i, a < o ∧ r < m ∧ i < inn ∧ f = (a * m + r) * inn + i := by
  have hinn : 0 < inn := by
    rcases Nat.eq_zero_or_pos inn with h | h
    · rw [h, Nat.mul_zero] at hf; exact absurd hf (Nat.not_lt_zero _)
    · exact h
  have hm : 0 < m := by
    rcases Nat.eq_zero_or_pos m with h | h
    · rw [h, Nat.mul_zero, Nat.zero_mul] at hf; exact absurd hf (Nat.not_lt_zero _)
    · exact h
  have hq : f / inn < o * m := Nat.div_lt_of_lt_mul (by rwa [Nat.mul_comm] at hf)
  refine ⟨f / inn / m, f / inn % m, f % inn, Nat.div_lt_of_lt_mul (by rwa [Nat.mul_comm] at hq),
    Nat.mod_lt _ hm, Nat.mod_lt _ hinn, ?_⟩
  have e1 : f / inn / m * m + f / inn % m = f / inn := by
    rw [Nat.mul_comm]; exact Nat.div_add_mod _ _
  rw [e1, Nat.mul_comm]
  exact (Nat.div_add_mod f inn).symm

/-- The inner block of a parametric axis is a multiple of the number of components. -/
theorem dvd_inner (shape : List ℕ) (axis : ℕ) (h : axis + 1 < shape.length) :
    shape.getLastD 1 ∣ Tensor.prod (shape.drop (axis + 1)) := by
  rcases List.eq_nil_or_concat shape with h0 | ⟨l, x, h1⟩
  · rw [h0] at h; simp at h
  · subst h1
    rw [List.concat_eq_append] at h ⊢
    have hl : axis + 1 ≤ l.length := by simp at h; omega
    rw [List.drop_append_of_le_length hl, C06.prod_append]
    simp [Tensor.prod]

theorem mod_flat {m inn nc a r i : ℕ} (hd : nc ∣ inn) : ((a * m + r) * inn + i) % nc = i % nc := by
  obtain ⟨k, rfl⟩ := hd
  rw [show (a * m + r) * (nc * k) + i = i + nc * ((a * m + r) * k) by ring, Nat.add_mul_mod_self_left]

/-- Reading a `build3` tensor at a decomposed flat position. -/
theorem build3_get (shape : List ℕ) (axis m : ℕ) (F : ℕ → ℕ → ℕ → K) (a r i : ℕ)
    (ha : a < (Tensor.split3 shape axis).1) (hr : r < m) (hi : i < (Tensor.split3 shape axis).2.2) :
    (Tensor.build3 shape axis m F).get ((a * m + r) * (Tensor.split3 shape axis).2.2 + i) = F a r i := by
  unfold Tensor.build3 Tensor.get
  simp only [Tensor.split3] at ha hi ⊢
  have hlt := C04.flat_lt (m := m) ha hr hi
  rw [Array.getD_eq_getD_getElem?, Array.getElem?_ofFn, dif_pos hlt]
  simp only [Option.getD_some]
  rw [C04.flat_mod hi, C04.flat_mid hr hi, C04.flat_outer hr hi]

theorem build3_data_size (shape : List ℕ) (axis m : ℕ) (F : ℕ → ℕ → ℕ → K) :
    (Tensor.build3 shape axis m F).data.size
      = (Tensor.split3 shape axis).1 * m * (Tensor.split3 shape axis).2.2 := by
  unfold Tensor.build3
  simp [Tensor.split3]

theorem build3_shape (shape : List ℕ) (axis m : ℕ) (F : ℕ → ℕ → ℕ → K) :
    (Tensor.build3 shape axis m F).shape = shape.set axis m := rfl

/-- `prod (shape.set axis m) = outer · m · inner`. -/
theorem prod_set (shape : List ℕ) (axis m : ℕ) (h : axis < shape.length) :
    Tensor.prod (shape.set axis m)
      = (Tensor.split3 shape axis).1 * m * (Tensor.split3 shape axis).2.2 := by
  rw [C06.prod_split (shape.set axis m) axis (by simpa using h)]
  simp only [Tensor.split3]
  rw [List.take_set_of_le (Nat.le_refl _), List.drop_set_of_lt (by omega), C06.getD_set_self _ _ _ _ h]

/-- Positivity of the weight positions of a `build3` tensor. -/
theorem build3_tpos (shape : List ℕ) (axis m : ℕ) (F : ℕ → ℕ → ℕ → K) (nc dim : ℕ)
    (hax : axis + 1 < shape.length) (hnc : shape.getLastD 1 = nc)
    (hF : ∀ a r i, a < (Tensor.split3 shape axis).1 → r < m → i < (Tensor.split3 shape axis).2.2 →
      i % nc = dim → 0 < F a r i) :
    TPos (Tensor.build3 shape axis m F) nc dim := by
  intro f hf hm
  rw [build3_data_size] at hf
  obtain ⟨a, r, i, ha, hr, hi, rfl⟩ := flat_decomp hf
  rw [build3_get shape axis m F a r i ha hr hi]
  apply hF a r i ha hr hi
  rw [← hm]
  have hd : nc ∣ (Tensor.split3 shape axis).2.2 := by rw [← hnc]; exact dvd_inner shape axis hax
  exact (mod_flat hd).symm

/-- Reading the old tensor at a weight position of a fibre. -/
theorem at3_pos (t : Tensor K) (nc dim : ℕ) (hsz : t.data.size = Tensor.prod t.shape)
    (hpos : TPos t nc dim) (axis : ℕ) (hax : axis + 1 < t.shape.length) (hnc : t.shape.getLastD 1 = nc)
    (a j i : ℕ) (ha : a < (Tensor.split3 t.shape axis).1) (hj : j < (Tensor.split3 t.shape axis).2.1)
    (hi : i < (Tensor.split3 t.shape axis).2.2) (him : i % nc = dim) :
    0 < t.at3 axis a j i := by
  unfold Tensor.at3
  have hd : nc ∣ (Tensor.split3 t.shape axis).2.2 := by rw [← hnc]; exact dvd_inner t.shape axis hax
  apply hpos
  · rw [hsz, C06.prod_split t.shape axis (by omega)]
    exact C04.flat_lt ha hj hi
  · rw [← him]; exact mod_flat hd

end C10

namespace Obj

open C10

variable {o : Obj K}

theorem WellFormed.tpos (h : o.WellFormed) (hr : o.rational = true) : TPos o.cps o.ncomp o.dimension :=
  h.weightsPos hr

/-- **One axis rebuilt.**  Direction `dir` gets a valid basis with `m` functions and the control net is
    `build3 shape dir m F` with `F` positive on the weight positions (only asked of rational objects). -/
theorem WellFormed.build3 (h : o.WellFormed) (dir m : ℕ) (F : ℕ → ℕ → ℕ → K) (b' : Basis K)
    (hd : dir < o.bases.size) (hv : b'.Valid) (hm : b'.numFunctions = m)
    (hF : o.rational = true → ∀ a r i, a < (Tensor.split3 o.cps.shape dir).1 → r < m →
      i < (Tensor.split3 o.cps.shape dir).2.2 → i % o.ncomp = o.dimension → 0 < F a r i) :
    ({ o with bases := o.bases.set! dir b', cps := Tensor.build3 o.cps.shape dir m F } : Obj K).WellFormed := by
  set o' : Obj K := { o with bases := o.bases.set! dir b', cps := Tensor.build3 o.cps.shape dir m F }
    with ho'
  have hdl : dir < o.counts.length := by rw [counts_length]; exact hd
  have hshape : o'.cps.shape = o.counts.set dir m ++ [o.ncomp] := by
    show o.cps.shape.set dir m = _
    rw [h.shape_eq', List.set_append_left _ _ hdl]
  have hcounts : o'.counts = o.counts.set dir m := by
    rw [← hm]
    exact counts_set o.bases o.cps _ o.rational o.rational dir b'
  have hnc : o'.ncomp = o.ncomp := ncomp_of_shape hshape
  have hdim : o'.dimension = o.dimension := by
    unfold Obj.dimension; rw [hnc]
  have hspec : o'.ncompSpec = o.ncomp := by
    unfold Obj.ncompSpec; rw [hdim]; exact h.ncomp_eq.symm
  have hax : dir < o.cps.shape.length := by rw [h.shape_length]; omega
  have hax1 : dir + 1 < o.cps.shape.length := by rw [h.shape_length]; omega
  have hsize : o'.cps.data.size = Tensor.prod o'.cps.shape := by
    show (Tensor.build3 o.cps.shape dir m F).data.size = Tensor.prod (o.cps.shape.set dir m)
    rw [build3_data_size, prod_set _ _ _ hax]
  apply WellFormed.of_weightsPos
  · show (o.bases.set! dir b').size = o'.pardim
    rw [pardim_of_shape hshape]
    simp [counts_length]
  · rw [hshape, hcounts, hspec]
  · exact hsize
  · rw [hdim]; exact h.dim_pos
  · intro k hk
    have hk' : k < o.bases.size := by simpa [ho'] using hk
    by_cases hkd : k = dir
    · subst hkd
      rw [show o'.basis k = b' from by
        simp [ho', Obj.basis, Array.getD_eq_getD_getElem?, hk']]
      exact hv
    · rw [show o'.basis k = o.basis k from by
        simp [ho', Obj.basis, Array.getD_eq_getD_getElem?, Ne.symm hkd]]
      exact h.valid k hk'
  · intro hr f hf hmod
    rw [hnc, hdim] at hmod
    have hr' : o.rational = true := hr
    exact build3_tpos o.cps.shape dir m F o.ncomp o.dimension hax1 (h.last_eq 1) (hF hr') f hf hmod

/-- **One axis re-indexed** (`Tensor.reindexAxis`: `flipAxis`, `rollAxisNeg`, `rollAxisPos`,
    `sliceAxis`): new position `r` reads old position `g r`, which must exist. -/
theorem WellFormed.reindex (h : o.WellFormed) (dir m : ℕ) (g : ℕ → ℕ) (b' : Basis K)
    (hd : dir < o.bases.size) (hv : b'.Valid) (hm : b'.numFunctions = m)
    (hg : ∀ r, r < m → g r < (o.basis dir).numFunctions) :
    ({ o with bases := o.bases.set! dir b', cps := o.cps.reindexAxis dir m g } : Obj K).WellFormed := by
  unfold Tensor.reindexAxis
  apply h.build3 dir m _ b' hd hv hm
  intro hr a r i ha hr' hi him
  have hax1 : dir + 1 < o.cps.shape.length := by rw [h.shape_length]; omega
  apply at3_pos o.cps o.ncomp o.dimension h.data_size (h.tpos hr) dir hax1 (h.last_eq 1) a (g r) i ha _ hi him
  simp only [Tensor.split3]
  rw [h.shape_getD dir 1 hd]
  exact hg r hr'

end Obj

end Splipy
