import Splipy.Lemmas.C16Integral
import Mathlib.Analysis.Calculus.Deriv.Polynomial
import Mathlib.Topology.Algebra.Polynomial
import Mathlib.MeasureTheory.Integral.IntervalIntegral.FundThmCalculus

/-!
# C16: `integrate` is the integral (`K = ℝ`, Mathlib's interval integral)

On one knot span: `∫_a^b B_{i,q} = intFpoly(b) − intFpoly(a)`, and in terms of the function the
code evaluates, `= intF .left … b − intF .right … a`.
-/

namespace Splipy

open Polynomial MeasureTheory

/-- Fundamental theorem of calculus on one knot span, polynomial form. -/
theorem integral_B_eq_intFpoly (s : Side) (τ : ℕ → ℝ) (hτ : Monotone τ) (μ q i : ℕ) (a b : ℝ)
    (ha : τ μ ≤ a) (hab : a ≤ b) (hb : b ≤ τ (μ+1)) :
    ∫ x in a..b, B s τ q i x = (intFpoly τ μ q i).eval b - (intFpoly τ μ q i).eval a := by
  rcases eq_or_lt_of_le hab with rfl | hlt
  · simp
  have hμ : τ μ < τ (μ+1) := lt_of_le_of_lt ha (lt_of_lt_of_le hlt hb)
  have h1 : ∫ x in a..b, B s τ q i x = ∫ x in a..b, (Bpoly τ μ q i).eval x := by
    rw [intervalIntegral.integral_of_le hab, intervalIntegral.integral_of_le hab,
      integral_Ioc_eq_integral_Ioo, integral_Ioc_eq_integral_Ioo]
    apply setIntegral_congr_fun measurableSet_Ioo
    intro x hx
    apply B_eq_eval_Bpoly s τ hτ μ q i x
    cases s
    · exact ⟨le_trans ha hx.1.le, lt_of_lt_of_le hx.2 hb⟩
    · exact ⟨lt_of_le_of_lt ha hx.1, le_trans hx.2.le hb⟩
  rw [h1, ← derivative_intFpoly τ hτ μ hμ q i]
  exact intervalIntegral.integral_eq_sub_of_hasDerivAt
    (fun x _ => (intFpoly τ μ q i).hasDerivAt x)
    ((derivative (intFpoly τ μ q i)).continuous.intervalIntegrable _ _)

/-- Fundamental theorem of calculus on one knot span, in terms of the function
`BSplineBasis.integrate` evaluates: lower limit from the right, upper limit from the left
(`a < b` inside the closed span). -/
theorem integral_B_eq_intF (s : Side) (τ : ℕ → ℝ) (hτ : Monotone τ) (μ q N i : ℕ) (hN : μ < N)
    (a b : ℝ) (ha : τ μ ≤ a) (hab : a < b) (hb : b ≤ τ (μ+1)) :
    ∫ x in a..b, B s τ q i x = intF .left τ q N i b - intF .right τ q N i a := by
  rw [integral_B_eq_intFpoly s τ hτ μ q i a b ha hab.le hb,
    intF_eq_eval .left τ hτ μ q N i hN b ⟨lt_of_le_of_lt ha hab, hb⟩,
    intF_eq_eval .right τ hτ μ q N i hN a ⟨ha, lt_of_lt_of_le hab hb⟩]

/-- On one knot span `B · τ q i` is interval integrable (it is a polynomial there). -/
theorem intervalIntegrable_B_span (s : Side) (τ : ℕ → ℝ) (hτ : Monotone τ) (μ q i : ℕ) (a b : ℝ)
    (ha : τ μ ≤ a) (hab : a ≤ b) (hb : b ≤ τ (μ+1)) :
    IntervalIntegrable (fun x => B s τ q i x) volume a b := by
  rw [intervalIntegrable_iff_integrableOn_Ioo_of_le hab]
  have hp : IntegrableOn (fun x => (Bpoly τ μ q i).eval x) (Set.Ioo a b) volume :=
    ((Bpoly τ μ q i).continuous.integrableOn_Icc (a := a) (b := b)).mono_set
      Set.Ioo_subset_Icc_self
  refine hp.congr_fun ?_ measurableSet_Ioo
  intro x hx
  refine (B_eq_eval_Bpoly s τ hτ μ q i x ?_).symm
  cases s
  · exact ⟨le_trans ha hx.1.le, lt_of_lt_of_le hx.2 hb⟩
  · exact ⟨lt_of_le_of_lt ha hx.1, le_trans hx.2.le hb⟩

/-- **Fundamental theorem of calculus for `integrate`, any number of spans.**  `a` lies in the
span `μ0 ≥ q+1` of the domain (`τ μ0 ≤ a < τ (μ0+1)`), `b > a` anywhere up to `τ (μ0+k+1)`,
`μ0 + k < N`; NO condition on knot multiplicities (`intF_left_eq_right_of_domain`).  Then `B · τ q i` is integrable on `[a,b]` and
`∫_a^b B_{i,q} = intF(b⁻) − intF(a⁺)`. -/
theorem integral_B_eq_intF_multi (s : Side) (τ : ℕ → ℝ) (hτ : Monotone τ) (q N i μ0 : ℕ) (a : ℝ)
    (hq : q + 1 ≤ μ0) (ha : τ μ0 ≤ a) (ha' : a < τ (μ0+1)) (k : ℕ) (hN : μ0 + k < N) (b : ℝ)
    (hab : a < b) (hb : b ≤ τ (μ0+k+1)) :
    IntervalIntegrable (fun x => B s τ q i x) volume a b ∧
      ∫ x in a..b, B s τ q i x = intF .left τ q N i b - intF .right τ q N i a := by
  induction k generalizing b with
  | zero =>
    exact ⟨intervalIntegrable_B_span s τ hτ μ0 q i a b ha hab.le hb,
      integral_B_eq_intF s τ hτ μ0 q N i hN a b ha hab hb⟩
  | succ k ih =>
    by_cases hbk : b ≤ τ (μ0+k+1)
    · exact ih (by omega) b hab hbk
    · have hξb : τ (μ0+k+1) < b := lt_of_not_ge hbk
      have haξ : a < τ (μ0+k+1) := lt_of_lt_of_le ha' (hτ (by omega))
      obtain ⟨I1, E1⟩ := ih (by omega) (τ (μ0+k+1)) haξ le_rfl
      have e : μ0 + (k+1) + 1 = μ0 + k + 1 + 1 := by omega
      rw [e] at hb
      have I2 := intervalIntegrable_B_span s τ hτ (μ0+k+1) q i (τ (μ0+k+1)) b le_rfl hξb.le hb
      have E2 := integral_B_eq_intF s τ hτ (μ0+k+1) q N i (by omega) (τ (μ0+k+1)) b le_rfl hξb hb
      obtain ⟨μL, hL1, hL2, hLm⟩ := exists_span .left τ hτ μ0 (μ0+k+1) (τ (μ0+k+1))
        ⟨lt_of_le_of_lt ha haξ, le_rfl⟩
      have hc := intF_left_eq_right_of_domain τ hτ (τ (μ0+k+1)) q N i μL (μ0+k+1) hLm
        ⟨le_rfl, lt_of_lt_of_le hξb hb⟩ (by omega) (by omega) (by omega) (by omega)
      refine ⟨I1.trans I2, ?_⟩
      rw [← intervalIntegral.integral_add_adjacent_intervals I1 I2, E1, E2, hc]
      ring

end Splipy
