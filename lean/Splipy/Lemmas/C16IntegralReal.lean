import Splipy.Lemmas.C16Integral
import Mathlib.Analysis.Calculus.Deriv.Polynomial
import Mathlib.Topology.Algebra.Polynomial
import Mathlib.MeasureTheory.Integral.IntervalIntegral.FundThmCalculus

/-!
# C16: `integrate` is the integral (`K = ℝ`, Mathlib's interval integral)

On one knot span: `∫_a^b B_{i,q} = intFpoly(b) − intFpoly(a)`, and in terms of the function the
code evaluates, `= intF .left … b − intF .right … a`.
-/

namespace Splipy

open Polynomial MeasureTheory

/-- Fundamental theorem of calculus on one knot span, polynomial form. -/
theorem integral_B_eq_intFpoly (s : Side) (τ : ℕ → ℝ) (hτ : Monotone τ) (μ q i : ℕ) (a b : ℝ)
    (ha : τ μ ≤ a) (hab : a ≤ b) (hb : b ≤ τ (μ+1)) :
    ∫ x in a..b, B s τ q i x = (intFpoly τ μ q i).eval b - (intFpoly τ μ q i).eval a := by
  rcases eq_or_lt_of_le hab with rfl | hlt
  · simp
  have hμ : τ μ < τ (μ+1) := lt_of_le_of_lt ha (lt_of_lt_of_le hlt hb)
  have h1 : ∫ x in a..b, B s τ q i x = ∫ x in a..b, (Bpoly τ μ q i).eval x := by
    rw [intervalIntegral.integral_of_le hab, intervalIntegral.integral_of_le hab,
      integral_Ioc_eq_integral_Ioo, integral_Ioc_eq_integral_Ioo]
    apply setIntegral_congr_fun measurableSet_Ioo
    intro x hx
    apply B_eq_eval_Bpoly s τ hτ μ q i x
    cases s
    · exact ⟨le_trans ha hx.1.le, lt_of_lt_of_le hx.2 hb⟩
    · exact ⟨lt_of_le_of_lt ha hx.1, le_trans hx.2.le hb⟩
  rw [h1, ← derivative_intFpoly τ hτ μ hμ q i]
  exact intervalIntegral.integral_eq_sub_of_hasDerivAt
    (fun x _ => (intFpoly τ μ q i).hasDerivAt x)
    ((derivative (intFpoly τ μ q i)).continuous.intervalIntegrable _ _)

/-- Fundamental theorem of calculus on one knot span, in terms of the function
`BSplineBasis.integrate` evaluates: lower limit from the right, upper limit from the left
(`a < b` inside the closed span). -/
theorem integral_B_eq_intF (s : Side) (τ : ℕ → ℝ) (hτ : Monotone τ) (μ q N i : ℕ) (hN : μ < N)
    (a b : ℝ) (ha : τ μ ≤ a) (hab : a < b) (hb : b ≤ τ (μ+1)) :
    ∫ x in a..b, B s τ q i x = intF .left τ q N i b - intF .right τ q N i a := by
  rw [integral_B_eq_intFpoly s τ hτ μ q i a b ha hab.le hb,
    intF_eq_eval .left τ hτ μ q N i hN b ⟨lt_of_le_of_lt ha hab, hb⟩,
    intF_eq_eval .right τ hτ μ q N i hN a ⟨ha, lt_of_lt_of_le hab hb⟩]

end Splipy
