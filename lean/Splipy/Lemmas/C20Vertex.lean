import Mathlib.Algebra.Order.Field.Basic
import Mathlib.Tactic.Linarith
import Mathlib.Tactic.Ring
import Splipy.Lemmas.C20Bisect
import Splipy.Model.Tolerance

/-!
# `VertexDict`: the candidate set is exactly the set of live stored keys inside the window (C20)
-/

namespace Splipy.C20

open Splipy Splipy.VertexDict

variable {K : Type} [Field K] [LinearOrder K] {V : Type}

/-- a look-up table sorted by value -/
def LutSorted (l : List (ℕ × K)) : Prop := l.Pairwise (fun x y => x.2 ≤ y.2)

omit [LinearOrder K] in
theorem lutVal_getElem (l : List (ℕ × K)) {p : ℕ} (hp : p < l.length) : lutVal l p = l[p].2 := by
  unfold lutVal
  rw [List.getD_eq_getElem?_getD, List.getElem?_eq_getElem hp, Option.getD_some]

theorem lut_mono (l : List (ℕ × K)) (h : LutSorted l) : MonoOn (lutVal l) l.length := by
  intro i j hij hj
  have hi : i < l.length := lt_of_le_of_lt hij hj
  rw [lutVal_getElem l hi, lutVal_getElem l hj]
  rcases Nat.lt_or_eq_of_le hij with hlt | heq
  · exact (List.pairwise_iff_getElem.1 h) i j hi hj hlt
  · subst heq; exact le_refl _

/-- positions `a ≤ p < b` of a list -/
theorem mem_drop_take {α : Type} (l : List α) (a b : ℕ) (x : α) :
    x ∈ (l.drop a).take (b - a) ↔ ∃ p, ∃ hp : p < l.length, a ≤ p ∧ p < b ∧ l[p] = x := by
  constructor
  · intro h
    obtain ⟨i, hi, he⟩ := List.mem_take_iff_getElem.1 h
    rw [List.length_drop] at hi
    rw [List.getElem_drop] at he
    exact ⟨a + i, by omega, by omega, by omega, he⟩
  · rintro ⟨p, hp, hap, hpb, he⟩
    apply List.mem_take_iff_getElem.2
    refine ⟨p - a, by rw [List.length_drop]; omega, ?_⟩
    rw [List.getElem_drop]
    have : a + (p - a) = p := by omega
    simp only [this]; exact he

/-- `{i for i, _ in lut[lo:hi]}` is the set of indices whose value lies in `[minval, maxval)`. -/
theorem mem_slice (l : List (ℕ × K)) (h : LutSorted l) (minval maxval : K) (i : ℕ) :
    i ∈ slice l minval maxval ↔ ∃ v, (i, v) ∈ l ∧ minval ≤ v ∧ v < maxval := by
  have hm := lut_mono l h
  unfold slice
  simp only [List.mem_map]
  constructor
  · rintro ⟨x, hx, rfl⟩
    obtain ⟨p, hp, hap, hpb, he⟩ := (mem_drop_take l _ _ x).1 hx
    refine ⟨x.2, ?_, ?_, ?_⟩
    · rw [← he]; exact List.getElem_mem hp
    · have := (bisectLeft_spec (lutVal l) minval l.length hm).2.2 p hap hp
      rw [lutVal_getElem l hp, he] at this; exact this
    · have := (bisectLeft_spec (lutVal l) maxval l.length hm).2.1 p hpb
      rw [lutVal_getElem l hp, he] at this; exact this
  · rintro ⟨v, hv, hlo, hhi⟩
    obtain ⟨p, hp, he⟩ := List.mem_iff_getElem.1 hv
    refine ⟨(i, v), (mem_drop_take l _ _ _).2 ⟨p, hp, ?_, ?_, he⟩, rfl⟩
    · by_contra hc
      have := (bisectLeft_spec (lutVal l) minval l.length hm).2.1 p (not_le.1 hc)
      rw [lutVal_getElem l hp, he] at this
      exact absurd this (not_lt.2 hlo)
    · apply (bisectLeft_lt_iff (lutVal l) maxval l.length hm hp).2
      rw [lutVal_getElem l hp, he]; exact hhi

theorem mem_insort (l : List (ℕ × K)) (x y : ℕ × K) : y ∈ insort l x ↔ y = x ∨ y ∈ l := by
  unfold insort
  simp only [List.mem_append, List.mem_cons]
  have := List.take_append_drop (bisectRight (lutVal l) x.2 l.length) l
  constructor
  · rintro (h | h | h)
    · exact Or.inr (List.mem_of_mem_take h)
    · exact Or.inl h
    · exact Or.inr (List.mem_of_mem_drop h)
  · rintro (h | h)
    · exact Or.inr (Or.inl h)
    · rw [← this] at h
      rcases List.mem_append.1 h with h | h
      · exact Or.inl h
      · exact Or.inr (Or.inr h)

theorem insort_sorted (l : List (ℕ × K)) (h : LutSorted l) (x : ℕ × K) : LutSorted (insort l x) := by
  have hm := lut_mono l h
  obtain ⟨hle, hlow, hhigh⟩ := bisectRight_spec (lutVal l) x.2 l.length hm
  unfold insort LutSorted
  set pos := bisectRight (lutVal l) x.2 l.length with hpos
  have htake : ∀ a ∈ l.take pos, a.2 ≤ x.2 := by
    intro a ha
    obtain ⟨i, hi, he⟩ := List.mem_take_iff_getElem.1 ha
    have hi' : i < l.length := by omega
    have := hlow i (by omega)
    rw [lutVal_getElem l hi'] at this
    rw [← he]; exact this
  have hdrop : ∀ b ∈ l.drop pos, x.2 < b.2 := by
    intro b hb
    obtain ⟨i, hi, he⟩ := List.mem_drop_iff_getElem.1 hb
    have := hhigh (pos + i) (by omega) (by omega)
    rw [lutVal_getElem l (by omega)] at this
    rw [← he]; exact this
  apply List.pairwise_append.2
  refine ⟨h.sublist (List.take_sublist _ _), ?_, ?_⟩
  · apply List.pairwise_cons.2
    exact ⟨fun b hb => le_of_lt (hdrop b hb), h.sublist (List.drop_sublist _ _)⟩
  · intro a ha b hb
    rcases List.mem_cons.1 hb with rfl | hb
    · exact htake a ha
    · exact le_trans (htake a ha) (le_of_lt (hdrop b hb))

/-- Representation invariant.  `orig i c` is coordinate `c` of the key that was inserted as row
    `i` (it stays in the tables after a deletion). -/
structure WF (d : VertexDict K V) (dim : ℕ) (orig : ℕ → ℕ → K) : Prop where
  sizes : d.values.size = d.keys.size
  keys : ∀ i k, d.keys.getD i none = some k → k.size = dim ∧ ∀ c, c < dim → k.getD c 0 = orig i c
  sorted : ∀ c, c < dim → LutSorted (d.lut c)
  mem : ∀ c, c < dim → ∀ i v, (i, v) ∈ d.lut c ↔ i < d.keys.size ∧ v = orig i c

theorem wf_empty (rtol atol : K) (dim : ℕ) :
    WF (VertexDict.empty rtol atol : VertexDict K V) dim (fun _ _ => 0) := by
  refine ⟨rfl, ?_, ?_, ?_⟩
  · intro i k h; simp [VertexDict.empty] at h
  · intro c _; exact List.Pairwise.nil
  · intro c _ i v; simp [VertexDict.empty]

theorem wf_insert (d : VertexDict K V) (dim : ℕ) (orig : ℕ → ℕ → K) (h : WF d dim orig)
    (key : Array K) (hk : key.size = dim) (v : V) :
    WF (d.insert key v) dim
      (fun i c => if i = d.keys.size then key.getD c 0 else orig i c) := by
  refine ⟨?_, ?_, ?_, ?_⟩
  · simp [VertexDict.insert, h.sizes]
  · intro i k hik
    simp only [VertexDict.insert] at hik
    by_cases hi : i = d.keys.size
    · subst hi
      have : (d.keys.push (some key)).getD d.keys.size none = some key := by
        simp [Array.getD]
      rw [this] at hik
      have hke : key = k := Option.some.inj hik
      subst hke
      exact ⟨hk, fun c _ => by simp⟩
    · have : (d.keys.push (some key)).getD i none = d.keys.getD i none := by
        simp only [Array.getD, Array.size_push]
        by_cases hlt : i < d.keys.size
        · have h1 : i < d.keys.size + 1 := by omega
          simp [hlt, h1, Array.getElem_push_lt]
        · have h1 : ¬ i < d.keys.size + 1 := by omega
          simp [hlt, h1]
      rw [this] at hik
      obtain ⟨h1, h2⟩ := h.keys i k hik
      exact ⟨h1, fun c hc => by simp [hi, h2 c hc]⟩
  · intro c hc
    simp only [VertexDict.insert, hk, hc, if_true]
    exact insort_sorted _ (h.sorted c hc) _
  · intro c hc i w
    simp only [VertexDict.insert, hk, hc, if_true, Array.size_push]
    rw [mem_insort, h.mem c hc, h.sizes]
    constructor
    · rintro (he | ⟨hi, hw⟩)
      · obtain ⟨rfl, rfl⟩ := Prod.mk.inj he
        exact ⟨by omega, by simp⟩
      · exact ⟨by omega, by simp [Nat.ne_of_lt hi, hw]⟩
    · rintro ⟨hi, hw⟩
      by_cases he : i = d.keys.size
      · left
        subst he
        have hw' : w = key.getD c 0 := by simpa using hw
        rw [hw']
      · right; exact ⟨by omega, by simpa [he] using hw⟩

theorem getD_setIfInBounds_ne {α : Type} (a : Array α) (i j : ℕ) (x dflt : α) (h : i ≠ j) :
    (a.setIfInBounds j x).getD i dflt = a.getD i dflt := by
  simp only [Array.getD, Array.size_setIfInBounds]
  by_cases hi : i < a.size
  · simp [hi, Ne.symm h]
  · simp [hi]

theorem wf_setValue (d : VertexDict K V) (dim : ℕ) (orig : ℕ → ℕ → K) (h : WF d dim orig)
    (c : ℕ) (v : Option V) : WF { d with values := d.values.setIfInBounds c v } dim orig := by
  refine ⟨?_, h.keys, h.sorted, h.mem⟩
  simp [h.sizes]

theorem wf_delete (d : VertexDict K V) (dim : ℕ) (orig : ℕ → ℕ → K) (h : WF d dim orig) (c : ℕ) :
    WF { d with keys := d.keys.setIfInBounds c none, values := d.values.setIfInBounds c none }
      dim orig := by
  refine ⟨?_, ?_, h.sorted, ?_⟩
  · simp [h.sizes]
  · intro i k hik
    by_cases hi : i = c
    · subst hi
      exfalso
      simp only [Array.getD, Array.size_setIfInBounds] at hik
      by_cases hlt : i < d.keys.size
      · simp [hlt] at hik
      · simp [hlt] at hik
    · simp only at hik
      rw [getD_setIfInBounds_ne _ _ _ _ _ hi] at hik
      exact h.keys i k hik
  · intro c' hc' i v
    simp only [Array.size_setIfInBounds]
    exact h.mem c' hc' i v

/-- The dictionaries that `__setitem__` / `__delitem__` with keys of length `dim` can produce. -/
inductive Reachable (dim : ℕ) (rtol atol : K) : VertexDict K V → Prop where
  | empty : Reachable dim rtol atol (VertexDict.empty rtol atol)
  | set {d d' : VertexDict K V} (key : Array K) (v : V) (hd : Reachable dim rtol atol d)
      (hk : key.size = dim) (h : d.setItem key v = .ok d') : Reachable dim rtol atol d'
  | del {d d' : VertexDict K V} (key : Array K) (hd : Reachable dim rtol atol d)
      (hk : key.size = dim) (h : d.delItem key = .ok d') : Reachable dim rtol atol d'

theorem reachable_wf {dim : ℕ} {rtol atol : K} {d : VertexDict K V}
    (h : Reachable dim rtol atol d) : (∃ orig, WF d dim orig) ∧ d.rtol = rtol ∧ d.atol = atol := by
  induction h with
  | empty => exact ⟨⟨_, wf_empty rtol atol dim⟩, rfl, rfl⟩
  | @set d d' key v _ hk hset ih =>
    obtain ⟨⟨orig, hwf⟩, hr, ha⟩ := ih
    unfold VertexDict.setItem at hset
    split at hset
    · rename_i c _
      cases hset
      exact ⟨⟨orig, wf_setValue d dim orig hwf c (some v)⟩, hr, ha⟩
    · cases hset
      exact ⟨⟨_, wf_insert d dim orig hwf key hk v⟩, hr, ha⟩
    · cases hset
  | @del d d' key _ hk hdel ih =>
    obtain ⟨⟨orig, hwf⟩, hr, ha⟩ := ih
    unfold VertexDict.delItem at hdel
    split at hdel
    · rename_i c _
      cases hdel
      exact ⟨⟨orig, wf_delete d dim orig hwf c⟩, hr, ha⟩
    · cases hdel
      exact ⟨⟨orig, hwf⟩, hr, ha⟩
    · cases hdel

theorem inAll_iff (d : VertexDict K V) (key : Array K) (i : ℕ) (c fuel : ℕ) :
    inAll d key i c fuel = true ↔
      ∀ c', c ≤ c' → c' < c + fuel →
        i ∈ slice (d.lut c') (d.bounds (key.getD c' 0)).1 (d.bounds (key.getD c' 0)).2 := by
  induction fuel generalizing c with
  | zero => simp [inAll]; intro c' h1 h2; omega
  | succ n ih =>
    simp only [inAll, Bool.and_eq_true, decide_eq_true_eq, ih]
    constructor
    · rintro ⟨h0, hrest⟩ c' h1 h2
      rcases Nat.eq_or_lt_of_le h1 with rfl | hlt
      · exact h0
      · exact hrest c' hlt (by omega)
    · intro hall
      exact ⟨hall c (le_refl _) (by omega), fun c' h1 h2 => hall c' (by omega) (by omega)⟩

/-- **Characterisation of the candidate set**: the live rows whose every coordinate lies in the
    window `_bounds` of the query. -/
theorem mem_liveCandidates (d : VertexDict K V) (dim : ℕ) (orig : ℕ → ℕ → K) (h : WF d dim orig)
    (q : Array K) (hq : q.size = dim) (i : ℕ) :
    i ∈ d.liveCandidates q ↔
      (∃ k, d.keys.getD i none = some k) ∧
      ∀ c, c < dim → (d.bounds (q.getD c 0)).1 ≤ orig i c ∧ orig i c < (d.bounds (q.getD c 0)).2 := by
  unfold liveCandidates
  simp only [List.mem_filter, List.mem_range, Bool.and_eq_true, inAll_iff, hq, Nat.zero_add]
  constructor
  · rintro ⟨hi, hall, hsome⟩
    refine ⟨Option.isSome_iff_exists.1 hsome, ?_⟩
    intro c hc
    obtain ⟨v, hv, h1, h2⟩ := (mem_slice _ (h.sorted c hc) _ _ i).1 (hall c (Nat.zero_le _) hc)
    obtain ⟨_, rfl⟩ := (h.mem c hc i v).1 hv
    exact ⟨h1, h2⟩
  · rintro ⟨⟨k, hk⟩, hall⟩
    have hi : i < d.keys.size := by
      by_contra hc
      simp [Array.getD, hc] at hk
    refine ⟨hi, ?_, by rw [hk]; rfl⟩
    intro c _ hc
    exact (mem_slice _ (h.sorted c hc) _ _ i).2 ⟨orig i c, (h.mem c hc i _).2 ⟨hi, rfl⟩, (hall c hc).1, (hall c hc).2⟩

omit [LinearOrder K] in
theorem bounds_rtol_zero [LinearOrder K] (d : VertexDict K V) (h0 : d.rtol = 0) (x : K) :
    d.bounds x = (x - d.atol, x + d.atol) := by
  unfold bounds
  simp only [h0, add_zero, sub_zero, div_one]
  split_ifs <;> rfl

theorem candidate_ok (d : VertexDict K V) (q : Array K) (c : ℕ) (h : d.candidate q = .ok c) :
    c ∈ d.liveCandidates q ∧ ∀ i ∈ d.liveCandidates q, c ≤ i := by
  unfold candidate at h
  split_ifs at h with h0
  cases hl : d.liveCandidates q with
  | nil =>
    rw [hl] at h
    exact absurd h (by simp [throw, throwThe, MonadExceptOf.throw])
  | cons c' rest =>
    rw [hl] at h
    have hc : c' = c := by simpa [pure, Except.pure] using h
    subst hc
    refine ⟨List.mem_cons_self, ?_⟩
    intro i hi
    -- the list is an ascending filter of `range`
    have hsorted : (d.liveCandidates q).Pairwise (· ≤ ·) := by
      unfold liveCandidates
      exact (List.pairwise_le_range).sublist List.filter_sublist
    rw [hl] at hsorted
    rcases List.mem_cons.1 hi with rfl | hi
    · exact le_refl _
    · exact (List.pairwise_cons.1 hsorted).1 i hi

theorem candidate_none (d : VertexDict K V) (q : Array K) (hq : q.size ≠ 0)
    (h : d.liveCandidates q = []) : d.candidate q = .error .key := by
  unfold candidate
  simp only [hq, if_false, h]
  rfl

theorem candidate_some (d : VertexDict K V) (q : Array K) (hq : q.size ≠ 0) {i : ℕ}
    (h : i ∈ d.liveCandidates q) : ∃ c, d.candidate q = .ok c := by
  unfold candidate
  simp only [hq, if_false]
  cases hl : d.liveCandidates q with
  | nil => rw [hl] at h; cases h
  | cons c _ => exact ⟨c, rfl⟩

/-! ## The window of `_bounds` is `isclose` with the stored value as reference (any `0 ≤ rtol < 1`) -/

section semantic
variable [IsStrictOrderedRing K]

/-- **The tolerance relation of `VertexDict`.**  The stored coordinate `v` is *within the configured
    tolerance* of the query coordinate `x`:  `x − v ≤ atol + rtol·|v|`  and  `v − x < atol + rtol·|v|`
    (`numpy.isclose(x, v, rtol, atol)` with the stored value as the reference, the upper end
    excluded because the code slices `[bisect_left(lo), bisect_left(hi))`).  Not symmetric in
    `x`, `v` for `rtol > 0`. -/
def Within (rtol atol x v : K) : Prop := x - v ≤ atol + rtol * |v| ∧ v - x < atol + rtol * |v|

set_option linter.unusedVariables false in
/-- lower end of the `_bounds` window, semantically (all three sign cases of the code) -/
theorem bounds_lo_iff (d : VertexDict K V) (hr0 : 0 ≤ d.rtol) (hr1 : d.rtol < 1) (ha : 0 ≤ d.atol)
    (x v : K) : (d.bounds x).1 ≤ v ↔ x - v ≤ d.atol + d.rtol * |v| := by
  have hp : 0 < 1 + d.rtol := by linarith
  have hm : 0 < 1 - d.rtol := by linarith
  have e1 : v * (1 + d.rtol) = v + d.rtol * v := by ring
  have e2 : v * (1 - d.rtol) = v - d.rtol * v := by ring
  unfold bounds
  split_ifs with h1 h2
  · simp only
    rw [div_le_iff₀ hp, e1]
    rcases le_total 0 v with hv | hv
    · rw [abs_of_nonneg hv]; constructor <;> intro h <;> linarith
    · rw [abs_of_nonpos hv]
      have : d.rtol * v ≤ 0 := mul_nonpos_of_nonneg_of_nonpos hr0 hv
      have h3 : v ≤ d.rtol * v := by nlinarith
      constructor <;> intro h <;> nlinarith
  · simp only
    rw [div_le_iff₀ hm, e2]
    rcases le_total 0 v with hv | hv
    · rw [abs_of_nonneg hv]
      have : 0 ≤ d.rtol * v := mul_nonneg hr0 hv
      have h3 : d.rtol * v ≤ v := by nlinarith
      constructor <;> intro h <;> nlinarith
    · rw [abs_of_nonpos hv]; constructor <;> intro h <;> linarith
  · simp only
    rw [div_le_iff₀ hm, e2]
    rcases le_total 0 v with hv | hv
    · rw [abs_of_nonneg hv]
      have : 0 ≤ d.rtol * v := mul_nonneg hr0 hv
      have h3 : d.rtol * v ≤ v := by nlinarith
      constructor <;> intro h <;> nlinarith
    · rw [abs_of_nonpos hv]; constructor <;> intro h <;> linarith

set_option linter.unusedVariables false in
/-- upper end of the `_bounds` window, semantically -/
theorem bounds_hi_iff (d : VertexDict K V) (hr0 : 0 ≤ d.rtol) (hr1 : d.rtol < 1) (ha : 0 ≤ d.atol)
    (x v : K) : v < (d.bounds x).2 ↔ v - x < d.atol + d.rtol * |v| := by
  have hp : 0 < 1 + d.rtol := by linarith
  have hm : 0 < 1 - d.rtol := by linarith
  have e1 : v * (1 + d.rtol) = v + d.rtol * v := by ring
  have e2 : v * (1 - d.rtol) = v - d.rtol * v := by ring
  unfold bounds
  split_ifs with h1 h2
  · simp only
    rw [lt_div_iff₀ hm, e2]
    rcases le_total 0 v with hv | hv
    · rw [abs_of_nonneg hv]; constructor <;> intro h <;> linarith
    · rw [abs_of_nonpos hv]
      have : d.rtol * v ≤ 0 := mul_nonpos_of_nonneg_of_nonpos hr0 hv
      have h3 : v ≤ d.rtol * v := by nlinarith
      constructor <;> intro h <;> nlinarith
  · simp only
    rw [lt_div_iff₀ hp, e1]
    rcases le_total 0 v with hv | hv
    · rw [abs_of_nonneg hv]
      have : 0 ≤ d.rtol * v := mul_nonneg hr0 hv
      have h3 : d.rtol * v ≤ v := by nlinarith
      constructor <;> intro h <;> nlinarith
    · rw [abs_of_nonpos hv]; constructor <;> intro h <;> linarith
  · simp only
    rw [lt_div_iff₀ hm, e2]
    rcases le_total 0 v with hv | hv
    · rw [abs_of_nonneg hv]; constructor <;> intro h <;> linarith
    · rw [abs_of_nonpos hv]
      have : d.rtol * v ≤ 0 := mul_nonpos_of_nonneg_of_nonpos hr0 hv
      have h3 : v ≤ d.rtol * v := by nlinarith
      constructor <;> intro h <;> nlinarith

/-- `v ∈ [_bounds(x))  ↔  Within rtol atol x v`, for every sign of `x` and `v`. -/
theorem bounds_within_iff (d : VertexDict K V) (hr0 : 0 ≤ d.rtol) (hr1 : d.rtol < 1) (ha : 0 ≤ d.atol)
    (x v : K) : ((d.bounds x).1 ≤ v ∧ v < (d.bounds x).2) ↔ Within d.rtol d.atol x v := by
  unfold Within
  rw [bounds_lo_iff d hr0 hr1 ha, bounds_hi_iff d hr0 hr1 ha]

omit [IsStrictOrderedRing K] in
/-- a value is within tolerance of itself iff the tolerance at it is positive -/
theorem within_self_iff (rtol atol x : K) : Within rtol atol x x ↔ 0 < atol + rtol * |x| := by
  unfold Within
  rw [sub_self]
  constructor
  · exact fun h => h.2
  · intro h; exact ⟨le_of_lt h, h⟩

/-- **Semantic characterisation of the candidate set** for any `0 ≤ rtol < 1`, `0 ≤ atol`. -/
theorem mem_liveCandidates_within (d : VertexDict K V) (dim : ℕ) (orig : ℕ → ℕ → K)
    (h : WF d dim orig) (hr0 : 0 ≤ d.rtol) (hr1 : d.rtol < 1) (ha : 0 ≤ d.atol)
    (q : Array K) (hq : q.size = dim) (i : ℕ) :
    i ∈ d.liveCandidates q ↔
      ∃ k, d.keys.getD i none = some k ∧
        ∀ c, c < dim → Within d.rtol d.atol (q.getD c 0) (k.getD c 0) := by
  rw [mem_liveCandidates d dim orig h q hq i]
  constructor
  · rintro ⟨⟨k, hk⟩, hall⟩
    refine ⟨k, hk, fun c hc => ?_⟩
    rw [← bounds_within_iff d hr0 hr1 ha, (h.keys i k hk).2 c hc]
    exact hall c hc
  · rintro ⟨k, hk, hall⟩
    refine ⟨⟨k, hk⟩, fun c hc => ?_⟩
    have := (bounds_within_iff d hr0 hr1 ha _ _).2 (hall c hc)
    rw [(h.keys i k hk).2 c hc] at this
    exact this

end semantic

/-! ## `_insert` -/

theorem insert_keys_size (d : VertexDict K V) (q : Array K) (v : V) :
    (d.insert q v).keys.size = d.keys.size + 1 := by
  simp [VertexDict.insert]

theorem insert_keys_new (d : VertexDict K V) (q : Array K) (v : V) :
    (d.insert q v).keys.getD d.keys.size none = some q := by
  simp [VertexDict.insert, Array.getD]

theorem insert_keys_old (d : VertexDict K V) (q : Array K) (v : V) {i : ℕ} (hi : i < d.keys.size) :
    (d.insert q v).keys.getD i none = d.keys.getD i none := by
  have h1 : i < d.keys.size + 1 := by omega
  simp [VertexDict.insert, Array.getD, hi, h1, Array.getElem_push_lt]

theorem insert_values_new (d : VertexDict K V) (q : Array K) (v : V) :
    (d.insert q v).values.getD d.values.size none = some v := by
  simp [VertexDict.insert, Array.getD]

theorem setItem_of_candidate (d : VertexDict K V) (q : Array K) (v : V) {c : ℕ}
    (h : d.candidate q = .ok c) :
    d.setItem q v = .ok { d with values := d.values.setIfInBounds c (some v) } := by
  unfold VertexDict.setItem; rw [h]; rfl

theorem setItem_of_none (d : VertexDict K V) (q : Array K) (v : V)
    (h : d.candidate q = .error .key) : d.setItem q v = .ok (d.insert q v) := by
  unfold VertexDict.setItem; rw [h]; rfl


end Splipy.C20
