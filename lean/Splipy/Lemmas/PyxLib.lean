import Mathlib.Algebra.Order.Field.Basic
import Mathlib.Algebra.Order.Floor.Defs
import Mathlib.Tactic.Ring
import Mathlib.Tactic.Linarith
import Splipy.Model.Basis

/-!
# Support library of the `.pyx` translator (`harness/translate/pyx_translate.py`)

The translator turns the Cython source `splipy/basis_eval.pyx` into Lean definitions that keep the
IMPERATIVE structure of the code (`Splipy/Generated/Pyx.lean`, rewritten on every run):

* every function gets a record `f.St K` with one field per variable the function assigns
  (mutated parameters included); parameters that are never assigned stay Lean parameters;
* an assignment `x = e` is the record update `{ s with x := e }`, an array store `a[i] = e` is
  `{ s with a := aset s.a i e }`, an array load `a[i]` is `aget a i`;
* `for v in range(lo, hi): body` is `forRange lo hi body s` (a left fold over
  `List.range' lo (hi - lo)`; the bounds are evaluated once, before the loop, as in Python and
  Cython); `for j, k in enumerate(range(lo, hi))` is `forEnumRange`;
* `while c: body` is `whileFuel fuel c body s` — the loop run for at most `fuel` iterations; the
  equality theorems say which `fuel` is enough;
* C types: `unsigned int` ↦ `ℕ`, `int` ↦ `ℤ`, `np.float_t` ↦ the field `K`, `bint` ↦ `Bool`,
  `np.float_t[:]` / `np.ndarray[np.float_t, ndim=1]` ↦ `Array K`, `np.int32_t[:]` ↦ `Array ℕ`.

What this file fixes (the trusted reading of the C/Cython primitives):

* `aget a i = a.getD i 0`, `aset a i v = a.setIfInBounds i v`.  The code runs with
  `@cython.boundscheck(False)`: an out-of-bounds access is undefined behaviour in C; here it reads
  `0` / writes nothing.  The equality theorems of `Lemmas/PyxEq.lean` only ever use in-bounds
  accesses (they carry the size hypotheses that make this so).
* unsigned subtraction is truncated subtraction on `ℕ`.  It coincides with C's wrapping
  subtraction exactly when the subtrahend is not larger; the hypotheses `1 ≤ p`, `d < p`,
  `p ≤ mu` of the equality theorems are what makes every subtraction of the code exact.
* `x % y` on floats is Python's modulo `Splipy.pmod`; `abs` is `|·|`; `min` is `min`.
-/

set_option linter.unusedSectionVars false

namespace Splipy.Pyx

section arrays

variable {α : Type}

/-- Array load `a[i]` (reads `0` out of bounds). -/
def aget [Zero α] (a : Array α) (i : ℕ) : α := a.getD i 0

/-- Array store `a[i] = v` (no effect out of bounds). -/
def aset (a : Array α) (i : ℕ) (v : α) : Array α := a.setIfInBounds i v

@[simp] theorem size_aset (a : Array α) (i : ℕ) (v : α) : (aset a i v).size = a.size := by
  simp [aset]

theorem aget_aset [Zero α] (a : Array α) (i j : ℕ) (v : α) :
    aget (aset a i v) j = if j = i ∧ i < a.size then v else aget a j := by
  unfold aget aset
  simp only [Array.getD_eq_getD_getElem?, Array.getElem?_setIfInBounds]
  by_cases hij : i = j
  · subst hij
    by_cases hi : i < a.size
    · simp [hi]
    · simp [hi]
  · have : ¬ (j = i ∧ i < a.size) := fun h => hij h.1.symm
    simp [hij, this]

theorem aget_aset_self [Zero α] (a : Array α) (i : ℕ) (v : α) (h : i < a.size) :
    aget (aset a i v) i = v := by
  rw [aget_aset]; simp [h]

theorem aget_aset_ne [Zero α] (a : Array α) (i j : ℕ) (v : α) (h : j ≠ i) :
    aget (aset a i v) j = aget a j := by
  rw [aget_aset]; simp [h]

theorem aget_of_ge [Zero α] (a : Array α) (i : ℕ) (h : a.size ≤ i) : aget a i = 0 := by
  unfold aget
  simp [Array.getD_eq_getD_getElem?, Array.getElem?_eq_none h]

theorem aget_of_lt [Zero α] (a : Array α) (i : ℕ) (h : i < a.size) : aget a i = a[i] := by
  unfold aget
  simp [Array.getD_eq_getD_getElem?, h]

theorem aget_replicate [Zero α] (n i : ℕ) : aget (Array.replicate n (0 : α)) i = 0 := by
  unfold aget
  by_cases h : i < n
  · simp [Array.getD_eq_getD_getElem?, h]
  · simp [Array.getD_eq_getD_getElem?, h]

theorem aget_ofFn [Zero α] (n : ℕ) (f : Fin n → α) (i : ℕ) (h : i < n) :
    aget (Array.ofFn f) i = f ⟨i, h⟩ := by
  unfold aget
  simp [Array.getD_eq_getD_getElem?, h]

/-- Two arrays of the same size with the same loads are equal. -/
theorem ext_aget [Zero α] (a b : Array α) (hs : a.size = b.size)
    (h : ∀ i, i < a.size → aget a i = aget b i) : a = b := by
  apply Array.ext hs
  intro i h1 h2
  have := h i h1
  rwa [aget_of_lt a i h1, aget_of_lt b i h2] at this

/-- `np.arange(a, b, step)` for a positive step (`dtype=np.int32`, values as `ℕ`). -/
def npArange (a b step : ℕ) : Array ℕ :=
  Array.ofFn (n := (b - a + step - 1) / step) (fun i => a + i.val * step)

end arrays

section tab

variable {K : Type} [Field K]

theorem aget_tab (p : ℕ) (f : ℕ → K) (j : ℕ) : aget (tab p f) j = if j < p then f j else 0 := by
  unfold aget tab
  by_cases h : j < p
  · simp [Array.getD_eq_getD_getElem?, h]
  · simp [Array.getD_eq_getD_getElem?, h]

theorem untab_eq_aget (M : Array K) : untab M = aget M := rfl

theorem size_tab (p : ℕ) (f : ℕ → K) : (tab p f).size = p := by simp [tab]

/-- An array of size `p` is the tabulation of its own loads. -/
theorem eq_tab_of_aget (p : ℕ) (M : Array K) (f : ℕ → K) (hs : M.size = p)
    (h : ∀ j, j < p → aget M j = f j) : M = tab p f := by
  apply ext_aget _ _ (by rw [hs, size_tab])
  intro i hi
  rw [aget_tab, if_pos (by omega)]
  exact h i (by omega)

theorem tab_congr (p : ℕ) (f g : ℕ → K) (h : ∀ j, j < p → f j = g j) : tab p f = tab p g := by
  apply eq_tab_of_aget p _ _ (size_tab p f)
  intro j hj
  rw [aget_tab, if_pos hj, h j hj]

end tab

section loops

variable {σ : Type}

/-- `for v in range(a, b): s = f v s`. -/
def forRange (a b : ℕ) (f : ℕ → σ → σ) (s : σ) : σ :=
  (List.range' a (b - a)).foldl (fun s j => f j s) s

/-- `for j, k in enumerate(range(a, b)): s = f j k s`. -/
def forEnumRange (a b : ℕ) (f : ℕ → ℕ → σ → σ) (s : σ) : σ :=
  (List.range (b - a)).foldl (fun s j => f j (a + j) s) s

/-- `while c(s): s = body s`, run for at most `fuel` iterations. -/
def whileFuel : ℕ → (σ → Bool) → (σ → σ) → σ → σ
  | 0, _, _, s => s
  | n + 1, c, body, s => if c s then whileFuel n c body (body s) else s

theorem forRange_of_le (a b : ℕ) (f : ℕ → σ → σ) (s : σ) (h : b ≤ a) : forRange a b f s = s := by
  unfold forRange
  rw [Nat.sub_eq_zero_of_le h]
  rfl

theorem forRange_succ (a b : ℕ) (f : ℕ → σ → σ) (s : σ) (h : a ≤ b) :
    forRange a (b + 1) f s = f b (forRange a b f s) := by
  unfold forRange
  rw [show b + 1 - a = (b - a) + 1 by omega, List.range'_concat, List.foldl_append]
  simp only [List.foldl_cons, List.foldl_nil, Nat.one_mul]
  rw [show a + (b - a) = b by omega]

/-- Hoare rule for `for v in range(a, b)`: an invariant `P v s` ("before the iteration with
loop value `v` the state is `s`") established at `a`, preserved by the body, holds at `b`. -/
theorem forRange_inv (P : ℕ → σ → Prop) (a b : ℕ) (f : ℕ → σ → σ) (s : σ) (hab : a ≤ b)
    (h0 : P a s) (hstep : ∀ j s, a ≤ j → j < b → P j s → P (j + 1) (f j s)) :
    P b (forRange a b f s) := by
  induction b with
  | zero =>
    have : a = 0 := by omega
    subst this
    rw [forRange_of_le _ _ _ _ (le_refl _)]
    exact h0
  | succ b ih =>
    by_cases h : a = b + 1
    · subst h
      rw [forRange_of_le _ _ _ _ (le_refl _)]
      exact h0
    · have hab' : a ≤ b := by omega
      rw [forRange_succ _ _ _ _ hab']
      exact hstep b _ hab' (by omega)
        (ih hab' (fun j s h1 h2 hp => hstep j s h1 (by omega) hp))

theorem forEnumRange_eq_forRange (a b : ℕ) (f : ℕ → ℕ → σ → σ) (s : σ) :
    forEnumRange a b f s = forRange a b (fun k s => f (k - a) k s) s := by
  unfold forEnumRange forRange
  have hr : List.range' a (b - a) = (List.range' 0 (b - a)).map (a + ·) := by
    rw [List.map_add_range']; rfl
  rw [List.range_eq_range', hr, List.foldl_map]
  congr 1
  funext s j
  simp only [Nat.add_sub_cancel_left]

theorem whileFuel_zero (c : σ → Bool) (body : σ → σ) (s : σ) : whileFuel 0 c body s = s := rfl

theorem whileFuel_succ (n : ℕ) (c : σ → Bool) (body : σ → σ) (s : σ) :
    whileFuel (n + 1) c body s = if c s then whileFuel n c body (body s) else s := rfl

end loops

section sweep

variable {α : Type} [Zero α]

/-- **Loop-to-parallel-map lemma, abstract form.**  An ascending in-place sweep
`for j in range(a, a+n): M[j] = g j M[j] M[j+1]` computes, at every index, `g` of the OLD entries:
when entry `j` is written, entry `j+1` has not been written yet and entries below `j` are never
read again.  (Invariant: after the iterations `a .. a+m-1` the entries in `[a, a+m)` hold the new
value and all the others still hold the old one.) -/
theorem sweep_aget (g : ℕ → α → α → α) (M : Array α) (a n : ℕ) (hn : a + n ≤ M.size) (i : ℕ) :
    aget ((List.range' a n).foldl (fun M j => aset M j (g j (aget M j) (aget M (j + 1)))) M) i
      = if a ≤ i ∧ i < a + n then g i (aget M i) (aget M (i + 1)) else aget M i := by
  induction n generalizing i with
  | zero => simp
  | succ n ih =>
    rw [List.range'_concat, List.foldl_append]
    simp only [List.foldl_cons, List.foldl_nil, Nat.one_mul]
    have hsz : ∀ (l : List ℕ) (M : Array α),
        (l.foldl (fun M j => aset M j (g j (aget M j) (aget M (j + 1)))) M).size = M.size := by
      intro l
      induction l with
      | nil => intro M; rfl
      | cons x l ihl => intro M; simp only [List.foldl_cons]; rw [ihl]; simp
    rw [aget_aset, hsz, ih (by omega) (a + n), ih (by omega) (a + n + 1)]
    by_cases hi : i = a + n
    · subst hi
      rw [if_pos ⟨rfl, by omega⟩, if_neg (by omega), if_neg (by omega), if_pos (by omega)]
    · rw [if_neg (fun h => hi h.1), ih (by omega) i]
      by_cases h2 : a ≤ i ∧ i < a + n
      · rw [if_pos h2, if_pos (by omega)]
      · rw [if_neg h2, if_neg (by omega)]

end sweep

section bisect

variable {K : Type} [Field K] [LinearOrder K]

/-- The model's binary searches only look at `a mid` with `lo ≤ mid < hi`. -/
theorem bisectLeftAux_congr (a a' : ℕ → K) (v : K) (lo hi : ℕ)
    (h : ∀ i, lo ≤ i → i < hi → a i = a' i) :
    bisectLeftAux a v lo hi = bisectLeftAux a' v lo hi := by
  induction hn : hi - lo using Nat.strong_induction_on generalizing lo hi with
  | _ n ih =>
    rw [bisectLeftAux, bisectLeftAux]
    by_cases hlt : lo < hi
    · simp only [hlt, dite_true]
      rw [h ((lo + hi) / 2) (by omega) (by omega)]
      split_ifs
      · exact ih _ (by omega) _ _ (fun i h1 h2 => h i (by omega) h2) rfl
      · exact ih _ (by omega) _ _ (fun i h1 h2 => h i h1 (by omega)) rfl
    · simp only [hlt, dite_false]

theorem bisectRightAux_congr (a a' : ℕ → K) (v : K) (lo hi : ℕ)
    (h : ∀ i, lo ≤ i → i < hi → a i = a' i) :
    bisectRightAux a v lo hi = bisectRightAux a' v lo hi := by
  induction hn : hi - lo using Nat.strong_induction_on generalizing lo hi with
  | _ n ih =>
    rw [bisectRightAux, bisectRightAux]
    by_cases hlt : lo < hi
    · simp only [hlt, dite_true]
      rw [h ((lo + hi) / 2) (by omega) (by omega)]
      split_ifs
      · exact ih _ (by omega) _ _ (fun i h1 h2 => h i h1 (by omega)) rfl
      · exact ih _ (by omega) _ _ (fun i h1 h2 => h i (by omega) h2) rfl
    · simp only [hlt, dite_false]

end bisect

end Splipy.Pyx
