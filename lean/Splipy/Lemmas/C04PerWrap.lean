import Splipy.Lemmas.C04PerSpec

/-!
# C04 helper lemmas, part 10: the insertion matrix when the column index wraps (`μ > n`)

For `n+1 ≤ μ ≤ n+k+1` the middle loop of `insert_knot` runs over `i = μ-p … μ-1` past `n`: the passes
`i = n+e` write column `e` again (rows `(n+e) mod (n+1)` and `e`), overwriting the identity entries
of the first loop; the last loop is empty.
-/

namespace Splipy
namespace C04

set_option linter.unusedSectionVars false

variable {K : Type} [Field K] [LinearOrder K] [IsStrictOrderedRing K]

theorem mod_row1 (n e : ℕ) (he : e ≤ n) : (n + e) % (n + 1) = if e = 0 then n else e - 1 := by
  by_cases h : e = 0
  · subst h; rw [if_pos rfl, Nat.add_zero, Nat.mod_eq_of_lt (by omega)]
  · rw [if_neg h, show n + e = (n + 1) + (e - 1) by omega, Nat.add_mod_left,
      Nat.mod_eq_of_lt (by omega)]

theorem mod_row2 (n e : ℕ) (he : e ≤ n) : (n + e + 1) % (n + 1) = e := by
  rw [show n + e + 1 = (n + 1) + e by omega, Nat.add_mod_left, Nat.mod_eq_of_lt (by omega)]

/-- the wrapped passes `i = n, n+1, …, n+m-1` of the middle loop -/
theorem tail_closed (τ : ℕ → K) (x : K) (n p : ℕ) (F : ℕ → ℕ → K) (m : ℕ) (hm : m ≤ n) (r c : ℕ) :
    ((List.range' n m).foldl (stepF2 τ x n p) F) r c =
      if c < m then
        (if r = c then gs τ x p (n + c)
         else if r = (if c = 0 then n else c - 1) then gd τ x p (n + c) else F r c)
      else F r c := by
  induction m with
  | zero => simp
  | succ m ih =>
    rw [List.range'_concat, List.foldl_append]
    simp only [List.foldl_cons, List.foldl_nil, stepF2, setF, Nat.one_mul]
    rw [mod_row1 n m (by omega), mod_row2 n m (by omega), mod_add_n n m (by omega), ih (by omega)]
    split_ifs <;> first | rfl | (exfalso; omega) | (congr 1; omega)


/-- `matF` before any case analysis, for `n+1 ≤ μ ≤ n+k+1`: first loop, the non-wrapping part of the
    middle loop (`μ-p ≤ i < n`), the wrapped part (`n ≤ i < μ`), empty last loop. -/
theorem matF_wrap_raw (τ : ℕ → K) (x : K) (n p k mu : ℕ) (hp : k + 2 ≤ p) (hguard : p + k ≤ n)
    (h1 : n + 1 ≤ mu) (h2 : mu ≤ n + k + 1) (r c : ℕ) :
    matF τ x n p mu r c =
      if c < mu - n then
        (if r = c then gs τ x p (n + c)
         else if r = (if c = 0 then n else c - 1) then gd τ x p (n + c)
         else (if mu - p ≤ c ∧ c < n ∧ r = c + 1 then gs τ x p c
               else if mu - p ≤ c ∧ c < n ∧ r = c then gd τ x p c
               else if r = c ∧ c < mu - p then 1 else 0))
      else (if mu - p ≤ c ∧ c < n ∧ r = c + 1 then gs τ x p c
            else if mu - p ≤ c ∧ c < n ∧ r = c then gd τ x p c
            else if r = c ∧ c < mu - p then 1 else 0) := by
  unfold matF
  have e3 : n + 1 - mu = 0 := by omega
  have e2 : mu - (mu - p) = (n - (mu - p)) + (mu - n) := by omega
  rw [e3, List.range'_zero, List.foldl_nil, e2, ← List.range'_append_1, List.foldl_append,
    show mu - p + (n - (mu - p)) = n by omega,
    tail_closed τ x n p _ (mu - n) (by omega) r c]
  have hL2 : ∀ r c, ((List.range' (mu - p) (n - (mu - p))).foldl (stepF2 τ x n p)
      ((List.range (mu - p)).foldl (stepF1 n) (fun _ _ => 0))) r c =
      (if mu - p ≤ c ∧ c < n ∧ r = c + 1 then gs τ x p c
       else if mu - p ≤ c ∧ c < n ∧ r = c then gd τ x p c
       else if r = c ∧ c < mu - p then 1 else 0) := by
    intro r c
    rw [loop2_closed τ x n p (mu - p) _ _ (by omega), loop1_closed n _ _ (by omega),
      show mu - p + (n - (mu - p)) = n by omega]
  rw [hL2]


/-- Entry `(r, j)` of the wrapped matrix as a sum of four single-entry patterns, in terms of the
    entries `diagE`/`subE` of the unrolled matrix (`ν = μ - n` columns are written by the passes
    `i = n+j`, the others by the pass `i = j`). -/
def wrapRow (τ : ℕ → K) (x : K) (n p mu : ℕ) (r j : ℕ) : K :=
  (if j = r then (if r < mu - n then subE τ x p mu (n + r) else diagE τ x p mu r) else 0)
  + (if j = r + 1 ∧ j < mu - n then diagE τ x p mu (n + j) else 0)
  + (if j + 1 = r ∧ mu - n ≤ j then subE τ x p mu j else 0)
  + (if j = 0 ∧ r = n then diagE τ x p mu n else 0)

theorem matF_wrap (τ : ℕ → K) (x : K) (n p k mu : ℕ) (hp : k + 2 ≤ p) (hguard : p + k ≤ n)
    (h1 : n + 1 ≤ mu) (h2 : mu ≤ n + k + 1) (r j : ℕ) (hr : r < n + 1) (hj : j < n) :
    matF τ x n p mu r j = wrapRow τ x n p mu r j := by
  rw [matF_wrap_raw τ x n p k mu hp hguard h1 h2 r j]
  unfold wrapRow
  by_cases hA : j < mu - n
  · -- column rewritten by the wrapped pass i = n + j
    have d1 : diagE τ x p mu (n + j) = gd τ x p (n + j) := by
      unfold diagE; rw [if_neg (by omega), if_pos (by omega)]
    have d0 : diagE τ x p mu n = gd τ x p n := by
      unfold diagE; rw [if_neg (by omega), if_pos (by omega)]
    have s1 : ∀ r, r = j → subE τ x p mu (n + r) = gs τ x p (n + j) := by
      intro r hr; subst hr
      unfold subE; rw [if_neg (by omega), if_pos (by omega)]
    have nA1 : ¬ (mu - p ≤ j) := by omega
    have nA2 : ¬ (mu - n ≤ j) := by omega
    have nA3 : j < mu - p := by omega
    simp only [hA, nA1, nA2, nA3, d1, d0, false_and, and_false, and_true, ↓reduceIte, add_zero]
    split_ifs with c1 c2 c3 c4 c5 c6 c7 <;>
      first
        | rfl
        | (exfalso; omega)
        | (simp only [add_zero, zero_add]; done)
        | (simp only [add_zero, zero_add]; rfl)
        | (simp only [add_zero, zero_add]; rw [s1 _ (by omega)])
        | (rw [s1 _ (by omega)])
        | (subst_vars; simp only [Nat.add_zero, add_zero, zero_add]; done)
        | (exfalso; simp_all; done)
  · have nB1 : ¬ (j = r + 1 ∧ j < mu - n) := by omega
    have nB2 : ¬ (j = 0 ∧ r = n) := by omega
    simp only [hA, nB2, and_false, ↓reduceIte, add_zero]
    by_cases hB : j + p < mu
    · -- identity column
      have nC1 : ¬ (mu - p ≤ j) := by omega
      have nC2 : j < mu - p := by omega
      simp only [subE_lo hB, nC1, nC2, false_and, and_true, ↓reduceIte, ite_self, add_zero]
      split_ifs with c1 c2 c3 <;>
        first
          | rfl
          | (exfalso; omega)
          | (simp only [add_zero, zero_add]; done)
          | (subst_vars; simp only [add_zero, zero_add, diagE_lo hB]; done)
          | (subst_vars; rw [diagE_lo hB])
          | (exfalso; simp_all; done)
    · -- column written by the non-wrapping pass i = j
      have d1 : ∀ r, r = j → diagE τ x p mu r = gd τ x p j := by
        intro r hr; subst hr
        unfold diagE; rw [if_neg hB, if_pos (by omega)]
      have s1 : subE τ x p mu j = gs τ x p j := by
        unfold subE; rw [if_neg hB, if_pos (by omega)]
      have nD1 : mu - p ≤ j := by omega
      have nD2 : ¬ (j < mu - p) := by omega
      have nD3 : mu - n ≤ j := by omega
      simp only [s1, nD1, nD2, nD3, hj, true_and, and_true, and_false, ↓reduceIte]
      split_ifs with c1 c2 c3 c4 c5 <;>
        first
          | rfl
          | (exfalso; omega)
          | (simp only [add_zero, zero_add]; done)
          | (simp only [add_zero, zero_add]; rfl)
          | (simp only [add_zero, zero_add]; rw [d1 _ (by omega)])
          | (rw [d1 _ (by omega)])
          | (exfalso; simp_all; done)


/-- Row `ρ` of the wrapped matrix applied to `c`. -/
theorem mulVecF_wrapRow (τ : ℕ → K) (x : K) (n p mu : ℕ) (c : ℕ → K) (ρ : ℕ) :
    mulVecF (wrapRow τ x n p mu) n c ρ =
      (if ρ < n then (if ρ < mu - n then subE τ x p mu (n + ρ) else diagE τ x p mu ρ) * c ρ else 0)
      + (if ρ + 1 < n ∧ ρ + 1 < mu - n then diagE τ x p mu (n + (ρ + 1)) * c (ρ + 1) else 0)
      + (if ρ - 1 < n ∧ 1 ≤ ρ ∧ mu - n ≤ ρ - 1 then subE τ x p mu (ρ - 1) * c (ρ - 1) else 0)
      + (if 0 < n ∧ ρ = n then diagE τ x p mu n * c 0 else 0) := by
  unfold mulVecF wrapRow
  have e1 : ∀ j, (if j = ρ then (if ρ < mu - n then subE τ x p mu (n + ρ) else diagE τ x p mu ρ) else 0) * c j
      = if j = ρ then (if ρ < mu - n then subE τ x p mu (n + ρ) else diagE τ x p mu ρ) * c j else 0 := by
    intro j; split_ifs <;> simp
  have e2 : ∀ j, (if j = ρ + 1 ∧ j < mu - n then diagE τ x p mu (n + j) else 0) * c j
      = if j = ρ + 1 then (if j < mu - n then diagE τ x p mu (n + j) * c j else 0) else 0 := by
    intro j; split_ifs <;> first | rfl | (exfalso; omega) | (simp; done)
  have e3 : ∀ j, (if j + 1 = ρ ∧ mu - n ≤ j then subE τ x p mu j else 0) * c j
      = if j = ρ - 1 then (if 1 ≤ ρ ∧ mu - n ≤ j then subE τ x p mu j * c j else 0) else 0 := by
    intro j; split_ifs <;> first | rfl | (exfalso; omega) | (simp; done)
  have e4 : ∀ j, (if j = 0 ∧ ρ = n then diagE τ x p mu n else 0) * c j
      = if j = 0 then (if ρ = n then diagE τ x p mu n * c j else 0) else 0 := by
    intro j; split_ifs <;> first | rfl | (exfalso; omega) | (simp; done)
  simp only [add_mul, e1, e2, e3, e4]
  rw [Finset.sum_add_distrib, Finset.sum_add_distrib, Finset.sum_add_distrib,
    Finset.sum_ite_eq' (Finset.range n) ρ, Finset.sum_ite_eq' (Finset.range n) (ρ + 1),
    Finset.sum_ite_eq' (Finset.range n) (ρ - 1), Finset.sum_ite_eq' (Finset.range n) 0]
  simp only [Finset.mem_range]
  congr 1
  · congr 1
    · congr 1
      split_ifs <;> first | rfl | (exfalso; omega) | (simp; done)
    · split_ifs <;> first | rfl | (exfalso; omega) | (simp; done)
  · split_ifs <;> first | rfl | (exfalso; omega) | (simp; done)

end C04
end Splipy
