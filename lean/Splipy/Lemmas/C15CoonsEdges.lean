import Splipy.Lemmas.C15CoonsModel

/-!
# Stage 2 for `Obj.coonsPatch`: the four edges of the result

Evaluation of the three intermediate surfaces (`ruledObj`, its swap, the corner surface) in terms of
the curves / corner points they were built from, the end-point values of curves of the family, and
the restriction of `S1 + S2 - S3` to the four edges of the unit square.
-/

set_option linter.unusedSectionVars false

namespace Splipy
namespace C15

open C06 C12 Obj Basis Finset

variable {K : Type} [Field K] [LinearOrder K] [IsStrictOrderedRing K] [FloorRing K]

/-! ## Surfaces: the defining sum as a double sum over flat positions -/

theorem getIdx_surface (t : Tensor K) (n0 n1 nc : ℕ) (hs : t.shape = [n0, n1, nc]) (I : Fin 2 → ℕ) (comp : ℕ) :
    getIdx t (midx I comp) = t.get ((I 0 * n1 + I 1) * nc + comp) := by
  unfold getIdx midx
  rw [hs]
  simp [flatIdx, Tensor.prod, List.ofFn_succ]
  ring_nf

theorem surface_shape {o : Obj K} (hw : C06.WF o 2) :
    o.cps.shape = [(o.basis 0).numFunctions, (o.basis 1).numFunctions, o.ncomp] := by
  rw [hw.shape]; simp [midx, List.ofFn_succ]

/-- The defining sum of a component of a non-periodic surface, as a double sum. -/
theorem toTP_eval_surface {o : Obj K} (hw : C06.WF o 2) (h0 : (o.basis 0).periodic = -1)
    (h1 : (o.basis 1).periodic = -1) (comp : ℕ) (s : Fin 2 → Side) (u : Fin 2 → K) :
    (toTP o 2 comp).eval s u
      = ∑ i ∈ range (o.basis 0).numFunctions, ∑ j ∈ range (o.basis 1).numFunctions,
          o.cps.get ((i * (o.basis 1).numFunctions + j) * o.ncomp + comp)
            * (B (s 0) (o.basis 0).kn ((o.basis 0).order - 1) i (u 0)
              * B (s 1) (o.basis 1).kn ((o.basis 1).order - 1) j (u 1)) := by
  rw [TP.eval_eq, ← Finset.sum_product']
  have v0 : (o.basis 0).Valid := hw.valid 0
  have v1 : (o.basis 1).Valid := hw.valid 1
  have hn0 : (o.basis 0).nAll = (o.basis 0).numFunctions := by
    rw [valid_nAll_eq v0, h0]; simp
  have hn1 : (o.basis 1).nAll = (o.basis 1).numFunctions := by
    rw [valid_nAll_eq v1, h1]; simp
  have hshape := surface_shape hw
  have hmem : ∀ I : Fin 2 → ℕ, I ∈ Fintype.piFinset (fun d : Fin 2 => range ((toTP o 2 comp).nAll d)) →
      I 0 < (o.basis 0).numFunctions ∧ I 1 < (o.basis 1).numFunctions := by
    intro I hI
    have a0 := (Fintype.mem_piFinset.mp hI) 0
    have a1 := (Fintype.mem_piFinset.mp hI) 1
    have b0 : I 0 ∈ range (o.basis 0).nAll := a0
    have b1 : I 1 ∈ range (o.basis 1).nAll := a1
    rw [hn0] at b0; rw [hn1] at b1
    exact ⟨mem_range.mp b0, mem_range.mp b1⟩
  refine Finset.sum_bij' (fun I _ => (I 0, I 1)) (fun p _ => ![p.1, p.2]) ?_ ?_ ?_ ?_ ?_
  · intro I hI
    obtain ⟨a, b⟩ := hmem I hI
    exact mem_product.mpr ⟨mem_range.mpr a, mem_range.mpr b⟩
  · intro p hp
    obtain ⟨a, b⟩ := mem_product.mp hp
    rw [Fintype.mem_piFinset]
    intro d
    rcases d with ⟨d, hd⟩
    interval_cases d
    · show p.1 ∈ range (o.basis 0).nAll
      rw [hn0]; exact a
    · show p.2 ∈ range (o.basis 1).nAll
      rw [hn1]; exact b
  · intro I _
    funext d
    rcases d with ⟨d, hd⟩
    interval_cases d <;> rfl
  · intro p _; rfl
  · intro I hI
    obtain ⟨a, b⟩ := hmem I hI
    rw [Fin.prod_univ_two]
    show getIdx o.cps (midx (fun d : Fin 2 => I d % (o.basis (d : ℕ)).numFunctions) comp)
        * (B (s 0) (o.basis 0).kn ((o.basis 0).order - 1) (I 0) (u 0)
          * B (s 1) (o.basis 1).kn ((o.basis 1).order - 1) (I 1) (u 1)) = _
    rw [getIdx_surface o.cps _ _ _ hshape]
    show o.cps.get ((I 0 % (o.basis 0).numFunctions * (o.basis 1).numFunctions
        + I 1 % (o.basis 1).numFunctions) * o.ncomp + comp) * _ = _
    rw [Nat.mod_eq_of_lt a, Nat.mod_eq_of_lt b]

/-- The component map of an open curve as a plain sum. -/
theorem toTP_eval_curve_sum {o : Obj K} (hw : C06.WF o 1) (hper : (o.basis 0).periodic = -1) (comp : ℕ)
    (s : Side) (t : K) :
    (toTP o 1 comp).eval (fun _ => s) (fun _ => t)
      = ∑ i ∈ range (o.basis 0).numFunctions,
          o.cps.get (i * o.ncomp + comp) * B s (o.basis 0).kn ((o.basis 0).order - 1) i t := by
  rw [toTP_eval_curve hw hper]
  rfl

/-! ## The ruled surface: linear blend of its two curves -/

/-- Flat entries of the stacked control array. -/
theorem stack2_get (a b : Tensor K) (n nc : ℕ) (hs : a.shape = [n, nc]) (hsb : b.shape = [n, nc])
    (i j c : ℕ) (hi : i < n) (hj : j < 2) (hc : c < nc) :
    (Obj.stack2 a b).get ((i * 2 + j) * nc + c) = (if j = 0 then a else b).get (i * nc + c) := by
  have h := Tensor.stack2_getIdx a b [n] nc hs hsb [i] j c
    (List.Forall₂.cons hi List.Forall₂.nil) hj hc
  have hsh := Tensor.stack2_shape a b [n] nc hs
  unfold Tensor.getIdx at h
  rw [hsh] at h
  have e1 : Tensor.ravel ([n] ++ [2, nc]) ([i] ++ [j, c]) = (i * 2 + j) * nc + c := by
    simp [Tensor.ravel, Tensor.prod]; ring
  rw [e1] at h
  rw [h]
  split_ifs
  · rw [hs]; simp [Tensor.ravel, Tensor.prod]
  · rw [hsb]; simp [Tensor.ravel, Tensor.prod]

/-- **The ruled surface between two curves on the same basis is their linear blend**: with
    `β_j = B (sd 1) linearBasis.kn 1 j (u 1)`, `S(u) = β_0 · r1(u 0) + β_1 · r2(u 0)` in every component,
    for any parameters and sides. -/
theorem ruledObj_eval (r1 r2 : Obj K) (hw1 : C06.WF r1 1) (hw2 : C06.WF r2 1)
    (hper : (r1.basis 0).periodic = -1) (hb : r2.basis 0 = r1.basis 0) (hsh : r2.cps.shape = r1.cps.shape)
    (comp : ℕ) (hc : comp < r1.ncomp) (sd : Fin 2 → Side) (u : Fin 2 → K) :
    (toTP (ruledObj r1 r2) 2 comp).eval sd u
      = B (sd 1) (linearBasis : Basis K).kn 1 0 (u 1) * (toTP r1 1 comp).eval (fun _ => sd 0) (fun _ => u 0)
        + B (sd 1) (linearBasis : Basis K).kn 1 1 (u 1) * (toTP r2 1 comp).eval (fun _ => sd 0) (fun _ => u 0) := by
  obtain ⟨hw, hn⟩ := ruledObj_wf r1 r2 hw1 hsh
  have hb0 := ruledObj_basis0 r1 r2 hw1.size
  have hb1 := ruledObj_basis1 r1 r2 hw1.size
  have hs1 := curve_shape hw1
  have hs2 : r2.cps.shape = [(r1.basis 0).numFunctions, r1.ncomp] := hsh.trans hs1
  have hn2 : r2.ncomp = r1.ncomp := by
    unfold Obj.ncomp; rw [hsh]
  rw [toTP_eval_surface hw (by rw [hb0]; exact hper) (by rw [hb1]; rfl), hb0, hb1, hn, linearBasis_numFunctions,
    toTP_eval_curve_sum hw1 hper, toTP_eval_curve_sum hw2 (by rw [hb]; exact hper), hb, hn2,
    Finset.mul_sum, Finset.mul_sum, ← Finset.sum_add_distrib]
  apply Finset.sum_congr rfl
  intro i hi
  have hi' := mem_range.mp hi
  rw [Finset.sum_range_succ, Finset.sum_range_one]
  have e0 := stack2_get r1.cps r2.cps _ _ hs1 hs2 i 0 comp hi' (by norm_num) hc
  have e1 := stack2_get r1.cps r2.cps _ _ hs1 hs2 i 1 comp hi' (by norm_num) hc
  simp only [if_true, one_ne_zero, if_false, add_zero] at e0 e1
  show (Obj.stack2 r1.cps r2.cps).get ((i * 2 + 0) * r1.ncomp + comp) * _
      + (Obj.stack2 r1.cps r2.cps).get ((i * 2 + 1) * r1.ncomp + comp) * _ = _
  rw [add_zero, e0, e1]
  show _ * (_ * B (sd 1) (linearBasis : Basis K).kn 1 0 (u 1)) + _ * (_ * B (sd 1) (linearBasis : Basis K).kn 1 1 (u 1)) = _
  ring

/-- **`swap` exchanges the roles of the two parameters.** -/
theorem swap_eval {o : Obj K} (hw : C06.WF o 2) (comp : ℕ) (hc : comp < o.ncomp) (sd : Fin 2 → Side)
    (u : Fin 2 → K) :
    (toTP (o.swap 0 1) 2 comp).eval sd u
      = (toTP o 2 comp).eval (fun d => sd (Equiv.swap (0 : Fin 2) 1 d)) (fun d => u (Equiv.swap (0 : Fin 2) 1 d)) := by
  have hag : TP.Agree (toTP (o.swap 0 1) 2 comp) ((toTP o 2 comp).perm (Equiv.swap (0 : Fin 2) 1)) :=
    toTP_swap hw (0 : Fin 2) 1 comp hc
  have hwS : C06.WF (o.swap 0 1) 2 := (wf_swap hw (0 : Fin 2) 1).1
  have hpos : (toTP (o.swap 0 1) 2 comp).Pos := fun k => valid_numFunctions_pos (hwS.valid k)
  rw [hag.eval hpos]
  have h := TP.evalD_perm (toTP o 2 comp) (Equiv.swap (0 : Fin 2) 1)
    (fun d => sd (Equiv.swap (0 : Fin 2) 1 d)) (fun _ => 0) (fun d => u (Equiv.swap (0 : Fin 2) 1 d))
  simp only [Equiv.swap_apply_self] at h
  exact h

/-! ## Bases clamped at both ends: the end values of the B-splines -/

/-- A non-periodic basis with order-fold end knots and a non-degenerate first / last span. -/
structure EndsClamped (b : Basis K) : Prop where
  mono : Monotone b.kn
  qn : b.order ≤ b.numFunctions
  pos : 1 ≤ b.order
  lo : b.kn 0 = b.kn (b.order - 1)
  lo_lt : b.kn (b.order - 1) < b.kn (b.order - 1 + 1)
  hi : b.kn b.numFunctions = b.kn (b.numFunctions + (b.order - 1))
  hi_lt : b.kn (b.numFunctions - 1) < b.kn b.numFunctions

theorem EndsClamped.B_lo {b : Basis K} (h : EndsClamped b) (j : ℕ) :
    B .right b.kn (b.order - 1) j (b.kn (b.order - 1)) = if j = 0 then 1 else 0 := by
  have h1 := B_clamped_start b.kn h.mono (b.order - 1) h.lo h.lo_lt
  split_ifs with hj
  · rw [hj]; exact h1
  · exact c15_B_eq_zero_of_one .right b.kn h.mono (b.order - 1) (b.order - 1) 0 _ (le_refl _)
      ⟨le_refl _, h.lo_lt⟩ (Nat.zero_le _) h1 j hj

theorem EndsClamped.B_hi {b : Basis K} (h : EndsClamped b) (j : ℕ) :
    B .left b.kn (b.order - 1) j (b.kn b.numFunctions) = if j = b.numFunctions - 1 then 1 else 0 := by
  have hq := h.qn
  have hp := h.pos
  have h1 := B_clamped_end b.kn h.mono (b.order - 1) b.numFunctions h.hi h.hi_lt (by omega)
  have hmem : Side.left.mem (b.kn (b.numFunctions - 1)) (b.kn (b.numFunctions - 1 + 1)) (b.kn b.numFunctions) := by
    have e : b.numFunctions - 1 + 1 = b.numFunctions := by omega
    rw [e]; exact ⟨h.hi_lt, le_refl _⟩
  split_ifs with hj
  · rw [hj]; exact h1
  · exact c15_B_eq_zero_of_one .left b.kn h.mono (b.order - 1) (b.numFunctions - 1) (b.numFunctions - 1) _
      (by omega) hmem (le_refl _) h1 j hj

/-- The bases of the family are clamped at `0` and `1` (multiplicity `0` = value absent allowed). -/
theorem endsClamped_unit {tol : K} (htol : 0 < tol) {p : ℕ} {U : List K} {M : List ℕ} (hp : 2 ≤ p)
    (hlen' : M.length = U.length) (hsep : Splipy.Separated tol (clampedU 0 1 U)) :
    EndsClamped (unitBasis p U M) ∧ (unitBasis p U M).kn ((unitBasis p U M).order - 1) = 0
      ∧ (unitBasis p U M).kn (unitBasis p U M).numFunctions = 1 := by
  obtain ⟨h01, hU⟩ := separated_ends tol 0 1 U hsep
  set l : List K := (List.replicate p 0 ++ expand U M) ++ List.replicate p 1 with hl
  have hk : (unitBasis p U M).knots = l.toArray := by
    show (expand _ _).toArray = _
    rw [expand_clamped p 0 1 U M hlen'.symm]
  have hord : (unitBasis p U M).order = p := rfl
  have hlen : l.length = p + (expand U M).length + p := by simp [hl]; omega
  have hnf : (unitBasis p U M).numFunctions = p + (expand U M).length := by
    unfold Basis.numFunctions
    rw [hk, hord]
    show l.toArray.size - p - ((-1 : Int) + 1).toNat = _
    simp [hlen]
  have hmono : Monotone (unitBasis p U M).kn := by
    apply kn_mono_of_sorted _ _ rfl
    exact expand_sorted tol (le_of_lt htol) _ _ hsep
  have kn_lo : ∀ i, i < p → (unitBasis p U M).kn i = 0 := by
    intro i hi
    rw [kn_of_lt_list _ l hk (by omega)]
    simp only [hl]
    rw [List.getElem_append_left (by simp; omega), List.getElem_append_left (by simp; omega)]
    simp
  have kn_hi : ∀ i, p + (expand U M).length ≤ i → i < p + (expand U M).length + p →
      (unitBasis p U M).kn i = 1 := by
    intro i hi hi2
    rw [kn_of_lt_list _ l hk (by omega)]
    simp only [hl]
    rw [List.getElem_append_right (by simp; omega)]
    simp
  have kn_pos : 0 < (unitBasis p U M).kn p := by
    rw [kn_of_lt_list _ l hk (by omega)]
    have hl2 : l = List.replicate p 0 ++ (expand U M ++ List.replicate p 1) := by simp [hl]
    have hmem : l[p]'(by omega) ∈ expand U M ++ List.replicate p 1 := by
      simp only [hl2]
      rw [List.getElem_append_right (by simp)]
      exact List.getElem_mem _
    rcases List.mem_append.mp hmem with hm | hm
    · have := (hU _ (mem_expand U M _ hm)).1
      linarith
    · rw [List.eq_of_mem_replicate hm]; exact zero_lt_one
  have kn_lt : (unitBasis p U M).kn (p + (expand U M).length - 1) < 1 := by
    rw [kn_of_lt_list _ l hk (by omega)]
    have hmem : l[p + (expand U M).length - 1]'(by omega) ∈ List.replicate p 0 ++ expand U M := by
      simp only [hl]
      rw [List.getElem_append_left (by simp; omega)]
      exact List.getElem_mem _
    rcases List.mem_append.mp hmem with hm | hm
    · rw [List.eq_of_mem_replicate hm]; exact zero_lt_one
    · have := (hU _ (mem_expand U M _ hm)).2
      linarith
  have e1 : p - 1 + 1 = p := by omega
  refine ⟨⟨hmono, by rw [hord, hnf]; omega, by rw [hord]; omega, ?_, ?_, ?_, ?_⟩, ?_, ?_⟩
  · rw [hord, kn_lo 0 (by omega), kn_lo (p - 1) (by omega)]
  · rw [hord, e1, kn_lo (p - 1) (by omega)]; exact kn_pos
  · rw [hord, hnf, kn_hi _ (le_refl _) (by omega), kn_hi _ (by omega) (by omega)]
  · rw [hnf, kn_hi _ (le_refl _) (by omega)]; exact kn_lt
  · rw [hord]; exact kn_lo _ (by omega)
  · rw [hnf]; exact kn_hi _ (le_refl _) (by omega)

theorem UnitKnots.endsClamped {tol : K} (htol : 0 < tol) {p : ℕ} {U : List K} {M : List ℕ}
    (h : UnitKnots tol p U M) :
    EndsClamped (unitBasis p U M) ∧ (unitBasis p U M).kn ((unitBasis p U M).order - 1) = 0
      ∧ (unitBasis p U M).kn (unitBasis p U M).numFunctions = 1 :=
  endsClamped_unit htol h.hp h.hlen (h.sep htol)

/-! ## End values of curves, edges of surfaces -/

theorem curve_eval_at {c : Obj K} (hw : C06.WF c 1) (hper : (c.basis 0).periodic = -1) (comp : ℕ)
    (sd : Side) (x : K) (k : ℕ) (hk : k < (c.basis 0).numFunctions)
    (hδ : ∀ j, j < (c.basis 0).numFunctions →
      B sd (c.basis 0).kn ((c.basis 0).order - 1) j x = if j = k then 1 else 0) :
    (toTP c 1 comp).eval (fun _ => sd) (fun _ => x) = c.cps.get (k * c.ncomp + comp) := by
  rw [toTP_eval_curve_sum hw hper, Finset.sum_eq_single k]
  · rw [hδ k hk, if_pos rfl, mul_one]
  · intro j hj hjk
    rw [hδ j (mem_range.mp hj), if_neg hjk, mul_zero]
  · intro h; exact absurd (mem_range.mpr hk) h

/-- Edge of a surface in the second direction (at a parameter where one B-spline of that
    direction equals one). -/
theorem surface_eval_v_at {s : Obj K} (hw : C06.WF s 2) (h0 : (s.basis 0).periodic = -1)
    (h1 : (s.basis 1).periodic = -1) (comp : ℕ) (sd : Fin 2 → Side) (u : Fin 2 → K) (k : ℕ)
    (hk : k < (s.basis 1).numFunctions)
    (hδ : ∀ j, j < (s.basis 1).numFunctions →
      B (sd 1) (s.basis 1).kn ((s.basis 1).order - 1) j (u 1) = if j = k then 1 else 0) :
    (toTP s 2 comp).eval sd u
      = ∑ i ∈ range (s.basis 0).numFunctions,
          s.cps.get ((i * (s.basis 1).numFunctions + k) * s.ncomp + comp)
            * B (sd 0) (s.basis 0).kn ((s.basis 0).order - 1) i (u 0) := by
  rw [toTP_eval_surface hw h0 h1]
  apply Finset.sum_congr rfl
  intro i _
  rw [Finset.sum_eq_single k]
  · rw [hδ k hk, if_pos rfl, mul_one]
  · intro j hj hjk
    rw [hδ j (mem_range.mp hj), if_neg hjk, mul_zero, mul_zero]
  · intro h; exact absurd (mem_range.mpr hk) h

/-- Edge of a surface in the first direction. -/
theorem surface_eval_u_at {s : Obj K} (hw : C06.WF s 2) (h0 : (s.basis 0).periodic = -1)
    (h1 : (s.basis 1).periodic = -1) (comp : ℕ) (sd : Fin 2 → Side) (u : Fin 2 → K) (k : ℕ)
    (hk : k < (s.basis 0).numFunctions)
    (hδ : ∀ i, i < (s.basis 0).numFunctions →
      B (sd 0) (s.basis 0).kn ((s.basis 0).order - 1) i (u 0) = if i = k then 1 else 0) :
    (toTP s 2 comp).eval sd u
      = ∑ j ∈ range (s.basis 1).numFunctions,
          s.cps.get ((k * (s.basis 1).numFunctions + j) * s.ncomp + comp)
            * B (sd 1) (s.basis 1).kn ((s.basis 1).order - 1) j (u 1) := by
  rw [toTP_eval_surface hw h0 h1, Finset.sum_eq_single k]
  · apply Finset.sum_congr rfl
    intro j _
    rw [hδ k hk, if_pos rfl, one_mul]
  · intro i hi hik
    apply Finset.sum_eq_zero
    intro j _
    rw [hδ i (mem_range.mp hi), if_neg hik, zero_mul, mul_zero]
  · intro h; exact absurd (mem_range.mpr hk) h

/-! ## The corner surface -/

theorem unravel3 (n0 n1 n2 i j k : ℕ) (hj : j < n1) (hk : k < n2) :
    Tensor.unravel [n0, n1, n2] ((i * n1 + j) * n2 + k) = [i, j, k] := by
  have hpos1 : 0 < n1 := by omega
  have hpos2 : 0 < n2 := by omega
  have e : (i * n1 + j) * n2 + k = (n1 * n2) * i + (j * n2 + k) := by ring
  have hlt : j * n2 + k < n1 * n2 := by
    calc j * n2 + k < j * n2 + n2 := by omega
      _ = (j + 1) * n2 := by ring
      _ ≤ n1 * n2 := Nat.mul_le_mul_right _ hj
  have p1 : Tensor.prod [n1, n2] = n1 * n2 := by simp [Tensor.prod]
  have p2 : Tensor.prod [n2] = n2 := by simp [Tensor.prod]
  have p3 : Tensor.prod ([] : List ℕ) = 1 := by simp [Tensor.prod]
  simp only [Tensor.unravel, p1, p2, p3]
  rw [e, Nat.mul_add_div (Nat.mul_pos hpos1 hpos2), Nat.div_eq_of_lt hlt, Nat.mul_add_mod,
    Nat.mod_eq_of_lt hlt]
  have e2 : j * n2 + k = n2 * j + k := by ring
  rw [e2, Nat.mul_add_div hpos2, Nat.div_eq_of_lt hk, Nat.mul_add_mod, Nat.mod_eq_of_lt hk]
  simp

/-- Entries of the corner surface: `[i, j]` is the corner `i + 2j` (the F-order of
    `Surface(linear, linear, [c00, c10, c01, c11])`). -/
theorem fromCorners2_get (a b c e : Array K) (d : ℕ) (ha : a.size = d) (hb : b.size = d) (hc : c.size = d)
    (he : e.size = d) (rat : Bool) (s3 : Obj K) (h : Obj.fromCorners 2 [a, b, c, e] rat = .ok s3)
    (i j k : ℕ) (hi : i < 2) (hj : j < 2) (hk : k < d) :
    s3.cps.get ((i * 2 + j) * d + k) = (([a, b, c, e] : List (Array K)).getD (i + 2 * j) #[]).getD k 0 := by
  unfold Obj.fromCorners at h
  have hany : ([a, b, c, e].any fun r => decide (r.size ≠ (([a, b, c, e] : List (Array K)).headD #[]).size)) = false := by
    simp [ha, hb, hc, he]
  simp only [hany, Bool.false_eq_true, if_false] at h
  injection h with h
  subst h
  have hd : (([a, b, c, e] : List (Array K)).headD #[]).size = d := ha
  have hlt : (i * 2 + j) * d + k < Tensor.prod (List.replicate 2 2 ++ [d]) := by
    have : Tensor.prod (List.replicate 2 2 ++ [d]) = 4 * d := by simp [Tensor.prod, List.replicate]
    rw [this]
    interval_cases i <;> interval_cases j <;> omega
  simp only [hd]
  unfold Tensor.get Tensor.tabulate
  simp only []
  rw [Tensor.getD_ofFn _ hlt]
  simp only []
  have hu : Tensor.unravel (List.replicate 2 2 ++ [d]) ((i * 2 + j) * d + k) = [i, j, k] :=
    unravel3 2 2 d i j k hj hk
  rw [hu]
  interval_cases i <;> interval_cases j <;> simp [List.range_succ]

/-! ## The linear blending weights and the end control points -/

/-- The two B-splines of `BSplineBasis(2)`: `β s 0 x = 1 - x`, `β s 1 x = x` on `[0,1]`. -/
def beta (s : Side) (j : ℕ) (x : K) : K := B s (linearBasis : Basis K).kn 1 j x

theorem linear_endsClamped : EndsClamped (linearBasis : Basis K)
    ∧ (linearBasis : Basis K).kn ((linearBasis : Basis K).order - 1) = 0
    ∧ (linearBasis : Basis K).kn (linearBasis : Basis K).numFunctions = 1 := by
  have h := (linear_unitKnots (K := K) (tol := 1/4) (by norm_num)).endsClamped (by norm_num)
  rw [← linearBasis_unit] at h
  exact h

theorem beta_lo (j : ℕ) : beta (K := K) .right j 0 = if j = 0 then 1 else 0 := by
  obtain ⟨h, h0, _⟩ := linear_endsClamped (K := K)
  have := h.B_lo j
  rw [h0] at this
  exact this

theorem beta_hi (j : ℕ) : beta (K := K) .left j 1 = if j = 1 then 1 else 0 := by
  obtain ⟨h, _, h1⟩ := linear_endsClamped (K := K)
  have := h.B_hi j
  rw [h1, linearBasis_numFunctions] at this
  exact this

theorem cpRow_first_get (c : Obj K) (n nc : ℕ) (h : CurveLike c n nc) (comp : ℕ) (hc : comp < nc) :
    (Obj.cpRow c 0).getD comp 0 = c.cps.get (0 * nc + comp) := by
  rw [cpRow_first c n nc h]
  unfold Tensor.get
  have hn := h.pos
  have : nc ≤ n * nc := Nat.le_mul_of_pos_left nc hn
  have hsz := h.size
  simp only [Array.getD_eq_getD_getElem?, Array.getElem?_extract]
  rw [if_pos (by rw [hsz]; simp; omega)]
  simp

theorem cpRow_last_get (c : Obj K) (n nc : ℕ) (h : CurveLike c n nc) (comp : ℕ) (hc : comp < nc) :
    (Obj.cpRow c (-1)).getD comp 0 = c.cps.get ((n - 1) * nc + comp) := by
  rw [cpRow_last c n nc h]
  unfold Tensor.get
  have hn := h.pos
  have hsz := h.size
  have e : (n - 1) * nc + nc = n * nc := by
    have := Nat.sub_add_cancel hn
    calc (n - 1) * nc + nc = (n - 1 + 1) * nc := by ring
      _ = _ := by rw [this]
  simp only [Array.getD_eq_getD_getElem?, Array.getElem?_extract]
  rw [if_pos (by rw [hsz, e]; simp; omega)]

/-- A curve of the family starts at its first and ends at its last control point. -/
theorem UnitCurve.ends_of {tol : K} (htol : 0 < tol) {c : Obj K} {p : ℕ} {U : List K} {M : List ℕ} {rat : Bool}
    {nc : ℕ} (h : UnitCurve c p U M rat nc) (hp : 2 ≤ p) (hlen : M.length = U.length)
    (hsep : Splipy.Separated tol (clampedU 0 1 U)) (ho : c.WF) (comp : ℕ) (hc : comp < nc) :
    (toTP c 1 comp).eval (fun _ => .right) (fun _ => 0) = (Obj.cpRow c 0).getD comp 0
      ∧ (toTP c 1 comp).eval (fun _ => .left) (fun _ => 1) = (Obj.cpRow c (-1)).getD comp 0 := by
  obtain ⟨hcl, h0, h1⟩ := endsClamped_unit (M := M) htol hp hlen hsep
  rw [← h.basis] at hcl h0 h1
  have hper : (c.basis 0).periodic = -1 := by rw [h.basis]; rfl
  have hcv := h.curveLike ho
  have hpos := hcv.pos
  constructor
  · rw [cpRow_first_get c _ nc hcv comp hc, ← h.ncomp]
    apply curve_eval_at h.wf hper comp .right 0 0 hpos
    intro j _
    have := hcl.B_lo j
    rw [h0] at this
    exact this
  · rw [cpRow_last_get c _ nc hcv comp hc, ← h.ncomp]
    apply curve_eval_at h.wf hper comp .left 1 _ (by omega)
    intro j _
    have := hcl.B_hi j
    rw [h1] at this
    exact this

theorem UnitCurve.ends {tol : K} (htol : 0 < tol) {c : Obj K} {p : ℕ} {U : List K} {M : List ℕ} {rat : Bool}
    {nc : ℕ} (h : UnitCurve c p U M rat nc) (k : UnitKnots tol p U M) (ho : c.WF) (comp : ℕ) (hc : comp < nc) :
    (toTP c 1 comp).eval (fun _ => .right) (fun _ => 0) = (Obj.cpRow c 0).getD comp 0
      ∧ (toTP c 1 comp).eval (fun _ => .left) (fun _ => 1) = (Obj.cpRow c (-1)).getD comp 0 :=
  h.ends_of htol k.hp k.hlen (k.sep htol) ho comp hc

/-! ## The Coons formula for the model, and its four edges -/

/-- Evaluated map of the corner surface: bilinear in the four corner points. -/
theorem corner_eval (a b c e : Array K) (nc : ℕ) (ha : a.size = nc) (hb : b.size = nc) (hc : c.size = nc)
    (he : e.size = nc) (rat : Bool) (s3 : Obj K) (h : Obj.fromCorners 2 [a, b, c, e] rat = .ok s3)
    (hw : C06.WF s3 2) (hb0 : s3.basis 0 = linearBasis) (hb1 : s3.basis 1 = linearBasis) (hn : s3.ncomp = nc)
    (comp : ℕ) (hcomp : comp < nc) (sd : Fin 2 → Side) (u : Fin 2 → K) :
    (toTP s3 2 comp).eval sd u
      = a.getD comp 0 * (beta (sd 0) 0 (u 0) * beta (sd 1) 0 (u 1))
        + b.getD comp 0 * (beta (sd 0) 1 (u 0) * beta (sd 1) 0 (u 1))
        + c.getD comp 0 * (beta (sd 0) 0 (u 0) * beta (sd 1) 1 (u 1))
        + e.getD comp 0 * (beta (sd 0) 1 (u 0) * beta (sd 1) 1 (u 1)) := by
  rw [toTP_eval_surface hw (by rw [hb0]; rfl) (by rw [hb1]; rfl), hb0, hb1, hn, linearBasis_numFunctions]
  simp only [Finset.sum_range_succ, Finset.sum_range_zero, zero_add]
  have g := fun i j hi hj => fromCorners2_get a b c e nc ha hb hc he rat s3 h i j comp hi hj hcomp
  have g00 := g 0 0 (by norm_num) (by norm_num)
  have g01 := g 0 1 (by norm_num) (by norm_num)
  have g10 := g 1 0 (by norm_num) (by norm_num)
  have g11 := g 1 1 (by norm_num) (by norm_num)
  simp only [zero_mul, mul_zero, zero_add, add_zero, one_mul, mul_one, List.getD_cons_zero, List.getD_cons_succ] at g00 g01 g10 g11
  simp only [zero_mul, zero_add, add_zero, one_mul]
  rw [g00, g01, g10, g11]
  unfold beta
  show _ * (B (sd 0) (linearBasis : Basis K).kn 1 0 (u 0) * B (sd 1) (linearBasis : Basis K).kn 1 0 (u 1))
      + _ * (B (sd 0) (linearBasis : Basis K).kn 1 0 (u 0) * B (sd 1) (linearBasis : Basis K).kn 1 1 (u 1))
      + (_ * (B (sd 0) (linearBasis : Basis K).kn 1 1 (u 0) * B (sd 1) (linearBasis : Basis K).kn 1 0 (u 1))
      + _ * (B (sd 0) (linearBasis : Basis K).kn 1 1 (u 0) * B (sd 1) (linearBasis : Basis K).kn 1 1 (u 1))) = _
  ring

set_option maxHeartbeats 400000 in
/-- **The Coons formula for `Obj.coonsPatch`** (same family as `coonsPatch_unit`): the model succeeds
    and, in every homogeneous component, at every parameter pair and choice of sides,
    `s(u,v) = β₀(v)·bottom(u) + β₁(v)·T(u) + β₀(u)·Lf(v) + β₁(u)·right(v)
              - Σ β_i(u) β_j(v) P_ij`
    with `P = (bottom[0], bottom[-1]; T[0], T[-1])`, `T = top.reverse()`, `Lf = left.reverse()`. -/
theorem coonsPatch_formula_mixed (tol : K) (htol : 0 < tol) {pB pT pL pR : ℕ} {U1 U2 : List K} {MB MT ML MR : List ℕ}
    (hpo : 2 ≤ pB ∧ 2 ≤ pT ∧ 2 ≤ pL ∧ 2 ≤ pR)
    (hlen : MB.length = U1.length ∧ MT.length = U1.length ∧ ML.length = U2.length ∧ MR.length = U2.length)
    (hmu : (∀ x ∈ MB, x ≤ pB - 1) ∧ (∀ x ∈ MT, x ≤ pT - 1) ∧ (∀ x ∈ ML, x ≤ pL - 1) ∧ (∀ x ∈ MR, x ≤ pR - 1))
    {p1 p2 : ℕ} {M1 M2 : List ℕ} (hp1 : p1 = max pB pT) (hM1 : M1 = unionMult pB pT MB MT)
    (hp2 : p2 = max pL pR) (hM2 : M2 = unionMult pL pR ML MR)
    (k1 : UnitKnots tol p1 U1 M1) (k2 : UnitKnots tol p2 U2 M2) (rat : Bool) (nc : ℕ)
    (bottom right top left : Obj K)
    (hB : UnitCurve bottom pB U1 MB rat nc) (hT : UnitCurve (top.reverse 0) pT U1 MT rat nc)
    (hL : UnitCurve (left.reverse 0) pL U2 ML rat nc) (hR : UnitCurve right pR U2 MR rat nc)
    (oB : bottom.WF) (oT : (top.reverse 0).WF) (oL : (left.reverse 0).WF) (oR : right.WF) :
    ∃ s : Obj K, Obj.coonsPatch tol bottom right top left = .ok s
      ∧ UnitSurf s p1 p2 U1 U2 M1 M2 rat nc
      ∧ ∀ comp, comp < nc → ∀ (sd : Fin 2 → Side) (u : Fin 2 → K),
          (toTP s 2 comp).eval sd u
            = beta (sd 1) 0 (u 1) * (toTP bottom 1 comp).eval (fun _ => sd 0) (fun _ => u 0)
              + beta (sd 1) 1 (u 1) * (toTP (top.reverse 0) 1 comp).eval (fun _ => sd 0) (fun _ => u 0)
              + (beta (sd 0) 0 (u 0) * (toTP (left.reverse 0) 1 comp).eval (fun _ => sd 1) (fun _ => u 1)
                + beta (sd 0) 1 (u 0) * (toTP right 1 comp).eval (fun _ => sd 1) (fun _ => u 1))
              - ((Obj.cpRow bottom 0).getD comp 0 * (beta (sd 0) 0 (u 0) * beta (sd 1) 0 (u 1))
                + (Obj.cpRow bottom (-1)).getD comp 0 * (beta (sd 0) 1 (u 0) * beta (sd 1) 0 (u 1))
                + (Obj.cpRow (top.reverse 0) 0).getD comp 0 * (beta (sd 0) 0 (u 0) * beta (sd 1) 1 (u 1))
                + (Obj.cpRow (top.reverse 0) (-1)).getD comp 0 * (beta (sd 0) 1 (u 0) * beta (sd 1) 1 (u 1))) := by
  obtain ⟨rb, rl, s3, s, ⟨smB, smT, smL, smR⟩, ⟨ub1, bb2, wb2, shb, ncb2⟩, ⟨ul1, bl2, wl2, shl, ncl2⟩, hs3, S3,
    hcall, SS, hsum⟩ := coonsPatch_mixed tol htol hpo hlen hmu hp1 hM1 hp2 hM2 k1 k2 rat nc bottom right top left hB hT hL hR oB oT oL oR
  refine ⟨s, hcall, SS, fun comp hcomp sd u => ?_⟩
  have szB := hB.cpRow_size oB
  have szT := hT.cpRow_size oT
  have hperb : (rb.1.basis 0).periodic = -1 := by rw [ub1.basis]; rfl
  have hperl : (rl.1.basis 0).periodic = -1 := by rw [ul1.basis]; rfl
  have hwS2 : C06.WF (ruledObj rl.1 rl.2) 2 := (ruledObj_wf rl.1 rl.2 ul1.wf shl).1
  have hnS2 : (ruledObj rl.1 rl.2).ncomp = nc := ((ruledObj_wf rl.1 rl.2 ul1.wf shl).2).trans ul1.ncomp
  rw [hsum comp hcomp sd u,
    ruledObj_eval rb.1 rb.2 ub1.wf wb2 hperb (bb2.trans ub1.basis.symm) shb comp (by rw [ub1.ncomp]; exact hcomp),
    swap_eval hwS2 comp (by rw [hnS2]; exact hcomp),
    ruledObj_eval rl.1 rl.2 ul1.wf wl2 hperl (bl2.trans ul1.basis.symm) shl comp (by rw [ul1.ncomp]; exact hcomp),
    corner_eval _ _ _ _ nc szB.1 szB.2 szT.1 szT.2 rat s3 hs3 S3.wf
      (S3.b0.trans (linearBasis_form U1).symm) (S3.b1.trans (linearBasis_form U2).symm) S3.ncomp comp hcomp,
    smB.eval comp (by rw [hB.ncomp]; exact hcomp), smT.eval comp (by rw [hT.ncomp]; exact hcomp),
    smL.eval comp (by rw [hL.ncomp]; exact hcomp), smR.eval comp (by rw [hR.ncomp]; exact hcomp)]
  simp only [Equiv.swap_apply_left, Equiv.swap_apply_right]
  rfl

set_option maxHeartbeats 400000 in
/-- **The four edges of `Obj.coonsPatch`'s result are the four input curves** (as maps, in every
    homogeneous component).  The `u = 0` / `u = 1` edges need no hypothesis about corners; the
    `v = 0` / `v = 1` edges need the corner control points to agree. -/
theorem coonsPatch_edges_mixed (tol : K) (htol : 0 < tol) {pB pT pL pR : ℕ} {U1 U2 : List K} {MB MT ML MR : List ℕ}
    (hpo : 2 ≤ pB ∧ 2 ≤ pT ∧ 2 ≤ pL ∧ 2 ≤ pR)
    (hlen : MB.length = U1.length ∧ MT.length = U1.length ∧ ML.length = U2.length ∧ MR.length = U2.length)
    (hmu : (∀ x ∈ MB, x ≤ pB - 1) ∧ (∀ x ∈ MT, x ≤ pT - 1) ∧ (∀ x ∈ ML, x ≤ pL - 1) ∧ (∀ x ∈ MR, x ≤ pR - 1))
    {p1 p2 : ℕ} {M1 M2 : List ℕ} (hp1 : p1 = max pB pT) (hM1 : M1 = unionMult pB pT MB MT)
    (hp2 : p2 = max pL pR) (hM2 : M2 = unionMult pL pR ML MR)
    (k1 : UnitKnots tol p1 U1 M1) (k2 : UnitKnots tol p2 U2 M2) (rat : Bool) (nc : ℕ)
    (bottom right top left : Obj K)
    (hB : UnitCurve bottom pB U1 MB rat nc) (hT : UnitCurve (top.reverse 0) pT U1 MT rat nc)
    (hL : UnitCurve (left.reverse 0) pL U2 ML rat nc) (hR : UnitCurve right pR U2 MR rat nc)
    (oB : bottom.WF) (oT : (top.reverse 0).WF) (oL : (left.reverse 0).WF) (oR : right.WF) :
    ∃ s : Obj K, Obj.coonsPatch tol bottom right top left = .ok s
      ∧ UnitSurf s p1 p2 U1 U2 M1 M2 rat nc
      ∧ ∀ comp, comp < nc → ∀ (sd : Side) (t : K),
          ((toTP s 2 comp).eval ![.right, sd] ![0, t] = (toTP (left.reverse 0) 1 comp).eval (fun _ => sd) (fun _ => t))
          ∧ ((toTP s 2 comp).eval ![.left, sd] ![1, t] = (toTP right 1 comp).eval (fun _ => sd) (fun _ => t))
          ∧ (Obj.cpRow (left.reverse 0) 0 = Obj.cpRow bottom 0 → Obj.cpRow right 0 = Obj.cpRow bottom (-1) →
              (toTP s 2 comp).eval ![sd, .right] ![t, 0] = (toTP bottom 1 comp).eval (fun _ => sd) (fun _ => t))
          ∧ (Obj.cpRow (left.reverse 0) (-1) = Obj.cpRow (top.reverse 0) 0 →
              Obj.cpRow right (-1) = Obj.cpRow (top.reverse 0) (-1) →
              (toTP s 2 comp).eval ![sd, .left] ![t, 1]
                = (toTP (top.reverse 0) 1 comp).eval (fun _ => sd) (fun _ => t)) := by
  obtain ⟨s, hcall, SS, hf⟩ := coonsPatch_formula_mixed tol htol hpo hlen hmu hp1 hM1 hp2 hM2 k1 k2 rat nc bottom right top left hB hT hL hR oB oT oL oR
  refine ⟨s, hcall, SS, fun comp hcomp sd t => ?_⟩
  obtain ⟨eB0, eB1⟩ := hB.ends_of htol hpo.1 hlen.1 (k1.sep htol) oB comp hcomp
  obtain ⟨eT0, eT1⟩ := hT.ends_of htol hpo.2.1 hlen.2.1 (k1.sep htol) oT comp hcomp
  obtain ⟨eL0, eL1⟩ := hL.ends_of htol hpo.2.2.1 hlen.2.2.1 (k2.sep htol) oL comp hcomp
  obtain ⟨eR0, eR1⟩ := hR.ends_of htol hpo.2.2.2 hlen.2.2.2 (k2.sep htol) oR comp hcomp
  have l0 := beta_lo (K := K) 0
  have l1 := beta_lo (K := K) 1
  have r0 := beta_hi (K := K) 0
  have r1 := beta_hi (K := K) 1
  simp only [if_true, one_ne_zero, if_false, zero_ne_one] at l0 l1 r0 r1
  refine ⟨?_, ?_, ?_, ?_⟩
  · rw [hf comp hcomp]
    simp only [Matrix.cons_val_zero, Matrix.cons_val_one]
    rw [l0, l1, eB0, eT0]
    ring
  · rw [hf comp hcomp]
    simp only [Matrix.cons_val_zero, Matrix.cons_val_one]
    rw [r0, r1, eB1, eT1]
    ring
  · intro c00 c10
    rw [hf comp hcomp]
    simp only [Matrix.cons_val_zero, Matrix.cons_val_one]
    rw [l0, l1, eL0, eR0, c00, c10]
    ring
  · intro c01 c11
    rw [hf comp hcomp]
    simp only [Matrix.cons_val_zero, Matrix.cons_val_one]
    rw [r0, r1, eL1, eR1, c01, c11]
    ring

/-- `coonsPatch_formula_mixed` when the two curves of each opposite pair share their basis. -/
theorem coonsPatch_formula (tol : K) (htol : 0 < tol) {p1 p2 : ℕ} {U1 U2 : List K} {M1 M2 : List ℕ}
    (k1 : UnitKnots tol p1 U1 M1) (k2 : UnitKnots tol p2 U2 M2) (rat : Bool) (nc : ℕ)
    (bottom right top left : Obj K)
    (hB : UnitCurve bottom p1 U1 M1 rat nc) (hT : UnitCurve (top.reverse 0) p1 U1 M1 rat nc)
    (hL : UnitCurve (left.reverse 0) p2 U2 M2 rat nc) (hR : UnitCurve right p2 U2 M2 rat nc)
    (oB : bottom.WF) (oT : (top.reverse 0).WF) (oL : (left.reverse 0).WF) (oR : right.WF) :
    ∃ s : Obj K, Obj.coonsPatch tol bottom right top left = .ok s
      ∧ UnitSurf s p1 p2 U1 U2 M1 M2 rat nc
      ∧ ∀ comp, comp < nc → ∀ (sd : Fin 2 → Side) (u : Fin 2 → K),
          (toTP s 2 comp).eval sd u
            = beta (sd 1) 0 (u 1) * (toTP bottom 1 comp).eval (fun _ => sd 0) (fun _ => u 0)
              + beta (sd 1) 1 (u 1) * (toTP (top.reverse 0) 1 comp).eval (fun _ => sd 0) (fun _ => u 0)
              + (beta (sd 0) 0 (u 0) * (toTP (left.reverse 0) 1 comp).eval (fun _ => sd 1) (fun _ => u 1)
                + beta (sd 0) 1 (u 0) * (toTP right 1 comp).eval (fun _ => sd 1) (fun _ => u 1))
              - ((Obj.cpRow bottom 0).getD comp 0 * (beta (sd 0) 0 (u 0) * beta (sd 1) 0 (u 1))
                + (Obj.cpRow bottom (-1)).getD comp 0 * (beta (sd 0) 1 (u 0) * beta (sd 1) 0 (u 1))
                + (Obj.cpRow (top.reverse 0) 0).getD comp 0 * (beta (sd 0) 0 (u 0) * beta (sd 1) 1 (u 1))
                + (Obj.cpRow (top.reverse 0) (-1)).getD comp 0 * (beta (sd 0) 1 (u 0) * beta (sd 1) 1 (u 1))) :=
  coonsPatch_formula_mixed tol htol ⟨k1.hp, k1.hp, k2.hp, k2.hp⟩ ⟨k1.hlen, k1.hlen, k2.hlen, k2.hlen⟩
    ⟨fun x hx => (k1.hm x hx).2, fun x hx => (k1.hm x hx).2, fun x hx => (k2.hm x hx).2, fun x hx => (k2.hm x hx).2⟩
    (max_self p1).symm (unionMult_self p1 M1).symm (max_self p2).symm (unionMult_self p2 M2).symm
    k1 k2 rat nc bottom right top left hB hT hL hR oB oT oL oR

/-- `coonsPatch_edges_mixed` when the two curves of each opposite pair share their basis. -/
theorem coonsPatch_edges (tol : K) (htol : 0 < tol) {p1 p2 : ℕ} {U1 U2 : List K} {M1 M2 : List ℕ}
    (k1 : UnitKnots tol p1 U1 M1) (k2 : UnitKnots tol p2 U2 M2) (rat : Bool) (nc : ℕ)
    (bottom right top left : Obj K)
    (hB : UnitCurve bottom p1 U1 M1 rat nc) (hT : UnitCurve (top.reverse 0) p1 U1 M1 rat nc)
    (hL : UnitCurve (left.reverse 0) p2 U2 M2 rat nc) (hR : UnitCurve right p2 U2 M2 rat nc)
    (oB : bottom.WF) (oT : (top.reverse 0).WF) (oL : (left.reverse 0).WF) (oR : right.WF) :
    ∃ s : Obj K, Obj.coonsPatch tol bottom right top left = .ok s
      ∧ UnitSurf s p1 p2 U1 U2 M1 M2 rat nc
      ∧ ∀ comp, comp < nc → ∀ (sd : Side) (t : K),
          ((toTP s 2 comp).eval ![.right, sd] ![0, t] = (toTP (left.reverse 0) 1 comp).eval (fun _ => sd) (fun _ => t))
          ∧ ((toTP s 2 comp).eval ![.left, sd] ![1, t] = (toTP right 1 comp).eval (fun _ => sd) (fun _ => t))
          ∧ (Obj.cpRow (left.reverse 0) 0 = Obj.cpRow bottom 0 → Obj.cpRow right 0 = Obj.cpRow bottom (-1) →
              (toTP s 2 comp).eval ![sd, .right] ![t, 0] = (toTP bottom 1 comp).eval (fun _ => sd) (fun _ => t))
          ∧ (Obj.cpRow (left.reverse 0) (-1) = Obj.cpRow (top.reverse 0) 0 →
              Obj.cpRow right (-1) = Obj.cpRow (top.reverse 0) (-1) →
              (toTP s 2 comp).eval ![sd, .left] ![t, 1]
                = (toTP (top.reverse 0) 1 comp).eval (fun _ => sd) (fun _ => t)) :=
  coonsPatch_edges_mixed tol htol ⟨k1.hp, k1.hp, k2.hp, k2.hp⟩ ⟨k1.hlen, k1.hlen, k2.hlen, k2.hlen⟩
    ⟨fun x hx => (k1.hm x hx).2, fun x hx => (k1.hm x hx).2, fun x hx => (k2.hm x hx).2, fun x hx => (k2.hm x hx).2⟩
    (max_self p1).symm (unionMult_self p1 M1).symm (max_self p2).symm (unionMult_self p2 M2).symm
    k1 k2 rat nc bottom right top left hB hT hL hR oB oT oL oR

end C15
end Splipy
