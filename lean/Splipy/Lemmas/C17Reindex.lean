import Mathlib.Data.List.GetD
import Splipy.Lemmas.C17Array

/-! Lemmas for C17: composition of re-indexing views (`Reindex.comp`). -/

namespace Splipy.MP

namespace IdxE

theorem eval_flip (X : IdxE) (n : ℕ) (j : List ℕ)
    (h : ∀ k, X.mentions = some k → j.getD k 0 ≤ n - 1) :
    X.flip.eval n j = n - 1 - X.eval n j := by
  cases X with
  | zero => simp [flip, eval]
  | last => simp [flip, eval]
  | var d => simp [flip, eval]
  | rev d =>
    have := h d rfl
    simp only [flip, eval]
    omega

@[simp] theorem eval_var (d n : ℕ) (i : List ℕ) : (IdxE.var d).eval n i = i.getD d 0 := rfl
@[simp] theorem eval_rev (d n : ℕ) (i : List ℕ) : (IdxE.rev d).eval n i = n - 1 - i.getD d 0 := rfl
@[simp] theorem subst_var (m : List IdxE) (d : ℕ) : (IdxE.var d).subst m = m.getD d .zero := rfl
@[simp] theorem subst_rev (m : List IdxE) (d : ℕ) : (IdxE.rev d).subst m = (m.getD d .zero).flip := rfl

end IdxE

namespace Reindex

theorem consistent_iff (r : Reindex) (rank : ℕ) :
    r.Consistent rank = true ↔
      r.idx.length = rank ∧ (∀ e ∈ r.axes, e < rank) ∧
      ∀ e, e < rank → ∀ d, (r.idx.getD e .zero).mentions = some d →
        d < r.axes.length ∧ r.axes.getD d 0 = e := by
  unfold Consistent
  simp only [Bool.and_eq_true, beq_iff_eq, List.all_eq_true, decide_eq_true_eq, List.mem_range]
  constructor
  · rintro ⟨⟨h1, h2⟩, h3⟩
    refine ⟨h1, h2, fun e he d hd => ?_⟩
    have := h3 e he
    rw [hd] at this
    simpa using this
  · rintro ⟨h1, h2, h3⟩
    refine ⟨⟨h1, h2⟩, fun e he => ?_⟩
    cases hm : (r.idx.getD e .zero).mentions with
    | none => rfl
    | some d => simpa using h3 e he d hm

theorem index_length (r : Reindex) (s j : List ℕ) (h : r.idx.length = s.length) :
    (r.index s j).length = s.length := by
  simp [index, h]

theorem index_getD (r : Reindex) (s j : List ℕ) (h : r.idx.length = s.length) (e : ℕ)
    (he : e < s.length) :
    (r.index s j).getD e 0 = (r.idx.getD e .zero).eval (s.getD e 0) j := by
  have h1 : e < (r.index s j).length := by rw [index_length r s j h]; exact he
  have h2 : e < r.idx.length := by omega
  rw [List.getD_eq_getElem _ _ h1, List.getD_eq_getElem _ _ he, List.getD_eq_getElem _ _ h2]
  simp [index]

theorem shape_length (r : Reindex) (s : List ℕ) : (r.shape s).length = r.axes.length := by
  simp [shape]

theorem shape_getD (r : Reindex) (s : List ℕ) (d : ℕ) (hd : d < r.axes.length) :
    (r.shape s).getD d 0 = s.getD (r.axes.getD d 0) 0 := by
  have h1 : d < (r.shape s).length := by rw [shape_length]; exact hd
  rw [List.getD_eq_getElem _ _ h1, List.getD_eq_getElem _ _ hd]
  simp [shape]

theorem shape_pos (r : Reindex) (s : List ℕ) (hc : r.Consistent s.length = true)
    (hpos : ∀ n ∈ s, 0 < n) : ∀ n ∈ r.shape s, 0 < n := by
  rw [consistent_iff] at hc
  intro n hn
  simp only [shape, List.mem_map] at hn
  obtain ⟨e, he, rfl⟩ := hn
  have := hc.2.1 e he
  rw [List.getD_eq_getElem _ _ this]
  exact hpos _ (List.getElem_mem _)

theorem getD_pos {s : List ℕ} (hpos : ∀ n ∈ s, 0 < n) {e : ℕ} (he : e < s.length) :
    0 < s.getD e 0 := by
  rw [List.getD_eq_getElem _ _ he]
  exact hpos _ (List.getElem_mem _)

theorem index_inRange (r : Reindex) (s j : List ℕ) (hc : r.Consistent s.length = true)
    (hpos : ∀ n ∈ s, 0 < n) (hj : InRange j (r.shape s)) : InRange (r.index s j) s := by
  have hc' := (consistent_iff r s.length).1 hc
  refine ⟨index_length r s j hc'.1, fun e he => ?_⟩
  rw [index_getD r s j hc'.1 e he]
  have hp := getD_pos hpos he
  cases hX : r.idx.getD e .zero with
  | zero => simpa [IdxE.eval] using hp
  | last => simp only [IdxE.eval]; omega
  | var d =>
    simp only [IdxE.eval]
    obtain ⟨h1, h2⟩ := hc'.2.2 e he d (by rw [hX]; rfl)
    have := hj.2 d (by rw [shape_length]; exact h1)
    rw [shape_getD r s d h1, h2] at this
    exact this
  | rev d => simp only [IdxE.eval]; omega

theorem comp_shape (r2 r1 : Reindex) (s : List ℕ) (h2 : r2.Consistent r1.axes.length = true) :
    (r2.comp r1).shape s = r2.shape (r1.shape s) := by
  have h2' := (consistent_iff r2 _).1 h2
  simp only [comp, shape, List.map_map]
  apply List.map_congr_left
  intro d hd
  have hlt := h2'.2.1 d hd
  simp only [Function.comp]
  have : d < (List.map (fun e => s.getD e 0) r1.axes).length := by simpa using hlt
  rw [List.getD_eq_getElem _ _ this, List.getD_eq_getElem _ _ hlt]
  simp

theorem comp_index (r2 r1 : Reindex) (s j : List ℕ) (h1 : r1.Consistent s.length = true)
    (h2 : r2.Consistent r1.axes.length = true) (hpos : ∀ n ∈ s, 0 < n)
    (hj : InRange j (r2.shape (r1.shape s))) :
    (r2.comp r1).index s j = r1.index s (r2.index (r1.shape s) j) := by
  have h1' := (consistent_iff r1 _).1 h1
  have h2' := (consistent_iff r2 _).1 h2
  have hs1 : (r1.shape s).length = r1.axes.length := shape_length r1 s
  have hm := index_inRange r2 (r1.shape s) j (by rw [hs1]; exact h2) (shape_pos r1 s h1 hpos) hj
  have hcl : (r2.comp r1).idx.length = s.length := by simp [comp, h1'.1]
  apply List.ext_getElem
  · rw [index_length _ _ _ hcl, index_length _ _ _ h1'.1]
  · intro e he1 he2
    have he : e < s.length := by rw [index_length _ _ _ hcl] at he1; exact he1
    have e1 := index_getD (r2.comp r1) s j hcl e he
    have e2 := index_getD r1 s (r2.index (r1.shape s) j) h1'.1 e he
    rw [List.getD_eq_getElem _ _ he1] at e1
    rw [List.getD_eq_getElem _ _ he2] at e2
    rw [e1, e2]
    have hidx : (r2.comp r1).idx.getD e .zero = (r1.idx.getD e .zero).subst r2.idx := by
      have hl : e < r1.idx.length := by omega
      have hl' : e < (r2.comp r1).idx.length := by omega
      rw [List.getD_eq_getElem _ _ hl', List.getD_eq_getElem _ _ hl]
      simp [comp]
    rw [hidx]
    cases hX : r1.idx.getD e .zero with
    | zero => rfl
    | last => rfl
    | var d =>
      obtain ⟨hd, hax⟩ := h1'.2.2 e he d (by rw [hX]; rfl)
      rw [IdxE.subst_var, IdxE.eval_var,
        index_getD r2 (r1.shape s) j (by rw [hs1]; exact h2'.1) d (by rw [hs1]; exact hd),
        shape_getD r1 s d hd, hax]
    | rev d =>
      obtain ⟨hd, hax⟩ := h1'.2.2 e he d (by rw [hX]; rfl)
      rw [IdxE.subst_rev, IdxE.eval_rev,
        index_getD r2 (r1.shape s) j (by rw [hs1]; exact h2'.1) d (by rw [hs1]; exact hd),
        shape_getD r1 s d hd, hax]
      apply IdxE.eval_flip
      intro k hk
      obtain ⟨hk1, hk2⟩ := h2'.2.2 d hd k hk
      have := hj.2 k (by rw [shape_length]; exact hk1)
      rw [shape_getD r2 _ k hk1, hk2, shape_getD r1 s d hd, hax] at this
      omega

theorem apply_comp {α : Type} [Inhabited α] (r2 r1 : Reindex) (a : NdArr α)
    (h1 : r1.Consistent a.shape.length = true) (h2 : r2.Consistent r1.axes.length = true)
    (hpos : ∀ n ∈ a.shape, 0 < n) : (r2.comp r1).apply a = r2.apply (r1.apply a) := by
  unfold apply
  have hsh : (NdArr.ofFn (r1.shape a.shape) fun i => a.get (r1.index a.shape i)).shape = r1.shape a.shape := rfl
  rw [hsh, comp_shape r2 r1 a.shape h2]
  apply NdArr.ofFn_congr
  intro i hi
  have hs1 : (r1.shape a.shape).length = r1.axes.length := shape_length r1 _
  have hm := index_inRange r2 (r1.shape a.shape) i (by rw [hs1]; exact h2) (shape_pos r1 _ h1 hpos) hi
  rw [NdArr.get_ofFn _ _ hm, comp_index r2 r1 a.shape i h1 h2 hpos hi]

end Reindex

end Splipy.MP
