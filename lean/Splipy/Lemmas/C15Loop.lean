import Splipy.Model.Sections

/-!
# Structural facts about the loop re-ordering search of `edge_curves` (model `Sections.loopGo`)

Generic in the curve type `C`, the end-point type `α` and the closeness test.
-/

namespace Splipy.Sections

variable {C α : Type} (close : α → α → Bool) (startp endp : C → α) (rev : C → C)

theorem findNext_none_iff (cur : α) (l : List C) :
    findNext close startp endp rev cur l = none
      ↔ ∀ c ∈ l, close cur (startp c) = false ∧ close cur (endp c) = false := by
  induction l with
  | nil => simp [findNext]
  | cons c cs ih =>
    unfold findNext
    by_cases h1 : close cur (startp c) = true
    · simp [h1]
    · by_cases h2 : close cur (endp c) = true
      · simp [h1, h2]
      · have h1' : close cur (startp c) = false := by simpa using h1
        have h2' : close cur (endp c) = false := by simpa using h2
        simp [h1', h2', ih]

/-- What is found continues the chain (given that reversing a curve exchanges its end points) and
    exactly one curve is consumed. -/
theorem findNext_some (hrev : ∀ c, startp (rev c) = endp c) (cur : α) (l : List C) (x : C)
    (r : List C) (h : findNext close startp endp rev cur l = some (x, r)) :
    close cur (startp x) = true ∧ r.length + 1 = l.length ∧ ((x ∈ l) ∨ ∃ c ∈ l, x = rev c) := by
  induction l generalizing x r with
  | nil => simp [findNext] at h
  | cons c cs ih =>
    unfold findNext at h
    by_cases h1 : close cur (startp c) = true
    · simp only [h1, if_true, Option.some.injEq, Prod.mk.injEq] at h
      obtain ⟨rfl, rfl⟩ := h
      exact ⟨h1, rfl, Or.inl (List.mem_cons_self)⟩
    · by_cases h2 : close cur (endp c) = true
      · simp only [h1, h2, if_true, Bool.false_eq_true, if_false, Option.some.injEq,
          Prod.mk.injEq] at h
        obtain ⟨rfl, rfl⟩ := h
        exact ⟨by rw [hrev]; exact h2, rfl, Or.inr ⟨c, List.mem_cons_self, rfl⟩⟩
      · simp only [h1, h2, Bool.false_eq_true, if_false, Option.map_eq_some_iff] at h
        obtain ⟨⟨x', r'⟩, hf, he⟩ := h
        simp only [Prod.mk.injEq] at he
        obtain ⟨rfl, rfl⟩ := he
        obtain ⟨a, b, d⟩ := ih x' r' hf
        refine ⟨a, by simp [b], ?_⟩
        rcases d with d | ⟨c', hc', e⟩
        · exact Or.inl (List.mem_cons_of_mem _ d)
        · exact Or.inr ⟨c', List.mem_cons_of_mem _ hc', e⟩

/-- `cur → l[0] → l[1] → …` is a chain: every curve starts where its predecessor ends. -/
def IsChainFrom : C → List C → Prop
  | _, [] => True
  | cur, x :: xs => close (endp cur) (startp x) = true ∧ IsChainFrom x xs

theorem loopGo_ok (hrev : ∀ c, startp (rev c) = endp c) (k : ℕ) (cur : C) (rest l : List C)
    (h : loopGo close startp endp rev k cur rest = .ok l) :
    l.length = k ∧ IsChainFrom close startp endp cur l := by
  induction k generalizing cur rest l with
  | zero =>
    simp only [loopGo, Except.ok.injEq] at h
    subst h
    exact ⟨rfl, trivial⟩
  | succ k ih =>
    unfold loopGo at h
    cases hf : findNext close startp endp rev (endp cur) rest with
    | none => simp [hf] at h
    | some p =>
      obtain ⟨x, r⟩ := p
      simp only [hf] at h
      cases hg : loopGo close startp endp rev k x r with
      | error e => simp [hg, Except.map] at h
      | ok l' =>
        simp only [hg, Except.map, Except.ok.injEq] at h
        subst h
        obtain ⟨a, b⟩ := ih x r l' hg
        obtain ⟨c1, _, _⟩ := findNext_some close startp endp rev hrev (endp cur) rest x r hf
        exact ⟨by simp [a], c1, b⟩

theorem loopGo_error (k : ℕ) (cur : C) (rest : List C) (e : PyErr)
    (h : loopGo close startp endp rev k cur rest = .error e) : e = .runtime := by
  induction k generalizing cur rest with
  | zero => simp [loopGo] at h
  | succ k ih =>
    unfold loopGo at h
    cases hf : findNext close startp endp rev (endp cur) rest with
    | none =>
      simp only [hf, Except.error.injEq] at h
      exact h.symm
    | some p =>
      obtain ⟨x, r⟩ := p
      simp only [hf] at h
      cases hg : loopGo close startp endp rev k x r with
      | error e' =>
        simp only [hg, Except.map, Except.error.injEq] at h
        subst h
        exact ih x r hg
      | ok l' => simp [hg, Except.map] at h

theorem loopGo_no_continuation (k : ℕ) (cur : C) (rest : List C)
    (h : ∀ c ∈ rest, close (endp cur) (startp c) = false ∧ close (endp cur) (endp c) = false) :
    loopGo close startp endp rev (k+1) cur rest = .error .runtime := by
  unfold loopGo
  rw [(findNext_none_iff close startp endp rev (endp cur) rest).2 h]

end Splipy.Sections

/-! ## The search on abstract end-point labels (used by `C15_loop_reorder`) -/

open Splipy Splipy.Sections

/-- Abstract curves: pairs (start label, end label) over the four corners. -/
abbrev LCurve := Fin 4 × Fin 4

/-- The directed loop `0→1→2→3→0`. -/
def C15_loopCurve (k : Fin 4) : LCurve := (k, k + 1)

/-- An arrangement: the loop curves in the order `perm`, member `i` reversed when `flips[i]`. -/
def C15_arrange (perm : List (Fin 4)) (flips : List Bool) : List LCurve :=
  List.zipWith (fun k f => if f then (C15_loopCurve k).swap else C15_loopCurve k) perm flips

/-- The model's search on labels (`allclose` = equality of labels, `reverse` = swap). -/
def C15_search (cs : List LCurve) : PyM (List LCurve) :=
  loopOrder (fun a b => a == b) Prod.fst Prod.snd Prod.swap cs

/-- Accepted, first curve kept as given, result a directed closed loop made of the four input
    curves (each as given or reversed). -/
def C15_accepted (cs : List LCurve) : Bool :=
  match C15_search cs with
  | .ok [c0, c1, c2, c3] =>
      cs.head? == some c0
      && c0.2 == c1.1 && c1.2 == c2.1 && c2.2 == c3.1 && c3.2 == c0.1
      && [c0, c1, c2, c3].all (fun c => cs.contains c || cs.contains c.swap)
      && [0, 1, 2, 3].all (fun k =>
            ([c0, c1, c2, c3].map (fun c => if c.2 == c.1 + 1 then c.1 else c.2)).contains k)
  | _ => false

def C15_allFlips : List (List Bool) :=
  [false, true].flatMap (fun a => [false, true].flatMap (fun b => [false, true].flatMap (fun c =>
    [false, true].map (fun d => [a, b, c, d]))))

