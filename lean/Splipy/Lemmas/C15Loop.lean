import Splipy.Model.Sections

/-!
# Structural facts about the loop re-ordering search of `edge_curves` (model `Sections.loopGo`)

Generic in the curve type `C`, the end-point type `α` and the closeness test.
-/

namespace Splipy.Sections

variable {C α : Type} (close : α → α → Bool) (startp endp : C → α) (rev : C → C)

theorem findNext_none_iff (cur : α) (l : List C) :
    findNext close startp endp rev cur l = none
      ↔ ∀ c ∈ l, close cur (startp c) = false ∧ close cur (endp c) = false := by
  induction l with
  | nil => simp [findNext]
  | cons c cs ih =>
    unfold findNext
    by_cases h1 : close cur (startp c) = true
    · simp [h1]
    · by_cases h2 : close cur (endp c) = true
      · simp [h1, h2]
      · have h1' : close cur (startp c) = false := by simpa using h1
        have h2' : close cur (endp c) = false := by simpa using h2
        simp [h1', h2', ih]

/-- What is found continues the chain (given that reversing a curve exchanges its end points) and
    exactly one curve is consumed. -/
theorem findNext_some (hrev : ∀ c, startp (rev c) = endp c) (cur : α) (l : List C) (x : C)
    (r : List C) (h : findNext close startp endp rev cur l = some (x, r)) :
    close cur (startp x) = true ∧ r.length + 1 = l.length ∧ ((x ∈ l) ∨ ∃ c ∈ l, x = rev c) := by
  induction l generalizing x r with
  | nil => simp [findNext] at h
  | cons c cs ih =>
    unfold findNext at h
    by_cases h1 : close cur (startp c) = true
    · simp only [h1, if_true, Option.some.injEq, Prod.mk.injEq] at h
      obtain ⟨rfl, rfl⟩ := h
      exact ⟨h1, rfl, Or.inl (List.mem_cons_self)⟩
    · by_cases h2 : close cur (endp c) = true
      · simp only [h1, h2, if_true, Bool.false_eq_true, if_false, Option.some.injEq,
          Prod.mk.injEq] at h
        obtain ⟨rfl, rfl⟩ := h
        exact ⟨by rw [hrev]; exact h2, rfl, Or.inr ⟨c, List.mem_cons_self, rfl⟩⟩
      · simp only [h1, h2, Bool.false_eq_true, if_false, Option.map_eq_some_iff] at h
        obtain ⟨⟨x', r'⟩, hf, he⟩ := h
        simp only [Prod.mk.injEq] at he
        obtain ⟨rfl, rfl⟩ := he
        obtain ⟨a, b, d⟩ := ih x' r' hf
        refine ⟨a, by simp [b], ?_⟩
        rcases d with d | ⟨c', hc', e⟩
        · exact Or.inl (List.mem_cons_of_mem _ d)
        · exact Or.inr ⟨c', List.mem_cons_of_mem _ hc', e⟩

/-- `cur → l[0] → l[1] → …` is a chain: every curve starts where its predecessor ends. -/
def IsChainFrom : C → List C → Prop
  | _, [] => True
  | cur, x :: xs => close (endp cur) (startp x) = true ∧ IsChainFrom x xs

theorem loopGo_ok (hrev : ∀ c, startp (rev c) = endp c) (k : ℕ) (cur : C) (rest l : List C)
    (h : loopGo close startp endp rev k cur rest = .ok l) :
    l.length = k ∧ IsChainFrom close startp endp cur l := by
  induction k generalizing cur rest l with
  | zero =>
    simp only [loopGo, Except.ok.injEq] at h
    subst h
    exact ⟨rfl, trivial⟩
  | succ k ih =>
    unfold loopGo at h
    cases hf : findNext close startp endp rev (endp cur) rest with
    | none => simp [hf] at h
    | some p =>
      obtain ⟨x, r⟩ := p
      simp only [hf] at h
      cases hg : loopGo close startp endp rev k x r with
      | error e => simp [hg, Except.map] at h
      | ok l' =>
        simp only [hg, Except.map, Except.ok.injEq] at h
        subst h
        obtain ⟨a, b⟩ := ih x r l' hg
        obtain ⟨c1, _, _⟩ := findNext_some close startp endp rev hrev (endp cur) rest x r hf
        exact ⟨by simp [a], c1, b⟩

theorem loopGo_error (k : ℕ) (cur : C) (rest : List C) (e : PyErr)
    (h : loopGo close startp endp rev k cur rest = .error e) : e = .runtime := by
  induction k generalizing cur rest with
  | zero => simp [loopGo] at h
  | succ k ih =>
    unfold loopGo at h
    cases hf : findNext close startp endp rev (endp cur) rest with
    | none =>
      simp only [hf, Except.error.injEq] at h
      exact h.symm
    | some p =>
      obtain ⟨x, r⟩ := p
      simp only [hf] at h
      cases hg : loopGo close startp endp rev k x r with
      | error e' =>
        simp only [hg, Except.map, Except.error.injEq] at h
        subst h
        exact ih x r hg
      | ok l' => simp [hg, Except.map] at h

theorem loopGo_no_continuation (k : ℕ) (cur : C) (rest : List C)
    (h : ∀ c ∈ rest, close (endp cur) (startp c) = false ∧ close (endp cur) (endp c) = false) :
    loopGo close startp endp rev (k+1) cur rest = .error .runtime := by
  unfold loopGo
  rw [(findNext_none_iff close startp endp rev (endp cur) rest).2 h]

/-! ## Transfer: a search on curves is simulated by the search on end-point labels -/

section transfer

variable {C C' α α' : Type} (close : α → α → Bool) (startp endp : C → α) (rev : C → C)
  (close' : α' → α' → Bool) (startp' endp' : C' → α') (rev' : C' → C')
  (φ : C → C') (lab : α → α') (P : C → Prop)

/-- `φ` (curves ↦ abstract curves) and `lab` (end points ↦ labels) turn the concrete search into the
    abstract one on the family `P` of curves: end points are labelled consistently, reversal
    commutes with `φ` and stays in the family, and two end points of the family are close exactly
    when their labels are. -/
structure Simulates : Prop where
  start_eq : ∀ c, P c → startp' (φ c) = lab (startp c)
  end_eq : ∀ c, P c → endp' (φ c) = lab (endp c)
  rev_eq : ∀ c, P c → φ (rev c) = rev' (φ c)
  rev_mem : ∀ c, P c → P (rev c)
  close_start : ∀ c d, P c → P d → close (endp c) (startp d) = close' (lab (endp c)) (lab (startp d))
  close_end : ∀ c d, P c → P d → close (endp c) (endp d) = close' (lab (endp c)) (lab (endp d))

variable {close startp endp rev close' startp' endp' rev' φ lab P}

theorem findNext_transfer (h : Simulates close startp endp rev close' startp' endp' rev' φ lab P)
    (c0 : C) (h0 : P c0) (l : List C) (hl : ∀ c ∈ l, P c) :
    (findNext close startp endp rev (endp c0) l).map (fun p => (φ p.1, p.2.map φ))
      = findNext close' startp' endp' rev' (endp' (φ c0)) (l.map φ)
    ∧ ∀ x r, findNext close startp endp rev (endp c0) l = some (x, r) → P x ∧ ∀ c ∈ r, P c := by
  induction l with
  | nil => exact ⟨rfl, fun x r hx => by simp [findNext] at hx⟩
  | cons c cs ih =>
    have hc : P c := hl c List.mem_cons_self
    have hcs : ∀ d ∈ cs, P d := fun d hd => hl d (List.mem_cons_of_mem _ hd)
    obtain ⟨ih1, ih2⟩ := ih hcs
    have e1 : close' (endp' (φ c0)) (startp' (φ c)) = close (endp c0) (startp c) := by
      rw [h.end_eq c0 h0, h.start_eq c hc, h.close_start c0 c h0 hc]
    have e2 : close' (endp' (φ c0)) (endp' (φ c)) = close (endp c0) (endp c) := by
      rw [h.end_eq c0 h0, h.end_eq c hc, h.close_end c0 c h0 hc]
    constructor
    · simp only [findNext, List.map_cons, e1, e2]
      by_cases h1 : close (endp c0) (startp c) = true
      · simp [h1]
      · by_cases h2 : close (endp c0) (endp c) = true
        · simp [h1, h2, h.rev_eq c hc]
        · simp only [h1, h2, Bool.false_eq_true, if_false]
          rw [← ih1]
          cases findNext close startp endp rev (endp c0) cs with
          | none => rfl
          | some p => rfl
    · intro x r hx
      unfold findNext at hx
      by_cases h1 : close (endp c0) (startp c) = true
      · simp only [h1, if_true, Option.some.injEq, Prod.mk.injEq] at hx
        obtain ⟨rfl, rfl⟩ := hx
        exact ⟨hc, hcs⟩
      · by_cases h2 : close (endp c0) (endp c) = true
        · simp only [h1, h2, if_true, Bool.false_eq_true, if_false, Option.some.injEq,
            Prod.mk.injEq] at hx
          obtain ⟨rfl, rfl⟩ := hx
          exact ⟨h.rev_mem c hc, hcs⟩
        · simp only [h1, h2, Bool.false_eq_true, if_false, Option.map_eq_some_iff] at hx
          obtain ⟨⟨x', r'⟩, hf, he⟩ := hx
          simp only [Prod.mk.injEq] at he
          obtain ⟨rfl, rfl⟩ := he
          obtain ⟨a, b⟩ := ih2 x' r' hf
          exact ⟨a, fun d hd => by
            rcases List.mem_cons.1 hd with rfl | hd
            · exact hc
            · exact b d hd⟩

theorem loopGo_transfer (h : Simulates close startp endp rev close' startp' endp' rev' φ lab P)
    (k : ℕ) (c0 : C) (h0 : P c0) (l : List C) (hl : ∀ c ∈ l, P c) :
    (loopGo close startp endp rev k c0 l).map (List.map φ)
      = loopGo close' startp' endp' rev' k (φ c0) (l.map φ) := by
  induction k generalizing c0 l with
  | zero => rfl
  | succ k ih =>
    obtain ⟨t1, t2⟩ := findNext_transfer h c0 h0 l hl
    unfold loopGo
    rw [← t1]
    cases hf : findNext close startp endp rev (endp c0) l with
    | none => rfl
    | some p =>
      obtain ⟨x, r⟩ := p
      obtain ⟨px, pr⟩ := t2 x r hf
      simp only [Option.map_some]
      rw [← ih x px r pr]
      cases loopGo close startp endp rev k x r <;> rfl

theorem loopOrder_transfer (h : Simulates close startp endp rev close' startp' endp' rev' φ lab P)
    (cs : List C) (hcs : ∀ c ∈ cs, P c) :
    (loopOrder close startp endp rev cs).map (List.map φ)
      = loopOrder close' startp' endp' rev' (cs.map φ) := by
  cases cs with
  | nil => rfl
  | cons c0 rest =>
    have h0 : P c0 := hcs c0 List.mem_cons_self
    have hr : ∀ c ∈ rest, P c := fun c hc => hcs c (List.mem_cons_of_mem _ hc)
    have hloop : isLoop close' startp' endp' (φ c0 :: rest.map φ) = isLoop close startp endp (c0 :: rest) := by
      match rest, hr with
      | [], _ => rfl
      | [_], _ => rfl
      | [_, _], _ => rfl
      | [c1, c2, c3], hr =>
        have p1 := hr c1 (by simp)
        have p2 := hr c2 (by simp)
        have p3 := hr c3 (by simp)
        simp only [isLoop, List.map_cons, List.map_nil, h.end_eq _ h0, h.end_eq _ p1, h.end_eq _ p2,
          h.end_eq _ p3, h.start_eq _ h0, h.start_eq _ p1, h.start_eq _ p2, h.start_eq _ p3,
          h.close_start _ _ h0 p1, h.close_start _ _ p1 p2, h.close_start _ _ p2 p3,
          h.close_start _ _ p3 h0]
      | _ :: _ :: _ :: _ :: _, _ => rfl
    simp only [loopOrder, List.map_cons, hloop]
    by_cases hl : isLoop close startp endp (c0 :: rest) = true
    · simp [hl, Except.map]
    · simp only [hl, Bool.false_eq_true, if_false]
      rw [← loopGo_transfer h 3 c0 h0 rest hr]
      cases loopGo close startp endp rev 3 c0 rest <;> rfl

end transfer

/-- The search keeps the first curve as given. -/
theorem loopOrder_head {C α : Type} (close : α → α → Bool) (startp endp : C → α) (rev : C → C)
    (cs l : List C) (h : loopOrder close startp endp rev cs = .ok l) : l.head? = cs.head? := by
  cases cs with
  | nil => simp only [loopOrder, Except.ok.injEq] at h; subst h; rfl
  | cons c0 rest =>
    unfold loopOrder at h
    simp only [] at h
    split_ifs at h with hl
    · simp only [Except.ok.injEq] at h; subst h; rfl
    · cases hg : loopGo close startp endp rev 3 c0 rest with
      | error e => rw [hg] at h; simp [Except.map] at h
      | ok r =>
        rw [hg] at h
        simp only [Except.map, Except.ok.injEq] at h
        subst h
        rfl

end Splipy.Sections

/-! ## The search on abstract end-point labels (used by `C15_loop_reorder`) -/

open Splipy Splipy.Sections

/-- Abstract curves: pairs (start label, end label) over the four corners. -/
abbrev LCurve := Fin 4 × Fin 4

/-- The directed loop `0→1→2→3→0`. -/
def C15_loopCurve (k : Fin 4) : LCurve := (k, k + 1)

/-- An arrangement: the loop curves in the order `perm`, member `i` reversed when `flips[i]`. -/
def C15_arrange (perm : List (Fin 4)) (flips : List Bool) : List LCurve :=
  List.zipWith (fun k f => if f then (C15_loopCurve k).swap else C15_loopCurve k) perm flips

/-- The model's search on labels (`allclose` = equality of labels, `reverse` = swap). -/
def C15_search (cs : List LCurve) : PyM (List LCurve) :=
  loopOrder (fun a b => a == b) Prod.fst Prod.snd Prod.swap cs

/-- Accepted, first curve kept as given, result a directed closed loop made of the four input
    curves (each as given or reversed). -/
def C15_accepted (cs : List LCurve) : Bool :=
  match C15_search cs with
  | .ok [c0, c1, c2, c3] =>
      cs.head? == some c0
      && c0.2 == c1.1 && c1.2 == c2.1 && c2.2 == c3.1 && c3.2 == c0.1
      && [c0, c1, c2, c3].all (fun c => cs.contains c || cs.contains c.swap)
      && [0, 1, 2, 3].all (fun k =>
            ([c0, c1, c2, c3].map (fun c => if c.2 == c.1 + 1 then c.1 else c.2)).contains k)
  | _ => false

def C15_allFlips : List (List Bool) :=
  [false, true].flatMap (fun a => [false, true].flatMap (fun b => [false, true].flatMap (fun c =>
    [false, true].map (fun d => [a, b, c, d]))))

/-- An accepted search result has four entries and keeps the first input curve. -/
theorem C15_accepted_ok {cs L : List LCurve} (h : C15_accepted cs = true) (hL : C15_search cs = .ok L) :
    ∃ c0 c1 c2 c3, L = [c0, c1, c2, c3] ∧ cs.head? = some c0 := by
  unfold C15_accepted at h
  rw [hL] at h
  match L, h with
  | [c0, c1, c2, c3], h =>
    simp only [Bool.and_eq_true] at h
    exact ⟨c0, c1, c2, c3, rfl, by simpa using h.1.1.1.1.1.1⟩
  | [], h => simp at h
  | [_], h => simp at h
  | [_, _], h => simp at h
  | [_, _, _], h => simp at h
  | _ :: _ :: _ :: _ :: _ :: _, h => simp at h
