import Mathlib.Tactic.Ring
import Mathlib.Tactic.LinearCombination
import Mathlib.LinearAlgebra.Matrix.Determinant.Basic
import Splipy.Model.Affine

/-!
# Algebra of `rotation_matrix`, `rotate` and `mirror`

`R = rotationMatrix a b c d` with `a² + b² + c² + d² = 1` is a proper orthogonal matrix fixing
the axis `(b,c,d)`; `M = mirrorMatrix n` with `‖n‖² = 1` is the symmetric involution
`I - 2 n nᵀ`.  The code right-multiplies row vectors (`cp @ R`), so `Rᵀ` acts on column vectors;
`vecMul_rotation_rodrigues` shows that this is the right-handed rotation by `+θ` about the axis,
and `rotation_z_eq` / `rotatePoint_z` show that the 2-D branch of `rotate` agrees with the 3-D
branch for the default normal `e_z`.
-/

namespace Splipy.Affine

variable {K : Type} [Field K]

/-! ## Extensionality helpers and the unfolding tactic -/

theorem ext2 {α : Type} {f g : Fin 2 → α} (h0 : f 0 = g 0) (h1 : f 1 = g 1) : f = g := by
  funext i
  rcases i with ⟨_ | _ | i, hi⟩
  · exact h0
  · exact h1
  · omega

theorem ext3 {α : Type} {f g : Fin 3 → α} (h0 : f 0 = g 0) (h1 : f 1 = g 1) (h2 : f 2 = g 2) :
    f = g := by
  funext i
  rcases i with ⟨_ | _ | _ | i, hi⟩
  · exact h0
  · exact h1
  · exact h2
  · omega

theorem ext33 {α : Type} {A B : Fin 3 → Fin 3 → α}
    (h00 : A 0 0 = B 0 0) (h01 : A 0 1 = B 0 1) (h02 : A 0 2 = B 0 2)
    (h10 : A 1 0 = B 1 0) (h11 : A 1 1 = B 1 1) (h12 : A 1 2 = B 1 2)
    (h20 : A 2 0 = B 2 0) (h21 : A 2 1 = B 2 1) (h22 : A 2 2 = B 2 2) : A = B :=
  ext3 (ext3 h00 h01 h02) (ext3 h10 h11 h12) (ext3 h20 h21 h22)

/-- Unfold all model definitions and evaluate `![…]` at literal indices. -/
local macro "entries" : tactic =>
  `(tactic| simp only [matMul, mulVec, vecMul, vecMul2, transpose, rotationMatrix,
      rotationMatrixAxis, rotationMatrix2, rot2, rotatePoint, rotatePoint2, mirrorMatrix,
      mirrorPoint, identity, dot, normSq, det3, Matrix.cons_val, Fin.isValue, Fin.reduceEq,
      ↓reduceIte])

/-! ## Convention -/

/-- `p @ M = (Mᵀ p)`: right-multiplying row vectors by `M` is the action of `Mᵀ` on column
vectors. -/
theorem vecMul_eq_mulVec_transpose (p : Fin 3 → K) (M : Fin 3 → Fin 3 → K) :
    vecMul p M = mulVec (transpose M) p := by
  funext j
  simp only [vecMul, mulVec, transpose]
  ring

/-! ## Rotation -/

section rotation
variable {a b c d : K}

/-- `R Rᵀ = I`. -/
theorem rotation_mul_transpose (h : a * a + b * b + c * c + d * d = 1) :
    matMul (rotationMatrix a b c d) (transpose (rotationMatrix a b c d)) = identity := by
  apply ext33 <;> entries <;>
    first
      | ring1
      | linear_combination (a * a + b * b + c * c + d * d + 1) * h

/-- `Rᵀ R = I`. -/
theorem rotation_transpose_mul (h : a * a + b * b + c * c + d * d = 1) :
    matMul (transpose (rotationMatrix a b c d)) (rotationMatrix a b c d) = identity := by
  apply ext33 <;> entries <;>
    first
      | ring1
      | linear_combination (a * a + b * b + c * c + d * d + 1) * h

/-- `det R = 1`. -/
theorem rotation_det (h : a * a + b * b + c * c + d * d = 1) :
    det3 (rotationMatrix a b c d) = 1 := by
  entries
  linear_combination
    ((a * a + b * b + c * c + d * d) ^ 2 + (a * a + b * b + c * c + d * d) + 1) * h

/-- `R (b,c,d)ᵀ = (b,c,d)ᵀ`: the axis is fixed. -/
theorem rotation_fixes_axis (h : a * a + b * b + c * c + d * d = 1) :
    mulVec (rotationMatrix a b c d) ![b, c, d] = ![b, c, d] := by
  apply ext3 <;> entries
  · linear_combination b * h
  · linear_combination c * h
  · linear_combination d * h

/-- `(b,c,d) R = (b,c,d)`: the axis is also fixed by the map the code applies to points. -/
theorem rotation_fixes_axis_row (h : a * a + b * b + c * c + d * d = 1) :
    vecMul ![b, c, d] (rotationMatrix a b c d) = ![b, c, d] := by
  apply ext3 <;> entries
  · linear_combination b * h
  · linear_combination c * h
  · linear_combination d * h

/-- `‖R v‖² = ‖v‖²`. -/
theorem rotation_normSq (h : a * a + b * b + c * c + d * d = 1) (v : Fin 3 → K) :
    normSq (mulVec (rotationMatrix a b c d) v) = normSq v := by
  entries
  linear_combination
    (a * a + b * b + c * c + d * d + 1) * (v 0 * v 0 + v 1 * v 1 + v 2 * v 2) * h

/-- `‖v R‖² = ‖v‖²`: `rotate` preserves the length of every control point. -/
theorem rotatePoint_normSq (h : a * a + b * b + c * c + d * d = 1) (v : Fin 3 → K) :
    normSq (rotatePoint a b c d v) = normSq v := by
  entries
  linear_combination
    (a * a + b * b + c * c + d * d + 1) * (v 0 * v 0 + v 1 * v 1 + v 2 * v 2) * h

/-- Unconditional polynomial identity behind `rotation_normSq`:
`‖R v‖² = (a²+b²+c²+d²)² ‖v‖²`. -/
theorem rotation_normSq_poly (a b c d : K) (v : Fin 3 → K) :
    normSq (mulVec (rotationMatrix a b c d) v)
      = (a * a + b * b + c * c + d * d) ^ 2 * normSq v := by
  entries
  ring

end rotation

/-- **Sense of rotation.**  With `a = cos(θ/2)`, `s = sin(θ/2)` (so `co = a² - s² = cos θ`,
`si = 2 a s = sin θ`) and unit axis `k`, the point map `p ↦ p @ rotation_matrix(θ, k)` of
`rotate` is Rodrigues' formula for the right-handed rotation by `+θ` about `k`:
`p cos θ + (k × p) sin θ + k (k·p)(1 - cos θ)`. -/
theorem vecMul_rotation_rodrigues {a s : K} {k : Fin 3 → K}
    (ha : a * a + s * s = 1) (hk : k 0 * k 0 + k 1 * k 1 + k 2 * k 2 = 1) (p : Fin 3 → K) :
    vecMul p (rotationMatrixAxis a s k) =
      ![p 0 * (a * a - s * s) + (k 1 * p 2 - k 2 * p 1) * (2 * a * s)
          + k 0 * dot k p * (1 - (a * a - s * s)),
        p 1 * (a * a - s * s) + (k 2 * p 0 - k 0 * p 2) * (2 * a * s)
          + k 1 * dot k p * (1 - (a * a - s * s)),
        p 2 * (a * a - s * s) + (k 0 * p 1 - k 1 * p 0) * (2 * a * s)
          + k 2 * dot k p * (1 - (a * a - s * s))] := by
  apply ext3 <;> entries
  · linear_combination (k 0 * (k 0 * p 0 + k 1 * p 1 + k 2 * p 2)) * ha + (-(s * s) * p 0) * hk
  · linear_combination (k 1 * (k 0 * p 0 + k 1 * p 1 + k 2 * p 2)) * ha + (-(s * s) * p 1) * hk
  · linear_combination (k 2 * (k 0 * p 0 + k 1 * p 1 + k 2 * p 2)) * ha + (-(s * s) * p 2) * hk

/-! ## The 2-D branch of `rotate` agrees with the 3-D branch about `e_z` -/

/-- `rotation_matrix(θ, (0,0,1))`: `a = c0 = cos(θ/2)`, `(b,c,d) = (0,0,-s)`, `s = sin(θ/2)`.
Its upper-left 2×2 block is the matrix `[[cos,-sin],[sin,cos]].T` of the 2-D branch with
`cos = c0² - s²`, `sin = 2 c0 s`; the rest is the unit `z` row/column. -/
theorem rotation_z_eq {c0 s : K} (h : c0 * c0 + s * s = 1) :
    rotationMatrix c0 0 0 (-s) =
      ![![rotationMatrix2 (c0 * c0 - s * s) (2 * c0 * s) 0 0,
          rotationMatrix2 (c0 * c0 - s * s) (2 * c0 * s) 0 1, 0],
        ![rotationMatrix2 (c0 * c0 - s * s) (2 * c0 * s) 1 0,
          rotationMatrix2 (c0 * c0 - s * s) (2 * c0 * s) 1 1, 0],
        ![0, 0, 1]] := by
  apply ext33 <;> entries <;>
    first
      | ring1
      | linear_combination h

/-- The 2-D branch: `(x, y) ↦ (x cos - y sin, x sin + y cos)` – counter-clockwise by `θ`. -/
theorem rotatePoint2_eq (co si : K) (p : Fin 2 → K) :
    rotatePoint2 co si p = ![p 0 * co - p 1 * si, p 0 * si + p 1 * co] := by
  apply ext2 <;> entries
  ring

/-- The 3-D branch about `e_z` does the same to `(x, y)` and leaves `z` alone. -/
theorem rotatePoint_z {c0 s : K} (h : c0 * c0 + s * s = 1) (p : Fin 3 → K) :
    rotatePoint c0 0 0 (-s) p =
      ![rotatePoint2 (c0 * c0 - s * s) (2 * c0 * s) ![p 0, p 1] 0,
        rotatePoint2 (c0 * c0 - s * s) (2 * c0 * s) ![p 0, p 1] 1,
        p 2] := by
  apply ext3 <;> entries
  · ring
  · ring
  · linear_combination (p 2) * h

/-! ## Mirror -/

section mirror
variable {n : Fin 3 → K}

/-- `M M = I`. -/
theorem mirror_involution (h : dot n n = 1) :
    matMul (mirrorMatrix n) (mirrorMatrix n) = identity := by
  simp only [dot] at h
  apply ext33 <;> entries
  · linear_combination (4 * (n 0 * n 0)) * h
  · linear_combination (4 * (n 0 * n 1)) * h
  · linear_combination (4 * (n 0 * n 2)) * h
  · linear_combination (4 * (n 1 * n 0)) * h
  · linear_combination (4 * (n 1 * n 1)) * h
  · linear_combination (4 * (n 1 * n 2)) * h
  · linear_combination (4 * (n 2 * n 0)) * h
  · linear_combination (4 * (n 2 * n 1)) * h
  · linear_combination (4 * (n 2 * n 2)) * h

/-- `Mᵀ = M` (no hypothesis needed). -/
theorem mirror_symmetric (n : Fin 3 → K) : transpose (mirrorMatrix n) = mirrorMatrix n := by
  apply ext33 <;> entries <;> ring

/-- Row and column action coincide. -/
theorem mirrorPoint_eq_mulVec (n p : Fin 3 → K) : mirrorPoint n p = mulVec (mirrorMatrix n) p := by
  rw [mirrorPoint, vecMul_eq_mulVec_transpose, mirror_symmetric]

/-- Vectors in the mirror plane are fixed (no normalisation needed). -/
theorem mirror_fixes_orthogonal (n : Fin 3 → K) {v : Fin 3 → K} (hv : dot n v = 0) :
    mulVec (mirrorMatrix n) v = v := by
  simp only [dot] at hv
  apply ext3 <;> entries
  · linear_combination (-2 * n 0) * hv
  · linear_combination (-2 * n 1) * hv
  · linear_combination (-2 * n 2) * hv

/-- `M n = -n`. -/
theorem mirror_normal (h : dot n n = 1) :
    mulVec (mirrorMatrix n) n = fun i => - n i := by
  simp only [dot] at h
  apply ext3 <;> entries
  · linear_combination (-2 * n 0) * h
  · linear_combination (-2 * n 1) * h
  · linear_combination (-2 * n 2) * h

/-- General formula `M v = v - 2 (n·v) n`. -/
theorem mirror_mulVec (n v : Fin 3 → K) :
    mulVec (mirrorMatrix n) v = fun i => v i - 2 * dot n v * n i := by
  apply ext3 <;> entries <;> ring

/-- `‖M v‖² = ‖v‖²`. -/
theorem mirror_normSq (h : dot n n = 1) (v : Fin 3 → K) :
    normSq (mulVec (mirrorMatrix n) v) = normSq v := by
  simp only [dot] at h
  entries
  linear_combination (4 * (n 0 * v 0 + n 1 * v 1 + n 2 * v 2) ^ 2) * h

/-- `det M = -1`: a reflection reverses orientation. -/
theorem mirror_det (h : dot n n = 1) : det3 (mirrorMatrix n) = -1 := by
  simp only [dot] at h
  entries
  linear_combination (-2 : K) * h

end mirror

/-! ## Restatement with Mathlib's `Matrix` API -/

section mathlib
open Matrix

theorem matMul_eq_mul (A B : Fin 3 → Fin 3 → K) :
    matMul A B = (Matrix.of A * Matrix.of B : Matrix (Fin 3) (Fin 3) K) := by
  funext i j
  simp [matMul, Matrix.mul_apply, Fin.sum_univ_three]

theorem det3_eq_det (A : Fin 3 → Fin 3 → K) : det3 A = (Matrix.of A).det := by
  rw [Matrix.det_fin_three]
  simp only [det3, Matrix.of_apply]

theorem identity_eq_one : (identity : Fin 3 → Fin 3 → K) = (1 : Matrix (Fin 3) (Fin 3) K) := by
  funext i j
  simp [identity, Matrix.one_apply]

/-- `R * Rᵀ = 1` and `det R = 1` in Mathlib's matrix ring: `R` is a special orthogonal
matrix. -/
theorem rotation_specialOrthogonal {a b c d : K} (h : a * a + b * b + c * c + d * d = 1) :
    (Matrix.of (rotationMatrix a b c d) * (Matrix.of (rotationMatrix a b c d))ᵀ
        = (1 : Matrix (Fin 3) (Fin 3) K))
      ∧ (Matrix.of (rotationMatrix a b c d)).det = 1 := by
  refine ⟨?_, ?_⟩
  · have := rotation_mul_transpose h
    rw [matMul_eq_mul, identity_eq_one] at this
    exact this
  · rw [← det3_eq_det]
    exact rotation_det h

end mathlib

end Splipy.Affine
