import Splipy.Generated.PyBasis
import Splipy.Model.Order
import Splipy.Model.Measure
import Splipy.Lemmas.C20Bisect
import Splipy.Lemmas.C10Cummax
import Splipy.Model.Orientation
import Mathlib.Tactic.NormNum
import Mathlib.Tactic.Ring
import Mathlib.Tactic.Linarith
import Mathlib.Tactic.Push

/-!
# The translated `BSplineBasis` methods are the hand model (work package t1)

`Splipy/Generated/PyBasis.lean` is rewritten on every check by `harness/translate/basis_translate.py`
from the Python AST of `splipy/basis.py`; this file proves, for every translated method `m`, a theorem
`PyBasis_m_eq : Generated.PyBasis.m (ofBasis b) tol … = <hand model of m> b …` (for all inputs; where
the hand model is total on inputs on which Python indexes out of range, or truncates a negative Python
int, under the explicit guard stated in the theorem).  The file is re-checked against the fresh
definitions by `harness/props/_pybasis.py`, which attributes an error inside a section
`### method: m` (or in a section `m` depends on) to the obligation of `m`; sections `## …` hold
lemmas that do not mention generated code.  Proof style: the generated bodies are never restated —
loops are rewritten in place (`forRange_eq_foldl`, `forRange_check`, `forEach_eq_foldl`) with the
model's fold as the target, so a change of the translation's *layout* does not break the proofs,
a change of its *meaning* does.
-/

set_option linter.unusedSectionVars false
set_option linter.unusedSimpArgs false
set_option linter.unnecessarySeqFocus false
set_option linter.unusedVariables false

namespace Splipy.PyB

open Splipy Splipy.Generated

variable {K : Type} [Field K] [LinearOrder K]

/-! ## primitives -/

theorem kn_eq_getD (b : Basis K) {i : ℕ} (h : i < b.knots.size) : b.kn i = b.knots.getD i 0 := by
  unfold Basis.kn
  simp [Array.getD, h]

theorem getItem_nonneg (xs : Array K) {i : Int} (h0 : 0 ≤ i) (h1 : i < xs.size) :
    getItem xs i = .ok (xs.getD i.toNat 0) := by
  simp [getItem, h0, h1]

theorem getItem_neg (xs : Array K) {i : Int} (h0 : i < 0) (h1 : 0 ≤ i + xs.size) :
    getItem xs i = .ok (xs.getD (i + xs.size).toNat 0) := by
  have : ¬ (0 ≤ i) := by omega
  simp [getItem, this, h1]

@[simp] theorem ofBasis_knots (b : Basis K) : (ofBasis b).knots = b.knots := rfl
@[simp] theorem ofBasis_order (b : Basis K) : (ofBasis b).order = b.order := rfl
@[simp] theorem ofBasis_periodic (b : Basis K) : (ofBasis b).periodic = b.periodic := rfl

/-! ## the exception monad -/

@[simp] theorem ok_bind {α β : Type} (x : α) (f : α → PyM β) : (Except.ok x >>= f) = f x := rfl
@[simp] theorem error_bind {α β : Type} (e : PyErr) (f : α → PyM β) : (Except.error e >>= f) = .error e := rfl
@[simp] theorem pure_eq_ok {α : Type} (x : α) : (pure x : PyM α) = .ok x := rfl
@[simp] theorem throw_eq_error {α : Type} (e : PyErr) : (throw e : PyM α) = .error e := rfl
@[simp] theorem map_ok {α β : Type} (f : α → β) (x : α) : Except.map f (.ok x : PyM α) = .ok (f x) := rfl
@[simp] theorem map_error {α β : Type} (f : α → β) (e : PyErr) : Except.map f (.error e : PyM α) = .error e := rfl

/-! ## loops -/

theorem foldlM_ok_inv {α σ : Type} (l : List α) (f : σ → α → PyM σ) (g : σ → α → σ) (Inv : σ → Prop)
    (s : σ) (hs : Inv s) (h : ∀ a ∈ l, ∀ s, Inv s → f s a = .ok (g s a) ∧ Inv (g s a)) :
    l.foldlM f s = .ok (l.foldl g s) ∧ Inv (l.foldl g s) := by
  induction l generalizing s with
  | nil => exact ⟨rfl, hs⟩
  | cons a l ih =>
    obtain ⟨h1, h2⟩ := h a (by simp) s hs
    have := ih (g s a) h2 (fun a' ha' => h a' (by simp [ha']))
    simp only [List.foldlM_cons, h1, List.foldl_cons]
    exact this

theorem foldlM_check {α : Type} (l : List α) (f : α → PyM Unit) (c : α → Bool) (e : PyErr)
    (h : ∀ a ∈ l, f a = if c a then .error e else .ok ()) :
    l.foldlM (fun (_ : Unit) a => f a) () = if l.any c then .error e else .ok () := by
  induction l with
  | nil => rfl
  | cons a l ih =>
    have ha := h a (by simp)
    simp only [List.foldlM_cons, ha, List.any_cons]
    by_cases hc : c a = true
    · simp only [hc, if_true, Bool.true_or]; rfl
    · simp only [hc, if_false, Bool.false_or]
      exact ih (fun a' ha' => h a' (by simp [ha']))

theorem rangeI_nat (lo hi : Int) (h0 : 0 ≤ lo) :
    rangeI lo hi = (List.range' lo.toNat (hi - lo).toNat).map (fun (k : ℕ) => (k : Int)) := by
  unfold rangeI
  rw [List.range'_eq_map_range, List.map_map]
  apply List.map_congr_left
  intro k _
  simp only [Function.comp]
  omega

theorem mem_rangeI {lo hi i : Int} : i ∈ rangeI lo hi ↔ lo ≤ i ∧ i < hi := by
  unfold rangeI
  simp only [List.mem_map, List.mem_range]
  constructor
  · rintro ⟨k, hk, rfl⟩; omega
  · intro h; exact ⟨(i - lo).toNat, by omega, by omega⟩

/-- A loop over `range(lo, hi)` (`0 ≤ lo`) whose body never raises on states satisfying the invariant
    is the pure fold of the model. -/
theorem forRange_eq_foldl {σ : Type} (lo hi : Int) (s : σ) (f : Int → σ → PyM σ) (g : ℕ → σ → σ)
    (Inv : σ → Prop) (h0 : 0 ≤ lo) (hs : Inv s)
    (h : ∀ (i : ℕ) s, lo ≤ (i : Int) → (i : Int) < hi → Inv s → f i s = .ok (g i s) ∧ Inv (g i s)) :
    forRange lo hi s f = .ok ((List.range' lo.toNat (hi - lo).toNat).foldl (fun s i => g i s) s)
      ∧ Inv ((List.range' lo.toNat (hi - lo).toNat).foldl (fun s i => g i s) s) := by
  unfold forRange
  have := foldlM_ok_inv (rangeI lo hi) (fun s i => f i s) (fun s (i : Int) => g i.toNat s) Inv s hs
    (by
      intro a ha s hs
      obtain ⟨h1, h2⟩ := mem_rangeI.mp ha
      have := h a.toNat s (by omega) (by omega) hs
      rwa [show ((a.toNat : ℕ) : Int) = a by omega] at this)
  rw [rangeI_nat lo hi h0, List.foldl_map] at this
  rw [rangeI_nat lo hi h0]
  simpa using this

/-- A checking loop (no state): raises `e` iff some index fails the test. -/
theorem forRange_check (lo hi : Int) (f : Int → Unit → PyM Unit) (c : Int → Bool) (e : PyErr)
    (h : ∀ i, lo ≤ i → i < hi → f i () = if c i then .error e else .ok ()) :
    forRange lo hi () f = if (rangeI lo hi).any c then .error e else .ok () := by
  unfold forRange
  exact foldlM_check (rangeI lo hi) (fun i => f i ()) c e
    (fun a ha => h a (mem_rangeI.mp ha).1 (mem_rangeI.mp ha).2)

/-! ### method: num_functions -/

theorem _root_.PyBasis_num_functions_eq (b : Basis K) (tol : K) (h : b.order + (b.periodic + 1).toNat ≤ b.knots.size)
    (hp : -1 ≤ b.periodic) :
    PyBasis.num_functions (ofBasis b) tol = .ok (b.numFunctions : Int) := by
  simp only [PyBasis.num_functions, Basis.numFunctions, len, ofBasis_knots, ofBasis_order, ofBasis_periodic]
  congr 1
  omega

/-! ### method: start -/

theorem _root_.PyBasis_start_eq (b : Basis K) (tol : K) (h1 : 1 ≤ b.order) (h2 : b.order ≤ b.knots.size) :
    PyBasis.start (ofBasis b) tol = .ok b.start := by
  have e : ((b.order : Int) - 1).toNat = b.order - 1 := by omega
  simp only [PyBasis.start, ofBasis_knots, ofBasis_order]
  rw [getItem_nonneg _ (by omega) (by omega), e, Basis.start, kn_eq_getD b (by omega)]

/-! ### method: end -/

theorem _root_.PyBasis_end_eq (b : Basis K) (tol : K) (h1 : 1 ≤ b.order) (h2 : b.order ≤ b.knots.size) :
    PyBasis.end (ofBasis b) tol = .ok b.stop := by
  have e : (-(b.order : Int) + b.knots.size).toNat = b.knots.size - b.order := by omega
  simp only [PyBasis.end, ofBasis_knots, ofBasis_order]
  rw [getItem_neg _ (by omega) (by omega), e, Basis.stop, kn_eq_getD b (by omega)]

/-! ## helpers for __init__ -/

theorem rangeI_zero_any (hi : Int) (c : Int → Bool) :
    (rangeI 0 hi).any c = (List.range hi.toNat).any (fun (i : ℕ) => c (i : Int)) := by
  rw [rangeI_nat 0 hi (le_refl _), List.any_map]
  simp [List.range_eq_range']
  rfl

/-- Python indexing with `getD` (the accessor inside `Basis.mk?`). -/
def pyKnot (knots : Array K) (i : Int) : K :=
  knots.getD (if i < 0 then (knots.size : Int) + i else i).toNat 0

def perBad (p : ℕ) (knots : Array K) (k : Int) (tol : K) (i : Int) : Bool :=
  decide (|(pyKnot knots (i+1) - pyKnot knots i)
    - (pyKnot knots (-(p:Int) - k + i) - pyKnot knots (-(p:Int) - k - 1 + i))| > tol)

def sortBad (knots : Array K) (tol : K) (i : ℕ) : Bool :=
  decide (knots.getD (i+1) 0 - knots.getD i 0 < -tol)

theorem mk?_unfold (p : ℕ) (knots : Array K) (periodic : Int) (tol : K) :
    Basis.mk? p knots periodic tol =
      if p < 1 then .error .value
      else if knots.size < 2 * p then .error .value
      else if max periodic (-1) ≥ 0 ∧ (knots.size : Int) < (p : Int) + max periodic (-1) + 1 then .error .value
      else if max periodic (-1) ≥ 0 ∧
          (List.range ((p : Int) + max periodic (-1) - 1).toNat).any
            (fun (i : ℕ) => perBad p knots (max periodic (-1)) tol i) = true then .error .value
      else if (List.range (knots.size - 1)).any (sortBad knots tol) = true then .error .value
      else .ok { order := p, knots := Basis.cummax knots, periodic := max periodic (-1) } := rfl

/-! ### method: __init__ -/

theorem _root_.PyBasis_init_eq (p : ℕ) (knots : Array K) (periodic : Int) (tol : K) :
    PyBasis.init tol p knots periodic = (Basis.mk? p knots periodic tol).map ofBasis := by
  rw [mk?_unfold]
  unfold PyBasis.init
  simp only [len]
  by_cases h1 : p < 1
  · have : (p : Int) < 1 := by omega
    simp [h1, this]
  · have h1' : ¬ (p : Int) < 1 := by omega
    by_cases h2 : knots.size < 2 * p
    · have : (knots.size : Int) < 2 * p := by omega
      simp [h1, h1', h2, this]
    · have h2' : ¬ (knots.size : Int) < 2 * p := by omega
      simp only [h1, h1', h2, h2', if_false, pure_eq_ok, ok_bind]
      -- the monotonicity loop
      rw [forRange_check 0 ((knots.size : Int) - 1) _ (fun i => sortBad knots tol i.toNat) .value
        (by
          intro i h0 h1
          rw [getItem_nonneg _ (by omega) (by omega), getItem_nonneg _ (by omega) (by omega)]
          have : (i + 1).toNat = i.toNat + 1 := by omega
          simp only [sortBad, decide_eq_true_eq, ok_bind, this]
          split <;> simp)]
      rw [rangeI_zero_any, show ((knots.size : Int) - 1).toNat = knots.size - 1 by omega]
      simp only [Int.toNat_natCast]
      change _ = Except.map ofBasis (if _ then _ else if _ then _
        else if (List.range (knots.size - 1)).any (fun i => sortBad knots tol i) = true then _ else _)
      by_cases hk : max periodic (-1) ≥ 0
      · by_cases hshort : (knots.size : Int) < (p : Int) + max periodic (-1) + 1
        · have hks : max periodic (-1) ≥ 0 ∧ (knots.size : Int) < (p : Int) + max periodic (-1) + 1 := ⟨hk, hshort⟩
          rw [if_pos hk, if_pos hks]
          simp only [hshort, if_true]
          rfl
        have hidx' : (p : Int) + max periodic (-1) + 1 ≤ knots.size := by omega
        have hks : ¬ (max periodic (-1) ≥ 0 ∧ (knots.size : Int) < (p : Int) + max periodic (-1) + 1) :=
          fun h => hshort h.2
        rw [if_pos hk, if_neg hks]
        simp only [hshort, if_false, pure_eq_ok, ok_bind]
        rw [forRange_check 0 _ _ (perBad p knots (max periodic (-1)) tol) .value
          (by
            intro i h0 h1
            rw [getItem_nonneg _ (by omega) (by omega), getItem_nonneg _ (by omega) (by omega),
              getItem_neg _ (by omega) (by omega), getItem_neg _ (by omega) (by omega)]
            have e1 : ¬ (i + 1 < 0) := by omega
            have e2 : ¬ (i < 0) := by omega
            have e3 : -↑p - max periodic (-1) + i < 0 := by omega
            have e4 : -↑p - max periodic (-1) - 1 + i < 0 := by omega
            simp only [perBad, pyKnot, e1, e2, e3, e4, if_true, if_false, decide_eq_true_eq, ok_bind]
            rw [add_comm (knots.size : Int), add_comm (knots.size : Int)]
            split <;> simp)]
        rw [rangeI_zero_any]
        simp only [hk, true_and]
        split <;> simp
        split <;> simp [ofBasis]
      · simp only [hk, false_and, if_false, ok_bind]
        split <;> simp [ofBasis]

/-! ## helpers for greville -/

theorem npSum_extract (xs : Array K) (lo m : ℕ) (h : lo + m ≤ xs.size) :
    npSum (xs.extract lo (lo + m)) = (List.range m).foldl (fun acc j => acc + xs.getD (lo + j) 0) 0 := by
  induction m with
  | zero => simp [npSum, Array.extract_empty_of_stop_le_start]
  | succ m ih =>
    have hlt : lo + m < xs.size := by omega
    rw [← Nat.add_assoc, Array.extract_succ_right (by omega) hlt]
    unfold npSum at ih ⊢
    rw [Array.foldl_push, ih (by omega), List.range_succ, List.foldl_append]
    simp [Array.getD, hlt]

theorem foldl_push_eq_ofFn {α : Type} (h : ℕ → α) (n : ℕ) :
    (List.range' 0 n).foldl (fun (s : Array α) i => s.push (h i)) #[] = Array.ofFn (n := n) (fun i => h i.val) := by
  induction n with
  | zero => simp
  | succ n ih =>
    rw [List.range'_1_concat, List.foldl_append, ih, Array.ofFn_succ]
    simp

theorem forRange_first_error {σ : Type} (lo hi : Int) (s : σ) (f : Int → σ → PyM σ) (e : PyErr)
    (hlt : lo < hi) (h : f lo s = .error e) : forRange lo hi s f = .error e := by
  unfold forRange rangeI
  obtain ⟨m, hm⟩ : ∃ m : ℕ, (hi - lo).toNat = m + 1 := ⟨(hi - lo).toNat - 1, by omega⟩
  rw [hm, List.range_succ_eq_map]
  simp [h]

theorem forRange_empty {σ : Type} (lo hi : Int) (s : σ) (f : Int → σ → PyM σ) (h : hi ≤ lo) :
    forRange lo hi s f = .ok s := by
  unfold forRange rangeI
  rw [show (hi - lo).toNat = 0 by omega]
  rfl

theorem sliceLo_some (n : ℕ) (i : Int) (h0 : 0 ≤ i) : sliceLo n (some i) = min i.toNat n := by
  simp [sliceLo]; omega
theorem sliceHi_some (n : ℕ) (i : Int) (h0 : 0 ≤ i) : sliceHi n (some i) = min i.toNat n := by
  simp [sliceHi]; omega

/-! ### method: greville -/

theorem _root_.PyBasis_greville_eq (b : Basis K) (tol : K) (h1 : 1 ≤ b.order)
    (h2 : b.order + (b.periodic + 1).toNat ≤ b.knots.size) (hp : -1 ≤ b.periodic) :
    PyBasis.greville (ofBasis b) tol = b.greville := by
  unfold PyBasis.greville Basis.greville
  rw [PyBasis_num_functions_eq b tol h2 hp]
  simp only [ok_bind, ofBasis_knots, ofBasis_order, append]
  by_cases hz : b.order = 1
  · by_cases hn : 0 < b.numFunctions
    · rw [if_pos ⟨hz, hn⟩, forRange_first_error 0 _ _ _ .zeroDiv (by omega) (by simp [pyDivI, hz])]
      rfl
    · rw [if_neg (by tauto), forRange_empty _ _ _ _ (by omega)]
      have : b.numFunctions = 0 := by omega
      simp [this]
  · rw [if_neg (by tauto)]
    have hnf : b.numFunctions = b.knots.size - b.order - (b.periodic + 1).toNat := rfl
    rw [(forRange_eq_foldl 0 (b.numFunctions : Int) (#[] : Array K) _
      (fun i s => s.push ((List.range (b.order - 1)).foldl (fun acc j => acc + b.kn (i + 1 + j)) 0 / ((b.order : K) - 1)))
      (fun _ => True) (le_refl _) trivial
      (by
        intro i s h0 hi _
        refine ⟨?_, trivial⟩
        have hd : ((b.order : Int) - 1) ≠ 0 := by omega
        simp only [pyDivI, hd, if_false, ok_bind, pure_eq_ok, slice]
        rw [sliceLo_some _ _ (by omega), sliceHi_some _ _ (by omega)]
        have e1 : min ((i : Int) + 1).toNat b.knots.size = i + 1 := by omega
        have e2 : min ((i : Int) + b.order).toNat b.knots.size = (i + 1) + (b.order - 1) := by omega
        rw [e1, e2, npSum_extract _ _ _ (by omega)]
        congr 3
        · apply List.foldl_ext
          intro acc j hj
          rw [kn_eq_getD b (by have := List.mem_range.mp hj; omega)]
        · push_cast; ring)).1]
    simp only [ok_bind, pure_eq_ok, Int.toNat_zero, sub_zero, Int.toNat_natCast]
    rw [foldl_push_eq_ofFn]

/-! ## helpers: bisect -/

theorem bisectLeftAux_congr (a a' : ℕ → K) (v : K) (lo hi : ℕ) (h : ∀ i, i < hi → a i = a' i) :
    bisectLeftAux a v lo hi = bisectLeftAux a' v lo hi := by
  fun_induction bisectLeftAux a v lo hi with
  | case1 lo hi hlt mid hc ih =>
    rw [bisectLeftAux.eq_1 a', dif_pos hlt]
    have : a' ((lo + hi) / 2) < v := by rw [← h _ (by omega)]; exact hc
    simp only [this, if_true]
    exact ih h
  | case2 lo hi hlt mid hc ih =>
    rw [bisectLeftAux.eq_1 a', dif_pos hlt]
    have : ¬ a' ((lo + hi) / 2) < v := by rw [← h _ (by omega)]; exact hc
    simp only [this, if_false]
    exact ih (fun i hi' => h i (by omega))
  | case3 lo hi hlt =>
    rw [bisectLeftAux.eq_1 a', dif_neg hlt]

theorem bisectRightAux_congr (a a' : ℕ → K) (v : K) (lo hi : ℕ) (h : ∀ i, i < hi → a i = a' i) :
    bisectRightAux a v lo hi = bisectRightAux a' v lo hi := by
  fun_induction bisectRightAux a v lo hi with
  | case1 lo hi hlt mid hc ih =>
    rw [bisectRightAux.eq_1 a', dif_pos hlt]
    have : v < a' ((lo + hi) / 2) := by rw [← h _ (by omega)]; exact hc
    simp only [this, if_true]
    exact ih (fun i hi' => h i (by omega))
  | case2 lo hi hlt mid hc ih =>
    rw [bisectRightAux.eq_1 a', dif_pos hlt]
    have : ¬ v < a' ((lo + hi) / 2) := by rw [← h _ (by omega)]; exact hc
    simp only [this, if_false]
    exact ih h
  | case3 lo hi hlt =>
    rw [bisectRightAux.eq_1 a', dif_neg hlt]

theorem bisect_left_eq (b : Basis K) (v : K) : bisect_left b.knots v = (b.bisectL v : ℕ) := by
  unfold bisect_left Basis.bisectL bisectLeft
  rw [bisectLeftAux_congr _ b.kn v 0 _ (fun i hi => (kn_eq_getD b hi).symm)]

theorem bisect_right_eq (b : Basis K) (v : K) : bisect_right b.knots v = (b.bisectR v : ℕ) := by
  unfold bisect_right Basis.bisectR bisectRight
  rw [bisectRightAux_congr _ b.kn v 0 _ (fun i hi => (kn_eq_getD b hi).symm)]

/-! ## helpers for snap -/

theorem setItem_nonneg (xs : Array K) {i : Int} (v : K) (h0 : 0 ≤ i) (h1 : i < xs.size) :
    setItem xs i v = .ok (xs.set! i.toNat v) := by
  simp [setItem, h0, h1]

theorem foldl_set_map (ts : Array K) (f : K → K) (k : ℕ) (hk : k ≤ ts.size) :
    (List.range' 0 k).foldl (fun (s : Array K) j => s.set! j (f (s.getD j 0))) ts
      = Array.ofFn (n := ts.size) (fun i => if i.val < k then f (ts.getD i.val 0) else ts.getD i.val 0) := by
  induction k with
  | zero =>
    apply Array.ext
    · simp
    · intro i h1 h2; simp [Array.getD]
  | succ k ih =>
    rw [List.range'_1_concat, List.foldl_append, ih (by omega)]
    apply Array.ext
    · simp
    · intro i h1 h2
      simp only [Array.size_ofFn] at h2
      simp only [zero_add, List.foldl_cons, List.foldl_nil, Array.set!_eq_setIfInBounds]
      rw [Array.getElem_setIfInBounds (by simpa using h2)]
      by_cases hik : k = i
      · subst hik
        simp [Array.getD, h2]
      · simp only [hik, if_false, Array.getElem_ofFn]
        by_cases h : i < k
        · rw [if_pos h, if_pos (by omega)]
        · rw [if_neg h, if_neg (by omega)]

theorem bisectLeftAux_le (a : ℕ → K) (v : K) (lo hi : ℕ) (h : lo ≤ hi) : bisectLeftAux a v lo hi ≤ hi := by
  fun_induction bisectLeftAux a v lo hi with
  | case1 lo hi hlt mid hc ih => exact ih (by omega)
  | case2 lo hi hlt mid hc ih => have := ih (by omega); omega
  | case3 lo hi hlt => omega

theorem bisectRightAux_le (a : ℕ → K) (v : K) (lo hi : ℕ) (h : lo ≤ hi) : bisectRightAux a v lo hi ≤ hi := by
  fun_induction bisectRightAux a v lo hi with
  | case1 lo hi hlt mid hc ih => have := ih (by omega); omega
  | case2 lo hi hlt mid hc ih => exact ih (by omega)
  | case3 lo hi hlt => omega

theorem bisectL_le (b : Basis K) (v : K) : b.bisectL v ≤ b.knots.size := bisectLeftAux_le _ _ _ _ (Nat.zero_le _)
theorem bisectR_le (b : Basis K) (v : K) : b.bisectR v ≤ b.knots.size := bisectRightAux_le _ _ _ _ (Nat.zero_le _)

theorem set!_getD_self (s : Array K) (j : ℕ) : s.set! j (s.getD j 0) = s := by
  apply Array.ext
  · simp
  · intro i h1 h2
    simp only [Array.set!_eq_setIfInBounds]
    rw [Array.getElem_setIfInBounds h2]
    split
    · rename_i h; subst h; simp [Array.getD, h2]
    · rfl

/-! ### method: snap -/

theorem _root_.PyBasis_snap_eq (b : Basis K) (tol : K) (ts : Array K) :
    PyBasis.snap (ofBasis b) tol ts = .ok (ts.map (Splipy.snap b tol)) := by
  unfold PyBasis.snap
  simp only [ofBasis_knots, len]
  rw [(forRange_eq_foldl 0 (ts.size : Int) ts _
      (fun j s => s.set! j (Splipy.snap b tol (s.getD j 0))) (fun s => s.size = ts.size) (le_refl _) rfl
      (by
        intro j s h0 hj hs
        refine ⟨?_, by simp [hs]⟩
        have hj' : (j : Int) < s.size := by omega
        simp only [getItem_nonneg s h0 hj', ok_bind, Int.toNat_natCast, bisect_left_eq, pure_eq_ok]
        have hsn : Splipy.snap b tol (s.getD j 0) =
            (let i := b.bisectL (s.getD j 0)
             if i < b.knots.size ∧ |b.kn i - s.getD j 0| < tol then b.kn i
             else if 0 < i ∧ |b.kn (i - 1) - s.getD j 0| < tol then b.kn (i - 1) else s.getD j 0) := rfl
        rw [hsn]
        have hle := bisectL_le b (s.getD j 0)
        generalize b.bisectL (s.getD j 0) = i at hle ⊢
        generalize ht : s.getD j 0 = t
        have hself : s = s.setIfInBounds j t := by rw [← ht, ← Array.set!_eq_setIfInBounds, set!_getD_self]
        simp only []
        by_cases hin : i < b.knots.size
        · have hin' : (i : Int) < b.knots.size := by omega
          rw [if_pos hin', getItem_nonneg _ (by omega) hin', Int.toNat_natCast, ← kn_eq_getD b hin]
          simp only [ok_bind, decide_eq_true_eq, hin, true_and]
          by_cases hc : |b.kn i - t| < tol
          · simp [hc, setItem_nonneg s _ h0 hj']
          · simp only [hc, if_false]
            by_cases hi0 : 0 < i
            · have e : ((i : Int) - 1).toNat = i - 1 := by omega
              rw [if_pos (by omega), getItem_nonneg _ (by omega) (by omega), e, ← kn_eq_getD b (by omega)]
              simp only [ok_bind, decide_eq_true_eq, hi0, true_and]
              by_cases hc2 : |b.kn (i - 1) - t| < tol
              · simp [hc2, setItem_nonneg s _ h0 hj']
              · simpa [hc2] using hself
            · have : ¬ ((i : Int) > 0) := by omega
              simpa [this, hi0] using hself
        · have hin' : ¬ (i : Int) < b.knots.size := by omega
          rw [if_neg hin']
          simp only [ok_bind, Bool.false_eq_true, if_false, hin, false_and]
          by_cases hi0 : 0 < i
          · have e : ((i : Int) - 1).toNat = i - 1 := by omega
            rw [if_pos (by omega), getItem_nonneg _ (by omega) (by omega), e, ← kn_eq_getD b (by omega)]
            simp only [ok_bind, decide_eq_true_eq, hi0, true_and]
            by_cases hc2 : |b.kn (i - 1) - t| < tol
            · simp [hc2, setItem_nonneg s _ h0 hj']
            · simpa [hc2] using hself
          · have : ¬ ((i : Int) > 0) := by omega
            simpa [this, hi0] using hself)).1]
  simp only [Int.toNat_zero, sub_zero, Int.toNat_natCast, ok_bind, pure_eq_ok]
  rw [foldl_set_map ts _ ts.size (le_refl _)]
  congr 1
  apply Array.ext
  · simp
  · intro i h1 h2
    simp only [Array.size_ofFn] at h1
    simp [Array.getD]

/-! ## helpers for continuity -/

/-- `np.inf` / int results of `continuity` in the hand model's encoding. -/
def extOfOpt : Option Int → Ext
  | none => .inf
  | some c => .fin c

/-! ### method: continuity -/

theorem _root_.PyBasis_continuity_eq [FloorRing K] (b : Basis K) (tol knot : K) (h1 : 1 ≤ b.order)
    (h2 : b.order ≤ b.knots.size) :
    PyBasis.continuity (ofBasis b) tol knot = (b.continuity tol knot).map extOfOpt := by
  unfold PyBasis.continuity Basis.continuity
  simp only [PyBasis_start_eq b tol h1 h2, PyBasis_end_eq b tol h1 h2, ok_bind, ofBasis_periodic, ofBasis_knots,
    ofBasis_order, pure_eq_ok, bisect_left_eq]
  by_cases hp : b.periodic ≥ 0
  · simp only [hp, if_true]
    by_cases hc1 : knot < b.start
    · simp [hc1]
      split <;> simp_all [extOfOpt]
    · by_cases hc2 : knot > b.stop
      · simp [hc1, hc2]
        split <;> simp_all [extOfOpt]
      · simp [hc1, hc2]
        split <;> simp_all [extOfOpt]
  · simp only [hp, if_false]
    by_cases hc1 : knot < b.start - tol
    · simp [hc1]
    · by_cases hc2 : b.stop + tol < knot
      · simp [hc1, hc2]
      · simp [hc1, hc2]
        split <;> simp_all [extOfOpt]

/-! ## helpers for knot_spans -/

theorem forEach_eq_foldl {α σ : Type} (xs : Array α) (s : σ) (f : α → σ → PyM σ) (g : σ → α → σ)
    (Inv : σ → Prop) (hs : Inv s) (h : ∀ a s, Inv s → f a s = .ok (g s a) ∧ Inv (g s a)) :
    forEach xs s f = .ok (xs.toList.foldl g s) ∧ Inv (xs.toList.foldl g s) :=
  foldlM_ok_inv xs.toList (fun s a => f a s) g Inv s hs (fun a _ s hs => h a s hs)

/-! ### method: knot_spans -/

theorem _root_.PyBasis_knot_spans_eq (b : Basis K) (tol : K) (ghost : Bool) (h1 : 1 ≤ b.order)
    (h2 : b.order ≤ b.knots.size) :
    PyBasis.knot_spans (ofBasis b) tol ghost = .ok (b.knotSpans tol ghost) := by
  unfold PyBasis.knot_spans Basis.knotSpans
  simp only [ofBasis_knots, ofBasis_order, ok_bind, pure_eq_ok]
  cases ghost
  · simp only [Bool.false_eq_true, if_false]
    have e : ((b.order : Int) - 1).toNat = b.order - 1 := by omega
    rw [getItem_nonneg _ (by omega) (by omega), e, ← kn_eq_getD b (by omega)]
    simp only [ok_bind]
    rw [(forEach_eq_foldl _ _ _ (fun (acc : Array K) k => if |k - acc.getD (acc.size - 1) 0| > tol then acc.push k else acc)
      (fun s => 1 ≤ s.size) (by simp) (by
        intro k s hs
        rw [getItem_neg s (by omega) (by omega)]
        have : ((-1 : Int) + s.size).toNat = s.size - 1 := by omega
        simp only [this, ok_bind, append, pure_eq_ok]
        split <;> simp <;> omega)).1]
    simp only [ok_bind, slice]
    congr 2
    rw [sliceLo_some _ _ (by omega)]
    by_cases hp1 : b.order = 1
    · rw [if_pos hp1, sliceHi_some _ _ (by omega)]
      have : min (-(b.order : Int) + 1).toNat b.knots.size = 0 := by omega
      rw [this]
      simp
    · rw [if_neg hp1]
      have hneg : (-(b.order : Int) + 1) < 0 := by omega
      simp only [sliceHi, hneg, if_true]
      congr 2 <;> omega
  · simp only [if_true]
    rw [getItem_nonneg _ (by omega) (by omega), ← kn_eq_getD b (by omega)]
    simp only [ok_bind, Int.toNat_zero]
    rw [(forEach_eq_foldl _ _ _ (fun (acc : Array K) k => if |k - acc.getD (acc.size - 1) 0| > tol then acc.push k else acc)
      (fun s => 1 ≤ s.size) (by simp) (by
        intro k s hs
        rw [getItem_neg s (by omega) (by omega)]
        have : ((-1 : Int) + s.size).toNat = s.size - 1 := by omega
        simp only [this, ok_bind, append, pure_eq_ok]
        split <;> simp <;> omega)).1]
    rfl

/-! ### method: reverse -/

theorem _root_.PyBasis_reverse_eq (b : Basis K) (tol : K) (h1 : 1 ≤ b.order) (h2 : b.order ≤ b.knots.size) :
    PyBasis.reverse (ofBasis b) tol = .ok (ofBasis b.reverse) := by
  unfold PyBasis.reverse Basis.reverse
  simp only [PyBasis_start_eq b tol h1 h2, PyBasis_end_eq b tol h1 h2, ok_bind, pure_eq_ok, ofBasis_knots]
  simp only [arrAddS, arrMulS, arrDivS, arrSubS, reversed, Array.map_map, ofBasis]
  rfl

/-! ### method: reparam -/

theorem _root_.PyBasis_reparam_eq (b : Basis K) (tol s e : K) (h1 : 1 ≤ b.order) (h2 : b.order ≤ b.knots.size) :
    PyBasis.reparam (ofBasis b) tol s e = (b.reparam s e).map ofBasis := by
  unfold PyBasis.reparam Basis.reparam PyBasis.normalize PyBasis.isub PyBasis.itruediv PyBasis.imul PyBasis.iadd
  by_cases hes : e ≤ s
  · simp [hes]
  · simp only [hes, if_false, PyBasis_start_eq b tol h1 h2, ok_bind, pure_eq_ok, map_ok]
    have := PyBasis_end_eq { b with knots := b.knots.map (fun x => x - b.start) } tol h1 (by simpa using h2)
    simp only [ofBasis] at this ⊢
    simp only [arrSubS, this, ok_bind, arrDivS, arrMulS, arrAddS, Array.map_map]
    rfl

/-! ## helpers for roll -/

theorem sliceAssign_prefix (xs v : Array K) (m : Int) (h0 : 0 ≤ m) (hm : m ≤ xs.size) (hv : (v.size : Int) = m) :
    sliceAssign xs none (some m) v = .ok (v ++ xs.extract m.toNat xs.size) := by
  unfold sliceAssign
  have e1 : sliceLo xs.size none = 0 := rfl
  have e2 : sliceHi xs.size (some m) = m.toNat := by rw [sliceHi_some _ _ h0]; omega
  simp only [e1, e2]
  have : max 0 m.toNat = m.toNat := by omega
  rw [this, if_pos (by omega)]
  simp

theorem sliceAssign_suffix (xs v : Array K) (m : Int) (h0 : 0 ≤ m) (hm : m ≤ xs.size)
    (hv : (v.size : Int) = xs.size - m) :
    sliceAssign xs (some m) none v = .ok (xs.extract 0 m.toNat ++ v) := by
  unfold sliceAssign
  have e1 : sliceLo xs.size (some m) = m.toNat := by rw [sliceLo_some _ _ h0]; omega
  have e2 : sliceHi xs.size none = xs.size := rfl
  simp only [e1, e2]
  have : max m.toNat xs.size = xs.size := by omega
  rw [this, if_pos (by omega)]
  simp

theorem slice_nat {α : Type} (xs : Array α) (a c : ℕ) (ha : a ≤ xs.size) (hc : c ≤ xs.size) :
    slice xs (some (a : Int)) (some (c : Int)) = xs.extract a c := by
  simp only [slice]
  rw [sliceLo_some _ _ (by omega), sliceHi_some _ _ (by omega)]
  congr <;> omega

theorem slice_zero_nat {α : Type} (xs : Array α) (c : ℕ) (hc : c ≤ xs.size) :
    slice xs (some (0 : Int)) (some (c : Int)) = xs.extract 0 c := by
  simpa using slice_nat xs 0 c (Nat.zero_le _) hc

/-! ### method: roll -/

theorem _root_.PyBasis_roll_eq (b : Basis K) (tol : K) (newStart : ℕ)
    (hidx : b.periodic < 0 ∨ (b.order : Int) + b.periodic + 1 + newStart ≤ b.knots.size) :
    PyBasis.roll (ofBasis b) tol newStart = (b.roll newStart).map ofBasis := by
  unfold PyBasis.roll Basis.roll
  simp only [ofBasis_knots, ofBasis_order, ofBasis_periodic, len]
  by_cases hp : b.periodic < 0
  · simp [hp]
  · have hn := hidx.resolve_left hp
    simp only [hp, if_false, pure_eq_ok, ok_bind]
    obtain ⟨k, hk⟩ : ∃ k : ℕ, b.periodic = k := ⟨b.periodic.toNat, by omega⟩
    have hk' : b.periodic.toNat = k := by omega
    rw [getItem_nonneg _ (by omega) (by omega), getItem_neg _ (by omega) (by omega)]
    simp only [ok_bind, hk, hk']
    have e0 : (-(b.order : Int) - k - 1 + b.knots.size).toNat = b.knots.size - b.order - k - 1 := by omega
    rw [e0, Int.toNat_zero, ← kn_eq_getD b (by omega), ← kn_eq_getD b (by omega)]
    set L := b.knots.size - b.order - k - 1 with hL
    have eL : ((b.knots.size : Int) - b.order - k - 1) = L := by omega
    rw [eL]
    have ell : ((L : Int) - newStart) = ((L - newStart : ℕ) : Int) := by omega
    simp only [ell]
    set ll := L - newStart with hll
    have enl : ((b.knots.size : Int) - ll) = ((b.knots.size - ll : ℕ) : Int) := by omega
    rw [enl, slice_nat _ _ _ (by omega) (by omega), slice_zero_nat _ _ (by omega)]
    simp only [Int.toNat_natCast, ← hL, ← hll]
    rw [sliceAssign_prefix _ _ _ (by omega) (by omega) (by simp; omega)]
    simp only [ok_bind]
    rw [sliceAssign_suffix _ _ _ (by omega) (by simp; omega) (by simp [arrSubS]; omega)]
    simp only [map_ok, ofBasis]
    simp only [ok_bind, Int.toNat_natCast, arrSubS]
    congr 2
    rw [Array.extract_append]
    have hsz : (b.knots.extract newStart L).size = ll := by simp; omega
    rw [hsz, Nat.sub_self]
    have : (b.knots.extract newStart L).extract 0 ll = b.knots.extract newStart L := by
      rw [← hsz]; exact Array.extract_size
    rw [this]
    simp

/-! ## helpers for make_periodic -/

theorem listMul_singleton {α : Type} (x : α) (n : Int) : listMul #[x] n = Array.replicate n.toNat x := by
  unfold listMul
  apply Array.ext'
  induction n.toNat with
  | zero => rfl
  | succ m ih => simp [List.replicate_succ, ih]

/-! ### method: make_periodic -/

/-! ## helpers: matrices -/

/-- Shape invariant of the matrix `C` (`rows × cols`). -/
def MatShape (C : Mat K) (rows cols : ℕ) : Prop := C.size = rows ∧ ∀ r, r < rows → (C.getD r #[]).size = cols

theorem matShape_zeros (rows cols : ℕ) : MatShape (Array.replicate rows (Array.replicate cols (0 : K))) rows cols := by
  refine ⟨by simp, fun r hr => ?_⟩
  simp [Array.getD, hr]

theorem matShape_modify (C : Mat K) (rows cols r c : ℕ) (v : K) (h : MatShape C rows cols) :
    MatShape (C.modify r (fun row => row.set! c v)) rows cols := by
  obtain ⟨h1, h2⟩ := h
  refine ⟨by simp [h1], fun r' hr' => ?_⟩
  have := h2 r' hr'
  have hr1 : r' < C.size := by omega
  simp only [Array.getD_eq_getD_getElem?, Array.getElem?_modify, Array.getElem?_eq_getElem hr1,
    Option.getD_some] at this ⊢
  split
  · simpa using this
  · simpa using this

theorem setItem2_ok (C : Mat K) (rows cols : ℕ) (r c : ℕ) (v : K) (h : MatShape C rows cols)
    (hr : r < rows) (hc : c < cols) :
    setItem2 C (r : Int) (c : Int) v = .ok (C.modify r (fun row => row.set! c v)) := by
  obtain ⟨h1, h2⟩ := h
  unfold setItem2
  have e1 : ¬ ((r : Int) < 0) := by omega
  have e2 : ¬ ((c : Int) < 0) := by omega
  simp only [e1, e2, if_false, Int.toNat_natCast, h1, h2 r hr]
  rw [if_pos (by omega), if_pos (by omega)]

theorem pyModI_nat (i m : ℕ) (hm : 0 < m) : pyModI (i : Int) (m : Int) = .ok ((i % m : ℕ) : Int) := by
  unfold pyModI
  rw [if_neg (by omega), Int.fmod_eq_emod_of_nonneg _ (by omega)]
  rfl

/-! ## helpers for insert_knot -/

/-- The knot actually inserted: `new_knot` wrapped into the period (periodic bases) or checked against
    the domain (`ValueError`) — the first `if`/`elif` of `insert_knot`. -/
def wrapX [FloorRing K] (b : Basis K) (x0 : K) : PyM K :=
  if b.periodic ≥ 0 then
    .ok (if x0 < b.start ∨ x0 > b.stop then pmod (x0 - b.start) (b.stop - b.start) + b.start else x0)
  else if x0 < b.start ∨ b.stop < x0 then .error .value
  else .ok x0

theorem bind_congr_left {α β : Type} {A A' : PyM α} {F : α → PyM β} (h : A = A') : A >>= F = A' >>= F := by
  rw [h]

theorem matShape_foldl {ι : Type} (l : List ι) (rows cols : ℕ) (r c : ι → ℕ) (v : ι → K) (C : Mat K)
    (h : MatShape C rows cols) :
    MatShape (l.foldl (fun C i => C.modify (r i) (fun row => row.set! (c i) (v i))) C) rows cols := by
  induction l generalizing C with
  | nil => exact h
  | cons a l ih => exact ih _ (matShape_modify C rows cols _ _ _ h)

theorem foldl_inv {ι σ : Type} (l : List ι) (g : σ → ι → σ) (Inv : σ → Prop) (s : σ) (hs : Inv s)
    (h : ∀ s i, Inv s → Inv (g s i)) : Inv (l.foldl g s) := by
  induction l generalizing s with
  | nil => exact hs
  | cons a l ih => exact ih _ (h s a hs)

theorem foldl_self {ι : Type} (l : List ι) (h : Array K → ι → Array K) (s0 : Self K) :
    l.foldl (fun (s : Self K) i => ({ knots := h s.knots i, order := s.order, periodic := s.periodic } : Self K)) s0
      = { knots := l.foldl h s0.knots, order := s0.order, periodic := s0.periodic } := by
  induction l generalizing s0 with
  | nil => rfl
  | cons a l ih => simp only [List.foldl_cons]; rw [ih]

theorem size_insertAt (a : Array K) (mu : ℕ) (x : K) (h : mu ≤ a.size) : (Basis.insertAt a mu x).size = a.size + 1 := by
  unfold Basis.insertAt
  simp; omega

/-! ### method: insert_knot -/

/-! ## helpers for raise_order -/

/-- The knot list `raise_order` hands to the constructor (the hand model's `knots'`). -/
def raisedKnots (b : Basis K) (tol : K) (amount : ℕ) : List K :=
  let spans := (b.knotSpans tol true).toList
  let rep : List K := (List.range amount).flatMap (fun _ => spans)
  let knots := (b.knots.toList ++ rep).mergeSort (fun a c => a ≤ c)
  if b.periodic > -1 then
    let spansArr := spans.toArray
    let bl (v : K) : ℕ := bisectLeft (fun i => spansArr.getD i 0) v spansArr.size
    let n0 := bl b.start
    let n1 := spans.length - bl b.stop - 1
    let hi := if n1 * amount = 0 then 0 else knots.length - n1 * amount
    (knots.take hi).drop (n0 * amount)
  else knots

theorem raiseOrder_unfold (b : Basis K) (tol : K) (amount : ℕ) :
    b.raiseOrder tol amount =
      if amount = 0 then .ok b else Basis.mk? (b.order + amount) (raisedKnots b tol amount).toArray b.periodic tol := rfl

theorem flatMap_const {α : Type} (n : ℕ) (l : List α) :
    (List.range n).flatMap (fun _ => l) = (List.replicate n l).flatten := by
  induction n with
  | zero => rfl
  | succ n ih => rw [List.range_succ, List.flatMap_append, ih, List.replicate_succ']; simp

theorem extract_list {α : Type} (l : List α) (lo hi : ℕ) :
    l.toArray.extract (min lo l.length) hi = ((l.take hi).drop lo).toArray := by
  apply Array.ext'
  simp only [Array.toList_extract, List.extract_eq_take_drop, List.drop_take]
  by_cases h : lo ≤ l.length
  · rw [Nat.min_eq_left h]
  · have h' : l.length ≤ lo := by omega
    rw [Nat.min_eq_right h', List.drop_of_length_le (le_refl _), List.drop_of_length_le h']
    simp

/-! ### method: raise_order -/

theorem raise_order_eq_aux [FloorRing K] (b : Basis K) (tol : K) (amount : Int) (h1 : 1 ≤ b.order)
    (h2 : b.order ≤ b.knots.size)
    (hbl : 0 ≤ b.periodic → bisectLeft (fun i => (b.knotSpans tol true).getD i 0) b.stop (b.knotSpans tol true).size
        < (b.knotSpans tol true).size) :
    PyBasis.raise_order (ofBasis b) tol amount = (b.raiseOrderInt tol amount).map ofBasis := by
  unfold PyBasis.raise_order Basis.raiseOrderInt
  by_cases ha : amount < 0
  · simp [ha]
  · simp only [ha, if_false, pure_eq_ok, ok_bind]
    rw [raiseOrder_unfold]
    by_cases ha0 : amount = 0
    · simp [ha0]
    · have ha0' : ¬ amount.toNat = 0 := by omega
      rw [if_neg ha0, if_neg ha0', PyBasis_knot_spans_eq b tol true h1 h2]
      simp only [ok_bind, PyBasis_start_eq b tol h1 h2, PyBasis_end_eq b tol h1 h2, ofBasis_knots, ofBasis_order,
        ofBasis_periodic, pure_eq_ok]
      obtain ⟨a, rfl⟩ : ∃ a : ℕ, amount = a := ⟨amount.toNat, by omega⟩
      simp only [Int.toNat_natCast] at ha0' ⊢
      have hS : sorted (listAdd b.knots (listMul (b.knotSpans tol true) (a : Int)))
          = ((b.knots.toList ++ (List.range a).flatMap (fun _ => (b.knotSpans tol true).toList)).mergeSort
              (fun x c => decide (x ≤ c))).toArray := by
        simp only [sorted, listAdd, listMul, Array.toList_append, Int.toNat_natCast, flatMap_const]
      have hK : (if b.periodic > -1 then
            (slice (sorted (listAdd b.knots (listMul (b.knotSpans tol true) (a : Int))))
                (some (bisect_left (b.knotSpans tol true) b.start * (a : Int)))
                (some (-(len (b.knotSpans tol true) - bisect_left (b.knotSpans tol true) b.stop - 1) * (a : Int))))
          else (sorted (listAdd b.knots (listMul (b.knotSpans tol true) (a : Int)))))
          = (raisedKnots b tol a).toArray := by
        unfold raisedKnots
        simp only []
        rw [hS]
        by_cases hp : b.periodic > -1
        · rw [if_pos hp, if_pos hp]
          have hbl' := hbl (by omega)
          simp only [bisect_left, len, slice, List.size_toArray] at hbl' ⊢
          simp only [Array.toArray_toList, Array.length_toList]
          generalize ((b.knots.toList ++ List.flatMap (fun x => (b.knotSpans tol true).toList) (List.range a)).mergeSort
            fun x c => decide (x ≤ c)) = S
          generalize bisectLeft (fun i => (b.knotSpans tol true).getD i 0) b.start (b.knotSpans tol true).size = b0
          generalize bisectLeft (fun i => (b.knotSpans tol true).getD i 0) b.stop (b.knotSpans tol true).size = b1 at hbl' ⊢
          generalize (b.knotSpans tol true).size = sz at hbl' ⊢
          have e1 : ((sz : Int) - b1 - 1) = ((sz - b1 - 1 : ℕ) : Int) := by omega
          rw [e1]
          generalize sz - b1 - 1 = n1
          have e2 : ((b0 : Int) * a) = ((b0 * a : ℕ) : Int) := by push_cast; ring
          have e3 : (-(n1 : Int) * a) = -((n1 * a : ℕ) : Int) := by push_cast; ring
          rw [e2, e3, sliceLo_some _ _ (by omega), Int.toNat_natCast]
          by_cases hz : n1 * a = 0
          · rw [if_pos hz, hz]
            simp only [sliceHi, Nat.cast_zero, neg_zero, lt_self_iff_false, if_false, Int.toNat_zero, Nat.zero_min]
            rw [extract_list]
          · rw [if_neg hz]
            have : (-((n1 * a : ℕ) : Int)) < 0 := by omega
            simp only [sliceHi, this, if_true]
            rw [show (-((n1 * a : ℕ) : Int) + (S.length : Int)).toNat = S.length - n1 * a by omega, extract_list]
        · rw [if_neg hp, if_neg hp]
      have hL : (do
          let st3 ← (if b.periodic > -1 then
            (Except.ok (slice (sorted (listAdd b.knots (listMul (b.knotSpans tol true) (a : Int))))
                (some (bisect_left (b.knotSpans tol true) b.start * (a : Int)))
                (some (-(len (b.knotSpans tol true) - bisect_left (b.knotSpans tol true) b.stop - 1) * (a : Int)))) : PyM (Array K))
          else Except.ok (sorted (listAdd b.knots (listMul (b.knotSpans tol true) (a : Int)))))
          PyBasis.init tol ((b.order : Int) + a) st3 b.periodic)
          = PyBasis.init tol ((b.order : Int) + a) (raisedKnots b tol a).toArray b.periodic := by
        rw [← hK]
        split <;> rfl
      rw [hL, show ((b.order : Int) + a) = ((b.order + a : ℕ) : Int) by push_cast; ring,
        PyBasis_init_eq (b.order + a) _ b.periodic tol]

/-! ### method: lower_order -/

theorem lower_body [FloorRing K] (b : Basis K) (tol : K) (p : ℕ) (k : K) (h1 : 1 ≤ b.order) (h2 : b.order ≤ b.knots.size) :
    (do
      let tmp4 ← PyBasis.continuity (ofBasis b) tol k
      let tmp5 ← Ext.toCount (Ext.maxInt (Ext.rsub ((p : Int) - 1) tmp4) 1)
      pure (listMul (#[k] : Array K) tmp5) : PyM (Array K)) =
      (b.continuity tol k).map (fun c => Array.replicate (Basis.lowerMult p c) k) := by
  rw [PyBasis_continuity_eq b tol k h1 h2]
  cases hc : b.continuity tol k with
  | error e => rfl
  | ok c =>
    cases c with
    | none => simp [extOfOpt, Ext.rsub, Ext.maxInt, Ext.toCount, listMul_singleton, Basis.lowerMult]
    | some c => simp [extOfOpt, Ext.rsub, Ext.maxInt, Ext.toCount, listMul_singleton, Basis.lowerMult]

theorem lower_fold [FloorRing K] (b : Basis K) (tol : K) (p : ℕ) (xs : List K) (acc : Array (Array K))
    (f : K → PyM (Array K))
    (hf : ∀ k, f k = (b.continuity tol k).map (fun c => Array.replicate (Basis.lowerMult p c) k)) :
    (xs.foldlM (fun (acc : Array (Array K)) x => do let y ← f x; pure (acc.push y)) acc).map flatten
      = (Basis.lowerKnots b tol p xs).map (fun ks => acc.flatten ++ ks.toArray) := by
  induction xs generalizing acc with
  | nil => simp [Basis.lowerKnots, flatten]
  | cons k ks ih =>
    simp only [List.foldlM_cons, Basis.lowerKnots, hf k]
    cases hc : b.continuity tol k with
    | error e => rfl
    | ok c =>
      simp only [map_ok, ok_bind, pure_eq_ok]
      have ih' := ih (acc.push (Array.replicate (Basis.lowerMult p c) k))
      simp only [pure_eq_ok] at ih'
      rw [ih']
      cases Basis.lowerKnots b tol p ks with
      | error e => rfl
      | ok rest =>
        simp [Array.flatten_push]
        apply Array.ext'
        simp


theorem _root_.PyBasis_lower_order_eq [FloorRing K] (b : Basis K) (tol : K) (amount : Int) (h1 : 1 ≤ b.order)
    (h2 : b.order ≤ b.knots.size) :
    PyBasis.lower_order (ofBasis b) tol amount = (b.lowerOrder tol amount).map ofBasis := by
  unfold PyBasis.lower_order Basis.lowerOrder
  by_cases ha : amount < 0
  · simp [ha]
  · by_cases hb : (b.order : Int) - amount < 2
    · simp [ha, hb]
    · simp only [ha, hb, if_false, ok_bind, pure_eq_ok, ofBasis_order, ofBasis_periodic,
        PyBasis_knot_spans_eq b tol true h1 h2]
      have hp : ((b.order : Int) - amount) = ((b.order - amount.toNat : ℕ) : Int) := by omega
      rw [hp]
      generalize b.order - amount.toNat = p
      unfold listComp forEach
      have := lower_fold b tol p (b.knotSpans tol true).toList #[] _ (fun k => lower_body b tol p k h1 h2)
      generalize hF : List.foldlM (m := PyM) _ _ _ = F at ⊢
      have this' : Except.map flatten F
          = Except.map (fun ks => (#[] : Array (Array K)).flatten ++ ks.toArray)
              (b.lowerKnots tol p (b.knotSpans tol true).toList) := by
        rw [← hF]; exact this
      cases hl : b.lowerKnots tol p (b.knotSpans tol true).toList with
      | error e =>
        rw [hl] at this'
        cases F with
        | error e' => simp at this'; subst this'; rfl
        | ok v => simp at this'
      | ok ks =>
        rw [hl] at this'
        cases F with
        | error e' => simp at this'
        | ok v =>
          simp only [map_ok, Except.ok.injEq] at this'
          simp only [ok_bind, this']
          by_cases hpp : b.periodic > -1
          · simp [hpp]
          · simp only [hpp, if_false, ok_bind]
            rw [PyBasis_init_eq p _ b.periodic tol]
            simp

/-! ## helpers for integrate -/

theorem toBasis_ofBasis (b : Basis K) : (ofBasis b).toBasis = b := by
  cases b; simp [ofBasis, Self.toBasis]

theorem size_evaluate [FloorRing K] (b : Basis K) (tol t : K) (d : ℕ) (r : Bool) :
    (b.evaluate tol t d r).size = b.numFunctions := by
  unfold Basis.evaluate
  simp only []
  split
  · simp
  · simp [Row.toDense]

theorem forRange_push {α : Type} (n : ℕ) (f : Int → PyM α) (h : ℕ → α)
    (hf : ∀ i : ℕ, i < n → f i = .ok (h i)) :
    listCompRange 0 (n : Int) f = .ok (Array.ofFn (n := n) (fun i => h i.val)) := by
  unfold listCompRange
  rw [(forRange_eq_foldl 0 (n : Int) (#[] : Array α) _ (fun i s => s.push (h i)) (fun _ => True) (le_refl _) trivial
    (by
      intro i s h0 hi _
      refine ⟨?_, trivial⟩
      rw [hf i (by omega)]; rfl)).1]
  simp only [Int.toNat_zero, sub_zero, Int.toNat_natCast]
  rw [foldl_push_eq_ofFn]

/-- The scatter-add loop of the periodic collapse after `j` steps. -/
theorem collapse_fold (N : Array K) (n : ℕ) (hn : 0 < n) (j : ℕ) (hj : j ≤ N.size) :
    (List.range' 0 j).foldl (fun (M : Array K) i => M.set! (i % n) (M.getD (i % n) 0 + N.getD i 0))
        (Array.replicate n 0)
      = Array.ofFn (n := n) (fun c =>
          (List.range j).foldl (fun acc i => if i % n = c.val then acc + N.getD i 0 else acc) 0) := by
  induction j with
  | zero =>
    apply Array.ext
    · simp
    · intro i h1 h2; simp
  | succ j ih =>
    rw [List.range'_1_concat, List.foldl_append, ih (by omega)]
    apply Array.ext
    · simp
    · intro i h1 h2
      simp only [Array.size_ofFn] at h2
      simp only [zero_add, List.foldl_cons, List.foldl_nil, Array.set!_eq_setIfInBounds]
      rw [Array.getElem_setIfInBounds (by simpa using h2)]
      simp only [Array.getElem_ofFn, List.range_succ, List.foldl_append, List.foldl_cons, List.foldl_nil]
      have hjn : j % n < n := Nat.mod_lt _ hn
      by_cases hik : j % n = i
      · simp [hik, Array.getD, h2]
      · simp [hik]


theorem mk?_ok_eq (p : ℕ) (knots : Array K) (per : Int) (tol : K) (ib : Basis K)
    (h : Basis.mk? p knots per tol = .ok ib) :
    ib = { order := p, knots := Basis.cummax knots, periodic := max per (-1) } := by
  rw [mk?_unfold] at h
  split at h
  · cases h
  · split at h
    · cases h
    · split at h
      · cases h
      · split at h
        · cases h
        · split at h
          · cases h
          · injection h with h; exact h.symm

theorem npSum_ofFn (m : ℕ) (g : ℕ → K) :
    npSum (Array.ofFn (n := m) (fun j => g j.val)) = (List.range m).foldl (fun acc j => acc + g j) 0 := by
  induction m with
  | zero => simp [npSum]
  | succ m ih =>
    rw [Array.ofFn_succ, List.range_succ, List.foldl_append]
    unfold npSum at ih ⊢
    rw [Array.foldl_push]
    simp only [Fin.val_castSucc, Fin.val_last, List.foldl_cons, List.foldl_nil]
    rw [ih]

theorem integrate_entry (knot N0 N1 : Array K) (p i : ℕ) (hs : N1.size = N0.size) (hi : i < N0.size)
    (hk : i + p < knot.size) :
    (do
      let tmp11 ← getItem knot ((i : Int) + (p : Int))
      let tmp12 ← getItem knot (i : Int)
      let tmp13 ← arrSub (slice N1 (some (i : Int)) none) (slice N0 (some (i : Int)) none)
      Except.ok ((tmp11 - tmp12) * 1 / (((p : ℕ) : Int) : K) * npSum tmp13) : PyM K)
      = .ok (Basis.integrateEntry knot p N0 N1 i) := by
  rw [getItem_nonneg _ (by omega) (by omega), getItem_nonneg _ (by omega) (by omega)]
  have e1 : ((i : Int) + p).toNat = i + p := by omega
  simp only [ok_bind, e1, Int.toNat_natCast, slice]
  rw [sliceLo_some _ _ (by omega), sliceLo_some _ _ (by omega)]
  simp only [Int.toNat_natCast, sliceHi]
  rw [Nat.min_eq_left (by omega), Nat.min_eq_left (by omega)]
  unfold arrSub
  rw [if_pos (by simp; omega)]
  simp only [ok_bind, Basis.integrateEntry, Array.size_extract, Nat.min_self]
  congr 1
  rw [mul_one]
  congr 1
  · simp
  · rw [hs]
    refine (npSum_ofFn (N1.extract i N0.size).size
      (fun j => (N1.extract i N0.size).getD j 0 - (N0.extract i).getD j 0)).trans ?_
    have hsz : (N1.extract i N0.size).size = N0.size - i := by simp; omega
    rw [hsz, List.range'_eq_map_range, List.foldl_map]
    apply List.foldl_ext
    intro acc j hj
    have hj' := List.mem_range.mp hj
    simp [Array.getD, hj', hs, show i + j < N0.size by omega]

/-! ### method: integrate -/

theorem _root_.PyBasis_integrate_eq [FloorRing K] (b : Basis K) (tol t0 t1 : K) (h1 : 1 ≤ b.order)
    (hper : -1 ≤ b.periodic) (hn : b.order + (b.periodic + 1).toNat + 1 ≤ b.knots.size) :
    PyBasis.integrate (ofBasis b) tol t0 t1 = b.integrate tol t0 t1 := by
  have h2 : b.order ≤ b.knots.size := by omega
  unfold PyBasis.integrate Basis.integrate
  simp only [PyBasis_start_eq b tol h1 h2, PyBasis_end_eq b tol h1 h2, ok_bind, ofBasis_periodic, ofBasis_knots,
    ofBasis_order, pure_eq_ok]
  by_cases hc : b.periodic > -1 ∧ (t0 < b.start ∨ t1 > b.stop)
  · rw [if_pos hc]
    obtain ⟨hc1, hc2⟩ := hc
    by_cases hc3 : t0 < b.start
    · simp [hc1, hc3]
    · have hc4 : t1 > b.stop := by tauto
      simp [hc1, hc3, hc4]
  · rw [if_neg hc]
    have hcond : (if b.periodic > -1 then
        (do
          let tmp3 ← (if t0 < b.start then (pure true : PyM Bool) else pure (decide (t1 > b.stop)))
          pure (decide (tmp3 = true)))
        else pure false) = .ok false := by
      by_cases hp : b.periodic > -1
      · have h3 : ¬ t0 < b.start := by tauto
        have h4 : ¬ t1 > b.stop := by tauto
        simp [hp, h3, h4]
      · simp [hp]
    simp only [pure_eq_ok] at hcond
    rw [hcond]
    simp only [ok_bind, Bool.false_eq_true, if_false]
    rw [getItem_nonneg _ (by omega) (by omega), getItem_neg _ (by omega) (by omega)]
    simp only [ok_bind, Int.toNat_zero]
    have hk : (listAdd (listAdd (#[b.knots.getD 0 0] : Array K) b.knots)
        (#[b.knots.getD ((-1 : Int) + b.knots.size).toNat 0] : Array K)) = b.augKnots := by
      unfold Basis.augKnots listAdd
      rw [kn_eq_getD b (by omega), kn_eq_getD b (by omega)]
      have : ((-1 : Int) + b.knots.size).toNat = b.knots.size - 1 := by omega
      rw [this]
      apply Array.ext'
      simp
    rw [hk, show ((b.order : Int) + 1) = ((b.order + 1 : ℕ) : Int) by push_cast; ring,
      PyBasis_init_eq (b.order + 1) b.augKnots (-1) tol]
    cases hmk : Basis.mk? (b.order + 1) b.augKnots (-1) tol with
    | error e => rfl
    | ok ib =>
      simp only [map_ok, ok_bind, evaluateRow, toBasis_ofBasis]
      have hib := mk?_ok_eq _ _ _ _ _ hmk
      have haug : b.augKnots.size = b.knots.size + 2 := by simp [Basis.augKnots]; omega
      have hnib : ib.numFunctions = b.knots.size + 1 - b.order := by
        rw [hib]; simp [Basis.numFunctions, haug]
      unfold Basis.integrateRaw
      simp only []
      have hs0 := size_evaluate ib tol (max t0 b.start) 0 true
      have hs1 := size_evaluate ib tol (min t1 b.stop) 0 true
      generalize ib.evaluate tol (max t0 b.start) 0 true = N0 at hs0 ⊢
      generalize ib.evaluate tol (min t1 b.stop) 0 true = N1 at hs1 ⊢
      simp only [len]
      rw [forRange_push N0.size _ (fun i => Basis.integrateEntry b.augKnots b.order N0 N1 i)
        (fun i hi => integrate_entry b.augKnots N0 N1 b.order i (by omega) hi (by omega))]
      simp only [ok_bind]
      generalize hN : Array.ofFn (n := N0.size) (fun i => Basis.integrateEntry b.augKnots b.order N0 N1 i.val) = N
      have hNs : N.size = N0.size := by rw [← hN]; simp
      have hsl : slice N (some 1) none = N.extract 1 N.size := by
        simp only [slice, sliceHi]
        rw [sliceLo_some _ _ (by omega)]
        congr 1; omega
      rw [hsl]
      generalize hR : N.extract 1 N.size = R
      have hRs : R.size = b.knots.size - b.order := by rw [← hR]; simp; omega
      by_cases hp : b.periodic > -1
      · simp only [hp, if_true, PyBasis_num_functions_eq b tol (by omega) hper, ok_bind, listMul_singleton,
          Int.toNat_natCast]
        have hnf : b.numFunctions = b.knots.size - b.order - (b.periodic + 1).toNat := rfl
        have hn1 : 1 ≤ b.numFunctions := by omega
        rw [(forRange_eq_foldl 0 (R.size : Int) _ _
          (fun j (M : Array K) => M.set! (j % b.numFunctions) (M.getD (j % b.numFunctions) 0 + R.getD j 0))
          (fun M => M.size = b.numFunctions) (le_refl _) (by simp)
          (by
            intro j M h0 hj hM
            refine ⟨?_, by simp [hM]⟩
            have hlt := Nat.mod_lt j hn1
            rw [pyModI_nat j _ (by omega)]
            simp only [ok_bind]
            rw [getItem_nonneg _ (by omega) (by omega), getItem_nonneg _ (by omega) (by omega)]
            simp only [ok_bind, Int.toNat_natCast]
            rw [setItem_nonneg _ _ (by omega) (by omega), Int.toNat_natCast])).1]
        simp only [ok_bind, Int.toNat_zero, sub_zero, Int.toNat_natCast]
        rw [collapse_fold R b.numFunctions (by omega) R.size (le_refl _)]
        unfold Basis.integrateCollapse
        simp only []
        rw [if_neg (by omega), if_neg (by omega), if_neg (by omega)]
        congr 1
        apply Array.ext
        · simp; omega
        · intro i hi1 hi2
          have hnn : R.size - (b.periodic + 1).toNat = b.numFunctions := by omega
          simp [hnn]
      · simp only [hp, if_false, ok_bind]

/-! ## helpers for insert_knot -/

open Classical in
theorem foldlM_cases {α σ : Type} (l : List α) (f : σ → α → PyM σ) (g : σ → α → σ) (bad : α → Prop)
    [DecidablePred bad] (Inv : σ → Prop) (e : PyErr) (s : σ) (hs : Inv s)
    (h : ∀ a ∈ l, ∀ s, Inv s → f s a = (if bad a then .error e else .ok (g s a)) ∧ (¬ bad a → Inv (g s a))) :
    l.foldlM f s = if ∃ a ∈ l, bad a then .error e else .ok (l.foldl g s) := by
  induction l generalizing s with
  | nil => simp
  | cons a l ih =>
    obtain ⟨h1, h2⟩ := h a (by simp) s hs
    simp only [List.foldlM_cons, h1, List.foldl_cons]
    by_cases hb : bad a
    · rw [if_pos hb, if_pos ⟨a, by simp, hb⟩]; rfl
    · rw [if_neg hb]
      simp only [ok_bind]
      rw [ih (g s a) (h2 hb) (fun a' ha' => h a' (by simp [ha']))]
      have : (∃ a', a' ∈ a :: l ∧ bad a') ↔ (∃ a', a' ∈ l ∧ bad a') := by
        constructor
        · rintro ⟨a', ha', hb'⟩
          rcases List.mem_cons.mp ha' with rfl | hm
          · exact absurd hb' hb
          · exact ⟨a', hm, hb'⟩
        · rintro ⟨a', ha', hb'⟩; exact ⟨a', by simp [ha'], hb'⟩
      by_cases hex : ∃ a', a' ∈ l ∧ bad a'
      · rw [if_pos hex, if_pos (this.mpr hex)]
      · rw [if_neg hex, if_neg (fun h => hex (this.mp h))]

open Classical in
/-- A loop over `range(lo, hi)` (`0 ≤ lo`) each of whose iterations either raises `e` (exactly when `bad i`,
    independently of the state) or performs the model's step. -/
theorem forRange_cases {σ : Type} (lo hi : Int) (s : σ) (f : Int → σ → PyM σ) (g : ℕ → σ → σ) (bad : ℕ → Prop)
    [DecidablePred bad] (Inv : σ → Prop) (e : PyErr) (h0 : 0 ≤ lo) (hs : Inv s)
    (h : ∀ (i : ℕ) s, lo ≤ (i : Int) → (i : Int) < hi → Inv s →
      f i s = (if bad i then .error e else .ok (g i s)) ∧ (¬ bad i → Inv (g i s))) :
    forRange lo hi s f =
      if ∃ i : ℕ, lo ≤ (i : Int) ∧ (i : Int) < hi ∧ bad i then .error e
      else .ok ((List.range' lo.toNat (hi - lo).toNat).foldl (fun s i => g i s) s) := by
  unfold forRange
  rw [rangeI_nat lo hi h0, List.foldlM_map]
  rw [foldlM_cases (List.range' lo.toNat (hi - lo).toNat) (fun s (i : ℕ) => f (i : Int) s) (fun s i => g i s) bad Inv e s hs
    (by
      intro a ha s hs
      have := List.mem_range'_1.mp ha
      exact h a s (by omega) (by omega) hs)]
  have : (∃ a, a ∈ List.range' lo.toNat (hi - lo).toNat ∧ bad a) ↔ (∃ i : ℕ, lo ≤ (i : Int) ∧ (i : Int) < hi ∧ bad i) := by
    constructor
    · rintro ⟨a, ha, hb⟩
      have := List.mem_range'_1.mp ha
      exact ⟨a, by omega, by omega, hb⟩
    · rintro ⟨i, h1, h2, hb⟩
      exact ⟨i, List.mem_range'_1.mpr (by omega), hb⟩
  by_cases hex : ∃ a, a ∈ List.range' lo.toNat (hi - lo).toNat ∧ bad a
  · rw [if_pos hex, if_pos (this.mp hex)]
  · rw [if_neg hex, if_neg (fun h => hex (this.mpr h))]

/-! ### method: insert_knot -/

/-! ## helpers for matches -/

theorem npAllclose_self (xs : Array ℚ) (tol : ℚ) (htol : 0 ≤ tol) : npAllclose xs xs tol = .ok true := by
  unfold npAllclose
  simp only [if_true]
  congr 1
  rw [List.all_eq_true]
  intro i _
  simp only [sub_self, abs_zero, decide_eq_true_eq]
  have : (0 : ℚ) ≤ allcloseRtol := by unfold allcloseRtol; norm_num
  positivity

theorem headD_toList (xs : Array ℚ) : xs.toList.headD 0 = xs.getD 0 0 := by
  cases xs with | mk l => cases l <;> simp [Array.getD]

theorem getLastD_toList (xs : Array ℚ) : xs.toList.getLastD 0 = xs.getD (xs.size - 1) 0 := by
  cases xs with
  | mk l =>
    rcases List.eq_nil_or_concat l with h | ⟨l', a, h⟩
    · subst h; simp [Array.getD]
    · subst h; simp [Array.getD]

/-! ### method: matches -/

/-- `matches`: the hand model (`MP.basisMatches`, exact comparison of the normalised knot vectors over ℚ)
    is NOT the same function as the code (`np.allclose` with `atol = knot_tolerance`, `rtol = 1e-5`).
    What holds: both answer `False` when order or periodicity differ, and an exact match is a match of the
    code.  Missing for equality: the code also accepts knot vectors that differ within the tolerances. -/
theorem _root_.PyBasis_matches_eq_partial (a b : Basis ℚ) (rev : Bool) (tol : ℚ) (htol : 0 ≤ tol)
    (ha : 1 ≤ a.knots.size) (hb : 1 ≤ b.knots.size) :
    ((a.order ≠ b.order ∨ a.periodic ≠ b.periodic) →
        PyBasis.matches (ofBasis a) tol (ofBasis b) rev = .ok false ∧ MP.basisMatches a b rev = false) ∧
    (MP.basisMatches a b rev = true → PyBasis.matches (ofBasis a) tol (ofBasis b) rev = .ok true) := by
  constructor
  · intro h
    have h' : ((a.order : Int) ≠ b.order ∨ a.periodic ≠ b.periodic) := by
      rcases h with h | h
      · left; exact_mod_cast h
      · right; exact h
    constructor
    · unfold PyBasis.matches
      simp only [ofBasis_order, ofBasis_periodic]
      simp only [h', if_true]; rfl
    · unfold MP.basisMatches
      rw [if_pos h]
  · intro hm
    unfold MP.basisMatches at hm
    by_cases h : a.order ≠ b.order ∨ a.periodic ≠ b.periodic
    · rw [if_pos h] at hm; cases hm
    · rw [if_neg h] at hm
      have h' : ¬ ((a.order : Int) ≠ b.order ∨ a.periodic ≠ b.periodic) := by
        intro hc; apply h
        rcases hc with hc | hc
        · left; exact_mod_cast hc
        · right; exact hc
      simp only [headD_toList, getLastD_toList, beq_iff_eq] at hm
      unfold PyBasis.matches
      simp only [ofBasis_order, ofBasis_periodic, ofBasis_knots]
      simp only [h', if_false]
      rw [getItem_neg _ (by omega) (by omega), getItem_nonneg _ (by omega) (by omega),
        getItem_neg _ (by omega) (by omega), getItem_nonneg _ (by omega) (by omega)]
      have e1 : ((-1 : Int) + a.knots.size).toNat = a.knots.size - 1 := by omega
      have e2 : ((-1 : Int) + b.knots.size).toNat = b.knots.size - 1 := by omega
      simp only [ok_bind, e1, e2, Int.toNat_zero, pure_eq_ok]
      cases rev
      · simp only [Bool.false_eq_true, if_false] at hm ⊢
        have : arrDivS (arrSubS a.knots (a.knots.getD 0 0)) (a.knots.getD (a.knots.size - 1) 0 - a.knots.getD 0 0)
            = arrDivS (arrSubS b.knots (b.knots.getD 0 0)) (b.knots.getD (b.knots.size - 1) 0 - b.knots.getD 0 0) := by
          apply Array.ext'
          simpa [arrDivS, arrSubS, List.map_map, Function.comp_def] using hm
        rw [this, npAllclose_self _ _ htol]
        rfl
      · simp only [if_true] at hm ⊢
        have : arrDivS (arrRSubS (a.knots.getD (a.knots.size - 1) 0) (reversed a.knots))
              (a.knots.getD (a.knots.size - 1) 0 - a.knots.getD 0 0)
            = arrDivS (arrSubS b.knots (b.knots.getD 0 0)) (b.knots.getD (b.knots.size - 1) 0 - b.knots.getD 0 0) := by
          apply Array.ext'
          simpa [arrDivS, arrSubS, arrRSubS, reversed, List.map_map, Function.comp_def] using hm
        rw [this, npAllclose_self _ _ htol]
        rfl

/-! ## helpers for make_periodic -/

theorem extract_clamp {α : Type} (xs : Array α) (a c : ℕ) :
    xs.extract (min a xs.size) (min c xs.size) = xs.extract a c := by
  apply Array.ext'
  simp only [Array.toList_extract, List.extract_eq_take_drop]
  by_cases ha : xs.size ≤ a
  · rw [Nat.min_eq_right ha, List.drop_of_length_le (by simp), List.drop_of_length_le (by simpa using ha)]
    simp
  · rw [Nat.min_eq_left (show a ≤ xs.size by omega)]
    by_cases hc : xs.size ≤ c
    · rw [Nat.min_eq_right hc, List.take_of_length_le (by simp), List.take_of_length_le (by simp; omega)]
    · rw [Nat.min_eq_left (by omega)]

/-- The knot vector `make_periodic` hands to the constructor (the hand model's `knots`). -/
def mpKnots (b : Basis K) (continuity : ℕ) : Array K :=
  let deg := b.order - 1
  let nk := if deg = 0 then #[] else b.knots.extract deg (b.knots.size - deg)
  let diff := b.stop - b.start
  let nReps := deg - continuity - 1
  let nCopy := continuity + 1
  let m := nk.size
  let head := (nk.extract (m - nCopy - 1) (m - 1)).map (fun x => x - diff)
  let tail := (nk.extract 1 (nCopy + 1)).map (fun x => x + diff)
  head ++ Array.replicate nReps b.start ++ nk ++ Array.replicate nReps b.stop ++ tail

theorem makePeriodic_unfold (b : Basis K) (tol : K) (c : ℕ) :
    b.makePeriodic tol c = Basis.mk? b.order (mpKnots b c) c tol := rfl

/-! ### method: make_periodic -/

theorem _root_.PyBasis_make_periodic_eq (b : Basis K) (tol : K) (c : ℕ) (h1 : 1 ≤ b.order)
    (h2 : b.order ≤ b.knots.size) :
    PyBasis.make_periodic (ofBasis b) tol c = (b.makePeriodic tol c).map ofBasis := by
  rw [makePeriodic_unfold]
  unfold PyBasis.make_periodic
  simp only [PyBasis_start_eq b tol h1 h2, PyBasis_end_eq b tol h1 h2, ok_bind, pure_eq_ok,
    ofBasis_knots, ofBasis_order]
  have hk : (listAdd (listAdd (listAdd (listAdd
      (arrSubS (slice (slice b.knots (some ((b.order : Int) - 1)) (some (-((b.order : Int) - 1))))
          (some (-((b.order : Int) - 1 - (↑b.order - 1 - ↑c - 1)) - 1)) (some (-1))) (b.stop - b.start))
      (listMul #[b.start] ((b.order : Int) - 1 - ↑c - 1)))
      (slice b.knots (some ((b.order : Int) - 1)) (some (-((b.order : Int) - 1)))))
      (listMul #[b.stop] ((b.order : Int) - 1 - ↑c - 1)))
      (arrAddS (slice (slice b.knots (some ((b.order : Int) - 1)) (some (-((b.order : Int) - 1)))) (some 1)
          (some ((b.order : Int) - 1 - (↑b.order - 1 - ↑c - 1) + 1))) (b.stop - b.start))) = mpKnots b c := by
    unfold mpKnots
    simp only []
    have e1 : slice b.knots (some ((b.order : Int) - 1)) (some (-((b.order : Int) - 1)))
        = (if b.order - 1 = 0 then #[] else b.knots.extract (b.order - 1) (b.knots.size - (b.order - 1))) := by
      simp only [slice]
      rw [sliceLo_some _ _ (by omega)]
      by_cases hd : b.order - 1 = 0
      · rw [if_pos hd]
        have : (-((b.order : Int) - 1)) = 0 := by omega
        rw [this]
        simp [sliceHi, show ((b.order : Int) - 1).toNat = 0 by omega]
      · rw [if_neg hd]
        have : (-((b.order : Int) - 1)) < 0 := by omega
        simp only [sliceHi, this, if_true]
        congr <;> omega
    rw [e1]
    generalize (if b.order - 1 = 0 then (#[] : Array K) else b.knots.extract (b.order - 1) (b.knots.size - (b.order - 1))) = nk
    have e2 : slice nk (some (-((b.order : Int) - 1 - (↑b.order - 1 - ↑c - 1)) - 1)) (some (-1))
        = nk.extract (nk.size - (c + 1) - 1) (nk.size - 1) := by
      have : (-((b.order : Int) - 1 - (↑b.order - 1 - ↑c - 1)) - 1) < 0 := by omega
      have hneg : ((-1 : Int) < 0) := by omega
      simp only [slice, sliceLo, sliceHi, this, hneg, if_true]
      congr <;> omega
    have e3 : slice nk (some 1) (some ((b.order : Int) - 1 - (↑b.order - 1 - ↑c - 1) + 1))
        = nk.extract 1 (c + 1 + 1) := by
      simp only [slice]
      rw [sliceLo_some _ _ (by omega), sliceHi_some _ _ (by omega),
        show ((b.order : Int) - 1 - (↑b.order - 1 - ↑c - 1) + 1).toNat = c + 1 + 1 by omega,
        show (1 : Int).toNat = 1 from rfl, extract_clamp]
    rw [e2, e3, listMul_singleton, listMul_singleton]
    have e4 : ((b.order : Int) - 1 - ↑c - 1).toNat = b.order - 1 - c - 1 := by omega
    rw [e4]
    rfl
  rw [hk, PyBasis_init_eq b.order _ (c : Int) tol]

/-! ### method: insert_knot -/

/-- `insert_knot` outside the cover branch (non-periodic, or periodic with at least `p+k` functions), for any
    positive recursion fuel: the translated code is wrap + the direct algorithm of the hand model. -/
theorem insert_knot_fuel_plain [FloorRing K] (f : ℕ) (b : Basis K) (tol x0 : K) (h1 : 1 ≤ b.order)
    (hper : -1 ≤ b.periodic) (hsz : b.order + 1 ≤ b.knots.size)
    (hcol : 0 ≤ b.periodic → (x0 < b.start ∨ x0 > b.stop) → b.stop - b.start ≠ 0)
    (hmu : ∀ x, wrapX b x0 = .ok x → b.order ≤ b.insertMu x)
    (hg : ¬ (b.periodic ≥ 0 ∧
      (b.knots.size : Int) - (b.order : Int) - (b.periodic + 1) < (b.order : Int) + b.periodic)) :
    PyBasis.insert_knot_fuel (f + 1) (ofBasis b) tol x0
      = (b.insertKnotPlain x0).map (fun r => (ofBasis r.1, r.2)) := by
  have h2 : b.order ≤ b.knots.size := by omega
  rw [PyBasis.insert_knot_fuel]
  refine Eq.trans (bind_congr_left (A' := wrapX b x0) ?_) ?_
  · simp only [PyBasis_start_eq b tol h1 h2, PyBasis_end_eq b tol h1 h2, ok_bind, ofBasis_periodic, pure_eq_ok, wrapX]
    by_cases hp : b.periodic ≥ 0
    · simp only [hp, if_true]
      by_cases hc1 : x0 < b.start
      · simp [hc1]
      · by_cases hc2 : x0 > b.stop <;> simp [hc1, hc2]
    · simp only [hp, if_false]
      by_cases hc1 : x0 < b.start
      · simp [hc1]
      · by_cases hc2 : b.stop < x0 <;> simp [hc1, hc2]
  · unfold Basis.insertKnotPlain Basis.insertWrap
    simp only []
    have hxw : (if b.periodic ≥ 0 then
        (if x0 < b.start ∨ x0 > b.stop then
          (if b.stop - b.start = 0 then (.error .index : PyM K)
           else .ok (pmod (x0 - b.start) (b.stop - b.start) + b.start))
        else .ok x0)
      else if x0 < b.start ∨ b.stop < x0 then .error .value
      else .ok x0) = wrapX b x0 := by
      unfold wrapX
      by_cases hp : b.periodic ≥ 0
      · simp only [hp, if_true]
        by_cases hc : x0 < b.start ∨ x0 > b.stop
        · simp only [hc, if_true, hcol hp hc, if_false]
        · simp only [hc, if_false]
      · simp only [hp, if_false]
    rw [hxw]
    cases hw : wrapX b x0 with
    | error e => rfl
    | ok x =>
      have hmu1 := hmu x hw
      have hmu2 : b.insertMu x ≤ b.knots.size := by
        have := bisectR_le b x
        unfold Basis.insertMu
        split_ifs <;> omega
      unfold Basis.insertKnotDirect
      simp only [ok_bind, ofBasis_knots, ofBasis_order, ofBasis_periodic, bisect_right_eq,
        PyBasis.num_functions, len, pure_eq_ok, PyBasis_start_eq b tol h1 h2, PyBasis_end_eq b tol h1 h2]
      rw [if_neg hg]
      have hclamp : (if b.periodic ≥ 0 then (Except.ok (min ((b.bisectR x : ℕ) : Int) ((b.knots.size : Int) - (b.order : Int))) : PyM Int)
          else Except.ok ((b.bisectR x : ℕ) : Int)) = .ok ((b.insertMu x : ℕ) : Int) := by
        unfold Basis.insertMu
        split_ifs
        · congr 1; omega
        · rfl
      simp only [hclamp, ok_bind]
      generalize b.insertMu x = mu at hmu1 hmu2 ⊢
      -- `n < 0`: `np.zeros` refuses the shape
      by_cases hneg : (b.knots.size : Int) - (b.order : Int) - (b.periodic + 1) < 0
      · rw [if_pos hneg]
        simp only [npZeros2]
        rw [if_pos (Or.inr hneg)]
        rfl
      rw [if_neg hneg]
      have hnf : b.numFunctions = b.knots.size - b.order - (b.periodic + 1).toNat := rfl
      have hnI : (b.knots.size : Int) - (b.order : Int) - (b.periodic + 1) = (b.numFunctions : Int) := by omega
      rw [hnI]
      -- `n = 0`: the first index expression evaluated divides by zero
      by_cases hz : b.numFunctions = 0
      · rw [if_pos hz, hz]
        simp only [npZeros2]
        rw [if_neg (by omega)]
        simp only [ok_bind]
        by_cases hmp : b.order < mu
        · rw [forRange_first_error 0 _ _ _ .zeroDiv (by omega) (by simp [pyModI])]
          rfl
        · have hmeq : mu = b.order := by omega
          subst hmeq
          rw [forRange_empty _ _ _ _ (by omega)]
          simp only [ok_bind]
          rw [forRange_first_error _ _ _ _ .zeroDiv (by omega) (by
            have g1 : getItem b.knots ((b.order : Int) - (b.order : Int) + (b.order : Int) - 1)
                = .ok (b.knots.getD (b.order - 1) 0) := by
              rw [getItem_nonneg _ (by omega) (by omega)]; congr 2; omega
            have g2 : getItem b.knots ((b.order : Int) - (b.order : Int) + (b.order : Int))
                = .ok (b.knots.getD b.order 0) := by
              rw [getItem_nonneg _ (by omega) (by omega)]; congr 2; omega
            have g3 : getItem b.knots ((b.order : Int) - (b.order : Int)) = .ok (b.knots.getD 0 0) := by
              rw [getItem_nonneg _ (by omega) (by omega)]; congr 2; omega
            simp only [g1, g2, g3, ok_bind, pure_eq_ok]
            split <;> split <;> simp [pyModI])]
          rfl
      rw [if_neg hz]
      have hn1 : 1 ≤ b.numFunctions := by omega
      have hn : b.order + (b.periodic + 1).toNat + 1 ≤ b.knots.size := by omega
      generalize b.numFunctions = n at hn1 hnf ⊢
      simp only [List.range_eq_range']
      simp only [npZeros2]
      rw [if_neg (by omega)]
      simp only [ok_bind, show ((n : Int) + 1).toNat = n + 1 by omega, Int.toNat_natCast]
      -- first loop
      rw [(forRange_eq_foldl 0 ((mu : Int) - b.order) _ _
        (fun i C => C.modify (i % (n + 1)) (fun row => row.set! (i % n) 1))
        (fun C => MatShape C (n + 1) n) (le_refl _) (matShape_zeros _ _)
        (by
          intro i C h0 hi hC
          refine ⟨?_, matShape_modify _ _ _ _ _ _ hC⟩
          have e1 : ((n : Int) + 1) = ((n + 1 : ℕ) : Int) := by omega
          rw [e1, pyModI_nat i (n + 1) (by omega), pyModI_nat i n (by omega)]
          simp only [ok_bind]
          exact setItem2_ok C (n + 1) n _ _ 1 hC (Nat.mod_lt _ (by omega)) (Nat.mod_lt _ (by omega)))).1]
      simp only [ok_bind, Int.toNat_zero, sub_zero, show ((mu : Int) - b.order).toNat = mu - b.order by omega]
      have hC1 := matShape_foldl (List.range' 0 (mu - b.order)) (n + 1) n (fun i => i % (n + 1)) (fun i => i % n)
        (fun _ => (1 : K)) _ (matShape_zeros (K := K) (n + 1) n)
      generalize (List.foldl (fun s i => Array.modify s (i % (n + 1)) fun row => row.set! (i % n) (1 : K))
              (Array.replicate (n.add 0).succ (Array.replicate n 0)) (List.range' 0 (mu - b.order))) = C1 at hC1 ⊢
      -- second loop
      rw [forRange_cases ((mu : Int) - b.order) (mu : Int) C1 _
        (fun i C =>
          let d := if b.kn (i + b.order - 1) ≤ x ∧ x ≤ b.kn (i + b.order) then 1
                   else (x - b.kn i) / (b.kn (i + b.order - 1) - b.kn i)
          let C := C.modify (i % (n + 1)) (fun row => row.set! (i % n) d)
          let s := if b.kn i ≤ x ∧ x ≤ b.kn (i + 1) then 1
                   else (b.kn (i + b.order) - x) / (b.kn (i + b.order) - b.kn (i + 1))
          C.modify ((i + 1) % (n + 1)) (fun row => row.set! (i % n) s))
        (fun i => b.knots.size + 1 ≤ i + b.order ∨
          (i + b.order = b.knots.size ∧ (b.kn (i + b.order - 1) ≤ x ∨ ¬ (b.kn i ≤ x ∧ x ≤ b.kn (i + 1)))))
        (fun C => MatShape C (n + 1) n) .index (by omega) hC1
        (by
          intro i C h0 hi hC
          refine ⟨?_, fun _ => matShape_modify _ _ _ _ _ _ (matShape_modify _ _ _ _ _ _ hC)⟩
          have e1 : ((n : Int) + 1) = ((n + 1 : ℕ) : Int) := by omega
          have e2 : ((i : Int) + 1) = ((i + 1 : ℕ) : Int) := by omega
          have s1 : ∀ v, setItem2 C ((i % (n + 1) : ℕ) : Int) ((i % n : ℕ) : Int) v
              = .ok (C.modify (i % (n + 1)) (fun row => row.set! (i % n) v)) :=
            fun v => setItem2_ok C (n + 1) n _ _ v hC (Nat.mod_lt _ (by omega)) (Nat.mod_lt _ (by omega))
          have s2 : ∀ v w, setItem2 (C.modify (i % (n + 1)) (fun row => row.set! (i % n) v))
                (((i + 1) % (n + 1) : ℕ) : Int) ((i % n : ℕ) : Int) w
              = .ok ((C.modify (i % (n + 1)) (fun row => row.set! (i % n) v)).modify ((i + 1) % (n + 1))
                  (fun row => row.set! (i % n) w)) :=
            fun v w => setItem2_ok _ (n + 1) n _ _ w (matShape_modify _ _ _ _ _ _ hC)
              (Nat.mod_lt _ (by omega)) (Nat.mod_lt _ (by omega))
          have g3 : getItem b.knots (i : Int) = .ok (b.kn i) := by
            rw [getItem_nonneg _ (by omega) (by omega), kn_eq_getD b (by omega)]; congr 2
          rcases Nat.lt_trichotomy (i + b.order) b.knots.size with hlt | heq | hgt
          · -- every read is inside the array
            have hbad : ¬ (b.knots.size + 1 ≤ i + b.order ∨
                (i + b.order = b.knots.size ∧ (b.kn (i + b.order - 1) ≤ x ∨ ¬ (b.kn i ≤ x ∧ x ≤ b.kn (i + 1))))) := by
              rintro (h | ⟨h, _⟩) <;> omega
            rw [if_neg hbad]
            have g1 : getItem b.knots ((i : Int) + b.order - 1) = .ok (b.kn (i + b.order - 1)) := by
              rw [getItem_nonneg _ (by omega) (by omega), kn_eq_getD b (by omega)]; congr 2; omega
            have g2 : getItem b.knots ((i : Int) + b.order) = .ok (b.kn (i + b.order)) := by
              rw [getItem_nonneg _ (by omega) (by omega), kn_eq_getD b (by omega)]; congr 2
            have g4 : getItem b.knots ((i : Int) + 1) = .ok (b.kn (i + 1)) := by
              rw [getItem_nonneg _ (by omega) (by omega), kn_eq_getD b (by omega)]; congr 2
            simp only [g1, g2, g3, g4, ok_bind, pure_eq_ok, e1, pyModI_nat i (n + 1) (by omega), pyModI_nat i n (by omega)]
            rw [e2, pyModI_nat (i + 1) (n + 1) (by omega)]
            by_cases c1 : b.kn (i + b.order - 1) ≤ x <;> by_cases c2 : x ≤ b.kn (i + b.order) <;>
              by_cases c3 : b.kn i ≤ x <;> by_cases c4 : x ≤ b.kn (i + 1) <;>
              simp only [c1, c2, c3, c4, s1, s2, if_true, if_false, ok_bind, decide_true, decide_false,
                Bool.false_eq_true, and_self, and_true, true_and, and_false, false_and]
          · -- the last knot is `knots[i+p-1]`; `knots[i+p]` is out of range
            have g1 : getItem b.knots ((i : Int) + b.order - 1) = .ok (b.kn (i + b.order - 1)) := by
              rw [getItem_nonneg _ (by omega) (by omega), kn_eq_getD b (by omega)]; congr 2; omega
            have g2 : getItem b.knots ((i : Int) + b.order) = .error .index := by
              unfold getItem; rw [if_pos (by omega), if_neg (by omega)]
            simp only [g1, g2, g3, ok_bind, error_bind, pure_eq_ok, e1, pyModI_nat i (n + 1) (by omega),
              pyModI_nat i n (by omega)]
            rw [e2, pyModI_nat (i + 1) (n + 1) (by omega)]
            by_cases c1 : b.kn (i + b.order - 1) ≤ x
            · have hbad : (b.knots.size + 1 ≤ i + b.order ∨
                  (i + b.order = b.knots.size ∧ (b.kn (i + b.order - 1) ≤ x ∨ ¬ (b.kn i ≤ x ∧ x ≤ b.kn (i + 1))))) :=
                Or.inr ⟨heq, Or.inl c1⟩
              rw [if_pos hbad]
              simp only [c1, if_true, error_bind]
            · by_cases c3 : b.kn i ≤ x
              · -- then p ≥ 2 (for p = 1 the two knots coincide) and `knots[i+1]` is inside
                have hp2 : 2 ≤ b.order := by
                  by_contra hcon
                  have : b.order = 1 := by omega
                  rw [this] at c1
                  exact c1 (by simpa using c3)
                have g4 : getItem b.knots ((i + 1 : ℕ) : Int) = .ok (b.kn (i + 1)) := by
                  rw [getItem_nonneg _ (by omega) (by omega), kn_eq_getD b (by omega), Int.toNat_natCast]
                by_cases c4 : x ≤ b.kn (i + 1)
                · have hbad : ¬ (b.knots.size + 1 ≤ i + b.order ∨
                      (i + b.order = b.knots.size ∧ (b.kn (i + b.order - 1) ≤ x ∨ ¬ (b.kn i ≤ x ∧ x ≤ b.kn (i + 1))))) := by
                    rintro (h | ⟨_, h | h⟩)
                    · omega
                    · exact c1 h
                    · exact h ⟨c3, c4⟩
                  rw [if_neg hbad]
                  simp only [c1, c3, c4, g4, e2, s1, s2, if_true, if_false, ok_bind, decide_true, decide_false,
                    Bool.false_eq_true, and_self, and_true, true_and, and_false, false_and]
                · have hbad : (b.knots.size + 1 ≤ i + b.order ∨
                      (i + b.order = b.knots.size ∧ (b.kn (i + b.order - 1) ≤ x ∨ ¬ (b.kn i ≤ x ∧ x ≤ b.kn (i + 1))))) :=
                    Or.inr ⟨heq, Or.inr (fun h => c4 h.2)⟩
                  rw [if_pos hbad]
                  simp only [c1, c3, c4, g4, s1, if_true, if_false, ok_bind, error_bind, decide_true, decide_false,
                    Bool.false_eq_true]
              · have hbad : (b.knots.size + 1 ≤ i + b.order ∨
                    (i + b.order = b.knots.size ∧ (b.kn (i + b.order - 1) ≤ x ∨ ¬ (b.kn i ≤ x ∧ x ≤ b.kn (i + 1))))) :=
                  Or.inr ⟨heq, Or.inr (fun h => c3 h.1)⟩
                rw [if_pos hbad]
                simp only [c1, c3, s1, if_true, if_false, ok_bind, error_bind, Bool.false_eq_true]
          · -- `knots[i+p-1]` is already out of range
            have hbad : (b.knots.size + 1 ≤ i + b.order ∨
                (i + b.order = b.knots.size ∧ (b.kn (i + b.order - 1) ≤ x ∨ ¬ (b.kn i ≤ x ∧ x ≤ b.kn (i + 1))))) :=
              Or.inl (by omega)
            rw [if_pos hbad]
            have g1 : getItem b.knots ((i : Int) + b.order - 1) = .error .index := by
              unfold getItem; rw [if_pos (by omega), if_neg (by omega)]
            simp only [g1, error_bind])]
      have hGiff : (∃ i : ℕ, (mu : Int) - b.order ≤ (i : Int) ∧ (i : Int) < (mu : Int) ∧
            (b.knots.size + 1 ≤ i + b.order ∨
              (i + b.order = b.knots.size ∧ (b.kn (i + b.order - 1) ≤ x ∨ ¬ (b.kn i ≤ x ∧ x ≤ b.kn (i + 1))))))
          ↔ (mu - b.order < mu ∧ (mu + b.order ≥ b.knots.size + 2 ∨
              mu + b.order = b.knots.size + 1 ∧
                (b.kn (b.knots.size - 1) ≤ x ∨ ¬(b.kn (mu - 1) ≤ x ∧ x ≤ b.kn mu)))) := by
        constructor
        · rintro ⟨i, hi1, hi2, hb⟩
          refine ⟨by omega, ?_⟩
          rcases hb with hb | ⟨heq, hc⟩
          · left; omega
          · by_cases him : i + 1 = mu
            · right
              refine ⟨by omega, ?_⟩
              have e1 : i + b.order - 1 = b.knots.size - 1 := by omega
              have e2 : i = mu - 1 := by omega
              rw [e1] at hc
              rw [e2] at hc
              rw [show mu - 1 + 1 = mu by omega] at hc
              exact hc
            · left; omega
        · rintro ⟨_, hG | ⟨hG, hc⟩⟩
          · exact ⟨b.knots.size - b.order + 1, by omega, by omega, Or.inl (by omega)⟩
          · refine ⟨mu - 1, by omega, by omega, Or.inr ⟨by omega, ?_⟩⟩
            rw [show mu - 1 + b.order - 1 = b.knots.size - 1 by omega, show mu - 1 + 1 = mu by omega]
            exact hc
      by_cases hG : (∃ i : ℕ, (mu : Int) - b.order ≤ (i : Int) ∧ (i : Int) < (mu : Int) ∧
            (b.knots.size + 1 ≤ i + b.order ∨
              (i + b.order = b.knots.size ∧ (b.kn (i + b.order - 1) ≤ x ∨ ¬ (b.kn i ≤ x ∧ x ≤ b.kn (i + 1))))))
      · rw [if_pos hG, if_pos (hGiff.mp hG)]
        rfl
      rw [if_neg hG, if_neg (fun h => hG (hGiff.mpr h))]
      clear hG hGiff
      simp only [ok_bind, show ((mu : Int) - b.order).toNat = mu - b.order by omega,
        show ((mu : Int) - ((mu : Int) - b.order)).toNat = mu - (mu - b.order) by omega]
      have hC2 : MatShape (List.foldl
              (fun (s : Mat K) i =>
                (s.modify (i % (n + 1)) fun row =>
                      row.set! (i % n)
                        (if b.kn (i + b.order - 1) ≤ x ∧ x ≤ b.kn (i + b.order) then 1
                        else (x - b.kn i) / (b.kn (i + b.order - 1) - b.kn i))).modify
                  ((i + 1) % (n + 1)) fun row =>
                  row.set! (i % n)
                    (if b.kn i ≤ x ∧ x ≤ b.kn (i + 1) then 1
                    else (b.kn (i + b.order) - x) / (b.kn (i + b.order) - b.kn (i + 1))))
              C1 (List.range' (mu - b.order) (mu - (mu - b.order)))) (n + 1) n :=
        foldl_inv _ _ (fun C => MatShape C (n + 1) n) C1 hC1
          (fun C i hC => matShape_modify _ _ _ _ _ _ (matShape_modify _ _ _ _ _ _ hC))
      generalize (List.foldl
              (fun (s : Mat K) i =>
                (s.modify (i % (n + 1)) fun row =>
                      row.set! (i % n)
                        (if b.kn (i + b.order - 1) ≤ x ∧ x ≤ b.kn (i + b.order) then 1
                        else (x - b.kn i) / (b.kn (i + b.order - 1) - b.kn i))).modify
                  ((i + 1) % (n + 1)) fun row =>
                  row.set! (i % n)
                    (if b.kn i ≤ x ∧ x ≤ b.kn (i + 1) then 1
                    else (b.kn (i + b.order) - x) / (b.kn (i + b.order) - b.kn (i + 1))))
              C1 (List.range' (mu - b.order) (mu - (mu - b.order)))) = C2 at hC2 ⊢
      -- third loop
      rw [(forRange_eq_foldl (mu : Int) ((n : Int) + 1) C2 _
        (fun i C => C.modify (i % (n + 1)) (fun row => row.set! ((i - 1) % n) 1))
        (fun C => MatShape C (n + 1) n) (by omega) hC2
        (by
          intro i C h0 hi hC
          refine ⟨?_, matShape_modify _ _ _ _ _ _ hC⟩
          have e1 : ((n : Int) + 1) = ((n + 1 : ℕ) : Int) := by omega
          have e2 : ((i : Int) - 1) = ((i - 1 : ℕ) : Int) := by omega
          rw [e1, e2, pyModI_nat i (n + 1) (by omega), pyModI_nat (i - 1) n (by omega)]
          simp only [ok_bind]
          exact setItem2_ok C (n + 1) n _ _ 1 hC (Nat.mod_lt _ (by omega)) (Nat.mod_lt _ (by omega)))).1]
      have eins : npInsert b.knots (mu : Int) x = .ok (Basis.insertAt b.knots mu x) := by
        unfold npInsert
        rw [if_pos (by omega), if_pos (by omega)]; rfl
      simp only [ok_bind, eins, show ((n : Int) + 1 - mu).toNat = n + 1 - mu by omega, Int.toNat_natCast, pure_eq_ok,
        map_ok]
      have hm : (Basis.insertAt b.knots mu x).size = b.knots.size + 1 := size_insertAt _ _ _ (by omega)
      generalize Basis.insertAt b.knots mu x = K1 at hm ⊢
      by_cases hpp : b.periodic > -1
      · obtain ⟨k, hk⟩ : ∃ k : ℕ, b.periodic = k := ⟨b.periodic.toNat, by omega⟩
        have hk' : b.periodic.toNat = k := by omega
        simp only [hpp, if_true, hk', len, hm]
        simp only [hk]
        by_cases hA : mu ≤ b.order + k
        · have hA' : (mu : Int) ≤ b.order + k := by omega
          rw [if_pos hA, if_pos hA']
          rw [getItem_nonneg _ (by omega) (by omega), getItem_neg _ (by omega) (by omega)]
          simp only [ok_bind]
          have ei : (-(b.order : Int) - k - 1 + K1.size).toNat = b.knots.size + 1 - b.order - k - 1 := by omega
          rw [ei, Int.toNat_zero]
          rw [(forRange_eq_foldl 0 ((b.order : Int) + k + 1) _ _
            (fun i (s : Self K) => ({ knots := (s.knots.set! (b.knots.size + 1 - b.order - k - 1 + i)
                (K1.getD (b.knots.size + 1 - b.order - k - 1) 0 + (s.knots.getD i 0 - K1.getD 0 0))), order := s.order, periodic := s.periodic } : Self K))
            (fun s => s.knots.size = b.knots.size + 1) (le_refl _) hm
            (by
              intro i s h0 hi hs
              refine ⟨?_, by simp [hs]⟩
              rw [getItem_nonneg _ (by omega) (by omega)]
              simp only [ok_bind, Int.toNat_natCast]
              rw [setItem_nonneg _ _ (by omega) (by omega)]
              have : (((b.knots.size + 1 : ℕ) : Int) - b.order - k - 1 + i).toNat = b.knots.size + 1 - b.order - k - 1 + i := by
                omega
              rw [this]; rfl)).1]
          simp only [ok_bind, Int.toNat_zero, sub_zero, show ((b.order : Int) + k + 1).toNat = b.order + k + 1 by omega]
          rw [foldl_self (List.range' 0 (b.order + k + 1))
            (fun a i => a.set! (b.knots.size + 1 - b.order - k - 1 + i)
              (K1.getD (b.knots.size + 1 - b.order - k - 1) 0 + (a.getD i 0 - K1.getD 0 0)))]
          rfl
        · have hA' : ¬ (mu : Int) ≤ b.order + k := by omega
          rw [if_neg hA, if_neg hA']
          by_cases hB : mu ≥ b.knots.size + 1 - b.order - k - 1
          · have hB' : (mu : Int) ≥ ((b.knots.size + 1 : ℕ) : Int) - b.order - k - 1 := by omega
            rw [if_pos hB, if_pos hB']
            rw [getItem_nonneg _ (by omega) (by omega), getItem_neg _ (by omega) (by omega)]
            simp only [ok_bind]
            have ei : ((-1 : Int) + K1.size).toNat = b.knots.size + 1 - 1 := by omega
            have ej : ((b.order : Int) + k).toNat = b.order + k := by omega
            rw [ei, ej]
            rw [(forRange_eq_foldl 0 ((b.order : Int) + k + 1) _ _
              (fun i (s : Self K) => ({ knots := (s.knots.set! i
                  (K1.getD (b.order + k) 0 - (K1.getD (b.knots.size + 1 - 1) 0 -
                    s.knots.getD (b.knots.size + 1 - b.order - k - 1 + i) 0))), order := s.order, periodic := s.periodic } : Self K))
              (fun s => s.knots.size = b.knots.size + 1) (le_refl _) hm
              (by
                intro i s h0 hi hs
                refine ⟨?_, by simp [hs]⟩
                rw [getItem_nonneg _ (by omega) (by omega)]
                simp only [ok_bind]
                rw [setItem_nonneg _ _ (by omega) (by omega)]
                have : (((b.knots.size + 1 : ℕ) : Int) - b.order - k - 1 + i).toNat = b.knots.size + 1 - b.order - k - 1 + i := by
                  omega
                rw [this, Int.toNat_natCast]; rfl)).1]
            simp only [ok_bind, Int.toNat_zero, sub_zero, show ((b.order : Int) + k + 1).toNat = b.order + k + 1 by omega]
            rw [foldl_self (List.range' 0 (b.order + k + 1))
              (fun a i => a.set! i
                (K1.getD (b.order + k) 0 - (K1.getD (b.knots.size + 1 - 1) 0 -
                  a.getD (b.knots.size + 1 - b.order - k - 1 + i) 0)))]
            rfl
          · have hB' : ¬ (mu : Int) ≥ ((b.knots.size + 1 : ℕ) : Int) - b.order - k - 1 := by omega
            rw [if_neg hB, if_neg hB']
            rfl
      · simp only [hpp, if_false, ok_bind, ofBasis]

/-- **`insert_knot`, outside the cover branch.**  Non-periodic bases, and periodic bases with at least
    `p + k` functions (`hg`): the translated method equals the hand model.  (`hcol`: no collapsed domain;
    `hmu`: the insertion index is not below the order, true for sorted knots.)
    The cover branch (periodic, fewer than `p + k` functions — the recursive refinement of the
    `R`-fold cover) is covered by `PyBasis_insert_knot_eq_cover` at the end of this section. -/
theorem _root_.PyBasis_insert_knot_eq [FloorRing K] (b : Basis K) (tol x0 : K) (h1 : 1 ≤ b.order)
    (hper : -1 ≤ b.periodic) (hsz : b.order + 1 ≤ b.knots.size)
    (hcol : 0 ≤ b.periodic → (x0 < b.start ∨ x0 > b.stop) → b.stop - b.start ≠ 0)
    (hmu : ∀ x, wrapX b x0 = .ok x → b.order ≤ b.insertMu x)
    (hg : ¬ (b.periodic ≥ 0 ∧
      (b.knots.size : Int) - (b.order : Int) - (b.periodic + 1) < (b.order : Int) + b.periodic)) :
    PyBasis.insert_knot (ofBasis b) tol x0 = (b.insertKnot x0).map (fun r => (ofBasis r.1, r.2)) := by
  have hplain : b.insertKnot x0 = b.insertKnotPlain x0 := by
    unfold Basis.insertKnot Basis.insertKnotPlain
    cases b.insertWrap x0 with
    | error e => rfl
    | ok x =>
      simp only []
      rw [if_neg hg]
  rw [hplain]
  unfold PyBasis.insert_knot
  exact insert_knot_fuel_plain 999 b tol x0 h1 hper hsz hcol hmu hg

/-- `insert_knot` on a non-periodic basis with sorted knots anywhere in the closed domain (including
    `x0 = end`, where the code raises `IndexError` for clamped ends): every guard of
    `PyBasis_insert_knot_eq` follows. -/
theorem _root_.PyBasis_insert_knot_eq_sorted [FloorRing K] (b : Basis K) (tol x0 : K) (h1 : 1 ≤ b.order)
    (hper : b.periodic = -1) (hn : b.order + 1 ≤ b.knots.size)
    (hsorted : ∀ i j, i ≤ j → j < b.knots.size → b.kn i ≤ b.kn j)
    (hx : b.start ≤ x0) (hx' : x0 ≤ b.stop) :
    PyBasis.insert_knot (ofBasis b) tol x0 = (b.insertKnot x0).map (fun r => (ofBasis r.1, r.2)) := by
  refine PyBasis_insert_knot_eq b tol x0 h1 (by omega) hn
    (fun h => by omega) ?_ (fun h => by omega)
  intro x hxw
  have hw : wrapX b x0 = .ok x0 := by
    unfold wrapX
    rw [if_neg (by omega), if_neg (not_or.mpr ⟨not_lt.mpr hx, not_lt.mpr hx'⟩)]
  rw [hw] at hxw
  injection hxw with hxw
  subst hxw
  have hmuE : b.insertMu x0 = b.bisectR x0 := by
    unfold Basis.insertMu; rw [if_neg (by omega)]
  rw [hmuE]
  obtain ⟨hle, hlo, hhi⟩ := C20.bisectRight_spec b.kn x0 b.knots.size hsorted
  change b.bisectR x0 ≤ b.knots.size at hle
  by_contra hcon
  have := hhi (b.order - 1) (by change b.bisectR x0 ≤ _; omega) (by omega)
  exact absurd hx (not_le.mpr this)

/-! #### the cover branch -/

/-- one pass of the cover loop of the hand model (`Basis.insertKnot`, cover branch) -/
def coverStepM [FloorRing K] (T : K) (st : Basis K × Mat K × K) : PyM (Basis K × Mat K × K) :=
  match st.1.insertKnotPlain st.2.2 with
  | .error e => .error e
  | .ok (c', Ck) => .ok (c', Mat.mul Ck st.2.1, st.2.2 + T)

/-- the state of the hand model's cover loop after `j` passes -/
def coverIterM [FloorRing K] (T : K) (s0 : Basis K × Mat K × K) : ℕ → PyM (Basis K × Mat K × K)
  | 0 => .ok s0
  | j + 1 => match coverIterM T s0 j with
    | .error e => .error e
    | .ok st => coverStepM T st

/-- a loop whose body does not use the loop variable is an iteration -/
def iterM {σ : Type} (B : σ → PyM σ) : ℕ → σ → PyM σ
  | 0, s => .ok s
  | j + 1, s => match iterM B j s with
    | .error e => .error e
    | .ok s' => B s'

theorem foldlM_const {α σ : Type} (l : List α) (B : σ → PyM σ) (s : σ) :
    l.foldlM (fun s _ => B s) s = iterM B l.length s := by
  induction l using List.reverseRecOn generalizing s with
  | nil => rfl
  | append_singleton l a ih =>
    rw [List.foldlM_append, ih, List.length_append, List.length_singleton, iterM]
    cases iterM B l.length s with
    | error e => rfl
    | ok s' =>
      show [a].foldlM (fun s _ => B s) s' = B s'
      rw [List.foldlM_cons]
      cases B s' with
      | error e => rfl
      | ok s'' => rfl

theorem forRange_const {σ : Type} (R : ℕ) (s : σ) (B : σ → PyM σ) :
    forRange 0 (R : Int) s (fun _ st => B st) = iterM B R s := by
  unfold forRange
  rw [foldlM_const]
  congr 1
  unfold rangeI
  simp

theorem extract_min {α : Type} (xs : Array α) (m : ℕ) : xs.extract 0 (min m xs.size) = xs.extract 0 m := by
  apply Array.ext'
  simp [Array.toList_extract, List.extract_eq_take_drop]

/-- `insert_knot` of the hand model in the cover branch: the loop, then the first `len(knots)+1`
    knots and the first `n+1` rows. -/
theorem insertKnot_cover_unfold [FloorRing K] (b : Basis K) (x0 x : K) (hw : wrapX b x0 = .ok x)
    (hT : b.stop - b.start ≠ 0)
    (hc : b.periodic ≥ 0 ∧ (b.knots.size : Int) - (b.order : Int) - (b.periodic + 1) < (b.order : Int) + b.periodic)
    (hn : 1 ≤ b.numFunctions)
    (hnI : (b.knots.size : Int) - (b.order : Int) - (b.periodic + 1) = (b.numFunctions : Int)) :
    b.insertKnot x0 =
      match coverIterM (b.stop - b.start)
          ({ b with knots := b.coverKnots ((b.order + b.periodic.toNat + b.numFunctions - 1) / b.numFunctions) },
           Basis.tileIdentity b.numFunctions
             ((b.order + b.periodic.toNat + b.numFunctions - 1) / b.numFunctions), x)
          ((b.order + b.periodic.toNat + b.numFunctions - 1) / b.numFunctions) with
      | .error e => .error e
      | .ok (cover, C, _) =>
        .ok ({ b with knots := cover.knots.extract 0 (b.knots.size + 1) },
             C.extract 0 (b.numFunctions + 1)) := by
  have hiter : ∀ (T : K) (s0 : Basis K × Mat K × K) (R : ℕ),
      (List.range R).foldlM (fun st _ => coverStepM T st) s0 = coverIterM T s0 R := by
    intro T s0 R
    induction R with
    | zero => rfl
    | succ R ih =>
      rw [List.range_succ, List.foldlM_append, ih, coverIterM]
      cases coverIterM T s0 R with
      | error e => rfl
      | ok st =>
        show [R].foldlM (fun st _ => coverStepM T st) st = coverStepM T st
        rw [List.foldlM_cons]
        cases coverStepM T st with
        | error e => rfl
        | ok s => rfl
  have hw' : b.insertWrap x0 = .ok x := by
    rw [← hw]
    unfold Basis.insertWrap wrapX
    simp only []
    rw [if_pos hc.1, if_pos hc.1]
    by_cases hcc : x0 < b.start ∨ x0 > b.stop
    · simp only [hcc, if_true, hT, if_false]
    · simp only [hcc, if_false]
  unfold Basis.insertKnot
  rw [hw']
  simp only []
  rw [if_pos hc, hnI, if_neg (by omega), if_neg (by omega), ← hiter]
  rfl

/-- What a pass of the cover loop needs from its state `(cover, C, new_knot)`: the guards of
    `insert_knot_fuel_plain` for the recursive call (a cover has at least `p+k` functions, sorted knots, a
    non-collapsed domain) and matching shapes for `tmp @ C`.  All of them hold along the loop for a valid
    periodic basis (`C04.cover_guards`). -/
def StepGuard [FloorRing K] (st : Basis K × Mat K × K) : Prop :=
  1 ≤ st.1.order ∧ -1 ≤ st.1.periodic ∧ st.1.order + 1 ≤ st.1.knots.size ∧
  (0 ≤ st.1.periodic → (st.2.2 < st.1.start ∨ st.2.2 > st.1.stop) → st.1.stop - st.1.start ≠ 0) ∧
  (∀ x, wrapX st.1 st.2.2 = .ok x → st.1.order ≤ st.1.insertMu x) ∧
  ¬ (st.1.periodic ≥ 0 ∧ (st.1.knots.size : Int) - (st.1.order : Int) - (st.1.periodic + 1)
      < (st.1.order : Int) + st.1.periodic) ∧
  (∀ c' Ck, st.1.insertKnotPlain st.2.2 = .ok (c', Ck) →
    ¬ (0 < Ck.size ∧ (Ck.getD 0 #[]).size ≠ st.2.1.size))

/-- the state of the translated loop that stands for a state of the hand model's loop -/
def coverPhi (st : Basis K × Mat K × K) : Mat K × Self K × K := (st.2.1, ofBasis st.1, st.2.2)

/-- the body of the translated cover loop (it does not use the loop variable) -/
def coverBody [FloorRing K] (f : ℕ) (tol T : K) (st22 : Mat K × Self K × K) : PyM (Mat K × Self K × K) := do
  let __x ← PyBasis.insert_knot_fuel (f + 1) st22.2.1 tol st22.2.2
  let tmp24 ← npMatmul __x.2 st22.1
  Except.ok (tmp24, __x.1, st22.2.2 + T)

theorem cover_body [FloorRing K] (f : ℕ) (tol T : K) (st : Basis K × Mat K × K) (hg : StepGuard st) :
    coverBody f tol T (coverPhi st) = (coverStepM T st).map coverPhi := by
  obtain ⟨g1, g2, g3, g4, g5, g6, g7⟩ := hg
  unfold coverBody coverPhi coverStepM
  simp only []
  rw [insert_knot_fuel_plain f st.1 tol st.2.2 g1 g2 g3 g4 g5 g6]
  cases h : st.1.insertKnotPlain st.2.2 with
  | error e => rfl
  | ok r =>
    obtain ⟨c', Ck⟩ := r
    simp only [map_ok, ok_bind, npMatmul]
    rw [if_neg (g7 c' Ck h)]
    rfl

theorem iter_cover [FloorRing K] (f : ℕ) (tol T : K) (s0 : Basis K × Mat K × K) (R : ℕ)
    (hsteps : ∀ j, j < R → ∀ st, coverIterM T s0 j = .ok st → StepGuard st) :
    ∀ j, j ≤ R → iterM (coverBody f tol T) j (coverPhi s0) = (coverIterM T s0 j).map coverPhi := by
  intro j
  induction j with
  | zero => intro _; rfl
  | succ j ih =>
    intro hj
    rw [iterM, ih (by omega), coverIterM]
    cases h : coverIterM T s0 j with
    | error e => rfl
    | ok st =>
      simp only [map_ok]
      exact cover_body f tol T st (hsteps j (by omega) st h)

/-- `-(-a // n) = ⌈a / n⌉` on Python ints, as a natural-number quotient -/
theorem neg_fdiv_neg (a n : ℕ) (hn : 0 < n) :
    -(Int.fdiv (-(a : Int)) (n : Int)) = (((a + n - 1) / n : ℕ) : Int) := by
  have h1 := Nat.div_add_mod (a + n - 1) n
  have h2 := Nat.mod_lt (a + n - 1) hn
  set R := (a + n - 1) / n with hR
  have hnz : (0 : Int) < n := by exact_mod_cast hn
  rw [Int.fdiv_eq_ediv_of_nonneg _ (le_of_lt hnz)]
  have key : (-(a : Int)) / (n : Int) = -(R : Int) := by
    have hu := (Int.ediv_emod_unique (a := -(a : Int)) (r := (n : Int) * R - a) (q := -(R : Int)) hnz).2
      ⟨by ring, by
        have : (a : Int) + n - 1 = n * R + ((a + n - 1) % n : ℕ) := by
          have : ((a + n - 1 : ℕ) : Int) = ((n * R + (a + n - 1) % n : ℕ) : Int) := by rw [h1]
          rw [Nat.cast_sub (by omega)] at this
          push_cast at this ⊢
          linarith
        have h2' : (((a + n - 1) % n : ℕ) : Int) < n := by exact_mod_cast h2
        have h3' : (0 : Int) ≤ (((a + n - 1) % n : ℕ) : Int) := Int.natCast_nonneg _
        omega, by
        have : (a : Int) + n - 1 = n * R + ((a + n - 1) % n : ℕ) := by
          have : ((a + n - 1 : ℕ) : Int) = ((n * R + (a + n - 1) % n : ℕ) : Int) := by rw [h1]
          rw [Nat.cast_sub (by omega)] at this
          push_cast at this ⊢
          linarith
        have h3' : (0 : Int) ≤ (((a + n - 1) % n : ℕ) : Int) := Int.natCast_nonneg _
        omega⟩
    exact hu.1
  rw [key, neg_neg]

theorem insert_knot_fuel_cover [FloorRing K] (f : ℕ) (b : Basis K) (tol x0 x : K) (h1 : 1 ≤ b.order)
    (hw : wrapX b x0 = .ok x) (k : ℕ) (hk : b.periodic = (k : Int))
    (hn1 : 1 ≤ b.numFunctions)
    (hsz : b.order + k + 1 + b.numFunctions = b.knots.size)
    (hsmall : b.numFunctions < b.order + k) (hT : b.stop - b.start ≠ 0)
    (hinit : PyBasis.init tol (b.order : Int)
        (b.coverKnots ((b.order + k + b.numFunctions - 1) / b.numFunctions)) b.periodic
      = .ok (ofBasis { b with knots := b.coverKnots ((b.order + k + b.numFunctions - 1) / b.numFunctions) }))
    (hsteps : ∀ j, j < (b.order + k + b.numFunctions - 1) / b.numFunctions → ∀ st,
      coverIterM (b.stop - b.start)
        ({ b with knots := b.coverKnots ((b.order + k + b.numFunctions - 1) / b.numFunctions) },
         Basis.tileIdentity b.numFunctions ((b.order + k + b.numFunctions - 1) / b.numFunctions), x) j = .ok st →
      StepGuard st) :
    PyBasis.insert_knot_fuel (f + 2) (ofBasis b) tol x0
      = (b.insertKnot x0).map (fun r => (ofBasis r.1, r.2)) := by
  have h2 : b.order ≤ b.knots.size := by omega
  have hp : b.periodic ≥ 0 := by rw [hk]; omega
  have hktn : b.periodic.toNat = k := by rw [hk]; rfl
  have hnf : b.numFunctions = b.knots.size - b.order - (b.periodic + 1).toNat := rfl
  have hnI : (b.knots.size : Int) - (b.order : Int) - (b.periodic + 1) = (b.numFunctions : Int) := by
    rw [hk]; omega
  have hcc : b.periodic ≥ 0 ∧ (b.knots.size : Int) - (b.order : Int) - (b.periodic + 1)
      < (b.order : Int) + b.periodic := by
    refine ⟨hp, ?_⟩
    rw [hnI, hk]; omega
  rw [PyBasis.insert_knot_fuel]
  refine Eq.trans (bind_congr_left (A' := wrapX b x0) ?_) ?_
  · simp only [PyBasis_start_eq b tol h1 h2, PyBasis_end_eq b tol h1 h2, ok_bind, ofBasis_periodic, pure_eq_ok, wrapX]
    simp only [hp, if_true]
    by_cases hc1 : x0 < b.start
    · simp [hc1]
    · by_cases hc2 : x0 > b.stop <;> simp [hc1, hc2]
  · rw [hw]
    simp only [ok_bind, ofBasis_knots, ofBasis_order, ofBasis_periodic,
      PyBasis.num_functions, len, pure_eq_ok, PyBasis_start_eq b tol h1 h2, PyBasis_end_eq b tol h1 h2]
    simp only [hcc.1, hcc.2, and_self, if_true]
    rw [hnI]
    set R := (b.order + k + b.numFunctions - 1) / b.numFunctions with hRdef
    have hR : -(Int.fdiv (-((b.order : Int) + b.periodic)) (b.numFunctions : Int)) = (R : Int) := by
      rw [hk, show ((b.order : Int) + (k : Int)) = ((b.order + k : ℕ) : Int) by push_cast; rfl]
      exact neg_fdiv_neg (b.order + k) b.numFunctions (by omega)
    unfold pyFloorDivI
    rw [if_neg (by omega)]
    simp only [ok_bind]
    rw [hR]
    have hR1 : 1 ≤ R := by
      rw [hRdef]
      exact Nat.div_pos (by omega) (by omega)
    -- the knots of the cover
    rw [(forRange_eq_foldl 0 (((R : Int) - 1) * (b.numFunctions : Int)) b.knots _
      (fun (_ : ℕ) (a : Array K) => a.push (a.getD (a.size - b.numFunctions) 0 + (b.stop - b.start)))
      (fun a => b.numFunctions ≤ a.size) (le_refl _) (by omega)
      (by
        intro i a h0 hi ha
        refine ⟨?_, by simp; omega⟩
        rw [getItem_neg _ (by omega) (by omega)]
        simp only [ok_bind, append]
        have : (-(b.numFunctions : Int) + (a.size : Int)).toNat = a.size - b.numFunctions := by omega
        rw [this])).1]
    have hfold : (List.range' (0 : Int).toNat (((R : Int) - 1) * (b.numFunctions : Int) - 0).toNat).foldl
        (fun (s : Array K) (i : ℕ) => s.push (s.getD (s.size - b.numFunctions) 0 + (b.stop - b.start))) b.knots
        = b.coverKnots R := by
      have e : (((R : Int) - 1) * (b.numFunctions : Int) - 0).toNat = (R - 1) * b.numFunctions := by
        have : ((R : Int) - 1) * (b.numFunctions : Int) = (((R - 1) * b.numFunctions : ℕ) : Int) := by
          push_cast [Nat.cast_sub hR1]; ring
        rw [sub_zero, this, Int.toNat_natCast]
      rw [e, Int.toNat_zero, ← List.range_eq_range']
      rfl
    rw [hfold]
    simp only [ok_bind]
    rw [hinit]
    simp only [ok_bind, npTileIdentity]
    rw [if_neg (by omega)]
    simp only [ok_bind, Int.toNat_natCast]
    -- the loop over the images
    have hiter : forRange 0 (R : Int)
        ((Basis.tileIdentity b.numFunctions R : Mat K),
          ofBasis { order := b.order, knots := b.coverKnots R, periodic := b.periodic }, x)
        (fun i st22 => do
          let __x ← PyBasis.insert_knot_fuel (f + 1) st22.2.1 tol st22.2.2
          let tmp24 ← npMatmul __x.2 st22.1
          Except.ok (tmp24, __x.1, st22.2.2 + (b.stop - b.start)))
        = (coverIterM (b.stop - b.start)
            ({ order := b.order, knots := b.coverKnots R, periodic := b.periodic },
              Basis.tileIdentity b.numFunctions R, x) R).map coverPhi := by
      rw [← iter_cover f tol (b.stop - b.start) _ R hsteps R (le_refl R)]
      exact forRange_const R _ (coverBody f tol (b.stop - b.start))
    rw [hiter, insertKnot_cover_unfold b x0 x hw hT hcc hn1 hnI, hktn, ← hRdef]
    cases coverIterM (b.stop - b.start)
        ({ order := b.order, knots := b.coverKnots R, periodic := b.periodic },
          Basis.tileIdentity b.numFunctions R, x) R with
    | error e => rfl
    | ok st =>
      obtain ⟨cover, C, y⟩ := st
      simp only [map_ok, ok_bind, coverPhi, ofBasis_knots]
      unfold slice
      have e1 : sliceHi cover.knots.size (some ((b.knots.size : Int) + 1)) = min (b.knots.size + 1) cover.knots.size := by
        rw [sliceHi_some _ _ (by omega)]; congr 1
      have e2 : sliceHi C.size (some ((b.numFunctions : Int) + 1)) = min (b.numFunctions + 1) C.size := by
        rw [sliceHi_some _ _ (by omega)]; congr 1
      rw [e1, e2]
      simp only [sliceLo, extract_min]
      rfl

/-- **`insert_knot`, cover branch** (periodic basis with `1 ≤ n < p + k` functions; `x` the wrapped value).
    The translated method — `R = -(-(p+k) // n)`, the loop that appends `(R-1)·n` knots, the constructor call for
    the cover, `np.tile(np.identity(n), (R, 1))`, the loop of `R` recursive calls `cover.insert_knot(new_knot)` with
    `C = … @ C` and `new_knot += T`, the two slices — equals the hand model `Basis.insertKnot` (whose cover branch is
    a `foldlM` of `Basis.insertKnotPlain`), provided the constructor accepts the knot vector of the cover (`hinit`;
    the hand model assumes it) and every pass of the loop satisfies `StepGuard` (`hsteps`: the guards of
    `insert_knot_fuel_plain` for the recursive call and matching shapes for `@`; they hold for every valid
    periodic basis, `C04_source_insert_knot_small`). -/
theorem _root_.PyBasis_insert_knot_eq_cover [FloorRing K] (b : Basis K) (tol x0 x : K) (h1 : 1 ≤ b.order)
    (hw : wrapX b x0 = .ok x) (k : ℕ) (hk : b.periodic = (k : Int))
    (hn1 : 1 ≤ b.numFunctions)
    (hsz : b.order + k + 1 + b.numFunctions = b.knots.size)
    (hsmall : b.numFunctions < b.order + k) (hT : b.stop - b.start ≠ 0)
    (hinit : PyBasis.init tol (b.order : Int)
        (b.coverKnots ((b.order + k + b.numFunctions - 1) / b.numFunctions)) b.periodic
      = .ok (ofBasis { b with knots := b.coverKnots ((b.order + k + b.numFunctions - 1) / b.numFunctions) }))
    (hsteps : ∀ j, j < (b.order + k + b.numFunctions - 1) / b.numFunctions → ∀ st,
      coverIterM (b.stop - b.start)
        ({ b with knots := b.coverKnots ((b.order + k + b.numFunctions - 1) / b.numFunctions) },
         Basis.tileIdentity b.numFunctions ((b.order + k + b.numFunctions - 1) / b.numFunctions), x) j = .ok st →
      StepGuard st) :
    PyBasis.insert_knot (ofBasis b) tol x0 = (b.insertKnot x0).map (fun r => (ofBasis r.1, r.2)) := by
  unfold PyBasis.insert_knot
  exact insert_knot_fuel_cover 998 b tol x0 x h1 hw k hk hn1 hsz hsmall hT hinit hsteps

/-! ## helpers for __init__ -/

/-! ### method: __init__ -/

theorem init_too_few (p : ℕ) (knots : Array K) (per : Int) (tol : K) (h1 : 1 ≤ p) (h : knots.size < 2 * p) :
    PyBasis.init tol p knots per = .error .value := by
  unfold PyBasis.init
  have e1 : ¬ ((p : Int) < 1) := by omega
  have e2 : (len knots < 2 * (p : Int)) := by unfold len; omega
  simp [e1, e2]

theorem mk?_too_few (p : ℕ) (knots : Array K) (per : Int) (tol : K) (h1 : 1 ≤ p) (h : knots.size < 2 * p) :
    Basis.mk? p knots per tol = .error .value := by
  rw [mk?_unfold, if_neg (by omega), if_pos h]


/-- **The constructor, all inputs** (no guard): since the repair of finding
    `constructor-indexerror-short-periodic` (`if n < p + k + 1: raise ValueError` in front of the periodic
    comparison loop, mirrored by the `CtorShortPeriodic` branch of `Basis.mk?`) the translated `__init__` is the
    hand model everywhere; before it the code raised `IndexError` exactly on
    `1 ≤ p ∧ 2p ≤ n ∧ 0 ≤ k ∧ n < p + k + 1`. -/
theorem _root_.PyBasis_init_eq_full (p : ℕ) (knots : Array K) (periodic : Int) (tol : K) :
    PyBasis.init tol p knots periodic = (Basis.mk? p knots periodic tol).map ofBasis :=
  PyBasis_init_eq p knots periodic tol

/-! ### method: raise_order -/

theorem _root_.PyBasis_raise_order_eq [FloorRing K] (b : Basis K) (tol : K) (amount : Int) (h1 : 1 ≤ b.order)
    (h2 : b.order ≤ b.knots.size) :
    PyBasis.raise_order (ofBasis b) tol amount = (b.raiseOrderInt tol amount).map ofBasis := by
  by_cases hbl : 0 ≤ b.periodic → bisectLeft (fun i => (b.knotSpans tol true).getD i 0) b.stop (b.knotSpans tol true).size
        < (b.knotSpans tol true).size
  · exact raise_order_eq_aux b tol amount h1 h2 hbl
  · -- `bisect_left(knot_spans, end) = len(knot_spans)` on a periodic basis: Python's `n1 = -1` keeps at most
    -- `amount` knots, the model's truncated `n1 = 0` keeps none; the constructor refuses both (`ValueError`)
    have hp : 0 ≤ b.periodic := by by_contra hc; exact hbl (fun h => absurd h hc)
    have hge : ¬ bisectLeft (fun i => (b.knotSpans tol true).getD i 0) b.stop (b.knotSpans tol true).size
        < (b.knotSpans tol true).size := fun h => hbl (fun _ => h)
    have hle := bisectLeftAux_le (fun i => (b.knotSpans tol true).getD i 0) b.stop 0 (b.knotSpans tol true).size
      (Nat.zero_le _)
    have heq : bisectLeft (fun i => (b.knotSpans tol true).getD i 0) b.stop (b.knotSpans tol true).size
        = (b.knotSpans tol true).size := by unfold bisectLeft at hge ⊢; omega
    unfold PyBasis.raise_order Basis.raiseOrderInt
    by_cases ha : amount < 0
    · simp [ha]
    · simp only [ha, if_false, pure_eq_ok, ok_bind]
      rw [raiseOrder_unfold]
      by_cases ha0 : amount = 0
      · simp [ha0]
      · have ha0' : ¬ amount.toNat = 0 := by omega
        rw [if_neg ha0, if_neg ha0', PyBasis_knot_spans_eq b tol true h1 h2]
        simp only [ok_bind, PyBasis_start_eq b tol h1 h2, PyBasis_end_eq b tol h1 h2, ofBasis_knots, ofBasis_order,
          ofBasis_periodic, pure_eq_ok]
        obtain ⟨a, rfl⟩ : ∃ a : ℕ, amount = a := ⟨amount.toNat, by omega⟩
        simp only [Int.toNat_natCast] at ha0' ⊢
        have hpp : b.periodic > -1 := by omega
        simp only [hpp, if_true, ok_bind]
        rw [show ((b.order : Int) + a) = ((b.order + a : ℕ) : Int) by push_cast; ring]
        rw [init_too_few _ _ _ _ (by omega) (by
          simp only [bisect_left, len, heq, slice, Array.size_extract]
          have e : (-(((b.knotSpans tol true).size : Int) - ((b.knotSpans tol true).size : ℕ) - 1) * (a : Int)) = (a : Int) := by
            ring
          rw [e, sliceHi_some _ _ (by omega)]
          omega)]
        rw [mk?_too_few _ _ _ _ (by omega) (by
          unfold raisedKnots
          simp only [hpp, if_true, List.size_toArray, Array.toArray_toList, Array.length_toList, heq]
          simp
          omega)]
        rfl

end Splipy.PyB
