import Splipy.Lemmas.PyxEq

/-!
# The sparse triple returned by the translated `basis_eval.evaluate` assembles to the dense row

`Splipy/Generated/Pyx.lean` (translated from the current `basis_eval.pyx`) returns
`((data, indices, indptr), (m, n))`, the arguments of `scipy.sparse.csr_matrix`.  `csrRow` is row `i`
of `csr_matrix(...).toarray()` (entries of the slice `indptr[i] : indptr[i+1]` are added at their
column indices; duplicates are summed).  `pyx_csr_row_eq_evaluate`: applied to the snapped
parameters (`basis_eval.snap`, translated as well), row `i` is the dense model row
`Basis.evaluate tol t[i] d from_right` — the statement "sparse = dense" about the source-derived
code rather than about the model's own two result forms.
-/

namespace Splipy

open Splipy.Pyx

set_option linter.unusedSectionVars false

variable {K : Type} [Field K] [LinearOrder K] [IsStrictOrderedRing K]

/-- Row `i` of `scipy.sparse.csr_matrix((data, indices, indptr), shape=(m, n)).toarray()`. -/
def csrRow (data : Array K) (indices indptr : Array ℕ) (n i : ℕ) : Array K :=
  Row.toDense ⟨data.extract (aget indptr i) (aget indptr (i + 1)),
    indices.extract (aget indptr i) (aget indptr (i + 1))⟩ n

omit [LinearOrder K] [IsStrictOrderedRing K] in
theorem toDense_congr (r r' : Row K) (n : ℕ) (hs : r.data.size = r'.data.size)
    (hd : ∀ j, j < r.data.size → r.data.getD j 0 = r'.data.getD j 0)
    (hi : ∀ j, j < r.data.size → r.idx.getD j 0 = r'.idx.getD j 0) :
    r.toDense n = r'.toDense n := by
  apply Array.ext (by rw [toDense_size, toDense_size])
  intro c h1 h2
  rw [toDense_size] at h1
  have e1 := toDense_getD r n c h1
  have e2 := toDense_getD r' n c h1
  have g1 : (r.toDense n).getD c 0 = (r.toDense n)[c] := by simp [Array.getD, toDense_size, h1]
  have g2 : (r'.toDense n).getD c 0 = (r'.toDense n)[c] := by simp [Array.getD, toDense_size, h1]
  rw [← g1, ← g2, e1, e2, ← hs]
  apply Finset.sum_congr rfl
  intro j hj
  rw [Finset.mem_range] at hj
  rw [hd j hj, hi j hj]

theorem aget_npArange (a b step i : ℕ) (h : i < (b - a + step - 1) / step) :
    aget (npArange a b step) i = a + i * step := by
  unfold npArange
  rw [aget_ofFn _ _ _ h]

theorem aget_extract {α : Type} [Zero α] (xs : Array α) (s e j : ℕ) (h : s + j < min e xs.size) :
    aget (xs.extract s e) j = aget xs (s + j) := by
  unfold aget
  have h1 : j < min e xs.size - s := by omega
  simp only [Array.getD_eq_getD_getElem?, Array.getElem?_extract, if_pos h1]

theorem evalAt_sizes (b : Basis K) (tol : K) (d : ℕ) (fromRight : Bool) (t1 : K) :
    (evalAt b tol d fromRight t1).data.size = b.order ∧
      (evalAt b tol d fromRight t1).idx.size = b.order := by
  have hz : (zeroRow K b.order).data.size = b.order ∧ (zeroRow K b.order).idx.size = b.order := by
    simp [zeroRow]
  have hr : ∀ s, (rowAt b d s t1).data.size = b.order ∧ (rowAt b d s t1).idx.size = b.order := by
    intro s
    rw [rowAt_eq]
    exact ⟨triangle_size _ _ _ _ _, by simp⟩
  unfold evalAt
  simp only []
  split_ifs <;> first | exact hz | exact hr _

variable [FloorRing K]

/-- **Sparse = dense for the source-derived code.**  For a valid basis, a positive tolerance,
`d < order` and enough fuel for the bisection loops: the translated `basis_eval.evaluate`, applied
to the parameters snapped by the translated `basis_eval.snap`, returns a CSR triple with shape
`(m, num_functions)` whose `i`-th assembled row is the dense model row at `ts[i]`. -/
theorem pyx_csr_row_eq_evaluate {b : Basis K} (hv : b.Valid) {tol : K} (htol : 0 < tol) {d : ℕ}
    (hd : d < b.order) (fromRight : Bool) {fuel : ℕ} (hfuel : b.knots.size ≤ fuel) (ts : Array K) :
    ∃ data indices indptr,
      Generated.Pyx.evaluate fuel b.knots b.order (Generated.Pyx.snap fuel b.knots ts tol).t
          b.periodic tol d fromRight
        = ((data, indices, indptr), (ts.size, b.numFunctions)) ∧
      ∀ i, i < ts.size →
        csrRow data indices indptr b.numFunctions i = b.evaluate tol (aget ts i) d fromRight := by
  obtain ⟨hsz, hsn⟩ := PyxEq.snap_eq fuel tol b ts hfuel
  obtain ⟨data, indices, heq, hD, hI, hrows⟩ :=
    PyxEq.evaluate_eq_of_valid fuel tol d fromRight b (Generated.Pyx.snap fuel b.knots ts tol).t
      hv htol hd hfuel
  have hp := hv.order_pos
  rw [hsz] at heq hD hI hrows
  refine ⟨data, indices, _, heq, ?_⟩
  intro i hi
  have hcount : (ts.size * b.order + 1 - 0 + b.order - 1) / b.order = ts.size + 1 := by
    rw [show ts.size * b.order + 1 - 0 + b.order - 1 = (ts.size + 1) * b.order by ring_nf; omega]
    exact Nat.mul_div_cancel _ (by omega)
  have hp0 : aget (npArange 0 (ts.size * b.order + 1) b.order) i = i * b.order := by
    rw [aget_npArange _ _ _ _ (by rw [hcount]; omega)]; omega
  have hp1 : aget (npArange 0 (ts.size * b.order + 1) b.order) (i + 1) = (i + 1) * b.order := by
    rw [aget_npArange _ _ _ _ (by rw [hcount]; omega)]; omega
  have hle : (i + 1) * b.order ≤ ts.size * b.order := Nat.mul_le_mul_right _ (by omega)
  have hsplit : (i + 1) * b.order = i * b.order + b.order := by ring
  unfold csrRow Basis.evaluate
  simp only []
  rw [if_neg (by omega), hp0, hp1, ← hsn i hi]
  obtain ⟨s1, s2⟩ := evalAt_sizes b tol d fromRight
    (wrapT b tol fromRight (aget (Generated.Pyx.snap fuel b.knots ts tol).t i))
  rw [← evalRow_eq] at s1 s2
  apply toDense_congr
  · simp only [Array.size_extract, s1, hD]
    omega
  · intro j hj
    simp only [Array.size_extract, hD] at hj
    have hj' : j < b.order := by omega
    have := (hrows i hi j hj').1
    show aget (data.extract (i * b.order) ((i + 1) * b.order)) j
      = aget (evalRow b tol d fromRight (aget (Generated.Pyx.snap fuel b.knots ts tol).t i)).data j
    rw [← this]
    exact aget_extract data _ _ j (by rw [hD]; omega)
  · intro j hj
    simp only [Array.size_extract, hD] at hj
    have hj' : j < b.order := by omega
    have := (hrows i hi j hj').2
    show aget (indices.extract (i * b.order) ((i + 1) * b.order)) j
      = aget (evalRow b tol d fromRight (aget (Generated.Pyx.snap fuel b.knots ts tol).t i)).idx j
    rw [← this]
    exact aget_extract indices _ _ j (by rw [hI]; omega)

end Splipy
