import Splipy.Lemmas.C18FacesC
import Splipy.Lemmas.C18FacesB
import Splipy.Lemmas.C18Ifem
import Splipy.Lemmas.C18Numbering

/-!
# C18 — assembly of `faces()` over the patches: the final `assert` does not fire under the guard
-/

namespace Splipy.MP.C18L

open Splipy.MP

/-- the cell numbers are the ones `generate_cell_numbers()` hands out -/
def CellsOK (ktol : ℚ) (r : Numbered) : Prop :=
  r.cells = (cellArrays (r.tops.map fun t => cellShape ktol (r.sm.cat.node t).obj) 0).1.toArray

theorem cellsOK_generate (ktol : ℚ) (r : Numbered) : CellsOK ktol (r.generateCellNumbers ktol) := by
  simp [CellsOK, Numbered.generateCellNumbers]

theorem cellArrays_getD : ∀ (shapes : List (List ℕ)) (s k : ℕ), k < shapes.length →
    ∃ st, (cellArrays shapes s).1.getD k default = arangeArr st (shapes.getD k [])
  | [], _, _, h => by simp at h
  | sh :: shapes, s, 0, _ => ⟨s, by simp [cellArrays]⟩
  | sh :: shapes, s, k + 1, h => by
    obtain ⟨st, hst⟩ := cellArrays_getD shapes (s + shapeSize sh) k (by simpa using h)
    exact ⟨st, by simpa [cellArrays] using hst⟩

/-- what the kinds mean, read off the definition of `facesTagged` -/
theorem tagged_spec (ktol : ℚ) (r : Numbered) (k : ℕ) (l : List (Face × FaceKind)) (h : r.facesTagged ktol k = .ok l) :
    let cs := cellShape ktol (r.sm.cat.node (r.tops.getD k 0)).obj
    let cp := r.cp.getD k default
    let cell := r.cells.getD k default
    cs.length = 3 ∧ ∀ fk ∈ l,
      (fk.2 = FaceKind.internal → ∃ d, d < 3 ∧ fk.1 ∈ internalFaces cs cp cell d) ∧
      (fk.2 = FaceKind.boundary → fk.1.neighbor = -1) ∧
      (∀ nb, fk.2 = FaceKind.iface nb → ∃ f0 d last nm, f0 ∈ sideFaces cs cp cell d last nm ∧ fk.1.owner = f0.owner) := by
  intro cs cp cell
  unfold Numbered.facesTagged at h
  simp only at h
  split at h
  · cases h
  · split at h
    · cases h
    · rename_i hord
      split at h
      · cases h
      · split at h
        · cases h
        · rename_i pieces hp
          simp only [Except.ok.injEq] at h
          subst h
          have hlen : cs.length = 3 := by
            have : (List.map (fun x => x.order) (r.sm.cat.node (r.tops.getD k 0)).obj.bases).length = 3 := by
              rw [not_not.1 hord]; rfl
            simpa [cs, cellShape] using this
          refine ⟨hlen, ?_⟩
          intro fk hfk
          obtain ⟨piece, hpiece, hfp⟩ := List.mem_flatten.1 hfk
          obtain ⟨d, hd, hpd⟩ := List.mem_mapM_ok hp piece hpiece
          have hd3 : d < 3 := List.mem_range.1 hd
          -- one piece
          unfold Numbered.pieceOf at hpd
          simp only at hpd
          split at hpd
          · cases hpd
          · rename_i s0 hs0
            split at hpd
            · cases hpd
            · rename_i s1 hs1
              simp only [Except.ok.injEq] at hpd
              subst hpd
              -- a side
              have hside : ∀ (last : Bool) (s : List (Face × FaceKind)), r.sideOf ktol k d last = .ok s → ∀ fk ∈ s,
                  fk.2 ≠ FaceKind.internal ∧ (fk.2 = FaceKind.boundary → fk.1.neighbor = -1) ∧
                  (∀ nb, fk.2 = FaceKind.iface nb → ∃ f0 nm, f0 ∈ sideFaces cs cp cell d last nm ∧ fk.1.owner = f0.owner) := by
                intro last s hs fk hfk
                unfold Numbered.sideOf at hs
                simp only at hs
                split at hs
                · simp only [Except.ok.injEq] at hs; subst hs; simp at hfk
                · split at hs
                  · cases hs
                  · split at hs
                    · cases hs
                    · split at hs
                      · simp only [Except.ok.injEq] at hs; subst hs; simp at hfk
                      · split at hs
                        · simp only [Except.ok.injEq] at hs
                          subst hs
                          obtain ⟨f0, hf0, rfl⟩ := List.mem_map.1 hfk
                          refine ⟨by simp, fun _ => (neighs_side _ _ _ _ _ _ f0 hf0).1, fun nb h => by simp at h⟩
                        · split at hs
                          · cases hs
                          · rename_i i _
                            split at hs
                            · cases hs
                            · simp only [Except.ok.injEq] at hs
                              subst hs
                              obtain ⟨fm, hfm, rfl⟩ := List.mem_map.1 hfk
                              refine ⟨by simp, fun h => by simp at h, fun nb _ => ⟨fm.1, _, (List.of_mem_zip hfm).1, rfl⟩⟩
              rcases List.mem_append.1 hfp with hfp | hfp
              · rcases List.mem_append.1 hfp with hfp | hfp
                · obtain ⟨f, hf, rfl⟩ := List.mem_map.1 hfp
                  exact ⟨fun _ => ⟨d, hd3, hf⟩, fun h => by simp at h, fun nb h => by simp at h⟩
                · obtain ⟨h1, h2, h3⟩ := hside false s0 hs0 fk hfp
                  exact ⟨fun h => absurd h h1, h2, fun nb h => by
                    obtain ⟨f0, nm, hf0, he⟩ := h3 nb h; exact ⟨f0, d, false, nm, hf0, he⟩⟩
              · obtain ⟨h1, h2, h3⟩ := hside true s1 hs1 fk hfp
                exact ⟨fun h => absurd h h1, h2, fun nb h => by
                  obtain ⟨f0, nm, hf0, he⟩ := h3 nb h; exact ⟨f0, d, true, nm, hf0, he⟩⟩

end Splipy.MP.C18L

namespace Splipy.MP.C18L

open Splipy.MP

/-- meaning of the adjacency certificate -/
theorem cellHas_spec (r : Numbered) (pos : ℕ) (c : ℤ) (nodes : List ℤ) (h : r.cellHas pos c nodes = true) :
    c ∈ (r.cells.getD pos default).data.toList ∧
    ∃ q, q < (r.cells.getD pos default).data.size ∧ (r.cells.getD pos default).data.getD q default = c ∧
      ∀ v ∈ nodes, v ∈ cellCorners (r.cp.getD pos default) (unravel (r.cells.getD pos default).shape q) := by
  unfold Numbered.cellHas at h
  simp only [Bool.and_eq_true, decide_eq_true_eq, List.all_eq_true] at h
  obtain ⟨hq, hall⟩ := h
  have hmem : c ∈ (r.cells.getD pos default).data.toList := by
    rw [← List.idxOf_lt_length_iff]; simpa using hq
  refine ⟨hmem, _, hq, ?_, fun v hv => by simpa using hall v hv⟩
  generalize (r.cells.getD pos default).data = dt at hq ⊢
  have hq' : List.idxOf c dt.toList < dt.toList.length := by simpa using hq
  have h3 : dt.toList[List.idxOf c dt.toList] = c := List.getElem_idxOf hq'
  simp only [Array.getD, hq, dite_true]
  exact h3

theorem sideFaces_owner (cs : List ℕ) (cp cell : NdArr ℤ) (d : ℕ) (last : Bool) (nm : Option String) :
    ∀ f ∈ sideFaces cs cp cell d last nm, f.owner = default ∨ f.owner ∈ cell.data.toList := by
  intro f hf
  simp only [sideFaces, List.mem_map] at hf
  obtain ⟨k, _, rfl⟩ := hf
  exact ndGet_mem cell _

/-- **the final `assert` of `faces()` does not fire** for the top node at position `k`, when the
    cell numbers are those of `generate_cell_numbers()` and the guard holds. -/
theorem faces_assert (ktol : ℚ) (r : Numbered) (hc : CellsOK ktol r) (hg : r.facesGuardB ktol = true)
    (k : ℕ) (hk : k < r.tops.length) :
    ∃ l, r.facesTagged ktol k = .ok l ∧ r.facesOf ktol k = .ok (l.map (·.1)) ∧
      ∀ fk ∈ l, r.cellHas k fk.1.owner fk.1.nodes = true ∧
        (fk.2 = FaceKind.internal → r.cellHas k fk.1.neighbor fk.1.nodes = true ∧ fk.1.owner < fk.1.neighbor) ∧
        (fk.2 = FaceKind.boundary → fk.1.neighbor = -1) ∧
        (∀ nb, fk.2 = FaceKind.iface nb → k < nb ∧ nb < r.tops.length ∧
          r.cellHas nb fk.1.neighbor fk.1.nodes = true ∧ fk.1.owner < fk.1.neighbor) := by
  unfold Numbered.facesGuardB at hg
  simp only [Bool.and_eq_true, decide_eq_true_eq, List.all_eq_true] at hg
  obtain ⟨-, hall⟩ := hg
  obtain ⟨hpos, hk2⟩ := hall k (List.mem_range.2 hk)
  cases hl : r.facesTagged ktol k with
  | error e => rw [hl] at hk2; simp at hk2
  | ok l =>
    rw [hl] at hk2
    simp only [List.all_eq_true, Bool.and_eq_true] at hk2
    obtain ⟨hlen, hspec⟩ := tagged_spec ktol r k l hl
    set cs := cellShape ktol (r.sm.cat.node (r.tops.getD k 0)).obj with hcs
    set shapes := r.tops.map fun t => cellShape ktol (r.sm.cat.node t).obj with hshapes
    have hcells : ∀ j, r.cells.getD j default = (cellArrays shapes 0).1.getD j default := by
      intro j
      rw [hc]; simp [Array.getD_eq_getD_getElem?, List.getD_eq_getElem?_getD, hshapes]
    have hshk : shapes.getD k [] = cs := by
      simp [hshapes, hcs, List.getD_eq_getElem?_getD, List.getElem?_map, hk]
    obtain ⟨st, hst⟩ := cellArrays_getD shapes 0 k (by simpa [hshapes] using hk)
    rw [hshk] at hst
    have hcellk : r.cells.getD k default = arangeArr st cs := by rw [hcells, hst]
    have hposall : ∀ n ∈ cs, 0 < n := fun n hn => by simpa using hpos n hn
    have hlenC : (cellArrays shapes 0).1.length = r.tops.length := by rw [cellArrays_length]; simp [hshapes]
    -- facts per listed face
    have hfacts : ∀ fk ∈ l, r.cellHas k fk.1.owner fk.1.nodes = true ∧
        (fk.2 = FaceKind.internal → r.cellHas k fk.1.neighbor fk.1.nodes = true ∧ fk.1.owner < fk.1.neighbor) ∧
        (fk.2 = FaceKind.boundary → fk.1.neighbor = -1) ∧
        (∀ nb, fk.2 = FaceKind.iface nb → k < nb ∧ nb < r.tops.length ∧
          r.cellHas nb fk.1.neighbor fk.1.nodes = true ∧ fk.1.owner < fk.1.neighbor) := by
      intro fk hfk
      obtain ⟨hown, hkind⟩ := hk2 fk hfk
      obtain ⟨s1, s2, s3⟩ := hspec fk hfk
      refine ⟨hown, ?_, s2, ?_⟩
      · intro hi
        rw [hi] at hkind
        obtain ⟨d, hd, hf⟩ := s1 hi
        rw [hcellk] at hf
        exact ⟨hkind, (internal_owner_lt cs _ st d (by omega) hposall fk.1 hf).1⟩
      · intro nb hi
        rw [hi] at hkind
        simp only [Bool.and_eq_true, decide_eq_true_eq] at hkind
        obtain ⟨⟨hknb, hnbl⟩, hnbh⟩ := hkind
        refine ⟨hknb, hnbl, hnbh, ?_⟩
        obtain ⟨f0, d, last, nm, hf0, hown0⟩ := s3 nb hi
        have hnbmem := (cellHas_spec r nb _ _ hnbh).1
        rw [hcells] at hnbmem
        have hblock : ∀ a ∈ ((cellArrays shapes 0).1.getD k default).data.toList, a < fk.1.neighbor :=
          fun a ha => cellArrays_blocks shapes 0 k nb hknb a ha _ hnbmem (by rw [hlenC]; exact hnbl)
        rw [hown0]
        rcases sideFaces_owner _ _ _ _ _ _ f0 hf0 with h0 | h0
        · -- junk owner `0`: still below every cell number of a later patch
          rw [h0]
          have hss : 0 < shapeSize cs := shapeSize_pos hposall
          have hstmem : ((st : ℕ) : ℤ) ∈ ((cellArrays shapes 0).1.getD k default).data.toList := by
            rw [hst, arangeArr_data]
            exact List.mem_map_of_mem (List.mem_range'_1.2 ⟨le_refl _, by omega⟩)
          have := hblock _ hstmem
          show (0 : ℤ) < fk.1.neighbor
          omega
        · rw [hcells] at h0
          exact hblock _ h0
    refine ⟨l, rfl, ?_, hfacts⟩
    unfold Numbered.facesOf
    rw [hl]
    simp only
    rw [if_pos]
    rw [List.all_eq_true]
    intro f hf
    obtain ⟨fk, hfk, rfl⟩ := List.mem_map.1 hf
    obtain ⟨-, h1, h2, h3⟩ := hfacts fk hfk
    cases hkd : fk.2 with
    | internal => simp [(h1 hkd).2]
    | boundary => simp [h2 hkd]
    | iface nb => simp [(h3 nb hkd).2.2.2]

end Splipy.MP.C18L

namespace Splipy.MP.C18L

open Splipy.MP

/-- **`faces()` of the whole model returns** under the guard (any number of patches) -/
theorem faces_ok (ktol : ℚ) (r : Numbered) (hc : CellsOK ktol r) (hg : r.facesGuardB ktol = true) :
    ∃ fs, r.faces ktol = .ok fs ∧
      fs = (List.range r.tops.length).flatMap (fun k => ((r.facesTagged ktol k).toOption.getD []).map (·.1)) := by
  have hpd : r.sm.pardim = 3 := by
    unfold Numbered.facesGuardB at hg
    simp only [Bool.and_eq_true, decide_eq_true_eq] at hg
    exact hg.1
  unfold Numbered.faces
  rw [if_neg (by rw [hpd]; simp)]
  have key : ∀ (l : List ℕ) (acc : List Face), (∀ k ∈ l, k < r.tops.length) →
      l.foldlM (fun acc k =>
        match r.facesOf ktol k with
        | .ok fs => Except.ok (acc ++ fs)
        | .error NErr.stopIteration => Except.error (NErr.m MErr.runtime)
        | .error e => Except.error e) acc =
      .ok (acc ++ l.flatMap (fun k => ((r.facesTagged ktol k).toOption.getD []).map (·.1))) := by
    intro l
    induction l with
    | nil => intro acc _; simp [pure, Except.pure]
    | cons k l ih =>
      intro acc hl
      obtain ⟨lk, h1, h2, -⟩ := faces_assert ktol r hc hg k (hl k (by simp))
      rw [List.foldlM_cons]
      simp only [bind, Except.bind, h2]
      rw [ih _ (fun j hj => hl j (List.mem_cons_of_mem _ hj))]
      simp [h1, Except.toOption]
  refine ⟨_, key _ [] (fun k hk => List.mem_range.1 hk), by simp⟩

/-! ## the catalogue's plans and the history's plans -/

theorem FaceLink.same_eq {a b : FaceLink} (h : a.same b = true) : a = b := by
  obtain ⟨s1, o1, r1, e1⟩ := a
  obtain ⟨s2, o2, r2, e2⟩ := b
  unfold FaceLink.same at h
  simp only [Bool.and_eq_true, beq_iff_eq] at h
  obtain ⟨⟨⟨h1, h2⟩, h3⟩, h4⟩ := h
  subst h1 h2 h3
  congr 1
  cases e1 <;> cases e2 <;> simp_all

theorem PatchPlan.same_eq {a b : PatchPlan} (h : a.same b = true) : a = b := by
  obtain ⟨s1, f1⟩ := a
  obtain ⟨s2, f2⟩ := b
  unfold PatchPlan.same at h
  simp only [Bool.and_eq_true, beq_iff_eq, List.all_eq_true] at h
  obtain ⟨⟨h1, h2⟩, h3⟩ := h
  subst h1
  congr 1
  apply List.ext_getElem h2
  intro i hi1 hi2
  exact FaceLink.same_eq (h3 (f1[i], f2[i]) (by
    rw [List.mem_iff_getElem]
    exact ⟨i, by simp; omega, by simp⟩))

theorem plans_eq_of_agree {cat spec : List PatchPlan} (h : plansAgreeB cat spec = true) : cat = spec := by
  unfold plansAgreeB at h
  simp only [Bool.and_eq_true, beq_iff_eq, List.all_eq_true] at h
  obtain ⟨h1, h2⟩ := h
  apply List.ext_getElem h1.symm
  intro i hi1 hi2
  exact (PatchPlan.same_eq (h2 (spec[i], cat[i]) (by
    rw [List.mem_iff_getElem]
    exact ⟨i, by simp; omega, by simp⟩))).symm

end Splipy.MP.C18L
