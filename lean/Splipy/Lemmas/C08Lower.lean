import Splipy.Lemmas.C04PerSeq
import Splipy.Lemmas.C07PerWindow
import Splipy.Lemmas.C07Roll
import Splipy.Lemmas.C07SplitPer
import Splipy.Model.Periodic

/-!
# `lower_periodic`: one round and the whole loop (model level, every valid periodic direction)

One round = insert `start` (periodic insertion, `C04.PerRefines`), roll control points and knots by
one, decrement the continuity, drop the last knot.  The wrapped-image sum `wsum` of every fibre is
unchanged on the domain, the new basis is valid with continuity `k - 1` (valid open basis for
`k = 0`), same order, start and end, one more function.
-/

namespace Splipy

set_option linter.unusedSectionVars false
set_option linter.unusedVariables false

open C04

variable {K : Type} [Field K] [LinearOrder K] [IsStrictOrderedRing K] [FloorRing K]

/-- Body of the `while` loop of `lower_periodic`. -/
def Obj.lowerStep (o : Obj K) (dir : ℕ) : PyM (Obj K) := do
  let b := o.basis dir
  let o1 ← o.insertKnots [b.start] dir
  let cps := o1.cps.rollAxisNeg dir 1
  let b1 ← (o1.basis dir).roll 1
  let b2 : Basis K := { b1 with periodic := b1.periodic - 1,
                                knots := b1.knots.extract 0 (b1.knots.size - 1) }
  pure { o1 with bases := o1.bases.set! dir b2, cps := cps }

theorem Obj.lowerLoop_succ_lt (o : Obj K) (target : Int) (dir f : ℕ)
    (h : target < (o.basis dir).periodic) :
    Obj.lowerPeriodic.loop target dir (f + 1) o
      = o.lowerStep dir >>= Obj.lowerPeriodic.loop target dir f := by
  rw [Obj.lowerPeriodic.loop]
  simp only [h, if_true]
  unfold Obj.lowerStep
  simp only [bind_assoc, pure_bind]

theorem Obj.lowerLoop_succ_eq (o : Obj K) (target : Int) (dir f : ℕ)
    (h : target = (o.basis dir).periodic) :
    Obj.lowerPeriodic.loop target dir (f + 1) o = .ok o := by
  rw [Obj.lowerPeriodic.loop]
  have h1 : ¬ target < (o.basis dir).periodic := by omega
  have h2 : ¬ target > (o.basis dir).periodic := by omega
  simp only [h1, h2, if_false]
  rfl

/-- The basis after `insert_knot([x])` on an object is the basis `insert_knot(x)` returns. -/
theorem insertKnots_single_basis (o o1 : Obj K) (dir : ℕ) (hdir : dir < o.bases.size) (x : K)
    (bk : Basis K) (Ck : Mat K) (hins : (o.basis dir).insertKnot x = .ok (bk, Ck))
    (h : o.insertKnots [x] dir = .ok o1) : o1.basis dir = bk := by
  rw [insertKnots_eq] at h
  unfold insertMany at h
  simp only [List.foldlM_cons, List.foldlM_nil] at h
  unfold stepIns at h
  simp only [hins] at h
  simp only [bind, Except.bind, pure, Except.pure, Except.ok.injEq] at h
  rw [← h]
  exact basis_set o dir hdir _ _

/-- `bisect_right(knots, start) = p` when the seam has exactly its declared multiplicity. -/
theorem bisectR_start {b : Basis K} (hv : b.Valid) (hseam : b.start < b.kn b.order) :
    b.bisectR b.start = b.order := by
  obtain ⟨h1, h2, h3⟩ := bisectRight_spec b.kn hv.kn_mono b.start b.knots.size
  have hp := hv.order_pos
  have hs := hv.size_ge
  have a1 : b.order - 1 < b.bisectR b.start := by
    by_contra hc
    have := h3 (b.order - 1) (by unfold Basis.bisectR at hc; omega) (by omega)
    exact absurd this (lt_irrefl _)
  have a2 : b.bisectR b.start ≤ b.order := by
    by_contra hc
    have := h2 b.order (by unfold Basis.bisectR at hc; omega)
    exact absurd hseam (not_lt.2 this)
  omega

/-- Inserting `start` into ANY valid periodic basis: the new knot `p` is `start` (the seam grew to the
right of index `p - 1`), and if the seam had exactly its declared multiplicity (`start < knots[p]`) the
next knot is the old knot `p`. -/
theorem insert_start_window {b : Basis K} (hv : b.Valid) (k : ℕ) (hk : b.periodic = (k : Int)) :
    ∃ bk Ck, b.insertKnot b.start = .ok (bk, Ck) ∧ PerRefines b bk Ck 1 ∧
      bk.kn b.order = b.start ∧ (b.start < b.kn b.order → bk.kn (b.order + 1) = b.kn b.order) := by
  obtain ⟨bk, Ck, h1, hR, hkn⟩ :=
    insertKnot_periodic_window b hv k hk b.start ⟨le_refl _, le_of_lt hv.start_lt_stop⟩
  refine ⟨bk, Ck, h1, hR, ?_, ?_⟩
  all_goals
    have hs := hv.size_ge
    have hp := hv.order_pos
    have hn := numFunctions_periodic b k hk
    have hn1 := numFunctions_pos hv
    obtain ⟨r1, r2, r3⟩ := bisectRight_spec b.kn hv.kn_mono b.start b.knots.size
    have r2' : ∀ i, i < b.bisectR b.start → b.kn i ≤ b.start := r2
    have r3' : ∀ i, b.bisectR b.start ≤ i → i < b.knots.size → b.start < b.kn i := r3
    have hmu2 : b.bisectR b.start ≤ b.knots.size - b.order := by
      by_contra hlt
      have h2' : b.kn (b.knots.size - b.order) ≤ b.start := r2' _ (by omega)
      exact absurd hv.start_lt_stop (not_lt.2 h2')
    have hmuEq : b.insertMu b.start = b.bisectR b.start := by
      unfold Basis.insertMu
      rw [if_pos (by rw [hk]; omega)]
      exact Nat.min_eq_left hmu2
    have hlow : b.order ≤ b.bisectR b.start := by
      by_contra hc
      have := r3' (b.order - 1) (by omega) (by omega)
      exact absurd this (lt_irrefl _)
  · -- knot `p`
    have hclose : b.bisectR b.start ≤ b.order - 1 + b.numFunctions := by
      by_contra hc
      have := kn_run_le_period hv k hk (b.order - 1) (b.bisectR b.start - 1) (by omega) (by omega)
      have h2 := r2' (b.bisectR b.start - 1) (by omega)
      exact absurd (lt_of_lt_of_le this h2) (lt_irrefl _)
    rw [hkn b.order (by rw [hmuEq]; omega) (by rw [hmuEq]; omega) (by omega), hmuEq]
    rcases Nat.lt_or_ge b.order (b.bisectR b.start) with h | h
    · rw [bo_ins_lt h]
      exact le_antisymm (r2' _ h) (hv.kn_mono (show b.order - 1 ≤ b.order by omega))
    · have : b.order = b.bisectR b.start := by omega
      rw [← this, bo_ins_self]
  · intro hseam
    have hmu : b.bisectR b.start = b.order := bisectR_start hv hseam
    rw [hkn (b.order + 1) (by rw [hmuEq, hmu]; omega) (by rw [hmuEq, hmu]; omega) (by omega), hmuEq, hmu,
      bo_ins_gt (le_refl _) rfl]

/-- Knots of a rolled basis after cutting `r` knots at the end (any new periodicity `P`). -/
theorem Basis.roll_extract_kn {b : Basis K} (hv : b.Valid) (hper : 0 ≤ b.periodic) (mu : ℕ)
    (hmu : mu ≤ b.numFunctions) (b1 : Basis K) (hroll : b.roll mu = .ok b1) (r : ℕ) (P : Int) :
    let b2 : Basis K := { b1 with periodic := P, knots := b1.knots.extract 0 (b1.knots.size - r) }
    b2.order = b.order ∧ b2.periodic = P ∧ b2.knots.size = b.knots.size - r ∧
      ∀ j, j < b.knots.size - r → b2.kn j = b.ext (mu + j) := by
  obtain ⟨b1', h1, h2, h3, h4, h5⟩ := Basis.roll_spec hv hper mu hmu
  rw [hroll] at h1
  have e : b1 = b1' := Except.ok.inj h1
  subst e
  intro b2
  have hsz : b2.knots.size = b.knots.size - r := by
    show (b1.knots.extract 0 (b1.knots.size - r)).size = _
    rw [Array.size_extract, h4]; omega
  refine ⟨h2, rfl, hsz, fun j hj => ?_⟩
  rw [Basis.kn_of_lt b2 (by rw [hsz]; exact hj)]
  have hj' : j < b.knots.size := by omega
  have := h5 j hj'
  have e2 : b2.knots[j]? = some (b.ext (mu + j)) := by
    show (b1.knots.extract 0 (b1.knots.size - r))[j]? = _
    rw [Array.getElem?_extract, h4, if_pos (by omega), Nat.zero_add, this]
  have e3 : b2.knots[j]? = some (b2.knots[j]'(by rw [hsz]; exact hj)) := by
    simp [hsz, hj]
  rw [e3] at e2
  exact Option.some.inj e2

/-- State of an object after `j` rounds of the `lower_periodic` loop, relative to the start `o`. -/
structure LowerCore (o o' : Obj K) (dir j : ℕ) : Prop where
  valid : (o'.basis dir).Valid
  order_eq : (o'.basis dir).order = (o.basis dir).order
  periodic_eq : (o'.basis dir).periodic = (o.basis dir).periodic - j
  num_eq : (o'.basis dir).numFunctions = (o.basis dir).numFunctions + j
  nAll_eq : (o'.basis dir).nAll = (o.basis dir).nAll
  start_eq : (o'.basis dir).start = (o.basis dir).start
  stop_eq : (o'.basis dir).stop = (o.basis dir).stop
  other : ∀ d, d ≠ dir → o'.basis d = o.basis d
  rational_eq : o'.rational = o.rational
  shape_eq : o'.cps.shape = o.cps.shape.set dir ((o.basis dir).numFunctions + j)
  outer_eq : outerN o' dir = outerN o dir
  inner_eq : innerN o' dir = innerN o dir
  bases_size : o'.bases.size = o.bases.size
  same : ∀ a i, a < outerN o dir → i < innerN o dir → ∀ (s : Side) (d : ℕ) (t : K),
    s.mem (o.basis dir).start (o.basis dir).stop t →
    wsum s (o'.basis dir).kn ((o.basis dir).order - 1) (o.basis dir).nAll
        ((o.basis dir).numFunctions + j) (fibre o' dir a i) d t
      = wsum s (o.basis dir).kn ((o.basis dir).order - 1) (o.basis dir).nAll
        (o.basis dir).numFunctions (fibre o dir a i) d t

/-- `LowerCore` plus: the seam keeps exactly its declared multiplicity (`start < knots[p]`; only when
the object started like that). -/
structure LowerInv (o o' : Obj K) (dir j : ℕ) : Prop extends LowerCore o o' dir j where
  seam : (o'.basis dir).start < (o'.basis dir).kn (o.basis dir).order

/-- **One round of `lower_periodic`**, every valid periodic direction. -/
theorem lowerStep_core (o : Obj K) (dir : ℕ) (hdir : dir < o.bases.size)
    (hax : dir < o.cps.shape.length) (hv : (o.basis dir).Valid) (k : ℕ)
    (hk : (o.basis dir).periodic = (k : Int))
    (hshape : o.cps.shape.getD dir 0 = (o.basis dir).numFunctions) :
    ∃ o2, o.lowerStep dir = .ok o2 ∧ LowerCore o o2 dir 1 ∧
      ((o.basis dir).start < (o.basis dir).kn (o.basis dir).order →
        (o2.basis dir).start < (o2.basis dir).kn (o.basis dir).order) := by
  set b := o.basis dir with hb
  have hp := hv.order_pos
  have hpk : k + 2 ≤ b.order := by
    rcases hv.periodic_le with h | h
    · rw [hk] at h; omega
    · rw [hk] at h; omega
  have hper : 0 ≤ b.periodic := by rw [hk]; omega
  have hsize := Basis.per_size hv hper
  have hktn : b.periodic.toNat = k := by rw [hk]; omega
  rw [hktn] at hsize
  obtain ⟨o1, C, h1, hR, _, hother, hrat, hshp, hout, hinn, hfib, hbases⟩ :=
    insertKnots_fibres_periodic_all o dir hdir hax hv k hk hshape [b.start]
  simp only [List.length_singleton] at hR hshp hfib
  obtain ⟨bk, Ck, hins, _, hknk, hknk1⟩ := insert_start_window hv k hk
  have hb1 : o1.basis dir = bk := insertKnots_single_basis o o1 dir hdir _ bk Ck hins h1
  set b' := o1.basis dir with hb'
  have hv' : b'.Valid := hR.valid
  have hper' : 0 ≤ b'.periodic := by rw [hR.periodic_eq]; exact hper
  have hktn' : b'.periodic.toNat = k := by rw [hR.periodic_eq]; exact hktn
  have hord : b'.order = b.order := hR.order_eq
  have hn' : b'.numFunctions = b.numFunctions + 1 := hR.num_eq
  have hsize' : b'.knots.size = b.knots.size + 1 := hR.size_eq
  have hext : ∀ i, i < b'.knots.size → b'.ext i = b'.kn i := Basis.ext_eq hv' hper'
  have hTpos : 0 < b.stop - b.start := sub_pos.2 hv.start_lt_stop
  have hT' : b'.stop - b'.start = b.stop - b.start := by rw [hR.start_eq, hR.stop_eq]
  obtain ⟨b1, hroll, _⟩ := Basis.roll_spec hv' hper' 1 (by omega)
  obtain ⟨e1, e2, e3, e4⟩ := Basis.roll_extract_kn hv' hper' 1 (by omega) b1 hroll 1
    (b1.periodic - 1)
  set b2 : Basis K := { b1 with periodic := b1.periodic - 1,
                                knots := b1.knots.extract 0 (b1.knots.size - 1) } with hb2
  have hb1per : b1.periodic = (k : Int) := by
    obtain ⟨b1', h1', _, h3', _⟩ := Basis.roll_spec hv' hper' 1 (by omega)
    rw [hroll] at h1'
    rw [Except.ok.inj h1', h3', hR.periodic_eq, hk]
  have hb2per : b2.periodic = (k : Int) - 1 := by rw [e2, hb1per]
  have hb2sz : b2.knots.size = b.knots.size := by rw [e3, hsize']; omega
  have hb2kn : ∀ j, j < b.knots.size → b2.kn j = b'.ext (1 + j) := by
    intro j hj; exact e4 j (by rw [hsize']; omega)
  have hb2ord : b2.order = b.order := e1.trans hord
  have hdir1 : dir < o1.bases.size := by rw [hbases, size_set!]; exact hdir
  set o2 : Obj K := { o1 with bases := o1.bases.set! dir b2, cps := o1.cps.rollAxisNeg dir 1 }
    with ho2
  have hstep : o.lowerStep dir = .ok o2 := by
    unfold Obj.lowerStep
    simp only [← hb, h1, bind, Except.bind, ← hb', hroll]
    rfl
  have ho2b : o2.basis dir = b2 := basis_set o1 dir hdir1 _ _
  -- knot values
  have hknp : b'.kn b.order = b.start := by rw [hb1]; exact hknk
  have hknp1 : b.start < b.kn b.order → b'.kn (b.order + 1) = b.kn b.order := by
    intro h; rw [hb1]; exact hknk1 h
  have hstart2 : b2.start = b.start := by
    show b2.kn (b2.order - 1) = _
    rw [hb2ord, hb2kn _ (by omega), show 1 + (b.order - 1) = b.order by omega, hext _ (by omega), hknp]
  have hnAll2 : b2.nAll = b.nAll := by unfold Basis.nAll; rw [hb2sz, hb2ord]
  have hstop2 : b2.stop = b.stop := by
    show b2.kn (b2.knots.size - b2.order) = _
    rw [hb2sz, hb2ord, hb2kn _ (by omega), hext _ (by omega), ← hR.stop_eq]
    show _ = b'.kn (b'.knots.size - b'.order)
    rw [hsize', hord]; congr 1; omega
  have hnum2 : b2.numFunctions = b.numFunctions + 1 := by
    show b2.knots.size - b2.order - (b2.periodic + 1).toNat = _
    rw [hb2sz, hb2ord, hb2per]
    have : (((k : Int) - 1) + 1).toNat = k := by omega
    rw [this]; omega
  have hvalid2 : b2.Valid := by
    refine ⟨(by rw [hb2ord]; exact hp), (by rw [hb2sz, hb2ord]; exact hv.size_ge), ?_,
      (by rw [hb2per]; omega), (Or.inl (by rw [hb2per, hb2ord]; omega)), ?_, ?_⟩
    · intro j hj
      rw [hb2sz] at hj
      rw [hb2kn j (by omega), hb2kn (j+1) (by omega)]
      exact Basis.ext_mono hv' hper' (by omega)
    · rw [hstart2, hstop2]; exact hv.start_lt_stop
    · intro _ i hi
      rw [hnum2, hb2sz] at hi
      rw [hnum2, hstart2, hstop2, hb2kn _ (by omega), hb2kn _ (by omega),
        show 1 + (i + (b.numFunctions + 1)) = (1 + i) + b'.numFunctions by rw [hn']; omega,
        Basis.ext_add hv' hper', hT']
  have hseam2 : b.start < b.kn b.order → b2.start < b2.kn b.order := by
    intro hseam
    rw [hstart2, hb2kn _ (by omega), show 1 + b.order = b.order + 1 by omega, hext _ (by omega),
      hknp1 hseam]
    exact hseam
  have haxs : dir < o1.cps.shape.length := by rw [hshp, List.length_set]; exact hax
  have hrows : o1.cps.shape.getD dir 1 = b.numFunctions + 1 := by
    rw [hshp]; exact Tensor.getD_set_self _ _ _ hax
  refine ⟨o2, hstep, ⟨by rw [ho2b]; exact hvalid2, by rw [ho2b]; exact hb2ord, ?_,
    by rw [ho2b]; exact hnum2, by rw [ho2b]; exact hnAll2, by rw [ho2b]; exact hstart2,
    by rw [ho2b]; exact hstop2, ?_, hrat, ?_, ?_, ?_, ?_, ?_⟩, by rw [ho2b]; exact hseam2⟩
  · rw [ho2b, hb2per, hk]; push_cast; ring
  · intro d hd
    rw [ho2, basis_set_ne o1 dir d hd, hother d hd]
  · show (o1.cps.rollAxisNeg dir 1).shape = _
    rw [Tensor.rollAxisNeg_shape _ _ _ haxs, hshp]
  · show (Tensor.split3 (o1.cps.rollAxisNeg dir 1).shape dir).1 = _
    rw [Tensor.rollAxisNeg_shape _ _ _ haxs]; exact hout
  · show (Tensor.split3 (o1.cps.rollAxisNeg dir 1).shape dir).2.2 = _
    rw [Tensor.rollAxisNeg_shape _ _ _ haxs]; exact hinn
  · show (o1.bases.set! dir b2).size = _
    rw [size_set!, hbases, size_set!]
  · intro a i ha hi s d t ht
    rw [ho2b]
    set n' := b.numFunctions + 1 with hn'def
    have hn'pos : 0 < n' := by omega
    set c' := fibre o1 dir a i with hc'
    have hfop : ∀ r, r < n' → fibre o2 dir a i r = c' ((r + 1) % n') := by
      intro r hr
      show (o1.cps.rollAxisNeg dir 1).at3 dir a r i = _
      rw [Tensor.rollAxisNeg_at3 o1.cps dir 1 a r i haxs (by rw [hrows]; exact hr)
        (by have := hinn; unfold innerN at this; rw [this]; exact hi)
        (by have := hout; unfold outerN at this; rw [this]; exact ha), hrows]
      rfl
    have hnAll : b.nAll = b.numFunctions + k + 1 := by unfold Basis.nAll; omega
    have hnAll' : b'.nAll = b.nAll + 1 := hR.nAll_eq hv
    -- the rolled sum is the refined sum without its first term
    have hroll_sum : wsum s b2.kn (b.order - 1) b.nAll n' (fibre o2 dir a i) d t
        = (Finset.range b.nAll).sum (fun j => c' ((j + 1) % n') * dB s b'.kn (b.order - 1) (j + 1) d t) := by
      unfold wsum
      apply Finset.sum_congr rfl
      intro j hj
      rw [Finset.mem_range] at hj
      rw [hfop _ (Nat.mod_lt _ hn'pos), Nat.add_mod, Nat.mod_mod, ← Nat.add_mod]
      congr 1
      apply dB_congr_knots
      intro jj hjj
      rw [hb2kn (j + jj) (by omega), show 1 + (j + jj) = j + 1 + jj by omega, hext _ (by omega)]
    have hzero : dB s b'.kn (b.order - 1) 0 d t = 0 := by
      have h0 : b'.kn (0 + (b.order - 1) + 1) = b.start := by
        rw [show 0 + (b.order - 1) + 1 = b.order by omega]; exact hknp
      have ht2 := (Side.mem_iff s _ _ t).1 ht
      cases s
      · exact dB_support_right b'.kn hv'.kn_mono _ 0 d t (Or.inr (by rw [h0]; exact ht2.1))
      · exact dB_support_left b'.kn hv'.kn_mono _ 0 d t (Or.inr (by rw [h0]; exact ht2.1))
    have hfull : wsum s b'.kn (b.order - 1) (b.nAll + 1) n' c' d t
        = (Finset.range b.nAll).sum (fun j => c' ((j + 1) % n') * dB s b'.kn (b.order - 1) (j + 1) d t) := by
      unfold wsum
      rw [Finset.sum_range_succ', hzero, mul_zero, add_zero]
    rw [hroll_sum, ← hfull, wsum_congr s _ _ _ n' hn'pos _ _ d t (fun r hr => hfib a i r ha hi hr)]
    exact hR.same (fibre o dir a i) s d t ht

/-- **One round of `lower_periodic`**, older form with the guard `n ≥ p + k` (not used) and the seam
hypothesis (kept by the round). -/
theorem lowerStep_spec (o : Obj K) (dir : ℕ) (hdir : dir < o.bases.size)
    (hax : dir < o.cps.shape.length) (hv : (o.basis dir).Valid) (k : ℕ)
    (hk : (o.basis dir).periodic = (k : Int))
    (_hguard : (o.basis dir).order + k ≤ (o.basis dir).numFunctions)
    (hshape : o.cps.shape.getD dir 0 = (o.basis dir).numFunctions)
    (hseam : (o.basis dir).start < (o.basis dir).kn (o.basis dir).order) :
    ∃ o2, o.lowerStep dir = .ok o2 ∧ LowerInv o o2 dir 1 := by
  obtain ⟨o2, h1, h2, h3⟩ := lowerStep_core o dir hdir hax hv k hk hshape
  exact ⟨o2, h1, ⟨h2, h3 hseam⟩⟩

theorem list_set_getD_self (l : List ℕ) (i v : ℕ) (hi : i < l.length) (h : l.getD i 0 = v) :
    l.set i v = l := by
  apply List.ext_getElem
  · simp
  · intro j h1 h2
    rw [List.getElem_set]
    split_ifs with hij
    · subst hij
      rw [← h]; simp [List.getD, h2]
    · rfl

theorem list_getD_set_self0 (l : List ℕ) (i v : ℕ) (hi : i < l.length) : (l.set i v).getD i 0 = v := by
  simp [List.getD, hi]

theorem LowerCore.refl (o : Obj K) (dir : ℕ) (hax : dir < o.cps.shape.length)
    (hv : (o.basis dir).Valid)
    (hshape : o.cps.shape.getD dir 0 = (o.basis dir).numFunctions) : LowerCore o o dir 0 :=
  ⟨hv, rfl, by simp, rfl, rfl, rfl, rfl, fun _ _ => rfl, rfl,
    (list_set_getD_self _ _ _ hax hshape).symm, rfl, rfl, rfl, fun _ _ _ _ _ _ _ _ => rfl⟩

theorem LowerInv.refl (o : Obj K) (dir : ℕ) (hax : dir < o.cps.shape.length)
    (hv : (o.basis dir).Valid)
    (hshape : o.cps.shape.getD dir 0 = (o.basis dir).numFunctions)
    (hseam : (o.basis dir).start < (o.basis dir).kn (o.basis dir).order) : LowerInv o o dir 0 :=
  ⟨LowerCore.refl o dir hax hv hshape, hseam⟩

theorem LowerCore.step {o o' o'' : Obj K} {dir j : ℕ} (h1 : LowerCore o o' dir j)
    (h2 : LowerCore o' o'' dir 1) : LowerCore o o'' dir (j + 1) := by
  refine ⟨h2.valid, h2.order_eq.trans h1.order_eq, ?_, ?_, h2.nAll_eq.trans h1.nAll_eq,
    h2.start_eq.trans h1.start_eq, h2.stop_eq.trans h1.stop_eq, ?_, h2.rational_eq.trans h1.rational_eq,
    ?_, h2.outer_eq.trans h1.outer_eq, h2.inner_eq.trans h1.inner_eq,
    h2.bases_size.trans h1.bases_size, ?_⟩
  · rw [h2.periodic_eq, h1.periodic_eq]; push_cast; ring
  · rw [h2.num_eq, h1.num_eq]; omega
  · intro d hd; rw [h2.other d hd, h1.other d hd]
  · rw [h2.shape_eq, h1.shape_eq, List.set_set, h1.num_eq]; rfl
  · intro a i ha hi s d t ht
    have := h2.same a i (by rw [h1.outer_eq]; exact ha) (by rw [h1.inner_eq]; exact hi) s d t
      (by rw [h1.start_eq, h1.stop_eq]; exact ht)
    rw [h1.order_eq, h1.nAll_eq, h1.num_eq] at this
    rw [show (o.basis dir).numFunctions + (j + 1) = (o.basis dir).numFunctions + j + 1 by omega, this]
    exact h1.same a i ha hi s d t ht

theorem LowerInv.step {o o' o'' : Obj K} {dir j : ℕ} (h1 : LowerInv o o' dir j)
    (h2 : LowerInv o' o'' dir 1) : LowerInv o o'' dir (j + 1) :=
  ⟨h1.toLowerCore.step h2.toLowerCore, by have := h2.seam; rw [h1.order_eq] at this; exact this⟩

/-- The loop of `lower_periodic` started with `r + 1` units of fuel in a state `j` rounds after
`o0`, `r` rounds away from the target. -/
theorem lowerLoop_spec (o0 : Obj K) (dir : ℕ) (hdir : dir < o0.bases.size)
    (hax : dir < o0.cps.shape.length) (k : ℕ) (hk : (o0.basis dir).periodic = (k : Int))
    (hguard : (o0.basis dir).order + k ≤ (o0.basis dir).numFunctions) (target : Int) :
    ∀ (r : ℕ) (o' : Obj K) (j : ℕ), LowerInv o0 o' dir j → (k : Int) - j - r = target →
      -1 ≤ target →
      ∃ o'', Obj.lowerPeriodic.loop target dir (r + 1) o' = .ok o'' ∧ LowerInv o0 o'' dir (j + r) := by
  intro r
  induction r with
  | zero =>
    intro o' j hI ht _
    refine ⟨o', ?_, hI⟩
    apply Obj.lowerLoop_succ_eq
    rw [hI.periodic_eq, hk]; omega
  | succ r ih =>
    intro o' j hI ht hm
    have hper' : (o'.basis dir).periodic = ((k - j : ℕ) : Int) := by
      rw [hI.periodic_eq, hk]; omega
    obtain ⟨o2, hstep, hI2⟩ := lowerStep_spec o' dir (by rw [hI.bases_size]; exact hdir)
      (by rw [hI.shape_eq, List.length_set]; exact hax) hI.valid (k - j) hper'
      (by rw [hI.order_eq, hI.num_eq]; omega)
      (by rw [hI.shape_eq, list_getD_set_self0 _ _ _ hax, hI.num_eq])
      (by have := hI.seam; rw [← hI.order_eq] at this; exact this)
    obtain ⟨o3, hloop, hI3⟩ := ih o2 (j + 1) (hI.step hI2) (by push_cast; omega) hm
    refine ⟨o3, ?_, by rw [show j + (r + 1) = j + 1 + r by omega]; exact hI3⟩
    rw [Obj.lowerLoop_succ_lt o' target dir (r + 1) (by rw [hper']; omega), hstep]
    exact hloop

/-- Older form of `lowerPeriodic_spec_all` (the guard `hguard` is not used; with `hseam` the seam
keeps exactly its declared multiplicity). -/
theorem lowerPeriodic_spec (o : Obj K) (dir : ℕ) (hdir : dir < o.bases.size)
    (hax : dir < o.cps.shape.length) (hv : (o.basis dir).Valid) (k : ℕ)
    (hk : (o.basis dir).periodic = (k : Int))
    (hguard : (o.basis dir).order + k ≤ (o.basis dir).numFunctions)
    (hshape : o.cps.shape.getD dir 0 = (o.basis dir).numFunctions)
    (hseam : (o.basis dir).start < (o.basis dir).kn (o.basis dir).order)
    (target : Int) (h1 : -1 ≤ target) (h2 : target ≤ k) :
    ∃ o', o.lowerPeriodic target dir = .ok o' ∧ LowerInv o o' dir ((k : Int) - target).toNat := by
  unfold Obj.lowerPeriodic
  rw [hk]
  obtain ⟨o', h, hI⟩ := lowerLoop_spec o dir hdir hax k hk hguard target ((k : Int) - target).toNat o 0
    (LowerInv.refl o dir hax hv hshape hseam) (by omega) h1
  rw [Nat.zero_add] at hI
  exact ⟨o', h, hI⟩

/-- The loop of `lower_periodic`, every valid periodic direction (no guard, no seam hypothesis). -/
theorem lowerLoop_core (o0 : Obj K) (dir : ℕ) (hdir : dir < o0.bases.size)
    (hax : dir < o0.cps.shape.length) (k : ℕ) (hk : (o0.basis dir).periodic = (k : Int))
    (target : Int) :
    ∀ (r : ℕ) (o' : Obj K) (j : ℕ), LowerCore o0 o' dir j → (k : Int) - j - r = target →
      -1 ≤ target →
      ∃ o'', Obj.lowerPeriodic.loop target dir (r + 1) o' = .ok o'' ∧ LowerCore o0 o'' dir (j + r) := by
  intro r
  induction r with
  | zero =>
    intro o' j hI ht _
    refine ⟨o', ?_, hI⟩
    apply Obj.lowerLoop_succ_eq
    rw [hI.periodic_eq, hk]; omega
  | succ r ih =>
    intro o' j hI ht hm
    have hper' : (o'.basis dir).periodic = ((k - j : ℕ) : Int) := by
      rw [hI.periodic_eq, hk]; omega
    obtain ⟨o2, hstep, hI2, _⟩ := lowerStep_core o' dir (by rw [hI.bases_size]; exact hdir)
      (by rw [hI.shape_eq, List.length_set]; exact hax) hI.valid (k - j) hper'
      (by rw [hI.shape_eq, list_getD_set_self0 _ _ _ hax, hI.num_eq])
    obtain ⟨o3, hloop, hI3⟩ := ih o2 (j + 1) (hI.step hI2) (by push_cast; omega) hm
    refine ⟨o3, ?_, by rw [show j + (r + 1) = j + 1 + r by omega]; exact hI3⟩
    rw [Obj.lowerLoop_succ_lt o' target dir (r + 1) (by rw [hper']; omega), hstep]
    exact hloop

/-- **`lower_periodic(target)`** for `-1 ≤ target ≤ k`: EVERY valid periodic direction. -/
theorem lowerPeriodic_spec_all (o : Obj K) (dir : ℕ) (hdir : dir < o.bases.size)
    (hax : dir < o.cps.shape.length) (hv : (o.basis dir).Valid) (k : ℕ)
    (hk : (o.basis dir).periodic = (k : Int))
    (hshape : o.cps.shape.getD dir 0 = (o.basis dir).numFunctions)
    (target : Int) (h1 : -1 ≤ target) (h2 : target ≤ k) :
    ∃ o', o.lowerPeriodic target dir = .ok o' ∧ LowerCore o o' dir ((k : Int) - target).toNat := by
  unfold Obj.lowerPeriodic
  rw [hk]
  obtain ⟨o', h, hI⟩ := lowerLoop_core o dir hdir hax k hk target ((k : Int) - target).toNat o 0
    (LowerCore.refl o dir hax hv hshape) (by omega) h1
  rw [Nat.zero_add] at hI
  exact ⟨o', h, hI⟩

/-- Raising the periodicity is rejected. -/
theorem lowerPeriodic_raise (o : Obj K) (dir : ℕ) (target : Int)
    (h : (o.basis dir).periodic < target) : o.lowerPeriodic target dir = .error .value := by
  unfold Obj.lowerPeriodic
  rw [show ((o.basis dir).periodic - target).toNat = 0 by omega, Obj.lowerPeriodic.loop]
  have h1 : ¬ target < (o.basis dir).periodic := by omega
  simp only [h1, if_false, gt_iff_lt, h, if_true]
  rfl

end Splipy
