import Mathlib.Data.List.Basic
import Mathlib.Data.List.GetD
import Mathlib.Data.List.Nodup
import Splipy.Model.Numbering

/-!
# C18 — the invariant that ties the catalogue's plans (`planOf`) to the history's plans (`plansOfObjs`)
-/

namespace Splipy.MP.C18L

open Splipy.MP

/-- the occurrence at which the face `(k, i)` of the history was first seen (entry of
    `firstOccTable`; for `k`, `i` in range this is `firstOcc objs k i`) -/
def occOf (objs : List Obj) (k i : ℕ) : ℕ × ℕ := ((firstOccTable objs).getD k []).getD i (k, i)

theorem occOf_eq (objs : List Obj) (k i : ℕ) (hk : k < objs.length)
    (hi : i < (faceSecs (objs.getD k default)).length) : occOf objs k i = firstOcc objs k i := by
  unfold occOf firstOccTable
  have hi' : i < (faceSecs (objs[k]?.getD default)).length := by
    simpa [List.getD_eq_getElem?_getD] using hi
  simp [List.getD_eq_getElem?_getD, List.getElem?_map, List.getElem?_range hk, List.getElem?_range hi']

/-- the node of the `i`-th codimension-1 section of the top node at position `k` -/
def faceNode (sm : SplineModel) (k i : ℕ) : ℕ := ((sm.cat.node (sm.tops.getD k 0)).lower.getLastD []).getD i 0

/-- **What the numbering needs from the catalogue**, for a history `objs` of top-dimensional
    patches each of which became a new top node.  Beyond the invariant `Inv` of C17 (lower links ↔
    `≈`-classes of sections, `nodes(P)` duplicate free) this is the OWNERSHIP part of the state,
    which C17 does not track: a face node is created when its face is first seen, stores the object
    of that occurrence, is taken by the top node created right afterwards, and is handed the view
    of the last section of that node showing it. -/
structure PlansInv (sm : SplineModel) (objs : List Obj) : Prop where
  /-- one top node per patch … -/
  tops_len : sm.tops.length = objs.length
  tops_nodup : sm.tops.Nodup
  /-- … in insertion order, storing the patch as given -/
  top_obj : ∀ k, k < objs.length → (sm.cat.node (sm.tops.getD k 0)).obj = objs.getD k default
  top_pardim : ∀ k, k < objs.length → (sm.cat.node (sm.tops.getD k 0)).pardim = (objs.getD k default).pardim
  /-- one codimension-1 node per section -/
  lower_len : ∀ k, k < objs.length →
    ((sm.cat.node (sm.tops.getD k 0)).lower.getLastD []).length = (faceSecs (objs.getD k default)).length
  /-- first occurrences are earlier -/
  occ_lt : ∀ k i, k < objs.length → i < (faceSecs (objs.getD k default)).length → (occOf objs k i).1 < objs.length
  /-- the face node stores the object of the first occurrence of the face … -/
  face_obj : ∀ k i, k < objs.length → i < (faceSecs (objs.getD k default)).length →
    (sm.cat.node (faceNode sm k i)).obj = occObj objs (occOf objs k i)
  /-- … is owned by the top node of that patch … -/
  face_owner : ∀ k i, k < objs.length → i < (faceSecs (objs.getD k default)).length →
    (sm.cat.node (faceNode sm k i)).owner = some (sm.tops.getD (occOf objs k i).1 0)
  /-- … and views the owner's array through the last section of the owner showing it -/
  face_view : ∀ k i, k < objs.length → i < (faceSecs (objs.getD k default)).length →
    (allViews sm).getD (faceNode sm k i) none =
      some ⟨(occOf objs k i).1,
        [(faceSecs (objs.getD (occOf objs k i).1 default)).getD
          (lastSame (firstOccTable objs) (occOf objs k i).1 (occOf objs k i).2) []]⟩

/-- **Under the ownership invariant the plans read off the catalogue are the plans of the
    history**: `generate_cp_numbers` on the catalogue IS `numberPlans ∘ plansOfObjs`. -/
theorem plans_eq_of_inv (sm : SplineModel) (objs : List Obj) (h : PlansInv sm objs) :
    sm.plans = plansOfObjs objs := by
  unfold SplineModel.plans plansOfObjs
  apply List.ext_getElem?
  intro k
  rw [List.getElem?_map, List.getElem?_map]
  by_cases hk : k < objs.length
  · have hk' : k < sm.tops.length := by rw [h.tops_len]; exact hk
    rw [List.getElem?_eq_getElem hk', List.getElem?_range hk]
    simp only [Option.map_some, Option.some.injEq]
    have ht : sm.tops[k] = sm.tops.getD k 0 := by rw [List.getD_eq_getElem _ _ hk']
    rw [ht]
    unfold planOf planOfObjs
    simp only
    have hobj := h.top_obj k hk
    have hpd := h.top_pardim k hk
    congr 1
    · rw [hobj]
    · rw [hpd]
      apply List.ext_getElem?
      intro i
      have hS : faceSecs (objs.getD k default) =
          sections (objs.getD k default).pardim ((objs.getD k default).pardim - 1) := rfl
      rw [hS]
      set S := sections (objs.getD k default).pardim ((objs.getD k default).pardim - 1) with hSdef
      set L := (sm.cat.node (sm.tops.getD k 0)).lower.getLastD [] with hLdef
      have hLlen : L.length = S.length := h.lower_len k hk
      by_cases hi : i < S.length
      · have hL : i < L.length := by rw [hLlen]; exact hi
        have hz : i < (List.zip L S).length := by simp [List.length_zip]; exact ⟨hL, hi⟩
        rw [List.getElem?_map, List.getElem?_map, List.getElem?_eq_getElem hz,
          List.getElem?_eq_getElem (by simpa using hi)]
        simp only [Option.map_some, List.getElem_zip, List.getElem_zipIdx, Nat.zero_add, Option.some.injEq]
        have hF : L[i] = faceNode sm k i := by
          unfold faceNode; rw [← hLdef, List.getD_eq_getElem _ _ hL]
        have ho := h.face_owner k i hk hi
        have hv := h.face_view k i hk hi
        have hob := h.face_obj k i hk hi
        have hji : ((firstOccTable objs).getD k []).getD i (k, i) = occOf objs k i := rfl
        have hjlt := h.occ_lt k i hk hi
        have hown : (some (sm.tops.getD (occOf objs k i).1 0) == some (sm.tops.getD k 0)) = ((occOf objs k i).1 == k) := by
          have hk' : k < sm.tops.length := by rw [h.tops_len]; exact hk
          have hj' : (occOf objs k i).1 < sm.tops.length := by rw [h.tops_len]; exact hjlt
          rw [List.getD_eq_getElem _ _ hk', List.getD_eq_getElem _ _ hj']
          by_cases hjk : (occOf objs k i).1 = k
          · simp [hjk]
          · have : sm.tops[(occOf objs k i).1] ≠ sm.tops[k] := fun he => hjk ((h.tops_nodup.getElem_inj_iff).1 he)
            simp [hjk, this]
        rw [hF, ho, hv, hob, hji, hown, hobj]
      · have hz : ¬ i < (List.zip L S).length := by simp [List.length_zip]; omega
        rw [List.getElem?_eq_none (by simp; omega), List.getElem?_eq_none (by simp; omega)]
  · rw [List.getElem?_eq_none (by rw [h.tops_len]; omega), List.getElem?_eq_none (by simp; omega)]
    rfl

end Splipy.MP.C18L
