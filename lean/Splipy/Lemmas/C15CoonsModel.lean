import Splipy.Lemmas.C15CoonsObjs
import Splipy.Lemmas.C15Factory
import Mathlib.Data.Fin.VecNotation

/-!
# `Obj.coonsPatch` on four curves whose opposite pairs share an open basis on `[0,1]`

Stage 1: the model succeeds, the result is well formed on `B1 × B2`, and its evaluated map is
`S1 + S2 - S3` (the two ruled surfaces minus the corner surface) — every `make_splines_identical`
keeps the maps (property C12) and `+=` / `-=` add them.
-/

set_option linter.unusedSectionVars false

namespace Splipy
namespace C15

open C06 C12 Obj Basis Finset

variable {K : Type} [Field K] [LinearOrder K] [IsStrictOrderedRing K] [FloorRing K]

/-- The clamped basis of order `p` on `[0,1]` with interior values `U`, multiplicities `M`. -/
abbrev unitBasis (p : ℕ) (U : List K) (M : List ℕ) : Basis K := openBasis p (clampedU 0 1 U) (clampedM p M)

/-- Data of one family member of the Coons theorem: order, interior knots, multiplicities
    (`1 ≤ m ≤ p-1`: continuous), separation. -/
structure UnitKnots (tol : K) (p : ℕ) (U : List K) (M : List ℕ) : Prop where
  hp : 2 ≤ p
  hlen : M.length = U.length
  hm : ∀ x ∈ M, 1 ≤ x ∧ x ≤ p - 1
  hgap : Splipy.Separated (2 * ((p - 1 : ℕ) : K) * tol) (clampedU 0 1 U)

theorem UnitKnots.greville {tol : K} (htol : 0 < tol) {p : ℕ} {U : List K} {M : List ℕ}
    (h : UnitKnots tol p U M) : GrevilleOK tol (unitBasis p U M) := by
  have := grevilleOK_clamped tol htol (p - 1) (by have := h.hp; omega) 0 1 U M h.hlen.symm h.hm h.hgap
  have e : p - 1 + 1 = p := by have := h.hp; omega
  rw [e] at this
  exact this

theorem UnitKnots.sep {tol : K} (htol : 0 < tol) {p : ℕ} {U : List K} {M : List ℕ}
    (h : UnitKnots tol p U M) : Splipy.Separated tol (clampedU 0 1 U) := by
  apply separated_mono _ h.hgap
  have h1 : (1 : K) ≤ ((p - 1 : ℕ) : K) := by
    have : 1 ≤ p - 1 := by have := h.hp; omega
    exact_mod_cast this
  nlinarith

theorem UnitKnots.two_tol {tol : K} (htol : 0 < tol) {p : ℕ} {U : List K} {M : List ℕ}
    (h : UnitKnots tol p U M) : (0 : K) + 2 * ((1 : ℕ) : K) * tol < 1 := by
  have := (separated_ends _ 0 1 U h.hgap).1
  have h1 : (1 : K) ≤ ((p - 1 : ℕ) : K) := by
    have : 1 ≤ p - 1 := by have := h.hp; omega
    exact_mod_cast this
  push_cast
  nlinarith

theorem linear_unitKnots {tol : K} (h2 : (0 : K) + 2 * ((1 : ℕ) : K) * tol < 1) : UnitKnots tol 2 ([] : List K) [] where
  hp := le_refl 2
  hlen := rfl
  hm := by intro x hx; cases hx
  hgap := by
    unfold clampedU Splipy.Separated
    simp only [List.nil_append, List.pairwise_cons, List.mem_cons, List.not_mem_nil, or_false,
      forall_eq, IsEmpty.forall_iff, implies_true, List.Pairwise.nil, and_true]
    simpa using h2

theorem linearBasis_unit : (linearBasis : Basis K) = unitBasis 2 [] [] := linearBasis_eq

theorem raiseGuard_unit {tol : K} (htol : 0 < tol) {p : ℕ} {U : List K} {M : List ℕ}
    (h : UnitKnots tol p U M) (o : Obj K) (hb : o.basis 0 = unitBasis p U M) (hs : o.bases.size = 2) :
    Obj.raiseGuard tol o.bases.toList = .ok true := by
  rw [bases_of_size_two hs, hb]
  exact raiseGuard_clamped tol htol p (by have := h.hp; omega) 0 1 U M h.hlen.symm (h.sep htol)
    (fun j hj => (h.hm j hj).1) _

/-- A basis that causes no exception when it is the *other* direction of a `raise_order` (Greville
    collocation invertible) or the first direction of the object being raised (guard evaluates). -/
def Nice (tol : K) (B : Basis K) : Prop :=
  GrevilleOK tol B ∧ ∀ o : Obj K, o.basis 0 = B → o.bases.size = 2 → Obj.raiseGuard tol o.bases.toList = .ok true

theorem UnitKnots.nice {tol : K} (htol : 0 < tol) {p : ℕ} {U : List K} {M : List ℕ}
    (h : UnitKnots tol p U M) : Nice tol (unitBasis p U M) :=
  ⟨h.greville htol, fun o hb hs => raiseGuard_unit htol h o hb hs⟩

theorem linear_nice {tol : K} (htol : 0 < tol) (h2 : (0 : K) + 2 * ((1 : ℕ) : K) * tol < 1) :
    Nice tol (linearBasis : Basis K) := by
  rw [linearBasis_unit]
  exact (linear_unitKnots h2).nice htol

/-- `makeIdentical_unit_surfaces` with the side conditions packaged as `Nice` of the bases involved. -/
theorem makeIdentical_nice (tol : K) (htol : 0 < tol) (p1 p2 : Fin 2 → ℕ)
    (hp1 : ∀ i, 2 ≤ p1 i) (hp2 : ∀ i, 2 ≤ p2 i) (U : Fin 2 → List K) (Ma Mb : Fin 2 → List ℕ)
    (hla : ∀ i, (Ma i).length = (U i).length) (hlb : ∀ i, (Mb i).length = (U i).length)
    (hma : ∀ i, ∀ x ∈ Ma i, x ≤ p1 i - 1) (hmb : ∀ i, ∀ x ∈ Mb i, x ≤ p2 i - 1)
    (hgap : ∀ i, Splipy.Separated (2 * ((max (p1 i) (p2 i) - 1 : ℕ) : K) * tol) (clampedU 0 1 (U i)))
    (s1 s2 : Obj K) (hw1 : C06.WF s1 2) (hw2 : C06.WF s2 2) (hr : s1.rational = s2.rational)
    (hd : s1.dimension = s2.dimension)
    (hb1 : ∀ i : Fin 2, s1.basis i = openBasis (p1 i) (clampedU 0 1 (U i)) (clampedM (p1 i) (Ma i)))
    (hb2 : ∀ i : Fin 2, s2.basis i = openBasis (p2 i) (clampedU 0 1 (U i)) (clampedM (p2 i) (Mb i)))
    (hn1 : ∀ i : Fin 2, Nice tol (s1.basis i)) (hn2 : ∀ i : Fin 2, Nice tol (s2.basis i))
    (hnu : Nice tol (openBasis (max (p1 0) (p2 0)) (clampedU 0 1 (U 0))
          (clampedM (max (p1 0) (p2 0)) (unionMult (p1 0) (p2 0) (Ma 0) (Mb 0))))) :
    ∃ r, makeIdentical tol false false s1 s2 none = .ok r
      ∧ (∀ i : Fin 2, r.1.basis i = openBasis (max (p1 i) (p2 i)) (clampedU 0 1 (U i))
            (clampedM (max (p1 i) (p2 i)) (unionMult (p1 i) (p2 i) (Ma i) (Mb i))))
      ∧ (∀ i : Fin 2, r.2.basis i = r.1.basis i)
      ∧ SameMap 2 s1 r.1 ∧ SameMap 2 s2 r.2 ∧ C06.WF r.1 2 ∧ C06.WF r.2 2
      ∧ r.1.rational = s1.rational ∧ r.2.rational = r.1.rational ∧ r.1.dimension = r.2.dimension := by
  apply makeIdentical_unit_surfaces tol htol p1 p2 hp1 hp2 U Ma Mb hla hlb hma hmb hgap s1 s2 hw1 hw2 hr hd hb1 hb2
  · intro i _ B hB
    rcases hB with rfl | rfl
    · rcases i with ⟨i, hi⟩
      interval_cases i
      · exact (hn1 1).1
      · exact (hn1 0).1
    · exact hnu.1
  · intro i _ B hB
    rcases hB with rfl | rfl
    · rcases i with ⟨i, hi⟩
      interval_cases i
      · exact (hn2 1).1
      · exact (hn2 0).1
    · exact hnu.1
  · intro i _ o ho hs
    rcases ho with h | h
    · exact (hn1 0).2 o h hs
    · exact hnu.2 o h hs
  · intro i _ o ho hs
    rcases ho with h | h
    · exact (hn2 0).2 o h hs
    · exact hnu.2 o h hs

/-! ## Small facts about the members of the family -/

/-- A curve of the family: well formed (both notions), basis `unitBasis p U M`, given rationality and
    number of components. -/
structure UnitCurve (c : Obj K) (p : ℕ) (U : List K) (M : List ℕ) (rat : Bool) (nc : ℕ) : Prop where
  wf : C06.WF c 1
  basis : c.basis 0 = unitBasis p U M
  rational : c.rational = rat
  ncomp : c.ncomp = nc

theorem UnitCurve.curveLike {c : Obj K} {p : ℕ} {U : List K} {M : List ℕ} {rat : Bool} {nc : ℕ}
    (h : UnitCurve c p U M rat nc) (ho : c.WF) : CurveLike c (c.basis 0).numFunctions nc := by
  have hs := curve_shape h.wf
  rw [h.ncomp] at hs
  refine ⟨h.wf.size, by rw [h.basis]; rfl, hs, ?_, valid_numFunctions_pos (h.wf.valid 0)⟩
  rw [ho.data_size]
  unfold Tensor.size
  rw [hs]
  simp [Tensor.prod]

theorem UnitCurve.cpRow_size {c : Obj K} {p : ℕ} {U : List K} {M : List ℕ} {rat : Bool} {nc : ℕ}
    (h : UnitCurve c p U M rat nc) (ho : c.WF) :
    (Obj.cpRow c 0).size = nc ∧ (Obj.cpRow c (-1)).size = nc := by
  have hc := h.curveLike ho
  have hn := hc.pos
  rw [cpRow_first c _ nc hc, cpRow_last c _ nc hc]
  constructor
  · rw [Array.size_extract, hc.size]
    have : nc ≤ (c.basis 0).numFunctions * nc := Nat.le_mul_of_pos_left nc hn
    omega
  · rw [Array.size_extract, hc.size]
    have e : ((c.basis 0).numFunctions - 1) * nc + nc = (c.basis 0).numFunctions * nc := by
      have := Nat.sub_add_cancel hn
      calc ((c.basis 0).numFunctions - 1) * nc + nc = ((c.basis 0).numFunctions - 1 + 1) * nc := by ring
        _ = _ := by rw [this]
    omega

theorem dimension_eq_of {a b : Obj K} (hr : a.rational = b.rational) (hn : a.ncomp = b.ncomp) :
    a.dimension = b.dimension := by
  unfold Obj.dimension; rw [hr, hn]

theorem unitBasis_start_stop (p : ℕ) (hp : 2 ≤ p) (U : List K) (M : List ℕ) (hl : M.length = U.length) :
    (unitBasis p U M).start = 0 ∧ (unitBasis p U M).stop = 1 :=
  ⟨clamped_start p (by omega) 0 1 U M, clamped_stop p (by omega) 0 1 U M hl.symm⟩

/-- **Two curves of the family on the same basis → ruled surface**: the model succeeds with
    `ruledObj r.1 r.2`; `r.1`, `r.2` are the same maps as the inputs, on the same basis, well formed,
    of the same rationality and number of components. -/
theorem ruled_unit (tol : K) (htol : 0 < tol) {p : ℕ} {U : List K} {M : List ℕ} (hk : UnitKnots tol p U M)
    {rat : Bool} {nc : ℕ} (c1 c2 : Obj K) (h1 : UnitCurve c1 p U M rat nc) (h2 : UnitCurve c2 p U M rat nc)
    (h1o : c1.WF) (h2o : c2.WF) :
    ∃ r : Obj K × Obj K, Obj.ruled tol true c1 c2 = .ok (ruledObj r.1 r.2)
      ∧ UnitCurve r.1 p U M rat nc ∧ r.2.basis 0 = unitBasis p U M ∧ C06.WF r.2 1
      ∧ r.2.cps.shape = r.1.cps.shape ∧ r.2.ncomp = nc
      ∧ SameMap 1 c1 r.1 ∧ SameMap 1 c2 r.2 := by
  have hcomp : makeCompatible c1 c2 = (c1, c2) :=
    makeCompatible_of_eq c1 c2 (h1.rational.trans h2.rational.symm)
      (dimension_eq_of (h1.rational.trans h2.rational.symm) (h1.ncomp.trans h2.ncomp.symm))
  have hss := unitBasis_start_stop p hk.hp U M hk.hlen
  have ha : stageReparam (c1, c2) 0 = .ok (c1, c2) :=
    stageReparam_unit (c1, c2) 0 (by omega) (by rw [h1.wf.size]; exact Nat.one_pos)
      (by rw [h2.wf.size]; exact Nat.one_pos) (h1.wf.valid 0) (h2.wf.valid 0)
      (by show (c1.basis 0).start = 0; rw [h1.basis]; exact hss.1)
      (by show (c1.basis 0).stop = 1; rw [h1.basis]; exact hss.2)
      (by show (c2.basis 0).start = 0; rw [h2.basis]; exact hss.1)
      (by show (c2.basis 0).stop = 1; rw [h2.basis]; exact hss.2)
  have e0 : (entries U M M).map (·.1) = U := entries_fst U M M hk.hlen hk.hlen
  have e1 : (entries U M M).map (·.2.1) = M := entries_snd1 U M M hk.hlen hk.hlen
  have e2 : (entries U M M).map (·.2.2) = M := entries_snd2 U M M hk.hlen hk.hlen
  have hmm : ∀ e ∈ entries U M M, e.2.1 ≤ p - 1 ∧ e.2.2 ≤ p - 1 := by
    intro e he
    exact ⟨(hk.hm _ (by rw [← e1]; exact List.mem_map_of_mem he)).2,
      (hk.hm _ (by rw [← e2]; exact List.mem_map_of_mem he)).2⟩
  obtain ⟨r, hr, hb, hbb, hre1, hre2, hwr1, hwr2, hsh, hid⟩ :=
    ruled_curves tol htol p p hk.hp hk.hp 0 1 (entries U M M) hmm
      (by rw [e0, max_self]; exact hk.hgap) c1 c2 h1o h2o (c1, c2)
      (by rw [hcomp]; exact h1.wf) (by rw [hcomp]; exact h2.wf) (by rw [hcomp]; exact ha)
      (by rw [e0, e1]; exact h1.basis) (by rw [e0, e2]; exact h2.basis)
  rw [hcomp] at hre1 hre2 hid
  have hb' : r.1.basis 0 = unitBasis p U M := by
    rw [hb, e0, entries_union p p U M M hk.hlen hk.hlen, unionMult_self, max_self]
  have hs1 : SameMap 1 c1 r.1 := by
    have : Rescaled 1 0 0 1 c1 r.1 := by
      have h := hre1
      show Rescaled 1 0 0 1 (c1, c2).1 r.1
      have e : ((c1, c2).1.basis 0).start = 0 ∧ ((c1, c2).1.basis 0).stop = 1 := by
        show (c1.basis 0).start = 0 ∧ (c1.basis 0).stop = 1
        rw [h1.basis]; exact hss
      rw [e.1, e.2] at h; exact h
    exact rescaled_sameMap_unit this
  have hs2 : SameMap 1 c2 r.2 := by
    have : Rescaled 1 0 0 1 c2 r.2 := by
      have h := hre2
      show Rescaled 1 0 0 1 (c1, c2).2 r.2
      have e : ((c1, c2).2.basis 0).start = 0 ∧ ((c1, c2).2.basis 0).stop = 1 := by
        show (c2.basis 0).start = 0 ∧ (c2.basis 0).stop = 1
        rw [h2.basis]; exact hss
      rw [e.1, e.2] at h; exact h
    exact rescaled_sameMap_unit this
  obtain ⟨o1, o2⟩ := identicalDir_other (c1 := true) (c2 := true) (s := (c1, c2))
    (fun _ => h1.wf.size) (fun h => by cases h) (fun _ => h2.wf.size) (fun h => by cases h) hid
  have hrat : r.1.rational = rat := o1.rational.trans h1.rational
  have hnc1 : r.1.ncomp = nc := hs1.ncomp.trans h1.ncomp
  have hnc2 : r.2.ncomp = nc := hs2.ncomp.trans h2.ncomp
  exact ⟨r, hr, ⟨hwr1, hb', hrat, hnc1⟩, by rw [hbb]; exact hb', hwr2, hsh, hnc2, hs1, hs2⟩

/-- **Two curves of the family over a common interior-value list, orders and multiplicities may differ
    (`0` = value absent) → ruled surface**: the model succeeds with `ruledObj r.1 r.2`; `r.1`, `r.2` are
    the same maps as the inputs, both on the union basis, well formed. -/
theorem ruled_unit2 (tol : K) (htol : 0 < tol) {pa pb : ℕ} {U : List K} {Ma Mb : List ℕ}
    (hpa : 2 ≤ pa) (hpb : 2 ≤ pb) (hla : Ma.length = U.length) (hlb : Mb.length = U.length)
    (hma : ∀ x ∈ Ma, x ≤ pa - 1) (hmb : ∀ x ∈ Mb, x ≤ pb - 1)
    (hgap : Splipy.Separated (2 * ((max pa pb - 1 : ℕ) : K) * tol) (clampedU 0 1 U))
    {rat : Bool} {nc : ℕ} (c1 c2 : Obj K) (h1 : UnitCurve c1 pa U Ma rat nc) (h2 : UnitCurve c2 pb U Mb rat nc)
    (h1o : c1.WF) (h2o : c2.WF) :
    ∃ r : Obj K × Obj K, Obj.ruled tol true c1 c2 = .ok (ruledObj r.1 r.2)
      ∧ UnitCurve r.1 (max pa pb) U (unionMult pa pb Ma Mb) rat nc
      ∧ r.2.basis 0 = unitBasis (max pa pb) U (unionMult pa pb Ma Mb) ∧ C06.WF r.2 1
      ∧ r.2.cps.shape = r.1.cps.shape ∧ r.2.ncomp = nc
      ∧ SameMap 1 c1 r.1 ∧ SameMap 1 c2 r.2 := by
  have hcomp : makeCompatible c1 c2 = (c1, c2) :=
    makeCompatible_of_eq c1 c2 (h1.rational.trans h2.rational.symm)
      (dimension_eq_of (h1.rational.trans h2.rational.symm) (h1.ncomp.trans h2.ncomp.symm))
  have hssa := unitBasis_start_stop pa hpa U Ma hla
  have hssb := unitBasis_start_stop pb hpb U Mb hlb
  have ha : stageReparam (c1, c2) 0 = .ok (c1, c2) :=
    stageReparam_unit (c1, c2) 0 (by omega) (by rw [h1.wf.size]; exact Nat.one_pos)
      (by rw [h2.wf.size]; exact Nat.one_pos) (h1.wf.valid 0) (h2.wf.valid 0)
      (by show (c1.basis 0).start = 0; rw [h1.basis]; exact hssa.1)
      (by show (c1.basis 0).stop = 1; rw [h1.basis]; exact hssa.2)
      (by show (c2.basis 0).start = 0; rw [h2.basis]; exact hssb.1)
      (by show (c2.basis 0).stop = 1; rw [h2.basis]; exact hssb.2)
  have e0 : (entries U Ma Mb).map (·.1) = U := entries_fst U Ma Mb hla hlb
  have e1 : (entries U Ma Mb).map (·.2.1) = Ma := entries_snd1 U Ma Mb hla hlb
  have e2 : (entries U Ma Mb).map (·.2.2) = Mb := entries_snd2 U Ma Mb hla hlb
  have hmm : ∀ e ∈ entries U Ma Mb, e.2.1 ≤ pa - 1 ∧ e.2.2 ≤ pb - 1 := by
    intro e he
    exact ⟨hma _ (by rw [← e1]; exact List.mem_map_of_mem he),
      hmb _ (by rw [← e2]; exact List.mem_map_of_mem he)⟩
  obtain ⟨r, hr, hb, hbb, hre1, hre2, hwr1, hwr2, hsh, hid⟩ :=
    ruled_curves tol htol pa pb hpa hpb 0 1 (entries U Ma Mb) hmm
      (by rw [e0]; exact hgap) c1 c2 h1o h2o (c1, c2)
      (by rw [hcomp]; exact h1.wf) (by rw [hcomp]; exact h2.wf) (by rw [hcomp]; exact ha)
      (by rw [e0, e1]; exact h1.basis) (by rw [e0, e2]; exact h2.basis)
  rw [hcomp] at hre1 hre2 hid
  have hb' : r.1.basis 0 = unitBasis (max pa pb) U (unionMult pa pb Ma Mb) := by
    rw [hb, e0, entries_union pa pb U Ma Mb hla hlb]
  have hs1 : SameMap 1 c1 r.1 := by
    have : Rescaled 1 0 0 1 c1 r.1 := by
      have h := hre1
      show Rescaled 1 0 0 1 (c1, c2).1 r.1
      have e : ((c1, c2).1.basis 0).start = 0 ∧ ((c1, c2).1.basis 0).stop = 1 := by
        show (c1.basis 0).start = 0 ∧ (c1.basis 0).stop = 1
        rw [h1.basis]; exact hssa
      rw [e.1, e.2] at h; exact h
    exact rescaled_sameMap_unit this
  have hs2 : SameMap 1 c2 r.2 := by
    have : Rescaled 1 0 0 1 c2 r.2 := by
      have h := hre2
      show Rescaled 1 0 0 1 (c1, c2).2 r.2
      have e : ((c1, c2).2.basis 0).start = 0 ∧ ((c1, c2).2.basis 0).stop = 1 := by
        show (c2.basis 0).start = 0 ∧ (c2.basis 0).stop = 1
        rw [h2.basis]; exact hssb
      rw [e.1, e.2] at h; exact h
    exact rescaled_sameMap_unit this
  obtain ⟨o1, o2⟩ := identicalDir_other (c1 := true) (c2 := true) (s := (c1, c2))
    (fun _ => h1.wf.size) (fun h => by cases h) (fun _ => h2.wf.size) (fun h => by cases h) hid
  have hrat : r.1.rational = rat := o1.rational.trans h1.rational
  have hnc1 : r.1.ncomp = nc := hs1.ncomp.trans h1.ncomp
  have hnc2 : r.2.ncomp = nc := hs2.ncomp.trans h2.ncomp
  exact ⟨r, hr, ⟨hwr1, hb', hrat, hnc1⟩, by rw [hbb]; exact hb', hwr2, hsh, hnc2, hs1, hs2⟩

/-- A surface of the family: well formed, the two bases in unit form, given rationality / components. -/
structure UnitSurf (s : Obj K) (pa pb : ℕ) (Ua Ub : List K) (Ma Mb : List ℕ) (rat : Bool) (nc : ℕ) : Prop where
  wf : C06.WF s 2
  b0 : s.basis 0 = unitBasis pa Ua Ma
  b1 : s.basis 1 = unitBasis pb Ub Mb
  rational : s.rational = rat
  ncomp : s.ncomp = nc

theorem ruledObj_unitSurf {p : ℕ} {U : List K} {M : List ℕ} {rat : Bool} {nc : ℕ} (r1 r2 : Obj K)
    (h1 : UnitCurve r1 p U M rat nc) (hsh : r2.cps.shape = r1.cps.shape) (V : List K) :
    UnitSurf (ruledObj r1 r2) p 2 U V M (V.map (fun _ => 0)) rat nc := by
  obtain ⟨hw, hn⟩ := ruledObj_wf r1 r2 h1.wf hsh
  refine ⟨hw, ?_, ?_, h1.rational, hn.trans h1.ncomp⟩
  · rw [ruledObj_basis0 r1 r2 h1.wf.size]; exact h1.basis
  · rw [ruledObj_basis1 r1 r2 h1.wf.size]; exact linearBasis_form V

theorem swap_unitSurf {s : Obj K} {pa pb : ℕ} {Ua Ub : List K} {Ma Mb : List ℕ} {rat : Bool} {nc : ℕ}
    (h : UnitSurf s pa pb Ua Ub Ma Mb rat nc) : UnitSurf (s.swap 0 1) pb pa Ub Ua Mb Ma rat nc := by
  obtain ⟨hw, hn⟩ := wf_swap h.wf 0 1
  have hb := basis_swap s h.wf.size 0 1
  refine ⟨hw, ?_, ?_, h.rational, hn.trans h.ncomp⟩
  · have := hb 0
    simp only [Equiv.swap_apply_left] at this
    exact this.trans h.b1
  · have := hb 1
    simp only [Equiv.swap_apply_right] at this
    exact this.trans h.b0

/-- `make_splines_identical` on two surfaces of the family over common interior-value lists. -/
theorem identical_unitSurf (tol : K) (htol : 0 < tol) (pa0 pa1 pb0 pb1 : ℕ) (U0 U1 : List K)
    (Ma0 Ma1 Mb0 Mb1 : List ℕ) (rat : Bool) (nc : ℕ) (s1 s2 : Obj K)
    (h1 : UnitSurf s1 pa0 pa1 U0 U1 Ma0 Ma1 rat nc) (h2 : UnitSurf s2 pb0 pb1 U0 U1 Mb0 Mb1 rat nc)
    (hp : 2 ≤ pa0 ∧ 2 ≤ pa1 ∧ 2 ≤ pb0 ∧ 2 ≤ pb1)
    (hl : Ma0.length = U0.length ∧ Ma1.length = U1.length ∧ Mb0.length = U0.length ∧ Mb1.length = U1.length)
    (hm : (∀ x ∈ Ma0, x ≤ pa0 - 1) ∧ (∀ x ∈ Ma1, x ≤ pa1 - 1) ∧ (∀ x ∈ Mb0, x ≤ pb0 - 1) ∧ (∀ x ∈ Mb1, x ≤ pb1 - 1))
    (hg0 : Splipy.Separated (2 * ((max pa0 pb0 - 1 : ℕ) : K) * tol) (clampedU 0 1 U0))
    (hg1 : Splipy.Separated (2 * ((max pa1 pb1 - 1 : ℕ) : K) * tol) (clampedU 0 1 U1))
    (hn : Nice tol (s1.basis 0) ∧ Nice tol (s1.basis 1) ∧ Nice tol (s2.basis 0) ∧ Nice tol (s2.basis 1)
      ∧ Nice tol (unitBasis (max pa0 pb0) U0 (unionMult pa0 pb0 Ma0 Mb0))) :
    ∃ r, makeIdentical tol false false s1 s2 none = .ok r
      ∧ UnitSurf r.1 (max pa0 pb0) (max pa1 pb1) U0 U1 (unionMult pa0 pb0 Ma0 Mb0) (unionMult pa1 pb1 Ma1 Mb1) rat nc
      ∧ UnitSurf r.2 (max pa0 pb0) (max pa1 pb1) U0 U1 (unionMult pa0 pb0 Ma0 Mb0) (unionMult pa1 pb1 Ma1 Mb1) rat nc
      ∧ SameMap 2 s1 r.1 ∧ SameMap 2 s2 r.2 := by
  obtain ⟨hpa0, hpa1, hpb0, hpb1⟩ := hp
  obtain ⟨hla0, hla1, hlb0, hlb1⟩ := hl
  obtain ⟨hma0, hma1, hmb0, hmb1⟩ := hm
  obtain ⟨n10, n11, n20, n21, nu⟩ := hn
  have fin2 : ∀ {P : Fin 2 → Prop}, P 0 → P 1 → ∀ i, P i := by
    intro P h0 h1 i
    rcases i with ⟨i, hi⟩
    interval_cases i
    · exact h0
    · exact h1
  obtain ⟨r, hr, hb, hbb, hs1, hs2, hw1, hw2, hrat, hrat2, hdim⟩ :=
    makeIdentical_nice tol htol ![pa0, pa1] ![pb0, pb1] (fin2 hpa0 hpa1) (fin2 hpb0 hpb1) ![U0, U1]
      ![Ma0, Ma1] ![Mb0, Mb1] (fin2 hla0 hla1) (fin2 hlb0 hlb1) (fin2 hma0 hma1) (fin2 hmb0 hmb1)
      (fin2 hg0 hg1) s1 s2 h1.wf h2.wf (h1.rational.trans h2.rational.symm)
      (dimension_eq_of (h1.rational.trans h2.rational.symm) (h1.ncomp.trans h2.ncomp.symm))
      (fin2 h1.b0 h1.b1) (fin2 h2.b0 h2.b1) (fin2 n10 n11) (fin2 n20 n21) nu
  have e0 := hb 0
  have e1 := hb 1
  simp only [Matrix.cons_val_zero, Matrix.cons_val_one] at e0 e1
  have hnc1 : r.1.ncomp = nc := hs1.ncomp.trans h1.ncomp
  have hnc2 : r.2.ncomp = nc := hs2.ncomp.trans h2.ncomp
  refine ⟨r, hr, ⟨hw1, e0, e1, hrat.trans h1.rational, hnc1⟩,
    ⟨hw2, (hbb 0).trans e0, (hbb 1).trans e1, hrat2.trans (hrat.trans h1.rational), hnc2⟩, hs1, hs2⟩

theorem zeros_le (U : List K) (q : ℕ) : ∀ x ∈ U.map (fun _ => (0 : ℕ)), x ≤ q := by
  intro x hx
  obtain ⟨_, _, rfl⟩ := List.mem_map.1 hx
  exact Nat.zero_le _

theorem corner_unitSurf (a b c e : Array K) (nc : ℕ) (ha : a.size = nc) (hb : b.size = nc) (hc : c.size = nc)
    (he : e.size = nc) (rat : Bool) (U V : List K) :
    ∃ s3 : Obj K, Obj.fromCorners 2 [a, b, c, e] rat = .ok s3
      ∧ UnitSurf s3 2 2 U V (U.map (fun _ => 0)) (V.map (fun _ => 0)) rat nc := by
  obtain ⟨s3, h1, h2, h3, h4⟩ := fromCorners2_ok a b c e nc ha hb hc he rat
  have hb0 : s3.basis 0 = linearBasis := by unfold Obj.basis; rw [h2]; rfl
  have hb1 : s3.basis 1 = linearBasis := by unfold Obj.basis; rw [h2]; rfl
  have hn : s3.ncomp = nc := by unfold Obj.ncomp; rw [h3]; rfl
  refine ⟨s3, h1, ⟨⟨by rw [h2]; rfl, ?_, ?_⟩, by rw [hb0]; exact linearBasis_form U,
    by rw [hb1]; exact linearBasis_form V, h4, hn⟩⟩
  · intro d
    rcases d with ⟨d, hd⟩
    interval_cases d
    · show (s3.basis 0).Valid; rw [hb0]; exact linearBasis_valid
    · show (s3.basis 1).Valid; rw [hb1]; exact linearBasis_valid
  · rw [h3, hn]
    simp [midx, List.ofFn_succ]
    exact ⟨by rw [hb0]; exact linearBasis_numFunctions.symm, by rw [hb1]; exact linearBasis_numFunctions.symm⟩

/-- Two surfaces of the family with the same bases have the same control-array shape. -/
theorem UnitSurf.shape {s : Obj K} {pa pb : ℕ} {Ua Ub : List K} {Ma Mb : List ℕ} {rat : Bool} {nc : ℕ}
    (h : UnitSurf s pa pb Ua Ub Ma Mb rat nc) :
    s.cps.shape = midx (fun d : Fin 2 => (if d = 0 then unitBasis pa Ua Ma else unitBasis pb Ub Mb).numFunctions) nc := by
  rw [h.wf.shape, h.ncomp]
  congr 1
  funext d
  rcases d with ⟨d, hd⟩
  interval_cases d
  · show (s.basis 0).numFunctions = _; rw [h.b0]; rfl
  · show (s.basis 1).numFunctions = _; rw [h.b1]; rfl

theorem UnitSurf.basis_fin {s : Obj K} {pa pb : ℕ} {Ua Ub : List K} {Ma Mb : List ℕ} {rat : Bool} {nc : ℕ}
    (h : UnitSurf s pa pb Ua Ub Ma Mb rat nc) (d : Fin 2) :
    s.basis d = if d = 0 then unitBasis pa Ua Ma else unitBasis pb Ub Mb := by
  rcases d with ⟨d, hd⟩
  interval_cases d
  · exact h.b0
  · exact h.b1

set_option maxHeartbeats 400000 in
/-- **Stage 1 for `Obj.coonsPatch`** (family: on `[0,1]`, clamped; within each opposite pair the two curves
    are written over a common interior-value list — orders and multiplicities may differ, `0` = value
    absent; the union basis of each pair satisfies `UnitKnots`: order `≥ 2`, continuous, knots separated
    by `2(p-1)·tol`; all four of the same rationality and number of components).  `top`, `left` are given in
    loop direction; `T = top.reverse()`, `Lf = left.reverse()` are what `coons_patch` works with.  The model
    succeeds; the result is a well-formed surface on `B1 × B2` (the two union bases); and its evaluated
    map is `S1 + S2 - S3`: the ruled surface between (the made-identical copies of) `bottom` and `T`, the
    swapped ruled surface between `Lf` and `right`, and the bilinear corner surface — in every homogeneous
    component, at every parameter pair and choice of sides. -/
theorem coonsPatch_mixed (tol : K) (htol : 0 < tol) {pB pT pL pR : ℕ} {U1 U2 : List K} {MB MT ML MR : List ℕ}
    (hpo : 2 ≤ pB ∧ 2 ≤ pT ∧ 2 ≤ pL ∧ 2 ≤ pR)
    (hlen : MB.length = U1.length ∧ MT.length = U1.length ∧ ML.length = U2.length ∧ MR.length = U2.length)
    (hmu : (∀ x ∈ MB, x ≤ pB - 1) ∧ (∀ x ∈ MT, x ≤ pT - 1) ∧ (∀ x ∈ ML, x ≤ pL - 1) ∧ (∀ x ∈ MR, x ≤ pR - 1))
    {p1 p2 : ℕ} {M1 M2 : List ℕ} (hp1 : p1 = max pB pT) (hM1 : M1 = unionMult pB pT MB MT)
    (hp2 : p2 = max pL pR) (hM2 : M2 = unionMult pL pR ML MR)
    (k1 : UnitKnots tol p1 U1 M1) (k2 : UnitKnots tol p2 U2 M2) (rat : Bool) (nc : ℕ)
    (bottom right top left : Obj K)
    (hB : UnitCurve bottom pB U1 MB rat nc) (hT : UnitCurve (top.reverse 0) pT U1 MT rat nc)
    (hL : UnitCurve (left.reverse 0) pL U2 ML rat nc) (hR : UnitCurve right pR U2 MR rat nc)
    (oB : bottom.WF) (oT : (top.reverse 0).WF) (oL : (left.reverse 0).WF) (oR : right.WF) :
    ∃ (rb rl : Obj K × Obj K) (s3 s : Obj K),
      (SameMap 1 bottom rb.1 ∧ SameMap 1 (top.reverse 0) rb.2
        ∧ SameMap 1 (left.reverse 0) rl.1 ∧ SameMap 1 right rl.2)
      ∧ (UnitCurve rb.1 p1 U1 M1 rat nc ∧ rb.2.basis 0 = unitBasis p1 U1 M1 ∧ C06.WF rb.2 1
          ∧ rb.2.cps.shape = rb.1.cps.shape ∧ rb.2.ncomp = nc)
      ∧ (UnitCurve rl.1 p2 U2 M2 rat nc ∧ rl.2.basis 0 = unitBasis p2 U2 M2 ∧ C06.WF rl.2 1
          ∧ rl.2.cps.shape = rl.1.cps.shape ∧ rl.2.ncomp = nc)
      ∧ Obj.fromCorners 2 [Obj.cpRow bottom 0, Obj.cpRow bottom (-1), Obj.cpRow (top.reverse 0) 0,
            Obj.cpRow (top.reverse 0) (-1)] rat = .ok s3
      ∧ UnitSurf s3 2 2 U1 U2 (U1.map (fun _ => 0)) (U2.map (fun _ => 0)) rat nc
      ∧ Obj.coonsPatch tol bottom right top left = .ok s
      ∧ UnitSurf s p1 p2 U1 U2 M1 M2 rat nc
      ∧ ∀ comp, comp < nc → ∀ (sd : Fin 2 → Side) (u : Fin 2 → K),
          (toTP s 2 comp).eval sd u
            = (toTP (ruledObj rb.1 rb.2) 2 comp).eval sd u
              + (toTP ((ruledObj rl.1 rl.2).swap 0 1) 2 comp).eval sd u
              - (toTP s3 2 comp).eval sd u := by
  obtain ⟨hpB, hpT, hpL, hpR⟩ := hpo
  obtain ⟨hlB, hlT, hlL, hlR⟩ := hlen
  obtain ⟨hmB, hmT, hmL, hmR⟩ := hmu
  have h2tol := k1.two_tol htol
  have nlin : Nice tol (linearBasis : Basis K) := linear_nice htol h2tol
  have nB1 : Nice tol (unitBasis p1 U1 M1) := k1.nice htol
  have nB2 : Nice tol (unitBasis p2 U2 M2) := k2.nice htol
  have hq1 := k1.hp
  have hq2 := k2.hp
  have lZ1 : (U1.map (fun _ => (0 : ℕ))).length = U1.length := by simp
  have lZ2 : (U2.map (fun _ => (0 : ℕ))).length = U2.length := by simp
  have nlinU1 : Nice tol (unitBasis 2 U1 (U1.map (fun _ => (0 : ℕ)))) := by
    unfold unitBasis
    rw [← linearBasis_form U1]; exact nlin
  have nlinU2 : Nice tol (unitBasis 2 U2 (U2.map (fun _ => (0 : ℕ)))) := by
    unfold unitBasis
    rw [← linearBasis_form U2]; exact nlin
  -- the two ruled surfaces
  obtain ⟨rb, hrb, ub1, bb2, wb2, shb, ncb2, smB, smT⟩ := ruled_unit2 tol htol hpB hpT hlB hlT hmB hmT
    (by rw [← hp1]; exact k1.hgap) bottom (top.reverse 0) hB hT oB oT
  obtain ⟨rl, hrl, ul1, bl2, wl2, shl, ncl2, smL, smR⟩ := ruled_unit2 tol htol hpL hpR hlL hlR hmL hmR
    (by rw [← hp2]; exact k2.hgap) (left.reverse 0) right hL hR oL oR
  rw [← hp1, ← hM1] at ub1 bb2
  rw [← hp2, ← hM2] at ul1 bl2
  have S1 : UnitSurf (ruledObj rb.1 rb.2) p1 2 U1 U2 M1 (U2.map (fun _ => (0 : ℕ))) rat nc := ruledObj_unitSurf rb.1 rb.2 ub1 shb U2
  have S2 : UnitSurf ((ruledObj rl.1 rl.2).swap 0 1) 2 p2 U1 U2 (U1.map (fun _ => (0 : ℕ))) M2 rat nc :=
    swap_unitSurf (ruledObj_unitSurf rl.1 rl.2 ul1 shl U1)
  -- the corner surface
  have szB := hB.cpRow_size oB
  have szT := hT.cpRow_size oT
  obtain ⟨s3, hs3, S3⟩ := corner_unitSurf (Obj.cpRow bottom 0) (Obj.cpRow bottom (-1))
    (Obj.cpRow (top.reverse 0) 0) (Obj.cpRow (top.reverse 0) (-1)) nc szB.1 szB.2 szT.1 szT.2 rat U1 U2
  -- three `make_splines_identical`
  have mx1 : max p1 2 = p1 := max_eq_left hq1
  have mx2 : max 2 p2 = p2 := max_eq_right hq2
  have mx2' : max p2 2 = p2 := max_eq_left hq2
  obtain ⟨r12, h12, A1, A2, sm121, sm122⟩ := identical_unitSurf tol htol p1 2 2 p2 U1 U2 M1 (U2.map (fun _ => (0 : ℕ))) (U1.map (fun _ => (0 : ℕ))) M2 rat nc _ _ S1 S2
    ⟨hq1, le_refl 2, le_refl 2, hq2⟩ ⟨k1.hlen, lZ2, lZ1, k2.hlen⟩
    ⟨fun x hx => (k1.hm x hx).2, zeros_le U2 _, zeros_le U1 _, fun x hx => (k2.hm x hx).2⟩
    (by rw [mx1]; exact k1.hgap) (by rw [mx2]; exact k2.hgap)
    ⟨by rw [S1.b0]; exact nB1, by rw [S1.b1]; exact nlinU2, by rw [S2.b0]; exact nlinU1, by rw [S2.b1]; exact nB2,
      by rw [mx1, unionMult_zeros_right p1 hq1 M1 U1 k1.hlen]; exact nB1⟩
  rw [mx1, mx2, unionMult_zeros_right p1 hq1 M1 U1 k1.hlen, unionMult_zeros_left p2 hq2 M2 U2 k2.hlen] at A1 A2
  obtain ⟨r13, h13, C1, C2, sm131, sm133⟩ := identical_unitSurf tol htol p1 p2 2 2 U1 U2 M1 M2 (U1.map (fun _ => (0 : ℕ))) (U2.map (fun _ => (0 : ℕ))) rat nc _ _ A1 S3
    ⟨hq1, hq2, le_refl 2, le_refl 2⟩ ⟨k1.hlen, k2.hlen, lZ1, lZ2⟩
    ⟨fun x hx => (k1.hm x hx).2, fun x hx => (k2.hm x hx).2, zeros_le U1 _, zeros_le U2 _⟩
    (by rw [mx1]; exact k1.hgap) (by rw [mx2']; exact k2.hgap)
    ⟨by rw [A1.b0]; exact nB1, by rw [A1.b1]; exact nB2, by rw [S3.b0]; exact nlinU1, by rw [S3.b1]; exact nlinU2,
      by rw [mx1, unionMult_zeros_right p1 hq1 M1 U1 k1.hlen]; exact nB1⟩
  rw [mx1, mx2', unionMult_zeros_right p1 hq1 M1 U1 k1.hlen, unionMult_zeros_right p2 hq2 M2 U2 k2.hlen] at C1 C2
  obtain ⟨r23, h23, D1, D2, sm232, sm233⟩ := identical_unitSurf tol htol p1 p2 p1 p2 U1 U2 M1 M2 M1 M2 rat nc _ _ A2 C2
    ⟨hq1, hq2, hq1, hq2⟩ ⟨k1.hlen, k2.hlen, k1.hlen, k2.hlen⟩
    ⟨fun x hx => (k1.hm x hx).2, fun x hx => (k2.hm x hx).2, fun x hx => (k1.hm x hx).2, fun x hx => (k2.hm x hx).2⟩
    (by rw [max_self]; exact k1.hgap) (by rw [max_self]; exact k2.hgap)
    ⟨by rw [A2.b0]; exact nB1, by rw [A2.b1]; exact nB2, by rw [C2.b0]; exact nB1, by rw [C2.b1]; exact nB2,
      by rw [max_self, unionMult_self]; exact nB1⟩
  rw [max_self, max_self, unionMult_self, unionMult_self] at D1 D2
  -- `+=`, `-=`
  have shC1 := C1.shape
  have shD1 := D1.shape
  have shD2 := D2.shape
  obtain ⟨c1, hc1, c1s, c1g⟩ := cpsAdd_ok r13.1.cps r23.1.cps false (by rw [shC1, shD1])
  obtain ⟨c2, hc2, c2s, c2g⟩ := cpsAdd_ok c1 r23.2.cps true (by rw [c1s, shC1, shD2])
  -- the call
  have hbot : (if rat = true then bottom.forceRational else bottom) = bottom := by
    split_ifs with h
    · have : bottom.rational = true := by rw [hB.rational]; exact h
      unfold Obj.forceRational; simp [this]
    · rfl
  have htop : (if rat = true then (top.reverse 0).forceRational else top.reverse 0) = top.reverse 0 := by
    split_ifs with h
    · have : (top.reverse 0).rational = true := by rw [hT.rational]; exact h
      unfold Obj.forceRational; simp [this]
    · rfl
  have hcall : Obj.coonsPatch tol bottom right top left = .ok { r13.1 with cps := c2 } := by
    unfold Obj.coonsPatch
    simp only [hrb, hrl, S1.rational, hbot, htop, hs3, h12, h13, h23, hc1, hc2]
  have SS : UnitSurf ({ r13.1 with cps := c2 } : Obj K) p1 p2 U1 U2 M1 M2 rat nc := by
    have hnc : ({ r13.1 with cps := c2 } : Obj K).ncomp = nc := by
      unfold Obj.ncomp
      show c2.shape.getLastD 0 = nc
      rw [c2s, c1s]
      exact C1.ncomp
    refine ⟨⟨C1.wf.size, fun d => C1.wf.valid d, ?_⟩, C1.b0, C1.b1, C1.rational, hnc⟩
    show c2.shape = midx (fun d : Fin 2 => (r13.1.basis d).numFunctions) ({ r13.1 with cps := c2 } : Obj K).ncomp
    rw [hnc, c2s, c1s, C1.wf.shape, C1.ncomp]
  refine ⟨rb, rl, s3, _, ⟨smB, smT, smL, smR⟩, ⟨ub1, bb2, wb2, shb, ncb2⟩, ⟨ul1, bl2, wl2, shl, ncl2⟩, hs3, S3,
    hcall, SS, ?_⟩
  intro comp hcomp sd u
  have hcombo := toTP_eval_combo (m := 2) ({ r13.1 with cps := c2 } : Obj K) r13.1 r23.1 r23.2
    (fun _ => rfl) (fun d => by rw [D1.basis_fin d, C1.basis_fin d]) (fun d => by rw [D2.basis_fin d, C1.basis_fin d])
    (fun d => valid_numFunctions_pos (C1.wf.valid d)) comp
    (by
      intro I hI
      have hlt : flatIdx (midx (fun d : Fin 2 => (r13.1.basis d).numFunctions) nc) (midx I comp)
          < Tensor.prod (midx (fun d : Fin 2 => (r13.1.basis d).numFunctions) nc) :=
        flatIdx_midx_lt _ comp nc I hI hcomp
      have shA : r13.1.cps.shape = midx (fun d : Fin 2 => (r13.1.basis d).numFunctions) nc := by
        rw [C1.wf.shape, C1.ncomp]
      have shB : r23.1.cps.shape = r13.1.cps.shape := by rw [shD1, shC1]
      have shC : r23.2.cps.shape = r13.1.cps.shape := by rw [shD2, shC1]
      show getIdx c2 (midx I comp) = _
      unfold getIdx
      rw [c2s, c1s, shB, shC, shA]
      rw [c2g _ (by rw [c1s, shA]; exact hlt), c1g _ (by rw [shA]; exact hlt)]
      simp) sd u
  rw [hcombo, sm131.eval comp (by rw [A1.ncomp]; exact hcomp), sm121.eval comp (by rw [S1.ncomp]; exact hcomp),
    sm232.eval comp (by rw [A2.ncomp]; exact hcomp), sm122.eval comp (by rw [S2.ncomp]; exact hcomp),
    sm233.eval comp (by rw [C2.ncomp]; exact hcomp), sm133.eval comp (by rw [S3.ncomp]; exact hcomp)]

/-- `coonsPatch_mixed` when the two curves of each opposite pair share their basis. -/
theorem coonsPatch_unit (tol : K) (htol : 0 < tol) {p1 p2 : ℕ} {U1 U2 : List K} {M1 M2 : List ℕ}
    (k1 : UnitKnots tol p1 U1 M1) (k2 : UnitKnots tol p2 U2 M2) (rat : Bool) (nc : ℕ)
    (bottom right top left : Obj K)
    (hB : UnitCurve bottom p1 U1 M1 rat nc) (hT : UnitCurve (top.reverse 0) p1 U1 M1 rat nc)
    (hL : UnitCurve (left.reverse 0) p2 U2 M2 rat nc) (hR : UnitCurve right p2 U2 M2 rat nc)
    (oB : bottom.WF) (oT : (top.reverse 0).WF) (oL : (left.reverse 0).WF) (oR : right.WF) :
    ∃ (rb rl : Obj K × Obj K) (s3 s : Obj K),
      (SameMap 1 bottom rb.1 ∧ SameMap 1 (top.reverse 0) rb.2
        ∧ SameMap 1 (left.reverse 0) rl.1 ∧ SameMap 1 right rl.2)
      ∧ (UnitCurve rb.1 p1 U1 M1 rat nc ∧ rb.2.basis 0 = unitBasis p1 U1 M1 ∧ C06.WF rb.2 1
          ∧ rb.2.cps.shape = rb.1.cps.shape ∧ rb.2.ncomp = nc)
      ∧ (UnitCurve rl.1 p2 U2 M2 rat nc ∧ rl.2.basis 0 = unitBasis p2 U2 M2 ∧ C06.WF rl.2 1
          ∧ rl.2.cps.shape = rl.1.cps.shape ∧ rl.2.ncomp = nc)
      ∧ Obj.fromCorners 2 [Obj.cpRow bottom 0, Obj.cpRow bottom (-1), Obj.cpRow (top.reverse 0) 0,
            Obj.cpRow (top.reverse 0) (-1)] rat = .ok s3
      ∧ UnitSurf s3 2 2 U1 U2 (U1.map (fun _ => 0)) (U2.map (fun _ => 0)) rat nc
      ∧ Obj.coonsPatch tol bottom right top left = .ok s
      ∧ UnitSurf s p1 p2 U1 U2 M1 M2 rat nc
      ∧ ∀ comp, comp < nc → ∀ (sd : Fin 2 → Side) (u : Fin 2 → K),
          (toTP s 2 comp).eval sd u
            = (toTP (ruledObj rb.1 rb.2) 2 comp).eval sd u
              + (toTP ((ruledObj rl.1 rl.2).swap 0 1) 2 comp).eval sd u
              - (toTP s3 2 comp).eval sd u :=
  coonsPatch_mixed tol htol ⟨k1.hp, k1.hp, k2.hp, k2.hp⟩ ⟨k1.hlen, k1.hlen, k2.hlen, k2.hlen⟩
    ⟨fun x hx => (k1.hm x hx).2, fun x hx => (k1.hm x hx).2, fun x hx => (k2.hm x hx).2, fun x hx => (k2.hm x hx).2⟩
    (max_self p1).symm (unionMult_self p1 M1).symm (max_self p2).symm (unionMult_self p2 M2).symm
    k1 k2 rat nc bottom right top left hB hT hL hR oB oT oL oR

end C15
end Splipy
