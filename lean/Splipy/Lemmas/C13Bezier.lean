import Mathlib.Tactic.Ring
import Mathlib.Tactic.FieldSimp
import Mathlib.Tactic.Linarith
import Mathlib.Tactic.LinearCombination
import Mathlib.Algebra.BigOperators.Intervals
import Splipy.Lemmas.Basic

/-!
# Bézier spans of B-splines (helper lemmas for C13)

* `splineVal_span2/4`: on a knot span only the `q+1` functions whose support contains it contribute.
* `B2_bezier`: degree 2, both span ends of multiplicity 2 ⇒ the three functions are the Bernstein
  polynomials of the local parameter.
* `B4_triple`: degree 4, both span ends of multiplicity 3, neighbouring knots one span length away
  ⇒ the five functions are `B0/2, B0/2 + B1, B2, B3 + B4/2, B4/2` (`Bk` quartic Bernstein).
-/

namespace Splipy

open Finset

variable {K : Type} [Field K] [LinearOrder K] [IsStrictOrderedRing K]

omit [IsStrictOrderedRing K] in
/-- degree-0 functions on a span. -/
theorem B0_of_mem (s : Side) (τ : ℕ → K) (hτ : Monotone τ) (μ j : ℕ) (t : K)
    (h : s.mem (τ μ) (τ (μ+1)) t) : B s τ 0 j t = if j = μ then 1 else 0 := by
  by_cases hj : j = μ
  · subst hj; rw [if_pos rfl, B_zero]; exact ind_eq_one s _ _ _ h
  · rw [if_neg hj]
    rcases Nat.lt_or_gt_of_ne hj with hj | hj
    · exact B_eq_zero_of_mem_of_le s τ hτ 0 j μ t h (by omega)
    · exact B_eq_zero_of_mem_of_gt s τ hτ 0 j μ t h hj

omit [IsStrictOrderedRing K] in
/-- only the functions `i … i+q` contribute on the span `μ = i+q`. -/
theorem splineVal_span (s : Side) (τ : ℕ → K) (hτ : Monotone τ) (q i n : ℕ) (c : ℕ → K) (t : K)
    (h : s.mem (τ (i+q)) (τ (i+q+1)) t) (hn : i + q < n) :
    splineVal s τ q n c t = (range (q+1)).sum (fun k => c (i+k) * B s τ q (i+k) t) := by
  obtain ⟨m, rfl⟩ : ∃ m, n = i + ((q + 1) + m) := ⟨n - (i + q + 1), by omega⟩
  unfold splineVal
  rw [sum_range_add, sum_range_add]
  have h1 : (range i).sum (fun x => c x * B s τ q x t) = 0 := by
    apply sum_eq_zero
    intro x hx
    rw [B_eq_zero_of_mem_of_le s τ hτ q x (i+q) t h (by have := mem_range.mp hx; omega), mul_zero]
  have h2 : (range m).sum (fun x => c (i + (q + 1 + x)) * B s τ q (i + (q + 1 + x)) t) = 0 := by
    apply sum_eq_zero
    intro x _
    rw [B_eq_zero_of_mem_of_gt s τ hτ q _ (i+q) t h (by omega), mul_zero]
  rw [h1, h2, zero_add, add_zero]

omit [IsStrictOrderedRing K] in
/-- **Quadratic Bézier span.**  If the span `[a,b)` has both ends of multiplicity two
(`τ(i+1) = τ(i+2) = a`, `τ(i+3) = τ(i+4) = b`), the three quadratic B-splines living on it are the
Bernstein polynomials of `u = (t−a)/(b−a)`. -/
theorem B2_bezier (s : Side) (τ : ℕ → K) (hτ : Monotone τ) (i : ℕ) (a b t : K) (hab : a < b)
    (h1 : τ (i+1) = a) (h2 : τ (i+2) = a) (h3 : τ (i+3) = b) (h4 : τ (i+4) = b)
    (h : s.mem a b t) :
    B s τ 2 i t = (1 - (t - a) / (b - a)) ^ 2 ∧
    B s τ 2 (i+1) t = 2 * ((t - a) / (b - a)) * (1 - (t - a) / (b - a)) ∧
    B s τ 2 (i+2) t = ((t - a) / (b - a)) ^ 2 := by
  have hmem : s.mem (τ (i+2)) (τ (i+2+1)) t := by rw [h2, h3]; exact h
  have hne : b - a ≠ 0 := sub_ne_zero.mpr (ne_of_gt hab)
  have e0 : ∀ j, B s τ 0 j t = if j = i + 2 then 1 else 0 :=
    fun j => B0_of_mem s τ hτ (i+2) j t hmem
  refine ⟨?_, ?_, ?_⟩
  · simp only [B_succ, e0]
    simp [h1, h2, h3]
    field_simp
    try ring
  · simp only [B_succ, e0]
    simp [h1, h2, h3, h4]
    field_simp
    try ring
  · simp only [B_succ, e0]
    simp [h2, h3, h4]
    field_simp
    try ring

/-- **Quartic span with triple knots** and neighbouring knots one span length `h` away
(`τ(i+1) = a−h`, `τ(i+2..i+4) = a`, `τ(i+5..i+7) = a+h`, `τ(i+8) = a+2h`). -/
theorem B4_triple (s : Side) (τ : ℕ → K) (hτ : Monotone τ) (i : ℕ) (a h t : K) (hh : 0 < h)
    (k1 : τ (i+1) = a - h) (k2 : τ (i+2) = a) (k3 : τ (i+3) = a) (k4 : τ (i+4) = a)
    (k5 : τ (i+5) = a + h) (k6 : τ (i+6) = a + h) (k7 : τ (i+7) = a + h) (k8 : τ (i+8) = a + 2 * h)
    (hm : s.mem a (a + h) t) :
    B s τ 4 i t = (1 - (t - a) / h) ^ 4 / 2 ∧
    B s τ 4 (i+1) t = (1 - (t - a) / h) ^ 4 / 2 + 4 * ((t - a) / h) * (1 - (t - a) / h) ^ 3 ∧
    B s τ 4 (i+2) t = 6 * ((t - a) / h) ^ 2 * (1 - (t - a) / h) ^ 2 ∧
    B s τ 4 (i+3) t = 4 * ((t - a) / h) ^ 3 * (1 - (t - a) / h) + ((t - a) / h) ^ 4 / 2 ∧
    B s τ 4 (i+4) t = ((t - a) / h) ^ 4 / 2 := by
  have hmem : s.mem (τ (i+4)) (τ (i+4+1)) t := by rw [k4, k5]; exact hm
  have hne : h ≠ 0 := ne_of_gt hh
  have e0 : ∀ j, B s τ 0 j t = if j = i + 4 then 1 else 0 :=
    fun j => B0_of_mem s τ hτ (i+4) j t hmem
  refine ⟨?_, ?_, ?_, ?_, ?_⟩
  · simp only [B_succ, e0]
    simp [k1, k2, k3, k4, k5]
    field_simp
    try ring
  · simp only [B_succ, e0]
    simp [k1, k2, k3, k4, k5, k6]
    field_simp
    try ring
  · simp only [B_succ, e0]
    simp [k2, k3, k4, k5, k6, k7]
    field_simp
    try ring
  · simp only [B_succ, e0]
    simp [k3, k4, k5, k6, k7, k8]
    field_simp
    try ring
  · simp only [B_succ, e0]
    simp [k4, k5, k6, k7, k8]
    field_simp
    try ring

end Splipy
