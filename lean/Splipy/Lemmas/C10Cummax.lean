import Splipy.Model.BasisOps
import Mathlib.Order.Lattice
import Mathlib.Order.MinMax
import Mathlib.Data.List.Pairwise
import Mathlib.Tactic.Linarith

/-!
# `np.maximum.accumulate` (`Basis.cummax`) — the constructor stores the running maximum of its knots

Repair of finding `constructor-accepts-tolerance-inversion-evaluate-segfault`: `BSplineBasis.__init__` accepts
decreases within `knot_tolerance`; it now stores `np.maximum.accumulate(knots)`, `roll` does the same after its
shifted copy.  Facts used everywhere: the running maximum of a non-decreasing array is the array itself (so nothing
changes for sorted input, i.e. for every theorem about valid bases), it has the same size, and it is ALWAYS
non-decreasing (so every accepted vector yields an exactly sorted basis).
-/

namespace Splipy.Basis

variable {K : Type} [Field K] [LinearOrder K]

theorem cummaxAux_length (m : K) (l : List K) : (cummaxAux m l).length = l.length := by
  induction l generalizing m with
  | nil => rfl
  | cons x xs ih => simp [cummaxAux, ih]

theorem cummaxL_length (l : List K) : (cummaxL l).length = l.length := by
  cases l with
  | nil => rfl
  | cons x xs => simp [cummaxL, cummaxAux_length]

@[simp] theorem size_cummax (a : Array K) : (cummax a).size = a.size := by
  simp [cummax, cummaxL_length]

/-- running maximum of a chain that starts at or above `m` -/
theorem cummaxAux_of_chain (m : K) (l : List K) (h : (m :: l).IsChain (· ≤ ·)) : cummaxAux m l = l := by
  induction l generalizing m with
  | nil => rfl
  | cons x xs ih =>
    rw [List.isChain_cons_cons] at h
    simp only [cummaxAux, max_eq_right h.1]
    rw [ih x h.2]

theorem cummaxL_of_chain (l : List K) (h : l.IsChain (· ≤ ·)) : cummaxL l = l := by
  cases l with
  | nil => rfl
  | cons x xs => simp only [cummaxL]; rw [cummaxAux_of_chain x xs h]

theorem cummaxL_of_pairwise (l : List K) (h : l.Pairwise (· ≤ ·)) : cummaxL l = l :=
  cummaxL_of_chain l h.isChain

/-- **Nothing changes for sorted input** (adjacent form, as in `Basis.Valid.sorted`). -/
theorem cummax_of_sorted (a : Array K) (h : ∀ i, i + 1 < a.size → a.getD i 0 ≤ a.getD (i + 1) 0) :
    cummax a = a := by
  unfold cummax
  have hc : a.toList.IsChain (· ≤ ·) := by
    rw [List.isChain_iff_getElem]
    intro i hi
    have hi' : i + 1 < a.size := by simpa using hi
    have := h i hi'
    simpa [Array.getD, hi', show i < a.size by omega] using this
  rw [cummaxL_of_chain _ hc]

theorem cummax_of_pairwise (l : List K) (h : l.Pairwise (· ≤ ·)) : cummax l.toArray = l.toArray := by
  unfold cummax
  rw [List.toList_toArray, cummaxL_of_pairwise l h]

/-- every entry of the tail of a running maximum is at least the start value, and the tail is a chain -/
theorem cummaxAux_chain (m : K) (l : List K) : (m :: cummaxAux m l).IsChain (· ≤ ·) := by
  induction l generalizing m with
  | nil => simp [cummaxAux]
  | cons x xs ih =>
    simp only [cummaxAux]
    rw [List.isChain_cons_cons]
    exact ⟨le_max_left m x, ih (max m x)⟩

theorem cummaxL_chain (l : List K) : (cummaxL l).IsChain (· ≤ ·) := by
  cases l with
  | nil => simp [cummaxL]
  | cons x xs => exact cummaxAux_chain x xs

/-- **The running maximum is always non-decreasing.** -/
theorem cummax_pairwise (a : Array K) : (cummax a).toList.Pairwise (· ≤ ·) := by
  unfold cummax
  rw [List.toList_toArray]
  exact (List.isChain_iff_pairwise).1 (cummaxL_chain a.toList)

theorem cummax_sorted (a : Array K) (i j : ℕ) (hij : i ≤ j) (hj : j < a.size) :
    (cummax a).getD i 0 ≤ (cummax a).getD j 0 := by
  have hp := cummax_pairwise a
  have hs : (cummax a).size = a.size := size_cummax a
  rcases Nat.eq_or_lt_of_le hij with rfl | hlt
  · exact le_refl _
  · have := (List.pairwise_iff_getElem.1 hp) i j (by simp [hs]; omega) (by simp [hs]; omega) hlt
    simpa [Array.getD, hs, hj, show i < a.size by omega] using this

/-- adjacent sortedness stated with the total accessor `kn` (as in `Basis.Valid.sorted`) in terms of `getD` -/
theorem sorted_getD_of_kn (b : Basis K) (h : ∀ i, i + 1 < b.knots.size → b.kn i ≤ b.kn (i + 1)) :
    ∀ i, i + 1 < b.knots.size → b.knots.getD i 0 ≤ b.knots.getD (i + 1) 0 := by
  intro i hi
  have := h i hi
  unfold Basis.kn at this
  simpa [Array.getD, hi, show i < b.knots.size by omega] using this

/-- the running maximum of a sorted basis' knots is the knot array -/
theorem cummax_knots_of_sorted (b : Basis K) (h : ∀ i, i + 1 < b.knots.size → b.kn i ≤ b.kn (i + 1)) :
    cummax b.knots = b.knots :=
  cummax_of_sorted _ (sorted_getD_of_kn b h)

/-- … and so is the running maximum of any slice of a sorted array. -/
theorem cummax_extract_of_sorted (a : Array K) (lo hi : ℕ)
    (h : ∀ i, i + 1 < a.size → a.getD i 0 ≤ a.getD (i + 1) 0) :
    cummax (a.extract lo hi) = a.extract lo hi := by
  apply cummax_of_sorted
  intro i hi'
  simp only [Array.size_extract] at hi'
  have e : ∀ j, j < min hi a.size - lo → (a.extract lo hi).getD j 0 = a.getD (lo + j) 0 := by
    intro j hj
    simp [Array.getD, hj, show lo + j < a.size by omega]
  rw [e i (by omega), e (i + 1) (by omega), ← Nat.add_assoc]
  exact h (lo + i) (by omega)

end Splipy.Basis
