import Mathlib.Tactic.FieldSimp
import Mathlib.Tactic.Ring
import Splipy.Lemmas.C17Compose
import Splipy.Lemmas.C17Compute

/-! Lemmas for C17: "some orientation fits" (`≈`) is an equivalence relation on well-formed
objects of equal rationality. -/

namespace Splipy.MP

/-! ### the identity orientation leaves arrays alone -/

theorem ravel_unravel {s : List ℕ} {k : ℕ} (hk : k < shapeSize s) : ravel s (unravel s k) = k := by
  induction s generalizing k with
  | nil => simp [shapeSize] at hk; simp [ravel, hk]
  | cons n ns ih =>
    simp only [shapeSize] at hk
    have hpos : 0 < shapeSize ns := by
      rcases Nat.eq_zero_or_pos (shapeSize ns) with h | h
      · rw [h] at hk; simp at hk
      · exact h
    simp only [unravel, ravel]
    rw [ih (Nat.mod_lt _ hpos)]
    exact Nat.div_add_mod' k (shapeSize ns)

theorem NdArr.ofFn_get {α : Type} [Inhabited α] (X : NdArr α) (h : X.data.size = shapeSize X.shape) :
    NdArr.ofFn X.shape X.get = X := by
  cases X with
  | mk s d =>
    simp only [NdArr.ofFn, NdArr.mk.injEq, true_and]
    apply Array.ext
    · simp [h]
    · intro k h1 h2
      simp only [Array.getElem_ofFn, NdArr.get]
      have hk : k < shapeSize s := by simpa using h1
      rw [ravel_unravel hk]
      simp [Array.getD_eq_getD_getElem?, h2]

theorem idxOf_range {n e : ℕ} (he : e < n) : (List.range n).idxOf e = e := by
  have := (IsPerm.range n).idxOf_getD he
  rwa [Orientation.range_getD he] at this

theorem Orientation.identity_toReindex (n : ℕ) :
    (Orientation.identity n).toReindex = ⟨List.range n, (List.range n).map IdxE.var⟩ := by
  simp only [Orientation.toReindex, Orientation.identity, Orientation.pardim, List.length_range,
    Reindex.mk.injEq, true_and]
  apply List.map_congr_left
  intro e he
  have he' := List.mem_range.1 he
  have h1 : (List.replicate n false).getD e false = false := by
    rw [List.getD_eq_getElem _ _ (by simpa using he')]; simp
  simp only [idxOf_range he', h1, Bool.false_eq_true, if_false]

theorem identity_index (n : ℕ) (s i : List ℕ) (hs : s.length = n) (hi : i.length = n) :
    (Orientation.identity n).mapIndex s i = i := by
  unfold Orientation.mapIndex
  rw [Orientation.identity_toReindex]
  apply List.ext_getElem
  · simp [Reindex.index, hs, hi]
  · intro e h1 h2
    simp [Reindex.index, IdxE.eval, List.getElem?_eq_getElem h2]

theorem identity_shape (n : ℕ) (s : List ℕ) (hs : s.length = n) :
    (Orientation.identity n).mapShape s = s := by
  unfold Orientation.mapShape
  rw [Orientation.identity_toReindex]
  exact map_getD_range' s 0 hs

theorem identity_mapArray {α : Type} [Inhabited α] (n : ℕ) (X : NdArr α) (hs : X.shape.length = n)
    (hd : X.data.size = shapeSize X.shape) : (Orientation.identity n).mapArray X = X := by
  have h1 : (Orientation.identity n).mapArray X =
      NdArr.ofFn ((Orientation.identity n).mapShape X.shape)
        (fun i => X.get ((Orientation.identity n).mapIndex X.shape i)) := rfl
  rw [h1, identity_shape n _ hs]
  conv_rhs => rw [← NdArr.ofFn_get X hd]
  apply NdArr.ofFn_congr
  intro i hi
  rw [identity_index n _ i hs (by rw [hi.1, hs])]

/-! ### `BSplineBasis.matches` up to reversal is symmetric and transitive -/

/-- the knot vector is not constant (`dt ≠ 0` in `matches`) -/
def KnotsOK (b : Basis ℚ) : Prop := b.knots.toList.getLastD 0 ≠ b.knots.toList.headD 0

def normK (b : Basis ℚ) : List ℚ :=
  b.knots.toList.map (fun x => (x - b.knots.toList.headD 0) / (b.knots.toList.getLastD 0 - b.knots.toList.headD 0))

def normKr (b : Basis ℚ) : List ℚ :=
  b.knots.toList.reverse.map
    (fun x => (b.knots.toList.getLastD 0 - x) / (b.knots.toList.getLastD 0 - b.knots.toList.headD 0))

/-- a normalised knot vector read backwards -/
def rho (l : List ℚ) : List ℚ := l.reverse.map (fun x => 1 - x)

theorem rho_rho (l : List ℚ) : rho (rho l) = l := by
  simp [rho, List.map_reverse, List.map_map]

theorem normKr_eq (b : Basis ℚ) (h : KnotsOK b) : normKr b = rho (normK b) := by
  unfold normKr rho normK
  rw [← List.map_reverse, List.map_map]
  apply List.map_congr_left
  intro x _
  have hd : b.knots.toList.getLastD 0 - b.knots.toList.headD 0 ≠ 0 := sub_ne_zero.2 h
  simp only [Function.comp]
  field_simp
  ring

theorem basisMatches_iff (x y : Basis ℚ) (r : Bool) :
    basisMatches x y r = true ↔
      x.order = y.order ∧ x.periodic = y.periodic ∧ (if r then normKr x else normK x) = normK y := by
  unfold basisMatches normKr normK
  by_cases h1 : x.order = y.order <;> by_cases h2 : x.periodic = y.periodic <;> cases r <;> simp [h1, h2]

theorem basisMatches_refl (x : Basis ℚ) : basisMatches x x false = true := by
  rw [basisMatches_iff]; simp

theorem basisMatches_symm {x y : Basis ℚ} {r : Bool} (hx : KnotsOK x) (hy : KnotsOK y)
    (h : basisMatches x y r = true) : basisMatches y x r = true := by
  rw [basisMatches_iff] at h ⊢
  obtain ⟨h1, h2, h3⟩ := h
  refine ⟨h1.symm, h2.symm, ?_⟩
  cases r with
  | false => simpa using h3.symm
  | true =>
    simp only [if_true] at h3 ⊢
    rw [normKr_eq y hy, ← h3, normKr_eq x hx, rho_rho]

theorem basisMatches_trans {x y z : Basis ℚ} {r s : Bool} (hx : KnotsOK x) (hy : KnotsOK y)
    (h1 : basisMatches x y r = true) (h2 : basisMatches y z s = true) :
    basisMatches x z (xor r s) = true := by
  rw [basisMatches_iff] at h1 h2 ⊢
  obtain ⟨a1, a2, a3⟩ := h1
  obtain ⟨b1, b2, b3⟩ := h2
  refine ⟨a1.trans b1, a2.trans b2, ?_⟩
  cases r <;> cases s <;> simp only [Bool.xor_false, Bool.xor_true, Bool.not_false, Bool.not_true,
    if_true, if_false, Bool.false_eq_true] at a3 b3 ⊢
  · rw [a3, b3]
  · rw [normKr_eq x hx, a3, ← normKr_eq y hy, b3]
  · rw [a3, b3]
  · rw [← b3, normKr_eq y hy, ← a3, normKr_eq x hx, rho_rho]

/-! ### objects -/

/-- a well-formed array object: as many axes as bases, flat data of the right size, positive
    extents, non-constant knot vectors -/
structure Obj.Good (x : Obj) : Prop where
  axes : x.shape.length = x.pardim
  size : x.cps.data.size = shapeSize x.shape
  pos : ∀ n ∈ x.shape, 0 < n
  knots : ∀ i, i < x.pardim → KnotsOK (x.bases.getD i default)

/-- the net `compute` compares for an object, when both objects have the same rationality -/
def netOf (x : Obj) : NdArr (List ℚ) := if x.rational then normWeights x.cps else x.cps

theorem netOf_shape (x : Obj) : (netOf x).shape = x.shape := by
  unfold netOf; split <;> simp [normWeights, NdArr.map, Obj.shape]

theorem netOf_size (x : Obj) : (netOf x).data.size = x.cps.data.size := by
  unfold netOf; split <;> simp [normWeights, NdArr.map]

theorem compareNets_same {a b : Obj} (h : a.rational = b.rational) :
    compareNets a b = (netOf a, netOf b) := by
  unfold compareNets netOf
  rw [h]
  cases b.rational <;> simp

theorem basesMatch_iff (o : Orientation) (a b : Obj) :
    basesMatch o a b = true ↔ ∀ i, i < a.pardim →
      basisMatches (a.bases.getD i default) (b.bases.getD (o.perm.getD i 0) default)
        (o.flip.getD i false) = true := by
  simp [basesMatch, List.all_eq_true]

theorem fits_same_iff {a b : Obj} (h : a.rational = b.rational) (o : Orientation) :
    Fits o a b ↔ o.mapShape b.shape = a.shape ∧ o.mapArray (netOf b) = netOf a ∧
      basesMatch o a b = true := by
  rw [fits_iff, compareNets_same h]
  simp only [netOf_shape]

/-- `a ≈ b`: `Orientation.compute(a, b)` does not raise -/
def Equiv (a b : Obj) : Prop := ∃ o, Orientation.compute a b = .ok o

theorem Equiv.refl' {a : Obj} (ha : a.Good) : Equiv a a := by
  apply compute_complete a a ha.axes rfl rfl
  refine ⟨Orientation.identity a.pardim, Orientation.identity_wf _, ?_⟩
  rw [fits_same_iff rfl]
  refine ⟨identity_shape _ _ ha.axes, ?_, ?_⟩
  · exact identity_mapArray _ _ (by rw [netOf_shape]; exact ha.axes)
      (by rw [netOf_size, netOf_shape]; exact ha.size)
  · rw [basesMatch_iff]
    intro i hi
    have h1 : (Orientation.identity a.pardim).perm.getD i 0 = i := Orientation.range_getD hi
    have h2 : (Orientation.identity a.pardim).flip.getD i false = false := by
      show (List.replicate a.pardim false).getD i false = false
      rw [List.getD_eq_getElem _ _ (by simpa using hi)]; simp
    rw [h1, h2]
    exact basisMatches_refl _

theorem Equiv.symm' {a b : Obj} (ha : a.Good) (hb : b.Good) (hr : a.rational = b.rational)
    (h : Equiv a b) : Equiv b a := by
  obtain ⟨o, ho⟩ := h
  obtain ⟨hwf, hfit, hp, hd⟩ := compute_sound a b o ho
  obtain ⟨hsh, harr, hbm⟩ := (fits_same_iff hr o).1 hfit
  have hwfb : o.WF b.pardim := hp ▸ hwf
  have hinv := Orientation.inv_wf hwfb
  apply compute_complete b a ha.axes hp.symm hd.symm
  refine ⟨o.inv, hinv, ?_⟩
  rw [fits_same_iff hr.symm]
  have hnb_len : (netOf b).shape.length = b.pardim := by rw [netOf_shape]; exact hb.axes
  have hnb_pos : ∀ m ∈ (netOf b).shape, 0 < m := by rw [netOf_shape]; exact hb.pos
  have hcomp := Orientation.mapArray_mul hinv hwfb (netOf b) hnb_len hnb_pos
  rw [Orientation.inv_mul hwfb, harr,
    identity_mapArray _ _ hnb_len (by rw [netOf_size, netOf_shape]; exact hb.size)] at hcomp
  refine ⟨?_, hcomp.symm, ?_⟩
  · -- shapes
    have hcb : o.toReindex.Consistent b.shape.length = true := by
      rw [hb.axes]; exact Orientation.toReindex_consistent hwfb
    have hci : o.inv.toReindex.Consistent o.toReindex.axes.length = true := by
      show o.inv.toReindex.Consistent o.perm.length = true
      rw [hwfb.isPerm.length]; exact Orientation.toReindex_consistent hinv
    have := Reindex.comp_shape o.inv.toReindex o.toReindex b.shape hci
    rw [← Orientation.toReindex_mul hinv hwfb, Orientation.inv_mul hwfb] at this
    have h2 : (Orientation.identity b.pardim).mapShape b.shape = b.shape := identity_shape _ _ hb.axes
    unfold Orientation.mapShape at hsh h2 ⊢
    rw [← hsh, ← this, h2]
  · rw [basesMatch_iff] at hbm ⊢
    intro j hj
    have hj' : j < b.pardim := hj
    have hi : o.perm.idxOf j < b.pardim := hwfb.isPerm.idxOf_lt hj'
    rw [Orientation.inv_perm_getD hwfb hj', Orientation.inv_flip_getD hwfb hj']
    have := hbm (o.perm.idxOf j) (by rw [hp]; exact hi)
    rw [hwfb.isPerm.getD_idxOf hj'] at this
    exact basisMatches_symm (ha.knots _ (by rw [hp]; exact hi)) (hb.knots _ hj') this

theorem Equiv.trans' {a b c : Obj} (ha : a.Good) (hb : b.Good) (hc : c.Good)
    (hr1 : a.rational = b.rational) (hr2 : b.rational = c.rational)
    (h1 : Equiv a b) (h2 : Equiv b c) : Equiv a c := by
  obtain ⟨o1, ho1⟩ := h1
  obtain ⟨o2, ho2⟩ := h2
  obtain ⟨hwf1, hfit1, hp1, hd1⟩ := compute_sound a b o1 ho1
  obtain ⟨hwf2, hfit2, hp2, hd2⟩ := compute_sound b c o2 ho2
  obtain ⟨hsh1, harr1, hbm1⟩ := (fits_same_iff hr1 o1).1 hfit1
  obtain ⟨hsh2, harr2, hbm2⟩ := (fits_same_iff hr2 o2).1 hfit2
  have hwf2a : o2.WF a.pardim := by rw [hp1]; exact hwf2
  apply compute_complete a c hc.axes (hp1.trans hp2) (hd1.trans hd2)
  refine ⟨o1 * o2, Orientation.mul_wf hwf1 hwf2a, ?_⟩
  rw [fits_same_iff (hr1.trans hr2)]
  have hnc_len : (netOf c).shape.length = a.pardim := by
    rw [netOf_shape, hc.axes, ← hp2, ← hp1]
  have hnc_pos : ∀ m ∈ (netOf c).shape, 0 < m := by rw [netOf_shape]; exact hc.pos
  refine ⟨?_, ?_, ?_⟩
  · have hca : o1.toReindex.Consistent o2.toReindex.axes.length = true := by
      show o1.toReindex.Consistent o2.perm.length = true
      rw [hwf2a.isPerm.length]; exact Orientation.toReindex_consistent hwf1
    have := Reindex.comp_shape o1.toReindex o2.toReindex c.shape hca
    rw [← Orientation.toReindex_mul hwf1 hwf2a] at this
    unfold Orientation.mapShape at hsh1 hsh2 ⊢
    rw [this, hsh2, hsh1]
  · rw [Orientation.mapArray_mul hwf1 hwf2a (netOf c) hnc_len hnc_pos, harr2, harr1]
  · rw [basesMatch_iff] at hbm1 hbm2 ⊢
    intro i hi
    have hj : o1.perm.getD i 0 < a.pardim := hwf1.isPerm.getD_lt hi
    rw [Orientation.mul_perm_getD hwf1 hi, Orientation.mul_flip_getD hwf1 hi]
    exact basisMatches_trans (ha.knots i hi) (hb.knots _ (by rw [← hp1]; exact hj))
      (hbm1 i hi) (hbm2 _ (by rw [← hp1]; exact hj))

end Splipy.MP
