import Splipy.Lemmas.Basic
import Splipy.Lemmas.Boehm
import Mathlib.Tactic.Module
import Mathlib.Tactic.LinearCombination

/-!
# Helper lemmas for property C15 (sections, boundary interpolation, Coons blending)

* interpolation: where one B-spline equals `1`, the spline takes the value of that coefficient;
* the three places where this happens: a clamped start (from the right), a clamped end (from the
  left), an interior knot of multiplicity `q` (= degree; both sides);
* a tensor-product value `tval` over an arbitrary list of directions and the section net `secNet`;
* chains of Boehm insertions preserve the spline;
* the bilinear / trilinear transfinite interpolants.
-/

set_option linter.unusedSectionVars false

namespace Splipy

open Finset

variable {K : Type} [Field K] [LinearOrder K] [IsStrictOrderedRing K]

/-! ## 1. Interpolation where a basis function equals one -/

/-- Non-negative terms with sum one, one of which is one: all the others vanish. -/
theorem c15_others_zero (N j : ℕ) (f : ℕ → K) (hnn : ∀ i, 0 ≤ f i)
    (hsum : ∑ i ∈ range N, f i = 1) (hj : j < N) (hfj : f j = 1) :
    ∀ i, i < N → i ≠ j → f i = 0 := by
  have hsplit : ∑ i ∈ range N, f i = f j + ∑ i ∈ (range N).erase j, f i :=
    (Finset.add_sum_erase (range N) f (mem_range.mpr hj)).symm
  have hrest : ∑ i ∈ (range N).erase j, f i = 0 := by
    rw [hsplit, hfj] at hsum
    linarith
  have hz := (Finset.sum_eq_zero_iff_of_nonneg (fun i _ => hnn i)).1 hrest
  intro i hi hij
  exact hz i (Finset.mem_erase.mpr ⟨hij, mem_range.mpr hi⟩)

/-- In the span `μ`, if `B_j = 1` then every other B-spline vanishes there. -/
theorem c15_B_eq_zero_of_one (s : Side) (τ : ℕ → K) (hτ : Monotone τ) (q μ j : ℕ) (t : K)
    (hq : q ≤ μ) (hmem : s.mem (τ μ) (τ (μ+1)) t) (hj : j ≤ μ) (hB : B s τ q j t = 1) :
    ∀ i, i ≠ j → B s τ q i t = 0 := by
  intro i hij
  rcases Nat.lt_or_ge μ i with h | h
  · exact B_eq_zero_of_mem_of_gt s τ hτ q i μ t hmem h
  · exact c15_others_zero (μ+1) j (fun i => B s τ q i t) (fun i => B_nonneg s τ hτ q i t)
      (B_sum_range_eq_one s τ hτ q μ (μ+1) hq (by omega) t hmem) (by omega) hB i (by omega) hij

/-- Where `B_j = 1` the spline takes the value of its `j`-th coefficient. -/
theorem c15_splineVal_of_one (s : Side) (τ : ℕ → K) (hτ : Monotone τ) (q μ j n : ℕ) (c : ℕ → K)
    (t : K) (hq : q ≤ μ) (hmem : s.mem (τ μ) (τ (μ+1)) t) (hj : j ≤ μ) (hjn : j < n)
    (hB : B s τ q j t = 1) : splineVal s τ q n c t = c j := by
  unfold splineVal
  rw [Finset.sum_eq_single j]
  · rw [hB, mul_one]
  · intro i _ hij
    rw [c15_B_eq_zero_of_one s τ hτ q μ j t hq hmem hj hB i hij, mul_zero]
  · intro h
    exact absurd (mem_range.mpr hjn) h

/-- Clamped start: `τ 0 = … = τ q < τ (q+1)`; the spline starts at its first coefficient. -/
theorem c15_clamped_start (τ : ℕ → K) (hτ : Monotone τ) (q n : ℕ) (hn : 1 ≤ n) (c : ℕ → K)
    (h : τ 0 = τ q) (hlt : τ q < τ (q+1)) : splineVal .right τ q n c (τ q) = c 0 :=
  c15_splineVal_of_one .right τ hτ q q 0 n c (τ q) (le_refl q) ⟨le_refl _, hlt⟩ (Nat.zero_le q) hn
    (B_clamped_start τ hτ q h hlt)

/-- Clamped end: `τ (n-1) < τ n = … = τ (n+q)`; the spline ends at its last coefficient. -/
theorem c15_clamped_end (τ : ℕ → K) (hτ : Monotone τ) (q n : ℕ) (hn : q + 1 ≤ n) (c : ℕ → K)
    (h : τ n = τ (n+q)) (hlt : τ (n-1) < τ n) : splineVal .left τ q n c (τ n) = c (n-1) := by
  have hmem : Side.left.mem (τ (n-1)) (τ (n-1+1)) (τ n) := by
    have e : n - 1 + 1 = n := by omega
    rw [e]; exact ⟨hlt, le_refl _⟩
  exact c15_splineVal_of_one .left τ hτ q (n-1) (n-1) n c (τ n) (by omega) hmem (le_refl _) (by omega)
    (B_clamped_end τ hτ q n h hlt (by omega))

/-- At an interior knot of multiplicity `q` (`τ j < τ (j+1) = … = τ (j+q) < τ (j+q+1)`, `q ≥ 1`)
    the B-spline `B_j` equals one, from either side. -/
theorem c15_B_eq_one_at_C0_knot (s : Side) (τ : ℕ → K) (hτ : Monotone τ) (q j : ℕ) (hq : 1 ≤ q)
    (heq : τ (j+1) = τ (j+q)) (hlo : τ j < τ (j+1)) (hhi : τ (j+q) < τ (j+q+1)) :
    B s τ q j (τ (j+1)) = 1 := by
  obtain ⟨r, rfl⟩ : ∃ r, q = r + 1 := ⟨q - 1, by omega⟩
  have e1 : j + (r+1) = j + r + 1 := by omega
  have e2 : j + r + 1 + 1 = j + r + 2 := by omega
  rw [e1] at heq hhi
  rw [e2] at hhi
  rw [B_succ]
  have hx : τ (j+1) = τ (j+r+1) := heq
  -- first weight: (x - τ j)/(τ (j+r+1) - τ j) = 1 ; second: (τ (j+r+2) - x)/(τ (j+r+2) - τ (j+1)) = 1
  have d1 : τ (j+r+1) - τ j ≠ 0 := sub_ne_zero.mpr (ne_of_gt (by rw [← hx]; exact hlo))
  have d2 : τ (j+r+2) - τ (j+1) ≠ 0 := sub_ne_zero.mpr (ne_of_gt (by rw [hx]; exact hhi))
  have w1 : (τ (j+1) - τ j) / (τ (j+r+1) - τ j) = 1 := by rw [hx]; exact div_self d1
  have w2 : (τ (j+r+2) - τ (j+1)) / (τ (j+r+2) - τ (j+1)) = 1 := div_self d2
  rw [w1, w2, one_mul, one_mul]
  cases s with
  | right =>
    -- B_{j,r} vanishes at the right end of its support, B_{j+1,r} is clamped at its start
    have z : B .right τ r j (τ (j+1)) = 0 :=
      B_support_right τ hτ r j _ (Or.inr (by rw [hx]))
    have o : B .right τ r (j+1) (τ (j+1)) = 1 :=
      B_right_eq_one_of_clamped τ hτ r (j+1) (by rw [hx]; congr 1; omega)
        (by have e : j+1+r+1 = j+r+2 := by omega
            have e' : j+1+r = j+r+1 := by omega
            rw [e, e']; exact hhi)
    rw [z, o, zero_add]
  | left =>
    have o : B .left τ r j (τ (j+1)) = 1 := by
      have := B_left_eq_one_of_clamped τ hτ r j hx hlo
      rw [← hx] at this
      exact this
    have z : B .left τ r (j+1) (τ (j+1)) = 0 :=
      B_support_left τ hτ r (j+1) _ (Or.inl (le_refl _))
    rw [z, o, add_zero]

/-- Interpolation at an interior knot of multiplicity `q` (the `C⁰` knot produced by
    `const_par_curve`), from the right. -/
theorem c15_splineVal_at_C0_knot_right (τ : ℕ → K) (hτ : Monotone τ) (q j n : ℕ) (c : ℕ → K)
    (hq : 1 ≤ q) (hjn : j < n)
    (heq : τ (j+1) = τ (j+q)) (hlo : τ j < τ (j+1)) (hhi : τ (j+q) < τ (j+q+1)) :
    splineVal .right τ q n c (τ (j+1)) = c j :=
  c15_splineVal_of_one .right τ hτ q (j+q) j n c (τ (j+1)) (by omega)
    ⟨by rw [heq], by rw [heq]; exact hhi⟩ (by omega) hjn
    (c15_B_eq_one_at_C0_knot .right τ hτ q j hq heq hlo hhi)

/-- Same from the left (needs `q ≤ j`: at least `q` knots before `τ j`, true for every interior knot
    of a basis). -/
theorem c15_splineVal_at_C0_knot_left (τ : ℕ → K) (hτ : Monotone τ) (q j n : ℕ) (c : ℕ → K)
    (hq : 1 ≤ q) (hqj : q ≤ j) (hjn : j < n)
    (heq : τ (j+1) = τ (j+q)) (hlo : τ j < τ (j+1)) (hhi : τ (j+q) < τ (j+q+1)) :
    splineVal .left τ q n c (τ (j+1)) = c j :=
  c15_splineVal_of_one .left τ hτ q j j n c (τ (j+1)) hqj ⟨hlo, le_refl _⟩ (le_refl _) hjn
    (c15_B_eq_one_at_C0_knot .left τ hτ q j hq heq hlo hhi)

/-! ## 2. Tensor-product value over a list of directions and the section net -/

/-- One parametric direction of an object: knots, degree, number of functions. -/
structure Dir (K : Type) where
  τ : ℕ → K
  q : ℕ
  n : ℕ

/-- Clamped at the start / at the end (open knot vector ends). -/
def Dir.ClampedLo (D : Dir K) : Prop :=
  Monotone D.τ ∧ 1 ≤ D.n ∧ D.τ 0 = D.τ D.q ∧ D.τ D.q < D.τ (D.q + 1)

def Dir.ClampedHi (D : Dir K) : Prop :=
  Monotone D.τ ∧ D.q + 1 ≤ D.n ∧ D.τ D.n = D.τ (D.n + D.q) ∧ D.τ (D.n - 1) < D.τ D.n

/-- Parameter values of the two ends (`start() = knots[p-1]`, `end() = knots[n]`). -/
def Dir.lo (D : Dir K) : K := D.τ D.q
def Dir.hi (D : Dir K) : K := D.τ D.n

/-- Tensor-product spline value `Σ_{i1…id} c[i1,…,id] Π B_{ik}(t_k)` (one homogeneous component),
    over any number of directions; every direction carries its evaluation side and parameter. -/
def tval : List (Dir K × Side × K) → (List ℕ → K) → K
  | [], c => c []
  | (D, s, t) :: r, c => splineVal s D.τ D.q D.n (fun i => tval r (fun idx => c (i :: idx))) t

/-- Selector of `section` restricted to the boundary values: `None`, `0`, `-1`. -/
inductive BSel where
  | free | lo | hi
  deriving DecidableEq, Repr

/-- Arguments of the *object* at the boundary point: fixed directions at their start (from the
    right) or end (from the left), free directions take their (side, parameter) from `ps` in order. -/
def fullArgs : List (Dir K × BSel) → List (Side × K) → List (Dir K × Side × K)
  | [], _ => []
  | (D, .free) :: r, p :: ps => (D, p.1, p.2) :: fullArgs r ps
  | (D, .free) :: r, [] => (D, .right, 0) :: fullArgs r []
  | (D, .lo) :: r, ps => (D, .right, D.lo) :: fullArgs r ps
  | (D, .hi) :: r, ps => (D, .left, D.hi) :: fullArgs r ps

/-- Arguments of the *section*: only the free directions. -/
def secArgs : List (Dir K × BSel) → List (Side × K) → List (Dir K × Side × K)
  | [], _ => []
  | (D, .free) :: r, p :: ps => (D, p.1, p.2) :: secArgs r ps
  | (D, .free) :: r, [] => (D, .right, 0) :: secArgs r []
  | (_, .lo) :: r, ps => secArgs r ps
  | (_, .hi) :: r, ps => secArgs r ps

/-- Control net of the section: index `0` resp. `n-1` (python `-1`) in the fixed directions. -/
def secNet : List (Dir K × BSel) → (List ℕ → K) → (List ℕ → K)
  | [], c => c
  | (_, .free) :: r, c => fun idx =>
      match idx with
      | [] => c []
      | i :: rest => secNet r (fun x => c (i :: x)) rest
  | (_, .lo) :: r, c => secNet r (fun x => c (0 :: x))
  | (D, .hi) :: r, c => secNet r (fun x => c ((D.n - 1) :: x))

/-- Every fixed direction is clamped at the end that is selected. -/
def SelClamped : List (Dir K × BSel) → Prop
  | [] => True
  | (_, .free) :: r => SelClamped r
  | (D, .lo) :: r => D.ClampedLo ∧ SelClamped r
  | (D, .hi) :: r => D.ClampedHi ∧ SelClamped r

theorem c15_tval_section (ds : List (Dir K × BSel)) (hc : SelClamped ds) (ps : List (Side × K))
    (c : List ℕ → K) : tval (fullArgs ds ps) c = tval (secArgs ds ps) (secNet ds c) := by
  induction ds generalizing ps c with
  | nil => rfl
  | cons d r ih =>
    obtain ⟨D, sel⟩ := d
    cases sel with
    | free =>
      have hr : SelClamped r := hc
      cases ps with
      | nil =>
        simp only [fullArgs, secArgs, tval]
        congr 1
        funext i
        rw [ih hr]
        rfl
      | cons p ps =>
        simp only [fullArgs, secArgs, tval]
        congr 1
        funext i
        rw [ih hr]
        rfl
    | lo =>
      obtain ⟨⟨hm, hn, h0, hlt⟩, hr⟩ := hc
      simp only [fullArgs, secArgs, tval, Dir.lo]
      rw [c15_clamped_start D.τ hm D.q D.n hn _ h0 hlt, ih hr]
      rfl
    | hi =>
      obtain ⟨⟨hm, hn, h0, hlt⟩, hr⟩ := hc
      simp only [fullArgs, secArgs, tval, Dir.hi]
      rw [c15_clamped_end D.τ hm D.q D.n hn _ h0 hlt, ih hr]
      rfl

/-! ## 3. Chains of Boehm insertions -/

/-- `(τ', n', c')` is obtained from `(τ, n, c)` by finitely many single-knot insertions
    (`insertSeq` + `boehmCoefGen`, the formulas `BSplineBasis.insert_knot` implements). -/
inductive BoehmChain (q : ℕ) : (ℕ → K) → ℕ → (ℕ → K) → (ℕ → K) → ℕ → (ℕ → K) → Prop
  | refl (τ : ℕ → K) (n : ℕ) (c : ℕ → K) : BoehmChain q τ n c τ n c
  | step {τ : ℕ → K} {n : ℕ} {c : ℕ → K} {τ' : ℕ → K} {n' : ℕ} {c' : ℕ → K} (μ : ℕ) (x : K)
      (h : BoehmChain q τ n c τ' n' c') (hτ' : Monotone τ') (hμ : 1 ≤ μ)
      (hx : τ' (μ-1) ≤ x ∧ x ≤ τ' μ) :
      BoehmChain q τ n c (insertSeq τ' μ x) (n'+1) (boehmCoefGen τ' μ x q n' c')

theorem c15_chain_splineVal {q : ℕ} {τ : ℕ → K} {n : ℕ} {c : ℕ → K} {τ' : ℕ → K} {n' : ℕ}
    {c' : ℕ → K} (h : BoehmChain q τ n c τ' n' c') (s : Side) (t : K) :
    splineVal s τ q n c t = splineVal s τ' q n' c' t := by
  induction h with
  | refl => rfl
  | step μ x _ hτ' hμ hx ih =>
    rw [ih]
    exact boehm_splineVal_gen s _ hτ' μ x hμ hx q _ _ t

/-! ## 4. The linear basis `BSplineBasis(2)` -/

/-- Knots `0,0,1,1` as a total sequence. -/
def linKnots : ℕ → K := fun i => if i < 2 then 0 else 1

theorem linKnots_mono : Monotone (linKnots : ℕ → K) := by
  intro a b hab
  unfold linKnots
  split_ifs with h1 h2
  · exact le_refl _
  · exact zero_le_one
  · omega
  · exact le_refl _

/-- The direction of a ruled / extruded object. -/
def linDir : Dir K := ⟨linKnots, 1, 2⟩

theorem linDir_clampedLo : (linDir : Dir K).ClampedLo := by
  refine ⟨linKnots_mono, by simp [linDir], ?_, ?_⟩ <;> simp [linDir, linKnots]

theorem linDir_clampedHi : (linDir : Dir K).ClampedHi := by
  refine ⟨linKnots_mono, by simp [linDir], ?_, ?_⟩ <;> simp [linDir, linKnots]

theorem linDir_lo : (linDir : Dir K).lo = 0 := by simp [linDir, Dir.lo, linKnots]
theorem linDir_hi : (linDir : Dir K).hi = 1 := by simp [linDir, Dir.hi, linKnots]

/-- The two linear B-splines on `[0,1)`: `1 - v` and `v`. -/
theorem c15_lin_B0 (v : K) (h0 : 0 ≤ v) (h1 : v < 1) : B .right (linKnots : ℕ → K) 1 0 v = 1 - v := by
  simp [B, ind, linKnots, h0, h1]

theorem c15_lin_B1 (v : K) (h0 : 0 ≤ v) (h1 : v < 1) : B .right (linKnots : ℕ → K) 1 1 v = v := by
  simp [B, ind, linKnots, h0, h1]

/-- A spline on the linear basis is the linear interpolant of its two coefficients. -/
theorem c15_lin_splineVal (c : ℕ → K) (v : K) (h0 : 0 ≤ v) (h1 : v < 1) :
    splineVal .right (linKnots : ℕ → K) 1 2 c v = (1 - v) * c 0 + v * c 1 := by
  unfold splineVal
  rw [Finset.sum_range_succ, Finset.sum_range_one, c15_lin_B0 v h0 h1, c15_lin_B1 v h0 h1]
  ring

/-! ## 5. Linearity of `splineVal` in the coefficients -/

theorem c15_splineVal_add (s : Side) (τ : ℕ → K) (q n : ℕ) (c d : ℕ → K) (t : K) :
    splineVal s τ q n (fun i => c i + d i) t = splineVal s τ q n c t + splineVal s τ q n d t := by
  unfold splineVal
  rw [← Finset.sum_add_distrib]
  exact Finset.sum_congr rfl (fun i _ => by ring)

theorem c15_splineVal_smul (s : Side) (τ : ℕ → K) (q n : ℕ) (a : K) (c : ℕ → K) (t : K) :
    splineVal s τ q n (fun i => a * c i) t = a * splineVal s τ q n c t := by
  unfold splineVal
  rw [Finset.mul_sum]
  exact Finset.sum_congr rfl (fun i _ => by ring)

/-! ## 6. Objects whose last direction is the linear basis (ruled / extruded objects) -/

theorem c15_tval_append_lin_lo (args : List (Dir K × Side × K)) (c : List ℕ → K) :
    tval (args ++ [((linDir : Dir K), Side.right, 0)]) c = tval args (fun idx => c (idx ++ [0])) := by
  induction args generalizing c with
  | nil =>
    obtain ⟨hm, hn, h0, hlt⟩ := (linDir_clampedLo : (linDir : Dir K).ClampedLo)
    have := c15_clamped_start (linDir : Dir K).τ hm (linDir : Dir K).q (linDir : Dir K).n hn
      (fun i => c [i]) h0 hlt
    have e : (linDir : Dir K).τ (linDir : Dir K).q = 0 := linDir_lo
    rw [e] at this
    simpa [tval] using this
  | cons a r ih =>
    obtain ⟨D, s, t⟩ := a
    simp only [List.cons_append, tval]
    congr 1
    funext i
    rw [ih]

theorem c15_tval_append_lin_hi (args : List (Dir K × Side × K)) (c : List ℕ → K) :
    tval (args ++ [((linDir : Dir K), Side.left, 1)]) c = tval args (fun idx => c (idx ++ [1])) := by
  induction args generalizing c with
  | nil =>
    obtain ⟨hm, hn, h0, hlt⟩ := (linDir_clampedHi : (linDir : Dir K).ClampedHi)
    have := c15_clamped_end (linDir : Dir K).τ hm (linDir : Dir K).q (linDir : Dir K).n hn
      (fun i => c [i]) h0 hlt
    have e : (linDir : Dir K).τ (linDir : Dir K).n = 1 := linDir_hi
    rw [e] at this
    simpa [tval, linDir] using this
  | cons a r ih =>
    obtain ⟨D, s, t⟩ := a
    simp only [List.cons_append, tval]
    congr 1
    funext i
    rw [ih]

/-- `tval` is linear in the control net. -/
theorem c15_tval_add_smul (args : List (Dir K × Side × K)) (a w : List ℕ → K) (d : K) :
    tval args (fun idx => a idx + d * w idx) = tval args a + d * tval args w := by
  induction args generalizing a w with
  | nil => rfl
  | cons x r ih =>
    obtain ⟨D, s, t⟩ := x
    simp only [tval]
    have : (fun i => tval r (fun idx => a (i :: idx) + d * w (i :: idx)))
        = fun i => tval r (fun idx => a (i :: idx)) + d * tval r (fun idx => w (i :: idx)) := by
      funext i
      exact ih (fun idx => a (i :: idx)) (fun idx => w (i :: idx))
    rw [this, c15_splineVal_add, c15_splineVal_smul]

end Splipy
