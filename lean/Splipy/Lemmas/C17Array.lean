import Mathlib.Tactic.Ring
import Mathlib.Tactic.Linarith
import Splipy.Model.Orientation

/-! Lemmas for C17: flat C-order storage (`ravel`/`unravel`) and `NdArr.ofFn`/`get`. -/

namespace Splipy.MP

/-- multi-index `i` is inside the shape `s`. -/
def InRange (i s : List ℕ) : Prop := i.length = s.length ∧ ∀ d, d < s.length → i.getD d 0 < s.getD d 0

theorem inRange_nil : InRange [] [] := ⟨rfl, fun d h => absurd h (Nat.not_lt_zero d)⟩

theorem inRange_cons {i n : ℕ} {is ns : List ℕ} :
    InRange (i :: is) (n :: ns) ↔ i < n ∧ InRange is ns := by
  constructor
  · rintro ⟨hl, h⟩
    refine ⟨by simpa using h 0 (by simp), by simpa using hl, fun d hd => ?_⟩
    have := h (d + 1) (by simpa using hd)
    simpa using this
  · rintro ⟨h0, hl, h⟩
    refine ⟨by simpa using hl, fun d hd => ?_⟩
    cases d with
    | zero => simpa using h0
    | succ d => simpa using h d (by simpa using hd)

theorem shapeSize_pos {s : List ℕ} (h : ∀ n ∈ s, 0 < n) : 0 < shapeSize s := by
  induction s with
  | nil => simp [shapeSize]
  | cons n ns ih =>
    simp only [shapeSize]
    exact Nat.mul_pos (h n (by simp)) (ih (fun m hm => h m (by simp [hm])))

theorem unravel_length (s : List ℕ) (k : ℕ) : (unravel s k).length = s.length := by
  induction s generalizing k with
  | nil => rfl
  | cons n ns ih => simp [unravel, ih]

theorem unravel_inRange {s : List ℕ} {k : ℕ} (hk : k < shapeSize s) : InRange (unravel s k) s := by
  induction s generalizing k with
  | nil => exact inRange_nil
  | cons n ns ih =>
    simp only [unravel]
    rw [inRange_cons]
    simp only [shapeSize] at hk
    have hpos : 0 < shapeSize ns := by
      rcases Nat.eq_zero_or_pos (shapeSize ns) with h | h
      · rw [h] at hk; simp at hk
      · exact h
    refine ⟨?_, ih (Nat.mod_lt _ hpos)⟩
    rw [Nat.div_lt_iff_lt_mul hpos]
    exact hk

theorem ravel_lt {s i : List ℕ} (h : InRange i s) : ravel s i < shapeSize s := by
  induction s generalizing i with
  | nil => simp [ravel, shapeSize]
  | cons n ns ih =>
    cases i with
    | nil => exact absurd h.1 (by simp)
    | cons j js =>
      rw [inRange_cons] at h
      simp only [ravel, shapeSize]
      have h2 := ih h.2
      calc j * shapeSize ns + ravel ns js < j * shapeSize ns + shapeSize ns := by omega
        _ = (j + 1) * shapeSize ns := by ring
        _ ≤ n * shapeSize ns := Nat.mul_le_mul_right _ h.1

theorem unravel_ravel {s i : List ℕ} (h : InRange i s) : unravel s (ravel s i) = i := by
  induction s generalizing i with
  | nil =>
    cases i with
    | nil => rfl
    | cons j js => exact absurd h.1 (by simp)
  | cons n ns ih =>
    cases i with
    | nil => exact absurd h.1 (by simp)
    | cons j js =>
      rw [inRange_cons] at h
      have h2 := ravel_lt h.2
      simp only [ravel, unravel]
      have hpos : 0 < shapeSize ns := by omega
      have e1 : (j * shapeSize ns + ravel ns js) / shapeSize ns = j := by
        rw [Nat.add_comm, Nat.add_mul_div_right _ _ hpos, Nat.div_eq_of_lt h2]; simp
      have e2 : (j * shapeSize ns + ravel ns js) % shapeSize ns = ravel ns js := by
        rw [Nat.add_comm, Nat.add_mul_mod_self_right, Nat.mod_eq_of_lt h2]
      rw [e1, e2, ih h.2]

theorem NdArr.get_ofFn {α : Type} [Inhabited α] (s : List ℕ) (f : List ℕ → α) {i : List ℕ}
    (h : InRange i s) : (NdArr.ofFn s f).get i = f i := by
  unfold NdArr.get NdArr.ofFn
  have hlt := ravel_lt h
  simp only [Array.getD_eq_getD_getElem?, Array.getElem?_ofFn, hlt, dite_true, Option.getD_some]
  rw [unravel_ravel h]

/-- two `ofFn` arrays agree when the generating functions agree on the multi-indices in range -/
theorem NdArr.ofFn_congr {α : Type} (s : List ℕ) (f g : List ℕ → α)
    (h : ∀ i, InRange i s → f i = g i) : NdArr.ofFn s f = NdArr.ofFn s g := by
  unfold NdArr.ofFn
  congr 1
  apply Array.ext
  · simp
  · intro k h1 h2
    simp only [Array.getElem_ofFn]
    exact h _ (unravel_inRange (by simpa using h1))

end Splipy.MP
