import Splipy.Lemmas.TensorEvalObj

/-!
# `Obj.evaluate` for curves (`pardim = 1`): helpers for C02
-/

namespace Splipy
set_option linter.unusedSectionVars false
open Tensor
variable {K : Type} [Field K] [LinearOrder K] [IsStrictOrderedRing K] [FloorRing K]

/-- Homogeneous (before the rational division) result of a curve evaluation. -/
def Obj.hom1 (o : Obj K) (b1 : Basis K) (tol : K) (us : List K) (tensor : Bool) : Tensor K :=
  let Ns := [Obj.basisMat b1 tol (us.map (snap b1 tol)) 0 true]
  if tensor then Obj.contractGrid Ns o.cps else Obj.contractPointwise Ns o.cps us.length

theorem Obj.outOfDomain1_iff {o : Obj K} {b1 : Basis K} (hb : o.bases = #[b1]) (tol : K)
    (us : List K) :
    o.OutOfDomain tol [us] ↔
      (b1.periodic < 0 ∧
        (us = [] ∨ ∃ t ∈ us, snap b1 tol t < b1.start ∨ b1.stop < snap b1 tol t)) := by
  simp [Obj.OutOfDomain, hb]

theorem Obj.evalCore1 {o : Obj K} {b1 : Basis K} (hb : o.bases = #[b1]) (tol : K)
    (us : List K) (tensor : Bool) :
    o.evalCore tol (o.snapParams tol [us]) tensor
      = if o.rational then Obj.project (o.hom1 b1 tol us tensor) o.dimension
        else o.hom1 b1 tol us tensor := by
  simp [Obj.evalCore, Obj.snapParams, Obj.hom1, hb]

theorem Obj.hom1_grid_get {o : Obj K} (b1 : Basis K) {n1 nc : ℕ}
    (hs : o.cps.shape = [n1, nc]) (tol : K) (us : List K) {i1 c : ℕ}
    (h1 : i1 < us.length) (hc : c < nc) :
    (o.hom1 b1 tol us true).get (i1 * nc + c)
      = ∑ j1 ∈ Finset.range n1, b1.rowVal tol (us.getD i1 0) j1 * o.cps.get (j1 * nc + c) := by
  unfold Obj.hom1
  simp only [if_true]
  rw [contractGrid1_get (Obj.basisMat b1 tol (us.map (snap b1 tol)) 0 true) o.cps hs
    (by rw [basisMat_rows, List.length_map]; exact h1) hc]
  apply Finset.sum_congr rfl; intro j1 _
  rw [basisMat_snap_entry b1 tol us h1]

theorem Obj.hom1_grid_size {o : Obj K} (b1 : Basis K) {n1 nc : ℕ}
    (hs : o.cps.shape = [n1, nc]) (tol : K) (us : List K) :
    (o.hom1 b1 tol us true).shape = [us.length, nc] ∧
      (o.hom1 b1 tol us true).data.size = us.length * nc := by
  unfold Obj.hom1
  simp only [if_true]
  have e := contractGrid1_size (Obj.basisMat b1 tol (us.map (snap b1 tol)) 0 true) o.cps hs
  simpa [basisMat_rows] using e

theorem Obj.hom1_pw_get {o : Obj K} (b1 : Basis K) {n1 nc : ℕ}
    (hs : o.cps.shape = [n1, nc]) (tol : K) (us : List K)
    {i c : ℕ} (hi : i < us.length) (hc : c < nc) :
    (o.hom1 b1 tol us false).get (i * nc + c)
      = ∑ j1 ∈ Finset.range n1, b1.rowVal tol (us.getD i 0) j1 * o.cps.get (j1 * nc + c) := by
  unfold Obj.hom1
  simp only [Bool.false_eq_true, if_false]
  rw [contractPointwise1_get _ _ _ hs hi hc]
  apply Finset.sum_congr rfl; intro j1 _
  rw [basisMat_snap_entry b1 tol us hi]

theorem Obj.hom1_pw_size {o : Obj K} (b1 : Basis K) {n1 nc : ℕ}
    (hs : o.cps.shape = [n1, nc]) (tol : K) (us : List K) :
    (o.hom1 b1 tol us false).shape = [us.length, nc] ∧
      (o.hom1 b1 tol us false).data.size = us.length * nc := by
  unfold Obj.hom1
  simp only [Bool.false_eq_true, if_false]
  apply contractPointwise_size_of_shape
  · rw [hs]; rfl
  · intro k _
    have := (contractGrid1_size
      #[(Obj.basisMat b1 tol (us.map (snap b1 tol)) 0 true).getD k #[]] o.cps hs).2
    simpa using this

theorem Obj.evaluate1_ok {o : Obj K} {b1 : Basis K} (hb : o.bases = #[b1]) (tol : K)
    (us : List K) (tensor : Bool) (hdom : ¬ o.OutOfDomain tol [us]) :
    o.evaluate tol [us] tensor
      = .ok (if o.rational then Obj.project (o.hom1 b1 tol us tensor) o.dimension
             else o.hom1 b1 tol us tensor) := by
  rw [o.evaluate_ok tol _ tensor _ hdom, Obj.evalCore1 hb]
  rintro ⟨_, hne⟩
  apply hne
  simp [List.eraseDups_cons]

theorem Obj.not_outOfDomain1 {o : Obj K} {b1 : Basis K} (hb : o.bases = #[b1])
    (hv1 : b1.Valid) {tol : K} (htol : 0 < tol) {us : List K}
    (hus : ∀ u ∈ us, b1.Admissible tol u)
    (hne1 : b1.periodic < 0 → us ≠ [] := by (first | assumption | (simp; done) | skip)) :
    ¬ o.OutOfDomain tol [us] := by
  rw [Obj.outOfDomain1_iff hb]
  rintro ⟨h1, h0 | ⟨t, ht, h2⟩⟩
  · exact hne1 h1 h0
  · exact Basis.Admissible.not_out hv1 htol (hus t ht) ⟨h1, h2⟩

/-- Non-rational curve on a list of parameters: the result entries in terms of the code's rows. -/
theorem Obj.evaluate1_grid_nonrational {o : Obj K} {b1 : Basis K} (hb : o.bases = #[b1])
    {n1 nc : ℕ} (hs : o.cps.shape = [n1, nc]) (hr : o.rational = false) (tol : K)
    (us : List K) (hdom : ¬ o.OutOfDomain tol [us]) :
    ∃ res, o.evaluate tol [us] true = .ok res ∧
      res.shape = [us.length, nc] ∧ res.data.size = us.length * nc ∧
      ∀ i1 c, i1 < us.length → c < nc →
        res.get (i1 * nc + c)
          = ∑ j1 ∈ Finset.range n1, b1.rowVal tol (us.getD i1 0) j1 * o.cps.get (j1 * nc + c) := by
  refine ⟨_, Obj.evaluate1_ok hb tol us true hdom, ?_⟩
  simp only [hr, Bool.false_eq_true, if_false]
  exact ⟨(Obj.hom1_grid_size b1 hs tol us).1, (Obj.hom1_grid_size b1 hs tol us).2,
    fun i1 c h1 hc => Obj.hom1_grid_get b1 hs tol us h1 hc⟩

/-- Rational curve: numerator / denominator with the same rows. -/
theorem Obj.evaluate1_grid_rational {o : Obj K} {b1 : Basis K} (hb : o.bases = #[b1])
    {n1 dim : ℕ} (hs : o.cps.shape = [n1, dim + 1]) (hr : o.rational = true) (tol : K)
    (us : List K) (hdom : ¬ o.OutOfDomain tol [us]) :
    ∃ res, o.evaluate tol [us] true = .ok res ∧
      res.shape = [us.length, dim] ∧ res.data.size = us.length * dim ∧
      ∀ i1 c, i1 < us.length → c < dim →
        res.get (i1 * dim + c)
          = (∑ j1 ∈ Finset.range n1,
              b1.rowVal tol (us.getD i1 0) j1 * o.cps.get (j1 * (dim + 1) + c))
            / (∑ j1 ∈ Finset.range n1,
              b1.rowVal tol (us.getD i1 0) j1 * o.cps.get (j1 * (dim + 1) + dim)) := by
  refine ⟨_, Obj.evaluate1_ok hb tol us true hdom, ?_⟩
  have hdim : o.dimension = dim := by
    have := (Obj.dimension_of_shape (o := o) (pre := [n1]) hs).2
    rw [this, hr]; simp
  have hsz := Obj.hom1_grid_size b1 hs tol us
  simp only [hr, if_true, hdim]
  refine ⟨(project_size2 _ hsz.1).1, (project_size2 _ hsz.1).2, ?_⟩
  intro i1 c h1 hc
  rw [project_get2 _ hsz.1 h1 hc, Obj.hom1_grid_get b1 hs tol us h1 (by omega),
    Obj.hom1_grid_get b1 hs tol us h1 (by omega)]

/-- `tensor=False` equals `tensor=True` for curves (the diagonal of a 1-d grid is the grid). -/
theorem Obj.evaluate1_pointwise_diag {o : Obj K} {b1 : Basis K} (hb : o.bases = #[b1])
    {n1 nc : ℕ} (hs : o.cps.shape = [n1, nc]) (hnc : o.rational = true → 1 ≤ nc) (tol : K)
    (us : List K) (hdom : ¬ o.OutOfDomain tol [us]) :
    ∃ rg rp, o.evaluate tol [us] true = .ok rg ∧ o.evaluate tol [us] false = .ok rp ∧
      rp.shape = [us.length, o.dimension] ∧ rp.data.size = us.length * o.dimension ∧
      ∀ i c, i < us.length → c < o.dimension →
        rp.get (i * o.dimension + c) = rg.get (i * o.dimension + c) := by
  refine ⟨_, _, Obj.evaluate1_ok hb tol us true hdom, Obj.evaluate1_ok hb tol us false hdom, ?_⟩
  have hg := Obj.hom1_grid_size b1 hs tol us
  have hp := Obj.hom1_pw_size b1 hs tol us
  have hdim := (Obj.dimension_of_shape (o := o) (pre := [n1]) hs).2
  cases hrat : o.rational with
  | false =>
    rw [hrat] at hdim
    simp only [Bool.false_eq_true, if_false, Nat.sub_zero] at hdim ⊢
    rw [hdim]
    refine ⟨hp.1, hp.2, ?_⟩
    intro i c hi hc
    rw [Obj.hom1_pw_get b1 hs tol us hi hc, Obj.hom1_grid_get b1 hs tol us hi hc]
  | true =>
    have h1 := hnc hrat
    obtain ⟨dim, rfl⟩ : ∃ dim, nc = dim + 1 := ⟨nc - 1, by omega⟩
    rw [hrat] at hdim
    simp only [if_true, Nat.add_sub_cancel] at hdim ⊢
    rw [hdim]
    refine ⟨(project_size2 _ hp.1).1, (project_size2 _ hp.1).2, ?_⟩
    intro i c hi hc
    rw [project_get2 _ hp.1 hi hc, project_get2 _ hg.1 hi hc,
      Obj.hom1_pw_get b1 hs tol us hi (by omega),
      Obj.hom1_pw_get b1 hs tol us hi (by omega),
      Obj.hom1_grid_get b1 hs tol us hi (by omega),
      Obj.hom1_grid_get b1 hs tol us hi (by omega)]

/-- Non-rational curve, valid basis, admissible parameters: the specification sum. -/
theorem Obj.evaluate1_spec_nonrational {o : Obj K} {b1 : Basis K} (hb : o.bases = #[b1])
    (hv1 : b1.Valid) {nc : ℕ}
    (hs : o.cps.shape = [b1.numFunctions, nc]) (hr : o.rational = false)
    {tol : K} (htol : 0 < tol) {us : List K} (hus : ∀ u ∈ us, b1.Admissible tol u)
    (hne1 : b1.periodic < 0 → us ≠ [] := by (first | assumption | (simp; done) | skip)) :
    ∃ res, o.evaluate tol [us] true = .ok res ∧
      res.shape = [us.length, nc] ∧ res.data.size = us.length * nc ∧
      ∀ i1 c, i1 < us.length → c < nc →
        res.get (i1 * nc + c)
          = ∑ j1 ∈ Finset.range b1.numFunctions,
              b1.specRow (us.getD i1 0) j1 * o.cps.get (j1 * nc + c) := by
  obtain ⟨res, h1, h2, h3, h4⟩ := Obj.evaluate1_grid_nonrational hb hs hr tol us
    (Obj.not_outOfDomain1 hb hv1 htol hus)
  refine ⟨res, h1, h2, h3, ?_⟩
  intro i1 c hi1 hc
  rw [h4 i1 c hi1 hc]
  apply Finset.sum_congr rfl; intro j1 hj1
  rw [Basis.rowVal_eq_specRow hv1 htol (hus _ (getD_mem_of_lt us hi1 0)) (Finset.mem_range.mp hj1)]

/-- Rational curve with positive weights: the denominators are positive and the result is the
NURBS quotient. -/
theorem Obj.evaluate1_spec_rational {o : Obj K} {b1 : Basis K} (hb : o.bases = #[b1])
    (hv1 : b1.Valid) {dim : ℕ}
    (hs : o.cps.shape = [b1.numFunctions, dim + 1]) (hr : o.rational = true)
    (hw : ∀ j1, j1 < b1.numFunctions → 0 < o.cps.get (j1 * (dim + 1) + dim))
    {tol : K} (htol : 0 < tol) {us : List K} (hus : ∀ u ∈ us, b1.Admissible tol u)
    (hne1 : b1.periodic < 0 → us ≠ [] := by (first | assumption | (simp; done) | skip)) :
    ∃ res, o.evaluate tol [us] true = .ok res ∧
      res.shape = [us.length, dim] ∧ res.data.size = us.length * dim ∧
      ∀ i1, i1 < us.length →
        0 < (∑ j1 ∈ Finset.range b1.numFunctions,
              b1.specRow (us.getD i1 0) j1 * o.cps.get (j1 * (dim + 1) + dim)) ∧
        ∀ c, c < dim →
          res.get (i1 * dim + c)
            = (∑ j1 ∈ Finset.range b1.numFunctions,
                b1.specRow (us.getD i1 0) j1 * o.cps.get (j1 * (dim + 1) + c))
              / (∑ j1 ∈ Finset.range b1.numFunctions,
                b1.specRow (us.getD i1 0) j1 * o.cps.get (j1 * (dim + 1) + dim)) := by
  obtain ⟨res, h1, h2, h3, h4⟩ := Obj.evaluate1_grid_rational hb hs hr tol us
    (Obj.not_outOfDomain1 hb hv1 htol hus)
  refine ⟨res, h1, h2, h3, ?_⟩
  intro i1 hi1
  have hu := hus _ (getD_mem_of_lt us hi1 0)
  have hrw : ∀ c, (∑ j1 ∈ Finset.range b1.numFunctions,
        b1.rowVal tol (us.getD i1 0) j1 * o.cps.get (j1 * (dim + 1) + c))
      = ∑ j1 ∈ Finset.range b1.numFunctions,
        b1.specRow (us.getD i1 0) j1 * o.cps.get (j1 * (dim + 1) + c) := by
    intro c
    apply Finset.sum_congr rfl; intro j1 hj1
    rw [Basis.rowVal_eq_specRow hv1 htol hu (Finset.mem_range.mp hj1)]
  constructor
  · rw [← hrw]
    exact convex_sum_pos _ _ _
      (fun j _ => Basis.rowVal_nonneg hv1 htol hu j) (Basis.rowVal_sum hv1 htol hu) hw
  · intro c hc
    rw [h4 i1 c hi1 hc, hrw, hrw]

/-- Non-rational curve: every coordinate of every evaluated point lies in the bounding box. -/
theorem Obj.evaluate1_in_bbox {o : Obj K} {b1 : Basis K} (hb : o.bases = #[b1])
    (hv1 : b1.Valid) {nc : ℕ}
    (hs : o.cps.shape = [b1.numFunctions, nc]) (hr : o.rational = false)
    {tol : K} (htol : 0 < tol) {us : List K} (hus : ∀ u ∈ us, b1.Admissible tol u)
    (hne1 : b1.periodic < 0 → us ≠ [] := by (first | assumption | (simp; done) | skip)) :
    ∃ res, o.evaluate tol [us] true = .ok res ∧
      ∀ i1 c, i1 < us.length → c < nc →
        ((o.boundingBox).getD c (0, 0)).1 ≤ res.get (i1 * nc + c) ∧
        res.get (i1 * nc + c) ≤ ((o.boundingBox).getD c (0, 0)).2 := by
  obtain ⟨res, h1, -, -, h4⟩ := Obj.evaluate1_grid_nonrational hb hs hr tol us
    (Obj.not_outOfDomain1 hb hv1 htol hus)
  refine ⟨res, h1, ?_⟩
  intro i1 c hi1 hc
  have hu := hus _ (getD_mem_of_lt us hi1 0)
  obtain ⟨hnc, hdim⟩ := Obj.dimension_of_shape (o := o) (pre := [b1.numFunctions]) hs
  rw [hr] at hdim
  simp only [Bool.false_eq_true, if_false, Nat.sub_zero] at hdim
  have hsize : o.cps.size / o.ncomp = b1.numFunctions := by
    rw [hnc]
    have := (size_of_shape_append o.cps (pre := [b1.numFunctions]) hs (by omega)).1
    simpa [prod] using this
  have hbb : ∀ j1, j1 < b1.numFunctions →
      ((o.boundingBox).getD c (0, 0)).1 ≤ o.cps.get (j1 * nc + c) ∧
      o.cps.get (j1 * nc + c) ≤ ((o.boundingBox).getD c (0, 0)).2 := by
    intro j1 hj1
    have := boundingBox_spec o (c := c) (pI := j1) (by rw [hdim]; exact hc)
      (by rw [hsize]; exact hj1)
    rw [hnc] at this
    exact this
  rw [h4 i1 c hi1 hc]
  constructor
  · exact le_convex_sum _ _ _ _
      (fun j _ => Basis.rowVal_nonneg hv1 htol hu j) (Basis.rowVal_sum hv1 htol hu)
      (fun j1 a => (hbb j1 a).1)
  · exact convex_sum_le _ _ _ _
      (fun j _ => Basis.rowVal_nonneg hv1 htol hu j) (Basis.rowVal_sum hv1 htol hu)
      (fun j1 a => (hbb j1 a).2)

end Splipy
