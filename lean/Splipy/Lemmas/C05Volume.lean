import Splipy.Lemmas.C05SurfaceObj

/-!
# C05 — `raise_order_implicit` on volumes (three parametric directions)

Same structure as `C05Surface.lean` / `C05SurfaceObj.lean`: the six-step `tensordot` chain under the
projection property of every direction (`chain3_proj`), hence the model's result is the control
net re-netted in directions 0, 1, 2.
-/

namespace Splipy

set_option linter.unusedSectionVars false

variable {K : Type} [Field K] [LinearOrder K] [IsStrictOrderedRing K] [FloorRing K]

open Finset C06

theorem bases_of_wf3 {o : Obj K} (hw : C06.WF o 3) : o.bases = #[o.basis 0, o.basis 1, o.basis 2] := by
  have h := hw.size
  apply Array.ext
  · simp [h]
  · intro i h1 h2
    have hi : i < 3 := by rw [← h]; exact h1
    interval_cases i <;> simp [Obj.basis, Array.getD, h]

theorem shape_of_wf3 {o : Obj K} (hw : C06.WF o 3) :
    o.cps.shape = [(o.basis 0).numFunctions, (o.basis 1).numFunctions, (o.basis 2).numFunctions, o.ncomp] := by
  rw [hw.shape]; simp [C06.midx, List.ofFn_succ]

theorem prod4 (a b c d : ℕ) : Tensor.prod [a, b, c, d] = a * b * c * d := by simp [Tensor.prod]

/-- Entries of the three times re-netted control array. -/
theorem renet3_entries (t : Tensor K) {A B D C : ℕ} (hs : t.shape = [A, B, D, C]) (Eu Ev Ew : ℕ → ℕ → K)
    (nu nv nw : ℕ) :
    (Tensor.applyAxis (matOfE Ew D nw) (Tensor.applyAxis (matOfE Ev B nv)
      (Tensor.applyAxis (matOfE Eu A nu) t 0) 1) 2).shape = [nu, nv, nw, C] ∧
    (Tensor.applyAxis (matOfE Ew D nw) (Tensor.applyAxis (matOfE Ev B nv)
      (Tensor.applyAxis (matOfE Eu A nu) t 0) 1) 2).data.size = nu * nv * nw * C ∧
    ∀ k0, k0 < nu → ∀ k1, k1 < nv → ∀ k2, k2 < nw → ∀ i, i < C →
      (Tensor.applyAxis (matOfE Ew D nw) (Tensor.applyAxis (matOfE Ev B nv)
        (Tensor.applyAxis (matOfE Eu A nu) t 0) 1) 2).entry4 nv nw C k0 k1 k2 i
        = ∑ a0 ∈ range A, (∑ a1 ∈ range B, (∑ j ∈ range D, t.entry4 B D C a0 a1 j i * Ew j k2) * Ev a1 k1)
            * Eu a0 k0 := by
  obtain ⟨sX, eX⟩ := Tensor.applyAxis4_0 (matOfE Eu A nu) t hs
  rw [matOfE_size] at sX eX
  obtain ⟨sY, eY⟩ := Tensor.applyAxis4_1 (matOfE Ev B nv) _ sX
  rw [matOfE_size] at sY eY
  obtain ⟨sZ, eZ⟩ := Tensor.applyAxis4_2 (matOfE Ew D nw) _ sY
  rw [matOfE_size] at sZ eZ
  refine ⟨sZ, ?_, fun k0 hk0 k1 hk1 k2 hk2 i hi => ?_⟩
  · have := applyAxis_wf (matOfE Ew D nw) (Tensor.applyAxis (matOfE Ev B nv)
      (Tensor.applyAxis (matOfE Eu A nu) t 0) 1) 2 (by rw [sY]; simp)
    unfold Tensor.WF at this
    rw [this, sZ, prod4]
  · rw [eZ k0 hk0 k1 hk1 k2 hk2 i hi]
    have hY : ∀ j, j < D → (Tensor.applyAxis (matOfE Ev B nv) (Tensor.applyAxis (matOfE Eu A nu) t 0) 1).entry4
        nv D C k0 k1 j i = ∑ a1 ∈ range B, Ev a1 k1 * ∑ a0 ∈ range A, Eu a0 k0 * t.entry4 B D C a0 a1 j i := by
      intro j hj
      rw [eY k0 hk0 k1 hk1 j hj i hi]
      apply sum_congr rfl
      intro a1 ha1
      rw [matOfE_get Ev B nv k1 a1 hk1 (mem_range.mp ha1), eX k0 hk0 a1 (mem_range.mp ha1) j hj i hi]
      congr 1
      apply sum_congr rfl
      intro a0 ha0
      rw [matOfE_get Eu A nu k0 a0 hk0 (mem_range.mp ha0)]
    refine (sum_congr rfl (fun j hj => by
      rw [matOfE_get Ew D nw k2 j hk2 (mem_range.mp hj), hY j (mem_range.mp hj)])).trans ?_
    -- Σ_j Ew j k2 * Σ_a1 Ev a1 k1 * Σ_a0 Eu a0 k0 * t = Σ_a0 (Σ_a1 (Σ_j t * Ew) * Ev) * Eu
    calc ∑ j ∈ range D, Ew j k2 * ∑ a1 ∈ range B, Ev a1 k1 * ∑ a0 ∈ range A, Eu a0 k0 * t.entry4 B D C a0 a1 j i
        = ∑ j ∈ range D, ∑ a1 ∈ range B, ∑ a0 ∈ range A,
            t.entry4 B D C a0 a1 j i * Ew j k2 * Ev a1 k1 * Eu a0 k0 := by
          apply sum_congr rfl; intro j _; rw [mul_sum]
          apply sum_congr rfl; intro a1 _; rw [mul_sum, mul_sum]
          apply sum_congr rfl; intro a0 _; ring
      _ = ∑ a0 ∈ range A, ∑ a1 ∈ range B, ∑ j ∈ range D,
            t.entry4 B D C a0 a1 j i * Ew j k2 * Ev a1 k1 * Eu a0 k0 := by
          rw [sum_comm]
          rw [sum_congr rfl (fun a1 _ => sum_comm)]
          rw [sum_comm]
      _ = _ := by
          apply sum_congr rfl; intro a0 _; rw [sum_mul]
          apply sum_congr rfl; intro a1 _; rw [sum_mul, sum_mul]

/-- **Greville re-interpolation of a volume net.** -/
theorem reinterpolate_pardim3 (o : Obj K) (tol : K) (bu bv bw bu' bv' bw' : Basis K) (pu pv pw : Array K)
    (A B D C : ℕ) (Niu Niv Niw : Mat K) (hb : o.bases = #[bu, bv, bw]) (hs : o.cps.shape = [A, B, D, C])
    (hgu : bu'.greville = .ok pu) (hgv : bv'.greville = .ok pv) (hgw : bw'.greville = .ok pw)
    (Hu : Mat.invChecked (Obj.basisMat bu' tol pu.toList 0 true) = .ok Niu)
    (Hv : Mat.invChecked (Obj.basisMat bv' tol pv.toList 0 true) = .ok Niv)
    (Hw : Mat.invChecked (Obj.basisMat bw' tol pw.toList 0 true) = .ok Niw)
    (Eu Ev Ew : ℕ → ℕ → K) (hEu : RowsVia tol bu bu' A Eu) (hEv : RowsVia tol bv bv' B Ev)
    (hEw : RowsVia tol bw bw' D Ew) :
    ∃ T, o.reinterpolate tol [bu', bv', bw'] = .ok T ∧ T.shape = [pu.size, pv.size, pw.size, C] ∧
      T.data.size = pu.size * (pv.size * pw.size) * C ∧
      ∀ k0, k0 < pu.size → ∀ k1, k1 < pv.size → ∀ k2, k2 < pw.size → ∀ i, i < C →
        T.entry4 pv.size pw.size C k0 k1 k2 i
          = ∑ a0 ∈ range A, (∑ a1 ∈ range B, (∑ j ∈ range D, o.cps.entry4 B D C a0 a1 j i * Ew j k2) * Ev a1 k1)
              * Eu a0 k0 := by
  have hpd : o.pardim = 3 := by simp [Obj.pardim, hs]
  obtain ⟨su, sou, pju⟩ := proj_of_rowsVia tol bu bu' A Eu pu Niu hgu Hu hEu
  obtain ⟨sv, sov, pjv⟩ := proj_of_rowsVia tol bv bv' B Ev pv Niv hgv Hv hEv
  obtain ⟨sw, sow, pjw⟩ := proj_of_rowsVia tol bw bw' D Ew pw Niw hgw Hw hEw
  set Nou := Obj.basisMat bu tol pu.toList 0 true with hNou
  set Nov := Obj.basisMat bv tol pv.toList 0 true with hNov
  set Now := Obj.basisMat bw tol pw.toList 0 true with hNow
  have hr : o.reinterpolate tol [bu', bv', bw'] = .ok
      (Tensor.tensordotFront Niu (Tensor.tensordotFront Niv (Tensor.tensordotFront Niw
        (Tensor.tensordotFront Nou (Tensor.tensordotFront Nov (Tensor.tensordotFront Now o.cps 3) 3) 3) 3) 3) 3) := by
    unfold Obj.reinterpolate
    simp only [Obj.grevilles, hgu, hgv, hgw, hb, hpd]
    simp only [List.zip_cons_cons, List.zip_nil_right, List.map_cons, List.map_nil, List.reverse_cons,
      List.reverse_nil, List.nil_append, List.cons_append, List.foldl_cons, List.foldl_nil, Obj.solveChain]
    rw [Hw]
    simp only [Hv, Hu]
    rfl
  obtain ⟨c1, c2, c3⟩ := chain3_proj o.cps hs Nou Nov Now Niu Niv Niw Eu Ev Ew
    (by rw [sou, su]; exact pju) (by rw [sov, sv]; exact pjv) (by rw [sow, sw]; exact pjw)
  rw [su, sv, sw] at c1 c2 c3
  exact ⟨_, hr, c1, c2, c3⟩

/-- **`raise_order_implicit` on a volume = re-netting the three directions.** -/
theorem raiseImplicit_volume_eq (o : Obj K) (tol : K) (hw : C06.WF o 3) (au av aw : ℕ) (bu' bv' bw' : Basis K)
    (hru : (o.basis 0).raiseOrder tol au = .ok bu') (hrv : (o.basis 1).raiseOrder tol av = .ok bv')
    (hrw : (o.basis 2).raiseOrder tol aw = .ok bw')
    (pu pv pw : Array K) (hgu : bu'.greville = .ok pu) (hgv : bv'.greville = .ok pv)
    (hgw : bw'.greville = .ok pw) (Niu Niv Niw : Mat K)
    (Hu : Mat.invChecked (Obj.basisMat bu' tol pu.toList 0 true) = .ok Niu)
    (Hv : Mat.invChecked (Obj.basisMat bv' tol pv.toList 0 true) = .ok Niv)
    (Hw : Mat.invChecked (Obj.basisMat bw' tol pw.toList 0 true) = .ok Niw)
    (Eu Ev Ew : ℕ → ℕ → K) (hEu : RowsVia tol (o.basis 0) bu' (o.basis 0).numFunctions Eu)
    (hEv : RowsVia tol (o.basis 1) bv' (o.basis 1).numFunctions Ev)
    (hEw : RowsVia tol (o.basis 2) bw' (o.basis 2).numFunctions Ew) :
    o.raiseOrderImplicit tol [au, av, aw] = .ok (renet (renet (renet o 0 bu' Eu) 1 bv' Ev) 2 bw' Ew) := by
  have hb := bases_of_wf3 hw
  have hs := shape_of_wf3 hw
  obtain ⟨T, hT, hTs, hTd, hTe⟩ := reinterpolate_pardim3 o tol (o.basis 0) (o.basis 1) (o.basis 2) bu' bv' bw'
    pu pv pw _ _ _ _ Niu Niv Niw hb hs hgu hgv hgw Hu Hv Hw Eu Ev Ew hEu hEv hEw
  have hPu := greville_size bu' pu hgu
  have hPv := greville_size bv' pv hgv
  have hPw := greville_size bw' pw hgw
  have himp : o.raiseOrderImplicit tol [au, av, aw]
      = .ok { o with bases := [bu', bv', bw'].toArray, cps := T } := by
    unfold Obj.raiseOrderImplicit
    rw [hb]
    simp only [Obj.raiseBases, hru, hrv, hrw]
    rw [hT]
  rw [himp]
  congr 1
  have hbases : ((o.bases.set! 0 bu').set! 1 bv').set! 2 bw' = [bu', bv', bw'].toArray := by
    rw [hb]; simp [Array.set!]
  have hb1 := C04.basis_set_ne o 0 1 (by decide) bu'
    (Tensor.applyAxis (matOfE Eu (o.basis 0).numFunctions bu'.numFunctions) o.cps 0)
  have hb2a := C04.basis_set_ne o 0 2 (by decide) bu'
    (Tensor.applyAxis (matOfE Eu (o.basis 0).numFunctions bu'.numFunctions) o.cps 0)
  have hren : renet (renet (renet o 0 bu' Eu) 1 bv' Ev) 2 bw' Ew
      = { bases := [bu', bv', bw'].toArray,
          cps := Tensor.applyAxis (matOfE Ew (o.basis 2).numFunctions bw'.numFunctions)
            (Tensor.applyAxis (matOfE Ev (o.basis 1).numFunctions bv'.numFunctions)
              (Tensor.applyAxis (matOfE Eu (o.basis 0).numFunctions bu'.numFunctions) o.cps 0) 1) 2,
          rational := o.rational } := by
    have hb2 : (renet (renet o 0 bu' Eu) 1 bv' Ev).basis 2 = o.basis 2 := by
      have := C04.basis_set_ne (renet o 0 bu' Eu) 1 2 (by decide) bv'
        (Tensor.applyAxis (matOfE Ev ((renet o 0 bu' Eu).basis 1).numFunctions bv'.numFunctions)
          (renet o 0 bu' Eu).cps 1)
      exact this.trans hb2a
    have hb1' : (renet o 0 bu' Eu).basis 1 = o.basis 1 := hb1
    show ({ (renet (renet o 0 bu' Eu) 1 bv' Ev) with
        bases := (renet (renet o 0 bu' Eu) 1 bv' Ev).bases.set! 2 bw',
        cps := Tensor.applyAxis (matOfE Ew ((renet (renet o 0 bu' Eu) 1 bv' Ev).basis 2).numFunctions bw'.numFunctions)
          (renet (renet o 0 bu' Eu) 1 bv' Ev).cps 2 } : Obj K) = _
    rw [hb2]
    show ({ bases := ((renet o 0 bu' Eu).bases.set! 1 bv').set! 2 bw',
            cps := Tensor.applyAxis (matOfE Ew (o.basis 2).numFunctions bw'.numFunctions)
              (Tensor.applyAxis (matOfE Ev ((renet o 0 bu' Eu).basis 1).numFunctions bv'.numFunctions)
                (renet o 0 bu' Eu).cps 1) 2,
            rational := o.rational } : Obj K) = _
    rw [hb1']
    show ({ bases := ((o.bases.set! 0 bu').set! 1 bv').set! 2 bw', cps := _, rational := o.rational } : Obj K) = _
    rw [hbases]
    rfl
  rw [hren]
  congr 1
  obtain ⟨sR, dR, eR⟩ := renet3_entries o.cps hs Eu Ev Ew bu'.numFunctions bv'.numFunctions bw'.numFunctions
  rw [hPu, hPv, hPw] at hTs hTd hTe
  have hTd' : T.data.size = bu'.numFunctions * bv'.numFunctions * bw'.numFunctions * o.ncomp := by
    rw [hTd]; ring
  exact Interp.tensor_ext4 _ T sR hTs dR hTd' (fun k0 hk0 k1 hk1 k2 hk2 i hi => by
    rw [eR k0 hk0 k1 hk1 k2 hk2 i hi]; exact hTe k0 hk0 k1 hk1 k2 hk2 i hi)

/-- **Volumes.**  If the three directions are `DirOK`, `raise_order_implicit(a_u, a_v, a_w)` succeeds,
    the result is well formed with the new bases, same rationality / components, same evaluated map. -/
theorem raiseImplicit_volume (o : Obj K) (tol : K) (hw : C06.WF o 3) (au av aw : ℕ) (bu' bv' bw' : Basis K)
    (Eu Ev Ew : ℕ → ℕ → K) (hu : DirOK tol (o.basis 0) au bu' Eu) (hv : DirOK tol (o.basis 1) av bv' Ev)
    (hw2 : DirOK tol (o.basis 2) aw bw' Ew) :
    ∃ o', o.raiseOrderImplicit tol [au, av, aw] = .ok o' ∧ C06.WF o' 3 ∧ o'.basis 0 = bu' ∧ o'.basis 1 = bv'
      ∧ o'.basis 2 = bw' ∧ C12.SameMap 3 o o' ∧ o'.ncomp = o.ncomp ∧ o'.rational = o.rational
      ∧ (∀ k0, k0 < bu'.numFunctions → ∀ k1, k1 < bv'.numFunctions → ∀ k2, k2 < bw'.numFunctions →
          ∀ i, i < o.ncomp →
          o'.cps.entry4 bv'.numFunctions bw'.numFunctions o.ncomp k0 k1 k2 i
            = ∑ a0 ∈ range (o.basis 0).numFunctions, (∑ a1 ∈ range (o.basis 1).numFunctions,
                (∑ j ∈ range (o.basis 2).numFunctions,
                  o.cps.entry4 (o.basis 1).numFunctions (o.basis 2).numFunctions o.ncomp a0 a1 j i * Ew j k2)
                  * Ev a1 k1) * Eu a0 k0) := by
  obtain ⟨pu, Niu, hgu, Hu⟩ := hu.hsw
  obtain ⟨pv, Niv, hgv, Hv⟩ := hv.hsw
  obtain ⟨pw, Niw, hgw, Hw⟩ := hw2.hsw
  have heq := raiseImplicit_volume_eq o tol hw au av aw bu' bv' bw' hu.raise hv.raise hw2.raise pu pv pw
    hgu hgv hgw Niu Niv Niw Hu Hv Hw Eu Ev Ew hu.rows hv.rows hw2.rows
  obtain ⟨s1, w1, b1d, b1k, n1, r1⟩ := renet_dirOK hw (0 : Fin 3) tol au bu' Eu hu
  have hb11 : (renet o 0 bu' Eu).basis 1 = o.basis 1 := b1k (1 : Fin 3) (by decide)
  have hb12 : (renet o 0 bu' Eu).basis 2 = o.basis 2 := b1k (2 : Fin 3) (by decide)
  have hv' : DirOK tol ((renet o 0 bu' Eu).basis ((1 : Fin 3) : ℕ)) av bv' Ev := by
    show DirOK tol ((renet o 0 bu' Eu).basis 1) av bv' Ev
    rw [hb11]; exact hv
  obtain ⟨s2, w2, b2d, b2k, n2, r2⟩ := renet_dirOK w1 (1 : Fin 3) tol av bv' Ev hv'
  have hb22 : (renet (renet o 0 bu' Eu) 1 bv' Ev).basis 2 = o.basis 2 :=
    (b2k (2 : Fin 3) (by decide)).trans hb12
  have hw' : DirOK tol ((renet (renet o 0 bu' Eu) 1 bv' Ev).basis ((2 : Fin 3) : ℕ)) aw bw' Ew := by
    show DirOK tol ((renet (renet o 0 bu' Eu) 1 bv' Ev).basis 2) aw bw' Ew
    rw [hb22]; exact hw2
  obtain ⟨s3, w3, b3d, b3k, n3, r3⟩ := renet_dirOK w2 (2 : Fin 3) tol aw bw' Ew hw'
  refine ⟨_, heq, w3, ?_, ?_, b3d, (s1.trans s2).trans s3, (n3.trans n2).trans n1, (r3.trans r2).trans r1, ?_⟩
  · exact ((b3k (0 : Fin 3) (by decide)).trans (b2k (0 : Fin 3) (by decide))).trans b1d
  · exact (b3k (1 : Fin 3) (by decide)).trans b2d
  · intro k0 hk0 k1 hk1 k2 hk2 i hi
    have hs := shape_of_wf3 hw
    obtain ⟨_, _, eR⟩ := renet3_entries o.cps hs Eu Ev Ew bu'.numFunctions bv'.numFunctions bw'.numFunctions
    rw [← eR k0 hk0 k1 hk1 k2 hk2 i hi]
    show (Tensor.applyAxis (matOfE Ew ((renet (renet o 0 bu' Eu) 1 bv' Ev).basis 2).numFunctions bw'.numFunctions)
      (Tensor.applyAxis (matOfE Ev ((renet o 0 bu' Eu).basis 1).numFunctions bv'.numFunctions)
        (Tensor.applyAxis (matOfE Eu (o.basis 0).numFunctions bu'.numFunctions) o.cps 0) 1) 2).entry4 _ _ _ _ _ _ _ = _
    rw [hb22, hb11]

/-- `reinterpolate` of a volume net with the projection property of each direction given directly
    (used by `lower_order`). -/
theorem reinterpolate_pardim3_proj (o : Obj K) (tol : K) (bu bv bw bu' bv' bw' : Basis K) (pu pv pw : Array K)
    (A B D C : ℕ) (Niu Niv Niw : Mat K) (hb : o.bases = #[bu, bv, bw]) (hs : o.cps.shape = [A, B, D, C])
    (hgu : bu'.greville = .ok pu) (hgv : bv'.greville = .ok pv) (hgw : bw'.greville = .ok pw)
    (Hu : Mat.invChecked (Obj.basisMat bu' tol pu.toList 0 true) = .ok Niu)
    (Hv : Mat.invChecked (Obj.basisMat bv' tol pv.toList 0 true) = .ok Niv)
    (Hw : Mat.invChecked (Obj.basisMat bw' tol pw.toList 0 true) = .ok Niw)
    (Eu Ev Ew : ℕ → ℕ → K)
    (pju : Proj Niu (Obj.basisMat bu tol pu.toList 0 true) pu.size A pu.size Eu)
    (pjv : Proj Niv (Obj.basisMat bv tol pv.toList 0 true) pv.size B pv.size Ev)
    (pjw : Proj Niw (Obj.basisMat bw tol pw.toList 0 true) pw.size D pw.size Ew) :
    ∃ T, o.reinterpolate tol [bu', bv', bw'] = .ok T ∧ T.shape = [pu.size, pv.size, pw.size, C] ∧
      ∀ k0, k0 < pu.size → ∀ k1, k1 < pv.size → ∀ k2, k2 < pw.size → ∀ i, i < C →
        T.entry4 pv.size pw.size C k0 k1 k2 i
          = ∑ a0 ∈ range A, (∑ a1 ∈ range B, (∑ j ∈ range D, o.cps.entry4 B D C a0 a1 j i * Ew j k2) * Ev a1 k1)
              * Eu a0 k0 := by
  have hpd : o.pardim = 3 := by simp [Obj.pardim, hs]
  obtain ⟨su, _⟩ := Mat.invChecked_spec _ Niu Hu
  obtain ⟨sv, _⟩ := Mat.invChecked_spec _ Niv Hv
  obtain ⟨sw, _⟩ := Mat.invChecked_spec _ Niw Hw
  have r1 : (Obj.basisMat bu' tol pu.toList 0 true).nrows = pu.size := by simp [Mat.nrows, basisMat_size]
  have r2 : (Obj.basisMat bv' tol pv.toList 0 true).nrows = pv.size := by simp [Mat.nrows, basisMat_size]
  have r3 : (Obj.basisMat bw' tol pw.toList 0 true).nrows = pw.size := by simp [Mat.nrows, basisMat_size]
  rw [r1] at su
  rw [r2] at sv
  rw [r3] at sw
  set Nou := Obj.basisMat bu tol pu.toList 0 true with hNou
  set Nov := Obj.basisMat bv tol pv.toList 0 true with hNov
  set Now := Obj.basisMat bw tol pw.toList 0 true with hNow
  have sou : Nou.size = pu.size := by simp [hNou, basisMat_size]
  have sov : Nov.size = pv.size := by simp [hNov, basisMat_size]
  have sow : Now.size = pw.size := by simp [hNow, basisMat_size]
  have hr : o.reinterpolate tol [bu', bv', bw'] = .ok
      (Tensor.tensordotFront Niu (Tensor.tensordotFront Niv (Tensor.tensordotFront Niw
        (Tensor.tensordotFront Nou (Tensor.tensordotFront Nov (Tensor.tensordotFront Now o.cps 3) 3) 3) 3) 3) 3) := by
    unfold Obj.reinterpolate
    simp only [Obj.grevilles, hgu, hgv, hgw, hb, hpd]
    simp only [List.zip_cons_cons, List.zip_nil_right, List.map_cons, List.map_nil, List.reverse_cons,
      List.reverse_nil, List.nil_append, List.cons_append, List.foldl_cons, List.foldl_nil, Obj.solveChain]
    rw [Hw]
    simp only [Hv, Hu]
    rfl
  obtain ⟨c1, _, c3⟩ := chain3_proj o.cps hs Nou Nov Now Niu Niv Niw Eu Ev Ew
    (by rw [sou, su]; exact pju) (by rw [sov, sv]; exact pjv) (by rw [sow, sw]; exact pjw)
  rw [su, sv, sw] at c1 c3
  exact ⟨_, hr, c1, c3⟩

/-- `reinterpolate` of a volume net with the projection property of each direction given directly
    (used by `lower_order`). -/
theorem reinterpolate_pardim3_proj' (o : Obj K) (tol : K) (bu bv bw bu' bv' bw' : Basis K) (pu pv pw : Array K)
    (A B D C : ℕ) (Niu Niv Niw : Mat K) (hb : o.bases = #[bu, bv, bw]) (hs : o.cps.shape = [A, B, D, C])
    (hgu : bu'.greville = .ok pu) (hgv : bv'.greville = .ok pv) (hgw : bw'.greville = .ok pw)
    (Hu : Mat.invChecked (Obj.basisMat bu' tol pu.toList 0 true) = .ok Niu)
    (Hv : Mat.invChecked (Obj.basisMat bv' tol pv.toList 0 true) = .ok Niv)
    (Hw : Mat.invChecked (Obj.basisMat bw' tol pw.toList 0 true) = .ok Niw)
    (Eu Ev Ew : ℕ → ℕ → K)
    (pju : Proj Niu (Obj.basisMat bu tol pu.toList 0 true) pu.size A pu.size Eu)
    (pjv : Proj Niv (Obj.basisMat bv tol pv.toList 0 true) pv.size B pv.size Ev)
    (pjw : Proj Niw (Obj.basisMat bw tol pw.toList 0 true) pw.size D pw.size Ew) :
    ∃ T, o.reinterpolate tol [bu', bv', bw'] = .ok T ∧ T.shape = [pu.size, pv.size, pw.size, C] ∧
      T.data.size = pu.size * (pv.size * pw.size) * C ∧
      ∀ k0, k0 < pu.size → ∀ k1, k1 < pv.size → ∀ k2, k2 < pw.size → ∀ i, i < C →
        T.entry4 pv.size pw.size C k0 k1 k2 i
          = ∑ a0 ∈ range A, (∑ a1 ∈ range B, (∑ j ∈ range D, o.cps.entry4 B D C a0 a1 j i * Ew j k2) * Ev a1 k1)
              * Eu a0 k0 := by
  have hpd : o.pardim = 3 := by simp [Obj.pardim, hs]
  obtain ⟨su, _⟩ := Mat.invChecked_spec _ Niu Hu
  obtain ⟨sv, _⟩ := Mat.invChecked_spec _ Niv Hv
  obtain ⟨sw, _⟩ := Mat.invChecked_spec _ Niw Hw
  have r1 : (Obj.basisMat bu' tol pu.toList 0 true).nrows = pu.size := by simp [Mat.nrows, basisMat_size]
  have r2 : (Obj.basisMat bv' tol pv.toList 0 true).nrows = pv.size := by simp [Mat.nrows, basisMat_size]
  have r3 : (Obj.basisMat bw' tol pw.toList 0 true).nrows = pw.size := by simp [Mat.nrows, basisMat_size]
  rw [r1] at su
  rw [r2] at sv
  rw [r3] at sw
  set Nou := Obj.basisMat bu tol pu.toList 0 true with hNou
  set Nov := Obj.basisMat bv tol pv.toList 0 true with hNov
  set Now := Obj.basisMat bw tol pw.toList 0 true with hNow
  have sou : Nou.size = pu.size := by simp [hNou, basisMat_size]
  have sov : Nov.size = pv.size := by simp [hNov, basisMat_size]
  have sow : Now.size = pw.size := by simp [hNow, basisMat_size]
  have hr : o.reinterpolate tol [bu', bv', bw'] = .ok
      (Tensor.tensordotFront Niu (Tensor.tensordotFront Niv (Tensor.tensordotFront Niw
        (Tensor.tensordotFront Nou (Tensor.tensordotFront Nov (Tensor.tensordotFront Now o.cps 3) 3) 3) 3) 3) 3) := by
    unfold Obj.reinterpolate
    simp only [Obj.grevilles, hgu, hgv, hgw, hb, hpd]
    simp only [List.zip_cons_cons, List.zip_nil_right, List.map_cons, List.map_nil, List.reverse_cons,
      List.reverse_nil, List.nil_append, List.cons_append, List.foldl_cons, List.foldl_nil, Obj.solveChain]
    rw [Hw]
    simp only [Hv, Hu]
    rfl
  obtain ⟨c1, c2, c3⟩ := chain3_proj o.cps hs Nou Nov Now Niu Niv Niw Eu Ev Ew
    (by rw [sou, su]; exact pju) (by rw [sov, sv]; exact pjv) (by rw [sow, sw]; exact pjw)
  rw [su, sv, sw] at c1 c2 c3
  exact ⟨_, hr, c1, c2, c3⟩


/-- The same with the projection property of each direction given directly (`Proj`). -/
theorem raiseImplicit_volume_eq_proj (o : Obj K) (tol : K) (hw : C06.WF o 3) (au av aw : ℕ) (bu' bv' bw' : Basis K)
    (hru : (o.basis 0).raiseOrder tol au = .ok bu') (hrv : (o.basis 1).raiseOrder tol av = .ok bv')
    (hrw : (o.basis 2).raiseOrder tol aw = .ok bw')
    (pu pv pw : Array K) (hgu : bu'.greville = .ok pu) (hgv : bv'.greville = .ok pv)
    (hgw : bw'.greville = .ok pw) (Niu Niv Niw : Mat K)
    (Hu : Mat.invChecked (Obj.basisMat bu' tol pu.toList 0 true) = .ok Niu)
    (Hv : Mat.invChecked (Obj.basisMat bv' tol pv.toList 0 true) = .ok Niv)
    (Hw : Mat.invChecked (Obj.basisMat bw' tol pw.toList 0 true) = .ok Niw)
    (Eu Ev Ew : ℕ → ℕ → K)
    (pju : Proj Niu (Obj.basisMat (o.basis 0) tol pu.toList 0 true) pu.size (o.basis 0).numFunctions pu.size Eu)
    (pjv : Proj Niv (Obj.basisMat (o.basis 1) tol pv.toList 0 true) pv.size (o.basis 1).numFunctions pv.size Ev)
    (pjw : Proj Niw (Obj.basisMat (o.basis 2) tol pw.toList 0 true) pw.size (o.basis 2).numFunctions pw.size Ew) :
    o.raiseOrderImplicit tol [au, av, aw] = .ok (renet (renet (renet o 0 bu' Eu) 1 bv' Ev) 2 bw' Ew) := by
  have hb := bases_of_wf3 hw
  have hs := shape_of_wf3 hw
  obtain ⟨T, hT, hTs, hTd, hTe⟩ := reinterpolate_pardim3_proj' o tol (o.basis 0) (o.basis 1) (o.basis 2) bu' bv' bw'
    pu pv pw _ _ _ _ Niu Niv Niw hb hs hgu hgv hgw Hu Hv Hw Eu Ev Ew pju pjv pjw
  have hPu := greville_size bu' pu hgu
  have hPv := greville_size bv' pv hgv
  have hPw := greville_size bw' pw hgw
  have himp : o.raiseOrderImplicit tol [au, av, aw]
      = .ok { o with bases := [bu', bv', bw'].toArray, cps := T } := by
    unfold Obj.raiseOrderImplicit
    rw [hb]
    simp only [Obj.raiseBases, hru, hrv, hrw]
    rw [hT]
  rw [himp]
  congr 1
  have hbases : ((o.bases.set! 0 bu').set! 1 bv').set! 2 bw' = [bu', bv', bw'].toArray := by
    rw [hb]; simp [Array.set!]
  have hb1 := C04.basis_set_ne o 0 1 (by decide) bu'
    (Tensor.applyAxis (matOfE Eu (o.basis 0).numFunctions bu'.numFunctions) o.cps 0)
  have hb2a := C04.basis_set_ne o 0 2 (by decide) bu'
    (Tensor.applyAxis (matOfE Eu (o.basis 0).numFunctions bu'.numFunctions) o.cps 0)
  have hren : renet (renet (renet o 0 bu' Eu) 1 bv' Ev) 2 bw' Ew
      = { bases := [bu', bv', bw'].toArray,
          cps := Tensor.applyAxis (matOfE Ew (o.basis 2).numFunctions bw'.numFunctions)
            (Tensor.applyAxis (matOfE Ev (o.basis 1).numFunctions bv'.numFunctions)
              (Tensor.applyAxis (matOfE Eu (o.basis 0).numFunctions bu'.numFunctions) o.cps 0) 1) 2,
          rational := o.rational } := by
    have hb2 : (renet (renet o 0 bu' Eu) 1 bv' Ev).basis 2 = o.basis 2 := by
      have := C04.basis_set_ne (renet o 0 bu' Eu) 1 2 (by decide) bv'
        (Tensor.applyAxis (matOfE Ev ((renet o 0 bu' Eu).basis 1).numFunctions bv'.numFunctions)
          (renet o 0 bu' Eu).cps 1)
      exact this.trans hb2a
    have hb1' : (renet o 0 bu' Eu).basis 1 = o.basis 1 := hb1
    show ({ (renet (renet o 0 bu' Eu) 1 bv' Ev) with
        bases := (renet (renet o 0 bu' Eu) 1 bv' Ev).bases.set! 2 bw',
        cps := Tensor.applyAxis (matOfE Ew ((renet (renet o 0 bu' Eu) 1 bv' Ev).basis 2).numFunctions bw'.numFunctions)
          (renet (renet o 0 bu' Eu) 1 bv' Ev).cps 2 } : Obj K) = _
    rw [hb2]
    show ({ bases := ((renet o 0 bu' Eu).bases.set! 1 bv').set! 2 bw',
            cps := Tensor.applyAxis (matOfE Ew (o.basis 2).numFunctions bw'.numFunctions)
              (Tensor.applyAxis (matOfE Ev ((renet o 0 bu' Eu).basis 1).numFunctions bv'.numFunctions)
                (renet o 0 bu' Eu).cps 1) 2,
            rational := o.rational } : Obj K) = _
    rw [hb1']
    show ({ bases := ((o.bases.set! 0 bu').set! 1 bv').set! 2 bw', cps := _, rational := o.rational } : Obj K) = _
    rw [hbases]
    rfl
  rw [hren]
  congr 1
  obtain ⟨sR, dR, eR⟩ := renet3_entries o.cps hs Eu Ev Ew bu'.numFunctions bv'.numFunctions bw'.numFunctions
  rw [hPu, hPv, hPw] at hTs hTd hTe
  have hTd' : T.data.size = bu'.numFunctions * bv'.numFunctions * bw'.numFunctions * o.ncomp := by
    rw [hTd]; ring
  exact Interp.tensor_ext4 _ T sR hTs dR hTd' (fun k0 hk0 k1 hk1 k2 hk2 i hi => by
    rw [eR k0 hk0 k1 hk1 k2 hk2 i hi]; exact hTe k0 hk0 k1 hk1 k2 hk2 i hi)


end Splipy
