import Splipy.Lemmas.BridgeOps
import Splipy.Lemmas.C07Piece

/-!
# Bridge (p11), part 6: the pieces built by `split` (`Basis.piece`, `Tensor.sliceAxis`)
-/

namespace Splipy
namespace Bridge

set_option linter.unusedSectionVars false

open Finset C04

variable {K : Type} [Field K] [LinearOrder K] [IsStrictOrderedRing K] [FloorRing K]

/-- The object `split` builds for the control points `lo .. hi-1` of direction `dir`
(`splitPieces`: `BSplineBasis(p, knots[lo : hi+p])`, `cps[lo:hi]`). -/
def pieceObj (so : Obj K) (dir lo hi : ℕ) : Obj K :=
  { bases := so.bases.set! dir ((so.basis dir).piece lo hi),
    cps := so.cps.sliceAxis dir lo hi, rational := so.rational }

omit [FloorRing K] in
theorem fibre_slice (t : Tensor K) (dir lo hi : ℕ) (hax : dir < t.shape.length) (a r i : ℕ)
    (ha : a < (Tensor.split3 t.shape dir).1) (hr : r < hi - lo)
    (hi' : i < (Tensor.split3 t.shape dir).2.2) :
    (t.sliceAxis dir lo hi).at3 dir a r i = t.at3 dir a (lo + r) i := by
  unfold Tensor.sliceAxis Tensor.reindexAxis
  rw [C04.at3_build3 t.shape dir _ _ hax a r i ha hr hi']

omit [IsStrictOrderedRing K] [FloorRing K] in
theorem sliceAxis_shape (t : Tensor K) (dir lo hi : ℕ) :
    (t.sliceAxis dir lo hi).shape = t.shape.set dir (hi - lo) := rfl

omit [FloorRing K] in
/-- Exactness is inherited by a knot slice. -/
theorem exactAt_piece {b : Basis K} (lo hi : ℕ) (h2 : hi + b.order ≤ b.knots.size) {tol u : K}
    (h : b.ExactAt tol u) : (b.piece lo hi).ExactAt tol u := by
  intro j hj
  rw [b.piece_size lo hi h2] at hj
  rw [b.piece_kn lo hi j h2 (by omega)]
  exact h (lo + j) (by omega)

/-- `pieceObj` along a valid non-periodic direction: `SameAlong` at the parameters of the piece's
domain `[kn (lo+p-1), kn hi)`, and at `kn hi` if that is the end of the whole domain. -/
theorem piece_along (so : Obj K) (dir : ℕ) (hax : dir < so.cps.shape.length)
    (hv : (so.basis dir).Valid) (hper : (so.basis dir).periodic = -1)
    (lo hi : ℕ)
    (h1 : lo + (so.basis dir).order ≤ hi) (h2 : hi ≤ (so.basis dir).numFunctions)
    (hlt : (so.basis dir).kn (lo + (so.basis dir).order - 1) < (so.basis dir).kn hi) :
    ((so.basis dir).piece lo hi).Valid ∧ ((so.basis dir).piece lo hi).periodic = -1 ∧
      ((so.basis dir).piece lo hi).numFunctions = hi - lo ∧
      ((so.basis dir).piece lo hi).start = (so.basis dir).kn (lo + (so.basis dir).order - 1) ∧
      ((so.basis dir).piece lo hi).stop = (so.basis dir).kn hi ∧
      (∀ tol u, (so.basis dir).ExactAt tol u → ((so.basis dir).piece lo hi).ExactAt tol u) ∧
      (pieceObj so dir lo hi).cps.shape = so.cps.shape.set dir (hi - lo) ∧
      ∀ u, (so.basis dir).kn (lo + (so.basis dir).order - 1) ≤ u →
        (u < (so.basis dir).kn hi ∨
          (u = (so.basis dir).kn hi ∧ (so.basis dir).kn hi = (so.basis dir).stop)) →
        SameAlong so (pieceObj so dir lo hi) dir (so.basis dir).numFunctions
          ((so.basis dir).piece lo hi).numFunctions ((so.basis dir).specRow u)
          (((so.basis dir).piece lo hi).specRow u) := by
  set b := so.basis dir with hbdef
  have hp := hv.order_pos
  have hnAll : b.nAll = b.numFunctions := by rw [C06.valid_nAll_eq hv, hper]; rfl
  have hsz : hi + b.order ≤ b.knots.size := by
    have := hv.nAll_add; rw [hnAll] at this; omega
  have hlo : lo ≤ hi := by omega
  have hnum := b.piece_numFunctions lo hi hsz hlo
  have hst := b.piece_start lo hi hp hsz hlo
  have hsp := b.piece_stop lo hi hp hsz hlo
  refine ⟨Basis.piece_valid hv lo hi h1 hsz hlt, rfl, hnum, hst, hsp,
    fun tol u h => exactAt_piece lo hi hsz h, sliceAxis_shape _ _ _ _, ?_⟩
  intro u hu1 hu2 a i ha hi'
  have hperp : (b.piece lo hi).periodic = -1 := rfl
  rw [hnum, specRow_sum hperp, specRow_sum hper]
  have hf : ∀ j, j < hi - lo →
      fibre (pieceObj so dir lo hi) dir a i j = (fun j => fibre so dir a i (lo + j)) j := by
    intro j hj
    unfold fibre
    exact fibre_slice so.cps dir lo hi hax a j i ha hj hi'
  rw [C04.splineVal_congr _ _ _ _ _ _ _ hf, b.piece_order]
  have hstop_le : b.kn hi ≤ b.stop := by
    rw [Basis.stop_eq, hnAll]; exact hv.kn_mono h2
  have hside : effSide (b.piece lo hi) u true = effSide b u true := by
    unfold effSide
    rw [hsp]
    rcases hu2 with h | ⟨h, h'⟩
    · rw [if_neg (ne_of_lt h), if_neg (ne_of_lt (lt_of_lt_of_le h hstop_le))]
    · rw [if_pos h, if_pos (h.trans h')]
  have hmem : (effSide (b.piece lo hi) u true).mem (b.kn (lo + b.order - 1)) (b.kn hi) u := by
    unfold effSide
    rw [hsp]
    rcases hu2 with h | ⟨h, _⟩
    · rw [if_neg (ne_of_lt h)]
      exact ⟨hu1, h⟩
    · rw [if_pos h]
      exact ⟨by rw [h]; exact hlt, le_of_eq h⟩
  rw [Basis.piece_splineVal hv lo hi b.numFunctions (fibre so dir a i) hlo hsz h2 _ u hmem, hside]

end Bridge
end Splipy
