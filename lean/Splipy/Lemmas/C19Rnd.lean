import Mathlib.Order.Monotone.Basic
import Splipy.Lemmas.C19G2

/-! The writer with abstract number formatting `rnd`: it writes the rounded object. -/

namespace Splipy.FileIO

variable {K : Type}

theorem flattenF_map {P Q : Type} [Inhabited P] [Inhabited Q] (f : P → Q) (hf : f default = default)
    (shape : List ℕ) (net : List P) :
    flattenF shape (net.map f) = (flattenF shape net).map f := by
  unfold flattenF
  rw [List.map_map]
  apply List.map_congr_left
  intro k _
  simp only [Function.comp]
  rw [← hf, List.getD_map]

theorem basisToksR_eq (rnd : K → K) (b : IOBasis K) :
    basisToksR rnd b = basisToks { b with knots := b.knots.map rnd } := by
  simp [basisToksR, basisToks, List.map_map, Function.comp_def]

theorem rowToksR_eq (rnd : K → K) (row : List K) : rowToksR rnd row = rowToks (row.map rnd) := by
  simp [rowToksR, rowToks, List.map_map, Function.comp_def]

/-- Printing with the formatting `rnd` is printing the rounded object exactly. -/
theorem g2WriteR_eq (rnd : K → K) (o : Obj K) : g2WriteR rnd o = g2Write (o.mapNum rnd) := by
  have h1 : o.bases.flatMap (basisToksR rnd) =
      (o.bases.map fun b => { b with knots := b.knots.map rnd }).flatMap basisToks := by
    rw [List.flatMap_map]
    apply List.flatMap_congr
    intro b _
    exact basisToksR_eq rnd b
  have h2 : (flattenF o.shape o.cps).flatMap (rowToksR rnd) =
      (flattenF o.shape (o.cps.map (List.map rnd))).flatMap rowToks := by
    rw [flattenF_map (List.map rnd) rfl, List.flatMap_map]
    apply List.flatMap_congr
    intro r _
    exact rowToksR_eq rnd r
  simp only [g2WriteR, g2Write, Obj.mapNum, Obj.pardim, List.length_map, h1, h2]

theorem mapNum_idem (rnd : K → K) (hr : ∀ x, rnd (rnd x) = rnd x) (o : Obj K) :
    (o.mapNum rnd).mapNum rnd = o.mapNum rnd := by
  cases o with
  | mk bases shape ncomp cps rational =>
    simp only [Obj.mapNum, List.map_map]
    congr 1
    · apply List.map_congr_left
      intro b _
      simp [List.map_map, Function.comp_def, hr]
    · apply List.map_congr_left
      intro p _
      simp [List.map_map, Function.comp_def, hr]

section
variable [Field K] [LinearOrder K]

theorem knotsOk_map_of_sorted [IsStrictOrderedRing K] (tol : K) (htol : 0 ≤ tol) (rnd : K → K)
    (hm : Monotone rnd) : ∀ (l : List K), l.Pairwise (· ≤ ·) → knotsOk tol (l.map rnd) = true
  | [], _ => rfl
  | [_], _ => rfl
  | a :: b :: rest, h => by
    have hab : a ≤ b := (List.pairwise_cons.mp h).1 b (by simp)
    have ih := knotsOk_map_of_sorted tol htol rnd hm (b :: rest) (List.pairwise_cons.mp h).2
    simp only [List.map_cons, knotsOk, Bool.and_eq_true, Bool.not_eq_true', decide_eq_false_iff_not,
      not_lt] at ih ⊢
    refine ⟨?_, ih⟩
    have := hm hab
    linarith

/-- A well-formed object with exactly non-decreasing knot vectors stays well formed under a
    monotone rounding. -/
theorem WF_mapNum [IsStrictOrderedRing K] (tol : K) (htol : 0 ≤ tol) (rnd : K → K) (hm : Monotone rnd)
    (o : Obj K) (ho : o.WF tol) (hs : ∀ b ∈ o.bases, b.knots.Pairwise (· ≤ ·)) :
    (o.mapNum rnd).WF tol where
  pardim := by simpa [Obj.mapNum] using ho.pardim
  bases := by
    intro b hb
    simp only [Obj.mapNum, List.mem_map] at hb
    obtain ⟨b0, hb0, rfl⟩ := hb
    have h0 := ho.bases b0 hb0
    exact ⟨h0.order_pos, by simpa using h0.enough,
      knotsOk_map_of_sorted tol htol rnd hm _ (hs b0 hb0), h0.nonperiodic⟩
  shape := by
    simp only [Obj.mapNum, List.map_map, ho.shape]
    apply List.map_congr_left
    intro b _
    simp [IOBasis.numFunctions]
  count := by simpa [Obj.mapNum] using ho.count
  comps := by
    intro p hp
    simp only [Obj.mapNum, List.mem_map] at hp
    obtain ⟨p0, hp0, rfl⟩ := hp
    simpa [Obj.mapNum] using ho.comps p0 hp0
  ncomp_pos := ho.ncomp_pos

end

end Splipy.FileIO
