import Splipy.Lemmas.C15SixD

/-!
# Six-face `edge_surfaces`: the ruled volumes and the corner volume as maps
-/

set_option linter.unusedSectionVars false

namespace Splipy
namespace C15

open C06 C12 Obj Basis Finset

variable {K : Type} [Field K] [LinearOrder K] [IsStrictOrderedRing K] [FloorRing K]

/-- A surface of the family at one of its four corners is the corner control point. -/
theorem surface_corner_eval {tol : K} (htol : 0 < tol) {s : Obj K} {pa pb : ℕ} {Ua Ub : List K} {Ma Mb : List ℕ}
    {rat : Bool} {nc : ℕ} (h : UnitSurf s pa pb Ua Ub Ma Mb rat nc) (ka : UnitKnots tol pa Ua Ma)
    (kb : UnitKnots tol pb Ub Mb) (comp : ℕ) (b c : Bool) :
    (toTP s 2 comp).eval ![sideOf b, sideOf c] ![endOf b, endOf c]
      = s.cps.get ((endIdx (s.basis 0).numFunctions b * (s.basis 1).numFunctions
          + endIdx (s.basis 1).numFunctions c) * s.ncomp + comp) := by
  have p0 : (s.basis 0).periodic = -1 := by rw [h.b0]; rfl
  have p1 : (s.basis 1).periodic = -1 := by rw [h.b1]; rfl
  have n0pos : 1 ≤ (s.basis 0).numFunctions := valid_numFunctions_pos (h.wf.valid 0)
  have n1pos : 1 ≤ (s.basis 1).numFunctions := valid_numFunctions_pos (h.wf.valid 1)
  rw [surface_eval_v_at h.wf p0 p1 comp _ _ (endIdx _ c) (endIdx_lt n1pos c)
    (by intro j _; simp only [Matrix.cons_val_one]; rw [h.b1]; exact unit_delta htol kb c j)]
  rw [Finset.sum_eq_single (endIdx (s.basis 0).numFunctions b)]
  · simp only [Matrix.cons_val_zero]
    rw [h.b0, unit_delta htol ka b, if_pos rfl, mul_one]
  · intro i _ hi
    simp only [Matrix.cons_val_zero]
    rw [h.b0, unit_delta htol ka b, if_neg (by rw [← h.b0]; exact hi), mul_zero]
  · intro hh; exact absurd (mem_range.mpr (endIdx_lt n0pos b)) hh

/-- `vol1` (after its two swaps) as a map: linear blend in `u` of the two `u`-faces. -/
theorem vol1_eval (r1 r2 : Obj K) (hw1 : C06.WF r1 2) (hw2 : C06.WF r2 2)
    (hp0 : (r1.basis 0).periodic = -1) (hp1 : (r1.basis 1).periodic = -1)
    (hb0 : r2.basis 0 = r1.basis 0) (hb1 : r2.basis 1 = r1.basis 1) (hsh : r2.cps.shape = r1.cps.shape)
    (comp : ℕ) (hc : comp < r1.ncomp) (sd : Fin 3 → Side) (u : Fin 3 → K) :
    (toTP (((ruledObj r1 r2).swap 0 2).swap 1 2) 3 comp).eval sd u
      = bt (sd 0) false (u 0) * (toTP r1 2 comp).eval ![sd 1, sd 2] ![u 1, u 2]
        + bt (sd 0) true (u 0) * (toTP r2 2 comp).eval ![sd 1, sd 2] ![u 1, u 2] := by
  obtain ⟨w0, n0⟩ := ruledObj_wf3 r1 r2 hw1 hsh
  obtain ⟨w1, n1⟩ := wf_swap w0 (0 : Fin 3) 2
  have e1 := swap_eval_gen w1 (1 : Fin 3) 2 comp (by rw [n1, n0]; exact hc) sd u
  have e2 := swap_eval_gen w0 (0 : Fin 3) 2 comp (by rw [n0]; exact hc)
    (fun d => sd (Equiv.swap (1 : Fin 3) 2 d)) (fun d => u (Equiv.swap (1 : Fin 3) 2 d))
  have e3 := ruledObj_eval3 r1 r2 hw1 hw2 hp0 hp1 hb0 hb1 hsh comp hc
    (fun d => sd (Equiv.swap (1 : Fin 3) 2 (Equiv.swap (0 : Fin 3) 2 d)))
    (fun d => u (Equiv.swap (1 : Fin 3) 2 (Equiv.swap (0 : Fin 3) 2 d)))
  simp only [swap02_0, swap02_1, swap02_2, swap12_0, swap12_1, swap12_2] at e3
  exact e1.trans (e2.trans e3)

/-- `vol2` (after `swap(1,2)`) as a map: linear blend in `v` of the two `v`-faces. -/
theorem vol2_eval (r1 r2 : Obj K) (hw1 : C06.WF r1 2) (hw2 : C06.WF r2 2)
    (hp0 : (r1.basis 0).periodic = -1) (hp1 : (r1.basis 1).periodic = -1)
    (hb0 : r2.basis 0 = r1.basis 0) (hb1 : r2.basis 1 = r1.basis 1) (hsh : r2.cps.shape = r1.cps.shape)
    (comp : ℕ) (hc : comp < r1.ncomp) (sd : Fin 3 → Side) (u : Fin 3 → K) :
    (toTP ((ruledObj r1 r2).swap 1 2) 3 comp).eval sd u
      = bt (sd 1) false (u 1) * (toTP r1 2 comp).eval ![sd 0, sd 2] ![u 0, u 2]
        + bt (sd 1) true (u 1) * (toTP r2 2 comp).eval ![sd 0, sd 2] ![u 0, u 2] := by
  obtain ⟨w0, n0⟩ := ruledObj_wf3 r1 r2 hw1 hsh
  have e1 := swap_eval_gen w0 (1 : Fin 3) 2 comp (by rw [n0]; exact hc) sd u
  have e3 := ruledObj_eval3 r1 r2 hw1 hw2 hp0 hp1 hb0 hb1 hsh comp hc
    (fun d => sd (Equiv.swap (1 : Fin 3) 2 d)) (fun d => u (Equiv.swap (1 : Fin 3) 2 d))
  simp only [swap12_0, swap12_1, swap12_2] at e3
  exact e1.trans e3

/-- `vol3` as a map: linear blend in `w` of the two `w`-faces. -/
theorem vol3_eval (r1 r2 : Obj K) (hw1 : C06.WF r1 2) (hw2 : C06.WF r2 2)
    (hp0 : (r1.basis 0).periodic = -1) (hp1 : (r1.basis 1).periodic = -1)
    (hb0 : r2.basis 0 = r1.basis 0) (hb1 : r2.basis 1 = r1.basis 1) (hsh : r2.cps.shape = r1.cps.shape)
    (comp : ℕ) (hc : comp < r1.ncomp) (sd : Fin 3 → Side) (u : Fin 3 → K) :
    (toTP (ruledObj r1 r2) 3 comp).eval sd u
      = bt (sd 2) false (u 2) * (toTP r1 2 comp).eval ![sd 0, sd 1] ![u 0, u 1]
        + bt (sd 2) true (u 2) * (toTP r2 2 comp).eval ![sd 0, sd 1] ![u 0, u 1] :=
  ruledObj_eval3 r1 r2 hw1 hw2 hp0 hp1 hb0 hb1 hsh comp hc sd u

/-- Entries of the corner volume in terms of the two ruled surfaces' corner control points. -/
theorem cornerVol_entry {nc : ℕ} (r1 r2 : Obj K) (hw1 : C06.WF r1 2) (hn1 : r1.ncomp = nc)
    (hsh : r2.cps.shape = r1.cps.shape)
    (cs : Tensor K) (hcs : (ruledObj r1 r2).corners true = .ok cs) (s4 : Obj K)
    (hs4 : Obj.fromCorners 3 (cornerRows cs nc) false = .ok s4) (comp : ℕ) (hc : comp < nc)
    (j0 j1 j2 : ℕ) (h0 : j0 < 2) (h1 : j1 < 2) (h2 : j2 < 2) :
    s4.bases = #[linearBasis, linearBasis, linearBasis] ∧ s4.cps.shape = [2, 2, 2, nc]
      ∧ s4.cps.get (((j0 * 2 + j1) * 2 + j2) * nc + comp)
        = (if j0 = 0 then r1 else r2).cps.get ((endIdx (r1.basis 0).numFunctions (j2 = 1) * (r1.basis 1).numFunctions
            + endIdx (r1.basis 1).numFunctions (j1 = 1)) * nc + comp) := by
  obtain ⟨w1pre, n1pre⟩ := ruledObj_wf3 r1 r2 hw1 hsh
  have hnc1 : (ruledObj r1 r2).ncomp = nc := n1pre.trans hn1
  obtain ⟨cs', hcs', csz, cval⟩ := corners_F w1pre
  rw [hcs] at hcs'
  injection hcs' with hcs'
  subst hcs'
  rw [hnc1] at csz cval
  have hrows_len : (cornerRows cs nc).length = 8 := by simp [cornerRows]
  have hrows_sz : ∀ r ∈ cornerRows cs nc, r.size = nc := by
    intro r hr
    obtain ⟨i, hi, rfl⟩ := List.mem_map.1 hr
    have hi' := List.mem_range.1 hi
    rw [Array.size_extract, csz]
    have : (i + 1) * nc ≤ 8 * nc := Nat.mul_le_mul_right _ hi'
    have e : (i + 1) * nc = i * nc + nc := by ring
    omega
  obtain ⟨s4', hs4', b4, sh4, _, ent⟩ := fromCorners3_ok (cornerRows cs nc) nc hrows_len hrows_sz false
  rw [hs4] at hs4'
  injection hs4' with hs4'
  subst hs4'
  refine ⟨b4, sh4, ?_⟩
  rw [ent j0 j1 j2 comp h0 h1 h2 hc]
  have hr : j0 + 2 * j1 + 4 * j2 < 8 := by omega
  have hrow : (cornerRows cs nc).getD (j0 + 2 * j1 + 4 * j2) #[]
      = cs.data.extract ((j0 + 2 * j1 + 4 * j2) * nc) ((j0 + 2 * j1 + 4 * j2) * nc + nc) := by
    unfold cornerRows
    simp [List.getD_eq_getElem?_getD, List.getElem?_map, List.getElem?_range, hr]
  rw [hrow, (extract_row cs.data nc _ comp (by
    rw [csz]; exact Nat.mul_le_mul_right _ (by omega)) hc).2, cval _ comp hr hc]
  obtain ⟨e0, e1, e2⟩ := ruledObj_basis3 r1 r2 hw1.size
  rw [e0, e1, e2, linearBasis_numFunctions]
  unfold cornerIdx
  have hs1 := surface_shape hw1
  have hs2 : r2.cps.shape = [(r1.basis 0).numFunctions, (r1.basis 1).numFunctions, r1.ncomp] := hsh.trans hs1
  have n0pos : 1 ≤ (r1.basis 0).numFunctions := valid_numFunctions_pos (hw1.valid 0)
  have n1pos : 1 ≤ (r1.basis 1).numFunctions := valid_numFunctions_pos (hw1.valid 1)
  have q2 : (j0 + 2 * j1 + 4 * j2) / 4 % 2 = j2 := by omega
  have q1 : (j0 + 2 * j1 + 4 * j2) / 2 % 2 = j1 := by omega
  have q0 : (j0 + 2 * j1 + 4 * j2) % 2 = j0 := by omega
  rw [q2, q1, q0]
  have hend : endIdx 2 (j0 = 1) = j0 := by
    unfold endIdx; interval_cases j0 <;> simp
  rw [hend]
  have g := stack2_get3 r1.cps r2.cps _ _ _ hs1 hs2 (endIdx (r1.basis 0).numFunctions (j2 = 1))
    (endIdx (r1.basis 1).numFunctions (j1 = 1)) j0 comp (endIdx_lt n0pos _) (endIdx_lt n1pos _) h0
    (by rw [hn1]; exact hc)
  rw [hn1] at g
  show (Obj.stack2 r1.cps r2.cps).get _ = _
  rw [g]
  split_ifs <;> rfl

set_option maxHeartbeats 400000 in
/-- **The corner volume as a map**: trilinear between the eight corner values of the two `u`-faces. -/
theorem cornerVol_eval {tol : K} (htol : 0 < tol) {pa pb : ℕ} {Ua Ub : List K} {Ma Mb : List ℕ} {nc : ℕ}
    (ka : UnitKnots tol pa Ua Ma) (kb : UnitKnots tol pb Ub Mb) (r1 r2 : Obj K)
    (R1 : UnitSurf r1 pa pb Ua Ub Ma Mb false nc) (R2 : UnitSurf r2 pa pb Ua Ub Ma Mb false nc)
    (cs : Tensor K) (hcs : (ruledObj r1 r2).corners true = .ok cs) (s4 : Obj K)
    (hs4 : Obj.fromCorners 3 (cornerRows cs nc) false = .ok s4) (comp : ℕ) (hc : comp < nc)
    (sd : Fin 3 → Side) (u : Fin 3 → K) :
    (toTP (s4.swap 1 2) 3 comp).eval sd u
      = sum2 (fun a => sum2 (fun b => sum2 (fun c => bt (sd 0) a (u 0) * bt (sd 1) b (u 1) * bt (sd 2) c (u 2)
          * (toTP (if a then r2 else r1) 2 comp).eval ![sideOf b, sideOf c] ![endOf b, endOf c]))) := by
  have hsh : r2.cps.shape = r1.cps.shape := by rw [R1.shape, R2.shape]
  obtain ⟨b4, sh4, _⟩ := cornerVol_entry r1 r2 R1.wf R1.ncomp hsh cs hcs s4 hs4 comp hc 0 0 0 (by norm_num)
    (by norm_num) (by norm_num)
  obtain ⟨w4, n4, hbd⟩ := linVol_wf s4 nc b4 sh4
  have ent := fun j0 j1 j2 h0 h1 h2 =>
    (cornerVol_entry r1 r2 R1.wf R1.ncomp hsh cs hcs s4 hs4 comp hc j0 j1 j2 h0 h1 h2).2.2
  have hper : ∀ d : Fin 3, (s4.basis d).periodic = -1 := fun d => by rw [hbd d]; rfl
  have es : (toTP (s4.swap 1 2) 3 comp).eval sd u = (toTP s4 3 comp).eval
      (fun d => sd (Equiv.swap (1 : Fin 3) 2 d)) (fun d => u (Equiv.swap (1 : Fin 3) 2 d)) :=
    swap_eval_gen w4 (1 : Fin 3) 2 comp (by rw [n4]; exact hc) sd u
  have hb0' : s4.basis 0 = linearBasis := hbd 0
  have hb1' : s4.basis 1 = linearBasis := hbd 1
  have hb2' : s4.basis 2 = linearBasis := hbd 2
  rw [es, toTP_eval_volume w4 hper, hb0', hb1', hb2', linearBasis_numFunctions, n4]
  simp only [swap12_0, swap12_1, swap12_2]
  have c1 := fun b c => surface_corner_eval htol R1 ka kb comp b c
  have c2 := fun b c => surface_corner_eval htol R2 ka kb comp b c
  rw [R1.ncomp] at c1
  rw [R2.ncomp, R2.b0, R2.b1, ← R1.b0, ← R1.b1] at c2
  simp only [sum2, Bool.false_eq_true, if_false, if_true]
  rw [c1 false false, c1 false true, c1 true false, c1 true true, c2 false false, c2 false true, c2 true false,
    c2 true true]
  simp only [Finset.sum_range_succ, Finset.sum_range_zero, zero_add]
  rw [ent 0 0 0 (by norm_num) (by norm_num) (by norm_num), ent 0 0 1 (by norm_num) (by norm_num) (by norm_num),
    ent 0 1 0 (by norm_num) (by norm_num) (by norm_num), ent 0 1 1 (by norm_num) (by norm_num) (by norm_num),
    ent 1 0 0 (by norm_num) (by norm_num) (by norm_num), ent 1 0 1 (by norm_num) (by norm_num) (by norm_num),
    ent 1 1 0 (by norm_num) (by norm_num) (by norm_num), ent 1 1 1 (by norm_num) (by norm_num) (by norm_num)]
  unfold bt beta
  simp only [zero_ne_one, one_ne_zero, if_false, if_true, Bool.false_eq_true, decide_false, decide_true]
  show _ * (B (sd 0) (linearBasis : Basis K).kn 1 0 (u 0) * B (sd 2) (linearBasis : Basis K).kn 1 0 (u 2)
          * B (sd 1) (linearBasis : Basis K).kn 1 0 (u 1))
      + _ * (B (sd 0) (linearBasis : Basis K).kn 1 0 (u 0) * B (sd 2) (linearBasis : Basis K).kn 1 0 (u 2)
          * B (sd 1) (linearBasis : Basis K).kn 1 1 (u 1))
      + (_ * (B (sd 0) (linearBasis : Basis K).kn 1 0 (u 0) * B (sd 2) (linearBasis : Basis K).kn 1 1 (u 2)
          * B (sd 1) (linearBasis : Basis K).kn 1 0 (u 1))
      + _ * (B (sd 0) (linearBasis : Basis K).kn 1 0 (u 0) * B (sd 2) (linearBasis : Basis K).kn 1 1 (u 2)
          * B (sd 1) (linearBasis : Basis K).kn 1 1 (u 1)))
      + (_ * (B (sd 0) (linearBasis : Basis K).kn 1 1 (u 0) * B (sd 2) (linearBasis : Basis K).kn 1 0 (u 2)
          * B (sd 1) (linearBasis : Basis K).kn 1 0 (u 1))
      + _ * (B (sd 0) (linearBasis : Basis K).kn 1 1 (u 0) * B (sd 2) (linearBasis : Basis K).kn 1 0 (u 2)
          * B (sd 1) (linearBasis : Basis K).kn 1 1 (u 1))
      + (_ * (B (sd 0) (linearBasis : Basis K).kn 1 1 (u 0) * B (sd 2) (linearBasis : Basis K).kn 1 1 (u 2)
          * B (sd 1) (linearBasis : Basis K).kn 1 0 (u 1))
      + _ * (B (sd 0) (linearBasis : Basis K).kn 1 1 (u 0) * B (sd 2) (linearBasis : Basis K).kn 1 1 (u 2)
          * B (sd 1) (linearBasis : Basis K).kn 1 1 (u 1)))) = _
  ring

end C15
end Splipy
