import Splipy.Lemmas.C05LinAlg
import Splipy.Lemmas.TensorEval
import Splipy.Lemmas.C14Tensor

/-!
# C05 — index algebra of the `np.tensordot` chain of `raise_order_implicit` / `lower_order`

`tensordotFront M t d` contracts the last parametric axis of `t` and puts the new axis first.
Entry formula for any shape, the composite of the `2·d` steps for surfaces (`d = 2`) and volumes
(`d = 3`), and the projection argument applied direction by direction.
-/

namespace Splipy

set_option linter.unusedSectionVars false

variable {K : Type} [Field K] [LinearOrder K]

open Finset

/-- Entry formula of `np.tensordot(M, t, axes=(1, d-1))` for any shape: with `o`, `n`, `inn` the
    sizes before / of / after axis `d-1`, flat entry `(r·o + a)·inn + i` of the result is
    `Σ_j M[r][j] · t[(a·n + j)·inn + i]`. -/
theorem tensordotFront_get (M : Mat K) (t : Tensor K) (d : ℕ) (r a i : ℕ) (hr : r < M.size)
    (ha : a < Tensor.prod (t.shape.take (d - 1))) (hi : i < Tensor.prod (t.shape.drop (d - 1 + 1))) :
    (Tensor.tensordotFront M t d).get
        ((r * Tensor.prod (t.shape.take (d - 1)) + a) * Tensor.prod (t.shape.drop (d - 1 + 1)) + i)
      = ∑ j ∈ range (t.shape.getD (d - 1) 1),
          M.get r j * t.get ((a * t.shape.getD (d - 1) 1 + j) * Tensor.prod (t.shape.drop (d - 1 + 1)) + i) := by
  unfold Tensor.tensordotFront Tensor.get
  simp only
  set o := Tensor.prod (t.shape.take (d - 1)) with ho
  set inn := Tensor.prod (t.shape.drop (d - 1 + 1)) with hinn
  have hlt : (r * o + a) * inn + i < M.size * o * inn := Tensor.flat_lt hr ha hi
  rw [Array.getD_eq_getD_getElem?, Array.getElem?_ofFn, dif_pos hlt, Option.getD_some]
  simp only
  rw [Mat.dot_eq_sum, Tensor.flat_mod hi, Tensor.flat_div hi]
  have h1 : (r * o + a) % o = a := by
    rw [Nat.add_comm, Nat.add_mul_mod_self_right, Nat.mod_eq_of_lt ha]
  have h2 : (r * o + a) / o = r := by
    have hpos : 0 < o := by omega
    rw [Nat.add_comm, Nat.add_mul_div_right _ _ hpos, Nat.div_eq_of_lt ha, Nat.zero_add]
  rw [h1, h2]

theorem tensordotFront_shape (M : Mat K) (t : Tensor K) (d : ℕ) :
    (Tensor.tensordotFront M t d).shape = M.size :: t.shape.eraseIdx (d - 1) := rfl

/-! ## Surfaces: shape `[A, B, C]`, `d = 2` -/

theorem tdf2_shape (M : Mat K) (t : Tensor K) {A B C : ℕ} (hs : t.shape = [A, B, C]) :
    (Tensor.tensordotFront M t 2).shape = [M.size, A, C] := by
  rw [tensordotFront_shape, hs]; rfl

/-- One step on an `A × B × C` array: `R[r, a, i] = Σ_j M[r][j] · t[a, j, i]`. -/
theorem tdf2_get (M : Mat K) (t : Tensor K) {A B C : ℕ} (hs : t.shape = [A, B, C]) (r a i : ℕ)
    (hr : r < M.size) (ha : a < A) (hi : i < C) :
    (Tensor.tensordotFront M t 2).get ((r * A + a) * C + i)
      = ∑ j ∈ range B, M.get r j * t.get ((a * B + j) * C + i) := by
  have h1 : Tensor.prod (t.shape.take (2 - 1)) = A := by rw [hs]; simp [Tensor.prod]
  have h2 : Tensor.prod (t.shape.drop (2 - 1 + 1)) = C := by rw [hs]; simp [Tensor.prod]
  have h3 : t.shape.getD (2 - 1) 1 = B := by rw [hs]; simp
  have := tensordotFront_get M t 2 r a i hr (by rw [h1]; exact ha) (by rw [h2]; exact hi)
  rw [h1, h2, h3] at this
  exact this

/-! ## The projection property of one direction -/

/-- `Ni · (Nold · f) = f · E` for every fibre `f`: what the pair "contract with `N_old`, later with
    `inv(N_new)`" does to a control-net fibre of one direction. -/
def Proj (Ni Nold : Mat K) (m n n' : ℕ) (E : ℕ → ℕ → K) : Prop :=
  ∀ f : ℕ → K, ∀ k, k < n' →
    ∑ l ∈ range m, Ni.get k l * ∑ j ∈ range n, Nold.get l j * f j = ∑ j ∈ range n, f j * E j k

/-- The projection argument: a certified left inverse of `N_new` and the collocation identity
    `N_new · (f · E) = N_old · f` at the interpolation points give `Proj`. -/
theorem proj_of_leftInv (Ni Nnew Nold : Mat K) (m n : ℕ) (E : ℕ → ℕ → K)
    (hinv : ∀ i, i < m → ∀ j, j < m → ∑ l ∈ range m, Ni.get i l * Nnew.get l j = if i = j then 1 else 0)
    (hE : ∀ f : ℕ → K, ∀ l, l < m →
      ∑ k ∈ range m, Nnew.get l k * (∑ j ∈ range n, f j * E j k) = ∑ j ∈ range n, Nold.get l j * f j) :
    Proj Ni Nold m n m E := by
  intro f k hk
  rw [sum_congr rfl (fun l hl => by rw [← hE f l (mem_range.mp hl)])]
  exact leftInv_apply m (fun a b => Ni.get a b) (fun a b => Nnew.get a b) hinv
    (fun k => ∑ j ∈ range n, f j * E j k) k hk

/-- Unchanged direction: `N_old = N_new = N` with a certified inverse acts as the identity. -/
theorem proj_id (Ni N : Mat K) (m : ℕ)
    (hinv : ∀ i, i < m → ∀ j, j < m → ∑ l ∈ range m, Ni.get i l * N.get l j = if i = j then 1 else 0) :
    Proj Ni N m m m (fun j k => if j = k then 1 else 0) := by
  apply proj_of_leftInv Ni N N m m _ hinv
  intro f l _
  apply sum_congr rfl
  intro k hk
  congr 1
  simp [Finset.sum_ite_eq', mem_range.mp hk]

/-! ## Surfaces: the four-step chain -/

theorem chain2 (t : Tensor K) {A B C : ℕ} (hs : t.shape = [A, B, C]) (Nou Nov Niu Niv : Mat K) :
    (Tensor.tensordotFront Niu (Tensor.tensordotFront Niv
        (Tensor.tensordotFront Nou (Tensor.tensordotFront Nov t 2) 2) 2) 2).shape = [Niu.size, Niv.size, C] ∧
    ∀ k0, k0 < Niu.size → ∀ k1, k1 < Niv.size → ∀ i, i < C →
      (Tensor.tensordotFront Niu (Tensor.tensordotFront Niv
        (Tensor.tensordotFront Nou (Tensor.tensordotFront Nov t 2) 2) 2) 2).get ((k0 * Niv.size + k1) * C + i)
      = ∑ l0 ∈ range Nou.size, Niu.get k0 l0 * ∑ l1 ∈ range Nov.size, Niv.get k1 l1 *
          ∑ a ∈ range A, Nou.get l0 a * ∑ j ∈ range B, Nov.get l1 j * t.get ((a * B + j) * C + i) := by
  set R1 := Tensor.tensordotFront Nov t 2 with hR1
  have s1 : R1.shape = [Nov.size, A, C] := tdf2_shape Nov t hs
  set R2 := Tensor.tensordotFront Nou R1 2 with hR2
  have s2 : R2.shape = [Nou.size, Nov.size, C] := tdf2_shape Nou R1 s1
  set R3 := Tensor.tensordotFront Niv R2 2 with hR3
  have s3 : R3.shape = [Niv.size, Nou.size, C] := tdf2_shape Niv R2 s2
  refine ⟨tdf2_shape Niu R3 s3, fun k0 hk0 k1 hk1 i hi => ?_⟩
  rw [tdf2_get Niu R3 s3 k0 k1 i hk0 hk1 hi]
  apply sum_congr rfl
  intro l0 hl0
  rw [tdf2_get Niv R2 s2 k1 l0 i hk1 (mem_range.mp hl0) hi]
  congr 1
  apply sum_congr rfl
  intro l1 hl1
  rw [tdf2_get Nou R1 s1 l0 l1 i (mem_range.mp hl0) (mem_range.mp hl1) hi]
  congr 1
  apply sum_congr rfl
  intro a ha
  rw [tdf2_get Nov t hs l1 a i (mem_range.mp hl1) (mem_range.mp ha) hi]

/-- The chain of a surface under the projection property of both directions:
    `R[k0, k1, i] = Σ_a Σ_j t[a, j, i] · E_v[j, k1] · E_u[a, k0]`. -/
theorem chain2_proj (t : Tensor K) {A B C : ℕ} (hs : t.shape = [A, B, C]) (Nou Nov Niu Niv : Mat K)
    (Eu Ev : ℕ → ℕ → K)
    (hu : Proj Niu Nou Nou.size A Niu.size Eu) (hv : Proj Niv Nov Nov.size B Niv.size Ev)
    (k0 k1 i : ℕ) (hk0 : k0 < Niu.size) (hk1 : k1 < Niv.size) (hi : i < C) :
    (Tensor.tensordotFront Niu (Tensor.tensordotFront Niv
        (Tensor.tensordotFront Nou (Tensor.tensordotFront Nov t 2) 2) 2) 2).get ((k0 * Niv.size + k1) * C + i)
      = ∑ a ∈ range A, (∑ j ∈ range B, t.get ((a * B + j) * C + i) * Ev j k1) * Eu a k0 := by
  rw [(chain2 t hs Nou Nov Niu Niv).2 k0 hk0 k1 hk1 i hi]
  have hinner : ∀ l0, ∑ l1 ∈ range Nov.size, Niv.get k1 l1 *
        ∑ a ∈ range A, Nou.get l0 a * ∑ j ∈ range B, Nov.get l1 j * t.get ((a * B + j) * C + i)
      = ∑ a ∈ range A, Nou.get l0 a * (∑ j ∈ range B, t.get ((a * B + j) * C + i) * Ev j k1) := by
    intro l0
    calc _ = ∑ l1 ∈ range Nov.size, ∑ a ∈ range A, Nou.get l0 a *
              (Niv.get k1 l1 * ∑ j ∈ range B, Nov.get l1 j * t.get ((a * B + j) * C + i)) := by
            apply sum_congr rfl; intro l1 _; rw [mul_sum]
            apply sum_congr rfl; intro a _; ring
      _ = ∑ a ∈ range A, Nou.get l0 a * ∑ l1 ∈ range Nov.size,
              Niv.get k1 l1 * ∑ j ∈ range B, Nov.get l1 j * t.get ((a * B + j) * C + i) := by
            rw [sum_comm]; apply sum_congr rfl; intro a _; rw [mul_sum]
      _ = _ := by
            apply sum_congr rfl; intro a _
            rw [hv (fun j => t.get ((a * B + j) * C + i)) k1 hk1]
  rw [sum_congr rfl (fun l0 _ => by rw [hinner l0])]
  exact hu (fun a => ∑ j ∈ range B, t.get ((a * B + j) * C + i) * Ev j k1) k0 hk0

/-! ## Volumes: shape `[A, B, D, C]`, `d = 3` -/

theorem sum_pull (m A : ℕ) (x : ℕ → K) (c : ℕ → K) (F : ℕ → ℕ → K) :
    ∑ r ∈ range m, x r * ∑ a ∈ range A, c a * F a r = ∑ a ∈ range A, c a * ∑ r ∈ range m, x r * F a r := by
  calc _ = ∑ r ∈ range m, ∑ a ∈ range A, c a * (x r * F a r) := by
        apply sum_congr rfl; intro r _; rw [mul_sum]; apply sum_congr rfl; intro a _; ring
    _ = _ := by rw [sum_comm]; apply sum_congr rfl; intro a _; rw [mul_sum]

theorem tdf3_shape (M : Mat K) (t : Tensor K) {A B D C : ℕ} (hs : t.shape = [A, B, D, C]) :
    (Tensor.tensordotFront M t 3).shape = [M.size, A, B, C] := by
  rw [tensordotFront_shape, hs]; rfl

/-- One step on an `A × B × D × C` array: `R[r, a0, a1, i] = Σ_j M[r][j] · t[a0, a1, j, i]`. -/
theorem tdf3_get (M : Mat K) (t : Tensor K) {A B D C : ℕ} (hs : t.shape = [A, B, D, C]) (r a0 a1 i : ℕ)
    (hr : r < M.size) (ha0 : a0 < A) (ha1 : a1 < B) (hi : i < C) :
    (Tensor.tensordotFront M t 3).entry4 A B C r a0 a1 i
      = ∑ j ∈ range D, M.get r j * t.entry4 B D C a0 a1 j i := by
  have h1 : Tensor.prod (t.shape.take (3 - 1)) = A * B := by rw [hs]; simp [Tensor.prod]
  have h2 : Tensor.prod (t.shape.drop (3 - 1 + 1)) = C := by rw [hs]; simp [Tensor.prod]
  have h3 : t.shape.getD (3 - 1) 1 = D := by rw [hs]; simp
  have ha : a0 * B + a1 < A * B := Tensor.flat2_lt ha0 ha1
  have := tensordotFront_get M t 3 r (a0 * B + a1) i hr (by rw [h1]; exact ha) (by rw [h2]; exact hi)
  rw [h1, h2, h3] at this
  unfold Tensor.entry4
  have e : ((r * A + a0) * B + a1) * C + i = (r * (A * B) + (a0 * B + a1)) * C + i := by ring
  rw [e, this]

theorem tdf3_data_size (M : Mat K) (t : Tensor K) {A B D C : ℕ} (hs : t.shape = [A, B, D, C]) :
    (Tensor.tensordotFront M t 3).data.size = M.size * (A * B) * C := by
  unfold Tensor.tensordotFront
  simp [hs, Tensor.prod]

/-- The six-step chain of a volume under the projection property of the three directions. -/
theorem chain3_proj (t : Tensor K) {A B D C : ℕ} (hs : t.shape = [A, B, D, C])
    (Nou Nov Now Niu Niv Niw : Mat K) (Eu Ev Ew : ℕ → ℕ → K)
    (hu : Proj Niu Nou Nou.size A Niu.size Eu) (hv : Proj Niv Nov Nov.size B Niv.size Ev)
    (hw : Proj Niw Now Now.size D Niw.size Ew) :
    (Tensor.tensordotFront Niu (Tensor.tensordotFront Niv (Tensor.tensordotFront Niw
      (Tensor.tensordotFront Nou (Tensor.tensordotFront Nov (Tensor.tensordotFront Now t 3) 3) 3) 3) 3) 3).shape
        = [Niu.size, Niv.size, Niw.size, C] ∧
    (Tensor.tensordotFront Niu (Tensor.tensordotFront Niv (Tensor.tensordotFront Niw
      (Tensor.tensordotFront Nou (Tensor.tensordotFront Nov (Tensor.tensordotFront Now t 3) 3) 3) 3) 3) 3).data.size
        = Niu.size * (Niv.size * Niw.size) * C ∧
    ∀ k0, k0 < Niu.size → ∀ k1, k1 < Niv.size → ∀ k2, k2 < Niw.size → ∀ i, i < C →
      (Tensor.tensordotFront Niu (Tensor.tensordotFront Niv (Tensor.tensordotFront Niw
        (Tensor.tensordotFront Nou (Tensor.tensordotFront Nov (Tensor.tensordotFront Now t 3) 3) 3) 3) 3) 3).entry4
          Niv.size Niw.size C k0 k1 k2 i
      = ∑ a0 ∈ range A, (∑ a1 ∈ range B, (∑ j ∈ range D, t.entry4 B D C a0 a1 j i * Ew j k2) * Ev a1 k1) * Eu a0 k0 := by
  set R1 := Tensor.tensordotFront Now t 3 with hR1
  have s1 : R1.shape = [Now.size, A, B, C] := tdf3_shape Now t hs
  set R2 := Tensor.tensordotFront Nov R1 3 with hR2
  have s2 : R2.shape = [Nov.size, Now.size, A, C] := tdf3_shape Nov R1 s1
  set R3 := Tensor.tensordotFront Nou R2 3 with hR3
  have s3 : R3.shape = [Nou.size, Nov.size, Now.size, C] := tdf3_shape Nou R2 s2
  set R4 := Tensor.tensordotFront Niw R3 3 with hR4
  have s4 : R4.shape = [Niw.size, Nou.size, Nov.size, C] := tdf3_shape Niw R3 s3
  set R5 := Tensor.tensordotFront Niv R4 3 with hR5
  have s5 : R5.shape = [Niv.size, Niw.size, Nou.size, C] := tdf3_shape Niv R4 s4
  refine ⟨tdf3_shape Niu R5 s5, tdf3_data_size Niu R5 s5, fun k0 hk0 k1 hk1 k2 hk2 i hi => ?_⟩
  rw [tdf3_get Niu R5 s5 k0 k1 k2 i hk0 hk1 hk2 hi]
  -- unfold the remaining five steps under the sums
  have e5 : ∀ r0, r0 < Nou.size → R5.entry4 Niw.size Nou.size C k1 k2 r0 i
      = ∑ r1 ∈ range Nov.size, Niv.get k1 r1 * R4.entry4 Nou.size Nov.size C k2 r0 r1 i :=
    fun r0 hr0 => tdf3_get Niv R4 s4 k1 k2 r0 i hk1 hk2 hr0 hi
  have e4 : ∀ r0, r0 < Nou.size → ∀ r1, r1 < Nov.size → R4.entry4 Nou.size Nov.size C k2 r0 r1 i
      = ∑ r2 ∈ range Now.size, Niw.get k2 r2 * R3.entry4 Nov.size Now.size C r0 r1 r2 i :=
    fun r0 hr0 r1 hr1 => tdf3_get Niw R3 s3 k2 r0 r1 i hk2 hr0 hr1 hi
  have e3 : ∀ r0, r0 < Nou.size → ∀ r1, r1 < Nov.size → ∀ r2, r2 < Now.size →
      R3.entry4 Nov.size Now.size C r0 r1 r2 i
      = ∑ a0 ∈ range A, Nou.get r0 a0 * R2.entry4 Now.size A C r1 r2 a0 i :=
    fun r0 hr0 r1 hr1 r2 hr2 => tdf3_get Nou R2 s2 r0 r1 r2 i hr0 hr1 hr2 hi
  have e2 : ∀ r1, r1 < Nov.size → ∀ r2, r2 < Now.size → ∀ a0, a0 < A →
      R2.entry4 Now.size A C r1 r2 a0 i
      = ∑ a1 ∈ range B, Nov.get r1 a1 * R1.entry4 A B C r2 a0 a1 i :=
    fun r1 hr1 r2 hr2 a0 ha0 => tdf3_get Nov R1 s1 r1 r2 a0 i hr1 hr2 ha0 hi
  have e1 : ∀ r2, r2 < Now.size → ∀ a0, a0 < A → ∀ a1, a1 < B →
      R1.entry4 A B C r2 a0 a1 i = ∑ j ∈ range D, Now.get r2 j * t.entry4 B D C a0 a1 j i :=
    fun r2 hr2 a0 ha0 a1 ha1 => tdf3_get Now t hs r2 a0 a1 i hr2 ha0 ha1 hi
  -- direction w
  have stepW : ∀ r0, r0 < Nou.size → ∀ r1, r1 < Nov.size → R4.entry4 Nou.size Nov.size C k2 r0 r1 i
      = ∑ a0 ∈ range A, Nou.get r0 a0 * ∑ a1 ∈ range B, Nov.get r1 a1 *
          (∑ j ∈ range D, t.entry4 B D C a0 a1 j i * Ew j k2) := by
    intro r0 hr0 r1 hr1
    rw [e4 r0 hr0 r1 hr1]
    have h2' : ∀ r2, r2 < Now.size → ∀ a0, a0 < A → R2.entry4 Now.size A C r1 r2 a0 i
        = ∑ a1 ∈ range B, Nov.get r1 a1 * ∑ j ∈ range D, Now.get r2 j * t.entry4 B D C a0 a1 j i := by
      intro r2 hr2 a0 ha0
      rw [e2 r1 hr1 r2 hr2 a0 ha0]
      apply sum_congr rfl
      intro a1 ha1
      rw [e1 r2 hr2 a0 ha0 a1 (mem_range.mp ha1)]
    have h3' : ∀ r2, r2 < Now.size → R3.entry4 Nov.size Now.size C r0 r1 r2 i
        = ∑ a0 ∈ range A, Nou.get r0 a0 *
            ∑ a1 ∈ range B, Nov.get r1 a1 * ∑ j ∈ range D, Now.get r2 j * t.entry4 B D C a0 a1 j i := by
      intro r2 hr2
      rw [e3 r0 hr0 r1 hr1 r2 hr2]
      apply sum_congr rfl
      intro a0 ha0
      rw [h2' r2 hr2 a0 (mem_range.mp ha0)]
    refine (sum_congr rfl (fun r2 hr2 => by rw [h3' r2 (mem_range.mp hr2)])).trans ?_
    rw [sum_pull Now.size A (fun r2 => Niw.get k2 r2) (fun a0 => Nou.get r0 a0)
      (fun a0 r2 => ∑ a1 ∈ range B, Nov.get r1 a1 * ∑ j ∈ range D, Now.get r2 j * t.entry4 B D C a0 a1 j i)]
    apply sum_congr rfl
    intro a0 _
    congr 1
    rw [sum_pull Now.size B (fun r2 => Niw.get k2 r2) (fun a1 => Nov.get r1 a1)
      (fun a1 r2 => ∑ j ∈ range D, Now.get r2 j * t.entry4 B D C a0 a1 j i)]
    apply sum_congr rfl
    intro a1 _
    congr 1
    exact hw (fun j => t.entry4 B D C a0 a1 j i) k2 hk2
  -- direction v
  have stepV : ∀ r0, r0 < Nou.size → R5.entry4 Niw.size Nou.size C k1 k2 r0 i
      = ∑ a0 ∈ range A, Nou.get r0 a0 *
          (∑ a1 ∈ range B, (∑ j ∈ range D, t.entry4 B D C a0 a1 j i * Ew j k2) * Ev a1 k1) := by
    intro r0 hr0
    rw [e5 r0 hr0]
    refine (sum_congr rfl (fun r1 hr1 => by rw [stepW r0 hr0 r1 (mem_range.mp hr1)])).trans ?_
    rw [sum_pull Nov.size A (fun r1 => Niv.get k1 r1) (fun a0 => Nou.get r0 a0)
      (fun a0 r1 => ∑ a1 ∈ range B, Nov.get r1 a1 * (∑ j ∈ range D, t.entry4 B D C a0 a1 j i * Ew j k2))]
    apply sum_congr rfl
    intro a0 _
    congr 1
    exact hv (fun a1 => ∑ j ∈ range D, t.entry4 B D C a0 a1 j i * Ew j k2) k1 hk1
  refine (sum_congr rfl (fun r0 hr0 => by rw [stepV r0 (mem_range.mp hr0)])).trans ?_
  exact hu (fun a0 => ∑ a1 ∈ range B, (∑ j ∈ range D, t.entry4 B D C a0 a1 j i * Ew j k2) * Ev a1 k1) k0 hk0

end Splipy
