import Splipy.Lemmas.C10Cummax
import Splipy.Lemmas.C10Periodic

/-!
# C10: `BSplineBasis.make_periodic` returns a valid periodic basis (long enough knot vectors)

For a valid NON-periodic basis with at least `order + continuity` functions the knot vector that
`BSplineBasis.make_periodic(continuity)` hands to the constructor is, entry by entry
(`Basis.makePeriodicKnots_getElem?`, `s` = number of knots, `p` = order, `k` = continuity,
`T = end - start`):

| positions                | entry                         |
|--------------------------|-------------------------------|
| `i < k+1`                | `knots[s-p-k-1+i] - T`        |
| `k+1 ≤ i < p-1`          | `start`                       |
| `p-1 ≤ i < s-p+1`        | `knots[i]`                    |
| `s-p+1 ≤ i < s-k-1`      | `end`                         |
| `s-k-1 ≤ i < s`          | `knots[p + (i-(s-k-1))] + T`  |

It is sorted, keeps `start`/`end`, and its ghost knots repeat the interior spacing EXACTLY
(`Basis.makePeriodic_valid`); no clampedness of the input is needed.  Hence `make_periodic` keeps a
spline object well formed under the single hypothesis `hlong`
(`History.stepOut_makePeriodic_wf_long_partial`).
-/

set_option linter.unusedSectionVars false
set_option linter.unusedVariables false

namespace Splipy

variable {K : Type} [Field K] [LinearOrder K] [IsStrictOrderedRing K] [FloorRing K]

open History

namespace Basis

/-- Entry `i` of the knot vector built by `make_periodic(k)` (see the table in the module doc). -/
def mpEntry (b : Basis K) (k i : ℕ) : Option K :=
  if i < k + 1 then some (b.kn (b.knots.size - b.order - k - 1 + i) - (b.stop - b.start))
  else if i < b.order - 1 then some b.start
  else if i < b.knots.size - b.order + 1 then some (b.kn i)
  else if i < b.knots.size - k - 1 then some b.stop
  else if i < b.knots.size then some (b.kn (b.order + (i - (b.knots.size - k - 1))) + (b.stop - b.start))
  else none

theorem inner_getElem? (b : Basis K) (j : ℕ)
    (hj : j < b.knots.size - (b.order - 1) - (b.order - 1)) :
    (b.knots.extract (b.order - 1) (b.knots.size - (b.order - 1)))[j]? = some (b.kn (b.order - 1 + j)) := by
  rw [Array.getElem?_extract, if_pos (by omega)]
  have hlt : b.order - 1 + j < b.knots.size := by omega
  rw [Basis.kn_of_lt b hlt]
  simp [hlt]

section
variable {b : Basis K} (hv : b.Valid) (k : ℕ) (hk : k + 2 ≤ b.order)
  (hlong : 2 * b.order + k ≤ b.knots.size)
include hv hk hlong

theorem makePeriodicKnots_getElem? (i : ℕ) : (b.makePeriodicKnots k)[i]? = b.mpEntry k i := by
  have hp := hv.order_pos
  set p := b.order with hpdef
  set s := b.knots.size with hsdef
  unfold makePeriodicKnots
  simp only []
  rw [← hpdef, ← hsdef, if_neg (show ¬ p - 1 = 0 by omega)]
  set nk := b.knots.extract (p - 1) (s - (p - 1)) with hnk
  have hnksz : nk.size = s + 2 - 2 * p := by
    rw [hnk, Array.size_extract]; omega
  have hinner : ∀ j, j < s + 2 - 2 * p → nk[j]? = some (b.kn (p - 1 + j)) :=
    fun j hj => inner_getElem? b j (by omega)
  have hreps : p - 1 - k - 1 = p - 2 - k := by omega
  have e1 : min (s + 2 - 2 * p - 1) (s + 2 - 2 * p) - (s + 2 - 2 * p - (k + 1) - 1) = k + 1 := by omega
  have e2 : min (k + 1 + 1) (s + 2 - 2 * p) - 1 = k + 1 := by omega
  have e3 : s + 2 - 2 * p - (k + 1) - 1 = s - 2 * p - k := by omega
  rw [hnksz, hreps]
  refine (getElem?_append5 _ _ _ _ _ (fun i => b.mpEntry k i) ?_ ?_ ?_ ?_ ?_ ?_ i)
  · -- head
    intro j hj
    simp only [Array.size_map, Array.size_extract, hnksz, e1] at hj
    rw [Array.getElem?_map, Array.getElem?_extract, hnksz, e1, if_pos hj, e3, hinner _ (by omega)]
    show some (b.kn (p - 1 + (s - 2 * p - k + j)) - (b.stop - b.start)) = _
    unfold mpEntry
    rw [if_pos hj]
    congr 3; omega
  · -- copies of start
    intro j hj
    simp only [Array.size_replicate] at hj
    simp only [Array.size_map, Array.size_extract, hnksz, e1]
    rw [Array.getElem?_replicate, if_pos hj]
    unfold mpEntry
    rw [if_neg (by omega), if_pos (by omega)]
  · -- inner knots
    intro j hj
    rw [hnksz] at hj
    simp only [Array.size_map, Array.size_extract, hnksz, Array.size_replicate, e1]
    rw [hinner j hj]
    unfold mpEntry
    rw [if_neg (by omega), if_neg (by omega), if_pos (by omega)]
    congr 2; omega
  · -- copies of stop
    intro j hj
    simp only [Array.size_replicate] at hj
    simp only [Array.size_map, Array.size_extract, hnksz, Array.size_replicate, e1]
    rw [Array.getElem?_replicate, if_pos hj]
    unfold mpEntry
    rw [if_neg (by omega), if_neg (by omega), if_neg (by omega), if_pos (by omega)]
  · -- tail
    intro j hj
    simp only [Array.size_map, Array.size_extract, hnksz, e2] at hj
    simp only [Array.size_map, Array.size_extract, hnksz, Array.size_replicate, e1]
    rw [Array.getElem?_map, Array.getElem?_extract, hnksz, e2, if_pos hj, hinner _ (by omega)]
    show some (b.kn (p - 1 + (1 + j)) + (b.stop - b.start)) = _
    unfold mpEntry
    rw [if_neg (by omega), if_neg (by omega), if_neg (by omega), if_neg (by omega), if_pos (by omega)]
    congr 3; omega
  · intro i hi
    simp only [Array.size_map, Array.size_extract, hnksz, Array.size_replicate, e1, e2] at hi
    unfold mpEntry
    rw [if_neg (by omega), if_neg (by omega), if_neg (by omega), if_neg (by omega), if_neg (by omega)]

theorem mpBasis_kn (i : ℕ) (hi : i < b.knots.size) :
    some ((⟨b.order, b.makePeriodicKnots k, (k : Int)⟩ : Basis K).kn i) = b.mpEntry k i := by
  have hsz := makePeriodicKnots_size b k hk hlong
  have hiN : i < (⟨b.order, b.makePeriodicKnots k, (k : Int)⟩ : Basis K).knots.size := by
    show i < (b.makePeriodicKnots k).size
    rw [hsz]; exact hi
  rw [Basis.kn_of_lt _ hiN, ← makePeriodicKnots_getElem? hv k hk hlong i]
  exact (Array.getElem?_eq_getElem hiN).symm

theorem mpBasis_knA (i : ℕ) (hi : i < k + 1) :
    (⟨b.order, b.makePeriodicKnots k, (k : Int)⟩ : Basis K).kn i
      = b.kn (b.knots.size - b.order - k - 1 + i) - (b.stop - b.start) := by
  have h := mpBasis_kn hv k hk hlong i (by omega)
  unfold mpEntry at h
  rw [if_pos hi] at h
  exact Option.some.inj h

theorem mpBasis_knB (i : ℕ) (h1 : k + 1 ≤ i) (h2 : i < b.order - 1) :
    (⟨b.order, b.makePeriodicKnots k, (k : Int)⟩ : Basis K).kn i = b.start := by
  have h := mpBasis_kn hv k hk hlong i (by omega)
  unfold mpEntry at h
  rw [if_neg (by omega), if_pos h2] at h
  exact Option.some.inj h

theorem mpBasis_knC (i : ℕ) (h1 : b.order - 1 ≤ i) (h2 : i < b.knots.size - b.order + 1) :
    (⟨b.order, b.makePeriodicKnots k, (k : Int)⟩ : Basis K).kn i = b.kn i := by
  have h := mpBasis_kn hv k hk hlong i (by omega)
  unfold mpEntry at h
  rw [if_neg (by omega), if_neg (by omega), if_pos h2] at h
  exact Option.some.inj h

theorem mpBasis_knD (i : ℕ) (h1 : b.knots.size - b.order + 1 ≤ i) (h2 : i < b.knots.size - k - 1) :
    (⟨b.order, b.makePeriodicKnots k, (k : Int)⟩ : Basis K).kn i = b.stop := by
  have h := mpBasis_kn hv k hk hlong i (by omega)
  unfold mpEntry at h
  rw [if_neg (by omega), if_neg (by omega), if_neg (by omega), if_pos h2] at h
  exact Option.some.inj h

theorem mpBasis_knE (i : ℕ) (h1 : b.knots.size - k - 1 ≤ i) (h2 : i < b.knots.size) :
    (⟨b.order, b.makePeriodicKnots k, (k : Int)⟩ : Basis K).kn i
      = b.kn (b.order + (i - (b.knots.size - k - 1))) + (b.stop - b.start) := by
  have h := mpBasis_kn hv k hk hlong i h2
  unfold mpEntry at h
  rw [if_neg (by omega), if_neg (by omega), if_neg (by omega), if_neg (by omega), if_pos h2] at h
  exact Option.some.inj h

theorem mpBasis_numFunctions :
    (⟨b.order, b.makePeriodicKnots k, (k : Int)⟩ : Basis K).numFunctions
      = b.knots.size - b.order - (k + 1) := by
  unfold Basis.numFunctions
  show (b.makePeriodicKnots k).size - b.order - ((k : Int) + 1).toNat = _
  rw [makePeriodicKnots_size b k hk hlong]
  omega

theorem mpBasis_start : (⟨b.order, b.makePeriodicKnots k, (k : Int)⟩ : Basis K).start = b.start := by
  have hp := hv.order_pos
  exact mpBasis_knC hv k hk hlong (b.order - 1) le_rfl (by omega)

theorem mpBasis_stop : (⟨b.order, b.makePeriodicKnots k, (k : Int)⟩ : Basis K).stop = b.stop := by
  have hp := hv.order_pos
  unfold Basis.stop
  show (⟨b.order, b.makePeriodicKnots k, (k : Int)⟩ : Basis K).kn ((b.makePeriodicKnots k).size - b.order) = _
  rw [makePeriodicKnots_size b k hk hlong]
  exact mpBasis_knC hv k hk hlong (b.knots.size - b.order) (by omega) (by omega)

/-- Every entry of the new knot vector sits in one of five regions with a simple envelope. -/
theorem mpBasis_region (j : ℕ) (hj : j < b.knots.size) :
    (j < k + 1 ∧ (⟨b.order, b.makePeriodicKnots k, (k : Int)⟩ : Basis K).kn j ≤ b.start)
    ∨ (k + 1 ≤ j ∧ j < b.order - 1 ∧ (⟨b.order, b.makePeriodicKnots k, (k : Int)⟩ : Basis K).kn j = b.start)
    ∨ (b.order - 1 ≤ j ∧ j < b.knots.size - b.order + 1
        ∧ b.start ≤ (⟨b.order, b.makePeriodicKnots k, (k : Int)⟩ : Basis K).kn j
        ∧ (⟨b.order, b.makePeriodicKnots k, (k : Int)⟩ : Basis K).kn j ≤ b.stop)
    ∨ (b.knots.size - b.order + 1 ≤ j ∧ j < b.knots.size - k - 1
        ∧ (⟨b.order, b.makePeriodicKnots k, (k : Int)⟩ : Basis K).kn j = b.stop)
    ∨ (b.knots.size - k - 1 ≤ j ∧ b.stop ≤ (⟨b.order, b.makePeriodicKnots k, (k : Int)⟩ : Basis K).kn j) := by
  have hp := hv.order_pos
  have m := hv.kn_mono
  have hstart : b.start = b.kn (b.order - 1) := rfl
  have hstop : b.stop = b.kn (b.knots.size - b.order) := rfl
  by_cases c1 : j < k + 1
  · left
    refine ⟨c1, ?_⟩
    rw [mpBasis_knA hv k hk hlong j c1]
    have : b.kn (b.knots.size - b.order - k - 1 + j) ≤ b.stop := by rw [hstop]; exact m (by omega)
    linarith
  by_cases c2 : j < b.order - 1
  · right; left
    exact ⟨by omega, c2, mpBasis_knB hv k hk hlong j (by omega) c2⟩
  by_cases c3 : j < b.knots.size - b.order + 1
  · right; right; left
    rw [mpBasis_knC hv k hk hlong j (by omega) c3]
    exact ⟨by omega, c3, by rw [hstart]; exact m (by omega), by rw [hstop]; exact m (by omega)⟩
  by_cases c4 : j < b.knots.size - k - 1
  · right; right; right; left
    exact ⟨by omega, c4, mpBasis_knD hv k hk hlong j (by omega) c4⟩
  · right; right; right; right
    refine ⟨by omega, ?_⟩
    rw [mpBasis_knE hv k hk hlong j (by omega) hj]
    have : b.start ≤ b.kn (b.order + (j - (b.knots.size - k - 1))) := by rw [hstart]; exact m (by omega)
    linarith

theorem mpBasis_sorted (i : ℕ) (hi : i + 1 < b.knots.size) :
    (⟨b.order, b.makePeriodicKnots k, (k : Int)⟩ : Basis K).kn i
      ≤ (⟨b.order, b.makePeriodicKnots k, (k : Int)⟩ : Basis K).kn (i + 1) := by
  have hp := hv.order_pos
  have m := hv.kn_mono
  have hss := hv.start_lt_stop
  by_cases hAA : i + 1 < k + 1
  · rw [mpBasis_knA hv k hk hlong i (by omega), mpBasis_knA hv k hk hlong (i + 1) hAA]
    have : b.kn (b.knots.size - b.order - k - 1 + i) ≤ b.kn (b.knots.size - b.order - k - 1 + (i + 1)) :=
      m (by omega)
    linarith
  by_cases hCC : b.order - 1 ≤ i ∧ i + 1 < b.knots.size - b.order + 1
  · rw [mpBasis_knC hv k hk hlong i hCC.1 (by omega), mpBasis_knC hv k hk hlong (i + 1) (by omega) hCC.2]
    exact m (by omega)
  by_cases hEE : b.knots.size - k - 1 ≤ i
  · rw [mpBasis_knE hv k hk hlong i hEE (by omega), mpBasis_knE hv k hk hlong (i + 1) (by omega) hi]
    have : b.kn (b.order + (i - (b.knots.size - k - 1))) ≤ b.kn (b.order + (i + 1 - (b.knots.size - k - 1))) :=
      m (by omega)
    linarith
  rcases mpBasis_region hv k hk hlong i (by omega) with
    ⟨a1, v1⟩ | ⟨a1, a1', v1⟩ | ⟨a1, a1', v1, v1'⟩ | ⟨a1, a1', v1⟩ | ⟨a1, v1⟩ <;>
  rcases mpBasis_region hv k hk hlong (i + 1) hi with
    ⟨a2, v2⟩ | ⟨a2, a2', v2⟩ | ⟨a2, a2', v2, v2'⟩ | ⟨a2, a2', v2⟩ | ⟨a2, v2⟩ <;>
  first
  | (exfalso; omega)
  | linarith

/-- The ghost knots repeat the interior spacing exactly. -/
theorem mpBasis_ghosts (i : ℕ) (hi : i + (b.knots.size - b.order - (k + 1)) < b.knots.size) :
    (⟨b.order, b.makePeriodicKnots k, (k : Int)⟩ : Basis K).kn (i + (b.knots.size - b.order - (k + 1)))
      = (⟨b.order, b.makePeriodicKnots k, (k : Int)⟩ : Basis K).kn i + (b.stop - b.start) := by
  have hp := hv.order_pos
  have hstart : b.start = b.kn (b.order - 1) := rfl
  have hstop : b.stop = b.kn (b.knots.size - b.order) := rfl
  by_cases c1 : i < k + 1
  · -- head ↦ inner knots
    rw [mpBasis_knA hv k hk hlong i c1, mpBasis_knC hv k hk hlong _ (by omega) (by omega)]
    rw [show i + (b.knots.size - b.order - (k + 1)) = b.knots.size - b.order - k - 1 + i by omega]
    ring
  by_cases c2 : i < b.order - 1
  · -- copies of start ↦ `stop` (the last inner knot or a copy)
    rw [mpBasis_knB hv k hk hlong i (by omega) c2]
    by_cases c3 : i + (b.knots.size - b.order - (k + 1)) < b.knots.size - b.order + 1
    · rw [mpBasis_knC hv k hk hlong _ (by omega) c3, hstop]
      rw [show i + (b.knots.size - b.order - (k + 1)) = b.knots.size - b.order by omega]
      ring
    · rw [mpBasis_knD hv k hk hlong _ (by omega) (by omega)]
      ring
  by_cases c4 : i = b.order - 1
  · -- `start` itself ↦ `stop`
    rw [mpBasis_knC hv k hk hlong i (by omega) (by omega), c4, ← hstart]
    by_cases c5 : b.order - 1 + (b.knots.size - b.order - (k + 1)) < b.knots.size - b.order + 1
    · rw [mpBasis_knC hv k hk hlong _ (by omega) c5]
      rw [show b.order - 1 + (b.knots.size - b.order - (k + 1)) = b.knots.size - b.order by omega, ← hstop]
      ring
    · rw [mpBasis_knD hv k hk hlong _ (by omega) (by omega)]
      ring
  · -- inner knots ↦ tail
    rw [mpBasis_knC hv k hk hlong i (by omega) (by omega), mpBasis_knE hv k hk hlong _ (by omega) hi]
    rw [show b.order + (i + (b.knots.size - b.order - (k + 1)) - (b.knots.size - k - 1)) = i by omega]

/-- The basis built by `make_periodic(k)` is valid. -/
theorem mpBasis_valid : (⟨b.order, b.makePeriodicKnots k, (k : Int)⟩ : Basis K).Valid := by
  have hsz := makePeriodicKnots_size b k hk hlong
  refine ⟨hv.order_pos, ?_, ?_, ?_, Or.inl ?_, ?_, ?_⟩
  · show 2 * b.order ≤ (b.makePeriodicKnots k).size
    rw [hsz]; omega
  · intro i hi
    exact mpBasis_sorted hv k hk hlong i (by
      have : i + 1 < (b.makePeriodicKnots k).size := hi
      rwa [hsz] at this)
  · show (-1 : Int) ≤ (k : Int)
    omega
  · show (k : Int) + 2 ≤ (b.order : Int)
    omega
  · rw [mpBasis_start hv k hk hlong, mpBasis_stop hv k hk hlong]
    exact hv.start_lt_stop
  · intro _ i hi
    rw [mpBasis_numFunctions hv k hk hlong] at hi ⊢
    rw [mpBasis_start hv k hk hlong, mpBasis_stop hv k hk hlong]
    exact mpBasis_ghosts hv k hk hlong i (by
      have : i + (b.knots.size - b.order - (k + 1)) < (b.makePeriodicKnots k).size := hi
      rwa [hsz] at this)

end

/-- **`BSplineBasis.make_periodic` returns a valid periodic basis** when the (valid, non-periodic)
    input has at least `order + continuity` functions.  No clampedness needed; the tolerance plays no
    role (the new knot vector is exactly periodic). -/
theorem makePeriodic_valid {b nb : Basis K} (hv : b.Valid) (hper : b.periodic = -1) (tol : K) (k : ℕ)
    (hk : k + 2 ≤ b.order) (hlong : b.order + k ≤ b.numFunctions) (h : b.makePeriodic tol k = .ok nb) :
    nb.Valid := by
  have h2p := hv.size_ge
  have hnf : b.numFunctions = b.knots.size - b.order := by
    unfold Basis.numFunctions; rw [hper]; simp
  have hval := mpBasis_valid hv k hk (by omega)
  rw [makePeriodic_ok h]
  have hcm : cummax (b.makePeriodicKnots k) = b.makePeriodicKnots k :=
    cummax_knots_of_sorted _ hval.sorted
  rw [hcm]
  exact hval

end Basis

namespace Obj

/-- **`SplineObject.make_periodic` returns a well-formed object** (direction with at least
    `order + continuity` functions); the other bases are untouched. -/
theorem makePeriodic_wf_long {o n : Obj K} (h : o.WellFormed) {dir : ℕ} (hd : dir < o.bases.size)
    {tol : K} {c : Option Int} (hr : o.makePeriodic tol c dir = .ok n)
    (hlong : ((o.basis dir).order : Int) + c.getD (((o.basis dir).order : Int) - 2)
      ≤ (o.basis dir).numFunctions) :
    n.WellFormed ∧ n.bases.size = o.bases.size ∧ (∀ d, d ≠ dir → n.basis d = o.basis d) := by
  obtain ⟨k, nb, hk2, hkc, hper, hmk, hk1, hn⟩ := Obj.makePeriodic_ok hr
  have hnb : n.basis dir = nb := by
    rw [hn]; simp [Obj.basis, Array.getD_eq_getD_getElem?, hd]
  have hvo := h.valid dir hd
  have hper' : (o.basis dir).periodic = -1 := by have := hvo.periodic_ge; omega
  have hvnb : nb.Valid :=
    Basis.makePeriodic_valid hvo hper' tol k (by omega) (by rw [← hkc] at hlong; exact_mod_cast hlong) hmk
  refine ⟨Obj.makePeriodic_wf_of_count h hd hr (by rw [hnb]; exact hvnb)
    (Obj.makePeriodic_count h hd hr hlong), ?_, ?_⟩
  · rw [hn]; simp
  · intro d hne
    rw [hn]
    simp [Obj.basis, Array.getD_eq_getD_getElem?, hne.symm]

end Obj

namespace History

/-- `_partial` only because of `hlong` (the direction has at least `order + continuity` functions, so
    that no slice of `BSplineBasis.make_periodic` is truncated — without it the statement is false,
    `History.makePeriodic_short_counterexample`).  Validity of the new periodic basis is PROVED
    (`Basis.makePeriodic_valid`). -/
theorem stepOut_makePeriodic_wf_long_partial {o : Obj K} (h : o.WellFormed) (tol : K) (c : Option Int)
    (dir : ℕ) {out : Out K} (hs : stepOut tol o (.makePeriodic c dir) = .ok out)
    (hlong : ((o.basis dir).order : Int) + c.getD (((o.basis dir).order : Int) - 2)
      ≤ (o.basis dir).numFunctions) :
    out.recv.WellFormed ∧ ∀ n ∈ out.news, n.WellFormed := by
  obtain ⟨hdir, n, hr, rfl⟩ := stepOut_makePeriodic_inv hs
  have hd : dir < o.bases.size := by rw [h.bases_size]; exact hdir
  refine ⟨h, ?_⟩
  intro n' hn'
  have : n' = n := by simpa using hn'
  subst this
  exact (Obj.makePeriodic_wf_long h hd hr hlong).1

end History

end Splipy
