import Splipy.Lemmas.C14Grid
import Splipy.Lemmas.C14Proj
set_option linter.unusedSectionVars false

/-!
# C14: least-squares fitting on a surface grid is a projection
-/

namespace Splipy
open Finset Tensor

section sums
variable {K : Type} [Field K]

/-- `Σ_j N_{j b'} · Σ_b N_{j b} g_b = Σ_b (Σ_j N_{j b'} N_{j b}) g_b`. -/
theorem gram_apply_c14 (m n : ℕ) (N : ℕ → ℕ → K) (g : ℕ → K) (b' : ℕ) :
    ∑ j ∈ range m, N j b' * ∑ b ∈ range n, N j b * g b
      = ∑ b ∈ range n, (∑ j ∈ range m, N j b' * N j b) * g b := by
  simp_rw [mul_sum, sum_mul]
  rw [sum_comm]
  exact sum_congr rfl (fun b _ => sum_congr rfl (fun j _ => by ring))

end sums

namespace Interp
variable {K : Type} [Field K] [LinearOrder K] [FloorRing K]

/-- Shape facts and the left-inverse property of `invC (NᵀN)` for a collocation matrix with at
least one row. -/
theorem gram_inv_facts (b : Basis K) (tol : K) (ts : List K) (hne : ts ≠ []) (Gi : Mat K)
    (h : invC (Mat.mul (Mat.transpose (colloc b tol ts 0)) (colloc b tol ts 0)) = .ok Gi) :
    (Mat.transpose (colloc b tol ts 0)).size = b.numFunctions ∧
    Gi.size = b.numFunctions ∧
    (∀ p < b.numFunctions, ∀ i < b.numFunctions,
      ∑ r ∈ range b.numFunctions, Gi.get p r *
        (∑ l ∈ range ts.length, (colloc b tol ts 0).get l r * (colloc b tol ts 0).get l i)
        = if p = i then 1 else 0) := by
  set N := colloc b tol ts 0 with hN
  have hpos : 0 < ts.length := List.length_pos_of_ne_nil hne
  have hNs : N.size = ts.length := size_colloc _ _ _ _
  have hcols : N.ncols = b.numFunctions := by
    unfold Mat.ncols
    rw [hN, row_colloc b tol ts 0 0 hpos, size_evaluate_c14]
  have hT : (Mat.transpose N).size = b.numFunctions := by
    have := Mat.nrows_transpose_c14 N
    unfold Mat.nrows at this
    rw [this, hcols]
  have hG : (Mat.mul (Mat.transpose N) N).size = b.numFunctions := by
    have := Mat.nrows_mul_c14 (Mat.transpose N) N
    unfold Mat.nrows at this
    rw [this, hT]
  have hGi : Gi.size = b.numFunctions := by
    rcases Nat.eq_zero_or_pos b.numFunctions with h0 | hn
    · have h1 := (invC_ok h).2.1
      rw [h1]
      unfold Mat.ncols
      have : (Mat.mul (Mat.transpose N) N).size = 0 := by rw [hG, h0]
      simp [Array.getD, this, h0]
    · rw [(invC_shape h (by rw [hG]; exact hn)).1, hG]
  refine ⟨hT, hGi, ?_⟩
  have hR : ∀ p < b.numFunctions, ∀ i < b.numFunctions,
      ∑ r ∈ range b.numFunctions, (Mat.mul (Mat.transpose N) N).get p r * Gi.get r i
        = if p = i then 1 else 0 := by
    intro p hp i hi
    have := invC_entries h p i (by rw [hG]; exact hp) (by rw [hG]; exact hi)
    rw [hG] at this
    exact this
  have hL := left_inv_of_right_inv_c14 b.numFunctions
    (fun p r => (Mat.mul (Mat.transpose N) N).get p r) (fun p r => Gi.get p r) hR
  intro p hp i hi
  rw [← hL p hp i hi]
  apply sum_congr rfl
  intro r hr
  congr 1
  have := get_normal N r i (by rw [hcols]; exact mem_range.mp hr) (by rw [hcols]; exact hi)
  have hnr : N.nrows = ts.length := hNs
  rw [hnr] at this
  exact this.symm

/-- **Least squares on a surface grid is a projection.** -/
theorem leastSquareSurface_projection (bu bv : Basis K) (tol : K) (tu tv : List K)
    (x x' cp : Tensor K) (d : ℕ) (c0 : ℕ → ℕ → ℕ → K) (Giu Giv : Mat K)
    (htu : tu ≠ []) (htv : tv ≠ [])
    (hx' : gridInputLsq [tu, tv] x = .ok x') (hsh : x'.shape = [tu.length, tv.length, d])
    (hGu : invC (Mat.mul (Mat.transpose (colloc bu tol tu 0)) (colloc bu tol tu 0)) = .ok Giu)
    (hGv : invC (Mat.mul (Mat.transpose (colloc bv tol tv 0)) (colloc bv tol tv 0)) = .ok Giv)
    (hdata : ∀ i < tu.length, ∀ j < tv.length, ∀ k < d,
      x'.entry3 tv.length d i j k
        = ∑ a ∈ range bu.numFunctions, (colloc bu tol tu 0).get i a *
            ∑ b ∈ range bv.numFunctions, (colloc bv tol tv 0).get j b * c0 a b k)
    (h : leastSquareGridCore [bu, bv] tol [tu, tv] x = .ok cp) :
    cp.shape = [bu.numFunctions, bv.numFunctions, d] ∧
    ∀ a < bu.numFunctions, ∀ b < bv.numFunctions, ∀ k < d,
      cp.entry3 bv.numFunctions d a b k = c0 a b k := by
  obtain ⟨hTu, hGiuS, hLu⟩ := gram_inv_facts bu tol tu htu Giu hGu
  obtain ⟨hTv, hGivS, hLv⟩ := gram_inv_facts bv tol tv htv Giv hGv
  set Nu := colloc bu tol tu 0 with hNu
  set Nv := colloc bv tol tv 0 with hNv
  unfold leastSquareGridCore at h
  simp only [bind, Except.bind, hx', List.zip_cons_cons, List.zip_nil_right, List.map_cons, List.map_nil,
    List.reverse_cons, List.reverse_nil, List.nil_append, List.cons_append, List.mapM_cons, List.mapM_nil,
    pure, Except.pure, List.length_cons, List.length_nil, ← hNu, ← hNv, hGu, hGv] at h
  split at h
  · exact absurd h (by simp)
  · rename_i y hy
    obtain ⟨_, _, hysh, _, hyent⟩ := chain2 (Mat.transpose Nv) (Mat.transpose Nu) x' y hsh hy
    rw [hTu, hTv] at hysh hyent
    obtain ⟨_, _, hcsh, _, hcent⟩ := chain2 Giv Giu y cp hysh h
    -- the first loop produces the Gram-matrix image of `c0`
    have hNuT : ∀ a < bu.numFunctions, ∀ i < tu.length, (Mat.transpose Nu).get a i = Nu.get i a := by
      intro a ha i hi
      apply Mat.get_transpose_c14
      · unfold Mat.ncols
        rw [hNu, row_colloc bu tol tu 0 0 (List.length_pos_of_ne_nil htu), size_evaluate_c14]; exact ha
      · unfold Mat.nrows; rw [hNu, size_colloc]; exact hi
    have hNvT : ∀ a < bv.numFunctions, ∀ i < tv.length, (Mat.transpose Nv).get a i = Nv.get i a := by
      intro a ha i hi
      apply Mat.get_transpose_c14
      · unfold Mat.ncols
        rw [hNv, row_colloc bv tol tv 0 0 (List.length_pos_of_ne_nil htv), size_evaluate_c14]; exact ha
      · unfold Mat.nrows; rw [hNv, size_colloc]; exact hi
    have hy2 : ∀ a' < bu.numFunctions, ∀ b' < bv.numFunctions, ∀ k < d,
        y.entry3 bv.numFunctions d a' b' k
          = ∑ a ∈ range bu.numFunctions, (∑ i ∈ range tu.length, Nu.get i a' * Nu.get i a) *
              ∑ b ∈ range bv.numFunctions, (∑ j ∈ range tv.length, Nv.get j b' * Nv.get j b) * c0 a b k := by
      intro a' ha' b' hb' k hk
      rw [hyent a' ha' b' hb' k hk]
      have e1 : ∀ i ∈ range tu.length, (Mat.transpose Nu).get a' i *
            ∑ j ∈ range tv.length, (Mat.transpose Nv).get b' j * x'.entry3 tv.length d i j k
          = Nu.get i a' * ∑ a ∈ range bu.numFunctions, Nu.get i a *
              ∑ b ∈ range bv.numFunctions, (∑ j ∈ range tv.length, Nv.get j b' * Nv.get j b) * c0 a b k := by
        intro i hi
        have hi' := mem_range.mp hi
        rw [hNuT a' ha' i hi']
        congr 1
        have e2 : ∀ j ∈ range tv.length, (Mat.transpose Nv).get b' j * x'.entry3 tv.length d i j k
            = Nv.get j b' * ∑ a ∈ range bu.numFunctions, Nu.get i a *
                ∑ b ∈ range bv.numFunctions, Nv.get j b * c0 a b k := by
          intro j hj
          rw [hNvT b' hb' j (mem_range.mp hj), hdata i hi' j (mem_range.mp hj) k hk]
        rw [sum_congr rfl e2, sum_swap_c14]
        exact sum_congr rfl (fun a _ => by rw [gram_apply_c14])
      rw [sum_congr rfl e1, gram_apply_c14]
    refine ⟨?_, fun a ha b hb k hk => ?_⟩
    · rw [hcsh, hGiuS, hGivS]
    · rw [hGiuS, hGivS] at hcent
      rw [hcent a ha b hb k hk]
      have e3 : ∀ a' ∈ range bu.numFunctions, Giu.get a a' *
            ∑ b' ∈ range bv.numFunctions, Giv.get b b' * y.entry3 bv.numFunctions d a' b' k
          = Giu.get a a' * ∑ a'' ∈ range bu.numFunctions,
              (∑ i ∈ range tu.length, Nu.get i a' * Nu.get i a'') * c0 a'' b k := by
        intro a' ha'
        congr 1
        have e4 : ∀ b' ∈ range bv.numFunctions, Giv.get b b' * y.entry3 bv.numFunctions d a' b' k
            = Giv.get b b' * ∑ a'' ∈ range bu.numFunctions,
                (∑ i ∈ range tu.length, Nu.get i a' * Nu.get i a'') *
                  ∑ b'' ∈ range bv.numFunctions,
                    (∑ j ∈ range tv.length, Nv.get j b' * Nv.get j b'') * c0 a'' b'' k := by
          intro b' hb'
          rw [hy2 a' (mem_range.mp ha') b' (mem_range.mp hb') k hk]
        rw [sum_congr rfl e4, sum_swap_c14]
        apply sum_congr rfl
        intro a'' _
        congr 1
        exact sum_cancel_c14 bv.numFunctions b hb (fun p r => Giv.get p r)
          (fun r i => ∑ j ∈ range tv.length, Nv.get j r * Nv.get j i) (fun b'' => c0 a'' b'' k)
          (fun i hi => hLv b hb i hi)
      rw [sum_congr rfl e3]
      exact sum_cancel_c14 bu.numFunctions a ha (fun p r => Giu.get p r)
        (fun r i => ∑ l ∈ range tu.length, Nu.get l r * Nu.get l i) (fun a'' => c0 a'' b k)
        (fun i hi => hLu a ha i hi)

end Interp
end Splipy
