import Mathlib.Tactic.Ring
import Mathlib.Tactic.Linarith
import Mathlib.Tactic.FieldSimp
import Splipy.Model.IOObjects
import Splipy.Lemmas.C19G2
import Splipy.Lemmas.C19Mesh

/-! Object-level writer steps: seams of non-periodic objects, the STL sampling rule. -/

namespace Splipy.FileIO

variable {K : Type}

section Seams
variable [Field K] [LinearOrder K] [FloorRing K]

theorem openSeam_nonperiodic (tol : K) (o : Splipy.Obj K) (i : ℕ)
    (h : ¬ (o.basis i).periodic > -1) : openSeam tol o i = .ok o := by
  unfold openSeam
  rw [if_neg h]

theorem openSeamsFrom_nonperiodic (tol : K) (o : Splipy.Obj K)
    (h : ∀ i, ¬ (o.basis i).periodic > -1) : ∀ n i, openSeamsFrom tol n i o = .ok o
  | 0, _ => rfl
  | n + 1, i => by
    simp only [openSeamsFrom, openSeam_nonperiodic tol o i (h i), openSeamsFrom_nonperiodic tol o h n]

/-- Objects without a periodic direction are written as they are. -/
theorem g2WriteObj_nonperiodic (tol : K) (o : Splipy.Obj K)
    (h : ∀ i, ¬ (o.basis i).periodic > -1) : g2WriteObj tol o = .ok (g2Write (toFile o)) := by
  unfold g2WriteObj openSeams
  rw [openSeamsFrom_nonperiodic tol o h]

end Seams

/-! ### The STL sampling rule -/

section Params
variable [Field K] [LinearOrder K] [IsStrictOrderedRing K]

omit [IsStrictOrderedRing K] in
theorem length_linspace (a b : K) (n : ℕ) : (linspace a b n).length = n := by
  simp [linspace]

omit [IsStrictOrderedRing K] in
theorem getElem_linspace (a b : K) (n i : ℕ) (hi : i < n) :
    (linspace a b n)[i]'(by simpa [linspace] using hi) =
      if n = 1 then a else a + (i : K) * ((b - a) / ((n : K) - 1)) := by
  simp [linspace]

/-- `linspace` starts at `a`, ends at `b` (two or more samples) and stays between them. -/
theorem linspace_spec (a b : K) (n : ℕ) :
    (linspace a b n).length = n ∧
    (1 ≤ n → (linspace a b n).head? = some a) ∧
    (2 ≤ n → (linspace a b n).getLast? = some b) ∧
    (a ≤ b → ∀ x ∈ linspace a b n, a ≤ x ∧ x ≤ b) := by
  refine ⟨length_linspace a b n, ?_, ?_, ?_⟩
  · intro hn
    rw [List.head?_eq_getElem?, List.getElem?_eq_getElem (by rw [length_linspace]; omega),
      getElem_linspace a b n 0 hn]
    split_ifs <;> simp
  · intro hn
    rw [List.getLast?_eq_getElem?, length_linspace,
      List.getElem?_eq_getElem (by rw [length_linspace]; omega), getElem_linspace a b n (n - 1) (by omega)]
    have hne : n ≠ 1 := by omega
    rw [if_neg hne]
    have hcast : ((n - 1 : ℕ) : K) = (n : K) - 1 := by
      rw [Nat.cast_sub (by omega)]; simp
    have hpos : (0 : K) < (n : K) - 1 := by
      rw [← hcast]; exact_mod_cast (by omega : 0 < n - 1)
    rw [hcast]
    congr 1
    field_simp
    ring
  · intro hab x hx
    obtain ⟨i, hi, rfl⟩ := List.mem_map.mp hx
    have hi' : i < n := by simpa using hi
    split_ifs with h1
    · exact ⟨le_refl _, hab⟩
    · have hn2 : 2 ≤ n := by omega
      have hpos : (0 : K) < (n : K) - 1 := by
        have : (1 : K) < (n : K) := by exact_mod_cast (by omega : 1 < n)
        linarith
      have hi0 : (0 : K) ≤ (i : K) := Nat.cast_nonneg i
      have hile : (i : K) ≤ (n : K) - 1 := by
        have : (i : K) + 1 ≤ (n : K) := by exact_mod_cast (by omega : i + 1 ≤ n)
        linarith
      have hd : 0 ≤ (b - a) / ((n : K) - 1) := div_nonneg (by linarith) hpos.le
      constructor
      · have := mul_nonneg hi0 hd
        linarith
      · have h1 : (i : K) * ((b - a) / ((n : K) - 1)) ≤ ((n : K) - 1) * ((b - a) / ((n : K) - 1)) :=
          mul_le_mul_of_nonneg_right hile hd
        have h2 : ((n : K) - 1) * ((b - a) / ((n : K) - 1)) = b - a := by
          field_simp
        linarith

omit [IsStrictOrderedRing K] in
/-- The sampling rule of `STL.write_surface` in one direction. -/
theorem stlParams_spec (order : ℕ) (knots : List K) :
    (∀ n, stlParams order knots (some n) = .ok (linspace (knots.headD 0) (knots.getLastD 0) n)) ∧
    (order = 2 → stlParams order knots none = .ok knots) ∧
    (order < 2 → stlParams order knots none = .error .value) ∧
    (3 ≤ order → ∃ l, stlParams order knots none = .ok l ∧
      l.Perm (((knots.zip knots.tail).flatMap fun kk => linspaceOpen kk.1 kk.2 (2 * order - 3)) ++ knots) ∧
      l.Pairwise (· ≤ ·) ∧
      l.length = (knots.length - 1) * (2 * order - 3) + knots.length ∧
      ∀ k ∈ knots, k ∈ l) := by
  refine ⟨fun n => rfl, ?_, ?_, ?_⟩
  · intro h; simp [stlParams, h]
  · intro h
    have : order ≠ 2 := by omega
    simp [stlParams, this, h]
  · intro h
    have h2 : order ≠ 2 := by omega
    have h3 : ¬ order < 2 := by omega
    refine ⟨_, by simp only [stlParams, h2, h3, if_false]; rfl, List.mergeSort_perm _ _, ?_, ?_, ?_⟩
    · have := List.pairwise_mergeSort (le := fun a b : K => decide (a ≤ b))
        (fun a b c hab hbc => by
          simp only [decide_eq_true_eq] at hab hbc ⊢; exact le_trans hab hbc)
        (fun a b => by
          rcases le_total a b with h | h <;> simp [h])
        (((knots.zip knots.tail).flatMap fun kk => linspaceOpen kk.1 kk.2 (2 * order - 3)) ++ knots)
      exact this.imp (fun h => by simpa using h)
    · rw [List.length_mergeSort, List.length_append, List.length_flatMap]
      have : ((knots.zip knots.tail).map fun kk => (linspaceOpen kk.1 kk.2 (2 * order - 3)).length) =
          List.replicate (knots.length - 1) (2 * order - 3) := by
        rw [List.eq_replicate_iff]
        constructor
        · simp [List.length_zip]
        · intro x hx
          obtain ⟨kk, _, rfl⟩ := List.mem_map.mp hx
          simp [linspaceOpen]
      rw [this]
      simp
    · intro k hk
      rw [List.mem_mergeSort]
      exact List.mem_append_right _ hk

end Params

end Splipy.FileIO
