import Splipy.Lemmas.C05Clamped
import Splipy.Lemmas.C05Volume
import Splipy.Lemmas.C12Raise

/-!
# C05 → C12: `RaisesTo` for surfaces (`raise_order(a, direction=i)` on an object with two directions)

`C12.RaisesTo` (Lemmas/C12Direction.lean) is what `make_splines_identical` needs from
`raise_order(p - p_j, direction=i)`.  For curves it is `C12.raisesTo_curve`.  Here it is proved for
`m = 2`: direction `i` clamped continuous (common-entry form, spacing `> 2(p-1)·tol`), the other
direction ANY valid basis (periodic allowed) whose Greville collocation matrix is invertible in the
model (`GrevilleOK`; proved for clamped continuous bases, `grevilleOK_clamped`) — the model, like the
code, re-interpolates the untouched direction too — and the guard of `raise_order` not raising
(`raiseGuard = ok true`; automatic when direction 0 is clamped or periodic).
-/

namespace Splipy

set_option linter.unusedSectionVars false

variable {K : Type} [Field K] [LinearOrder K] [IsStrictOrderedRing K] [FloorRing K]

open Finset C06

/-- The Greville collocation matrix of `b` is invertible in the model (`H_sw` at amount 0): what an
    UNTOUCHED direction of a multi-directional `raise_order` needs. -/
def GrevilleOK (tol : K) (b : Basis K) : Prop :=
  ∃ pts Ni, b.greville = .ok pts ∧ Mat.invChecked (Obj.basisMat b tol pts.toList 0 true) = .ok Ni

theorem grevilleOK_clamped (tol : K) (htol : 0 < tol) (q : ℕ) (hq : 1 ≤ q) (x0 xl : K)
    (umid : List K) (mmid : List ℕ) (hlen : umid.length = mmid.length)
    (hm : ∀ j ∈ mmid, 1 ≤ j ∧ j ≤ q)
    (hgap : Separated (2 * ((q : ℕ) : K) * tol) (clampedU x0 xl umid)) :
    GrevilleOK tol (openBasis (q+1) (clampedU x0 xl umid) (clampedM (q+1) mmid)) := by
  obtain ⟨E, _, h⟩ := dirOK_clamped tol htol q 0 (by omega) x0 xl umid mmid hlen hm (by simpa using hgap)
  have hb0 : openBasis (q+1+0) (clampedU x0 xl umid) (clampedM (q+1+0) (mmid.map (· + 0)))
      = openBasis (q+1) (clampedU x0 xl umid) (clampedM (q+1) mmid) := by simp
  have := h.hsw
  rw [hb0] at this
  exact this

/-- **`raise_order(a, direction=i)` on a surface**, direction `i` clamped continuous (form of
    `C05_knots`), the other direction arbitrary with `GrevilleOK`. -/
theorem raise_dir_surface (tol : K) (htol : 0 < tol) (i : Fin 2) (q a : ℕ) (ha : 1 ≤ a) (x0 xl : K)
    (umid : List K) (mmid : List ℕ) (hlen : umid.length = mmid.length)
    (hm : ∀ j ∈ mmid, 1 ≤ j ∧ j ≤ q)
    (hgap : Separated (2 * ((q + a : ℕ) : K) * tol) (clampedU x0 xl umid))
    (o : Obj K) (hw : C06.WF o 2)
    (hb : o.basis i = openBasis (q+1) (clampedU x0 xl umid) (clampedM (q+1) mmid))
    (hother : ∀ k : Fin 2, k ≠ i → GrevilleOK tol (o.basis k))
    (hguard : Obj.raiseGuard tol o.bases.toList = .ok true) :
    ∃ o', o.raiseOrderDispatch tol false [(a : Int)] (some ((i : ℕ) : Int)) = .ok (.self, o')
      ∧ C06.WF o' 2
      ∧ o'.basis i = openBasis (q+1+a) (clampedU x0 xl umid) (clampedM (q+1+a) (mmid.map (· + a)))
      ∧ C12.SameMap 2 o o' ∧ (∀ k : Fin 2, k ≠ i → o'.basis k = o.basis k)
      ∧ o'.ncomp = o.ncomp ∧ o'.rational = o.rational := by
  obtain ⟨E, _, hd⟩ := dirOK_clamped tol htol q a (by omega) x0 xl umid mmid hlen hm hgap
  rw [← hb] at hd
  have hpd : o.pardim = 2 := by rw [Obj.pardim, shape_of_wf2 hw]; rfl
  have ha0 : ¬ ((a : Int) = 0) := by omega
  have ha1 : (0 : Int) ≤ (a : Int) := by omega
  unfold Obj.raiseOrderDispatch
  simp only [Bool.false_eq_true, if_false]
  fin_cases i
  · have hd1 := dirOK_unchanged tol (o.basis 1) (hw.valid 1) (hother 1 (by decide))
    obtain ⟨o', himp, hwf, h0, h1, hsm, hnc, hrat, _⟩ := raiseImplicit_surface o tol hw a 0 _ _ E _ hd hd1
    refine ⟨o', ?_, hwf, h0, hsm, ?_, hnc, hrat⟩
    · apply raiseOrder_of_implicit o tol _ _ [(a : Int), 0] o' ?_ ?_ ⟨(a : Int), by simp, ha0⟩ hguard
        (by simpa using himp)
      · simp [Obj.normRaises, Obj.checkDirection, hpd]
      · intro r hr; simp at hr; rcases hr with rfl | rfl <;> omega
    · intro k hk
      fin_cases k
      · exact absurd rfl hk
      · exact h1
  · have hd0 := dirOK_unchanged tol (o.basis 0) (hw.valid 0) (hother 0 (by decide))
    obtain ⟨o', himp, hwf, h0, h1, hsm, hnc, hrat, _⟩ := raiseImplicit_surface o tol hw 0 a _ _ _ E hd0 hd
    refine ⟨o', ?_, hwf, h1, hsm, ?_, hnc, hrat⟩
    · apply raiseOrder_of_implicit o tol _ _ [0, (a : Int)] o' ?_ ?_ ⟨(a : Int), by simp, ha0⟩ hguard
        (by simpa using himp)
      · simp [Obj.normRaises, Obj.checkDirection, hpd]
      · intro r hr; simp at hr; rcases hr with rfl | rfl <;> omega
    · intro k hk
      fin_cases k
      · exact h0
      · exact absurd rfl hk

/-- The guard of `SplineObject.raise_order` is `True` when the first basis is periodic. -/
theorem raiseGuard_periodic (tol : K) (b : Basis K) (hper : 0 ≤ b.periodic) (rest : List (Basis K)) :
    Obj.raiseGuard tol (b :: rest) = .ok true := by
  have hp : b.periodic > -1 := by omega
  have hc : ∃ c, b.continuity tol (b.kn 0) = .ok c := by
    unfold Basis.continuity
    simp only [ge_iff_le, hper, if_true]
    split <;> (split <;> exact ⟨_, rfl⟩)
  obtain ⟨c, hc⟩ := hc
  unfold Obj.raiseGuard
  rw [hc]
  simp [hp]

/-- **`raise_order(a, direction=i)` on a volume**, direction `i` clamped continuous, the other two
    directions arbitrary with `GrevilleOK`. -/
theorem raise_dir_volume (tol : K) (htol : 0 < tol) (i : Fin 3) (q a : ℕ) (ha : 1 ≤ a) (x0 xl : K)
    (umid : List K) (mmid : List ℕ) (hlen : umid.length = mmid.length)
    (hm : ∀ j ∈ mmid, 1 ≤ j ∧ j ≤ q)
    (hgap : Separated (2 * ((q + a : ℕ) : K) * tol) (clampedU x0 xl umid))
    (o : Obj K) (hw : C06.WF o 3)
    (hb : o.basis i = openBasis (q+1) (clampedU x0 xl umid) (clampedM (q+1) mmid))
    (hother : ∀ k : Fin 3, k ≠ i → GrevilleOK tol (o.basis k))
    (hguard : Obj.raiseGuard tol o.bases.toList = .ok true) :
    ∃ o', o.raiseOrderDispatch tol false [(a : Int)] (some ((i : ℕ) : Int)) = .ok (.self, o')
      ∧ C06.WF o' 3
      ∧ o'.basis i = openBasis (q+1+a) (clampedU x0 xl umid) (clampedM (q+1+a) (mmid.map (· + a)))
      ∧ C12.SameMap 3 o o' ∧ (∀ k : Fin 3, k ≠ i → o'.basis k = o.basis k)
      ∧ o'.ncomp = o.ncomp ∧ o'.rational = o.rational := by
  obtain ⟨E, _, hd⟩ := dirOK_clamped tol htol q a (by omega) x0 xl umid mmid hlen hm hgap
  rw [← hb] at hd
  have hpd : o.pardim = 3 := by rw [Obj.pardim, shape_of_wf3 hw]; rfl
  have ha0 : ¬ ((a : Int) = 0) := by omega
  unfold Obj.raiseOrderDispatch
  simp only [Bool.false_eq_true, if_false]
  have hun : ∀ k : Fin 3, k ≠ i → DirOK tol (o.basis k) 0 (o.basis k) (fun j k => if j = k then 1 else 0) :=
    fun k hk => dirOK_unchanged tol (o.basis k) (hw.valid k) (hother k hk)
  fin_cases i
  · obtain ⟨o', himp, hwf, h0, h1, h2, hsm, hnc, hrat, _⟩ :=
      raiseImplicit_volume o tol hw a 0 0 _ _ _ E _ _ hd (hun 1 (by decide)) (hun 2 (by decide))
    refine ⟨o', ?_, hwf, h0, hsm, ?_, hnc, hrat⟩
    · apply raiseOrder_of_implicit o tol _ _ [(a : Int), 0, 0] o' ?_ ?_ ⟨(a : Int), by simp, ha0⟩ hguard
        (by simpa using himp)
      · simp [Obj.normRaises, Obj.checkDirection, hpd]
      · intro r hr; simp at hr; rcases hr with rfl | rfl | rfl <;> omega
    · intro k hk
      fin_cases k
      · exact absurd rfl hk
      · exact h1
      · exact h2
  · obtain ⟨o', himp, hwf, h0, h1, h2, hsm, hnc, hrat, _⟩ :=
      raiseImplicit_volume o tol hw 0 a 0 _ _ _ _ E _ (hun 0 (by decide)) hd (hun 2 (by decide))
    refine ⟨o', ?_, hwf, h1, hsm, ?_, hnc, hrat⟩
    · apply raiseOrder_of_implicit o tol _ _ [0, (a : Int), 0] o' ?_ ?_ ⟨(a : Int), by simp, ha0⟩ hguard
        (by simpa using himp)
      · simp [Obj.normRaises, Obj.checkDirection, hpd]
      · intro r hr; simp at hr; rcases hr with rfl | rfl | rfl <;> omega
    · intro k hk
      fin_cases k
      · exact h0
      · exact absurd rfl hk
      · exact h2
  · obtain ⟨o', himp, hwf, h0, h1, h2, hsm, hnc, hrat, _⟩ :=
      raiseImplicit_volume o tol hw 0 0 a _ _ _ _ _ E (hun 0 (by decide)) (hun 1 (by decide)) hd
    refine ⟨o', ?_, hwf, h2, hsm, ?_, hnc, hrat⟩
    · apply raiseOrder_of_implicit o tol _ _ [0, 0, (a : Int)] o' ?_ ?_ ⟨(a : Int), by simp, ha0⟩ hguard
        (by simpa using himp)
      · simp [Obj.normRaises, Obj.checkDirection, hpd]
      · intro r hr; simp at hr; rcases hr with rfl | rfl | rfl <;> omega
    · intro k hk
      fin_cases k
      · exact h0
      · exact h1
      · exact absurd rfl hk

namespace C12

/-- Translation from the `C05_knots` form to the common-entry form of `RaisesTo` (any number of
    directions): given the clamped-form raise theorem `H` for the filtered entry list. -/
theorem raisesTo_of_clamped {α : Type} {m : ℕ} (tol : K) (i : Fin m) (hi : (i : ℕ) ≤ 2) (pj p : ℕ) (hpj : 2 ≤ pj)
    (hle : pj ≤ p) (x0 xl : K) (L : List α) (v : α → K) (f : α → ℕ) (hf : ∀ e ∈ L, f e ≤ pj - 1)
    (hgap : Separated (2 * ((p - 1 : ℕ) : K) * tol) (clampedU x0 xl (L.map v)))
    (o : Obj K) (hw : C06.WF o m)
    (hb : o.basis i = openBasis pj (clampedU x0 xl (L.map v)) (clampedM pj (L.map f)))
    (H : ∀ (q a : ℕ), 1 ≤ a → pj = q + 1 → p = q + 1 + a → ∀ (umid : List K) (mmid : List ℕ),
      umid.length = mmid.length → (∀ j ∈ mmid, 1 ≤ j ∧ j ≤ q) →
      Separated (2 * ((q + a : ℕ) : K) * tol) (clampedU x0 xl umid) →
      o.basis i = openBasis (q+1) (clampedU x0 xl umid) (clampedM (q+1) mmid) →
      ∃ o', o.raiseOrderDispatch tol false [(a : Int)] (some ((i : ℕ) : Int)) = .ok (.self, o')
        ∧ C06.WF o' m
        ∧ o'.basis i = openBasis (q+1+a) (clampedU x0 xl umid) (clampedM (q+1+a) (mmid.map (· + a)))
        ∧ SameMap m o o' ∧ (∀ k : Fin m, k ≠ i → o'.basis k = o.basis k)) :
    RaisesTo tol false m i pj p x0 xl L v f o := by
  rcases Nat.eq_or_lt_of_le hle with heq | hlt
  · subst heq
    exact raisesTo_same tol false i hi pj x0 xl L v f o hw hb
  · obtain ⟨q, rfl⟩ : ∃ q, pj = q + 1 := ⟨pj - 1, by omega⟩
    obtain ⟨a, rfl⟩ : ∃ a, p = q + 1 + a := ⟨p - (q + 1), by omega⟩
    have ha : 1 ≤ a := by omega
    set L' := L.filter (fun e => decide (1 ≤ f e)) with hL'
    have hmem : ∀ e ∈ L', e ∈ L ∧ 1 ≤ f e := by
      intro e he
      rw [hL'] at he
      have := List.mem_filter.mp he
      exact ⟨this.1, by simpa using this.2⟩
    have hm : ∀ j ∈ L'.map f, 1 ≤ j ∧ j ≤ q := by
      intro j hj
      obtain ⟨e, he, rfl⟩ := List.mem_map.mp hj
      have h1 := hmem e he
      have h2 := hf e h1.1
      exact ⟨h1.2, by omega⟩
    have hgap' : Separated (2 * ((q + a : ℕ) : K) * tol) (clampedU x0 xl (L'.map v)) := by
      have : q + 1 + a - 1 = q + a := by omega
      rw [this] at hgap
      exact separated_filter _ x0 xl L v _ hgap
    have hb' : o.basis i = openBasis (q+1) (clampedU x0 xl (L'.map v)) (clampedM (q+1) (L'.map f)) := by
      rw [hb, openBasis_filter]
    obtain ⟨o', hcall, hwf', hbo', hsm, hk⟩ := H q a ha rfl rfl (L'.map v) (L'.map f) (by simp) hm hgap' hb'
    have hamount : (((q + 1 + a : ℕ) : Int) - ((q + 1 : ℕ) : Int)) = (a : Int) := by push_cast; ring
    refine ⟨.self, o', by rw [hamount]; exact hcall, hwf', ?_, hsm, hk⟩
    rw [hbo', openBasis_filter (q+1+a) x0 xl L v (fun e => raisedMult (q + 1 + a - (q + 1)) (f e))]
    have hfilt : L.filter (fun e => decide (1 ≤ raisedMult (q + 1 + a - (q + 1)) (f e))) = L' := by
      rw [hL']
      apply List.filter_congr
      intro e _
      unfold raisedMult
      by_cases h0 : f e = 0
      · simp [h0]
      · have : 1 ≤ f e := by omega
        simp [h0, this]
        omega
    rw [hfilt]
    congr 2
    rw [List.map_map]
    apply List.map_congr_left
    intro e he
    have := (hmem e he).2
    unfold raisedMult
    have h0 : ¬ f e = 0 := by omega
    simp only [Function.comp, h0, if_false]
    omega

/-- **`RaisesTo` is a theorem for surfaces**: direction `i` clamped continuous in common-entry form
    (`f e ≤ p_j − 1`, distinct values more than `2(p−1)·tol` apart), the other direction any valid
    basis with `GrevilleOK`, the guard of `raise_order` not raising. -/
theorem raisesTo_surface {α : Type} (tol : K) (htol : 0 < tol) (i : Fin 2) (pj p : ℕ) (hpj : 2 ≤ pj)
    (hle : pj ≤ p) (x0 xl : K) (L : List α) (v : α → K) (f : α → ℕ) (hf : ∀ e ∈ L, f e ≤ pj - 1)
    (hgap : Separated (2 * ((p - 1 : ℕ) : K) * tol) (clampedU x0 xl (L.map v)))
    (o : Obj K) (hw : C06.WF o 2)
    (hb : o.basis i = openBasis pj (clampedU x0 xl (L.map v)) (clampedM pj (L.map f)))
    (hother : ∀ k : Fin 2, k ≠ i → GrevilleOK tol (o.basis k))
    (hguard : Obj.raiseGuard tol o.bases.toList = .ok true) :
    RaisesTo tol false 2 i pj p x0 xl L v f o := by
  apply raisesTo_of_clamped tol i (by have := i.isLt; omega) pj p hpj hle x0 xl L v f hf hgap o hw hb
  intro q a ha _ _ umid mmid hlen hm hgap' hb'
  obtain ⟨o', h1, h2, h3, h4, h5, _, _⟩ := raise_dir_surface tol htol i q a ha x0 xl umid mmid hlen hm hgap' o hw hb'
    hother hguard
  exact ⟨o', h1, h2, h3, h4, h5⟩

/-- **`RaisesTo` is a theorem for volumes** (same hypotheses, two untouched directions). -/
theorem raisesTo_volume {α : Type} (tol : K) (htol : 0 < tol) (i : Fin 3) (pj p : ℕ) (hpj : 2 ≤ pj)
    (hle : pj ≤ p) (x0 xl : K) (L : List α) (v : α → K) (f : α → ℕ) (hf : ∀ e ∈ L, f e ≤ pj - 1)
    (hgap : Separated (2 * ((p - 1 : ℕ) : K) * tol) (clampedU x0 xl (L.map v)))
    (o : Obj K) (hw : C06.WF o 3)
    (hb : o.basis i = openBasis pj (clampedU x0 xl (L.map v)) (clampedM pj (L.map f)))
    (hother : ∀ k : Fin 3, k ≠ i → GrevilleOK tol (o.basis k))
    (hguard : Obj.raiseGuard tol o.bases.toList = .ok true) :
    RaisesTo tol false 3 i pj p x0 xl L v f o := by
  apply raisesTo_of_clamped tol i (by have := i.isLt; omega) pj p hpj hle x0 xl L v f hf hgap o hw hb
  intro q a ha _ _ umid mmid hlen hm hgap' hb'
  obtain ⟨o', h1, h2, h3, h4, h5, _, _⟩ := raise_dir_volume tol htol i q a ha x0 xl umid mmid hlen hm hgap' o hw hb'
    hother hguard
  exact ⟨o', h1, h2, h3, h4, h5⟩

end C12

end Splipy
