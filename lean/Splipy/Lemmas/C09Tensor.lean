import Mathlib.Algebra.BigOperators.Group.Finset.Basic
import Mathlib.Algebra.Order.Ring.Nat
import Mathlib.Tactic.Ring
import Splipy.Model.Object

/-!
# C09 plumbing: `Tensor.mapLast` control point by control point

`Tensor.mapLast` is written as two nested `for` loops pushing onto an array.  Here it is brought
into the closed form "entry `pI * m + c` of the result is component `c` of `f` applied to the
`pI`-th row", which is what the statements about control points of `Obj.affineCp`,
`Obj.setDimension`, `Obj.forceRational`, `Obj.projectPlane` need.
-/

set_option linter.unusedSectionVars false

namespace Splipy

namespace Tensor

variable {K : Type} [Zero K]

/-- `n` consecutive blocks of length `m`: block `pI` is `c ↦ F pI c`. -/
def blocks (n m : ℕ) (F : ℕ → ℕ → K) : Array K :=
  (List.range n).foldl (fun out pI => (List.range m).foldl (fun out c => out.push (F pI c)) out) #[]

omit [Zero K] in
theorem foldl_push_eq (m : ℕ) (g : ℕ → K) (out : Array K) :
    (List.range m).foldl (fun out c => out.push (g c)) out = out ++ ((List.range m).map g).toArray := by
  induction m generalizing out with
  | zero => simp
  | succ m ih =>
    rw [List.range_succ, List.foldl_append, ih]
    simp [List.map_append]

theorem blocks_succ (n m : ℕ) (F : ℕ → ℕ → K) :
    blocks (n + 1) m F = blocks n m F ++ ((List.range m).map (F n)).toArray := by
  unfold blocks
  rw [List.range_succ, List.foldl_append]
  simp only [List.foldl_cons, List.foldl_nil]
  rw [foldl_push_eq]

theorem blocks_size (n m : ℕ) (F : ℕ → ℕ → K) : (blocks n m F).size = n * m := by
  induction n with
  | zero => simp [blocks]
  | succ n ih => rw [blocks_succ, Array.size_append, ih]; simp; ring

theorem blocks_getD (n m : ℕ) (F : ℕ → ℕ → K) (pI c : ℕ) (hp : pI < n) (hc : c < m) (d : K) :
    (blocks n m F).getD (pI * m + c) d = F pI c := by
  induction n with
  | zero => omega
  | succ n ih =>
    rw [blocks_succ]
    have hsz := blocks_size n m F
    by_cases h : pI < n
    · have hlt : pI * m + c < n * m := by
        calc pI * m + c < pI * m + m := by omega
          _ = (pI + 1) * m := by ring
          _ ≤ n * m := Nat.mul_le_mul_right m (by omega)
      have hlt' : pI * m + c < (blocks n m F ++ ((List.range m).map (F n)).toArray).size := by
        rw [Array.size_append, hsz]; omega
      rw [Array.getD_eq_getD_getElem?, Array.getElem?_eq_getElem hlt', Option.getD_some,
        Array.getElem_append_left (by rw [hsz]; exact hlt)]
      have := ih h
      rw [Array.getD_eq_getD_getElem?, Array.getElem?_eq_getElem (by rw [hsz]; exact hlt),
        Option.getD_some] at this
      exact this
    · have hpn : pI = n := by omega
      subst hpn
      have hlt' : pI * m + c < (blocks pI m F ++ ((List.range m).map (F pI)).toArray).size := by
        rw [Array.size_append, hsz]; simp; omega
      rw [Array.getD_eq_getD_getElem?, Array.getElem?_eq_getElem hlt', Option.getD_some,
        Array.getElem_append_right (by rw [hsz]; omega)]
      simp [hsz]

/-- Row `pI` of a tensor whose last axis has length `nc`. -/
def row (t : Tensor K) (pI : ℕ) : Array K :=
  t.data.extract (pI * t.shape.getLastD 1) (pI * t.shape.getLastD 1 + t.shape.getLastD 1)

theorem mapLast_data (t : Tensor K) (m : ℕ) (f : Array K → Array K) :
    (t.mapLast m f).data =
      blocks (t.size / t.shape.getLastD 1) m (fun pI c => (f (t.row pI)).getD c 0) := by
  simp [mapLast, blocks, row, Std.Legacy.Range.forIn_eq_forIn_range', Std.Legacy.Range.size,
    List.range_eq_range']

theorem mapLast_shape (t : Tensor K) (m : ℕ) (f : Array K → Array K) :
    (t.mapLast m f).shape = t.shape.dropLast ++ [m] := rfl

/-- Entry `(pI, c)` of `mapLast`. -/
theorem mapLast_get (t : Tensor K) (m : ℕ) (f : Array K → Array K) (pI c : ℕ)
    (hp : pI < t.size / t.shape.getLastD 1) (hc : c < m) :
    (t.mapLast m f).get (pI * m + c) = (f (t.row pI)).getD c 0 := by
  unfold get
  rw [mapLast_data, blocks_getD _ _ _ _ _ hp hc]

theorem mapLast_data_size (t : Tensor K) (m : ℕ) (f : Array K → Array K) :
    (t.mapLast m f).data.size = t.size / t.shape.getLastD 1 * m := by
  rw [mapLast_data, blocks_size]

/-- Component `j` of row `pI` is entry `pI * nc + j` of the flat data. -/
theorem row_getD (t : Tensor K) (pI j : ℕ) (hj : j < t.shape.getLastD 1) :
    (t.row pI).getD j 0 = t.get (pI * t.shape.getLastD 1 + j) := by
  unfold row get
  simp only [Array.getD_eq_getD_getElem?, Array.getElem?_extract]
  split
  · rfl
  · rename_i h
    rw [Array.getElem?_eq_none (by omega)]

omit [Zero K] in
theorem row_size (t : Tensor K) (pI : ℕ)
    (h : (pI + 1) * t.shape.getLastD 1 ≤ t.data.size) : (t.row pI).size = t.shape.getLastD 1 := by
  unfold row
  rw [Array.size_extract]
  have : (pI + 1) * t.shape.getLastD 1 = pI * t.shape.getLastD 1 + t.shape.getLastD 1 := by ring
  omega

theorem prod_append_singleton (l : List ℕ) (m : ℕ) : prod (l ++ [m]) = prod l * m := by
  simp [prod, List.foldl_append]

end Tensor

end Splipy
