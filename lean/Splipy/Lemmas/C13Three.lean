import Mathlib.Tactic.Ring
import Mathlib.Tactic.FieldSimp
import Mathlib.Tactic.Linarith
import Mathlib.Tactic.LinearCombination
import Mathlib.Tactic.Positivity
import Splipy.Lemmas.C13Place

/-!
# C13: the branch test of `circle_segment_from_three_points`

`sameSigns tol w2 nrm` (component-wise sign comparison with an ABSOLUTE tolerance, the code as it is)
versus `keepDot w2 nrm` (sign of the dot product, the scale-independent repair), for parallel
vectors `nrm = λ·w2`.
-/

namespace Splipy.Fac

variable {K : Type} [Field K] [LinearOrder K] [IsStrictOrderedRing K]

omit [IsStrictOrderedRing K] in
theorem keepDot_iff (w n : List K) : keepDot w n = true ↔ 0 ≤ dot3 w n := by
  simp [keepDot]

theorem sgn_mul_pos (l x : K) (hl : 0 < l) : sgn (l * x) = sgn x := by
  unfold sgn
  rcases lt_trichotomy x 0 with h | h | h
  · have : l * x < 0 := mul_neg_of_pos_of_neg hl h
    simp [h, this]
  · simp [h]
  · have : 0 < l * x := mul_pos hl h
    simp [h, this, not_lt.mpr (le_of_lt h), not_lt.mpr (le_of_lt this)]

theorem sgn_ne_of_nonpos (l x : K) (hl : l ≤ 0) (hx : x ≠ 0) : sgn x ≠ sgn (l * x) := by
  unfold sgn
  rcases lt_or_gt_of_ne hx with h | h
  · have h2 : 0 ≤ l * x := mul_nonneg_of_nonpos_of_nonpos hl (le_of_lt h)
    simp [h, not_lt.mpr h2]
    split <;> omega
  · have h2 : l * x ≤ 0 := mul_nonpos_of_nonpos_of_nonneg hl (le_of_lt h)
    simp [h, not_lt.mpr (le_of_lt h), not_lt.mpr h2]
    split <;> omega

/-- one component of the sign test fails when `λ ≤ 0` and the component of `w2` is at least `tol`. -/
theorem comp_fails (tol l x : K) (hl : l ≤ 0) (hx : tol ≤ |x|) (htol : 0 < tol) :
    (decide (sgn x = sgn (l * x)) || decide (|x - l * x| < tol)) = false := by
  have hx0 : x ≠ 0 := by
    intro h; rw [h, abs_zero] at hx; linarith
  have h1 : ¬ sgn x = sgn (l * x) := sgn_ne_of_nonpos l x hl hx0
  have h2 : ¬ |x - l * x| < tol := by
    have : |x - l * x| = |x| * (1 - l) := by
      have : x - l * x = x * (1 - l) := by ring
      rw [this, abs_mul, abs_of_nonneg (by linarith : 0 ≤ 1 - l)]
    rw [this]
    have : |x| ≤ |x| * (1 - l) := by nlinarith [abs_nonneg x]
    linarith
  simp [h1, h2]

/-- **The code's sign test, for parallel normals**: with `nrm = λ·w2` and some component of `w2` of
    magnitude at least `tol`, `sameSigns` holds exactly when the vectors point the same way. -/
theorem sameSigns_iff (tol l w1 w2 w3 : K) (htol : 0 < tol)
    (hg : tol ≤ |w1| ∨ tol ≤ |w2| ∨ tol ≤ |w3|) :
    sameSigns tol [w1, w2, w3] [l * w1, l * w2, l * w3] = true
      ↔ 0 < dot3 [l * w1, l * w2, l * w3] [w1, w2, w3] := by
  have hdot : dot3 [l * w1, l * w2, l * w3] [w1, w2, w3] = l * (w1 ^ 2 + w2 ^ 2 + w3 ^ 2) := by
    simp [dot3]; ring
  have hpos : 0 < w1 ^ 2 + w2 ^ 2 + w3 ^ 2 := by
    rcases hg with h | h | h
    · have : w1 ≠ 0 := by intro e; rw [e, abs_zero] at h; linarith
      have := sq_pos_of_ne_zero (a := w1) this
      nlinarith [sq_nonneg w2, sq_nonneg w3]
    · have : w2 ≠ 0 := by intro e; rw [e, abs_zero] at h; linarith
      have := sq_pos_of_ne_zero (a := w2) this
      nlinarith [sq_nonneg w1, sq_nonneg w3]
    · have : w3 ≠ 0 := by intro e; rw [e, abs_zero] at h; linarith
      have := sq_pos_of_ne_zero (a := w3) this
      nlinarith [sq_nonneg w1, sq_nonneg w2]
  rw [hdot]
  rcases lt_or_ge 0 l with hl | hl
  · have h1 := sgn_mul_pos l w1 hl
    have h2 := sgn_mul_pos l w2 hl
    have h3 := sgn_mul_pos l w3 hl
    constructor
    · intro _; exact mul_pos hl hpos
    · intro _
      simp [sameSigns, h1, h2, h3]
  · constructor
    · intro h
      exfalso
      simp only [sameSigns, List.zipWith, List.all_cons, List.all_nil, Bool.and_true, id] at h
      rcases hg with g | g | g
      · have := comp_fails tol l w1 hl g htol
        simp [this] at h
      · have := comp_fails tol l w2 hl g htol
        simp [this] at h
      · have := comp_fails tol l w3 hl g htol
        simp [this] at h
    · intro h
      exfalso
      have : l * (w1 ^ 2 + w2 ^ 2 + w3 ^ 2) ≤ 0 := mul_nonpos_of_nonpos_of_nonneg hl (le_of_lt hpos)
      linarith

omit [LinearOrder K] [IsStrictOrderedRing K] in
/-- `a, b ⟂ n` ⇒ `a × b` is parallel to `n`:  `(a×b)_i·|n|² = ((a×b)·n)·n_i`. -/
theorem cross_parallel (a1 a2 a3 b1 b2 b3 n1 n2 n3 : K)
    (h0 : a1 * n1 + a2 * n2 + a3 * n3 = 0) (h2 : b1 * n1 + b2 * n2 + b3 * n3 = 0) :
    let t := (a2 * b3 - a3 * b2) * n1 + (a3 * b1 - a1 * b3) * n2 + (a1 * b2 - a2 * b1) * n3
    (a2 * b3 - a3 * b2) * (n1 ^ 2 + n2 ^ 2 + n3 ^ 2) = t * n1 ∧
    (a3 * b1 - a1 * b3) * (n1 ^ 2 + n2 ^ 2 + n3 ^ 2) = t * n2 ∧
    (a1 * b2 - a2 * b1) * (n1 ^ 2 + n2 ^ 2 + n3 ^ 2) = t * n3 := by
  refine ⟨?_, ?_, ?_⟩
  · linear_combination (n3 * a2 - n2 * a3) * h2 - (n3 * b2 - n2 * b3) * h0
  · linear_combination (n1 * a3 - n3 * a1) * h2 - (n1 * b3 - n3 * b1) * h0
  · linear_combination (n2 * a1 - n1 * a2) * h2 - (n2 * b1 - n1 * b2) * h0

omit [IsStrictOrderedRing K] in
theorem solve3_shape (r1 r2 r3 b c : List K) (h : solve3 r1 r2 r3 b = .ok c) : ∃ x y z, c = [x, y, z] := by
  unfold solve3 at h
  split at h
  · dsimp only at h
    split_ifs at h with hd
    · cases h
      exact ⟨_, _, _, rfl⟩
  · cases h


/-- the code's sign test decides the orientation, for `v0, v2 ⟂ n` and `n` with a component of
    magnitude at least `tol`. -/
theorem sameSigns_cross_iff (tol p1 p2 p3 q1 q2 q3 n1 n2 n3 : K) (htol : 0 < tol)
    (h0 : p1 * n1 + p2 * n2 + p3 * n3 = 0) (h2 : q1 * n1 + q2 * n2 + q3 * n3 = 0)
    (hg : tol ≤ |n1| ∨ tol ≤ |n2| ∨ tol ≤ |n3|) :
    sameSigns tol [n1, n2, n3] (cross3 [p1, p2, p3] [q1, q2, q3]) = true
      ↔ 0 < dot3 (cross3 [p1, p2, p3] [q1, q2, q3]) [n1, n2, n3] := by
  obtain ⟨e1, e2, e3⟩ := cross_parallel p1 p2 p3 q1 q2 q3 n1 n2 n3 h0 h2
  have hNN : 0 < n1 ^ 2 + n2 ^ 2 + n3 ^ 2 := by
    have s1 := sq_nonneg n1
    have s2 := sq_nonneg n2
    have s3 := sq_nonneg n3
    rcases hg with g | g | g
    · have : n1 ≠ 0 := by intro e; rw [e, abs_zero] at g; linarith
      have := sq_pos_of_ne_zero (a := n1) this
      linarith
    · have : n2 ≠ 0 := by intro e; rw [e, abs_zero] at g; linarith
      have := sq_pos_of_ne_zero (a := n2) this
      linarith
    · have : n3 ≠ 0 := by intro e; rw [e, abs_zero] at g; linarith
      have := sq_pos_of_ne_zero (a := n3) this
      linarith
  have hne : n1 ^ 2 + n2 ^ 2 + n3 ^ 2 ≠ 0 := ne_of_gt hNN
  have hcr : cross3 [p1, p2, p3] [q1, q2, q3]
      = [((p2 * q3 - p3 * q2) * n1 + (p3 * q1 - p1 * q3) * n2 + (p1 * q2 - p2 * q1) * n3) / (n1 ^ 2 + n2 ^ 2 + n3 ^ 2) * n1,
         ((p2 * q3 - p3 * q2) * n1 + (p3 * q1 - p1 * q3) * n2 + (p1 * q2 - p2 * q1) * n3) / (n1 ^ 2 + n2 ^ 2 + n3 ^ 2) * n2,
         ((p2 * q3 - p3 * q2) * n1 + (p3 * q1 - p1 * q3) * n2 + (p1 * q2 - p2 * q1) * n3) / (n1 ^ 2 + n2 ^ 2 + n3 ^ 2) * n3] := by
    simp only [cross3]
    congr 1
    · field_simp; linear_combination e1
    · congr 1
      · field_simp; linear_combination e2
      · congr 1
        field_simp; linear_combination e3
  rw [hcr]
  exact sameSigns_iff tol _ n1 n2 n3 htol hg

omit [IsStrictOrderedRing K] in
/-- what `threePointDataWith` returns, in components. -/
theorem threePointDataWith_ok (useDot : Bool) (tol a1 a2 a3 b1 b2 b3 c1 c2 c3 : K) (d : ThreePt K)
    (hd : threePointDataWith useDot tol [a1, a2, a3] [b1, b2, b3] [c1, c2, c3] = .ok d) :
    ∃ x y z : K, threePointCenter [a1, a2, a3] [b1, b2, b3] [c1, c2, c3] = .ok [x, y, z] ∧
      d.center = [x, y, z] ∧ d.v0 = [a1 - x, a2 - y, a3 - z] ∧ d.v2 = [c1 - x, c2 - y, c3 - z] ∧
      d.w2 = cross3 [a1 - c1, a2 - c2, a3 - c3] [b1 - c1, b2 - c2, b3 - c3] ∧
      d.keep = (if useDot then keepDot d.w2 (cross3 d.v0 d.v2) else sameSigns tol d.w2 (cross3 d.v0 d.v2)) := by
  unfold threePointDataWith at hd
  simp only [pad3, List.cons_append, List.nil_append, List.take_succ_cons, List.take_zero, bind, Except.bind] at hd
  rcases hc : threePointCenter [a1, a2, a3] [b1, b2, b3] [c1, c2, c3] with e | c
  · rw [hc] at hd; simp at hd
  · rw [hc] at hd
    -- the solution of a 3×3 system is a list of three numbers
    have hshape : ∃ x y z, c = [x, y, z] := solve3_shape _ _ _ _ c (by unfold threePointCenter at hc; exact hc)
    obtain ⟨x, y, z, rfl⟩ := hshape
    simp only [pure, Except.pure, Except.ok.injEq] at hd
    subst hd
    refine ⟨x, y, z, rfl, rfl, ?_, ?_, ?_, rfl⟩ <;> simp [sub3]


end Splipy.Fac
