import Splipy.Lemmas.C10Ctor
import Splipy.Lemmas.C10Reparam
import Splipy.Lemmas.C10Affine
import Splipy.Lemmas.C10Insert
import Splipy.Lemmas.C10Section
import Splipy.Lemmas.C10Split
import Splipy.Lemmas.C10Periodic
import Splipy.Lemmas.C10Raise
import Splipy.Lemmas.C10PerInsert
import Splipy.Lemmas.C10MakePeriodic
import Splipy.Lemmas.C10PerOps
import Splipy.Lemmas.C10Append
import Splipy.Lemmas.C10Identical

/-!
# C10 helper lemmas, part 9: assembling the per-operation lemmas into the reachability induction

`History.Covered tol o op` collects, per operation family, the hypotheses under which
`History.stepOut tol o op` is PROVED to keep objects well formed (`stepOut_covered_wf`);
`History.CoveredRun` says that every instruction of a pool history is covered at the moment it is
executed; `History.run_wf` is the induction over the history.

Every family of the API is covered under the guard of the theorem of the property that owns it
(`Covered`), and the two-object pool instruction `make_splines_identical` under `Obj.IdenticalGuardAll`
(`Instr.IdentOK`).  Outside the guards (periodic directions with `n < p + k`, knots of multiplicity ≥ order
under `raise_order`, general `lower_order`) the real code has known defects and nothing is claimed.
-/

set_option linter.unusedSectionVars false

namespace Splipy

variable {K : Type} [Field K] [LinearOrder K] [IsStrictOrderedRing K] [FloorRing K]

namespace History

/-- The hypotheses under which one call is proved to preserve well-formedness — per family exactly the
    guard of the theorem it rests on (C05 clamped spacing for raise/lower_order, C07 exact-tolerance hypotheses for
    periodic split, values of the half-open domain on open directions; periodic insertion, refine and
    lower_periodic need nothing). -/
def Covered (tol : K) (o : Obj K) : Op K → Prop
  | .insertKnot knots dir => Obj.OpenKnotsOK (o.basis dir) knots
  | .refine _ _ => True
  | .raiseOrder raises direction => RaiseGuard tol o raises direction
  | .lowerOrder lowers =>
      (∀ l ∈ lowers, l = 0) ∨
      ∃ (o0 : Obj K) (raises : List Int) (direction : Option Int) (out0 : Out K),
        o0.WellFormed ∧ LowerGuard tol o0 raises direction lowers ∧
        stepOut tol o0 (.raiseOrder raises direction) = .ok out0 ∧ out0.recv = o
  | .reverse _ => True
  | .swap _ _ => True
  | .reparam _ _ _ => True
  | .reparamAll _ => True
  | .split knots dir => SplitOKAll o tol knots dir
  | .append other => AppendGuard tol o other
  | .makePeriodic c dir =>
      ((o.basis dir).order : Int) + c.getD (((o.basis dir).order : Int) - 2) ≤ (o.basis dir).numFunctions
  | .lowerPeriodic _ _ => True
  | .affine op => op.Admissible
  | .section _ => True
  | .extrude _ => True
  | .clone => True

/-- **One covered call keeps every object well formed** (receiver afterwards and created objects). -/
theorem stepOut_covered_wf {o : Obj K} (h : o.WellFormed) (tol : K) (htol : 0 < tol) (op : Op K)
    (hc : Covered tol o op) (hoth : ∀ other, op = .append other → other.WellFormed) {out : Out K}
    (hs : stepOut tol o op = .ok out) : out.recv.WellFormed ∧ ∀ n ∈ out.news, n.WellFormed := by
  have nil : ∀ {r : Obj K}, r.WellFormed → out.recv = r → out.news = [] →
      out.recv.WellFormed ∧ ∀ n ∈ out.news, n.WellFormed := by
    intro r hr h1 h2
    rw [h1, h2]
    exact ⟨hr, fun n hn => absurd hn (List.not_mem_nil)⟩
  cases op with
  | insertKnot knots dir =>
      obtain ⟨h1, h2⟩ := stepOut_insertKnot_all_wf_partial h tol knots dir hc hs
      exact nil h1 rfl h2
  | refine ns direction =>
      obtain ⟨h1, h2⟩ := stepOut_refine_wf_all h tol htol.le ns direction hs
      exact nil h1 rfl h2
  | raiseOrder raises direction =>
      obtain ⟨h1, h2⟩ := stepOut_raiseOrder_wf_partial h tol htol raises direction hc hs
      exact nil h1 rfl h2
  | lowerOrder lowers =>
      rcases hc with hz | ⟨o0, raises, direction, out0, h0, hg, hs0, hr⟩
      · obtain ⟨h1, h2⟩ := stepOut_lowerOrder_zero o tol lowers hz hs
        rw [h1, h2]
        exact ⟨h, fun n hn => by rw [List.mem_singleton] at hn; rw [hn]; exact h⟩
      · subst hr
        obtain ⟨h1, o'', h2, h3, _⟩ := stepOut_lowerOrder_wf_partial h0 tol htol raises direction lowers hg hs0 hs
        rw [h1, h2]
        exact ⟨h, fun n hn => by rw [List.mem_singleton] at hn; rw [hn]; exact h3⟩
  | reverse dir =>
      obtain ⟨h1, h2⟩ := stepOut_reverse_wf h tol dir hs
      exact nil h1 rfl h2
  | swap d1 d2 =>
      obtain ⟨h1, h2⟩ := stepOut_swap_wf h tol d1 d2 hs
      exact nil h1 rfl h2
  | reparam dir s e =>
      obtain ⟨h1, h2⟩ := stepOut_reparam_wf h tol dir s e hs
      exact nil h1 rfl h2
  | reparamAll args =>
      obtain ⟨h1, h2⟩ := stepOut_reparamAll_wf h tol args hs
      exact nil h1 rfl h2
  | split knots dir => exact stepOut_split_all_wf_partial h tol knots dir hc hs
  | append other =>
      obtain ⟨h1, h2⟩ := stepOut_append_any_wf_partial h (hoth other rfl) tol htol hc hs
      exact nil h1 rfl h2
  | makePeriodic c dir => exact stepOut_makePeriodic_wf_long_partial h tol c dir hs hc
  | lowerPeriodic t dir =>
      obtain ⟨h1, h2⟩ := stepOut_lowerPeriodic_wf h tol t dir hs
      exact nil h1 rfl h2
  | affine aop => exact stepOut_affine_wf h tol aop hc hs
  | «section» sec => exact stepOut_section_wf h tol sec hs
  | extrude amount => exact stepOut_extrude_wf h tol amount hs
  | clone => exact stepOut_clone_wf h tol hs

/-- The list form `History.step` (receiver afterwards :: created objects). -/
theorem step_covered_wf {o : Obj K} (h : o.WellFormed) (tol : K) (htol : 0 < tol) (op : Op K)
    (hc : Covered tol o op) (hoth : ∀ other, op = .append other → other.WellFormed) {os : List (Obj K)}
    (hs : step tol o op = .ok os) : ∀ o' ∈ os, o'.WellFormed := by
  unfold step at hs
  cases hr : stepOut tol o op with
  | error e => rw [hr] at hs; cases hs
  | ok out =>
    rw [hr] at hs
    have : out.recv :: out.news = os := Except.ok.inj hs
    obtain ⟨h1, h2⟩ := stepOut_covered_wf h tol htol op hc hoth hr
    intro o' ho'
    rw [← this] at ho'
    rcases List.mem_cons.1 ho' with e | e
    · rw [e]; exact h1
    · exact h2 o' e

/-- From any `stepOut` result to `step`. -/
theorem step_of_stepOut {o : Obj K} {tol : K} {op : Op K} {os : List (Obj K)}
    (hs : step tol o op = .ok os) : ∃ out : Out K, stepOut tol o op = .ok out ∧ os = out.recv :: out.news := by
  unfold step at hs
  cases hr : stepOut tol o op with
  | error e => rw [hr] at hs; cases hs
  | ok out => rw [hr] at hs; exact ⟨out, rfl, (Except.ok.inj hs).symm⟩

/-- `step` in terms of `stepOut` (receiver afterwards :: created objects). -/
theorem wf_of_stepOut {o : Obj K} {tol : K} {op : Op K} {os : List (Obj K)}
    (hs : step tol o op = .ok os)
    (h : ∀ out : Out K, stepOut tol o op = .ok out → out.recv.WellFormed ∧ ∀ n ∈ out.news, n.WellFormed) :
    ∀ o' ∈ os, o'.WellFormed := by
  obtain ⟨out, h1, rfl⟩ := step_of_stepOut hs
  obtain ⟨h2, h3⟩ := h out h1
  intro o' ho'
  rcases List.mem_cons.1 ho' with e | e
  · rw [e]; exact h2
  · exact h3 o' e

theorem of_nil {out : Out K} (h : out.recv.WellFormed ∧ out.news = []) :
    out.recv.WellFormed ∧ ∀ n ∈ out.news, n.WellFormed :=
  ⟨h.1, fun n hn => by rw [h.2] at hn; exact absurd hn List.not_mem_nil⟩

/-! ## pools -/

/-- A literal `append` instruction carries its argument itself (not a pool reference): it must be well
    formed.  (`Instr.append i j` takes the argument from the pool, where it is well formed anyway.) -/
def Instr.ArgsWF : Instr K → Prop
  | .on _ (.append other) => other.WellFormed
  | _ => True

/-- The guard of the two-object instruction `make_splines_identical` on the current pool (stage-wise guard
    `Obj.IdenticalGuardAll` of the two objects it acts on); `True` for every other instruction. -/
def Instr.IdentOK (tol : K) (pool : List (Obj K)) : Instr K → Prop
  | .identical i j direction =>
      ∀ a b, pool[i]? = some a → pool[j]? = some b →
        Obj.IdenticalGuardAll tol a b (direction.map (fun d => DirTok.int d))
  | _ => True

/-- Every instruction of the history is covered at the moment it is executed. -/
def CoveredRun (tol : K) : List (Obj K) → List (Instr K) → Prop
  | _, [] => True
  | pool, ins :: rest =>
      ins.ArgsWF ∧ ins.IdentOK tol pool ∧
      (∀ i op, ins.resolve pool = .ok (i, op) → Covered tol (pool.getD i default) op) ∧
      (∀ pool', exec tol pool ins = .ok pool' → CoveredRun tol pool' rest)

theorem mem_of_getD {pool : List (Obj K)} {i : ℕ} (hi : i < pool.length) : pool.getD i default ∈ pool := by
  rw [List.getD_eq_getElem?_getD, List.getElem?_eq_getElem hi]
  exact List.getElem_mem hi

theorem resolve_spec {pool : List (Obj K)} (hpool : ∀ o ∈ pool, o.WellFormed) {ins : Instr K}
    (harg : ins.ArgsWF) {i : ℕ} {op : Op K} (h : ins.resolve pool = .ok (i, op)) :
    i < pool.length ∧ ∀ other, op = .append other → other.WellFormed := by
  cases ins with
  | on j op' =>
    simp only [Instr.resolve] at h
    split_ifs at h with hj
    injection h with h
    injection h with h1 h2
    subst h1; subst h2
    refine ⟨hj, fun other ho => ?_⟩
    subst ho
    exact harg
  | append j k =>
    simp only [Instr.resolve] at h
    cases hk : pool[k]? with
    | none => rw [hk] at h; cases h
    | some other' =>
      rw [hk] at h
      simp only at h
      split_ifs at h with hj
      injection h with h
      injection h with h1 h2
      subst h1
      refine ⟨hj, fun other ho => ?_⟩
      rw [← h2] at ho
      injection ho with ho
      rw [← ho]
      exact hpool _ (List.mem_of_getElem? hk)
  | identical j k d => simp only [Instr.resolve] at h; cases h

/-- **One instruction on a pool of well-formed objects.** -/
theorem exec_wf {pool pool' : List (Obj K)} (hpool : ∀ o ∈ pool, o.WellFormed) (tol : K) (htol : 0 < tol)
    {ins : Instr K} (harg : ins.ArgsWF) (hid : ins.IdentOK tol pool)
    (hcov : ∀ i op, ins.resolve pool = .ok (i, op) → Covered tol (pool.getD i default) op)
    (hs : exec tol pool ins = .ok pool') : ∀ o ∈ pool', o.WellFormed := by
  by_cases hisid : ∃ j k d, ins = .identical j k d
  · obtain ⟨j, k, d, rfl⟩ := hisid
    exact exec_identical_wf_all hpool tol htol j k d hid hs
  have hex : exec tol pool ins = (do
      let (i, op) ← ins.resolve pool
      let out ← stepOut tol (pool.getD i default) op
      pure (pool.set i out.recv ++ out.news)) := by
    cases ins with
    | identical j k d => exact absurd ⟨j, k, d, rfl⟩ hisid
    | on j op' => rfl
    | append j k => rfl
  rw [hex] at hs
  cases hr : ins.resolve pool with
  | error e => rw [hr] at hs; cases hs
  | ok iop =>
    obtain ⟨i, op⟩ := iop
    rw [hr] at hs
    obtain ⟨hi, hoth⟩ := resolve_spec hpool harg hr
    cases hso : stepOut tol (pool.getD i default) op with
    | error e =>
      simp only [bind, Except.bind, hso] at hs
      cases hs
    | ok out =>
      simp only [bind, Except.bind, hso, pure, Except.pure] at hs
      have hp : pool.set i out.recv ++ out.news = pool' := Except.ok.inj hs
      obtain ⟨h1, h2⟩ := stepOut_covered_wf (hpool _ (mem_of_getD hi)) tol htol op (hcov i op hr) hoth hso
      intro o ho
      rw [← hp] at ho
      rcases List.mem_append.1 ho with e | e
      · rcases List.mem_or_eq_of_mem_set e with e' | e'
        · exact hpool o e'
        · rw [e']; exact h1
      · exact h2 o e

/-- **Reachability**: a history all of whose instructions are covered leads from a pool of well-formed
    objects to a pool of well-formed objects. -/
theorem run_wf (tol : K) (htol : 0 < tol) : ∀ (ops : List (Instr K)) (pool pool' : List (Obj K)),
    (∀ o ∈ pool, o.WellFormed) → CoveredRun tol pool ops → run tol pool ops = .ok pool' →
    ∀ o ∈ pool', o.WellFormed := by
  intro ops
  induction ops with
  | nil =>
    intro pool pool' hpool _ hs
    unfold run at hs
    simp only [List.foldlM_nil, pure, Except.pure] at hs
    rw [← Except.ok.inj hs]; exact hpool
  | cons ins rest ih =>
    intro pool pool' hpool hcov hs
    unfold run at hs
    rw [List.foldlM_cons] at hs
    cases he : exec tol pool ins with
    | error e =>
      simp only [bind, Except.bind, he] at hs
      cases hs
    | ok pool1 =>
      simp only [bind, Except.bind, he] at hs
      obtain ⟨harg, hid, hc1, hc2⟩ := hcov
      exact ih pool1 pool' (exec_wf hpool tol htol harg hid hc1 he) (hc2 pool1 he) hs

end History

end Splipy
