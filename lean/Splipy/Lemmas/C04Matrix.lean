import Splipy.Model.BasisOps
import Splipy.Model.Valid
import Mathlib.Tactic.Ring
import Mathlib.Tactic.Linarith
import Mathlib.Algebra.BigOperators.Intervals

/-!
# C04 helper lemmas, part 1: the matrix `C` built by `Basis.insertKnot`

`Basis.insertKnot` builds `C` by three folds of single-entry writes (`setC`) into a zero matrix.
Here the folds are named (`loop1`, `loop2`, `loop3`, `matC`), related to folds of *functional*
writes `setF` on `ℕ → ℕ → K` (`Rel`), and the functional folds are evaluated in closed form for the
non-wrapping case (all row indices `< n+1`, all column indices `< n`), which is the non-periodic case.
-/

namespace Splipy
namespace C04

set_option linter.unusedSectionVars false

variable {K : Type} [Field K] [LinearOrder K]

/-- `C[r][c]` with the defaults of the model (`0` outside). -/
def entry (C : Array (Array K)) (r c : ℕ) : K := (C.getD r #[]).getD c 0

/-- `C[r, c] = v` (numpy item assignment; silently nothing when out of range in the model — the
    indices are in range wherever the code runs). -/
def setC (C : Array (Array K)) (r c : ℕ) (v : K) : Array (Array K) :=
  C.modify r (fun row => row.set! c v)

/-- functional write -/
def setF (F : ℕ → ℕ → K) (r c : ℕ) (v : K) : ℕ → ℕ → K :=
  fun r' c' => if r' = r ∧ c' = c then v else F r' c'

/-- `rows × cols` shape -/
def Shape (rows cols : ℕ) (C : Array (Array K)) : Prop :=
  C.size = rows ∧ ∀ r, r < rows → (C.getD r #[]).size = cols

/-- array `C` represents the function `F` on `rows × cols`. -/
def Rel (rows cols : ℕ) (C : Array (Array K)) (F : ℕ → ℕ → K) : Prop :=
  Shape rows cols C ∧ ∀ r c, r < rows → c < cols → entry C r c = F r c

theorem getD_setC_row (C : Array (Array K)) (r c r' : ℕ) (v : K) :
    (setC C r c v).getD r' #[] = if r' = r then (C.getD r #[]).set! c v else C.getD r' #[] := by
  unfold setC
  simp only [Array.getD_eq_getD_getElem?, Array.getElem?_modify]
  by_cases h : r = r'
  · subst h
    simp only [if_true]
    cases hC : C[r]? with
    | none => simp [Array.set!, Array.setIfInBounds]
    | some row => simp
  · have h' : ¬ r' = r := fun e => h e.symm
    simp [h, h']

theorem shape_setC {rows cols : ℕ} {C : Array (Array K)} (h : Shape rows cols C) (r c : ℕ) (v : K) :
    Shape rows cols (setC C r c v) := by
  refine ⟨by simp [setC, h.1], fun r' hr' => ?_⟩
  rw [getD_setC_row]
  split_ifs with e
  · subst e
    have := h.2 _ hr'
    simpa [Array.set!] using this
  · exact h.2 _ hr'

theorem entry_setC {rows cols : ℕ} {C : Array (Array K)} (h : Shape rows cols C) (r c : ℕ) (v : K)
    (hr : r < rows) (hc : c < cols) (r' c' : ℕ) :
    entry (setC C r c v) r' c' = setF (entry C) r c v r' c' := by
  unfold entry setF
  rw [getD_setC_row]
  by_cases e : r' = r
  · subst e
    simp only [if_true, true_and]
    have hs : (C.getD r' #[]).size = cols := h.2 _ hr
    simp only [Array.set!, Array.getD_eq_getD_getElem?, Array.getElem?_setIfInBounds]
    by_cases e2 : c' = c
    · subst e2
      simp only [Array.getD_eq_getD_getElem?] at hs
      simp [hs, hc]
    · have e3 : ¬ c = c' := fun e => e2 e.symm
      simp [e2, e3]
  · simp [e]

theorem rel_setC {rows cols : ℕ} {C : Array (Array K)} {F : ℕ → ℕ → K} (h : Rel rows cols C F)
    (r c : ℕ) (v : K) (hr : r < rows) (hc : c < cols) :
    Rel rows cols (setC C r c v) (setF F r c v) := by
  refine ⟨shape_setC h.1 r c v, fun r' c' hr' hc' => ?_⟩
  rw [entry_setC h.1 r c v hr hc]
  unfold setF
  split_ifs
  · rfl
  · exact h.2 r' c' hr' hc'

theorem rel_foldl {rows cols : ℕ} {ι : Type} (l : List ι)
    (f : Array (Array K) → ι → Array (Array K)) (g : (ℕ → ℕ → K) → ι → (ℕ → ℕ → K))
    (hstep : ∀ i ∈ l, ∀ C F, Rel rows cols C F → Rel rows cols (f C i) (g F i))
    (C : Array (Array K)) (F : ℕ → ℕ → K) (h : Rel rows cols C F) :
    Rel rows cols (l.foldl f C) (l.foldl g F) := by
  induction l generalizing C F with
  | nil => exact h
  | cons a l ih =>
    simp only [List.foldl_cons]
    exact ih (fun i hi => hstep i (List.mem_cons_of_mem _ hi)) _ _
      (hstep a List.mem_cons_self C F h)

theorem rel_zero (rows cols : ℕ) :
    Rel rows cols (Array.replicate rows (Array.replicate cols (0 : K))) (fun _ _ => 0) := by
  refine ⟨⟨by simp, fun r hr => ?_⟩, fun r c hr hc => ?_⟩
  · simp [Array.getD_eq_getD_getElem?, hr]
  · simp [entry, Array.getD_eq_getD_getElem?, hr, hc]

/-! ### the three loops of `insert_knot`, named -/

/-- diagonal entry written by the middle loop (`p` = order) -/
def gd (τ : ℕ → K) (x : K) (p i : ℕ) : K :=
  if τ (i + p - 1) ≤ x ∧ x ≤ τ (i + p) then 1 else (x - τ i) / (τ (i + p - 1) - τ i)

/-- sub-diagonal entry written by the middle loop -/
def gs (τ : ℕ → K) (x : K) (p i : ℕ) : K :=
  if τ i ≤ x ∧ x ≤ τ (i + 1) then 1 else (τ (i + p) - x) / (τ (i + p) - τ (i + 1))

def step1 (n : ℕ) (C : Array (Array K)) (i : ℕ) : Array (Array K) := setC C (i % (n+1)) (i % n) 1
def step2 (τ : ℕ → K) (x : K) (n p : ℕ) (C : Array (Array K)) (i : ℕ) : Array (Array K) :=
  setC (setC C (i % (n+1)) (i % n) (gd τ x p i)) ((i + 1) % (n+1)) (i % n) (gs τ x p i)
def step3 (n : ℕ) (C : Array (Array K)) (i : ℕ) : Array (Array K) :=
  setC C (i % (n+1)) ((i - 1) % n) 1

/-- The matrix `C` of `insert_knot` (`n` = old number of functions, `p` = order, `mu` = bisect). -/
def matC (τ : ℕ → K) (x : K) (n p mu : ℕ) : Array (Array K) :=
  let C0 : Array (Array K) := Array.replicate (n + 1) (Array.replicate n 0)
  let C1 := (List.range (mu - p)).foldl (step1 n) C0
  let C2 := (List.range' (mu - p) (mu - (mu - p))).foldl (step2 τ x n p) C1
  (List.range' mu (n + 1 - mu)).foldl (step3 n) C2

def stepF1 (n : ℕ) (F : ℕ → ℕ → K) (i : ℕ) : ℕ → ℕ → K := setF F (i % (n+1)) (i % n) 1
def stepF2 (τ : ℕ → K) (x : K) (n p : ℕ) (F : ℕ → ℕ → K) (i : ℕ) : ℕ → ℕ → K :=
  setF (setF F (i % (n+1)) (i % n) (gd τ x p i)) ((i + 1) % (n+1)) (i % n) (gs τ x p i)
def stepF3 (n : ℕ) (F : ℕ → ℕ → K) (i : ℕ) : ℕ → ℕ → K := setF F (i % (n+1)) ((i - 1) % n) 1

/-- functional twin of `matC` -/
def matF (τ : ℕ → K) (x : K) (n p mu : ℕ) : ℕ → ℕ → K :=
  let F1 := (List.range (mu - p)).foldl (stepF1 n) (fun _ _ => 0)
  let F2 := (List.range' (mu - p) (mu - (mu - p))).foldl (stepF2 τ x n p) F1
  (List.range' mu (n + 1 - mu)).foldl (stepF3 n) F2

/-- For `n ≥ 1` (always, for a valid basis) every write of `insert_knot` is in range, hence the
    array `matC` represents the function `matF` (periodic wrap-around included). -/
theorem rel_matC (τ : ℕ → K) (x : K) (n p mu : ℕ) (hn : 0 < n) :
    Rel (n+1) n (matC τ x n p mu) (matF τ x n p mu) := by
  have hr : ∀ i, i % (n+1) < n+1 := fun i => Nat.mod_lt _ (by omega)
  have hc : ∀ i, i % n < n := fun i => Nat.mod_lt _ hn
  unfold matC matF
  apply rel_foldl
  · intro i _ C F h; exact rel_setC h _ _ _ (hr _) (hc _)
  apply rel_foldl
  · intro i _ C F h; exact rel_setC (rel_setC h _ _ _ (hr _) (hc _)) _ _ _ (hr _) (hc _)
  apply rel_foldl
  · intro i _ C F h; exact rel_setC h _ _ _ (hr _) (hc _)
  exact rel_zero _ _

/-! ### closed form of the functional folds when no index wraps -/

theorem loop1_closed (n : ℕ) (F : ℕ → ℕ → K) (k : ℕ) (hk : k ≤ n) (r c : ℕ) :
    ((List.range k).foldl (stepF1 n) F) r c = if r = c ∧ c < k then 1 else F r c := by
  induction k with
  | zero => simp
  | succ k ih =>
    rw [List.range_succ, List.foldl_append]
    simp only [List.foldl_cons, List.foldl_nil, stepF1, setF]
    rw [Nat.mod_eq_of_lt (by omega : k < n+1), Nat.mod_eq_of_lt (by omega : k < n), ih (by omega)]
    split_ifs <;> first | rfl | (exfalso; omega)

theorem loop2_closed (τ : ℕ → K) (x : K) (n p a : ℕ) (F : ℕ → ℕ → K) (k : ℕ) (hk : a + k ≤ n)
    (r c : ℕ) :
    ((List.range' a k).foldl (stepF2 τ x n p) F) r c =
      if a ≤ c ∧ c < a + k ∧ r = c + 1 then gs τ x p c
      else if a ≤ c ∧ c < a + k ∧ r = c then gd τ x p c else F r c := by
  induction k with
  | zero =>
    simp only [List.range'_zero, List.foldl_nil]
    split_ifs <;> first | rfl | (exfalso; omega)
  | succ k ih =>
    rw [List.range'_concat, List.foldl_append]
    simp only [List.foldl_cons, List.foldl_nil, stepF2, setF, Nat.one_mul]
    rw [Nat.mod_eq_of_lt (by omega : a + k < n+1), Nat.mod_eq_of_lt (by omega : a + k < n),
      Nat.mod_eq_of_lt (by omega : a + k + 1 < n+1), ih (by omega)]
    split_ifs <;> first | rfl | (exfalso; omega) | (congr 1; omega)

theorem loop3_closed (n mu : ℕ) (hmu : 1 ≤ mu) (F : ℕ → ℕ → K) (k : ℕ) (hk : mu + k ≤ n + 1)
    (r c : ℕ) :
    ((List.range' mu k).foldl (stepF3 n) F) r c =
      if mu ≤ c + 1 ∧ c + 1 < mu + k ∧ r = c + 1 then 1 else F r c := by
  induction k with
  | zero =>
    simp only [List.range'_zero, List.foldl_nil]
    split_ifs <;> first | rfl | (exfalso; omega)
  | succ k ih =>
    rw [List.range'_concat, List.foldl_append]
    simp only [List.foldl_cons, List.foldl_nil, stepF3, setF, Nat.one_mul]
    rw [Nat.mod_eq_of_lt (by omega : mu + k < n+1), Nat.mod_eq_of_lt (by omega : mu + k - 1 < n),
      ih (by omega)]
    split_ifs <;> first | rfl | (exfalso; omega)

/-- The matrix of `insert_knot`, entry by entry (non-wrapping case). -/
def codeF (τ : ℕ → K) (x : K) (p mu : ℕ) : ℕ → ℕ → K := fun r c =>
  if c + p < mu then (if r = c then 1 else 0)
  else if c < mu then (if r = c then gd τ x p c else if r = c + 1 then gs τ x p c else 0)
  else (if r = c + 1 then 1 else 0)

theorem matF_closed (τ : ℕ → K) (x : K) (n p mu : ℕ) (hp : 1 ≤ p) (hpm : p ≤ mu) (hmn : mu ≤ n)
    (hx : τ (mu - 1) ≤ x ∧ x ≤ τ mu) (r c : ℕ) (hc : c < n) :
    matF τ x n p mu r c = codeF τ x p mu r c := by
  unfold matF codeF
  rw [loop3_closed n mu (by omega) _ _ (by omega), loop2_closed τ x n p _ _ _ (by omega),
    loop1_closed n _ _ (by omega)]
  have e1 : mu - p + (mu - (mu - p)) = mu := by omega
  have e2 : mu + (n + 1 - mu) = n + 1 := by omega
  rw [e1, e2]
  by_cases hlast : c = mu - 1 ∧ r = mu
  · -- the entry written by both the middle and the last loop
    obtain ⟨hc', hr'⟩ := hlast
    have hg : gs τ x p c = 1 := by
      unfold gs
      rw [if_pos]
      rw [hc', show mu - 1 + 1 = mu by omega]
      exact hx
    rw [if_pos (by omega), if_neg (by omega), if_pos (by omega), if_neg (by omega),
      if_pos (by omega), hg]
  · split_ifs <;> first | rfl | (exfalso; omega)

/-- the periodic ghost-knot repair of `insert_knot` (`knots1` = after `np.insert`) -/
def repair (b : Basis K) (knots1 : Array K) (mu : ℕ) : Array K :=
  if b.periodic > -1 then
    let p := b.order
    let m := knots1.size
    let r := b.periodic.toNat
    let g (a : Array K) (i : ℕ) : K := a.getD i 0
    if mu ≤ p + r then
      let k0 := g knots1 0
      let k1 := g knots1 (m - p - r - 1)
      (List.range (p + r + 1)).foldl (fun a i => a.set! (m - p - r - 1 + i) (k1 + (g a i - k0))) knots1
    else if mu ≥ m - p - r - 1 then
      let k0 := g knots1 (p + r)
      let k1 := g knots1 (m - 1)
      (List.range (p + r + 1)).foldl (fun a i => a.set! i (k0 - (k1 - g a (m - p - r - 1 + i)))) knots1
    else knots1
  else knots1

/-- the value actually inserted (periodic wrap / range check): the model's `Basis.insertWrap` -/
def wrapX [FloorRing K] (b : Basis K) (x0 : K) : PyM K :=
  if b.periodic ≥ 0 then
    if x0 < b.start ∨ x0 > b.stop then
      if b.stop - b.start = 0 then .error .index
      else .ok (pmod (x0 - b.start) (b.stop - b.start) + b.start)
    else .ok x0
  else if x0 < b.start ∨ b.stop < x0 then .error .value
  else .ok x0

theorem wrapX_eq [FloorRing K] (b : Basis K) (x0 : K) : wrapX b x0 = b.insertWrap x0 := rfl

/-- `IndexError` condition of the middle loop -/
def idxErr (b : Basis K) (x : K) (mu : ℕ) : Prop :=
  mu - b.order < mu ∧ (mu + b.order ≥ b.knots.size + 2 ∨
    (mu + b.order = b.knots.size + 1 ∧
      (b.kn (b.knots.size - 1) ≤ x ∨ ¬ (b.kn (mu - 1) ≤ x ∧ x ≤ b.kn mu))))

instance (b : Basis K) (x : K) (mu : ℕ) : Decidable (idxErr b x mu) := by
  unfold idxErr; infer_instance

/-- the direct algorithm with insertion index `mu`, in terms of the named pieces -/
def directForm (b : Basis K) (x : K) (mu : ℕ) : PyM (Basis K × Mat K) :=
  if (b.knots.size : Int) - (b.order : Int) - (b.periodic + 1) < 0 then .error .value
  else if b.numFunctions = 0 then .error .zeroDiv
  else if idxErr b x mu then .error .index
  else .ok ({ b with knots := repair b (Basis.insertAt b.knots mu x) mu },
            matC b.kn x b.numFunctions b.order mu)

/-- `Basis.insertKnotDirect` in terms of the named pieces (definitional). -/
theorem insertKnotDirect_eq (b : Basis K) (x : K) :
    b.insertKnotDirect x = directForm b x (b.insertMu x) := rfl

/-- The condition of the cover branch: periodic with fewer than `p+k` functions. -/
def coverCond (b : Basis K) : Prop :=
  b.periodic ≥ 0 ∧ (b.knots.size : Int) - (b.order : Int) - (b.periodic + 1) < (b.order : Int) + b.periodic

instance (b : Basis K) : Decidable (coverCond b) := by unfold coverCond; infer_instance

/-- Outside the cover branch `insert_knot` is wrap + direct algorithm. -/
theorem insertKnot_eq_plain [FloorRing K] (b : Basis K) (x0 : K) (hg : ¬ coverCond b) :
    b.insertKnot x0 = b.insertKnotPlain x0 := by
  unfold Basis.insertKnot Basis.insertKnotPlain
  cases b.insertWrap x0 with
  | error e => rfl
  | ok x =>
    simp only []
    rw [if_neg (show ¬ (b.periodic ≥ 0 ∧ (b.knots.size : Int) - (b.order : Int) - (b.periodic + 1)
      < (b.order : Int) + b.periodic) from hg)]

/-- `Basis.insertKnot` outside the cover branch in terms of the named pieces. -/
theorem insertKnot_eq_direct [FloorRing K] (b : Basis K) (x0 : K) (hg : ¬ coverCond b) :
    b.insertKnot x0 =
      (match wrapX b x0 with
       | .error e => .error e
       | .ok x => directForm b x (b.insertMu x)) := by
  rw [insertKnot_eq_plain b x0 hg]
  rfl

/-- non-periodic: no cover branch, `mu = bisect_right` -/
theorem not_coverCond_of_nonperiodic (b : Basis K) (h : b.periodic < 0) : ¬ coverCond b :=
  fun hc => absurd hc.1 (by omega)

theorem insertMu_nonperiodic (b : Basis K) (h : b.periodic < 0) (x : K) : b.insertMu x = b.bisectR x := by
  unfold Basis.insertMu; rw [if_neg (by omega)]

/-- guard `p + k ≤ n` (as natural numbers): no cover branch -/
theorem not_coverCond_of_guard (b : Basis K) (hp : 1 ≤ b.order) (k : ℕ) (hk : b.periodic = (k : Int))
    (hguard : b.order + k ≤ b.numFunctions) : ¬ coverCond b := by
  intro hc
  have h2 := hc.2
  have e : (b.periodic + 1).toNat = k + 1 := by rw [hk]; omega
  unfold Basis.numFunctions at hguard
  rw [e] at hguard
  rw [hk] at h2
  omega

/-- the clamp is idle when `bisect_right` does not pass the end index -/
theorem insertMu_of_le (b : Basis K) (x : K) (h : b.bisectR x ≤ b.knots.size - b.order) :
    b.insertMu x = b.bisectR x := by
  unfold Basis.insertMu
  split_ifs
  · exact Nat.min_eq_left h
  · rfl

/-- `Basis.insertKnot` in the form used before the cover branch and the end clamp existed: valid
    outside the cover branch whenever the clamp is idle. -/
theorem insertKnot_eq [FloorRing K] (b : Basis K) (x0 : K) (hg : ¬ coverCond b)
    (hmu : ∀ x, wrapX b x0 = .ok x → b.insertMu x = b.bisectR x) :
    b.insertKnot x0 =
      (match wrapX b x0 with
       | .error e => .error e
       | .ok x =>
         if (b.knots.size : Int) - (b.order : Int) - (b.periodic + 1) < 0 then .error .value
         else if b.numFunctions = 0 then .error .zeroDiv
         else if idxErr b x (b.bisectR x) then .error .index
         else .ok ({ b with knots := repair b (Basis.insertAt b.knots (b.bisectR x) x) (b.bisectR x) },
                   matC b.kn x b.numFunctions b.order (b.bisectR x))) := by
  rw [insertKnot_eq_direct b x0 hg]
  cases hw : wrapX b x0 with
  | error e => rfl
  | ok x =>
    simp only []
    rw [hmu x hw]
    rfl

end C04
end Splipy
