import Splipy.Lemmas.TensorEvalObj1
import Splipy.Lemmas.TensorEvalObj3

/-!
# Separated knots: `Obj.evaluate` at arbitrary parameters = at the snapped parameters (C02 helpers)
-/

namespace Splipy
set_option linter.unusedSectionVars false
open Tensor
variable {K : Type} [Field K] [LinearOrder K] [IsStrictOrderedRing K] [FloorRing K]

theorem snap_snap {b : Basis K} (hv : b.Valid) {tol : K} (htol : 0 < tol) (hsep : b.Separated tol)
    (t : K) : snap b tol (snap b tol t) = snap b tol t :=
  snap_of_exact b htol (exactAt_snap hv hsep t)

theorem map_snap_snap {b : Basis K} (hv : b.Valid) {tol : K} (htol : 0 < tol)
    (hsep : b.Separated tol) (us : List K) :
    (us.map (snap b tol)).map (snap b tol) = us.map (snap b tol) := by
  rw [List.map_map]
  apply List.map_congr_left
  intro t _
  exact snap_snap hv htol hsep t

theorem exists_mem_map_snap {b : Basis K} (hv : b.Valid) {tol : K} (htol : 0 < tol)
    (hsep : b.Separated tol) (us : List K) :
    (∃ t ∈ us.map (snap b tol), snap b tol t < b.start ∨ b.stop < snap b tol t)
      ↔ ∃ t ∈ us, snap b tol t < b.start ∨ b.stop < snap b tol t := by
  constructor
  · rintro ⟨t, ht, h⟩
    obtain ⟨t0, ht0, rfl⟩ := List.mem_map.mp ht
    rw [snap_snap hv htol hsep] at h
    exact ⟨t0, ht0, h⟩
  · rintro ⟨t0, ht0, h⟩
    refine ⟨snap b tol t0, List.mem_map.mpr ⟨t0, ht0, rfl⟩, ?_⟩
    rw [snap_snap hv htol hsep]
    exact h

/-- Non-periodic, separated knots: a snapped parameter that lies in the domain is admissible. -/
theorem Basis.admissible_snap {b : Basis K} (hv : b.Valid) (hper : b.periodic = -1) {tol : K}
    (hsep : b.Separated tol) {u : K} (h1 : b.start ≤ snap b tol u) (h2 : snap b tol u ≤ b.stop) :
    b.Admissible tol (snap b tol u) :=
  ⟨exactAt_snap hv hsep u, fun _ => ⟨h1, h2⟩,
    fun h => by rw [hper] at h; exact absurd h (by decide)⟩

/-- Surfaces, separated knots: evaluating at any parameters is evaluating at the snapped ones. -/
theorem Obj.evaluate2_snap {o : Obj K} {b1 b2 : Basis K} (hb : o.bases = #[b1, b2])
    (hv1 : b1.Valid) (hv2 : b2.Valid) {tol : K} (htol : 0 < tol)
    (hs1 : b1.Separated tol) (hs2 : b2.Separated tol) (us vs : List K) (tensor : Bool) :
    o.evaluate tol [us, vs] tensor
      = o.evaluate tol [us.map (snap b1 tol), vs.map (snap b2 tol)] tensor := by
  have hlen : ([us.map (snap b1 tol), vs.map (snap b2 tol)].map List.length)
      = [us, vs].map List.length := by simp
  have hdomiff : o.OutOfDomain tol [us.map (snap b1 tol), vs.map (snap b2 tol)]
      ↔ o.OutOfDomain tol [us, vs] := by
    rw [Obj.outOfDomain2_iff hb, Obj.outOfDomain2_iff hb, exists_mem_map_snap hv1 htol hs1,
      exists_mem_map_snap hv2 htol hs2]
    simp only [List.map_eq_nil_iff]
  by_cases h1 : tensor = false ∧ ([us, vs].map List.length).eraseDups.length ≠ 1
  · rw [o.evaluate_error_len tol _ tensor h1, o.evaluate_error_len tol _ tensor (by rw [hlen]; exact h1)]
  · by_cases h2 : o.OutOfDomain tol [us, vs]
    · rw [o.evaluate_error_dom tol _ tensor h2, o.evaluate_error_dom tol _ tensor (hdomiff.mpr h2)]
    · rw [o.evaluate_ok tol _ tensor h1 h2,
        o.evaluate_ok tol _ tensor (by rw [hlen]; exact h1) (fun h => h2 (hdomiff.mp h)),
        Obj.evalCore2 hb, Obj.evalCore2 hb]
      unfold Obj.hom2
      rw [map_snap_snap hv1 htol hs1, map_snap_snap hv2 htol hs2, List.length_map]


/-- Curves, separated knots: evaluating at any parameters is evaluating at the snapped ones. -/
theorem Obj.evaluate1_snap {o : Obj K} {b1 : Basis K} (hb : o.bases = #[b1])
    (hv1 : b1.Valid) {tol : K} (htol : 0 < tol) (hs1 : b1.Separated tol) (us : List K)
    (tensor : Bool) :
    o.evaluate tol [us] tensor = o.evaluate tol [us.map (snap b1 tol)] tensor := by
  have hlen : ([us.map (snap b1 tol)].map List.length) = [us].map List.length := by simp
  have hdomiff : o.OutOfDomain tol [us.map (snap b1 tol)] ↔ o.OutOfDomain tol [us] := by
    rw [Obj.outOfDomain1_iff hb, Obj.outOfDomain1_iff hb, exists_mem_map_snap hv1 htol hs1]
    simp only [List.map_eq_nil_iff]
  by_cases h1 : tensor = false ∧ ([us].map List.length).eraseDups.length ≠ 1
  · rw [o.evaluate_error_len tol _ tensor h1,
      o.evaluate_error_len tol _ tensor (by rw [hlen]; exact h1)]
  · by_cases h2 : o.OutOfDomain tol [us]
    · rw [o.evaluate_error_dom tol _ tensor h2, o.evaluate_error_dom tol _ tensor (hdomiff.mpr h2)]
    · rw [o.evaluate_ok tol _ tensor h1 h2,
        o.evaluate_ok tol _ tensor (by rw [hlen]; exact h1) (fun h => h2 (hdomiff.mp h)),
        Obj.evalCore1 hb, Obj.evalCore1 hb]
      unfold Obj.hom1
      rw [map_snap_snap hv1 htol hs1, List.length_map]

/-- Volumes, separated knots: evaluating at any parameters is evaluating at the snapped ones. -/
theorem Obj.evaluate3_snap {o : Obj K} {b1 b2 b3 : Basis K} (hb : o.bases = #[b1, b2, b3])
    (hv1 : b1.Valid) (hv2 : b2.Valid) (hv3 : b3.Valid) {tol : K} (htol : 0 < tol)
    (hs1 : b1.Separated tol) (hs2 : b2.Separated tol) (hs3 : b3.Separated tol)
    (us vs ws : List K) (tensor : Bool) :
    o.evaluate tol [us, vs, ws] tensor
      = o.evaluate tol [us.map (snap b1 tol), vs.map (snap b2 tol), ws.map (snap b3 tol)]
          tensor := by
  have hlen : ([us.map (snap b1 tol), vs.map (snap b2 tol), ws.map (snap b3 tol)].map
      List.length) = [us, vs, ws].map List.length := by simp
  have hdomiff : o.OutOfDomain tol
      [us.map (snap b1 tol), vs.map (snap b2 tol), ws.map (snap b3 tol)]
      ↔ o.OutOfDomain tol [us, vs, ws] := by
    rw [Obj.outOfDomain3_iff hb, Obj.outOfDomain3_iff hb, exists_mem_map_snap hv1 htol hs1,
      exists_mem_map_snap hv2 htol hs2, exists_mem_map_snap hv3 htol hs3]
    simp only [List.map_eq_nil_iff]
  by_cases h1 : tensor = false ∧ ([us, vs, ws].map List.length).eraseDups.length ≠ 1
  · rw [o.evaluate_error_len tol _ tensor h1,
      o.evaluate_error_len tol _ tensor (by rw [hlen]; exact h1)]
  · by_cases h2 : o.OutOfDomain tol [us, vs, ws]
    · rw [o.evaluate_error_dom tol _ tensor h2, o.evaluate_error_dom tol _ tensor (hdomiff.mpr h2)]
    · rw [o.evaluate_ok tol _ tensor h1 h2,
        o.evaluate_ok tol _ tensor (by rw [hlen]; exact h1) (fun h => h2 (hdomiff.mp h)),
        Obj.evalCore3 hb, Obj.evalCore3 hb]
      unfold Obj.hom3
      rw [map_snap_snap hv1 htol hs1, map_snap_snap hv2 htol hs2, map_snap_snap hv3 htol hs3,
        List.length_map]

end Splipy
