import Splipy.Lemmas.C03Contract
import Splipy.Lemmas.EvalRow

/-!
# C03 – non-rational objects: the model derivative is the mixed partial `Σ Π_k dB_k · P`

`Obj.derivativeGeneric` on a non-rational object returns the contraction of the control net with the
per-direction matrices `Basis.evaluate(t, d_k, side_k)` (by definition, `derivativeGeneric_nonrational`).
With the C01 statement for the rows used (`RowsAre … β`: each row entry is the specification value
`β k j`, for C01 `Basis.rowSpec`) the result is the tensor-product derivative sum `Σ Π_k β_k · P`.
-/

namespace Splipy

variable {K : Type} [Field K] [LinearOrder K] [FloorRing K]

/-- The rows a call uses have the entries `β k j` (point `k`, function `j`).  `Properties/C03.lean`
    discharges this from the C01 theorems with `β k j = b.rowSpec t_k a d j`. -/
def RowsAre (b : Basis K) (tol : K) (ts : List K) (d : ℕ) (a : Bool) (β : ℕ → ℕ → K) : Prop :=
  ∀ k, k < ts.length → ∀ j, j < b.numFunctions →
    (b.evaluate tol (ts.getD k 0) d a).getD j 0 = β k j

/-- What property C01 demands of entry `j` of `basis.evaluate(t, d, from_right)` for `t` in the domain:
    non-periodic: the one-sided derivative `dB` (side forced to `left` at the domain end);
    periodic: the sum of the wrapped images `i ≡ j (mod n)` at the effective point/side. -/
def Basis.rowSpec (b : Basis K) (t : K) (a : Bool) (d j : ℕ) : K :=
  if b.periodic < 0 then dB (effSide b t a) b.kn (b.order - 1) j d t
  else ((Finset.range b.nAll).filter (fun i => i % b.numFunctions = j)).sum
          (fun i => dB (periodicEff b t a).2 b.kn (b.order - 1) i d (periodicEff b t a).1)

namespace Obj

theorem basisMat_size (b : Basis K) (tol : K) (ps : List K) (d : ℕ) (a : Bool) :
    (basisMat b tol ps d a).size = ps.length := by
  unfold basisMat
  simp

theorem basisMat_getD (b : Basis K) (tol : K) (ps : List K) (d : ℕ) (a : Bool) (r : ℕ) (hr : r < ps.length) :
    (basisMat b tol ps d a).getD r #[] = b.evaluate tol (ps.getD r 0) d a := by
  unfold basisMat Array.getD
  simp [hr]

theorem homJet_curve (o : Obj K) (b : Basis K) (hb : o.bases.toList = [b]) (tol : K) (ts : List K)
    (d : ℕ) (a : Bool) :
    o.homJet tol [ts] [d] [a] true = contractGrid [basisMat b tol ts d a] o.cps := by
  unfold homJet
  rw [hb]
  rfl

theorem homJet_surface (o : Obj K) (b1 b2 : Basis K) (hb : o.bases.toList = [b1, b2]) (tol : K)
    (us vs : List K) (d1 d2 : ℕ) (a1 a2 : Bool) :
    o.homJet tol [us, vs] [d1, d2] [a1, a2] true =
      contractGrid [basisMat b1 tol us d1 a1, basisMat b2 tol vs d2 a2] o.cps := by
  unfold homJet
  rw [hb]
  rfl

theorem homJet_volume (o : Obj K) (b1 b2 b3 : Basis K) (hb : o.bases.toList = [b1, b2, b3]) (tol : K)
    (us vs ws : List K) (d1 d2 d3 : ℕ) (a1 a2 a3 : Bool) :
    o.homJet tol [us, vs, ws] [d1, d2, d3] [a1, a2, a3] true =
      contractGrid [basisMat b1 tol us d1 a1, basisMat b2 tol vs d2 a2, basisMat b3 tol ws d3 a3] o.cps := by
  unfold homJet
  rw [hb]
  rfl

/-- Curves. -/
theorem derivative_nonrational_curve (o : Obj K) (b : Basis K) (hb : o.bases.toList = [b]) (n nc : ℕ)
    (hs : o.cps.shape = [n, nc]) (hn : n = b.numFunctions) (tol : K) (ts ts' : List K) (d : ℕ) (a : Bool)
    (r : Tensor K) (hr : o.rational = false)
    (hv : o.validateDomain tol [ts] = .ok [ts'])
    (h : o.derivativeGeneric tol [ts] [d] [a] true = .ok r)
    (β : ℕ → ℕ → K) (hC01 : RowsAre b tol ts' d a β) :
    ∀ k, k < ts'.length → ∀ c, c < nc →
      r.get (k * nc + c) = (Finset.range n).sum (fun j => β k j * o.cps.get (j * nc + c)) := by
  obtain ⟨ps, hps, hrr⟩ := derivativeGeneric_nonrational o tol [ts] [d] [a] true r hr h
  rw [hv] at hps
  injection hps with hps
  subst hps
  intro k hk c hc
  rw [hrr, homJet_curve o b hb, contractGrid_curve_get _ _ n nc hs k c (by rw [basisMat_size]; exact hk) hc]
  apply Finset.sum_congr rfl
  intro j hj
  rw [Finset.mem_range] at hj
  rw [basisMat_getD _ _ _ _ _ _ hk, hC01 k hk j (by omega)]

/-- Surfaces (tensor grid). -/
theorem derivative_nonrational_surface (o : Obj K) (b1 b2 : Basis K) (hb : o.bases.toList = [b1, b2])
    (n1 n2 nc : ℕ) (hs : o.cps.shape = [n1, n2, nc]) (hn1 : n1 = b1.numFunctions) (hn2 : n2 = b2.numFunctions)
    (tol : K) (us vs us' vs' : List K) (d1 d2 : ℕ) (a1 a2 : Bool) (r : Tensor K) (hr : o.rational = false)
    (hv : o.validateDomain tol [us, vs] = .ok [us', vs'])
    (h : o.derivativeGeneric tol [us, vs] [d1, d2] [a1, a2] true = .ok r)
    (β1 β2 : ℕ → ℕ → K) (hC01u : RowsAre b1 tol us' d1 a1 β1) (hC01v : RowsAre b2 tol vs' d2 a2 β2) :
    ∀ k1, k1 < us'.length → ∀ k2, k2 < vs'.length → ∀ c, c < nc →
      r.get ((k1 * vs'.length + k2) * nc + c) =
        (Finset.range n1).sum (fun i => β1 k1 i *
          (Finset.range n2).sum (fun j => β2 k2 j * o.cps.get ((i * n2 + j) * nc + c))) := by
  obtain ⟨ps, hps, hrr⟩ := derivativeGeneric_nonrational o tol [us, vs] [d1, d2] [a1, a2] true r hr h
  rw [hv] at hps
  injection hps with hps
  subst hps
  intro k1 hk1 k2 hk2 c hc
  have hsz2 : (basisMat b2 tol vs' d2 a2).size = vs'.length := basisMat_size _ _ _ _ _
  rw [hrr, homJet_surface o b1 b2 hb, ← hsz2,
    contractGrid_surface_get _ _ _ n1 n2 nc hs k1 k2 c (by rw [basisMat_size]; exact hk1)
      (by rw [basisMat_size]; exact hk2) hc]
  apply Finset.sum_congr rfl
  intro i hi
  rw [Finset.mem_range] at hi
  rw [basisMat_getD _ _ _ _ _ _ hk1, hC01u k1 hk1 i (by omega)]
  congr 1
  apply Finset.sum_congr rfl
  intro j hj
  rw [Finset.mem_range] at hj
  rw [basisMat_getD _ _ _ _ _ _ hk2, hC01v k2 hk2 j (by omega)]

/-- Volumes (tensor grid). -/
theorem derivative_nonrational_volume (o : Obj K) (b1 b2 b3 : Basis K) (hb : o.bases.toList = [b1, b2, b3])
    (n1 n2 n3 nc : ℕ) (hs : o.cps.shape = [n1, n2, n3, nc]) (hn1 : n1 = b1.numFunctions)
    (hn2 : n2 = b2.numFunctions) (hn3 : n3 = b3.numFunctions)
    (tol : K) (us vs ws us' vs' ws' : List K) (d1 d2 d3 : ℕ) (a1 a2 a3 : Bool) (r : Tensor K)
    (hr : o.rational = false)
    (hv : o.validateDomain tol [us, vs, ws] = .ok [us', vs', ws'])
    (h : o.derivativeGeneric tol [us, vs, ws] [d1, d2, d3] [a1, a2, a3] true = .ok r)
    (β1 β2 β3 : ℕ → ℕ → K) (hC01u : RowsAre b1 tol us' d1 a1 β1) (hC01v : RowsAre b2 tol vs' d2 a2 β2)
    (hC01w : RowsAre b3 tol ws' d3 a3 β3) :
    ∀ k1, k1 < us'.length → ∀ k2, k2 < vs'.length → ∀ k3, k3 < ws'.length → ∀ c, c < nc →
      r.get (((k1 * vs'.length + k2) * ws'.length + k3) * nc + c) =
        (Finset.range n1).sum (fun i => β1 k1 i *
          (Finset.range n2).sum (fun j => β2 k2 j *
            (Finset.range n3).sum (fun k => β3 k3 k * o.cps.get (((i * n2 + j) * n3 + k) * nc + c)))) := by
  obtain ⟨ps, hps, hrr⟩ := derivativeGeneric_nonrational o tol [us, vs, ws] [d1, d2, d3] [a1, a2, a3] true r hr h
  rw [hv] at hps
  injection hps with hps
  subst hps
  intro k1 hk1 k2 hk2 k3 hk3 c hc
  have hsz2 : (basisMat b2 tol vs' d2 a2).size = vs'.length := basisMat_size _ _ _ _ _
  have hsz3 : (basisMat b3 tol ws' d3 a3).size = ws'.length := basisMat_size _ _ _ _ _
  rw [hrr, homJet_volume o b1 b2 b3 hb, ← hsz2, ← hsz3,
    contractGrid_volume_get _ _ _ _ n1 n2 n3 nc hs k1 k2 k3 c (by rw [basisMat_size]; exact hk1)
      (by rw [basisMat_size]; exact hk2) (by rw [basisMat_size]; exact hk3) hc]
  apply Finset.sum_congr rfl
  intro i hi
  rw [Finset.mem_range] at hi
  rw [basisMat_getD _ _ _ _ _ _ hk1, hC01u k1 hk1 i (by omega)]
  congr 1
  apply Finset.sum_congr rfl
  intro j hj
  rw [Finset.mem_range] at hj
  rw [basisMat_getD _ _ _ _ _ _ hk2, hC01v k2 hk2 j (by omega)]
  congr 1
  apply Finset.sum_congr rfl
  intro k hk
  rw [Finset.mem_range] at hk
  rw [basisMat_getD _ _ _ _ _ _ hk3, hC01w k3 hk3 k (by omega)]

end Obj

end Splipy
