import Splipy.Lemmas.C03Contract
import Splipy.Lemmas.TensorEvalSnap

/-!
# C03 – non-rational objects: the model derivative is the mixed partial `Σ Π_k dB_k · P`

Same route as `TensorEvalObj*.lean` takes for `evaluate`:

* `Basis.drowVal b tol u d a j` — the number the code uses for function `j`, derivative order `d`, side `a`
  at the parameter `u` (`_validate_domain` snaps, then `b.evaluate(·, d, from_right)` is called);
* `Obj.derivative{1,2,3}_nonrational` — with NO validity assumption, for any parameters that pass the
  argument checks, grid (`tensor=True`) and pointwise (`tensor=False`) form: the result entries are
  `Σ Π_k drowVal_k · P`;
* `Basis.rowSpec` — what C01 demands of that number (`dB`, wrapped images for periodic bases, the zero row
  at the start of a non-periodic domain approached from the left).
-/

namespace Splipy

set_option linter.unusedSectionVars false
open Tensor

variable {K : Type} [Field K] [LinearOrder K] [IsStrictOrderedRing K] [FloorRing K]

/-- The number the code uses for basis function `j`, derivative order `d`, side `a` at the parameter `u`
of a `derivative` call: `_validate_domain` snaps `u`, then `b.evaluate(u, d, from_right)` (which snaps
again) is called. -/
def Basis.drowVal (b : Basis K) (tol u : K) (d : ℕ) (a : Bool) (j : ℕ) : K :=
  (b.evaluate tol (snap b tol u) d a).getD j 0

/-- What property C01 demands of entry `j` of `basis.evaluate(t, d, from_right)`:
* non-periodic basis: the one-sided derivative `dB` (side forced to `left` at the domain end), and the
  zero row at the domain START approached from the left (nothing of the spline lies to the left of it);
* periodic basis: the sum of the wrapped images `i ≡ j (mod n)` at the wrapped point, with the effective
  point/side of the seam (left limit at `start` = left limit at `stop`). -/
def Basis.rowSpec (b : Basis K) (t : K) (a : Bool) (d j : ℕ) : K :=
  if b.periodic < 0 then
    (if t = b.start ∧ a = false then 0 else dB (effSide b t a) b.kn (b.order - 1) j d t)
  else ((Finset.range b.nAll).filter (fun i => i % b.numFunctions = j)).sum
          (fun i => dB (periodicEff b (b.wrap t) a).2 b.kn (b.order - 1) i d (periodicEff b (b.wrap t) a).1)

theorem basisMat_snap_entry_d (b : Basis K) (tol : K) (us : List K) (d : ℕ) (a : Bool) {i : ℕ}
    (hi : i < us.length) (j : ℕ) :
    ((Obj.basisMat b tol (us.map (snap b tol)) d a).getD i #[]).getD j 0
      = b.drowVal tol (us.getD i 0) d a j := by
  unfold Obj.basisMat Basis.drowVal
  rw [Array.getD_eq_getD_getElem?]
  simp [hi, List.getD_eq_getElem?_getD]

/-- C01 for derivative rows: for a valid basis and an admissible parameter the code's number is the
specification value, for every derivative order and both sides. -/
theorem Basis.drowVal_eq_rowSpec {b : Basis K} (hv : b.Valid) {tol u : K} (htol : 0 < tol)
    (h : b.Admissible tol u) (d : ℕ) (a : Bool) {j : ℕ} (hj : j < b.numFunctions) :
    b.drowVal tol u d a j = b.rowSpec u a d j := by
  unfold Basis.drowVal Basis.rowSpec
  rw [h.snap_eq htol]
  by_cases hd : d < b.order
  · by_cases hper : b.periodic < 0
    · have hper' : b.periodic = -1 := by have := hv.periodic_ge; omega
      rw [if_pos hper]
      by_cases hsl : u = b.start ∧ a = false
      · rw [if_pos hsl]
        obtain ⟨rfl, rfl⟩ := hsl
        rw [C01_start_from_left hv hper' htol d]
        unfold Array.getD; split <;> simp
      · rw [if_neg hsl]
        exact C01_value_deriv_open hv hper' htol h.1 (h.2.1 hper').1 (h.2.1 hper').2 hsl hd hj
    · rw [if_neg hper]
      exact C01_value_deriv_periodic_any_real hv (by omega) htol h.1 (h.2.2 (by omega)) a hd hj
  · have hd' : b.order ≤ d := by omega
    rw [C01_high_derivative_zero b tol _ hd' a]
    have hz : (Array.replicate b.numFunctions (0 : K)).getD j 0 = 0 := by
      unfold Array.getD; split <;> simp
    rw [hz]
    by_cases hper : b.periodic < 0
    · rw [if_pos hper]
      by_cases hsl : u = b.start ∧ a = false
      · rw [if_pos hsl]
      · rw [if_neg hsl, C01_high_derivative_zero_spec b hv.order_pos _ _ hd']
    · rw [if_neg hper]
      symm
      apply Finset.sum_eq_zero
      intro i _
      exact C01_high_derivative_zero_spec b hv.order_pos _ _ hd' i

namespace Obj

/-- A non-rational derivative call that passes the argument checks returns the homogeneous jet of the
snapped parameters. -/
theorem derivativeGeneric_nonrational_ok (o : Obj K) (tol : K) (params : List (List K)) (derivs : List ℕ)
    (above : List Bool) (tensor : Bool) (hr : o.rational = false)
    (h1 : ¬ (tensor = false ∧ (params.map List.length).eraseDups.length ≠ 1))
    (h2 : ¬ o.OutOfDomain tol params) :
    o.derivativeGeneric tol params derivs above tensor =
      .ok (o.homJet tol (o.snapParams tol params) derivs above tensor) := by
  unfold derivativeGeneric
  rw [if_neg (by simpa using h1), o.validateDomain_ok tol params h2]
  simp only [hr]
  rfl

/-- … and it raises `ValueError` exactly as `evaluate` does. -/
theorem derivativeGeneric_error_len (o : Obj K) (tol : K) (params : List (List K)) (derivs : List ℕ)
    (above : List Bool) (tensor : Bool)
    (h : tensor = false ∧ (params.map List.length).eraseDups.length ≠ 1) :
    o.derivativeGeneric tol params derivs above tensor = .error .value := by
  unfold derivativeGeneric
  rw [if_pos (by simpa using h)]

theorem derivativeGeneric_error_dom (o : Obj K) (tol : K) (params : List (List K)) (derivs : List ℕ)
    (above : List Bool) (tensor : Bool) (h : o.OutOfDomain tol params) :
    o.derivativeGeneric tol params derivs above tensor = .error .value := by
  unfold derivativeGeneric
  rw [o.validateDomain_error tol params h]
  by_cases h1 : (!tensor) = true ∧ (params.map List.length).eraseDups.length ≠ 1
  · rw [if_pos h1]
  · rw [if_neg h1]

/-! ### curves -/

theorem homJet1 {o : Obj K} {b1 : Basis K} (hb : o.bases = #[b1]) (tol : K) (us : List K) (d : ℕ)
    (a : Bool) (tensor : Bool) :
    o.homJet tol (o.snapParams tol [us]) [d] [a] tensor =
      (if tensor then contractGrid [basisMat b1 tol (us.map (snap b1 tol)) d a] o.cps
       else contractPointwise [basisMat b1 tol (us.map (snap b1 tol)) d a] o.cps us.length) := by
  simp [homJet, snapParams, hb]

/-- Non-rational curve, `tensor` either way: entries in terms of the code's rows. -/
theorem derivative1_nonrational {o : Obj K} {b1 : Basis K} (hb : o.bases = #[b1]) {n1 nc : ℕ}
    (hs : o.cps.shape = [n1, nc]) (hr : o.rational = false) (tol : K) (us : List K) (d : ℕ) (a : Bool)
    (tensor : Bool) (hdom : ¬ o.OutOfDomain tol [us]) :
    ∃ res, o.derivativeGeneric tol [us] [d] [a] tensor = .ok res ∧
      ∀ i c, i < us.length → c < nc →
        res.get (i * nc + c) =
          ∑ j ∈ Finset.range n1, b1.drowVal tol (us.getD i 0) d a j * o.cps.get (j * nc + c) := by
  have hl : ¬ (tensor = false ∧ ([us].map List.length).eraseDups.length ≠ 1) := by
    rw [not_and_not_right]; intro _
    rw [eraseDups_length_eq_one_iff]
    exact ⟨by simp, by intro x hx y hy; simp at hx hy; omega⟩
  refine ⟨_, derivativeGeneric_nonrational_ok o tol [us] [d] [a] tensor hr hl hdom, ?_⟩
  intro i c hi hc
  rw [homJet1 hb]
  cases tensor
  · simp only [Bool.false_eq_true, if_false]
    rw [contractPointwise1_get _ _ _ hs hi hc]
    exact Finset.sum_congr rfl (fun j _ => by rw [basisMat_snap_entry_d b1 tol us d a hi])
  · simp only [if_true]
    rw [contractGrid1_get _ _ hs (by rw [basisMat_rows, List.length_map]; exact hi) hc]
    exact Finset.sum_congr rfl (fun j _ => by rw [basisMat_snap_entry_d b1 tol us d a hi])

/-! ### surfaces -/

theorem homJet2 {o : Obj K} {b1 b2 : Basis K} (hb : o.bases = #[b1, b2]) (tol : K) (us vs : List K)
    (d1 d2 : ℕ) (a1 a2 : Bool) (tensor : Bool) :
    o.homJet tol (o.snapParams tol [us, vs]) [d1, d2] [a1, a2] tensor =
      (if tensor then contractGrid [basisMat b1 tol (us.map (snap b1 tol)) d1 a1,
                                    basisMat b2 tol (vs.map (snap b2 tol)) d2 a2] o.cps
       else contractPointwise [basisMat b1 tol (us.map (snap b1 tol)) d1 a1,
                               basisMat b2 tol (vs.map (snap b2 tol)) d2 a2] o.cps us.length) := by
  simp [homJet, snapParams, hb]

/-- Non-rational surface, tensor grid. -/
theorem derivative2_nonrational_grid {o : Obj K} {b1 b2 : Basis K} (hb : o.bases = #[b1, b2])
    {n1 n2 nc : ℕ} (hs : o.cps.shape = [n1, n2, nc]) (hr : o.rational = false) (tol : K)
    (us vs : List K) (d1 d2 : ℕ) (a1 a2 : Bool) (hdom : ¬ o.OutOfDomain tol [us, vs]) :
    ∃ res, o.derivativeGeneric tol [us, vs] [d1, d2] [a1, a2] true = .ok res ∧
      ∀ i1 i2 c, i1 < us.length → i2 < vs.length → c < nc →
        res.get ((i1 * vs.length + i2) * nc + c) =
          ∑ j1 ∈ Finset.range n1, ∑ j2 ∈ Finset.range n2,
            b1.drowVal tol (us.getD i1 0) d1 a1 j1 * b2.drowVal tol (vs.getD i2 0) d2 a2 j2
              * o.cps.get ((j1 * n2 + j2) * nc + c) := by
  refine ⟨_, derivativeGeneric_nonrational_ok o tol [us, vs] [d1, d2] [a1, a2] true hr (by simp) hdom, ?_⟩
  intro i1 i2 c h1 h2 hc
  rw [homJet2 hb]
  simp only [if_true]
  have hsz : (basisMat b2 tol (vs.map (snap b2 tol)) d2 a2).size = vs.length := by
    rw [basisMat_rows, List.length_map]
  rw [← hsz, contractGrid2_get _ _ _ hs (by rw [basisMat_rows, List.length_map]; exact h1)
    (by rw [hsz]; exact h2) hc]
  exact Finset.sum_congr rfl (fun j1 _ => Finset.sum_congr rfl (fun j2 _ => by
    rw [basisMat_snap_entry_d b1 tol us d1 a1 h1, basisMat_snap_entry_d b2 tol vs d2 a2 h2]))

/-- Non-rational surface, `tensor=False` (equal numbers of `u` and `v`): point `i` is the pair `(uᵢ, vᵢ)`. -/
theorem derivative2_nonrational_pointwise {o : Obj K} {b1 b2 : Basis K} (hb : o.bases = #[b1, b2])
    {n1 n2 nc : ℕ} (hs : o.cps.shape = [n1, n2, nc]) (hr : o.rational = false) (tol : K)
    (us vs : List K) (d1 d2 : ℕ) (a1 a2 : Bool) (hlen : vs.length = us.length)
    (hdom : ¬ o.OutOfDomain tol [us, vs]) :
    ∃ res, o.derivativeGeneric tol [us, vs] [d1, d2] [a1, a2] false = .ok res ∧
      ∀ i c, i < us.length → c < nc →
        res.get (i * nc + c) =
          ∑ j1 ∈ Finset.range n1, ∑ j2 ∈ Finset.range n2,
            b1.drowVal tol (us.getD i 0) d1 a1 j1 * b2.drowVal tol (vs.getD i 0) d2 a2 j2
              * o.cps.get ((j1 * n2 + j2) * nc + c) := by
  have hl : ¬ (false = false ∧ ([us, vs].map List.length).eraseDups.length ≠ 1) := by
    rw [not_and_not_right]; intro _
    rw [eraseDups_length_eq_one_iff]
    exact ⟨by simp, by intro x hx y hy; simp at hx hy; omega⟩
  refine ⟨_, derivativeGeneric_nonrational_ok o tol [us, vs] [d1, d2] [a1, a2] false hr hl hdom, ?_⟩
  intro i c hi hc
  rw [homJet2 hb]
  simp only [Bool.false_eq_true, if_false]
  rw [contractPointwise2_get _ _ _ _ hs hi hc]
  exact Finset.sum_congr rfl (fun j1 _ => Finset.sum_congr rfl (fun j2 _ => by
    rw [basisMat_snap_entry_d b1 tol us d1 a1 hi, basisMat_snap_entry_d b2 tol vs d2 a2 (by omega)]))

/-! ### volumes -/

theorem homJet3 {o : Obj K} {b1 b2 b3 : Basis K} (hb : o.bases = #[b1, b2, b3]) (tol : K)
    (us vs ws : List K) (d1 d2 d3 : ℕ) (a1 a2 a3 : Bool) (tensor : Bool) :
    o.homJet tol (o.snapParams tol [us, vs, ws]) [d1, d2, d3] [a1, a2, a3] tensor =
      (if tensor then contractGrid [basisMat b1 tol (us.map (snap b1 tol)) d1 a1,
                                    basisMat b2 tol (vs.map (snap b2 tol)) d2 a2,
                                    basisMat b3 tol (ws.map (snap b3 tol)) d3 a3] o.cps
       else contractPointwise [basisMat b1 tol (us.map (snap b1 tol)) d1 a1,
                               basisMat b2 tol (vs.map (snap b2 tol)) d2 a2,
                               basisMat b3 tol (ws.map (snap b3 tol)) d3 a3] o.cps us.length) := by
  simp [homJet, snapParams, hb]

/-- Non-rational volume, tensor grid. -/
theorem derivative3_nonrational_grid {o : Obj K} {b1 b2 b3 : Basis K} (hb : o.bases = #[b1, b2, b3])
    {n1 n2 n3 nc : ℕ} (hs : o.cps.shape = [n1, n2, n3, nc]) (hr : o.rational = false) (tol : K)
    (us vs ws : List K) (d1 d2 d3 : ℕ) (a1 a2 a3 : Bool) (hdom : ¬ o.OutOfDomain tol [us, vs, ws]) :
    ∃ res, o.derivativeGeneric tol [us, vs, ws] [d1, d2, d3] [a1, a2, a3] true = .ok res ∧
      ∀ i1 i2 i3 c, i1 < us.length → i2 < vs.length → i3 < ws.length → c < nc →
        res.get (((i1 * vs.length + i2) * ws.length + i3) * nc + c) =
          ∑ j1 ∈ Finset.range n1, ∑ j2 ∈ Finset.range n2, ∑ j3 ∈ Finset.range n3,
            b1.drowVal tol (us.getD i1 0) d1 a1 j1 * b2.drowVal tol (vs.getD i2 0) d2 a2 j2
              * b3.drowVal tol (ws.getD i3 0) d3 a3 j3
              * o.cps.get (((j1 * n2 + j2) * n3 + j3) * nc + c) := by
  refine ⟨_, derivativeGeneric_nonrational_ok o tol [us, vs, ws] [d1, d2, d3] [a1, a2, a3] true hr
    (by simp) hdom, ?_⟩
  intro i1 i2 i3 c h1 h2 h3 hc
  rw [homJet3 hb]
  simp only [if_true]
  have hsz2 : (basisMat b2 tol (vs.map (snap b2 tol)) d2 a2).size = vs.length := by
    rw [basisMat_rows, List.length_map]
  have hsz3 : (basisMat b3 tol (ws.map (snap b3 tol)) d3 a3).size = ws.length := by
    rw [basisMat_rows, List.length_map]
  rw [← hsz2, ← hsz3, contractGrid3_get _ _ _ _ hs (by rw [basisMat_rows, List.length_map]; exact h1)
    (by rw [hsz2]; exact h2) (by rw [hsz3]; exact h3) hc]
  exact Finset.sum_congr rfl (fun j1 _ => Finset.sum_congr rfl (fun j2 _ =>
    Finset.sum_congr rfl (fun j3 _ => by
      rw [basisMat_snap_entry_d b1 tol us d1 a1 h1, basisMat_snap_entry_d b2 tol vs d2 a2 h2,
        basisMat_snap_entry_d b3 tol ws d3 a3 h3])))

/-- Non-rational volume, `tensor=False`. -/
theorem derivative3_nonrational_pointwise {o : Obj K} {b1 b2 b3 : Basis K} (hb : o.bases = #[b1, b2, b3])
    {n1 n2 n3 nc : ℕ} (hs : o.cps.shape = [n1, n2, n3, nc]) (hr : o.rational = false) (tol : K)
    (us vs ws : List K) (d1 d2 d3 : ℕ) (a1 a2 a3 : Bool) (hlen2 : vs.length = us.length)
    (hlen3 : ws.length = us.length) (hdom : ¬ o.OutOfDomain tol [us, vs, ws]) :
    ∃ res, o.derivativeGeneric tol [us, vs, ws] [d1, d2, d3] [a1, a2, a3] false = .ok res ∧
      ∀ i c, i < us.length → c < nc →
        res.get (i * nc + c) =
          ∑ j1 ∈ Finset.range n1, ∑ j2 ∈ Finset.range n2, ∑ j3 ∈ Finset.range n3,
            b1.drowVal tol (us.getD i 0) d1 a1 j1 * b2.drowVal tol (vs.getD i 0) d2 a2 j2
              * b3.drowVal tol (ws.getD i 0) d3 a3 j3
              * o.cps.get (((j1 * n2 + j2) * n3 + j3) * nc + c) := by
  have hl : ¬ (false = false ∧ ([us, vs, ws].map List.length).eraseDups.length ≠ 1) := by
    rw [not_and_not_right]; intro _
    rw [eraseDups_length_eq_one_iff]
    exact ⟨by simp, by intro x hx y hy; simp at hx hy; omega⟩
  refine ⟨_, derivativeGeneric_nonrational_ok o tol [us, vs, ws] [d1, d2, d3] [a1, a2, a3] false hr hl
    hdom, ?_⟩
  intro i c hi hc
  rw [homJet3 hb]
  simp only [Bool.false_eq_true, if_false]
  rw [contractPointwise3_get _ _ _ _ _ hs hi hc]
  exact Finset.sum_congr rfl (fun j1 _ => Finset.sum_congr rfl (fun j2 _ =>
    Finset.sum_congr rfl (fun j3 _ => by
      rw [basisMat_snap_entry_d b1 tol us d1 a1 hi, basisMat_snap_entry_d b2 tol vs d2 a2 (by omega),
        basisMat_snap_entry_d b3 tol ws d3 a3 (by omega)])))

end Obj

end Splipy
