import Splipy.Lemmas.C03Contract

/-!
# C03 – non-rational objects: the model derivative is the mixed partial `Σ Π_k dB_k · P`

`Obj.derivativeGeneric` on a non-rational object returns the contraction of the control net with the
per-direction matrices `Basis.evaluate(t, d_k, side_k)` (by definition, `derivativeGeneric_nonrational`).
With the C01 statement for the rows used (each row entry is the specification value `dB`; named
hypothesis `RowsAreDB`) the result is the tensor-product derivative sum of the specification.
-/

namespace Splipy

variable {K : Type} [Field K] [LinearOrder K] [FloorRing K]

def sideOf (a : Bool) : Side := if a then .right else .left

/-- Mixed partial of the tensor-product spline surface `Σ_{ij} P i j B_i(u) B_j(v)` (one-sided per direction). -/
def tensorDeriv2 (s1 s2 : Side) (τ1 τ2 : ℕ → K) (q1 q2 n1 n2 : ℕ) (P : ℕ → ℕ → K) (d1 d2 : ℕ) (u v : K) : K :=
  (Finset.range n1).sum (fun i => dB s1 τ1 q1 i d1 u *
    (Finset.range n2).sum (fun j => dB s2 τ2 q2 j d2 v * P i j))

/-- Mixed partial of the tensor-product spline volume. -/
def tensorDeriv3 (s1 s2 s3 : Side) (τ1 τ2 τ3 : ℕ → K) (q1 q2 q3 n1 n2 n3 : ℕ) (P : ℕ → ℕ → ℕ → K)
    (d1 d2 d3 : ℕ) (u v w : K) : K :=
  (Finset.range n1).sum (fun i => dB s1 τ1 q1 i d1 u *
    (Finset.range n2).sum (fun j => dB s2 τ2 q2 j d2 v *
      (Finset.range n3).sum (fun k => dB s3 τ3 q3 k d3 w * P i j k)))

/-- The C01 statement for the rows a call uses: entry `j` of `basis.evaluate(t, d, from_right)` is the
    specification value `dB` (non-periodic direction, `t` in the domain; for the general statement with
    wrapped images and effective sides see `Properties/C01.lean`). -/
def RowsAreDB (b : Basis K) (tol : K) (ts : List K) (d : ℕ) (a : Bool) : Prop :=
  ∀ k, k < ts.length → ∀ j, j < b.numFunctions →
    (b.evaluate tol (ts.getD k 0) d a).getD j 0 = dB (sideOf a) b.kn (b.order - 1) j d (ts.getD k 0)

namespace Obj

theorem basisMat_size (b : Basis K) (tol : K) (ps : List K) (d : ℕ) (a : Bool) :
    (basisMat b tol ps d a).size = ps.length := by
  unfold basisMat
  simp

theorem basisMat_getD (b : Basis K) (tol : K) (ps : List K) (d : ℕ) (a : Bool) (r : ℕ) (hr : r < ps.length) :
    (basisMat b tol ps d a).getD r #[] = b.evaluate tol (ps.getD r 0) d a := by
  unfold basisMat Array.getD
  simp [hr]

theorem homJet_curve (o : Obj K) (b : Basis K) (hb : o.bases.toList = [b]) (tol : K) (ts : List K)
    (d : ℕ) (a : Bool) :
    o.homJet tol [ts] [d] [a] true = contractGrid [basisMat b tol ts d a] o.cps := by
  unfold homJet
  rw [hb]
  rfl

theorem homJet_surface (o : Obj K) (b1 b2 : Basis K) (hb : o.bases.toList = [b1, b2]) (tol : K)
    (us vs : List K) (d1 d2 : ℕ) (a1 a2 : Bool) :
    o.homJet tol [us, vs] [d1, d2] [a1, a2] true =
      contractGrid [basisMat b1 tol us d1 a1, basisMat b2 tol vs d2 a2] o.cps := by
  unfold homJet
  rw [hb]
  rfl

theorem homJet_volume (o : Obj K) (b1 b2 b3 : Basis K) (hb : o.bases.toList = [b1, b2, b3]) (tol : K)
    (us vs ws : List K) (d1 d2 d3 : ℕ) (a1 a2 a3 : Bool) :
    o.homJet tol [us, vs, ws] [d1, d2, d3] [a1, a2, a3] true =
      contractGrid [basisMat b1 tol us d1 a1, basisMat b2 tol vs d2 a2, basisMat b3 tol ws d3 a3] o.cps := by
  unfold homJet
  rw [hb]
  rfl

/-- Curves. -/
theorem derivative_nonrational_curve (o : Obj K) (b : Basis K) (hb : o.bases.toList = [b]) (n nc : ℕ)
    (hs : o.cps.shape = [n, nc]) (hn : n = b.numFunctions) (tol : K) (ts ts' : List K) (d : ℕ) (a : Bool)
    (r : Tensor K) (hr : o.rational = false)
    (hv : o.validateDomain tol [ts] = .ok [ts'])
    (h : o.derivativeGeneric tol [ts] [d] [a] true = .ok r)
    (hC01 : RowsAreDB b tol ts' d a) :
    ∀ k, k < ts'.length → ∀ c, c < nc →
      r.get (k * nc + c) =
        splineDeriv (sideOf a) b.kn (b.order - 1) n (fun j => o.cps.get (j * nc + c)) d (ts'.getD k 0) := by
  obtain ⟨ps, hps, hrr⟩ := derivativeGeneric_nonrational o tol [ts] [d] [a] true r hr h
  rw [hv] at hps
  injection hps with hps
  subst hps
  intro k hk c hc
  rw [hrr, homJet_curve o b hb, contractGrid_curve_get _ _ n nc hs k c (by rw [basisMat_size]; exact hk) hc]
  unfold splineDeriv
  apply Finset.sum_congr rfl
  intro j hj
  rw [Finset.mem_range] at hj
  rw [basisMat_getD _ _ _ _ _ _ hk, hC01 k hk j (by omega)]
  ring

/-- Surfaces (tensor grid). -/
theorem derivative_nonrational_surface (o : Obj K) (b1 b2 : Basis K) (hb : o.bases.toList = [b1, b2])
    (n1 n2 nc : ℕ) (hs : o.cps.shape = [n1, n2, nc]) (hn1 : n1 = b1.numFunctions) (hn2 : n2 = b2.numFunctions)
    (tol : K) (us vs us' vs' : List K) (d1 d2 : ℕ) (a1 a2 : Bool) (r : Tensor K) (hr : o.rational = false)
    (hv : o.validateDomain tol [us, vs] = .ok [us', vs'])
    (h : o.derivativeGeneric tol [us, vs] [d1, d2] [a1, a2] true = .ok r)
    (hC01u : RowsAreDB b1 tol us' d1 a1) (hC01v : RowsAreDB b2 tol vs' d2 a2) :
    ∀ k1, k1 < us'.length → ∀ k2, k2 < vs'.length → ∀ c, c < nc →
      r.get ((k1 * vs'.length + k2) * nc + c) =
        tensorDeriv2 (sideOf a1) (sideOf a2) b1.kn b2.kn (b1.order - 1) (b2.order - 1) n1 n2
          (fun i j => o.cps.get ((i * n2 + j) * nc + c)) d1 d2 (us'.getD k1 0) (vs'.getD k2 0) := by
  obtain ⟨ps, hps, hrr⟩ := derivativeGeneric_nonrational o tol [us, vs] [d1, d2] [a1, a2] true r hr h
  rw [hv] at hps
  injection hps with hps
  subst hps
  intro k1 hk1 k2 hk2 c hc
  have hsz2 : (basisMat b2 tol vs' d2 a2).size = vs'.length := basisMat_size _ _ _ _ _
  rw [hrr, homJet_surface o b1 b2 hb, ← hsz2,
    contractGrid_surface_get _ _ _ n1 n2 nc hs k1 k2 c (by rw [basisMat_size]; exact hk1)
      (by rw [basisMat_size]; exact hk2) hc]
  unfold tensorDeriv2
  apply Finset.sum_congr rfl
  intro i hi
  rw [Finset.mem_range] at hi
  rw [basisMat_getD _ _ _ _ _ _ hk1, hC01u k1 hk1 i (by omega)]
  congr 1
  apply Finset.sum_congr rfl
  intro j hj
  rw [Finset.mem_range] at hj
  rw [basisMat_getD _ _ _ _ _ _ hk2, hC01v k2 hk2 j (by omega)]

/-- Volumes (tensor grid). -/
theorem derivative_nonrational_volume (o : Obj K) (b1 b2 b3 : Basis K) (hb : o.bases.toList = [b1, b2, b3])
    (n1 n2 n3 nc : ℕ) (hs : o.cps.shape = [n1, n2, n3, nc]) (hn1 : n1 = b1.numFunctions)
    (hn2 : n2 = b2.numFunctions) (hn3 : n3 = b3.numFunctions)
    (tol : K) (us vs ws us' vs' ws' : List K) (d1 d2 d3 : ℕ) (a1 a2 a3 : Bool) (r : Tensor K)
    (hr : o.rational = false)
    (hv : o.validateDomain tol [us, vs, ws] = .ok [us', vs', ws'])
    (h : o.derivativeGeneric tol [us, vs, ws] [d1, d2, d3] [a1, a2, a3] true = .ok r)
    (hC01u : RowsAreDB b1 tol us' d1 a1) (hC01v : RowsAreDB b2 tol vs' d2 a2)
    (hC01w : RowsAreDB b3 tol ws' d3 a3) :
    ∀ k1, k1 < us'.length → ∀ k2, k2 < vs'.length → ∀ k3, k3 < ws'.length → ∀ c, c < nc →
      r.get (((k1 * vs'.length + k2) * ws'.length + k3) * nc + c) =
        tensorDeriv3 (sideOf a1) (sideOf a2) (sideOf a3) b1.kn b2.kn b3.kn (b1.order - 1) (b2.order - 1)
          (b3.order - 1) n1 n2 n3 (fun i j k => o.cps.get (((i * n2 + j) * n3 + k) * nc + c)) d1 d2 d3
          (us'.getD k1 0) (vs'.getD k2 0) (ws'.getD k3 0) := by
  obtain ⟨ps, hps, hrr⟩ := derivativeGeneric_nonrational o tol [us, vs, ws] [d1, d2, d3] [a1, a2, a3] true r hr h
  rw [hv] at hps
  injection hps with hps
  subst hps
  intro k1 hk1 k2 hk2 k3 hk3 c hc
  have hsz2 : (basisMat b2 tol vs' d2 a2).size = vs'.length := basisMat_size _ _ _ _ _
  have hsz3 : (basisMat b3 tol ws' d3 a3).size = ws'.length := basisMat_size _ _ _ _ _
  rw [hrr, homJet_volume o b1 b2 b3 hb, ← hsz2, ← hsz3,
    contractGrid_volume_get _ _ _ _ n1 n2 n3 nc hs k1 k2 k3 c (by rw [basisMat_size]; exact hk1)
      (by rw [basisMat_size]; exact hk2) (by rw [basisMat_size]; exact hk3) hc]
  unfold tensorDeriv3
  apply Finset.sum_congr rfl
  intro i hi
  rw [Finset.mem_range] at hi
  rw [basisMat_getD _ _ _ _ _ _ hk1, hC01u k1 hk1 i (by omega)]
  congr 1
  apply Finset.sum_congr rfl
  intro j hj
  rw [Finset.mem_range] at hj
  rw [basisMat_getD _ _ _ _ _ _ hk2, hC01v k2 hk2 j (by omega)]
  congr 1
  apply Finset.sum_congr rfl
  intro k hk
  rw [Finset.mem_range] at hk
  rw [basisMat_getD _ _ _ _ _ _ hk3, hC01w k3 hk3 k (by omega)]

end Obj

end Splipy
