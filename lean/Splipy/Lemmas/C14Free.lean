import Splipy.Lemmas.C10Ctor
import Splipy.Lemmas.C14Spec
import Splipy.Lemmas.C14Cubic
set_option linter.unusedSectionVars false
set_option linter.unusedSimpArgs false

/-!
# C14: `cubic_curve(…, FREE)` is solvable on every strictly increasing parameter sequence

The not-a-knot knot vector `t₀⁴, t₂ … t_{n−3}, t_{n−1}⁴` and the data parameters `t₀ < … < t_{n−1}`
satisfy the Schoenberg–Whitney nesting, so the collocation matrix is invertible.
-/

namespace Splipy
open Finset
namespace Interp
variable {K : Type} [Field K] [LinearOrder K] [IsStrictOrderedRing K]

/-- Which data parameter the `i`-th knot of the FREE knot vector is (`n` = number of points). -/
def freeIdx (n i : ℕ) : ℕ := if i < 4 then 0 else if i < n then i - 2 else n - 1

/-- The basis `cubic_curve` builds for `FREE`. -/
def freeBasis (a d : K) (mid : List K) : Basis K :=
  { order := 4, knots := ([a, a, a, a] ++ mid ++ [d, d, d, d]).toArray, periodic := -1 }

theorem freeBasis_numFunctions (a d : K) (mid : List K) : (freeBasis a d mid).numFunctions = mid.length + 4 := by
  unfold freeBasis Basis.numFunctions
  simp

theorem freeBasis_size (a d : K) (mid : List K) : (freeBasis a d mid).knots.size = mid.length + 8 := by
  unfold freeBasis; simp

omit [Field K] [LinearOrder K] [IsStrictOrderedRing K] in
theorem getD_toArray_c14 (l : List K) (i : ℕ) (d : K) : l.toArray.getD i d = l.getD i d := by
  simp [Array.getD_eq_getD_getElem?, List.getD_eq_getElem?_getD]

/-- Every knot is one of the data parameters. -/
theorem freeBasis_kn (a b c d : K) (mid : List K) (i : ℕ) :
    (freeBasis a d mid).kn i = (a :: b :: (mid ++ [c, d])).getD (freeIdx (mid.length + 4) i) 0 := by
  unfold Basis.kn freeIdx freeBasis
  simp only [getD_toArray_c14, List.size_toArray]
  have hlast : ([a, a, a, a] ++ mid ++ [d, d, d, d]).getD (([a, a, a, a] ++ mid ++ [d, d, d, d]).length - 1) 0 = d := by
    have : ([a, a, a, a] ++ mid ++ [d, d, d, d]).length - 1 = (mid.length + 3) + 4 := by simp
    rw [this]
    simp [List.getD_eq_getElem?_getD, List.getElem?_append_right]
  rw [hlast]
  by_cases h4 : i < 4
  · rw [if_pos h4]
    interval_cases i <;> simp
  · rw [if_neg h4]
    obtain ⟨k, rfl⟩ : ∃ k, i = k + 4 := ⟨i - 4, by omega⟩
    by_cases hn : k + 4 < mid.length + 4
    · rw [if_pos hn]
      have hk : k < mid.length := by omega
      rw [show k + 4 - 2 = k + 2 by omega]
      simp [List.getD_eq_getElem?_getD, List.getElem?_append_left, hk]
    · rw [if_neg hn]
      have hk : mid.length ≤ k := by omega
      rw [show mid.length + 4 - 1 = (mid.length + 1) + 2 by omega]
      have e2 : (a :: b :: (mid ++ [c, d])).getD (mid.length + 1 + 2) 0 = d := by
        simp [List.getD_eq_getElem?_getD, List.getElem?_append_right]
      rw [e2]
      by_cases hk4 : k < mid.length + 4
      · obtain ⟨r, rfl⟩ : ∃ r, k = mid.length + r := ⟨k - mid.length, by omega⟩
        have hr : r < 4 := by omega
        interval_cases r <;> simp [List.getD_eq_getElem?_getD, List.getElem?_append_right]
      · have : ([a, a, a, a] ++ mid ++ [d, d, d, d]).length ≤ k + 4 := by simp; omega
        rw [List.getD_eq_default _ _ this]

theorem freeIdx_lt (n i : ℕ) (hn : 4 ≤ n) : freeIdx n i < n := by
  unfold freeIdx; split_ifs <;> omega

theorem freeIdx_mono (n i j : ℕ) (hn : 4 ≤ n) (h : i ≤ j) : freeIdx n i ≤ freeIdx n j := by
  unfold freeIdx; split_ifs <;> omega

section facts
variable (a b c d : K) (mid : List K) (tol : K)
  (hgap : ∀ i j, i < j → j < mid.length + 4 →
    (a :: b :: (mid ++ [c, d])).getD i 0 + tol ≤ (a :: b :: (mid ++ [c, d])).getD j 0)
  (htol : 0 < tol)

include hgap htol

theorem free_T_strict (i j : ℕ) (hij : i < j) (hj : j < mid.length + 4) :
    (a :: b :: (mid ++ [c, d])).getD i 0 < (a :: b :: (mid ++ [c, d])).getD j 0 := by
  have := hgap i j hij hj; linarith

theorem free_T_mono (i j : ℕ) (hij : i ≤ j) (hj : j < mid.length + 4) :
    (a :: b :: (mid ++ [c, d])).getD i 0 ≤ (a :: b :: (mid ++ [c, d])).getD j 0 := by
  rcases Nat.eq_or_lt_of_le hij with h | h
  · rw [h]
  · exact (free_T_strict a b c d mid tol hgap htol i j h hj).le

theorem freeBasis_valid : (freeBasis a d mid).Valid where
  order_pos := by unfold freeBasis; simp
  size_ge := by rw [freeBasis_size]; unfold freeBasis; simp
  sorted := by
    intro i _
    rw [freeBasis_kn a b c d, freeBasis_kn a b c d]
    exact free_T_mono a b c d mid tol hgap htol _ _ (freeIdx_mono _ _ _ (by omega) (by omega))
      (freeIdx_lt _ _ (by omega))
  periodic_ge := by unfold freeBasis; simp
  periodic_le := by unfold freeBasis; simp
  start_lt_stop := by
    unfold Basis.start Basis.stop
    rw [freeBasis_kn a b c d, freeBasis_kn a b c d, freeBasis_size]
    have e1 : freeIdx (mid.length + 4) ((freeBasis a d mid).order - 1) = 0 := by
      unfold freeIdx freeBasis; simp
    have e2 : freeIdx (mid.length + 4) (mid.length + 8 - (freeBasis a d mid).order) = mid.length + 3 := by
      unfold freeIdx freeBasis; simp
    rw [e1, e2]
    exact free_T_strict a b c d mid tol hgap htol 0 (mid.length + 3) (by omega) (by omega)
  ghosts := fun h => absurd h (by unfold freeBasis; simp)

/-- The data parameters are nested collocation points for the FREE knot vector. -/
theorem free_nested :
    NestedPts (freeBasis a d mid).kn 3 (mid.length + 4) (fun l => (a :: b :: (mid ++ [c, d])).getD l 0) where
  first := by
    rw [freeBasis_kn a b c d]; unfold freeIdx; simp
  last := by
    rw [freeBasis_kn a b c d]
    have : freeIdx (mid.length + 4) (mid.length + 4) = mid.length + 4 - 1 := by unfold freeIdx; simp
    rw [this]
  lt_succ := fun l hl => free_T_strict a b c d mid tol hgap htol l (l+1) (by omega) hl
  nest := by
    intro l h1 h2
    rw [freeBasis_kn a b c d, freeBasis_kn a b c d]
    constructor
    · apply free_T_strict a b c d mid tol hgap htol _ _ _ (by omega)
      unfold freeIdx; split_ifs <;> omega
    · apply free_T_strict a b c d mid tol hgap htol _ _ _ (freeIdx_lt _ _ (by omega))
      unfold freeIdx; split_ifs <;> omega

theorem free_hmult (i : ℕ) (h1 : 1 ≤ i) (h2 : i < mid.length + 4) :
    (freeBasis a d mid).kn i < (freeBasis a d mid).kn (i + 3) := by
  rw [freeBasis_kn a b c d, freeBasis_kn a b c d]
  apply free_T_strict a b c d mid tol hgap htol _ _ _ (freeIdx_lt _ _ (by omega))
  unfold freeIdx; split_ifs <;> omega

/-- Every data parameter is exact w.r.t. the knot tolerance: each knot is a data parameter, and
distinct data parameters are at least `tol` apart. -/
theorem free_exact (l : ℕ) (hl : l < mid.length + 4) :
    (freeBasis a d mid).ExactAt tol ((a :: b :: (mid ++ [c, d])).getD l 0) := by
  intro i _
  rw [freeBasis_kn a b c d]
  have hk := freeIdx_lt (mid.length + 4) i (by omega)
  rcases Nat.lt_trichotomy (freeIdx (mid.length + 4) i) l with h | h | h
  · right
    have := hgap _ _ h hl
    rw [abs_sub_comm, abs_of_nonneg (by linarith)]
    linarith
  · left; rw [h]
  · right
    have := hgap _ _ h hk
    rw [abs_of_nonneg (by linarith)]
    linarith

end facts

variable [FloorRing K]

omit [IsStrictOrderedRing K] in
theorem cubicKnots_FREE (a b c d : K) (mid : List K) :
    cubicKnots bFREE (a :: b :: (mid ++ [c, d])) = .ok ([a, a, a, a] ++ mid ++ [d, d, d, d]) := by
  have e0 : pyGet (a :: b :: (mid ++ [c, d])) 0 = .ok a := pyGet_nat _ 0 (by simp)
  have e9 : pyGet (a :: b :: (mid ++ [c, d])) (-1) = .ok d := by
    have := pyGet_neg (a :: b :: (mid ++ [c, d])) 1 (by omega) (by simp)
    simpa using this
  have e1 : List.replicate 3 a ++ (a :: b :: (mid ++ [c, d])) ++ List.replicate 3 d
      = ([a, a, a, a, b] ++ mid) ++ (c :: [d, d, d, d]) := by
    simp [List.replicate]
  unfold cubicKnots
  simp only [e0, e9, bind, Except.bind, pure, Except.pure, bFREE, if_true]
  rw [e1]
  have hd1 := pyDel_neg (([a, a, a, a, b] ++ mid) ++ (c :: [d, d, d, d])) 5 (by omega)
    (by simp only [List.length_append, List.length_cons, List.length_nil]; omega)
  have hidx : (([a, a, a, a, b] ++ mid) ++ (c :: [d, d, d, d])).length - 5 = ([a, a, a, a, b] ++ mid).length := by
    simp only [List.length_append, List.length_cons, List.length_nil]; omega
  rw [hidx, List.eraseIdx_append_of_length_le (Nat.le_refl _), Nat.sub_self, List.eraseIdx_cons_zero] at hd1
  have hd1' : pyDel (([a, a, a, a, b] ++ mid) ++ (c :: [d, d, d, d])) (-5)
      = .ok ([a, a, a, a, b] ++ mid ++ [d, d, d, d]) := by simpa using hd1
  rw [hd1']
  simp only
  have hd2 := pyDel_nat ([a, a, a, a, b] ++ mid ++ [d, d, d, d]) 4
    (by simp only [List.length_append, List.length_cons, List.length_nil]; omega)
  have : pyDel ([a, a, a, a, b] ++ mid ++ [d, d, d, d]) 4 = .ok ([a, a, a, a] ++ mid ++ [d, d, d, d]) := by
    simpa using hd2
  exact this

/-- **`cubic_curve(x, FREE, t)` succeeds** for every parameter sequence whose consecutive values are
at least `tol` apart (strictly increasing), `n ≥ 4` points. -/
theorem cubicCurve_FREE_ok (a b c d : K) (mid : List K) (tol rt atl : K) (htol : 0 < tol)
    (hgap : ∀ i j, i < j → j < mid.length + 4 →
      (a :: b :: (mid ++ [c, d])).getD i 0 + tol ≤ (a :: b :: (mid ++ [c, d])).getD j 0)
    (x : Mat K) (m : ℕ) (hxs : x.size = mid.length + 4 ∧ ∀ i, i < mid.length + 4 → (x.getD i #[]).size = m)
    (tg : Option (Mat K)) :
    ∃ cp, cubicCurve bFREE tol rt atl x (a :: b :: (mid ++ [c, d])) tg = .ok (freeBasis a d mid, cp) ∧
      cp.size = mid.length + 4 ∧ ∀ i, i < mid.length + 4 → (cp.getD i #[]).size = m := by
  set t := a :: b :: (mid ++ [c, d]) with ht
  have hv := freeBasis_valid a b c d mid tol hgap htol
  have hnf := freeBasis_numFunctions a d mid
  have htl : t.length = mid.length + 4 := by rw [ht]; simp
  have hne : bFREE ≠ bPERIODIC := by decide
  have hclose : cubicClose bFREE rt atl x = x := by
    unfold cubicClose; simp [hne]
  have hmk : Basis.mk? 4 ([a, a, a, a] ++ mid ++ [d, d, d, d]).toArray (-1) tol = .ok (freeBasis a d mid) :=
    Basis.mk?_of_valid hv tol htol.le
  have hextra : ∀ dim, cubicExtra bFREE (freeBasis a d mid) tol t dim tg = .ok (#[], #[]) := by
    intro dim
    unfold cubicExtra
    simp only [bFREE, bPERIODIC, bTANGENT, bHERMITE, bTANGENTNATURAL, bNATURAL, bind, Except.bind, pure,
      Except.pure]
    simp
  have hsys : cubicSystem bFREE tol rt atl x t tg
      = .ok (freeBasis a d mid, colloc (freeBasis a d mid) tol t 0, x) := by
    unfold cubicSystem
    have hkn : cubicKnots bFREE t = .ok ([a, a, a, a] ++ mid ++ [d, d, d, d]) := cubicKnots_FREE a b c d mid
    simp only [hclose, bind, Except.bind, pure, Except.pure, hne, if_false, hkn, hmk, hextra,
      Array.append_empty]
    rw [if_neg (by rw [htl, hxs.1]; simp)]
  -- solvability by Schoenberg–Whitney
  have hpo : (freeBasis a d mid).order - 1 = 3 := rfl
  obtain ⟨Ni, hNi⟩ := colloc_invChecked_ok hv rfl (by unfold freeBasis; simp)
    (by rw [freeBasis_kn a b c d, freeBasis_kn a b c d]; unfold freeIdx freeBasis; simp)
    (by
      rw [freeBasis_kn a b c d, freeBasis_kn a b c d, hnf]
      have e1 : freeIdx (mid.length + 4) (mid.length + 4) = mid.length + 3 := by unfold freeIdx; simp
      have e2 : freeIdx (mid.length + 4) (mid.length + 4 + ((freeBasis a d mid).order - 1)) = mid.length + 3 := by
        unfold freeIdx; rw [hpo]; simp
      rw [e1, e2])
    (by rw [hnf, hpo]; exact free_hmult a b c d mid tol hgap htol)
    htol t (by rw [htl, hnf]) (fun l => t.getD l 0)
    (by rw [hnf, hpo]; exact free_nested a b c d mid tol hgap htol)
    (fun l hl => by simp [List.getD_eq_getElem?_getD, hl])
    (by rw [hnf]; exact free_exact a b c d mid tol hgap htol)
  obtain ⟨_, hL⟩ := Mat.invChecked_spec _ _ hNi
  have hshape := basisMat_shape (freeBasis a d mid) tol t (by rw [htl, hnf])
  rw [htl] at hshape
  have hnr : (Obj.basisMat (freeBasis a d mid) tol t 0 true).nrows = mid.length + 4 := hshape.1
  rw [hnr] at hL
  obtain ⟨cp, hcp⟩ := solveC_complete (colloc (freeBasis a d mid) tol t 0) x (mid.length + 4) m hshape hxs
    (fun i l => Ni.get i l) (fun i j hi hj => hL i hi j hj)
  obtain ⟨sh1, sh2⟩ := solveC_shape (mid.length + 4) m hshape hxs hcp
  refine ⟨cp, ?_, sh1, sh2⟩
  unfold cubicCurve
  simp only [hsys, bind, Except.bind, pure, Except.pure]
  rw [if_neg (by rw [size_colloc, htl, hnf, hxs.1]; simp), hcp]

end Interp
end Splipy
