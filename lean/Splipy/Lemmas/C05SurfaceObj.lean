import Splipy.Lemmas.C05Renet
import Splipy.Lemmas.C14Through
import Mathlib.Tactic.IntervalCases

/-!
# C05 — the surface returned by `raise_order_implicit` is the re-netted surface

Object-level assembly for two parametric directions: the model's result equals `renet` applied in
direction 0 and then in direction 1 (or in one direction only when the other amount is 0), hence it
is well formed and has the same evaluated map.
-/

namespace Splipy

set_option linter.unusedSectionVars false

variable {K : Type} [Field K] [LinearOrder K] [IsStrictOrderedRing K] [FloorRing K]

open Finset C06

theorem bases_of_wf2 {o : Obj K} (hw : C06.WF o 2) : o.bases = #[o.basis 0, o.basis 1] := by
  have h := hw.size
  apply Array.ext
  · simp [h]
  · intro i h1 h2
    have hi : i < 2 := by rw [← h]; exact h1
    interval_cases i <;> simp [Obj.basis, Array.getD, h]

theorem shape_of_wf2 {o : Obj K} (hw : C06.WF o 2) :
    o.cps.shape = [(o.basis 0).numFunctions, (o.basis 1).numFunctions, o.ncomp] := by
  rw [hw.shape]; simp [C06.midx, List.ofFn_succ]

theorem tdf2_data_size (M : Mat K) (t : Tensor K) {A B C : ℕ} (hs : t.shape = [A, B, C]) :
    (Tensor.tensordotFront M t 2).data.size = M.size * A * C := by
  unfold Tensor.tensordotFront
  simp [hs, Tensor.prod]

theorem prod3 (a b c : ℕ) : Tensor.prod [a, b, c] = a * b * c := by simp [Tensor.prod]

/-- Entries of the twice re-netted control array. -/
theorem renet2_entries (t : Tensor K) {A B C : ℕ} (hs : t.shape = [A, B, C]) (Eu Ev : ℕ → ℕ → K) (nu nv : ℕ) :
    (Tensor.applyAxis (matOfE Ev B nv) (Tensor.applyAxis (matOfE Eu A nu) t 0) 1).shape = [nu, nv, C] ∧
    (Tensor.applyAxis (matOfE Ev B nv) (Tensor.applyAxis (matOfE Eu A nu) t 0) 1).data.size = nu * nv * C ∧
    ∀ k0, k0 < nu → ∀ k1, k1 < nv → ∀ i, i < C →
      (Tensor.applyAxis (matOfE Ev B nv) (Tensor.applyAxis (matOfE Eu A nu) t 0) 1).entry3 nv C k0 k1 i
        = ∑ a ∈ range A, (∑ j ∈ range B, t.get ((a * B + j) * C + i) * Ev j k1) * Eu a k0 := by
  obtain ⟨sX, eX⟩ := Tensor.applyAxis3_0_c14 (matOfE Eu A nu) t hs
  rw [matOfE_size] at sX eX
  obtain ⟨sY, eY⟩ := Tensor.applyAxis3_1_c14 (matOfE Ev B nv) _ sX
  rw [matOfE_size] at sY eY
  refine ⟨sY, ?_, fun k0 hk0 k1 hk1 i hi => ?_⟩
  · have := applyAxis_wf (matOfE Ev B nv) (Tensor.applyAxis (matOfE Eu A nu) t 0) 1 (by rw [sX]; simp)
    unfold Tensor.WF at this
    rw [this, sY, prod3]
  · rw [eY k0 hk0 k1 hk1 i hi]
    rw [sum_congr rfl (fun j hj => by
      rw [matOfE_get Ev B nv k1 j hk1 (mem_range.mp hj), eX k0 hk0 j (mem_range.mp hj) i hi])]
    rw [sum_congr rfl (fun j _ => by rw [mul_sum])]
    rw [sum_comm]
    apply sum_congr rfl
    intro a ha
    rw [sum_mul]
    apply sum_congr rfl
    intro j _
    rw [matOfE_get Eu A nu k0 a hk0 (mem_range.mp ha)]
    unfold Tensor.entry3
    ring

/-- **`raise_order_implicit` on a surface = re-netting both directions.** -/
theorem raiseImplicit_surface_eq (o : Obj K) (tol : K) (hw : C06.WF o 2) (au av : ℕ) (bu' bv' : Basis K)
    (hru : (o.basis 0).raiseOrder tol au = .ok bu') (hrv : (o.basis 1).raiseOrder tol av = .ok bv')
    (pu pv : Array K) (hgu : bu'.greville = .ok pu) (hgv : bv'.greville = .ok pv) (Niu Niv : Mat K)
    (Hu : Mat.invChecked (Obj.basisMat bu' tol pu.toList 0 true) = .ok Niu)
    (Hv : Mat.invChecked (Obj.basisMat bv' tol pv.toList 0 true) = .ok Niv)
    (Eu Ev : ℕ → ℕ → K) (hEu : RowsVia tol (o.basis 0) bu' (o.basis 0).numFunctions Eu)
    (hEv : RowsVia tol (o.basis 1) bv' (o.basis 1).numFunctions Ev) :
    o.raiseOrderImplicit tol [au, av] = .ok (renet (renet o 0 bu' Eu) 1 bv' Ev) := by
  have hb := bases_of_wf2 hw
  have hs := shape_of_wf2 hw
  obtain ⟨T, hT, hTs, hTe⟩ := reinterpolate_pardim2 o tol (o.basis 0) (o.basis 1) bu' bv' pu pv _ _ _ Niu Niv hb hs
    hgu hgv Hu Hv Eu Ev hEu hEv
  have hPu := greville_size bu' pu hgu
  have hPv := greville_size bv' pv hgv
  have himp : o.raiseOrderImplicit tol [au, av]
      = .ok { o with bases := [bu', bv'].toArray, cps := T } := by
    unfold Obj.raiseOrderImplicit
    rw [hb]
    simp only [Obj.raiseBases, hru, hrv]
    rw [hT]
  rw [himp]
  congr 1
  -- the two objects coincide
  have hbases : (o.bases.set! 0 bu').set! 1 bv' = [bu', bv'].toArray := by
    rw [hb]; simp [Array.set!]
  have hren : renet (renet o 0 bu' Eu) 1 bv' Ev
      = { bases := [bu', bv'].toArray,
          cps := Tensor.applyAxis (matOfE Ev (o.basis 1).numFunctions bv'.numFunctions)
            (Tensor.applyAxis (matOfE Eu (o.basis 0).numFunctions bu'.numFunctions) o.cps 0) 1,
          rational := o.rational } := by
    have hb1 := C04.basis_set_ne o 0 1 (by decide) bu'
      (Tensor.applyAxis (matOfE Eu (o.basis 0).numFunctions bu'.numFunctions) o.cps 0)
    unfold renet
    simp only [hb1, hbases]
  rw [hren]
  congr 1
  obtain ⟨sR, dR, eR⟩ := renet2_entries o.cps hs Eu Ev bu'.numFunctions bv'.numFunctions
  rw [hPu, hPv] at hTs hTe
  have dT : T.data.size = bu'.numFunctions * bv'.numFunctions * o.ncomp := by
    have hTd : T = Tensor.tensordotFront Niu (Tensor.tensordotFront Niv
        (Tensor.tensordotFront (Obj.basisMat (o.basis 0) tol pu.toList 0 true)
          (Tensor.tensordotFront (Obj.basisMat (o.basis 1) tol pv.toList 0 true) o.cps 2) 2) 2) 2 := by
      have hpd : o.pardim = 2 := by simp [Obj.pardim, hs]
      have : o.reinterpolate tol [bu', bv'] = .ok _ := hT
      unfold Obj.reinterpolate at this
      simp only [Obj.grevilles, hgu, hgv, hb, hpd] at this
      simp only [List.zip_cons_cons, List.zip_nil_right, List.map_cons, List.map_nil,
        List.reverse_cons, List.reverse_nil, List.nil_append, List.cons_append, List.foldl_cons, List.foldl_nil,
        Obj.solveChain, Hv, Hu] at this
      injection this with this
      exact this.symm
    obtain ⟨hNiu, _⟩ := Mat.invChecked_spec _ Niu Hu
    obtain ⟨hNiv, _⟩ := Mat.invChecked_spec _ Niv Hv
    have r1 : (Obj.basisMat bu' tol pu.toList 0 true).nrows = pu.size := by simp [Mat.nrows, basisMat_size]
    have r2 : (Obj.basisMat bv' tol pv.toList 0 true).nrows = pv.size := by simp [Mat.nrows, basisMat_size]
    rw [r1] at hNiu
    rw [r2] at hNiv
    set R1 := Tensor.tensordotFront (Obj.basisMat (o.basis 1) tol pv.toList 0 true) o.cps 2 with hR1
    have s1 := tdf2_shape (Obj.basisMat (o.basis 1) tol pv.toList 0 true) o.cps hs
    set R2 := Tensor.tensordotFront (Obj.basisMat (o.basis 0) tol pu.toList 0 true) R1 2 with hR2
    have s2 := tdf2_shape (Obj.basisMat (o.basis 0) tol pu.toList 0 true) R1 s1
    set R3 := Tensor.tensordotFront Niv R2 2 with hR3
    have s3 := tdf2_shape Niv R2 s2
    rw [hTd, tdf2_data_size Niu R3 s3, hNiu, hNiv, hPu, hPv]
  exact Interp.tensor_ext3 _ T sR hTs dR dT (fun k0 hk0 k1 hk1 i hi => by
    rw [eR k0 hk0 k1 hk1 i hi]; exact hTe k0 hk0 k1 hk1 i hi)

/-- The same with the projection property of each direction given directly (`Proj`), for directions
    where the row identity is only known at the Greville points (periodic bases). -/
theorem raiseImplicit_surface_eq_proj (o : Obj K) (tol : K) (hw : C06.WF o 2) (au av : ℕ) (bu' bv' : Basis K)
    (hru : (o.basis 0).raiseOrder tol au = .ok bu') (hrv : (o.basis 1).raiseOrder tol av = .ok bv')
    (pu pv : Array K) (hgu : bu'.greville = .ok pu) (hgv : bv'.greville = .ok pv) (Niu Niv : Mat K)
    (Hu : Mat.invChecked (Obj.basisMat bu' tol pu.toList 0 true) = .ok Niu)
    (Hv : Mat.invChecked (Obj.basisMat bv' tol pv.toList 0 true) = .ok Niv)
    (Eu Ev : ℕ → ℕ → K)
    (pju : Proj Niu (Obj.basisMat (o.basis 0) tol pu.toList 0 true) pu.size (o.basis 0).numFunctions pu.size Eu)
    (pjv : Proj Niv (Obj.basisMat (o.basis 1) tol pv.toList 0 true) pv.size (o.basis 1).numFunctions pv.size Ev) :
    o.raiseOrderImplicit tol [au, av] = .ok (renet (renet o 0 bu' Eu) 1 bv' Ev) := by
  have hb := bases_of_wf2 hw
  have hs := shape_of_wf2 hw
  obtain ⟨T, hT, hTs, hTe⟩ := reinterpolate_pardim2_proj o tol (o.basis 0) (o.basis 1) bu' bv' pu pv _ _ _ Niu Niv hb hs
    hgu hgv Hu Hv Eu Ev pju pjv
  have hPu := greville_size bu' pu hgu
  have hPv := greville_size bv' pv hgv
  have himp : o.raiseOrderImplicit tol [au, av]
      = .ok { o with bases := [bu', bv'].toArray, cps := T } := by
    unfold Obj.raiseOrderImplicit
    rw [hb]
    simp only [Obj.raiseBases, hru, hrv]
    rw [hT]
  rw [himp]
  congr 1
  -- the two objects coincide
  have hbases : (o.bases.set! 0 bu').set! 1 bv' = [bu', bv'].toArray := by
    rw [hb]; simp [Array.set!]
  have hren : renet (renet o 0 bu' Eu) 1 bv' Ev
      = { bases := [bu', bv'].toArray,
          cps := Tensor.applyAxis (matOfE Ev (o.basis 1).numFunctions bv'.numFunctions)
            (Tensor.applyAxis (matOfE Eu (o.basis 0).numFunctions bu'.numFunctions) o.cps 0) 1,
          rational := o.rational } := by
    have hb1 := C04.basis_set_ne o 0 1 (by decide) bu'
      (Tensor.applyAxis (matOfE Eu (o.basis 0).numFunctions bu'.numFunctions) o.cps 0)
    unfold renet
    simp only [hb1, hbases]
  rw [hren]
  congr 1
  obtain ⟨sR, dR, eR⟩ := renet2_entries o.cps hs Eu Ev bu'.numFunctions bv'.numFunctions
  rw [hPu, hPv] at hTs hTe
  have dT : T.data.size = bu'.numFunctions * bv'.numFunctions * o.ncomp := by
    have hTd : T = Tensor.tensordotFront Niu (Tensor.tensordotFront Niv
        (Tensor.tensordotFront (Obj.basisMat (o.basis 0) tol pu.toList 0 true)
          (Tensor.tensordotFront (Obj.basisMat (o.basis 1) tol pv.toList 0 true) o.cps 2) 2) 2) 2 := by
      have hpd : o.pardim = 2 := by simp [Obj.pardim, hs]
      have : o.reinterpolate tol [bu', bv'] = .ok _ := hT
      unfold Obj.reinterpolate at this
      simp only [Obj.grevilles, hgu, hgv, hb, hpd] at this
      simp only [List.zip_cons_cons, List.zip_nil_right, List.map_cons, List.map_nil,
        List.reverse_cons, List.reverse_nil, List.nil_append, List.cons_append, List.foldl_cons, List.foldl_nil,
        Obj.solveChain, Hv, Hu] at this
      injection this with this
      exact this.symm
    obtain ⟨hNiu, _⟩ := Mat.invChecked_spec _ Niu Hu
    obtain ⟨hNiv, _⟩ := Mat.invChecked_spec _ Niv Hv
    have r1 : (Obj.basisMat bu' tol pu.toList 0 true).nrows = pu.size := by simp [Mat.nrows, basisMat_size]
    have r2 : (Obj.basisMat bv' tol pv.toList 0 true).nrows = pv.size := by simp [Mat.nrows, basisMat_size]
    rw [r1] at hNiu
    rw [r2] at hNiv
    set R1 := Tensor.tensordotFront (Obj.basisMat (o.basis 1) tol pv.toList 0 true) o.cps 2 with hR1
    have s1 := tdf2_shape (Obj.basisMat (o.basis 1) tol pv.toList 0 true) o.cps hs
    set R2 := Tensor.tensordotFront (Obj.basisMat (o.basis 0) tol pu.toList 0 true) R1 2 with hR2
    have s2 := tdf2_shape (Obj.basisMat (o.basis 0) tol pu.toList 0 true) R1 s1
    set R3 := Tensor.tensordotFront Niv R2 2 with hR3
    have s3 := tdf2_shape Niv R2 s2
    rw [hTd, tdf2_data_size Niu R3 s3, hNiu, hNiv, hPu, hPv]
  exact Interp.tensor_ext3 _ T sR hTs dR dT (fun k0 hk0 k1 hk1 i hi => by
    rw [eR k0 hk0 k1 hk1 i hi]; exact hTe k0 hk0 k1 hk1 i hi)

/-! ## One direction of a multi-directional `raise_order` -/

/-- Everything the surface / volume theorems need to know about one parametric direction:
    `b.raise_order(a) = b'`; `b'` is valid; the Greville collocation matrix of `b'` has the model's
    certified inverse (`H_sw`); the executable rows of `b` are reproduced on `b'` through `E`
    (`H_incl`, model level); and either both bases are non-periodic and `E` also works at the
    Cox–de Boor level, or nothing changes in this direction (`b' = b`, `E` = identity). -/
structure DirOK (tol : K) (b : Basis K) (a : ℕ) (b' : Basis K) (E : ℕ → ℕ → K) : Prop where
  raise : b.raiseOrder tol a = .ok b'
  valid' : b'.Valid
  hsw : ∃ pts Ni, b'.greville = .ok pts ∧ Mat.invChecked (Obj.basisMat b' tol pts.toList 0 true) = .ok Ni
  rows : RowsVia tol b b' b.numFunctions E
  same : (b.periodic = -1 ∧ b'.periodic = -1 ∧ SpecVia b b' E) ∨ (b' = b ∧ E = fun j k => if j = k then 1 else 0)

/-- An unchanged direction (amount `0`), any valid basis whose Greville collocation is invertible. -/
theorem dirOK_unchanged (tol : K) (b : Basis K) (hv : b.Valid)
    (hsw : ∃ pts Ni, b.greville = .ok pts ∧ Mat.invChecked (Obj.basisMat b tol pts.toList 0 true) = .ok Ni) :
    DirOK tol b 0 b (fun j k => if j = k then 1 else 0) :=
  ⟨by simp [Basis.raiseOrder], hv, hsw, rowsVia_id tol b, Or.inr ⟨rfl, rfl⟩⟩

variable {m : ℕ}

/-- One `renet` step under `DirOK`. -/
theorem renet_dirOK {o : Obj K} (hw : C06.WF o m) (d : Fin m) (tol : K) (a : ℕ) (b' : Basis K)
    (E : ℕ → ℕ → K) (h : DirOK tol (o.basis d) a b' E) :
    C12.SameMap m o (renet o d b' E) ∧ C06.WF (renet o d b' E) m ∧ (renet o d b' E).basis d = b'
      ∧ (∀ k : Fin m, k ≠ d → (renet o d b' E).basis k = o.basis k)
      ∧ (renet o d b' E).ncomp = o.ncomp ∧ (renet o d b' E).rational = o.rational := by
  rcases h.same with ⟨h1, h2, h3⟩ | ⟨h1, h2⟩
  · exact renet_sameMap hw d h1 b' h.valid' h2 E h3
  · subst h2
    rw [h1]
    obtain ⟨g1, g2, g3, g4, g5⟩ := renet_id hw d
    exact ⟨g1, g2, g3 d, fun k _ => g3 k, g4, g5⟩

/-- **Surfaces.**  If both directions are `DirOK`, `raise_order_implicit(a_u, a_v)` succeeds, the
    result is well formed with bases `b_u'`, `b_v'`, the same rationality and number of components,
    and the same evaluated map. -/
theorem raiseImplicit_surface (o : Obj K) (tol : K) (hw : C06.WF o 2) (au av : ℕ) (bu' bv' : Basis K)
    (Eu Ev : ℕ → ℕ → K) (hu : DirOK tol (o.basis 0) au bu' Eu) (hv : DirOK tol (o.basis 1) av bv' Ev) :
    ∃ o', o.raiseOrderImplicit tol [au, av] = .ok o' ∧ C06.WF o' 2 ∧ o'.basis 0 = bu' ∧ o'.basis 1 = bv'
      ∧ C12.SameMap 2 o o' ∧ o'.ncomp = o.ncomp ∧ o'.rational = o.rational
      ∧ (∀ k0, k0 < bu'.numFunctions → ∀ k1, k1 < bv'.numFunctions → ∀ i, i < o.ncomp →
          o'.cps.get ((k0 * bv'.numFunctions + k1) * o.ncomp + i)
            = ∑ a ∈ range (o.basis 0).numFunctions, (∑ j ∈ range (o.basis 1).numFunctions,
                o.cps.get ((a * (o.basis 1).numFunctions + j) * o.ncomp + i) * Ev j k1) * Eu a k0) := by
  obtain ⟨pu, Niu, hgu, Hu⟩ := hu.hsw
  obtain ⟨pv, Niv, hgv, Hv⟩ := hv.hsw
  have heq := raiseImplicit_surface_eq o tol hw au av bu' bv' hu.raise hv.raise pu pv hgu hgv Niu Niv Hu Hv
    Eu Ev hu.rows hv.rows
  obtain ⟨s1, w1, b1d, b1k, n1, r1⟩ := renet_dirOK hw (0 : Fin 2) tol au bu' Eu hu
  have hb11 : (renet o 0 bu' Eu).basis 1 = o.basis 1 := b1k (1 : Fin 2) (by decide)
  have hv' : DirOK tol ((renet o 0 bu' Eu).basis ((1 : Fin 2) : ℕ)) av bv' Ev := by
    show DirOK tol ((renet o 0 bu' Eu).basis 1) av bv' Ev
    rw [hb11]; exact hv
  obtain ⟨s2, w2, b2d, b2k, n2, r2⟩ := renet_dirOK w1 (1 : Fin 2) tol av bv' Ev hv'
  refine ⟨_, heq, w2, ?_, b2d, s1.trans s2, n2.trans n1, r2.trans r1, ?_⟩
  · have := b2k (0 : Fin 2) (by decide)
    exact this.trans b1d
  · intro k0 hk0 k1 hk1 i hi
    have hs := shape_of_wf2 hw
    obtain ⟨_, _, eR⟩ := renet2_entries o.cps hs Eu Ev bu'.numFunctions bv'.numFunctions
    have := eR k0 hk0 k1 hk1 i hi
    unfold Tensor.entry3 at this
    rw [← this]
    show (Tensor.applyAxis (matOfE Ev ((renet o 0 bu' Eu).basis 1).numFunctions bv'.numFunctions)
      (Tensor.applyAxis (matOfE Eu (o.basis 0).numFunctions bu'.numFunctions) o.cps 0) 1).get _ = _
    rw [hb11]

/-- The public `SplineObject.raise_order` in terms of `raise_order_implicit`. -/
theorem raiseOrder_of_implicit (o : Obj K) (tol : K) (raises : List Int) (dir : Option Int) (rs : List Int)
    (o' : Obj K) (hn : Obj.normRaises o.pardim raises dir = .ok rs) (hneg : ∀ r ∈ rs, 0 ≤ r)
    (hnz : ∃ r ∈ rs, r ≠ 0) (hguard : Obj.raiseGuard tol o.bases.toList = .ok true)
    (himp : o.raiseOrderImplicit tol (rs.map Int.toNat) = .ok o') :
    o.raiseOrder tol raises dir = .ok (.self, o') := by
  unfold Obj.raiseOrder
  rw [hn]
  have h1 : rs.any (fun r => decide (r < 0)) = false := by
    rw [List.any_eq_false]; intro r hr; have := hneg r hr; simp; omega
  have h2 : rs.all (fun r => decide (r = 0)) = false := by
    rw [List.all_eq_false]; obtain ⟨r, hr, hne⟩ := hnz; exact ⟨r, hr, by simpa using hne⟩
  simp [h1, h2, hguard, himp]

end Splipy
