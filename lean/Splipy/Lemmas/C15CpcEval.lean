import Splipy.Lemmas.C15CpcCases

/-!
# `Obj.constParCurve` of a surface: the returned curve evaluates to the surface on the parameter line
-/

set_option linter.unusedSectionVars false

namespace Splipy
namespace C15

open C04 Sections Finset

variable {K : Type} [Field K] [LinearOrder K] [IsStrictOrderedRing K] [FloorRing K]

theorem surf_outer0 (o : Obj K) (n0 n1 nc : ℕ) (hs : o.cps.shape = [n0, n1, nc]) :
    outerN o 0 = 1 ∧ innerN o 0 = n1 * nc := by
  simp [outerN, innerN, Tensor.split3, Tensor.prod, hs]

theorem surf_outer1 (o : Obj K) (n0 n1 nc : ℕ) (hs : o.cps.shape = [n0, n1, nc]) :
    outerN o 1 = n0 ∧ innerN o 1 = nc := by
  simp [outerN, innerN, Tensor.split3, Tensor.prod, hs]

theorem surf_fibre0 (o : Obj K) (n0 n1 nc : ℕ) (hs : o.cps.shape = [n0, n1, nc]) (k c j : ℕ) :
    fibre o 0 0 (k * nc + c) j = o.cps.get ((j * n1 + k) * nc + c) := by
  simp only [fibre, Tensor.at3, Tensor.split3, hs]
  simp only [Tensor.prod, List.foldl_nil, List.getD_cons_zero, List.drop_succ_cons,
    List.drop_zero, List.foldl_cons]
  congr 1
  ring

theorem surf_fibre1 (o : Obj K) (n0 n1 nc : ℕ) (hs : o.cps.shape = [n0, n1, nc]) (a c j : ℕ) :
    fibre o 1 a c j = o.cps.get ((a * n1 + j) * nc + c) := by
  simp only [fibre, Tensor.at3, Tensor.split3, hs]
  simp [Tensor.prod]

/-- Exchange of the two summations of a tensor-product spline. -/
theorem splineVal_comm (s0 s1 : Side) (τ0 τ1 : ℕ → K) (q0 q1 n0 n1 : ℕ) (P : ℕ → ℕ → K) (u v : K) :
    splineVal s1 τ1 q1 n1 (fun k => splineVal s0 τ0 q0 n0 (fun i => P i k) u) v
      = splineVal s0 τ0 q0 n0 (fun i => splineVal s1 τ1 q1 n1 (fun k => P i k) v) u := by
  unfold splineVal
  simp only [Finset.sum_mul]
  rw [Finset.sum_comm]
  apply Finset.sum_congr rfl
  intro i _
  apply Finset.sum_congr rfl
  intro k _
  ring

/-- Cut direction `u` (`dir = 0`): the control points of the returned curve are the `u`-fibre
    splines at `x`, and the curve evaluates (any basis data for `v`, any side, any parameter) to the
    surface sum at `(x, v)`, per homogeneous component. -/
theorem cpc_eval_dir0 (o : Obj K) (direction : Int ⊕ String) (tol x : K) (s : Side) (n0 n1 nc : ℕ)
    (hs : o.cps.shape = [n0, n1, nc]) (hn0 : n0 = (o.basis 0).numFunctions)
    (h : CpcResult o direction 0 tol x s) :
    ∃ crv, o.constParCurve tol x direction = .ok crv ∧ crv.bases = #[o.basis 1] ∧
      crv.rational = o.rational ∧ crv.cps.shape = [n1, nc] ∧
      (∀ k c, k < n1 → c < nc → crv.cps.get (k * nc + c)
        = splineVal s (o.basis 0).kn ((o.basis 0).order - 1) n0
            (fun i => o.cps.get ((i * n1 + k) * nc + c)) x) ∧
      ∀ c, c < nc → ∀ (s1 : Side) (τ1 : ℕ → K) (q1 : ℕ) (v : K),
        splineVal s1 τ1 q1 n1 (fun k => crv.cps.get (k * nc + c)) v
          = splineVal s (o.basis 0).kn ((o.basis 0).order - 1) n0
              (fun i => splineVal s1 τ1 q1 n1 (fun k => o.cps.get ((i * n1 + k) * nc + c)) v) x := by
  obtain ⟨crv, c1, c2, c3, c4, c5⟩ := h
  obtain ⟨ho, hi⟩ := surf_outer0 o n0 n1 nc hs
  have hentry : ∀ k c, k < n1 → c < nc → crv.cps.get (k * nc + c)
      = splineVal s (o.basis 0).kn ((o.basis 0).order - 1) n0
          (fun i => o.cps.get ((i * n1 + k) * nc + c)) x := by
    intro k c hk hc
    have := c5 0 (k * nc + c) (by rw [ho]; exact Nat.one_pos)
      (by rw [hi]; exact Tensor.pair_lt hk hc)
    rw [Nat.zero_mul, Nat.zero_add] at this
    rw [this, ← hn0]
    apply splineVal_congr
    intro j _
    exact surf_fibre0 o n0 n1 nc hs k c j
  refine ⟨crv, c1, c2, c3, by rw [c4, hs]; rfl, hentry, fun c hc s1 τ1 q1 v => ?_⟩
  rw [← splineVal_comm]
  apply splineVal_congr
  intro k hk
  exact hentry k c hk hc

/-- Cut direction `v` (`dir = 1`). -/
theorem cpc_eval_dir1 (o : Obj K) (direction : Int ⊕ String) (tol x : K) (s : Side) (n0 n1 nc : ℕ)
    (hs : o.cps.shape = [n0, n1, nc]) (hn1 : n1 = (o.basis 1).numFunctions)
    (h : CpcResult o direction 1 tol x s) :
    ∃ crv, o.constParCurve tol x direction = .ok crv ∧ crv.bases = #[o.basis 0] ∧
      crv.rational = o.rational ∧ crv.cps.shape = [n0, nc] ∧
      (∀ i c, i < n0 → c < nc → crv.cps.get (i * nc + c)
        = splineVal s (o.basis 1).kn ((o.basis 1).order - 1) n1
            (fun k => o.cps.get ((i * n1 + k) * nc + c)) x) ∧
      ∀ c, c < nc → ∀ (s0 : Side) (τ0 : ℕ → K) (q0 : ℕ) (u : K),
        splineVal s0 τ0 q0 n0 (fun i => crv.cps.get (i * nc + c)) u
          = splineVal s0 τ0 q0 n0
              (fun i => splineVal s (o.basis 1).kn ((o.basis 1).order - 1) n1
                (fun k => o.cps.get ((i * n1 + k) * nc + c)) x) u := by
  obtain ⟨crv, c1, c2, c3, c4, c5⟩ := h
  obtain ⟨ho, hi⟩ := surf_outer1 o n0 n1 nc hs
  have hentry : ∀ i c, i < n0 → c < nc → crv.cps.get (i * nc + c)
      = splineVal s (o.basis 1).kn ((o.basis 1).order - 1) n1
          (fun k => o.cps.get ((i * n1 + k) * nc + c)) x := by
    intro i c hi' hc
    have := c5 i c (by rw [ho]; exact hi') (by rw [hi]; exact hc)
    rw [hi] at this
    rw [this, ← hn1]
    apply splineVal_congr
    intro j _
    exact surf_fibre1 o n0 n1 nc hs i c j
  refine ⟨crv, c1, c2, c3, by rw [c4, hs]; rfl, hentry, fun c hc s0 τ0 q0 u => ?_⟩
  apply splineVal_congr
  intro i hi'
  exact hentry i c hi' hc

end C15
end Splipy
