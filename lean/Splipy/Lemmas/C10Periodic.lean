import Splipy.Lemmas.C10Cummax
import Splipy.Lemmas.C10Tensor
import Splipy.Lemmas.C10Affine
import Splipy.Lemmas.C10Ctor
import Splipy.Model.History
import Mathlib.Tactic.Linarith
import Mathlib.Data.Rat.Floor

/-!
# C10 helper lemmas: `make_periodic`, `extrude` and `Curve.append` keep an object well formed

* **A. `make_periodic`** — `History.stepOut_makePeriodic_wf_partial`.  Hypotheses: the periodic basis the
  constructor returns is `Valid` (`hb`; exact periodicity of the new knot vector is C08's business), and
  the direction has at least `order + continuity` functions (`hlong`), so that none of the slices of
  `BSplineBasis.make_periodic` is truncated.  Without `hlong` the statement is FALSE:
  `History.makePeriodic_short_counterexample` (order 5, knots `[0,0,0,0,0,1,2,3,3,3,3,3]`,
  `make_periodic(3)`: valid new basis with ONE function, control net with THREE points).
  `History.stepOut_makePeriodic_wf_of_count` is the version with the function count of the new basis as
  hypothesis instead.  Proved: shapes, sizes, positivity of the merged weights (convex combination).
* **B. `extrude`** — `History.stepOut_extrude_wf` (no extra hypothesis); `Obj.WellFormed.stack2` is the
  general statement about two compatible nets stacked along a new linear direction.
* **C. `Curve.append`, equal orders** — `History.stepOut_append_wf_partial`; the new knot vector is
  sorted because both inputs are (`Basis.appendBasis_valid`), `make_splines_compatible` keeps both
  curves well formed (`Obj.compatible_spec`).
-/

set_option linter.unusedSectionVars false
set_option linter.unusedVariables false

namespace Splipy

variable {K : Type} [Field K] [LinearOrder K] [IsStrictOrderedRing K] [FloorRing K]

open History

namespace Basis

/-- For order ≥ 2 the inner slice `knots[deg:-deg]` of `make_periodic` is a genuine slice (the special
    case `deg = 0`, python's empty `knots[0:-0]`, only concerns order 1). -/
theorem makePeriodicKnots_of_two_le (b : Basis K) (k : ℕ) (hp : 2 ≤ b.order) :
    b.makePeriodicKnots k
      = ((b.knots.extract (b.order - 1) (b.knots.size - (b.order - 1))).extract
            ((b.knots.extract (b.order - 1) (b.knots.size - (b.order - 1))).size - (k + 1) - 1)
            ((b.knots.extract (b.order - 1) (b.knots.size - (b.order - 1))).size - 1)).map
          (fun x => x - (b.stop - b.start))
        ++ Array.replicate (b.order - 1 - k - 1) b.start
        ++ b.knots.extract (b.order - 1) (b.knots.size - (b.order - 1))
        ++ Array.replicate (b.order - 1 - k - 1) b.stop
        ++ ((b.knots.extract (b.order - 1) (b.knots.size - (b.order - 1))).extract 1 (k + 1 + 1)).map
          (fun x => x + (b.stop - b.start)) := by
  unfold makePeriodicKnots
  simp only []
  rw [if_neg (by omega)]

/-- With at least `p + k` functions none of the slices of `make_periodic` is truncated and the new
    knot vector has as many entries as the old one. -/
theorem makePeriodicKnots_size (b : Basis K) (k : ℕ) (hk : k + 2 ≤ b.order)
    (hlong : 2 * b.order + k ≤ b.knots.size) : (b.makePeriodicKnots k).size = b.knots.size := by
  rw [makePeriodicKnots_of_two_le b k (by omega)]
  simp only [Array.size_append, Array.size_map, Array.size_extract, Array.size_replicate]
  omega

/-- The basis a successful `Basis.makePeriodic` returns. -/
theorem makePeriodic_ok {b nb : Basis K} {tol : K} {k : ℕ} (hs : b.makePeriodic tol k = .ok nb) :
    nb = { order := b.order, knots := cummax (b.makePeriodicKnots k), periodic := k } := by
  rw [makePeriodic_eq] at hs
  rcases mk?_cases b.order (b.makePeriodicKnots k) (k : Int) tol with h | h
  · rw [h] at hs; cases hs
  · rw [h] at hs
    injection hs with hs
    rw [← hs]
    congr 1
    omega

theorem makePeriodic_numFunctions {b nb : Basis K} {tol : K} {k : ℕ} (hs : b.makePeriodic tol k = .ok nb)
    (hk : k + 2 ≤ b.order) (hlong : 2 * b.order + k ≤ b.knots.size) :
    nb.numFunctions = b.knots.size - b.order - (k + 1) := by
  rw [makePeriodic_ok hs]
  unfold numFunctions
  simp only [size_cummax, makePeriodicKnots_size b k hk hlong]
  omega

end Basis

namespace Obj

theorem makePeriodic_ok_some {o n : Obj K} {tol : K} {cont : Int} {dir : ℕ}
    (hs : o.makePeriodic tol (some cont) dir = .ok n) :
    ∃ (k : ℕ) (nb : Basis K), (k : Int) + 2 ≤ (o.basis dir).order
      ∧ (k : Int) = cont
      ∧ (o.basis dir).periodic < 0
      ∧ (o.basis dir).makePeriodic tol k = .ok nb
      ∧ k + 1 ≤ o.cps.shape.getD dir 0
      ∧ n = { o with bases := o.bases.set! dir nb, cps := mergeCps o.cps dir k } := by
  unfold Obj.makePeriodic at hs
  simp only [bind, Except.bind, pure, Except.pure, throw, throwThe, MonadExceptOf.throw] at hs
  split_ifs at hs with h1 h2 h3 h4
  · cases hm : (o.basis dir).makePeriodic tol cont.toNat with
    | error e => rw [hm] at hs; cases hs
    | ok nb => rw [hm] at hs; cases hs
  cases hm : (o.basis dir).makePeriodic tol cont.toNat with
  | error e => rw [hm] at hs; cases hs
  | ok nb =>
    rw [hm] at hs
    simp only at hs
    injection hs with hs
    refine ⟨cont.toNat, nb, by omega, by omega, by omega, hm, by omega, hs.symm⟩

/-- What a successful `Obj.makePeriodic` did. -/
theorem makePeriodic_ok {o n : Obj K} {tol : K} {c : Option Int} {dir : ℕ}
    (hs : o.makePeriodic tol c dir = .ok n) :
    ∃ (k : ℕ) (nb : Basis K), (k : Int) + 2 ≤ (o.basis dir).order
      ∧ (k : Int) = c.getD (((o.basis dir).order : Int) - 2)
      ∧ (o.basis dir).periodic < 0
      ∧ (o.basis dir).makePeriodic tol k = .ok nb
      ∧ k + 1 ≤ o.cps.shape.getD dir 0
      ∧ n = { o with bases := o.bases.set! dir nb, cps := mergeCps o.cps dir k } := by
  cases c with
  | some cont => exact makePeriodic_ok_some hs
  | none =>
    have e : o.makePeriodic tol none dir
        = o.makePeriodic tol (some (((o.basis dir).order : Int) - 2)) dir := rfl
    rw [e] at hs
    exact makePeriodic_ok_some hs

/-! ### the merge is a convex combination -/

theorem periodicWeight_mem (k r : ℕ) (hr : r ≤ k) :
    0 ≤ (periodicWeight k r : K) ∧ (periodicWeight k r : K) ≤ 1 := by
  unfold periodicWeight
  split_ifs with hk
  · constructor <;> norm_num
  · have hk' : (0 : K) < (k : K) := by exact_mod_cast Nat.pos_of_ne_zero hk
    refine ⟨div_nonneg (Nat.cast_nonneg r) hk'.le, ?_⟩
    rw [div_le_one hk']
    exact_mod_cast hr

theorem convex_pos {t w1 w2 : K} (h0 : 0 ≤ t) (h1 : t ≤ 1) (hw1 : 0 < w1) (hw2 : 0 < w2) :
    0 < t * w1 + (1 - t) * w2 := by
  rcases lt_or_eq_of_le h0 with h | h
  · have a := mul_pos h hw1
    have b := mul_nonneg (sub_nonneg.2 h1) hw2.le
    linarith
  · rw [← h]; simpa using hw2

variable {o : Obj K}

/-- **The control-point merge of `make_periodic`** with a valid new basis that has the right number of
    functions. -/
theorem WellFormed.mergeCps (h : o.WellFormed) (dir k : ℕ) (nb : Basis K) (hd : dir < o.bases.size)
    (hv : nb.Valid) (hk : k + 1 ≤ (o.basis dir).numFunctions)
    (hm : nb.numFunctions = (o.basis dir).numFunctions - (k + 1)) :
    ({ o with bases := o.bases.set! dir nb, cps := Obj.mergeCps o.cps dir k } : Obj K).WellFormed := by
  unfold Obj.mergeCps
  have hn : o.cps.shape.getD dir 0 = (o.basis dir).numFunctions := h.shape_getD dir 0 hd
  simp only [hn]
  apply h.build3 dir _ _ nb hd hv hm
  intro hr a r i ha hr' hi him
  have hax1 : dir + 1 < o.cps.shape.length := by rw [h.shape_length]; omega
  have hsp : (Tensor.split3 o.cps.shape dir).2.1 = (o.basis dir).numFunctions := by
    simp only [Tensor.split3]; exact h.shape_getD dir 1 hd
  have pos : ∀ j, j < (o.basis dir).numFunctions → 0 < o.cps.at3 dir a j i := fun j hj =>
    C10.at3_pos o.cps o.ncomp o.dimension h.data_size (h.tpos hr) dir hax1 (h.last_eq 1) a j i ha
      (by rw [hsp]; exact hj) hi him
  split_ifs with hrk
  · obtain ⟨t0, t1⟩ := periodicWeight_mem (K := K) k r hrk
    exact convex_pos t0 t1 (pos r (by omega)) (pos _ (by omega))
  · exact pos r (by omega)

end Obj

namespace Obj

variable {o : Obj K}

/-- `Obj.makePeriodic` with the number of functions of the new basis as a hypothesis. -/
theorem makePeriodic_wf_of_count (h : o.WellFormed) {tol : K} {c : Option Int} {dir : ℕ} {n : Obj K}
    (hd : dir < o.bases.size) (hr : o.makePeriodic tol c dir = .ok n) (hv : (n.basis dir).Valid)
    (hc : (n.basis dir).numFunctions + ((n.basis dir).periodic + 1).toNat = (o.basis dir).numFunctions) :
    n.WellFormed := by
  obtain ⟨k, nb, hk2, hkc, hper, hmk, hk1, rfl⟩ := Obj.makePeriodic_ok hr
  have hbasis : ({ o with bases := o.bases.set! dir nb, cps := Obj.mergeCps o.cps dir k } : Obj K).basis dir
      = nb := by
    simp [Obj.basis, Array.getD_eq_getD_getElem?, hd]
  rw [hbasis] at hv hc
  have hn : o.cps.shape.getD dir 0 = (o.basis dir).numFunctions := h.shape_getD dir 0 hd
  rw [hn] at hk1
  have hnbp : nb.periodic = k := by rw [Basis.makePeriodic_ok hmk]
  rw [hnbp] at hc
  exact h.mergeCps dir k nb hd hv hk1 (by omega)

/-- With at least `order + continuity` functions the count hypothesis holds. -/
theorem makePeriodic_count (h : o.WellFormed) {tol : K} {c : Option Int} {dir : ℕ} {n : Obj K}
    (hd : dir < o.bases.size) (hr : o.makePeriodic tol c dir = .ok n)
    (hlong : ((o.basis dir).order : Int) + c.getD (((o.basis dir).order : Int) - 2)
      ≤ (o.basis dir).numFunctions) :
    (n.basis dir).numFunctions + ((n.basis dir).periodic + 1).toNat = (o.basis dir).numFunctions := by
  obtain ⟨k, nb, hk2, hkc, hper, hmk, hk1, rfl⟩ := Obj.makePeriodic_ok hr
  have hbasis : ({ o with bases := o.bases.set! dir nb, cps := Obj.mergeCps o.cps dir k } : Obj K).basis dir
      = nb := by
    simp [Obj.basis, Array.getD_eq_getD_getElem?, hd]
  rw [hbasis]
  have hnbp : nb.periodic = k := by rw [Basis.makePeriodic_ok hmk]
  have hvo := h.valid dir hd
  have h2p := hvo.size_ge
  have hnf : (o.basis dir).numFunctions = (o.basis dir).knots.size - (o.basis dir).order := by
    unfold Basis.numFunctions
    have := hvo.periodic_ge
    omega
  rw [← hkc] at hlong
  have hnum := Basis.makePeriodic_numFunctions hmk (by omega) (by omega)
  rw [hnum, hnbp, hnf]
  omega

end Obj

namespace History

theorem stepOut_makePeriodic_inv {o : Obj K} {tol : K} {c : Option Int} {dir : ℕ} {out : Out K}
    (hs : stepOut tol o (.makePeriodic c dir) = .ok out) :
    dir < o.pardim ∧ ∃ n, o.makePeriodic tol c dir = .ok n ∧ out = { recv := o, news := [n] } := by
  simp only [stepOut] at hs
  split_ifs at hs with hdir
  cases hr : o.makePeriodic tol c dir with
  | error e => rw [hr] at hs; cases hs
  | ok n =>
    rw [hr] at hs
    injection hs with hs
    exact ⟨hdir, n, rfl, hs.symm⟩

/-- `make_periodic` with the number of functions of the new basis as a hypothesis. -/
theorem stepOut_makePeriodic_wf_of_count {o : Obj K} (h : o.WellFormed) (tol : K) (c : Option Int) (dir : ℕ)
    {out : Out K} (hs : stepOut tol o (.makePeriodic c dir) = .ok out)
    (hb : ∀ n ∈ out.news, (n.basis dir).Valid)
    (hcount : ∀ n ∈ out.news, (n.basis dir).numFunctions + ((n.basis dir).periodic + 1).toNat
        = (o.basis dir).numFunctions) :
    out.recv.WellFormed ∧ ∀ n ∈ out.news, n.WellFormed := by
  obtain ⟨hdir, n, hr, rfl⟩ := stepOut_makePeriodic_inv hs
  have hd : dir < o.bases.size := by rw [h.bases_size]; exact hdir
  refine ⟨h, ?_⟩
  intro n' hn'
  have hv := hb n' hn'
  have hc := hcount n' hn'
  have : n' = n := by simpa using hn'
  subst this
  exact Obj.makePeriodic_wf_of_count h hd hr hv hc

/-- `_partial`: validity of the periodic basis returned by `Basis.makePeriodic` is a hypothesis (`hb`);
    the constructor only compares `p+k-1` spacings up to the tolerance, so exact periodicity of the new
    knot vector is C08's business.  Second hypothesis (`hlong`): the direction has at least
    `order + continuity` functions, so that none of the slices `knots[-n_copy-1:-1]`, `knots[1:n_copy+1]`
    of `BSplineBasis.make_periodic` is truncated; without it the statement is FALSE
    (`makePeriodic_short_counterexample` below).
    Proved here: shapes, sizes, and positivity of the merged weights (the merge is a convex
    combination). -/
theorem stepOut_makePeriodic_wf_partial {o : Obj K} (h : o.WellFormed) (tol : K) (c : Option Int) (dir : ℕ)
    {out : Out K} (hs : stepOut tol o (.makePeriodic c dir) = .ok out)
    (hb : ∀ n ∈ out.news, (n.basis dir).Valid)
    (hlong : ((o.basis dir).order : Int) + c.getD (((o.basis dir).order : Int) - 2)
      ≤ (o.basis dir).numFunctions) :
    out.recv.WellFormed ∧ ∀ n ∈ out.news, n.WellFormed := by
  apply stepOut_makePeriodic_wf_of_count h tol c dir hs hb
  obtain ⟨hdir, n, hr, rfl⟩ := stepOut_makePeriodic_inv hs
  have hd : dir < o.bases.size := by rw [h.bases_size]; exact hdir
  intro n' hn'
  have : n' = n := by simpa using hn'
  subst this
  exact Obj.makePeriodic_count h hd hr hlong

end History

/-! ### the counterexample behind `hlong` -/

namespace C10cex

/-- Order 5, knots `[0,0,0,0,0,1,2,3,3,3,3,3]` (7 functions), a plane non-rational curve. -/
def obj : Obj ℚ :=
  { bases := #[⟨5, #[0,0,0,0,0,1,2,3,3,3,3,3], -1⟩],
    cps := ⟨[7, 2], #[0,0, 1,0, 2,0, 3,1, 2,2, 1,2, 0,1]⟩,
    rational := false }

/-- `obj` is well formed, `obj.make_periodic(3)` succeeds, the new basis is valid, and the new object
    is NOT well formed (executable Booleans). -/
def check : Bool :=
  obj.wfB &&
  match stepOut (1/1000 : ℚ) obj (.makePeriodic (some 3) 0) with
  | .ok out => out.news.all (fun n => (n.basis 0).validB && !n.wfB) && !out.news.isEmpty
  | .error _ => false

theorem check_true : check = true := by decide +kernel

end C10cex

/-- **`stepOut_makePeriodic_wf_partial` is false without `hlong`.**  Order 5, knots
    `[0,0,0,0,0,1,2,3,3,3,3,3]`, `make_periodic(3)`: the slices `knots[-5:-1]`, `knots[1:5]` of the
    four interior knots `[0,1,2,3]` are truncated to three entries, the constructor accepts
    `[-3,…,6]` (a VALID periodic basis with `10 - 5 - 4 = 1` function), while the control net keeps
    `7 - 4 = 3` points. -/
theorem History.makePeriodic_short_counterexample :
    ∃ (o : Obj ℚ) (tol : ℚ) (c : Option Int) (dir : ℕ) (out : Out ℚ),
      o.WellFormed ∧ stepOut tol o (.makePeriodic c dir) = .ok out
        ∧ (∀ n ∈ out.news, (n.basis dir).Valid) ∧ ¬ (∀ n ∈ out.news, n.WellFormed) := by
  have h := C10cex.check_true
  unfold C10cex.check at h
  cases hst : stepOut (1/1000 : ℚ) C10cex.obj (.makePeriodic (some 3) 0) with
  | error e => rw [hst] at h; simp at h
  | ok out =>
    rw [hst] at h
    simp only [Bool.and_eq_true, List.all_eq_true, Bool.not_eq_true', List.isEmpty_eq_false_iff] at h
    obtain ⟨hwf, hall, hne⟩ := h
    refine ⟨C10cex.obj, 1/1000, some 3, 0, out, (Obj.wfB_iff _).1 hwf, hst, ?_, ?_⟩
    · intro n hn
      exact (Basis.validB_iff _).1 (hall n hn).1
    · intro hall'
      obtain ⟨n, hn⟩ := List.exists_mem_of_ne_nil _ hne
      have h1 := (hall n hn).2
      have h2 := (Obj.wfB_iff n).2 (hall' n hn)
      rw [h2] at h1
      cases h1

/-! ## B. `extrude` -/

namespace Obj

theorem linearBasis_numFunctions : (linearBasis : Basis K).numFunctions = 2 := rfl

theorem linearBasis_valid : (linearBasis : Basis K).Valid where
  order_pos := by show 1 ≤ 2; omega
  size_ge := by show 2 * 2 ≤ 4; omega
  sorted := by
    intro i hi
    have hi' : i < 3 := by
      have : (linearBasis : Basis K).knots.size = 4 := rfl
      omega
    interval_cases i <;> simp [Basis.kn, linearBasis]
  periodic_ge := by show (-1 : Int) ≤ -1; omega
  periodic_le := Or.inr rfl
  start_lt_stop := by simp [Basis.start, Basis.stop, Basis.kn, linearBasis]
  ghosts := by
    intro h
    exact absurd h (by show ¬ (0 : Int) ≤ -1; omega)

theorem stack2_shape (a b : Tensor K) :
    (stack2 a b).shape = a.shape.dropLast ++ [2, a.shape.getLastD 1] := rfl

theorem stack2_size (a b : Tensor K) :
    (stack2 a b).data.size = Tensor.prod (stack2 a b).shape := by
  simp [stack2]

theorem stack2_get (a b : Tensor K) (f : ℕ) (hf : f < (stack2 a b).data.size) :
    (stack2 a b).get f
      = (if (f / a.shape.getLastD 1) % 2 = 0 then a else b).get
          (f / (2 * a.shape.getLastD 1) * a.shape.getLastD 1 + f % a.shape.getLastD 1) := by
  rw [stack2_size] at hf
  unfold Tensor.get
  rw [Array.getD_eq_getD_getElem?]
  simp only [stack2] at hf ⊢
  rw [Array.getElem?_ofFn, dif_pos hf]
  rfl

theorem counts_push (bases : Array (Basis K)) (b : Basis K) (cps cps' : Tensor K) (r r' : Bool) :
    ({ bases := bases.push b, cps := cps', rational := r' } : Obj K).counts
      = ({ bases := bases, cps := cps, rational := r } : Obj K).counts ++ [b.numFunctions] := by
  simp [Obj.counts]

theorem stack_idx_lt {f len nc : ℕ} (hnc : 0 < nc) (hf : f < len * (2 * nc)) :
    f / (2 * nc) * nc + f % nc < len * nc := by
  have hq : f / (2 * nc) < len := Nat.div_lt_of_lt_mul (by rwa [Nat.mul_comm] at hf)
  have hr : f % nc < nc := Nat.mod_lt _ hnc
  have : (f / (2 * nc) + 1) * nc ≤ len * nc := Nat.mul_le_mul_right _ hq
  nlinarith

/-- **Two compatible nets stacked along a new linear direction** (`extrude`, `edge_curves`,
    `edge_surfaces` with two inputs). -/
theorem WellFormed.stack2 {a b : Obj K} (ha : a.WellFormed) (hb : b.WellFormed)
    (hlen : b.len = a.len) (hnc : b.ncomp = a.ncomp) (hdim : b.dimension = a.dimension)
    (hrat : b.rational = a.rational) :
    ({ bases := a.bases.push linearBasis, cps := Obj.stack2 a.cps b.cps, rational := a.rational }
      : Obj K).WellFormed := by
  set R : Obj K := ⟨a.bases.push linearBasis, Obj.stack2 a.cps b.cps, a.rational⟩ with hR
  have hlast : a.cps.shape.getLastD 1 = a.ncomp := ha.last_eq 1
  have hdrop : a.cps.shape.dropLast = a.counts := by rw [ha.shape]; exact List.dropLast_concat
  have hshape : R.cps.shape = (a.counts ++ [2]) ++ [a.ncomp] := by
    show (Obj.stack2 a.cps b.cps).shape = _
    rw [stack2_shape, hlast, hdrop]; simp
  have hcounts : R.counts = a.counts ++ [2] := by
    have := counts_push a.bases (linearBasis : Basis K) a.cps (Obj.stack2 a.cps b.cps) a.rational a.rational
    rw [linearBasis_numFunctions] at this
    exact this
  have hncR : R.ncomp = a.ncomp := ncomp_of_shape hshape
  have hdimR : R.dimension = a.dimension := by unfold Obj.dimension; rw [hncR]
  have hspec : R.ncompSpec = a.ncomp := by
    unfold Obj.ncompSpec; rw [hdimR]; exact ha.ncomp_eq.symm
  have hsize : R.cps.data.size = Tensor.prod R.cps.shape := stack2_size a.cps b.cps
  apply WellFormed.of_weightsPos
  · show (a.bases.push linearBasis).size = R.pardim
    rw [pardim_of_shape hshape]
    simp [counts_length]
  · rw [hshape, hcounts, hspec]
  · exact hsize
  · rw [hdimR]; exact ha.dim_pos
  · intro d hd
    have hd' : d < a.bases.size + 1 := by simpa [hR] using hd
    by_cases hlt : d < a.bases.size
    · rw [show R.basis d = a.basis d from by
        have hne : d ≠ a.bases.size := by omega
        simp [hR, Obj.basis, Array.getD_eq_getD_getElem?, Array.getElem?_push, hlt, hne]]
      exact ha.valid d hlt
    · have hde : d = a.bases.size := by omega
      rw [show R.basis d = linearBasis from by
        simp [hR, Obj.basis, Array.getD_eq_getD_getElem?, hde]]
      exact linearBasis_valid
  · intro hr f hf hmod
    rw [hncR, hdimR] at hmod
    have hra : a.rational = true := hr
    have hf' : f < a.len * (2 * a.ncomp) := by
      rw [hsize, hshape, C06.prod_append, C06.prod_append] at hf
      simpa [Tensor.prod, Obj.len, Nat.mul_assoc] using hf
    have hidx := stack_idx_lt ha.ncomp_pos hf'
    have hm : (f / (2 * a.ncomp) * a.ncomp + f % a.ncomp) % a.ncomp = a.dimension := by
      rw [Nat.add_comm, Nat.add_mul_mod_self_right, Nat.mod_mod, hmod]
    show 0 < (Obj.stack2 a.cps b.cps).get f
    rw [stack2_get a.cps b.cps f hf, hlast]
    split_ifs
    · exact ha.weightsPos hra _ (by rw [ha.size_eq]; exact hidx) hm
    · exact hb.weightsPos (hrat.trans hra) _ (by rw [hb.size_eq, hlen, hnc]; exact hidx)
        (by rw [hnc, hdim]; exact hm)

/-- `Obj.extrude` returns a well-formed object. -/
theorem extrude_wf {o n : Obj K} (h : o.WellFormed) {amount : List K} (hs : o.extrude amount = .ok n) :
    n.WellFormed := by
  unfold Obj.extrude at hs
  simp only at hs
  split_ifs at hs with h1 h2
  injection hs with hs
  subst hs
  have hlen3 : amount.length = 3 := by omega
  -- `set_dimension(3)`
  have hs3 : (AffOp.setDimension 3 : AffOp K).inplace o = .ok (o.setDimension 3) := rfl
  have hadm3 : (AffOp.setDimension 3 : AffOp K).Admissible := by show 0 < 3; omega
  have h3 : (o.setDimension 3).WellFormed := AffOp.inplace_wf h _ hadm3 hs3
  obtain ⟨_, hd3, hr3⟩ := AffOp.inplace_acts h.toC09 _ hadm3 hs3
  have hd3' : (o.setDimension 3).dimension = 3 := hd3
  -- `translate(amount)`
  have hst : (AffOp.translate amount : AffOp K).inplace (o.setDimension 3)
      = .ok ((o.setDimension 3).translate amount) := by
    show (o.setDimension 3).translateChecked amount = _
    unfold Obj.translateChecked
    rw [if_neg (by rw [hd3', hlen3]; omega)]
  have hadmt : (AffOp.translate amount : AffOp K).Admissible := trivial
  have ht : ((o.setDimension 3).translate amount).WellFormed := AffOp.inplace_wf h3 _ hadmt hst
  obtain ⟨_, hdt, hrt⟩ := AffOp.inplace_acts h3.toC09 _ hadmt hst
  obtain ⟨_, _, hlen, _, _, _⟩ := AffOp.inplace_facts h3 _ hadmt hst
  have hdt' : ((o.setDimension 3).translate amount).dimension = (o.setDimension 3).dimension := by
    rw [hdt, hd3']; show max 3 amount.length = 3; rw [hlen3]; rfl
  have hrt' : ((o.setDimension 3).translate amount).rational = (o.setDimension 3).rational := hrt
  have hnc : ((o.setDimension 3).translate amount).ncomp = (o.setDimension 3).ncomp := by
    rw [ht.ncomp_eq, h3.ncomp_eq]; unfold Obj.ncompSpec; rw [hdt', hrt']
  exact WellFormed.stack2 h3 ht hlen hnc hdt' hrt'

end Obj

namespace History

theorem stepOut_extrude_wf {o : Obj K} (h : o.WellFormed) (tol : K) (amount : List K) {out : Out K}
    (hs : stepOut tol o (.extrude amount) = .ok out) :
    out.recv.WellFormed ∧ ∀ n ∈ out.news, n.WellFormed := by
  simp only [stepOut] at hs
  split_ifs at hs with hsz
  cases hr : o.extrude amount with
  | error e => rw [hr] at hs; cases hs
  | ok n =>
    rw [hr] at hs
    injection hs with hs
    subst hs
    refine ⟨h, ?_⟩
    intro n' hn'
    have : n' = n := by simpa using hn'
    subst this
    exact Obj.extrude_wf h hr

end History

/-! ## C. `Curve.append` for equal orders -/

namespace Basis

/-- The knot vector `Curve.append` hands to the constructor. -/
def appendKnotsArr (p : ℕ) (old add0 : Array K) : Array K :=
  let first := add0.getD 0 0
  let last := old.getD (old.size - 1) 0
  let add := add0.map (fun x => x - first + last)
  old.extract 0 (old.size - 1) ++ add.extract p add.size

theorem appendKnotsArr_size (p : ℕ) (old add0 : Array K) :
    (appendKnotsArr p old add0).size = (old.size - 1) + (add0.size - p) := by
  simp [appendKnotsArr]

theorem appendKnotsArr_left (p : ℕ) (old add0 : Array K) (i : ℕ) (hi : i < old.size - 1) :
    (appendKnotsArr p old add0)[i]? = old[i]? := by
  unfold appendKnotsArr
  simp only []
  rw [Array.getElem?_append_left (by simp; omega)]
  simp [hi]

theorem appendKnotsArr_right (p : ℕ) (old add0 : Array K) (j : ℕ) (hj : p + j < add0.size) :
    (appendKnotsArr p old add0)[old.size - 1 + j]?
      = some (add0.getD (p + j) 0 - add0.getD 0 0 + old.getD (old.size - 1) 0) := by
  unfold appendKnotsArr
  simp only []
  rw [Array.getElem?_append_right (by simp)]
  simp [Array.getElem?_extract, Array.getD_eq_getD_getElem?, hj]
  omega

theorem getD_kn (b : Basis K) (i : ℕ) (hi : i < b.knots.size) : b.knots.getD i 0 = b.kn i := by
  simp [Basis.kn, Array.getD_eq_getD_getElem?, hi]

/-- The basis of the appended curve. -/
def appendBasis (b1 b2 : Basis K) : Basis K :=
  { order := b1.order, knots := appendKnotsArr b1.order b1.knots b2.knots, periodic := -1 }

section
variable {b1 b2 : Basis K} (h1 : b1.Valid) (h2 : b2.Valid) (hp : b1.order = b2.order)
include h1 h2 hp

theorem appendBasis_size :
    (appendBasis b1 b2).knots.size = (b1.knots.size - 1) + (b2.knots.size - b1.order) :=
  appendKnotsArr_size _ _ _

theorem appendBasis_kn_left (i : ℕ) (hi : i < b1.knots.size - 1) :
    (appendBasis b1 b2).kn i = b1.kn i := by
  have hsz := appendBasis_size h1 h2 hp
  have hiN : i < (appendBasis b1 b2).knots.size := by omega
  have hi1 : i < b1.knots.size := by omega
  have key : (appendBasis b1 b2).knots[i]? = b1.knots[i]? := appendKnotsArr_left _ _ _ i hi
  rw [Array.getElem?_eq_getElem hiN, Array.getElem?_eq_getElem hi1] at key
  rw [Basis.kn_of_lt _ hiN, Basis.kn_of_lt _ hi1]
  exact Option.some.inj key

theorem appendBasis_kn_right (j : ℕ) (hj : b1.order + j < b2.knots.size) :
    (appendBasis b1 b2).kn (b1.knots.size - 1 + j)
      = b2.kn (b1.order + j) - b2.kn 0 + b1.kn (b1.knots.size - 1) := by
  have hsz := appendBasis_size h1 h2 hp
  have hs1 := h1.size_ge
  have hs2 := h2.size_ge
  have hp1 := h1.order_pos
  have hiN : b1.knots.size - 1 + j < (appendBasis b1 b2).knots.size := by omega
  have key : (appendBasis b1 b2).knots[b1.knots.size - 1 + j]? = _ :=
    appendKnotsArr_right b1.order b1.knots b2.knots j hj
  rw [Array.getElem?_eq_getElem hiN] at key
  rw [Basis.kn_of_lt _ hiN, Option.some.inj key, getD_kn b2 _ hj, getD_kn b2 0 (by omega),
    getD_kn b1 _ (by omega)]

theorem appendBasis_numFunctions (hper1 : b1.periodic = -1) (hper2 : b2.periodic = -1) :
    (appendBasis b1 b2).numFunctions = b1.numFunctions + b2.numFunctions - 1 := by
  have hsz := appendBasis_size h1 h2 hp
  have hs1 := h1.size_ge
  have hs2 := h2.size_ge
  have hp1 := h1.order_pos
  unfold Basis.numFunctions
  rw [hsz, hper1, hper2]
  show _ - b1.order - ((-1 : Int) + 1).toNat = _
  simp only [show ((-1 : Int) + 1).toNat = 0 from rfl]
  omega

theorem appendBasis_valid : (appendBasis b1 b2).Valid := by
  have hsz := appendBasis_size h1 h2 hp
  have hs1 := h1.size_ge
  have hs2 := h2.size_ge
  have hp1 := h1.order_pos
  have hL := appendBasis_kn_left h1 h2 hp
  have hR := appendBasis_kn_right h1 h2 hp
  have m1 := h1.kn_mono
  have m2 := h2.kn_mono
  refine ⟨h1.order_pos, ?_, ?_, ?_, Or.inr rfl, ?_, ?_⟩
  · show 2 * b1.order ≤ _
    rw [hsz]; omega
  · intro i hi
    rw [hsz] at hi
    by_cases c1 : i + 1 < b1.knots.size - 1
    · rw [hL i (by omega), hL (i + 1) c1]
      exact m1 (by omega)
    · by_cases c2 : i + 1 = b1.knots.size - 1
      · have e : i + 1 = b1.knots.size - 1 + 0 := by omega
        rw [hL i (by omega), e, hR 0 (by omega)]
        have a1 : b1.kn i ≤ b1.kn (b1.knots.size - 1) := m1 (by omega)
        have a2 : b2.kn 0 ≤ b2.kn (b1.order + 0) := m2 (by omega)
        linarith
      · have e0 : i = b1.knots.size - 1 + (i - (b1.knots.size - 1)) := by omega
        have e1 : i + 1 = b1.knots.size - 1 + (i - (b1.knots.size - 1) + 1) := by omega
        rw [e1, hR _ (by omega)]
        conv_lhs => rw [e0]
        rw [hR _ (by omega)]
        have a2 : b2.kn (b1.order + (i - (b1.knots.size - 1)))
            ≤ b2.kn (b1.order + (i - (b1.knots.size - 1) + 1)) := m2 (by omega)
        linarith
  · show (-1 : Int) ≤ -1
    omega
  · have es : (appendBasis b1 b2).start = b1.start := hL (b1.order - 1) (by omega)
    have ee : (appendBasis b1 b2).stop
        = b2.kn (b1.order + (b2.knots.size - 2 * b1.order)) - b2.kn 0 + b1.kn (b1.knots.size - 1) := by
      unfold Basis.stop
      rw [hsz]
      have : b1.knots.size - 1 + (b2.knots.size - b1.order) - (appendBasis b1 b2).order
          = b1.knots.size - 1 + (b2.knots.size - 2 * b1.order) := by
        show b1.knots.size - 1 + (b2.knots.size - b1.order) - b1.order = _
        omega
      rw [this, hR _ (by omega)]
    rw [es, ee]
    have a1 : b1.stop ≤ b1.kn (b1.knots.size - 1) := m1 (by omega)
    have a2 : b2.kn 0 ≤ b2.start := m2 (by omega)
    have a3 : b2.stop = b2.kn (b1.order + (b2.knots.size - 2 * b1.order)) := by
      unfold Basis.stop; congr 1; omega
    have := h1.start_lt_stop
    have := h2.start_lt_stop
    linarith
  · intro h
    exact absurd h (by show ¬ (0 : Int) ≤ -1; omega)

end

end Basis

namespace Obj

theorem bases_eq_singleton {a : Obj K} (h1 : a.bases.size = 1) : a.bases = #[a.basis 0] := by
  obtain ⟨b, hb⟩ := Array.size_eq_one_iff.1 h1
  rw [hb]
  simp [Obj.basis, hb]

theorem counts_singleton {a : Obj K} (h1 : a.bases.size = 1) : a.counts = [(a.basis 0).numFunctions] := by
  unfold Obj.counts
  rw [bases_eq_singleton h1]
  simp [Obj.basis]

theorem len_singleton {a : Obj K} (h1 : a.bases.size = 1) : a.len = (a.basis 0).numFunctions := by
  unfold Obj.len
  rw [counts_singleton h1]
  simp [Tensor.prod]

/-- Data array of the appended curve. -/
theorem appendData_get (A C : Array K) (n1 nc m : ℕ) (hA : A.size = n1 * nc) (hC : C.size = (m + 1) * nc)
    (f : ℕ) (hf : f < (n1 + m) * nc) :
    (A.extract 0 (n1 * nc) ++ C.extract nc ((m + 1) * nc)).getD f 0
      = if f < n1 * nc then A.getD f 0 else C.getD (nc + (f - n1 * nc)) 0 := by
  have hsA : (A.extract 0 (n1 * nc)).size = n1 * nc := by simp [hA]
  rw [Array.getD_eq_getD_getElem?, Array.getElem?_append, hsA]
  split_ifs with hlt
  · rw [Array.getElem?_extract, if_pos (by rw [hA]; simpa using hlt), Array.getD_eq_getD_getElem?]
    simp
  · have hlt2 : f - n1 * nc < min ((m + 1) * nc) C.size - nc := by
      rw [hC, Nat.min_self, Nat.add_mul, Nat.one_mul, Nat.add_sub_cancel]
      rw [Nat.add_mul] at hf
      omega
    rw [Array.getElem?_extract, if_pos hlt2, Array.getD_eq_getD_getElem?]

/-- **The merge of `Curve.append`** for two compatible non-periodic curves of equal order. -/
theorem appendCore_wf {a c : Obj K} (ha : a.WellFormed) (hc : c.WellFormed)
    (ha1 : a.bases.size = 1) (hc1 : c.bases.size = 1)
    (hnc : c.ncomp = a.ncomp) (hdim : c.dimension = a.dimension) (hrat : c.rational = a.rational)
    (hp : (a.basis 0).order = (c.basis 0).order)
    (hpa : (a.basis 0).periodic = -1) (hpc : (c.basis 0).periodic = -1) :
    (⟨#[Basis.appendBasis (a.basis 0) (c.basis 0)],
      ⟨[(a.basis 0).numFunctions + (c.basis 0).numFunctions - 1, a.ncomp],
        a.cps.data.extract 0 ((a.basis 0).numFunctions * a.ncomp)
          ++ c.cps.data.extract a.ncomp ((c.basis 0).numFunctions * a.ncomp)⟩,
      a.rational⟩ : Obj K).WellFormed := by
  have hva := ha.valid 0 (by omega)
  have hvc := hc.valid 0 (by omega)
  have hnb := Basis.appendBasis_numFunctions hva hvc hp hpa hpc
  have hvb := Basis.appendBasis_valid hva hvc hp
  obtain ⟨m, hm⟩ : ∃ m, (c.basis 0).numFunctions = m + 1 :=
    ⟨(c.basis 0).numFunctions - 1, by have := hvc.numFunctions_pos; omega⟩
  have hsa : a.cps.data.size = (a.basis 0).numFunctions * a.ncomp := by
    rw [ha.size_eq, len_singleton ha1]
  have hsc : c.cps.data.size = (m + 1) * a.ncomp := by
    rw [hc.size_eq, len_singleton hc1, hm, hnc]
  rw [hm] at hnb ⊢
  rw [show (a.basis 0).numFunctions + (m + 1) - 1 = (a.basis 0).numFunctions + m from by omega] at hnb ⊢
  generalize hR : (⟨#[Basis.appendBasis (a.basis 0) (c.basis 0)],
      ⟨[(a.basis 0).numFunctions + m, a.ncomp],
        a.cps.data.extract 0 ((a.basis 0).numFunctions * a.ncomp)
          ++ c.cps.data.extract a.ncomp ((m + 1) * a.ncomp)⟩,
      a.rational⟩ : Obj K) = R
  have hRb : R.bases = #[Basis.appendBasis (a.basis 0) (c.basis 0)] := by rw [← hR]
  have hRr : R.rational = a.rational := by rw [← hR]
  have hshape : R.cps.shape = [(a.basis 0).numFunctions + m] ++ [a.ncomp] := by rw [← hR]; rfl
  have hRd : R.cps.data = a.cps.data.extract 0 ((a.basis 0).numFunctions * a.ncomp)
          ++ c.cps.data.extract a.ncomp ((m + 1) * a.ncomp) := by rw [← hR]
  have hRbasis : R.basis 0 = Basis.appendBasis (a.basis 0) (c.basis 0) := by
    simp [Obj.basis, hRb]
  have hcounts : R.counts = [(a.basis 0).numFunctions + m] := by
    unfold Obj.counts; rw [hRb]; simp [hnb]
  have hncR : R.ncomp = a.ncomp := ncomp_of_shape hshape
  have hdimR : R.dimension = a.dimension := by unfold Obj.dimension; rw [hncR, hRr]
  have hspec : R.ncompSpec = a.ncomp := by
    unfold Obj.ncompSpec; rw [hdimR, hRr]; exact ha.ncomp_eq.symm
  have hprod : Tensor.prod R.cps.shape = ((a.basis 0).numFunctions + m) * a.ncomp := by
    rw [hshape]; simp [Tensor.prod]
  have hsize : R.cps.data.size = Tensor.prod R.cps.shape := by
    rw [hprod, hRd, Array.size_append, Array.size_extract, Array.size_extract, hsa, hsc,
      Nat.min_self, Nat.min_self, Nat.add_mul, Nat.add_mul, Nat.one_mul]
    omega
  apply WellFormed.of_weightsPos
  · rw [hRb, pardim_of_shape hshape]; rfl
  · rw [hshape, hcounts, hspec]
  · exact hsize
  · rw [hdimR]; exact ha.dim_pos
  · intro d hd
    have hd0 : d = 0 := by rw [hRb] at hd; simpa using hd
    subst hd0
    rw [hRbasis]; exact hvb
  · intro hr f hf hmod
    rw [hncR, hdimR] at hmod
    rw [hsize, hprod] at hf
    have hra : a.rational = true := by rw [← hRr]; exact hr
    show 0 < R.cps.data.getD f 0
    rw [hRd, appendData_get _ _ _ _ m hsa hsc f hf]
    split_ifs with hlt
    · exact ha.weightsPos hra f (by rw [hsa]; exact hlt) hmod
    · have hge : a.ncomp * (a.basis 0).numFunctions ≤ f := by
        rw [Nat.mul_comm]; omega
      apply hc.weightsPos (hrat.trans hra)
      · rw [hsc]
        rw [Nat.add_mul] at hf
        rw [Nat.add_mul, Nat.one_mul]
        omega
      · rw [hnc, hdim, Nat.add_mod_left, Nat.mul_comm, Nat.sub_mul_mod hge]
        exact hmod

/-! ### `make_splines_compatible` -/

/-- The tail of `Obj.appendCurve`, after the periodicity test and `make_splines_compatible`. -/
def appendMerge (a2 c2 : Obj K) (tol : K) : PyM (Option (Obj K)) := do
  let p1 := (a2.basis 0).order
  let p2 := (c2.basis 0).order
  if p1 ≠ p2 then return none
  let p := p1
  let old := (a2.basis 0).knots
  let add0 := (c2.basis 0).knots
  let first := add0.getD 0 0
  let last := old.getD (old.size - 1) 0
  let add := add0.map (fun x => x - first + last)
  let newKnot := old.extract 0 (old.size - 1) ++ add.extract p add.size
  let n1 := (a2.basis 0).numFunctions
  let n2 := (c2.basis 0).numFunctions
  let nc := a2.ncomp
  let nb ← Basis.mk? p newKnot (-1) tol
  let data := a2.cps.data.extract 0 (n1 * nc) ++ c2.cps.data.extract nc (n2 * nc)
  pure (some { bases := #[nb], cps := { shape := [n1 + n2 - 1, nc], data := data }, rational := a2.rational })

theorem appendCurve_eq (a c : Obj K) (tol : K) :
    a.appendCurve c tol
      = if (a.basis 0).periodic > -1 ∨ (c.basis 0).periodic > -1 then .error .runtime
        else appendMerge (compatible a c).1 (compatible a c).2 tol := by
  unfold appendCurve
  by_cases hper : (a.basis 0).periodic > -1 ∨ (c.basis 0).periodic > -1
  · simp only [if_pos hper]; rfl
  · simp only [if_neg hper]; rfl

theorem forceRational_facts {o : Obj K} (h : o.WellFormed) :
    o.forceRational.WellFormed ∧ o.forceRational.bases = o.bases ∧ o.forceRational.rational = true
      ∧ o.forceRational.dimension = o.dimension := by
  have hs : (AffOp.forceRational : AffOp K).inplace o = .ok o.forceRational := rfl
  have hadm : (AffOp.forceRational : AffOp K).Admissible := trivial
  obtain ⟨_, hd, hr⟩ := AffOp.inplace_acts h.toC09 _ hadm hs
  exact ⟨AffOp.inplace_wf h _ hadm hs, (AffOp.inplace_shape _ hs).1, hr, hd⟩

theorem setDimension_facts {o : Obj K} (h : o.WellFormed) (n : ℕ) (hn : 0 < n) :
    (o.setDimension n).WellFormed ∧ (o.setDimension n).bases = o.bases
      ∧ (o.setDimension n).rational = o.rational ∧ (o.setDimension n).dimension = n := by
  have hs : (AffOp.setDimension n : AffOp K).inplace o = .ok (o.setDimension n) := rfl
  have hadm : (AffOp.setDimension n : AffOp K).Admissible := hn
  obtain ⟨_, hd, hr⟩ := AffOp.inplace_acts h.toC09 _ hadm hs
  exact ⟨AffOp.inplace_wf h _ hadm hs, (AffOp.inplace_shape _ hs).1, hr, hd⟩

/-- What `make_splines_compatible` achieves. -/
structure Compat (a c a' c' : Obj K) : Prop where
  wa : a'.WellFormed
  wc : c'.WellFormed
  ba : a'.bases = a.bases
  bc : c'.bases = c.bases
  rat : c'.rational = a'.rational
  dim : c'.dimension = a'.dimension

theorem Compat.ncomp {a c a' c' : Obj K} (h : Compat a c a' c') : c'.ncomp = a'.ncomp := by
  rw [h.wc.ncomp_eq, h.wa.ncomp_eq]; unfold Obj.ncompSpec; rw [h.rat, h.dim]

theorem Compat.basis_a {a c a' c' : Obj K} (h : Compat a c a' c') (d : ℕ) : a'.basis d = a.basis d := by
  unfold Obj.basis; rw [h.ba]

theorem Compat.basis_c {a c a' c' : Obj K} (h : Compat a c a' c') (d : ℕ) : c'.basis d = c.basis d := by
  unfold Obj.basis; rw [h.bc]

def compat1 (a c : Obj K) : Obj K × Obj K :=
  if a.rational then (a, c.forceRational) else if c.rational then (a.forceRational, c) else (a, c)

def compat2 (a c : Obj K) : Obj K × Obj K :=
  if a.dimension > c.dimension then (a, c.setDimension a.dimension) else (a.setDimension c.dimension, c)

theorem compatible_eq (a c : Obj K) :
    compatible a c = compat2 (compat1 a c).1 (compat1 a c).2 := by
  unfold compatible compat1 compat2
  cases a.rational <;> cases c.rational <;> rfl

theorem compat1_spec {a c : Obj K} (ha : a.WellFormed) (hc : c.WellFormed) :
    (compat1 a c).1.WellFormed ∧ (compat1 a c).2.WellFormed ∧ (compat1 a c).1.bases = a.bases
      ∧ (compat1 a c).2.bases = c.bases ∧ (compat1 a c).2.rational = (compat1 a c).1.rational := by
  unfold compat1
  obtain ⟨fa1, fa2, fa3, _⟩ := forceRational_facts ha
  obtain ⟨fc1, fc2, fc3, _⟩ := forceRational_facts hc
  by_cases hra : a.rational = true
  · rw [if_pos hra]
    exact ⟨ha, fc1, rfl, fc2, fc3.trans hra.symm⟩
  · rw [if_neg hra]
    by_cases hrc : c.rational = true
    · rw [if_pos hrc]
      exact ⟨fa1, hc, fa2, rfl, hrc.trans fa3.symm⟩
    · rw [if_neg hrc]
      refine ⟨ha, hc, rfl, rfl, ?_⟩
      show c.rational = a.rational
      rw [Bool.not_eq_true] at hra hrc
      rw [hra, hrc]

theorem compat2_spec {a c : Obj K} (ha : a.WellFormed) (hc : c.WellFormed) (hrat : c.rational = a.rational) :
    Compat a c (compat2 a c).1 (compat2 a c).2 := by
  unfold compat2
  obtain ⟨fa1, fa2, fa3, fa4⟩ := setDimension_facts ha c.dimension hc.dim_pos
  obtain ⟨fc1, fc2, fc3, fc4⟩ := setDimension_facts hc a.dimension ha.dim_pos
  by_cases hd : a.dimension > c.dimension
  · rw [if_pos hd]
    exact ⟨ha, fc1, rfl, fc2, fc3.trans hrat, fc4⟩
  · rw [if_neg hd]
    exact ⟨fa1, hc, fa2, rfl, hrat.trans fa3.symm, fa4.symm⟩

theorem compatible_spec {a c : Obj K} (ha : a.WellFormed) (hc : c.WellFormed) :
    Compat a c (compatible a c).1 (compatible a c).2 := by
  rw [compatible_eq]
  obtain ⟨h1, h2, h3, h4, h5⟩ := compat1_spec ha hc
  have := compat2_spec h1 h2 h5
  exact ⟨this.wa, this.wc, this.ba.trans h3, this.bc.trans h4, this.rat, this.dim⟩

theorem appendMerge_wf {a c r : Obj K} {tol : K} (ha : a.WellFormed) (hc : c.WellFormed)
    (ha1 : a.bases.size = 1) (hc1 : c.bases.size = 1)
    (hnc : c.ncomp = a.ncomp) (hdim : c.dimension = a.dimension) (hrat : c.rational = a.rational)
    (hpa : (a.basis 0).periodic = -1) (hpc : (c.basis 0).periodic = -1)
    (hs : appendMerge a c tol = .ok (some r)) : r.WellFormed := by
  unfold appendMerge at hs
  simp only [bind, Except.bind, pure, Except.pure] at hs
  by_cases hp : (a.basis 0).order = (c.basis 0).order
  · rw [if_neg (not_not.2 hp)] at hs
    rcases Basis.mk?_cases (a.basis 0).order
        (Basis.appendKnotsArr (a.basis 0).order (a.basis 0).knots (c.basis 0).knots) (-1) tol with hm | hm
    · unfold Basis.appendKnotsArr at hm
      simp only [] at hm
      rw [hm] at hs
      cases hs
    · have hwf := appendCore_wf ha hc ha1 hc1 hnc hdim hrat hp hpa hpc
      have hval : (Basis.appendBasis (a.basis 0) (c.basis 0)).Valid := by
        have := hwf.valid 0 (by simp)
        simpa [Obj.basis] using this
      have hcm : Basis.cummax (Basis.appendKnotsArr (a.basis 0).order (a.basis 0).knots (c.basis 0).knots)
          = Basis.appendKnotsArr (a.basis 0).order (a.basis 0).knots (c.basis 0).knots :=
        Basis.cummax_knots_of_sorted (Basis.appendBasis (a.basis 0) (c.basis 0)) hval.sorted
      rw [hcm] at hm
      unfold Basis.appendKnotsArr at hm
      simp only [] at hm
      rw [hm] at hs
      simp only [Except.ok.injEq, Option.some.injEq] at hs
      rw [← hs]
      exact hwf
  · rw [if_pos hp] at hs
    cases hs

theorem appendCurve_wf {a c r : Obj K} {tol : K} (ha : a.WellFormed) (hc : c.WellFormed)
    (ha1 : a.bases.size = 1) (hc1 : c.bases.size = 1)
    (hs : a.appendCurve c tol = .ok (some r)) : r.WellFormed := by
  rw [appendCurve_eq] at hs
  split_ifs at hs with hper
  have hcp := compatible_spec ha hc
  have hva := ha.valid 0 (by omega)
  have hvc := hc.valid 0 (by omega)
  have hpa : (a.basis 0).periodic = -1 := by have := hva.periodic_ge; omega
  have hpc : (c.basis 0).periodic = -1 := by have := hvc.periodic_ge; omega
  exact appendMerge_wf hcp.wa hcp.wc (by rw [hcp.ba]; exact ha1) (by rw [hcp.bc]; exact hc1)
    hcp.ncomp hcp.dim hcp.rat (by rw [hcp.basis_a]; exact hpa) (by rw [hcp.basis_c]; exact hpc) hs

end Obj

namespace History

theorem curveRaiseOrder_zero (o : Obj K) (tol : K) : o.curveRaiseOrder tol 0 = .ok (.self, o) := by
  unfold Obj.curveRaiseOrder
  simp

theorem append_wf {a c r : Obj K} {tol : K} (ha : a.WellFormed) (hc : c.WellFormed)
    (ha1 : a.bases.size = 1) (hc1 : c.bases.size = 1)
    (hord : (a.basis 0).order = (c.basis 0).order) (hs : append a c tol = .ok r) : r.WellFormed := by
  unfold append at hs
  by_cases hper : (a.basis 0).periodic > -1 ∨ (c.basis 0).periodic > -1
  · simp only [if_pos hper] at hs
    cases hs
  simp only [if_neg hper] at hs
  have hcp := Obj.compatible_spec ha hc
  have ho : ((a.compatible c).1.basis 0).order = ((a.compatible c).2.basis 0).order := by
    rw [hcp.basis_a, hcp.basis_c]; exact hord
  rw [ho, if_neg (lt_irrefl _), sub_self, curveRaiseOrder_zero] at hs
  simp only [bind, Except.bind, pure, Except.pure] at hs
  cases hm : (a.compatible c).1.appendCurve (a.compatible c).2 tol with
  | error e => rw [hm] at hs; cases hs
  | ok res =>
    rw [hm] at hs
    cases res with
    | none => cases hs
    | some o' =>
      simp only [Except.ok.injEq] at hs
      subst hs
      exact Obj.appendCurve_wf hcp.wa hcp.wc (by rw [hcp.ba]; exact ha1) (by rw [hcp.bc]; exact hc1) hm

/-- `_partial`: both curves have the same order, so `Curve.raise_order` is called with amount 0.
    (`htol` is not used: sortedness of the new knot vector follows from the two valid inputs, not from
    the constructor's tolerance test.) -/
theorem stepOut_append_wf_partial {o other : Obj K} (h : o.WellFormed) (ho : other.WellFormed) (tol : K)
    (htol : 0 ≤ tol) (hord : (o.basis 0).order = (other.basis 0).order) {out : Out K}
    (hs : stepOut tol o (.append other) = .ok out) : out.recv.WellFormed ∧ out.news = [] := by
  simp only [stepOut] at hs
  split_ifs at hs with hsz
  cases hr : append o other tol with
  | error e => rw [hr] at hs; cases hs
  | ok r =>
    rw [hr] at hs
    injection hs with hs
    subst hs
    exact ⟨append_wf h ho hsz.1 hsz.2 hord hr, rfl⟩

end History

end Splipy
