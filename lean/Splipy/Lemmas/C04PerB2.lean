import Splipy.Lemmas.C04PerWrap

/-!
# C04 helper lemmas, part 11: branch 2 (`n+1 ≤ μ`) — the image `x-T` lies in the left ghost zone
-/

namespace Splipy
namespace C04

set_option linter.unusedSectionVars false

variable {K : Type} [Field K] [LinearOrder K] [IsStrictOrderedRing K]

section branch2

variable (τ : ℕ → K) (x T : K) (n p k mu : ℕ)

theorem diagE_shift2 (hp : k + 2 ≤ p) (hguard : p + k ≤ n)
    (hg : ∀ i, i ≤ p + k → τ (i + n) = τ i + T) (h1 : n + 1 ≤ mu) (h2 : mu ≤ n + k + 1) (e : ℕ) :
    diagE (insertSeq τ mu x) (x - T) p (mu - n) e = diagE τ x p mu (n + e) := by
  by_cases he : e < mu - n
  · have hσ : ∀ j, j ≤ p → insertSeq τ mu x (e + j) = τ (e + j) := fun j hj => bo_ins_lt (by omega)
    have hτ' : ∀ j, j ≤ p → τ (n + e + j) = insertSeq τ mu x (e + j) + T := by
      intro j hj
      rw [hσ j hj, show n + e + j = (e + j) + n by omega, hg (e + j) (by omega)]
    unfold diagE
    rw [if_neg (by omega), if_pos he, if_neg (by omega), if_pos (by omega)]
    have := gd_shift (insertSeq τ mu x) τ (x - T) T p e (n + e) (by simpa using hτ' 0 (by omega))
      (by rw [show n + e + p - 1 = n + e + (p - 1) by omega, show e + p - 1 = e + (p - 1) by omega]
          exact hτ' (p - 1) (by omega))
      (hτ' p le_rfl)
    rw [sub_add_cancel] at this
    exact this.symm
  · rw [diagE_hi (show mu - n ≤ e by omega), diagE_hi (show mu ≤ n + e by omega)]

theorem subE_shift2 (hp : k + 2 ≤ p) (hguard : p + k ≤ n)
    (hg : ∀ i, i ≤ p + k → τ (i + n) = τ i + T) (h1 : n + 1 ≤ mu) (h2 : mu ≤ n + k + 1) (e : ℕ) :
    subE (insertSeq τ mu x) (x - T) p (mu - n) e = subE τ x p mu (n + e) := by
  by_cases he : e < mu - n
  · have hσ : ∀ j, j ≤ p → insertSeq τ mu x (e + j) = τ (e + j) := fun j hj => bo_ins_lt (by omega)
    have hτ' : ∀ j, j ≤ p → τ (n + e + j) = insertSeq τ mu x (e + j) + T := by
      intro j hj
      rw [hσ j hj, show n + e + j = (e + j) + n by omega, hg (e + j) (by omega)]
    unfold subE
    rw [if_neg (by omega), if_pos he, if_neg (by omega), if_pos (by omega)]
    have := gs_shift (insertSeq τ mu x) τ (x - T) T p e (n + e) (by simpa using hτ' 0 (by omega))
      (hτ' 1 (by omega)) (hτ' p le_rfl)
    rw [sub_add_cancel] at this
    exact this.symm
  · rw [subE_hi (show mu - n ≤ e by omega), subE_hi (show mu ≤ n + e by omega)]

/-- rows `s ≤ ν = μ - n` of the first unrolled insertion: untouched coefficients -/
theorem coef1_small (hp : k + 2 ≤ p) (hguard : p + k ≤ n) (h1 : n + 1 ≤ mu) (h2 : mu ≤ n + k + 1)
    (hx : τ (mu - 1) ≤ x ∧ x ≤ τ mu) (c : ℕ → K) (s : ℕ) (hs : s ≤ mu - n) :
    mulVecF (codeF τ x p mu) (n + k + 1) (fun i => c (i % n)) s = c s := by
  rw [mulVecF_codeF, if_pos (by omega)]
  have hD : diagE τ x p mu s = 1 := by
    by_cases h : s + p < mu
    · exact diagE_lo h
    · exact diagE_first (by omega) (by omega) hx
  rw [hD, one_mul]
  simp only [Nat.mod_eq_of_lt (show s < n by omega)]
  by_cases h0 : 1 ≤ s
  · rw [if_pos ⟨h0, by omega⟩, subE_lo (show s - 1 + p < mu by omega), zero_mul, add_zero]
  · rw [if_neg (by omega), add_zero]

/-- rows `r < n` of the first unrolled insertion (no condition on `μ`) -/
theorem coef_lt (c : ℕ → K) (r : ℕ) (hr : r < n) :
    mulVecF (codeF τ x p mu) (n + k + 1) (fun i => c (i % n)) r
      = diagE τ x p mu r * c r + (if 1 ≤ r then subE τ x p mu (r - 1) * c (r - 1) else 0) := by
  rw [mulVecF_codeF, if_pos (by omega)]
  simp only [Nat.mod_eq_of_lt hr]
  congr 1
  by_cases h0 : 1 ≤ r
  · rw [if_pos ⟨h0, by omega⟩, if_pos h0, Nat.mod_eq_of_lt (show r - 1 < n by omega)]
  · rw [if_neg (by omega), if_neg h0]

/-- coefficient identity of branch 2: two unrolled insertions (`x` at `μ`, then `x-T` at `μ-n` in
    front of it) of the periodically extended coefficients, shifted by one row, are the wrapped images
    of the rows of the wrapped matrix. -/
theorem coef_branch2 (hp : k + 2 ≤ p) (hguard : p + k ≤ n)
    (hg : ∀ i, i ≤ p + k → τ (i + n) = τ i + T) (h1 : n + 1 ≤ mu) (h2 : mu ≤ n + k + 1)
    (hx : τ (mu - 1) ≤ x ∧ x ≤ τ mu) (c : ℕ → K) (r : ℕ) (hr : r < n + k + 1 + 1) :
    mulVecF (codeF (insertSeq τ mu x) (x - T) p (mu - n)) (n + k + 1 + 1)
        (mulVecF (codeF τ x p mu) (n + k + 1) (fun i => c (i % n))) (r + 1)
      = mulVecF (wrapRow τ x n p mu) n c (r % (n + 1)) := by
  rw [mulVecF_codeF, diagE_shift2 τ x T n p k mu hp hguard hg h1 h2,
    show r + 1 - 1 = r by omega, subE_shift2 τ x T n p k mu hp hguard hg h1 h2, mulVecF_wrapRow,
    if_pos (show 1 ≤ r + 1 ∧ r < n + k + 1 + 1 from ⟨by omega, hr⟩)]
  by_cases hI : r < mu - n
  · -- rows in the left ghost zone
    rw [Nat.mod_eq_of_lt (show r < n + 1 by omega),
      coef1_small τ x n p k mu hp hguard h1 h2 hx c r (by omega), if_pos (show r < n by omega),
      if_pos hI, if_neg (show ¬ (r - 1 < n ∧ 1 ≤ r ∧ mu - n ≤ r - 1) by omega),
      if_neg (show ¬ (0 < n ∧ r = n) by omega), add_zero, add_zero]
    by_cases hI2 : r + 1 < mu - n
    · rw [if_pos (by omega), coef1_small τ x n p k mu hp hguard h1 h2 hx c (r + 1) (by omega),
        if_pos ⟨by omega, hI2⟩]
      ring
    · rw [if_neg (show ¬ (r + 1 < n ∧ r + 1 < mu - n) by omega),
        diagE_hi (show mu ≤ n + (r + 1) by omega), zero_mul, ite_self]
      ring
  · rw [diagE_hi (show mu ≤ n + (r + 1) by omega), zero_mul, ite_self, zero_add,
      subE_hi (show mu ≤ n + r by omega), one_mul]
    by_cases ha : r < n
    · rw [Nat.mod_eq_of_lt (show r < n + 1 by omega), coef_lt τ x n p k mu c r ha, if_pos ha, if_neg hI,
        if_neg (show ¬ (r + 1 < n ∧ r + 1 < mu - n) by omega),
        if_neg (show ¬ (0 < n ∧ r = n) by omega), add_zero, add_zero]
      congr 1
      by_cases hb : mu - n ≤ r - 1 ∧ 1 ≤ r
      · rw [if_pos hb.2, if_pos ⟨by omega, hb.2, hb.1⟩]
      · rw [if_neg (show ¬ (r - 1 < n ∧ 1 ≤ r ∧ mu - n ≤ r - 1) by omega)]
        by_cases h0 : 1 ≤ r
        · rw [if_pos h0, subE_lo (show r - 1 + p < mu by omega), zero_mul]
        · rw [if_neg h0]
    · by_cases hb : r = n
      · subst hb
        rw [Nat.mod_eq_of_lt (show r < r + 1 by omega), mulVecF_codeF, if_pos (by omega),
          if_pos ⟨by omega, by omega⟩, if_neg (lt_irrefl r),
          if_neg (show ¬ (r + 1 < r ∧ r + 1 < mu - r) by omega),
          if_pos (show r - 1 < r ∧ 1 ≤ r ∧ mu - r ≤ r - 1 by omega),
          if_pos (show 0 < r ∧ r = r from ⟨by omega, rfl⟩)]
        simp only [Nat.mod_self, Nat.mod_eq_of_lt (show r - 1 < r by omega)]
        ring
      · obtain ⟨e, he, rfl⟩ : ∃ e, e ≤ k ∧ r = n + 1 + e := ⟨r - (n + 1), by omega, by omega⟩
        rw [mod_add_n1 n e (by omega), mulVecF_codeF,
          if_pos (show 1 ≤ n + 1 + e ∧ n + 1 + e - 1 < n + k + 1 by omega),
          show n + 1 + e - 1 = n + e by omega, if_pos (show e < n by omega),
          if_neg (show ¬ (0 < n ∧ e = n) by omega), add_zero]
        simp only [mod_add_n n e (by omega)]
        by_cases hc : e < mu - n
        · rw [if_pos hc, if_neg (show ¬ (e - 1 < n ∧ 1 ≤ e ∧ mu - n ≤ e - 1) by omega), add_zero]
          by_cases hd : e + 1 < mu - n
          · rw [if_pos (show n + 1 + e < n + k + 1 by omega), if_pos ⟨by omega, hd⟩,
              show n + 1 + e = n + (e + 1) by omega]
            simp only [mod_add_n n (e + 1) (by omega)]
            ring
          · rw [diagE_hi (show mu ≤ n + 1 + e by omega), zero_mul, ite_self,
              if_neg (show ¬ (e + 1 < n ∧ e + 1 < mu - n) by omega)]
            ring
        · rw [if_neg hc, diagE_hi (show mu ≤ n + 1 + e by omega), zero_mul, ite_self,
            subE_hi (show mu ≤ n + e by omega), diagE_lo (show e + p < mu by omega),
            if_neg (show ¬ (e + 1 < n ∧ e + 1 < mu - n) by omega)]
          by_cases h0 : e - 1 < n ∧ 1 ≤ e ∧ mu - n ≤ e - 1
          · rw [if_pos h0, subE_lo (show e - 1 + p < mu by omega)]
            ring
          · rw [if_neg h0]
            ring

/-- Branch 2 at the spline level.  `ρ` agrees with the doubly refined sequence (`x` at `μ`, `x-T` at
    `μ-n`) shifted by one index on the knots of the new array; `t` lies (one-sidedly) above the
    start `τ (p-1)` of the domain. -/
theorem wsum_branch2 (s : Side) (hτ : Monotone τ) (q : ℕ) (hpq : p = q + 1) (hp : k + 2 ≤ p)
    (hguard : p + k ≤ n) (hg : ∀ i, i ≤ p + k → τ (i + n) = τ i + T) (h1 : n + 1 ≤ mu)
    (h2 : mu ≤ n + k + 1) (hx : τ (mu - 1) ≤ x ∧ x ≤ τ mu) (ρ : ℕ → K)
    (hρ : ∀ j, j ≤ n + k + 1 + p →
      ρ j = insertSeq (insertSeq τ mu x) (mu - n) (x - T) (j + 1))
    (c : ℕ → K) (d : ℕ) (e t : K) (ht : s.mem (τ (p - 1)) e t) :
    wsum s ρ q (n + k + 1 + 1) (n + 1) (mulVecF (wrapRow τ x n p mu) n c) d t
      = wsum s τ q (n + k + 1) n c d t := by
  subst hpq
  obtain ⟨hlo, hhi⟩ := bo_bounds τ hτ mu x hx
  have hσ : Monotone (insertSeq τ mu x) := bo_insertSeq_mono τ hτ mu x hlo hhi
  have hx2 : insertSeq τ mu x (mu - n - 1) ≤ x - T ∧ x - T ≤ insertSeq τ mu x (mu - n) := by
    rw [bo_ins_lt (show mu - n - 1 < mu by omega), bo_ins_lt (show mu - n < mu by omega)]
    have e1 := hg (mu - n - 1) (by omega)
    have e2 := hg (mu - n) (by omega)
    rw [show mu - n - 1 + n = mu - 1 by omega] at e1
    rw [show mu - n + n = mu by omega] at e2
    exact ⟨by linarith [hx.1], by linarith [hx.2]⟩
  obtain ⟨hlo2, hhi2⟩ := bo_bounds _ hσ (mu - n) (x - T) hx2
  have hσ2 : Monotone (insertSeq (insertSeq τ mu x) (mu - n) (x - T)) :=
    bo_insertSeq_mono _ hσ _ _ hlo2 hhi2
  rw [wsum_eq_splineDeriv s τ, ← splineDeriv_codeF s τ hτ mu x q (n + k + 1) (by omega) hx,
    ← splineDeriv_codeF s _ hσ (mu - n) (x - T) q (n + k + 1 + 1) (by omega) hx2]
  unfold wsum splineDeriv
  rw [Finset.sum_range_succ' _ (n + k + 1 + 1)]
  have hfirst : dB s (insertSeq (insertSeq τ mu x) (mu - n) (x - T)) q 0 d t = 0 := by
    apply dB_zero_before s _ hσ2 q 0 d (τ (q + 1 - 1)) e t ht
    rw [bo_ins_gt (k := q) (by omega) (by omega), bo_ins_lt (show q < mu by omega)]
    exact le_of_eq (by congr 1)
  rw [hfirst, mul_zero, add_zero]
  apply Finset.sum_congr rfl
  intro r hr
  have hr' := Finset.mem_range.1 hr
  rw [coef_branch2 τ x T n (q + 1) k mu hp hguard hg h1 h2 hx c r hr',
    dB_congr_knots s ρ (insertSeq (insertSeq τ mu x) (mu - n) (x - T)) q r (r + 1) d t
      (fun j hj => by rw [hρ (r + j) (by omega)]; congr 1; omega)]

end branch2

end C04
end Splipy
