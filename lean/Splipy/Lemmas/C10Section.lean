import Splipy.Lemmas.C10Tensor
import Splipy.Model.Sections
import Splipy.Model.History

/-!
# C10 helper lemmas: `SplineObject.section` keeps an object well formed

`section(*args)` fixes a control-point index in some parametric directions and keeps the others free.

* `C10.Net t cnts nc dim rat` : tensor-level invariant (shape `cnts ++ [nc]`, flat size, positive weight
  positions when `rat`);
* `C10.Net.takeAxis`          : fixing an in-range index of one parametric axis keeps the invariant, the
  axis disappears from the counts;
* `C10.Net.sliceSec`          : the whole slicing recursion `Obj.sliceSec` (last direction first);
* `C10.resolveSel_ok`         : numpy's selector resolution yields in-range indices, same free directions;
* `Obj.sectionSel_wf`         : `Obj.sectionSel` (one selector per direction) returns a well-formed object;
* `History.stepOut_section_wf`: the `section` call of a history.
-/

set_option linter.unusedSectionVars false

namespace Splipy

variable {K : Type} [Field K] [LinearOrder K]

namespace C10

/-- Tensor-level invariant of a control net: shape `cnts ++ [nc]`, as many flat entries as the shape
    says, and (for a rational net) positive numbers at the weight positions. -/
structure Net (t : Tensor K) (cnts : List ℕ) (nc dim : ℕ) (rat : Bool) : Prop where
  shape : t.shape = cnts ++ [nc]
  size : t.data.size = Tensor.prod t.shape
  pos : rat = true → TPos t nc dim

/-- The counts of the directions that stay free (selector `none`). -/
def keep : List ℕ → List (Option ℕ) → List ℕ
  | n :: ns, none :: ss => n :: keep ns ss
  | _ :: ns, some _ :: ss => keep ns ss
  | _, _ => []

theorem takeAxis_shape (t : Tensor K) (d j : ℕ) : (t.takeAxis d j).shape = t.shape.eraseIdx d := by
  show (t.shape.set d 1).eraseIdx d = _
  exact List.eraseIdx_set_eq

theorem takeAxis_data (t : Tensor K) (d j : ℕ) :
    (t.takeAxis d j).data = (Tensor.build3 t.shape d 1 (fun a _ i => t.at3 d a j i)).data := rfl

theorem prod_eraseIdx (shape : List ℕ) (d : ℕ) :
    Tensor.prod (shape.eraseIdx d)
      = (Tensor.split3 shape d).1 * 1 * (Tensor.split3 shape d).2.2 := by
  rw [List.eraseIdx_eq_take_drop_succ, C06.prod_append]
  simp [Tensor.split3]

/-- Fixing index `j` of parametric axis `d`. -/
theorem Net.takeAxis {t : Tensor K} {cnts : List ℕ} {nc dim : ℕ} {rat : Bool} (h : Net t cnts nc dim rat)
    (d j : ℕ) (hd : d < cnts.length) (hj : j < cnts.getD d 0) :
    Net (t.takeAxis d j) (cnts.eraseIdx d) nc dim rat := by
  have hax1 : d + 1 < t.shape.length := by rw [h.shape]; simp; omega
  have hlast : t.shape.getLastD 1 = nc := by rw [h.shape]; simp
  refine ⟨?_, ?_, ?_⟩
  · rw [takeAxis_shape, h.shape, List.eraseIdx_append_of_lt_length hd]
  · rw [takeAxis_shape, takeAxis_data, build3_data_size, prod_eraseIdx]
  · intro hr f hf hm
    have hf' : f < (Tensor.build3 t.shape d 1 (fun a _ i => t.at3 d a j i)).data.size := by
      rw [← takeAxis_data]; exact hf
    have key := build3_tpos t.shape d 1 (fun a _ i => t.at3 d a j i) nc dim hax1 hlast (by
      intro a r i ha _ hi him
      apply at3_pos t nc dim h.size (h.pos hr) d hax1 hlast a j i ha _ hi him
      simp only [Tensor.split3]
      rw [h.shape, List.getD_append _ _ _ _ hd]
      rw [List.getD_eq_getElem _ _ hd] at hj ⊢
      exact hj) f hf' hm
    exact key

/-- One selector per direction, every fixed index in range. -/
def SelOk (cnts : List ℕ) (idx : List (Option ℕ)) : Prop :=
  List.Forall₂ (fun n s => ∀ j, s = some j → j < n) cnts idx

theorem Net.sliceSecFrom {t : Tensor K} {nc dim : ℕ} {rat : Bool} {cnts : List ℕ} {idx : List (Option ℕ)}
    (hok : SelOk cnts idx) :
    ∀ (pre : List ℕ), Net t (pre ++ cnts) nc dim rat →
      Net (Obj.sliceSecFrom pre.length idx t) (pre ++ keep cnts idx) nc dim rat := by
  unfold SelOk at hok
  induction hok with
  | nil => intro pre h; simpa [Obj.sliceSecFrom, keep] using h
  | @cons n s cnts idx hns _ ih =>
    intro pre h
    have h' : Net t ((pre ++ [n]) ++ cnts) nc dim rat := by simpa using h
    have ih' := ih (pre ++ [n]) h'
    rw [List.length_append, List.length_singleton] at ih'
    cases s with
    | none =>
      rw [Obj.sliceSecFrom]
      simpa [keep] using ih'
    | some j =>
      rw [Obj.sliceSecFrom]
      have hj : j < n := hns j rfl
      have := ih'.takeAxis pre.length j (by simp) (by simp [List.getD_eq_getElem?_getD]; exact hj)
      simpa [keep, List.eraseIdx_append_of_length_le] using this

/-- **The slicing of `section`** keeps the tensor invariant; the remaining counts are those of the free
    directions. -/
theorem Net.sliceSec {t : Tensor K} {nc dim : ℕ} {rat : Bool} {cnts : List ℕ} {idx : List (Option ℕ)}
    (h : Net t cnts nc dim rat) (hok : SelOk cnts idx) :
    Net (Obj.sliceSec t idx) (keep cnts idx) nc dim rat := by
  unfold Obj.sliceSec
  exact Net.sliceSecFrom hok [] (by simpa using h)

/-! ## the selectors of `sectionSel` -/

open Sections

theorem pyIndex_lt {n : ℕ} {i : Int} {j : ℕ} (h : pyIndex n i = .ok j) : j < n := by
  unfold pyIndex at h
  simp only at h
  split_ifs at h with h1
  · injection h with h
    omega
  · injection h with h
    omega

/-- `resolveSel` on a shape with at least as many entries as selectors (the surplus `extra`, here the
    component axis, is ignored): every resolved index is in range and the free directions are the
    same. -/
theorem resolveSel_ok {cnts : List ℕ} (extra : List ℕ) : ∀ {sec : Sec} {idx : List (Option ℕ)},
    sec.length = cnts.length → Obj.resolveSel (cnts ++ extra) sec = .ok idx →
    SelOk cnts idx ∧ idx.map Option.isNone = sec.map Option.isNone := by
  induction cnts with
  | nil =>
    intro sec idx hl hm
    have : sec = [] := List.length_eq_zero_iff.mp hl
    subst this
    rw [Obj.resolveSel] at hm
    injection hm with hm
    subst hm
    exact ⟨List.Forall₂.nil, rfl⟩
  | cons n cnts ih =>
    intro sec idx hl hm
    cases sec with
    | nil => simp at hl
    | cons s sec =>
      rw [List.cons_append] at hm
      cases hrest : Obj.resolveSel (cnts ++ extra) sec with
      | error e =>
        cases s with
        | none =>
          rw [Obj.resolveSel, hrest] at hm
          cases hm
        | some i =>
          rw [Obj.resolveSel] at hm
          cases hp : pyIndex n i with
          | error e' => rw [hp] at hm; cases hm
          | ok j => rw [hp] at hm; simp only [hrest] at hm; cases hm
      | ok idx' =>
        obtain ⟨ih1, ih2⟩ := ih (by simpa using hl) hrest
        cases s with
        | none =>
          rw [Obj.resolveSel, hrest] at hm
          have : idx = none :: idx' := by
            injection hm with hm
            exact hm.symm
          subst this
          exact ⟨List.Forall₂.cons (by intro j hj; cases hj) ih1, by simp [ih2]⟩
        | some i =>
          rw [Obj.resolveSel] at hm
          cases hp : pyIndex n i with
          | error e => rw [hp] at hm; cases hm
          | ok j =>
            rw [hp] at hm
            simp only [hrest] at hm
            have : idx = some j :: idx' := by
              injection hm with hm
              exact hm.symm
            subst this
            refine ⟨List.Forall₂.cons ?_ ih1, by simp [ih2]⟩
            intro j' hj'
            injection hj' with hj'
            subst hj'
            exact pyIndex_lt hp

theorem keep_eq_freeBases : ∀ (bs : List (Basis K)) (sec : Sec) (idx : List (Option ℕ)),
    idx.map Option.isNone = sec.map Option.isNone →
    keep (bs.map Basis.numFunctions) idx = (Obj.freeBases bs sec).map Basis.numFunctions := by
  intro bs
  induction bs with
  | nil => intro sec idx _; simp [keep, Obj.freeBases]
  | cons b bs ih =>
    intro sec idx h
    cases sec with
    | nil =>
      have : idx = [] := by simpa using h
      subst this
      simp [keep, Obj.freeBases]
    | cons s sec =>
      cases idx with
      | nil => simp at h
      | cons x idx =>
        simp only [List.map_cons, List.cons.injEq] at h
        have ih' := ih sec idx h.2
        cases s with
        | none =>
          cases x with
          | none => simp [keep, Obj.freeBases, ih']
          | some j => simp at h
        | some i =>
          cases x with
          | none => simp at h
          | some j => simp [keep, Obj.freeBases, ih']

theorem mem_freeBases : ∀ {bs : List (Basis K)} {sec : Sec} {b : Basis K},
    b ∈ Obj.freeBases bs sec → b ∈ bs := by
  intro bs
  induction bs with
  | nil => intro sec b h; simp [Obj.freeBases] at h
  | cons b0 bs ih =>
    intro sec b h
    cases sec with
    | nil => simp [Obj.freeBases] at h
    | cons s sec =>
      cases s with
      | none =>
        rw [Obj.freeBases, List.mem_cons] at h
        rcases h with h | h
        · rw [h]; exact List.mem_cons_self
        · exact List.mem_cons_of_mem _ (ih h)
      | some i =>
        rw [Obj.freeBases] at h
        exact List.mem_cons_of_mem _ (ih h)

end C10

namespace Obj

open C10 Sections

variable {o : Obj K}

theorem WellFormed.net (h : o.WellFormed) : Net o.cps o.counts o.ncomp o.dimension o.rational :=
  ⟨h.shape_eq', h.data_size, fun hr => h.tpos hr⟩

/-- What `sectionSel` computes when it returns an object. -/
theorem sectionSel_obj {sec : Sec} {unwrap : Bool} {cls : String} {s : Obj K}
    (hs : o.sectionSel sec unwrap = .ok (.obj cls s)) :
    ∃ idx, resolveSel o.cps.shape sec = .ok idx ∧
      s = { bases := (freeBases o.bases.toList sec).toArray, cps := sliceSec o.cps idx,
            rational := o.rational } := by
  unfold sectionSel at hs
  cases hm : resolveSel o.cps.shape sec with
  | error e => rw [hm] at hs; cases hs
  | ok idx =>
    rw [hm] at hs
    refine ⟨idx, rfl, ?_⟩
    simp only at hs
    split_ifs at hs
    · injection hs with hs
      injection hs with _ hs
      exact hs.symm
    · injection hs with hs
      cases hs

/-- **`section` with one selector per direction returns a well-formed object.** -/
theorem sectionSel_wf (h : o.WellFormed) (sec : Sec) (hlen : sec.length = o.bases.size) (unwrap : Bool)
    {cls : String} {s : Obj K} (hs : o.sectionSel sec unwrap = .ok (.obj cls s)) : s.WellFormed := by
  obtain ⟨idx, hm, rfl⟩ := sectionSel_obj hs
  have hlen' : sec.length = o.counts.length := by rw [counts_length]; exact hlen
  rw [h.shape_eq'] at hm
  obtain ⟨hok, hnone⟩ := resolveSel_ok [o.ncomp] hlen' hm
  have hnet := h.net.sliceSec hok
  have hkeep : keep o.counts idx = (freeBases o.bases.toList sec).map Basis.numFunctions :=
    keep_eq_freeBases o.bases.toList sec idx hnone
  set s : Obj K := { bases := (freeBases o.bases.toList sec).toArray, cps := sliceSec o.cps idx,
                     rational := o.rational } with hsdef
  have hcounts : s.counts = keep o.counts idx := by
    rw [hkeep]; simp [hsdef, Obj.counts]
  have hshape : s.cps.shape = s.counts ++ [o.ncomp] := by rw [hcounts]; exact hnet.shape
  have hnc : s.ncomp = o.ncomp := ncomp_of_shape hshape
  have hdim : s.dimension = o.dimension := by
    unfold Obj.dimension; rw [hnc]
  have hspec : s.ncompSpec = o.ncomp := by
    unfold Obj.ncompSpec; rw [hdim]; exact h.ncomp_eq.symm
  apply WellFormed.of_weightsPos
  · rw [pardim_of_shape hshape, counts_length]
  · rw [hspec]; exact hshape
  · exact hnet.size
  · rw [hdim]; exact h.dim_pos
  · intro d hd
    have hd' : d < (freeBases o.bases.toList sec).length := by simpa [hsdef] using hd
    have hmem : s.basis d ∈ freeBases o.bases.toList sec := by
      rw [basis_eq_getElem s d hd]
      simp [hsdef]
    have hmem' : s.basis d ∈ o.bases.toList := mem_freeBases hmem
    obtain ⟨i, hi, hi'⟩ := List.getElem_of_mem hmem'
    have hi2 : i < o.bases.size := by simpa using hi
    rw [← hi', Array.getElem_toList, ← basis_eq_getElem o i hi2]
    exact h.valid i hi2
  · intro hr
    rw [hnc, hdim]
    exact hnet.pos hr

end Obj

namespace History

open Sections

variable [FloorRing K]

theorem checkSection_nil (pardim : ℕ) (args : Sec) :
    checkSection pardim args [] = .ok (args ++ List.replicate (pardim - args.length) none) := rfl

/-- **The `section` call of a history** leaves the receiver alone and creates at most one object, which
    is well formed. -/
theorem stepOut_section_wf {o : Obj K} (h : o.WellFormed) (tol : K) (sec : Sec) {out : Out K}
    (hs : stepOut tol o (.section sec) = .ok out) : out.recv.WellFormed ∧ ∀ n ∈ out.news, n.WellFormed := by
  simp only [stepOut] at hs
  split_ifs at hs with hgt
  unfold Obj.section at hs
  rw [checkSection_nil] at hs
  set sec' : Sec := sec ++ List.replicate (o.pardim - sec.length) none with hsec'
  have hlen : sec'.length = o.bases.size := by
    rw [h.bases_size, hsec']; simp; omega
  change Except.map _ (o.sectionSel sec' true) = _ at hs
  cases hr : o.sectionSel sec' true with
  | error e => rw [hr] at hs; cases hs
  | ok r =>
    rw [hr] at hs
    cases r with
    | obj cls s =>
      have hwf := Obj.sectionSel_wf h sec' hlen true hr
      injection hs with hs
      subst hs
      exact ⟨h, by intro n hn; simp at hn; subst hn; exact hwf⟩
    | point a =>
      injection hs with hs
      subst hs
      exact ⟨h, by intro n hn; simp at hn⟩

end History

end Splipy
