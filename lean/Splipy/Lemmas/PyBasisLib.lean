import Splipy.Model.BasisOps

/-!
# Models of the Python / numpy primitives used by the translated `BSplineBasis` methods

`harness/translate/basis_translate.py` compiles the bodies of the methods of `splipy/basis.py::
BSplineBasis` statement by statement into Lean definitions (`Splipy/Generated/PyBasis.lean`, rewritten
on every check) over the functions below.  Nothing here is taken from the hand-written model except
the binary searches (`bisectLeft` / `bisectRight` of `Model/Basis.lean`, literal mirrors of
`bisect.bisect_left/right`), the float remainder `pmod` and, for `integrate`, the evaluator
`Basis.evaluate` (the compiled extension `basis_eval`, subject of property C01).

Interface assumptions of the translation (what "the same function" means):
* Python `int` is `Int`; `float` / `numpy.float64` are the field `K` (exact arithmetic: rounding,
  `inf` and `nan` do not exist — numpy division and `%` by zero are the total field operations
  `x / 0 = 0`, `pmod x 0 = x`, as everywhere in the hand model).  Division and `%` of *Python*
  scalars (`float(..) / (p - 1)`, `i % n` on ints) raise `ZeroDivisionError` as Python does.
* numpy arrays and Python lists of numbers are `Array K`; indexing follows Python's rules
  (negative indices count from the end, `IndexError` out of range), slices clamp and never raise.
* `state.knot_tolerance` is the explicit parameter `tol`.
* exceptions are `Except PyErr`.
-/

namespace Splipy.PyB

variable {K : Type} [Field K] [LinearOrder K]

/-- The attributes of a `BSplineBasis` instance (Python ints are `Int`). -/
structure Self (K : Type) where
  knots : Array K
  order : Int
  periodic : Int

/-- The instance a hand-model `Basis` stands for. -/
def ofBasis (b : Basis K) : Self K := ⟨b.knots, b.order, b.periodic⟩

/-- The hand-model `Basis` of an instance (`order` truncated at 0; only used for instances the
    constructor accepted, which have `order ≥ 1`). -/
def Self.toBasis (s : Self K) : Basis K := ⟨s.order.toNat, s.knots, s.periodic⟩

/-- `np.inf`-or-int results (`continuity`). -/
inductive Ext where
  | fin (i : Int)
  | inf
  | ninf
  deriving DecidableEq, Repr, Inhabited

/-- `a - e` for an int `a` and an int-or-±inf `e`. -/
def Ext.rsub (a : Int) : Ext → Ext
  | .fin i => .fin (a - i)
  | .inf => .ninf
  | .ninf => .inf

/-- `max(e, a)` for an int `a` (`max(-inf, 1) = 1`, `max(inf, 1) = inf`). -/
def Ext.maxInt : Ext → Int → Ext
  | .fin i, a => .fin (max i a)
  | .inf, _ => .inf
  | .ninf, a => .fin a

/-- Use of an int-or-inf as a repetition count (`[k] * m`): `inf` is a float ⇒ `TypeError`. -/
def Ext.toCount : Ext → PyM Int
  | .fin i => .ok i
  | _ => .error .type

/-! ## sequences -/

/-- `len(xs)`. -/
def len {α : Type} (xs : Array α) : Int := xs.size

/-- `xs[i]`: Python index rules, `IndexError` out of range. -/
def getItem (xs : Array K) (i : Int) : PyM K :=
  if 0 ≤ i then (if i < xs.size then .ok (xs.getD i.toNat 0) else .error .index)
  else (if 0 ≤ i + xs.size then .ok (xs.getD (i + xs.size).toNat 0) else .error .index)

/-- `xs[i] = v`. -/
def setItem (xs : Array K) (i : Int) (v : K) : PyM (Array K) :=
  if 0 ≤ i then (if i < xs.size then .ok (xs.set! i.toNat v) else .error .index)
  else (if 0 ≤ i + xs.size then .ok (xs.set! (i + xs.size).toNat v) else .error .index)

/-- Start/stop of a slice `xs[lo:hi]` as natural numbers (negative bounds count from the end, then
    everything is clamped to `[0, len]`; `None` = omitted bound). -/
def sliceLo (n : ℕ) : Option Int → ℕ
  | none => 0
  | some i => if i < 0 then (i + n).toNat else min i.toNat n

def sliceHi (n : ℕ) : Option Int → ℕ
  | none => n
  | some i => if i < 0 then (i + n).toNat else min i.toNat n

/-- `xs[lo:hi]` (never raises). -/
def slice {α : Type} (xs : Array α) (lo hi : Option Int) : Array α :=
  xs.extract (sliceLo xs.size lo) (sliceHi xs.size hi)

/-- `xs[lo:hi] = v` on a numpy array: the lengths must agree (a one-element right-hand side is
    broadcast); `ValueError` otherwise. -/
def sliceAssign (xs : Array K) (lo hi : Option Int) (v : Array K) : PyM (Array K) :=
  let a := sliceLo xs.size lo
  let b := max a (sliceHi xs.size hi)
  if v.size = b - a then .ok (xs.extract 0 a ++ v ++ xs.extract b xs.size)
  else if v.size = 1 then .ok (xs.extract 0 a ++ Array.replicate (b - a) (v.getD 0 0) ++ xs.extract b xs.size)
  else .error .value

/-- `xs[::-1]`. -/
def reversed {α : Type} (xs : Array α) : Array α := xs.reverse

/-- `[v, …] * n` (empty for `n ≤ 0`). -/
def listMul {α : Type} (xs : Array α) (n : Int) : Array α :=
  ((List.replicate n.toNat xs.toList).flatten).toArray

/-- `xs + ys` on lists, `np.hstack` on arrays. -/
def listAdd {α : Type} (xs ys : Array α) : Array α := xs ++ ys

/-- `xs.append(v)`. -/
def append {α : Type} (xs : Array α) (v : α) : Array α := xs.push v

/-- `xs.sort()` on a list of floats. -/
def sorted (xs : Array K) : Array K := (xs.toList.mergeSort (fun a c => decide (a ≤ c))).toArray

/-- `[x for sub in xss for x in sub]`. -/
def flatten {α : Type} (xss : Array (Array α)) : Array α := xss.flatten

/-- `np.insert(xs, i, v)` (`IndexError` when `i` is out of bounds). -/
def npInsert (xs : Array K) (i : Int) (v : K) : PyM (Array K) :=
  if 0 ≤ i then (if i ≤ xs.size then .ok (Basis.insertAt xs i.toNat v) else .error .index)
  else (if 0 ≤ i + xs.size then .ok (Basis.insertAt xs (i + xs.size).toNat v) else .error .index)

/-- `np.maximum.accumulate(xs)` (running maximum; `Basis.cummax` of `Model/BasisOps.lean`). -/
abbrev npMaxAccumulate (xs : Array K) : Array K := Basis.cummax xs

/-- `np.sum(xs)`. -/
def npSum (xs : Array K) : K := xs.foldl (· + ·) 0

/-- `bisect.bisect_left(xs, v)` — the model's literal binary search on the whole sequence. -/
def bisect_left (xs : Array K) (v : K) : Int := (bisectLeft (fun i => xs.getD i 0) v xs.size : ℕ)

/-- `bisect.bisect_right(xs, v)`. -/
def bisect_right (xs : Array K) (v : K) : Int := (bisectRight (fun i => xs.getD i 0) v xs.size : ℕ)

/-! ## numpy arithmetic (broadcast of a scalar over an array; element-wise on equal shapes) -/

def arrAddS (xs : Array K) (a : K) : Array K := xs.map (fun x => x + a)
def arrSubS (xs : Array K) (a : K) : Array K := xs.map (fun x => x - a)
def arrMulS (xs : Array K) (a : K) : Array K := xs.map (fun x => x * a)
def arrDivS (xs : Array K) (a : K) : Array K := xs.map (fun x => x / a)
/-- `a - xs`. -/
def arrRSubS (a : K) (xs : Array K) : Array K := xs.map (fun x => a - x)

/-- `xs - ys` on arrays: equal lengths (or a one-element operand, broadcast); `ValueError`
    otherwise. -/
def arrSub (xs ys : Array K) : PyM (Array K) :=
  if xs.size = ys.size then .ok (Array.ofFn (n := xs.size) (fun i => xs.getD i.val 0 - ys.getD i.val 0))
  else if ys.size = 1 then .ok (xs.map (fun x => x - ys.getD 0 0))
  else if xs.size = 1 then .ok (ys.map (fun y => xs.getD 0 0 - y))
  else .error .value

/-- numpy's default relative tolerance of `np.allclose`. -/
def allcloseRtol : K := 1 / 100000

/-- `np.allclose(xs, ys, atol=atol)`: `|x - y| ≤ atol + rtol·|y|` element-wise (default `rtol = 1e-5`);
    equal lengths or a one-element operand (broadcast), `ValueError` otherwise. -/
def npAllclose (xs ys : Array K) (atol : K) : PyM Bool :=
  let close (x y : K) : Bool := decide (|x - y| ≤ atol + allcloseRtol * |y|)
  if xs.size = ys.size then .ok ((List.range xs.size).all (fun i => close (xs.getD i 0) (ys.getD i 0)))
  else if ys.size = 1 then .ok (xs.all (fun x => close x (ys.getD 0 0)))
  else if xs.size = 1 then .ok (ys.all (fun y => close (xs.getD 0 0) y))
  else .error .value

/-- `np.zeros((r, c))` (`ValueError` for negative dimensions). -/
def npZeros2 (r c : Int) : PyM (Mat K) :=
  if r < 0 ∨ c < 0 then .error .value else .ok (Array.replicate r.toNat (Array.replicate c.toNat 0))

/-- `C[r, c] = v` on a 2-d array. -/
def setItem2 (C : Mat K) (r c : Int) (v : K) : PyM (Mat K) :=
  let nr : Int := C.size
  let r' := if r < 0 then r + nr else r
  if 0 ≤ r' ∧ r' < nr then
    let nc : Int := (C.getD r'.toNat #[]).size
    let c' := if c < 0 then c + nc else c
    if 0 ≤ c' ∧ c' < nc then .ok (C.modify r'.toNat (fun row => row.set! c'.toNat v))
    else .error .index
  else .error .index

/-- `np.tile(np.identity(n), (R, 1))`: `R` copies of the `n × n` identity stacked vertically
    (`ValueError` for a negative dimension / repetition count). -/
def npTileIdentity (n R : Int) : PyM (Mat K) :=
  if n < 0 ∨ R < 0 then .error .value else .ok (Basis.tileIdentity n.toNat R.toNat)

/-- `A @ B` for 2-d arrays (`ValueError` when the inner dimensions differ). -/
def npMatmul (A B : Mat K) : PyM (Mat K) :=
  if 0 < A.size ∧ (A.getD 0 #[]).size ≠ B.size then .error .value else .ok (Mat.mul A B)

/-! ## scalars -/

/-- `a // n` on Python ints (floor division; `ZeroDivisionError` for `n = 0`). -/
def pyFloorDivI (a n : Int) : PyM Int := if n = 0 then .error .zeroDiv else .ok (Int.fdiv a n)

/-- `x / d` for a Python float `x` and a Python int `d`: `ZeroDivisionError` for `d = 0`. -/
def pyDivI (x : K) (d : Int) : PyM K := if d = 0 then .error .zeroDiv else .ok (x / (d : K))

/-- `x / y` for Python floats. -/
def pyDiv (x y : K) : PyM K := if y = 0 then .error .zeroDiv else .ok (x / y)

/-- `a % n` on Python ints (sign of the divisor; `ZeroDivisionError` for `n = 0`). -/
def pyModI (a n : Int) : PyM Int := if n = 0 then .error .zeroDiv else .ok (Int.fmod a n)

/-! ## loops -/

/-- The values of `range(lo, hi)`. -/
def rangeI (lo hi : Int) : List Int := (List.range (hi - lo).toNat).map (fun (k : ℕ) => lo + (k : Int))

/-- `for i in range(lo, hi): body` with the assigned variables threaded as the state `σ`. -/
def forRange {σ : Type} (lo hi : Int) (init : σ) (body : Int → σ → PyM σ) : PyM σ :=
  (rangeI lo hi).foldlM (fun s i => body i s) init

/-- `for x in xs: body`. -/
def forEach {α σ : Type} (xs : Array α) (init : σ) (body : α → σ → PyM σ) : PyM σ :=
  xs.toList.foldlM (fun s x => body x s) init

/-- `[f(x) for x in xs]` with a body that may raise. -/
def listComp {α β : Type} (xs : Array α) (f : α → PyM β) : PyM (Array β) :=
  forEach xs #[] (fun x acc => do let y ← f x; pure (acc.push y))

/-- `[f(i) for i in range(lo, hi)]`. -/
def listCompRange {β : Type} (lo hi : Int) (f : Int → PyM β) : PyM (Array β) :=
  forRange lo hi #[] (fun i acc => do let y ← f i; pure (acc.push y))

/-! ## the compiled evaluator (external to `basis.py`) -/

/-- `np.array(basis.evaluate(t)).flatten()` for a scalar `t` (default `d=0, from_right=True`):
    the hand model of `basis_eval.evaluate` (property C01 ties it to the extension). -/
def evaluateRow [FloorRing K] (s : Self K) (tol t : K) : Array K := s.toBasis.evaluate tol t 0 true

end Splipy.PyB
