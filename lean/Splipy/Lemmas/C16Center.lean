import Splipy.Lemmas.C16Integral
import Mathlib.Algebra.BigOperators.Ring.Finset
import Mathlib.Algebra.BigOperators.Field
import Mathlib.Algebra.Polynomial.Degree.Lemmas
import Mathlib.Tactic.FieldSimp

/-!
# C16: `center` is a normalised linear functional of the control points

`SplineObject.center()` returns `Σ_i ω_i c_i / |Ω|` where `i` runs over the (multi-)indices of the
control net, `ω_i` is the product of the basis-function integrals of the directions and `|Ω|` the
parametric size; rational objects: the same sums on the homogeneous control points, then division
by the last (weight) component.  Physical dimension `d` arbitrary; `p ↦ p A + x` is the affine map
in the row-vector convention of the code (`cp @ A`, then `+ x`, the translation being multiplied
by the weight for rational objects, as `SplineObject.translate/rotate/scale/mirror` do).
-/

namespace Splipy

variable {K : Type} [Field K]

/-- `p A` for a row vector `p` of length `d`. -/
def vecMulD {d : ℕ} (p : Fin d → K) (A : Fin d → Fin d → K) : Fin d → K :=
  fun k => ∑ l, p l * A l k

/-- `center()` of a non-rational object with integral weights `ω` and parametric size `size`. -/
def centerOf {ι : Type} {d : ℕ} (s : Finset ι) (ω : ι → K) (size : K) (c : ι → Fin d → K) :
    Fin d → K :=
  fun k => (∑ i ∈ s, ω i * c i k) / size

/-- `center()` of a rational object: homogeneous control points `(c i, wt i)`; the division by
`size` cancels in the projection. -/
def centerRat {ι : Type} {d : ℕ} (s : Finset ι) (ω : ι → K) (size : K) (c : ι → Fin d → K)
    (wt : ι → K) : Fin d → K :=
  fun k => ((∑ i ∈ s, ω i * c i k) / size) / ((∑ i ∈ s, ω i * wt i) / size)

/-- `Σ_i ω_i (c_i A) = (Σ_i ω_i c_i) A`. -/
theorem sum_vecMulD {ι : Type} {d : ℕ} (s : Finset ι) (ω : ι → K) (c : ι → Fin d → K)
    (A : Fin d → Fin d → K) (k : Fin d) :
    ∑ i ∈ s, ω i * vecMulD (c i) A k = vecMulD (fun l => ∑ i ∈ s, ω i * c i l) A k := by
  simp only [vecMulD, Finset.mul_sum, Finset.sum_mul]
  rw [Finset.sum_comm]
  apply Finset.sum_congr rfl
  intro l _
  apply Finset.sum_congr rfl
  intro i _
  ring

/-- **Equivariance, non-rational**: if the weights add up to the parametric size (they do:
`sum_intF_sub`), `center` commutes with every affine map of the control points. -/
theorem centerOf_affine {ι : Type} {d : ℕ} (s : Finset ι) (ω : ι → K) (size : K)
    (hsum : ∑ i ∈ s, ω i = size) (hsize : size ≠ 0) (c : ι → Fin d → K)
    (A : Fin d → Fin d → K) (x : Fin d → K) :
    centerOf s ω size (fun i k => vecMulD (c i) A k + x k)
      = fun k => vecMulD (centerOf s ω size c) A k + x k := by
  funext k
  simp only [centerOf]
  have h1 : ∑ i ∈ s, ω i * (vecMulD (c i) A k + x k)
      = vecMulD (fun l => ∑ i ∈ s, ω i * c i l) A k + size * x k := by
    simp only [mul_add, Finset.sum_add_distrib, ← Finset.sum_mul, hsum]
    rw [sum_vecMulD]
  rw [h1]
  have h2 : vecMulD (fun l => (∑ i ∈ s, ω i * c i l) / size) A k
      = vecMulD (fun l => ∑ i ∈ s, ω i * c i l) A k / size := by
    simp only [vecMulD]
    rw [Finset.sum_div Finset.univ (fun l => (∑ i ∈ s, ω i * c i l) * A l k)]
    apply Finset.sum_congr rfl
    intro l _
    ring
  have hc : centerOf s ω size c = fun l => (∑ i ∈ s, ω i * c i l) / size := rfl
  rw [hc, h2]
  field_simp

/-- **Equivariance, rational**: the projective centre commutes with every affine map (acting on
homogeneous control points as `(c, w) ↦ (c A + w x, w)`); no hypothesis on the weights `ω` other
than a non-vanishing denominator. -/
theorem centerRat_affine {ι : Type} {d : ℕ} (s : Finset ι) (ω : ι → K) (size : K)
    (hsize : size ≠ 0) (c : ι → Fin d → K) (wt : ι → K) (hW : ∑ i ∈ s, ω i * wt i ≠ 0)
    (A : Fin d → Fin d → K) (x : Fin d → K) :
    centerRat s ω size (fun i k => vecMulD (c i) A k + wt i * x k) wt
      = fun k => vecMulD (centerRat s ω size c wt) A k + x k := by
  funext k
  simp only [centerRat]
  have h1 : ∑ i ∈ s, ω i * (vecMulD (c i) A k + wt i * x k)
      = vecMulD (fun l => ∑ i ∈ s, ω i * c i l) A k + (∑ i ∈ s, ω i * wt i) * x k := by
    simp only [mul_add, Finset.sum_add_distrib, ← mul_assoc, ← Finset.sum_mul]
    rw [sum_vecMulD]
  rw [h1]
  have h2 : vecMulD (fun l => (∑ i ∈ s, ω i * c i l) / size / ((∑ i ∈ s, ω i * wt i) / size)) A k
      = vecMulD (fun l => ∑ i ∈ s, ω i * c i l) A k / (∑ i ∈ s, ω i * wt i) := by
    simp only [vecMulD]
    rw [Finset.sum_div Finset.univ (fun l => (∑ i ∈ s, ω i * c i l) * A l k)]
    apply Finset.sum_congr rfl
    intro l _
    field_simp
  have hc : centerRat s ω size c wt
      = fun l => (∑ i ∈ s, ω i * c i l) / size / ((∑ i ∈ s, ω i * wt i) / size) := rfl
  rw [hc, h2]
  field_simp

/-- Tensor-product weights: the sum of the products is the product of the sums (so the weights of
a surface/volume add up to the parametric area/volume when each direction's do). -/
theorem sum_product_weights {ι κ : Type} (s : Finset ι) (t : Finset κ) (ω : ι → K) (η : κ → K) :
    ∑ p ∈ s ×ˢ t, ω p.1 * η p.2 = (∑ i ∈ s, ω i) * (∑ j ∈ t, η j) := by
  rw [Finset.sum_product, Finset.sum_mul_sum]

/-! ## The centre numerator is the antiderivative difference of the spline itself -/

open Polynomial

variable [LinearOrder K] [IsStrictOrderedRing K]

/-- On every non-empty span, `Σ_i c_i · intFpoly_i` (what `center`/`integrate` evaluate) is an
antiderivative of the polynomial piece `Σ_i c_i · Bpoly_i` of the spline with coefficients `c`. -/
theorem derivative_sum_intFpoly (τ : ℕ → K) (hτ : Monotone τ) (μ : ℕ) (hμ : τ μ < τ (μ+1)) (q : ℕ)
    (s : Finset ℕ) (c : ℕ → K) :
    derivative (∑ i ∈ s, C (c i) * intFpoly τ μ q i) = ∑ i ∈ s, C (c i) * Bpoly τ μ q i := by
  rw [derivative_sum]
  apply Finset.sum_congr rfl
  intro i _
  rw [derivative_C_mul, derivative_intFpoly τ hτ μ hμ q i]

omit [LinearOrder K] [IsStrictOrderedRing K] in
/-- The polynomial pieces of degree-`q` B-splines have degree `≤ q`. -/
theorem natDegree_Bpoly_le (τ : ℕ → K) (μ q i : ℕ) : (Bpoly τ μ q i).natDegree ≤ q := by
  induction q generalizing i with
  | zero =>
    rw [Bpoly_zero]
    split_ifs <;> simp
  | succ q ih =>
    rw [Bpoly_succ]
    apply natDegree_add_le_of_degree_le
    · have h1 : ((X - C (τ i)) * C ((τ (i+q+1) - τ i)⁻¹)).natDegree ≤ 1 :=
        le_trans (natDegree_mul_C_le _ _) (natDegree_X_sub_C_le _)
      have := natDegree_mul_le_of_le h1 (ih i)
      omega
    · have h0 : (C (τ (i+q+2)) - X : K[X]).natDegree ≤ 1 :=
        le_trans (natDegree_sub_le _ _) (by simp)
      have h1 : ((C (τ (i+q+2)) - X) * C ((τ (i+q+2) - τ (i+1))⁻¹)).natDegree ≤ 1 :=
        le_trans (natDegree_mul_C_le _ _) h0
      have := natDegree_mul_le_of_le h1 (ih (i+1))
      omega

end Splipy
