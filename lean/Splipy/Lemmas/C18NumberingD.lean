import Splipy.Lemmas.C18NumberingC

/-!
# C18 — correctness of the numbering under the star hypothesis
-/

set_option linter.unusedSectionVars false

namespace Splipy.MP.C18L

variable {γ : Type} [Inhabited γ]

/-! ## the arrays of the first loop, patch by patch -/

theorem generateAll_getElem? : ∀ (plans : List PatchPlan) (s k : ℕ) (p : PatchPlan), plans[k]? = some p →
    ∃ c, (generateAll plans s).1[k]? = some (genOne c p).1
  | [], _, _, _, h => by simp at h
  | p0 :: ps, s, 0, p, h => by
    simp only [List.getElem?_cons_zero, Option.some.injEq] at h
    subst h
    exact ⟨s, by simp [generateAll]⟩
  | p0 :: ps, s, k + 1, p, h => by
    simp only [List.getElem?_cons_succ] at h
    obtain ⟨c, hc⟩ := generateAll_getElem? ps (genOne s p0).2 k p h
    exact ⟨c, by simpa [generateAll] using hc⟩

theorem genOne_shape (c : ℕ) (p : PatchPlan) : (genOne c p).1.shape = p.shape := by
  rw [(genOne_data c p).2.2, (flagArray_spec p).1]

theorem genOne_size (c : ℕ) (p : PatchPlan) : (genOne c p).1.data.size = shapeSize p.shape := by
  have := (genOne_data c p).1
  have h2 : (genOne c p).1.data.size = (genOne c p).1.data.toList.length := by simp
  rw [h2, this, fillFresh_length]
  simpa using flagArray_size p

/-- unflagged positions carry a fresh number, flagged ones `-1` -/
theorem genOne_getD (c : ℕ) (p : PatchPlan) (q : ℕ) (hq : q < shapeSize p.shape) :
    (Flagged p q → (genOne c p).1.data.getD q default = -1) ∧
    (¬ Flagged p q → (genOne c p).1.data.getD q default ≠ -1) := by
  have hdata := (genOne_data c p).1
  have hflag := (flagArray_spec p).2 q hq
  have hsz := flagArray_size p
  have key : ((genOne c p).1.data.toList[q]? = some (-1) ↔ (flagArray p).data.toList[q]? = some (-1)) := by
    rw [hdata]; exact fillFresh_getElem? _ _ _
  have hq1 : q < (genOne c p).1.data.size := by rw [genOne_size]; exact hq
  have hq2 : q < (flagArray p).data.size := by rw [hsz]; exact hq
  have e1 : (genOne c p).1.data.getD q default = (genOne c p).1.data[q] := by
    simp [Array.getD, hq1]
  have e2 : (flagArray p).data.getD q default = (flagArray p).data[q] := by
    simp [Array.getD, hq2]
  simp only [Array.getElem?_toList, Array.getElem?_eq_getElem hq1, Array.getElem?_eq_getElem hq2,
    Option.some.injEq] at key
  rw [e1]
  rw [e2] at hflag
  constructor
  · intro hf; exact key.2 (hflag.1 hf)
  · intro hf h1
    have := key.1 h1
    rw [hflag.2 hf] at this
    exact absurd this (by decide)

end Splipy.MP.C18L

namespace Splipy.MP.C18L

variable {γ : Type} [Inhabited γ]

/-! ## the run on pairs -/

theorem compat_getElem? {ns : List (NdArr ℤ)} {ps : List (NdArr γ)} (h : Compat ns ps) :
    ∀ (k : ℕ) (n : NdArr ℤ), ns[k]? = some n →
      ∃ p : NdArr γ, ps[k]? = some p ∧ n.shape = p.shape ∧ n.data.size = p.data.size := by
  unfold Compat at h
  induction h with
  | nil => intro k n hk; simp at hk
  | cons hab _ ih =>
    intro k n hk
    cases k with
    | zero =>
      simp only [List.getElem?_cons_zero, Option.some.injEq] at hk
      subst hk
      exact ⟨_, by simp, hab⟩
    | succ k =>
      simp only [List.getElem?_cons_succ] at hk ⊢
      exact ih k n hk

theorem paired_run (plans : List PatchPlan) (P : List (NdArr γ))
    (hcompat : Compat (generateAll plans 0).1 P)
    (hG1 : readAllG plans P.toArray = .ok P.toArray)
    (N : Array (NdArr ℤ)) (ncps : ℕ) (hnum : numberPlans plans = .ok (N, ncps)) :
    ∃ Z : Array (NdArr (ℤ × γ)),
      readAllG plans (List.zipWith zipNd (generateAll plans 0).1 P).toArray = .ok Z ∧
      Z.map (NdArr.map Prod.fst) = N ∧ Z.map (NdArr.map Prod.snd) = P.toArray := by
  obtain ⟨hread, -⟩ := numberPlans_ok hnum
  set Z0 := List.zipWith zipNd (generateAll plans 0).1 P with hZ0
  have hf : Z0.toArray.map (NdArr.map Prod.fst) = (generateAll plans 0).1.toArray := by
    rw [List.map_toArray, zip_fst hcompat]
  have hs : Z0.toArray.map (NdArr.map Prod.snd) = P.toArray := by
    rw [List.map_toArray, zip_snd hcompat]
  have nat1 := readAllG_map (Prod.fst : ℤ × γ → ℤ) rfl plans Z0.toArray
  have nat2 := readAllG_map (Prod.snd : ℤ × γ → γ) rfl plans Z0.toArray
  rw [hf, hread] at nat1
  rw [hs, hG1] at nat2
  cases hZ : readAllG plans Z0.toArray with
  | error e => rw [hZ] at nat1; cases nat1
  | ok Z =>
    rw [hZ] at nat1 nat2
    simp only [Except.map, Except.ok.injEq] at nat1 nat2
    exact ⟨Z, rfl, nat1.symm, nat2.symm⟩

theorem data_getD_map {α β : Type} [Inhabited α] [Inhabited β] (f : α → β) (hf : f default = default)
    (a : NdArr α) (q : ℕ) : (a.map f).data.getD q default = f (a.data.getD q default) := by
  simp only [NdArr.map, Array.getD_eq_getD_getElem?, Array.getElem?_map]
  cases a.data[q]? with
  | none => simpa using hf.symm
  | some v => rfl

theorem numAt_of_pairs (Z : Array (NdArr (ℤ × γ))) (N : Array (NdArr ℤ)) (h : Z.map (NdArr.map Prod.fst) = N) (k q : ℕ) :
    numAt N k q = ((Z.getD k default).data.getD q default).1 := by
  unfold numAt
  rw [← h, getD_map_arrays Prod.fst rfl, data_getD_map Prod.fst rfl]

theorem ptAt_of_pairs (Z : Array (NdArr (ℤ × γ))) (P : List (NdArr γ)) (h : Z.map (NdArr.map Prod.snd) = P.toArray) (k q : ℕ) :
    ptAt P k q = ((Z.getD k default).data.getD q default).2 := by
  unfold ptAt
  rw [← h, getD_map_arrays Prod.snd rfl, data_getD_map Prod.snd rfl]

/-- the start arrays of the run on pairs, position by position -/
theorem Z0_spec (plans : List PatchPlan) (P : List (NdArr γ)) (hcompat : Compat (generateAll plans 0).1 P)
    (k : ℕ) (p : PatchPlan) (hp : plans[k]? = some p) :
    ∃ c, (((List.zipWith zipNd (generateAll plans 0).1 P).toArray.getD k default).shape = p.shape ∧
      ((List.zipWith zipNd (generateAll plans 0).1 P).toArray.getD k default).SizeOK ∧
      ∀ q, q < shapeSize p.shape →
        ((List.zipWith zipNd (generateAll plans 0).1 P).toArray.getD k default).data.getD q default =
          ((genOne c p).1.data.getD q default, ptAt P k q)) := by
  obtain ⟨c, hc⟩ := generateAll_getElem? plans 0 k p hp
  obtain ⟨pk, hpk, hsh, hsz⟩ := compat_getElem? hcompat k _ hc
  refine ⟨c, ?_⟩
  have hz : (List.zipWith zipNd (generateAll plans 0).1 P).toArray.getD k default = zipNd (genOne c p).1 pk := by
    simp [Array.getD_eq_getD_getElem?, List.getElem?_zipWith, hc, hpk]
  rw [hz]
  have hsize : (genOne c p).1.data.size = shapeSize p.shape := genOne_size c p
  refine ⟨by simp [zipNd, genOne_shape], ?_, ?_⟩
  · simp only [NdArr.SizeOK, zipNd, Array.size_zip]
    rw [← hsz, hsize, genOne_shape]
    simp
  · intro q hq
    have hq1 : q < (genOne c p).1.data.size := by omega
    have hq2 : q < pk.data.size := by omega
    have hpt : ptAt P k q = pk.data[q] := by
      simp [ptAt, Array.getD_eq_getD_getElem?, hpk, hq2]
    rw [hpt]
    simp [zipNd, Array.getD_eq_getD_getElem?, hq1, hq2]

end Splipy.MP.C18L
