import Mathlib.Tactic.FinCases
import Mathlib.Tactic.LinearCombination
import Splipy.Lemmas.C09Sem
import Splipy.Lemmas.AffineAlgebra
import Splipy.Lemmas.Basic

/-!
# C09: bridge from the matrices in `Obj.rotate` / `Obj.mirror` to `Model/Affine.lean`, and
tensor-product weights
-/

set_option linter.unusedSectionVars false

namespace Splipy
open C09 Obj

namespace C09
variable {K : Type} [Field K]

/-- First three coordinates of a padded point. -/
def fin3 (p : ℕ → K) : Fin 3 → K := fun k => p k.val

/-- First two coordinates. -/
def fin2 (p : ℕ → K) : Fin 2 → K := fun k => p k.val

/-- Restriction of an `ℕ × ℕ` matrix to `3 × 3`. -/
def mat3 (M : ℕ → ℕ → K) : Fin 3 → Fin 3 → K := fun j i => M j.val i.val

def mat2 (M : ℕ → ℕ → K) : Fin 2 → Fin 2 → K := fun j i => M j.val i.val

/-- `linMat 3 M` is `p ↦ p @ M` on the first three coordinates. -/
theorem linMat3_eq_vecMul (M : ℕ → ℕ → K) (p : ℕ → K) (i : Fin 3) :
    linMat 3 M p i.val = Affine.vecMul (fin3 p) (mat3 M) i := by
  rw [linMat_apply, if_pos i.isLt]
  simp [Affine.vecMul, fin3, mat3, Finset.sum_range_succ]

theorem linMat3_zero_beyond (M : ℕ → ℕ → K) (p : ℕ → K) (i : ℕ) (hi : 3 ≤ i) :
    linMat 3 M p i = 0 := by
  rw [linMat_apply, if_neg (by omega)]

theorem linMat2_eq_vecMul2 (M : ℕ → ℕ → K) (p : ℕ → K) (i : Fin 2) :
    linMat 2 M p i.val = Affine.vecMul2 (fin2 p) (mat2 M) i := by
  rw [linMat_apply, if_pos i.isLt]
  simp [Affine.vecMul2, fin2, mat2, Finset.sum_range_succ]

/-- The 3-D matrix of `Obj.rotate` is `rotation_matrix` of `Model/Affine.lean`. -/
theorem mat3_rot3Mat (ch sh : K) (u : List K) :
    mat3 (rot3Mat ch sh u) = Affine.rotationMatrixAxis ch sh (fun k => u.getD k.val 0) := by
  funext j i
  fin_cases j <;> fin_cases i <;>
    simp [mat3, rot3Mat, Affine.rotationMatrixAxis, Affine.rotationMatrix]

/-- The 2-D matrix of `Obj.rotate` is `[[cos,-sin],[sin,cos]].T`. -/
theorem mat2_rot2Mat (ch sh : K) :
    mat2 (rot2Mat ch sh) = Affine.rotationMatrix2 (ch * ch - sh * sh) (2 * ch * sh) := by
  funext j i
  fin_cases j <;> fin_cases i <;>
    simp [mat2, rot2Mat, Affine.rotationMatrix2, Affine.rot2, Affine.transpose]

/-- The matrix of `Obj.mirror` is `I - 2 n nᵀ`. -/
theorem mat3_mirrorMat (n : List K) :
    mat3 (mirrorMat n) = Affine.mirrorMatrix (fun k => n.getD k.val 0) := by
  funext j i
  fin_cases j <;> fin_cases i <;>
    simp [mat3, mirrorMat, Affine.mirrorMatrix, Affine.identity] <;> ring

/-! ### Tensor-product weights in C-order flat indexing -/

/-- `Σ_{k < n₁ n₂} f(k / n₂) g(k % n₂) = (Σ f)(Σ g)`. -/
theorem sum_range_mul (n1 n2 : ℕ) (f g : ℕ → K) :
    ∑ k ∈ Finset.range (n1 * n2), f (k / n2) * g (k % n2)
      = (∑ i ∈ Finset.range n1, f i) * ∑ j ∈ Finset.range n2, g j := by
  induction n1 with
  | zero => simp
  | succ n1 ih =>
    rw [Nat.succ_mul, Finset.sum_range_add, ih, Finset.sum_range_succ, add_mul]
    congr 1
    rw [Finset.mul_sum]
    apply Finset.sum_congr rfl
    intro j hj
    have hj' := Finset.mem_range.mp hj
    have hpos : 0 < n2 := by omega
    rw [Nat.mul_comm n1 n2, Nat.mul_add_div hpos, Nat.mul_add_mod, Nat.div_eq_of_lt hj',
      Nat.mod_eq_of_lt hj', Nat.add_zero]

/-- Products of one-dimensional partitions of unity are a partition of unity (surface). -/
theorem tensor_weights_sum_one₂ (n1 n2 : ℕ) (f g : ℕ → K)
    (hf : ∑ i ∈ Finset.range n1, f i = 1) (hg : ∑ j ∈ Finset.range n2, g j = 1) :
    ∑ k ∈ Finset.range (n1 * n2), f (k / n2) * g (k % n2) = 1 := by
  rw [sum_range_mul, hf, hg, one_mul]

/-- … and for volumes. -/
theorem tensor_weights_sum_one₃ (n1 n2 n3 : ℕ) (f g e : ℕ → K)
    (hf : ∑ i ∈ Finset.range n1, f i = 1) (hg : ∑ j ∈ Finset.range n2, g j = 1)
    (he : ∑ l ∈ Finset.range n3, e l = 1) :
    ∑ k ∈ Finset.range (n1 * (n2 * n3)),
        f (k / (n2 * n3)) * (g (k % (n2 * n3) / n3) * e (k % (n2 * n3) % n3)) = 1 := by
  rw [sum_range_mul n1 (n2 * n3) f (fun r => g (r / n3) * e (r % n3)), sum_range_mul, hf, hg, he]
  ring

/-! ### A concrete object for the non-vacuity examples -/

/-- Rational line segment in the plane: control points `(2,1; w=2)`, `(-1,3; w=1/2)`
    (premultiplied), order 2, knots `0,0,1,1`. -/
def exCurve : Obj ℚ :=
  { bases := #[{ order := 2, knots := #[0, 0, 1, 1], periodic := -1 }],
    cps := { shape := [2, 3], data := #[2, 1, 2, -1, 3, 1/2] },
    rational := true }

theorem exCurve_WF : exCurve.WF :=
  ⟨by decide, by decide, by decide⟩

theorem exCurve_npts : exCurve.npts = 2 := by decide

end C09
end Splipy
