import Splipy.Lemmas.Basic
import Mathlib.Algebra.BigOperators.Pi
import Mathlib.Algebra.BigOperators.Field
import Mathlib.Tactic.LinearCombination
import Mathlib.Algebra.BigOperators.Fin
import Mathlib.Data.Fintype.BigOperators
import Mathlib.Data.Fintype.Pi
import Mathlib.Logic.Equiv.Fin.Basic

/-!
# C06 — reverse / swap / reparam at the level of the defining sums

## Curves
`wsum s τ q nAll n c d t = Σ_{i < nAll} c (i mod n) · dB s τ q i d t` is the defining sum of a spline
with `nAll` B-splines on the knots `τ` whose coefficients are wrapped modulo `n` (open basis:
`n = nAll`, the wrap is the identity; periodic basis of continuity `k`: `n = nAll - (k+1)`).

## Tensor products
`TP K m` is a tensor-product spline in `m` parametric directions (one homogeneous component of a
`SplineObject`); `TP.evalD` its defining (wrapped) sum with one-sided derivative orders.
`TP.reverse`, `TP.perm` (`swap` = a transposition), `TP.reparam` are the three operations of
property C06 with the control-net correspondence the property requires, and the theorems say that
each is an exact re-parametrisation; `TP.run` composes them.
-/

set_option linter.unusedSectionVars false

namespace Splipy.C06

open Splipy Finset

variable {K : Type} [Field K] [LinearOrder K] [IsStrictOrderedRing K]

/-! ## Index arithmetic -/

/-- `(M - x mod n) mod n = (M - x) mod n` for `x ≤ M`. -/
theorem sub_mod_mod (M x n : ℕ) (h : x ≤ M) : (M - x % n) % n = (M - x) % n := by
  have h1 : x % n ≤ x := Nat.mod_le x n
  have h2 : M - x % n = (M - x) + n * (x / n) := by
    have := Nat.mod_add_div x n
    omega
  rw [h2, Nat.add_mul_mod_self_left]

/-- The control-point correspondence of `reverse` is an involution modulo `n`. -/
theorem rev_idx_invol (M i n : ℕ) (h : i ≤ M) : (M - (M - i) % n) % n = i % n := by
  rw [sub_mod_mod M (M - i) n (Nat.sub_le M i)]
  congr 1; omega

theorem neg_one_pow_mul_self (d : ℕ) : ((-1 : K) ^ d) * ((-1 : K) ^ d) = 1 := by
  rw [← mul_pow]; simp

/-! ## Curves -/

/-- Defining sum of a (possibly periodic) spline curve, `d`-th one-sided derivative. -/
def wsum (s : Side) (τ : ℕ → K) (q nAll n : ℕ) (c : ℕ → K) (d : ℕ) (t : K) : K :=
  ∑ i ∈ range nAll, c (i % n) * dB s τ q i d t

/-- For an open basis (`n = nAll`) the wrapped sum is `splineDeriv`. -/
theorem wsum_open (s : Side) (τ : ℕ → K) (q n : ℕ) (c : ℕ → K) (d : ℕ) (t : K) :
    wsum s τ q n n c d t = splineDeriv s τ q n c d t := by
  unfold wsum splineDeriv
  apply sum_congr rfl
  intro i hi
  rw [Nat.mod_eq_of_lt (mem_range.mp hi)]

theorem splineDeriv_zero (s : Side) (τ : ℕ → K) (q n : ℕ) (c : ℕ → K) (t : K) :
    splineDeriv s τ q n c 0 t = splineVal s τ q n c t := by
  unfold splineDeriv splineVal
  apply sum_congr rfl
  intro i _
  rw [dB_zero]

/-- The reflected knot sequence of `nAll + q + 1` knots about `C/2`. -/
def reflKnots (τ : ℕ → K) (q nAll : ℕ) (C : K) : ℕ → K := fun j => C - τ (nAll + q - j)

/-- **Reflection of a wrapped spline sum.**  If the new coefficients satisfy
`c' (j mod n) = c ((nAll-1-j) mod n)` then the spline on the reflected knots, evaluated at `C - t`
from the other side, is the old spline at `t` (times `(-1)^d` for the `d`-th derivative). -/
theorem wsum_reflect (s : Side) (τ : ℕ → K) (q nAll n : ℕ) (c c' : ℕ → K) (d : ℕ) (C t : K)
    (hc : ∀ j, j < nAll → c' (j % n) = c ((nAll - 1 - j) % n)) :
    wsum s.flip (reflKnots τ q nAll C) q nAll n c' d (C - t) = (-1) ^ d * wsum s τ q nAll n c d t := by
  unfold wsum
  rw [mul_sum, ← sum_range_reflect]
  apply sum_congr rfl
  intro i hi
  have hi' := mem_range.mp hi
  have h1 := dB_reflect_side s τ (nAll + q) q i d C t (by omega)
  have e1 : nAll + q - q - 1 - i = nAll - 1 - i := by omega
  rw [e1] at h1
  have e2 : nAll - 1 - (nAll - 1 - i) = i := by omega
  rw [hc (nAll - 1 - i) (by omega), e2, h1]
  unfold reflKnots
  have h2 := neg_one_pow_mul_self (K := K) d
  generalize dB s.flip (fun j => C - τ (nAll + q - j)) q (nAll - 1 - i) d (C - t) = Y
  linear_combination (-(c (i % n) * Y)) * h2

/-- The coefficient map the property requires of `reverse`: `c'_j = c_{(nAll-1-j) mod n}`
    (open: `c_{n-1-j}`; periodic of continuity `k`: `c_{(n+k-j) mod n}`, flip and roll by `k+1`). -/
def revCoef (nAll n : ℕ) (c : ℕ → K) : ℕ → K := fun j => c ((nAll - 1 - j) % n)

theorem revCoef_spec (nAll n : ℕ) (c : ℕ → K) (j : ℕ) (hj : j < nAll) :
    revCoef nAll n c (j % n) = c ((nAll - 1 - j) % n) := by
  unfold revCoef
  rw [sub_mod_mod (nAll - 1) j n (by omega)]

/-- Affine re-parametrisation of a wrapped spline sum (`ρ > 0`). -/
theorem wsum_affine (s : Side) (τ : ℕ → K) (q nAll n : ℕ) (c : ℕ → K) (d : ℕ) (ρ β t : K) (hρ : 0 < ρ) :
    wsum s (fun j => ρ * τ j + β) q nAll n c d (ρ * t + β) = wsum s τ q nAll n c d t / ρ ^ d := by
  unfold wsum
  rw [Finset.sum_div]
  apply sum_congr rfl
  intro i _
  rw [dB_affine s τ q i d t ρ β hρ, mul_div_assoc]

/-! ## Tensor products -/

/-- A tensor-product spline in `m` directions (one homogeneous component of an object).
    Direction `d` has degree `q d`, `nAll d` B-splines on the knots `τ d 0 … τ d (nAll d + q d)`,
    and `n d` control points (coefficient index of B-spline `i` is `i mod n d`). -/
structure TP (K : Type) (m : ℕ) where
  τ : Fin m → ℕ → K
  q : Fin m → ℕ
  nAll : Fin m → ℕ
  n : Fin m → ℕ
  c : (Fin m → ℕ) → K

namespace TP

variable {m : ℕ}

/-- `start` of direction `d` (`knots[order-1]`). -/
def start (P : TP K m) (d : Fin m) : K := P.τ d (P.q d)
/-- `end` of direction `d` (`knots[-order]`). -/
def stop (P : TP K m) (d : Fin m) : K := P.τ d (P.nAll d)

/-- Defining sum: derivative orders `α`, sides `s`, parameters `u`. -/
def evalD (P : TP K m) (s : Fin m → Side) (α : Fin m → ℕ) (u : Fin m → K) : K :=
  ∑ I ∈ Fintype.piFinset (fun d => range (P.nAll d)),
    P.c (fun d => I d % P.n d) * ∏ d, dB (s d) (P.τ d) (P.q d) (I d) (α d) (u d)

/-- Value (`α = 0`). -/
def eval (P : TP K m) (s : Fin m → Side) (u : Fin m → K) : K := P.evalD s (fun _ => 0) u

/-- Value as a sum of products of `B`. -/
theorem eval_eq (P : TP K m) (s : Fin m → Side) (u : Fin m → K) :
    P.eval s u = ∑ I ∈ Fintype.piFinset (fun d => range (P.nAll d)),
      P.c (fun d => I d % P.n d) * ∏ d, B (s d) (P.τ d) (P.q d) (I d) (u d) := by
  unfold eval evalD
  simp only [dB_zero]

/-- One factor of a finite product differs by a scalar. -/
theorem prod_one_factor (g h : Fin m → K) (d : Fin m) (x : K) (hd : g d = x * h d)
    (hne : ∀ k, k ≠ d → g k = h k) : ∏ k, g k = x * ∏ k, h k := by
  rw [← mul_prod_erase univ g (mem_univ d), ← mul_prod_erase univ h (mem_univ d), hd, mul_assoc,
    prod_congr rfl (fun k hk => hne k (ne_of_mem_erase hk))]

/-! ### reverse -/

/-- `reverse(d)` as the property requires it: knots reflected about `(start+end)/2`, control net
    re-indexed by `j ↦ (nAll-1-j) mod n` in direction `d`. -/
def reverse (P : TP K m) (d : Fin m) : TP K m :=
  { P with
    τ := Function.update P.τ d (reflKnots (P.τ d) (P.q d) (P.nAll d) (P.start d + P.stop d)),
    c := fun J => P.c (Function.update J d ((P.nAll d - 1 - J d) % P.n d)) }

theorem reverse_start (P : TP K m) (d k : Fin m) : (P.reverse d).start k = P.start k := by
  unfold start reverse
  by_cases h : k = d
  · subst h
    simp only [Function.update_self, reflKnots]
    rw [Nat.add_sub_cancel]; unfold start stop; ring
  · simp only [Function.update_of_ne h]

theorem reverse_stop (P : TP K m) (d k : Fin m) : (P.reverse d).stop k = P.stop k := by
  unfold stop reverse
  by_cases h : k = d
  · subst h
    simp only [Function.update_self, reflKnots]
    rw [Nat.add_sub_cancel_left]; unfold start stop; ring
  · simp only [Function.update_of_ne h]

/-- **`reverse` is an exact re-parametrisation**: evaluating the reversed spline at
`start+end-u_d` in direction `d`, from the other side, gives the old spline (derivatives of order
`α_d` in direction `d` change sign `(-1)^{α_d}`). -/
theorem evalD_reverse (P : TP K m) (d : Fin m) (s : Fin m → Side) (α : Fin m → ℕ) (u : Fin m → K) :
    (P.reverse d).evalD (Function.update s d (s d).flip) α
        (Function.update u d (P.start d + P.stop d - u d))
      = (-1) ^ (α d) * P.evalD s α u := by
  unfold evalD
  rw [mul_sum]
  -- re-index the sum by the involution `I ↦ I[d ↦ nAll-1-I d]`
  have hb : ∀ I ∈ Fintype.piFinset (fun k => range (P.nAll k)),
      Function.update I d (P.nAll d - 1 - I d) ∈ Fintype.piFinset (fun k => range (P.nAll k)) := by
    intro I hI
    rw [Fintype.mem_piFinset] at hI ⊢
    intro k
    by_cases h : k = d
    · subst h
      have := mem_range.mp (hI k)
      rw [Function.update_self, mem_range]; omega
    · rw [Function.update_of_ne h]; exact hI k
  have hinv : ∀ I ∈ Fintype.piFinset (fun k => range (P.nAll k)),
      Function.update (Function.update I d (P.nAll d - 1 - I d)) d
        (P.nAll d - 1 - (Function.update I d (P.nAll d - 1 - I d)) d) = I := by
    intro I hI
    rw [Fintype.mem_piFinset] at hI
    have := mem_range.mp (hI d)
    rw [Function.update_self, Function.update_idem]
    have e : P.nAll d - 1 - (P.nAll d - 1 - I d) = I d := by omega
    rw [e, Function.update_eq_self]
  refine sum_bij' (fun I _ => Function.update I d (P.nAll d - 1 - I d))
    (fun I _ => Function.update I d (P.nAll d - 1 - I d)) ?_ ?_ ?_ ?_ ?_
  · intro I hI; exact hb I hI
  · intro I hI; exact hb I hI
  · intro I hI; exact hinv I hI
  · intro I hI; exact hinv I hI
  · intro J hJ
    -- termwise
    rw [Fintype.mem_piFinset] at hJ
    have hJd : J d < P.nAll d := mem_range.mp (hJ d)
    set I := Function.update J d (P.nAll d - 1 - J d) with hIdef
    have hId : I d = P.nAll d - 1 - J d := by rw [hIdef, Function.update_self]
    have hIk : ∀ k, k ≠ d → I k = J k := fun k hk => by rw [hIdef, Function.update_of_ne hk]
    -- coefficients
    have hc : (P.reverse d).c (fun k => J k % (P.reverse d).n k) = P.c (fun k => I k % P.n k) := by
      show P.c (Function.update (fun k => J k % P.n k) d ((P.nAll d - 1 - J d % P.n d) % P.n d))
        = P.c (fun k => I k % P.n k)
      congr 1
      funext k
      by_cases h : k = d
      · subst h
        rw [Function.update_self, hId, sub_mod_mod (P.nAll k - 1) (J k) (P.n k) (by omega)]
      · rw [Function.update_of_ne h, hIk k h]
    rw [hc, ← mul_assoc, mul_comm ((-1 : K) ^ α d), mul_assoc]
    congr 1
    -- products
    apply prod_one_factor _ _ d
    · -- the factor of direction d
      have h1 := dB_reflect_side (s d) (P.τ d) (P.nAll d + P.q d) (P.q d) (I d) (α d)
        (P.start d + P.stop d) (u d) (by rw [hId]; omega)
      have e1 : P.nAll d + P.q d - P.q d - 1 - I d = J d := by rw [hId]; omega
      rw [e1] at h1
      show dB (Function.update s d (s d).flip d) ((P.reverse d).τ d) (P.q d) (J d) (α d)
          (Function.update u d (P.start d + P.stop d - u d) d)
        = (-1) ^ α d * dB (s d) (P.τ d) (P.q d) (I d) (α d) (u d)
      rw [h1, ← mul_assoc, neg_one_pow_mul_self, one_mul, Function.update_self, Function.update_self]
      unfold reverse reflKnots
      simp only [Function.update_self]
    · intro k hk
      show dB (Function.update s d (s d).flip k) ((P.reverse d).τ k) (P.q k) (J k) (α k)
          (Function.update u d (P.start d + P.stop d - u d) k)
        = dB (s k) (P.τ k) (P.q k) (I k) (α k) (u k)
      rw [Function.update_of_ne hk, Function.update_of_ne hk, hIk k hk]
      unfold reverse
      simp only [Function.update_of_ne hk]

/-! ### swap (any permutation of the directions) -/

/-- Permute the parametric directions: new direction `d` is old direction `σ d`; the control net is
    transposed accordingly (`swap(d₁,d₂)` is `σ = Equiv.swap d₁ d₂`). -/
def perm (P : TP K m) (σ : Equiv.Perm (Fin m)) : TP K m :=
  { τ := fun d => P.τ (σ d), q := fun d => P.q (σ d), nAll := fun d => P.nAll (σ d),
    n := fun d => P.n (σ d), c := fun J => P.c (fun k => J (σ.symm k)) }

theorem perm_start (P : TP K m) (σ : Equiv.Perm (Fin m)) (d : Fin m) : (P.perm σ).start d = P.start (σ d) := rfl
theorem perm_stop (P : TP K m) (σ : Equiv.Perm (Fin m)) (d : Fin m) : (P.perm σ).stop d = P.stop (σ d) := rfl

/-- **`swap` is an exact re-labelling**: evaluating with the parameters (sides, derivative orders)
permuted the same way gives the old value. -/
theorem evalD_perm (P : TP K m) (σ : Equiv.Perm (Fin m)) (s : Fin m → Side) (α : Fin m → ℕ) (u : Fin m → K) :
    (P.perm σ).evalD (fun d => s (σ d)) (fun d => α (σ d)) (fun d => u (σ d)) = P.evalD s α u := by
  unfold evalD
  refine sum_bij' (fun J _ => fun k => J (σ.symm k)) (fun I _ => fun d => I (σ d)) ?_ ?_ ?_ ?_ ?_
  · intro J hJ
    rw [Fintype.mem_piFinset] at hJ ⊢
    intro k
    have := hJ (σ.symm k)
    simpa [perm] using this
  · intro I hI
    rw [Fintype.mem_piFinset] at hI ⊢
    intro d
    exact hI (σ d)
  · intro J _; funext d; simp
  · intro I _; funext k; simp
  · intro J _
    have hc : (P.perm σ).c (fun d => J d % (P.perm σ).n d) = P.c (fun k => J (σ.symm k) % P.n k) := by
      show P.c (fun k => J (σ.symm k) % P.n (σ (σ.symm k))) = _
      simp only [Equiv.apply_symm_apply]
    rw [hc]
    congr 1
    rw [← Equiv.prod_comp σ (fun k => dB (s k) (P.τ k) (P.q k) (J (σ.symm k)) (α k) (u k))]
    apply prod_congr rfl
    intro d _
    simp only [Equiv.symm_apply_apply]
    rfl

/-- Swapping twice is the identity (`σ` an involution, e.g. a transposition). -/
theorem perm_perm (P : TP K m) (σ : Equiv.Perm (Fin m)) (hσ : ∀ d, σ (σ d) = d) : (P.perm σ).perm σ = P := by
  have hs : ∀ d, σ.symm d = σ d := fun d => by
    rw [Equiv.symm_apply_eq, hσ]
  cases P
  simp only [perm, hσ, hs]

/-! ### reparam -/

/-- `reparam` of direction `d` to the interval `[s', e']`: knots mapped by
    `x ↦ s' + (x - start)(e' - s')/(end - start)`, control net untouched. -/
def reparam (P : TP K m) (d : Fin m) (s' e' : K) : TP K m :=
  let ρ : K := (e' - s') / (P.stop d - P.start d)
  let σ : ℕ → K := fun j => ρ * P.τ d j + (s' - ρ * P.start d)
  { P with τ := Function.update P.τ d σ }

/-- The parameter map of `reparam`. -/
def reparamMap (P : TP K m) (d : Fin m) (s' e' : K) (t : K) : K :=
  (e' - s') / (P.stop d - P.start d) * t + (s' - (e' - s') / (P.stop d - P.start d) * P.start d)

theorem reparamMap_eq (P : TP K m) (d : Fin m) (s' e' t : K) :
    P.reparamMap d s' e' t = s' + (t - P.start d) * (e' - s') / (P.stop d - P.start d) := by
  unfold reparamMap; ring

theorem reparam_start (P : TP K m) (d : Fin m) (s' e' : K) :
    (P.reparam d s' e').start d = s' := by
  simp only [start, stop, reparam, Function.update_self]
  ring

theorem reparam_stop (P : TP K m) (d : Fin m) (s' e' : K) (h : P.start d ≠ P.stop d) :
    (P.reparam d s' e').stop d = e' := by
  have h' : P.τ d (P.nAll d) - P.τ d (P.q d) ≠ 0 := sub_ne_zero.mpr (Ne.symm h)
  simp only [start, stop, reparam, Function.update_self]
  field_simp
  ring

theorem reparam_start_ne (P : TP K m) (d k : Fin m) (s' e' : K) (h : k ≠ d) :
    (P.reparam d s' e').start k = P.start k := by
  unfold start reparam
  simp only [Function.update_of_ne h]

theorem reparam_stop_ne (P : TP K m) (d k : Fin m) (s' e' : K) (h : k ≠ d) :
    (P.reparam d s' e').stop k = P.stop k := by
  unfold stop reparam
  simp only [Function.update_of_ne h]

/-- **`reparam` is an exact re-parametrisation** (`start < end`, `s' < e'`): at the affinely mapped
parameter the new spline has the old value; the `α_d`-th derivative is divided by `ρ^{α_d}`,
`ρ = (e'-s')/(end-start)`. -/
theorem evalD_reparam (P : TP K m) (d : Fin m) (s' e' : K) (hP : P.start d < P.stop d) (h : s' < e')
    (s : Fin m → Side) (α : Fin m → ℕ) (u : Fin m → K) :
    (P.reparam d s' e').evalD s α (Function.update u d (P.reparamMap d s' e' (u d)))
      = P.evalD s α u / ((e' - s') / (P.stop d - P.start d)) ^ (α d) := by
  have hρ : 0 < (e' - s') / (P.stop d - P.start d) := div_pos (sub_pos.mpr h) (sub_pos.mpr hP)
  unfold evalD
  rw [Finset.sum_div]
  apply sum_congr rfl
  intro I _
  show P.c (fun k => I k % P.n k) * _ = _
  rw [mul_div_assoc]
  congr 1
  rw [div_eq_inv_mul]
  apply prod_one_factor _ _ d
  · show dB (s d) ((P.reparam d s' e').τ d) (P.q d) (I d) (α d)
        (Function.update u d (P.reparamMap d s' e' (u d)) d) = _
    rw [Function.update_self]
    unfold reparam reparamMap
    simp only [Function.update_self]
    rw [dB_affine (s d) (P.τ d) (P.q d) (I d) (α d) (u d) _ _ hρ, div_eq_inv_mul]
  · intro k hk
    show dB (s k) ((P.reparam d s' e').τ k) (P.q k) (I k) (α k)
        (Function.update u d (P.reparamMap d s' e' (u d)) k) = _
    rw [Function.update_of_ne hk]
    unfold reparam
    simp only [Function.update_of_ne hk]

/-! ### Histories -/

/-- Every direction has a non-degenerate domain. -/
def Dom (P : TP K m) : Prop := ∀ d, P.start d < P.stop d

/-- `u` lies in the parametric domain box. -/
def Box (P : TP K m) (u : Fin m → K) : Prop := ∀ d, P.start d ≤ u d ∧ u d ≤ P.stop d

/-- The image of the object: every value taken on the domain box (from any side). -/
def imageSet (P : TP K m) : Set K := {x | ∃ s u, P.Box u ∧ x = P.eval s u}

end TP

/-- One operation of property C06 on an `m`-directional object. -/
inductive TOp (K : Type) (m : ℕ) where
  | reverse (d : Fin m)
  | swap (d₁ d₂ : Fin m)
  | reparam (d : Fin m) (s e : K)

namespace TOp

variable {m : ℕ}

/-- `reparam` needs `end > start`. -/
def WF : TOp K m → Prop
  | .reparam _ s e => s < e
  | _ => True

/-- The parameter map `φ` of the operation (old parameters ↦ new parameters). -/
def paramMap (P : TP K m) : TOp K m → (Fin m → K) → (Fin m → K)
  | .reverse d, u => Function.update u d (P.start d + P.stop d - u d)
  | .swap a b, u => fun d => u (Equiv.swap a b d)
  | .reparam d s e, u => Function.update u d (P.reparamMap d s e (u d))

/-- Its inverse (new parameters ↦ old parameters). -/
def invMap (P : TP K m) : TOp K m → (Fin m → K) → (Fin m → K)
  | .reverse d, v => Function.update v d (P.start d + P.stop d - v d)
  | .swap a b, v => fun d => v (Equiv.swap a b d)
  | .reparam d s e, v => Function.update v d (P.start d + (v d - s) * (P.stop d - P.start d) / (e - s))

/-- The map of evaluation sides (an involution). -/
def sideMap : TOp K m → (Fin m → Side) → (Fin m → Side)
  | .reverse d, s => Function.update s d (s d).flip
  | .swap a b, s => fun d => s (Equiv.swap a b d)
  | .reparam _ _ _, s => s

end TOp

namespace TP

variable {m : ℕ}

/-- Apply one operation. -/
def apply (P : TP K m) : TOp K m → TP K m
  | .reverse d => P.reverse d
  | .swap a b => P.perm (Equiv.swap a b)
  | .reparam d s e => P.reparam d s e

/-- Apply a history, first operation first. -/
def run : List (TOp K m) → TP K m → TP K m
  | [], P => P
  | op :: ops, P => run ops (P.apply op)

/-- Composed parameter map of a history. -/
def paramOps : List (TOp K m) → TP K m → (Fin m → K) → (Fin m → K)
  | [], _, u => u
  | op :: ops, P, u => paramOps ops (P.apply op) (op.paramMap P u)

/-- Composed side map of a history. -/
def sideOps : List (TOp K m) → (Fin m → Side) → (Fin m → Side)
  | [], s => s
  | op :: ops, s => sideOps ops (op.sideMap s)

theorem flip_flip (s : Side) : s.flip.flip = s := by cases s <;> rfl

theorem sideMap_sideMap (op : TOp K m) (s : Fin m → Side) : op.sideMap (op.sideMap s) = s := by
  cases op with
  | reverse d =>
    simp only [TOp.sideMap, Function.update_self, Function.update_idem, flip_flip, Function.update_eq_self]
  | swap a b => funext d; simp [TOp.sideMap]
  | reparam d s e => rfl

/-- One operation: value at the mapped parameter (mapped sides) = old value. -/
theorem eval_apply (P : TP K m) (op : TOp K m) (hP : P.Dom) (hop : op.WF) (s : Fin m → Side) (u : Fin m → K) :
    (P.apply op).eval (op.sideMap s) (op.paramMap P u) = P.eval s u := by
  cases op with
  | reverse d =>
    have := evalD_reverse P d s (fun _ => 0) u
    simpa [eval, apply, TOp.sideMap, TOp.paramMap] using this
  | swap a b =>
    exact evalD_perm P (Equiv.swap a b) s (fun _ => 0) u
  | reparam d s' e' =>
    have := evalD_reparam P d s' e' (hP d) hop s (fun _ => 0) u
    simpa [eval, apply, TOp.sideMap, TOp.paramMap] using this

/-- Domains after one operation are non-degenerate again. -/
theorem dom_apply (P : TP K m) (op : TOp K m) (hP : P.Dom) (hop : op.WF) : (P.apply op).Dom := by
  intro k
  cases op with
  | reverse d => show (P.reverse d).start k < (P.reverse d).stop k; rw [reverse_start, reverse_stop]; exact hP k
  | swap a b => exact hP _
  | reparam d s' e' =>
    show (P.reparam d s' e').start k < (P.reparam d s' e').stop k
    by_cases h : k = d
    · subst h; rw [reparam_start, reparam_stop _ _ _ _ (ne_of_lt (hP k))]; exact hop
    · rw [reparam_start_ne _ _ _ _ _ h, reparam_stop_ne _ _ _ _ _ h]; exact hP k

/-- The parameter map sends the old domain box into the new one. -/
theorem box_apply (P : TP K m) (op : TOp K m) (hP : P.Dom) (hop : op.WF) (u : Fin m → K) (hu : P.Box u) :
    (P.apply op).Box (op.paramMap P u) := by
  intro k
  cases op with
  | reverse d =>
    show (P.reverse d).start k ≤ _ ∧ _ ≤ (P.reverse d).stop k
    rw [reverse_start, reverse_stop]
    by_cases h : k = d
    · subst h
      simp only [TOp.paramMap, Function.update_self]
      have := hu k
      constructor <;> linarith [this.1, this.2]
    · simp only [TOp.paramMap, Function.update_of_ne h]; exact hu k
  | swap a b => exact hu _
  | reparam d s' e' =>
    show (P.reparam d s' e').start k ≤ _ ∧ _ ≤ (P.reparam d s' e').stop k
    by_cases h : k = d
    · subst h
      rw [reparam_start, reparam_stop _ _ _ _ (ne_of_lt (hP k))]
      simp only [TOp.paramMap, Function.update_self, reparamMap_eq]
      have hd : 0 < P.stop k - P.start k := sub_pos.mpr (hP k)
      have hw : 0 < e' - s' := sub_pos.mpr hop
      have h1 : 0 ≤ (u k - P.start k) * (e' - s') / (P.stop k - P.start k) :=
        div_nonneg (mul_nonneg (sub_nonneg.mpr (hu k).1) hw.le) hd.le
      have h2 : (u k - P.start k) * (e' - s') / (P.stop k - P.start k) ≤ e' - s' := by
        rw [div_le_iff₀ hd]
        have := mul_le_mul_of_nonneg_right (sub_le_sub_right (hu k).2 (P.start k)) hw.le
        linarith
      constructor <;> linarith
    · rw [reparam_start_ne _ _ _ _ _ h, reparam_stop_ne _ _ _ _ _ h]
      simp only [TOp.paramMap, Function.update_of_ne h]; exact hu k

/-- The inverse map sends the new box into the old one and inverts the parameter map. -/
theorem box_inv (P : TP K m) (op : TOp K m) (hP : P.Dom) (hop : op.WF) (v : Fin m → K)
    (hv : (P.apply op).Box v) : P.Box (op.invMap P v) ∧ op.paramMap P (op.invMap P v) = v := by
  cases op with
  | reverse d =>
    constructor
    · intro k
      have := hv k
      change (P.reverse d).start k ≤ _ ∧ _ ≤ (P.reverse d).stop k at this
      rw [reverse_start, reverse_stop] at this
      by_cases h : k = d
      · subst h
        simp only [TOp.invMap, Function.update_self]
        constructor <;> linarith [this.1, this.2]
      · simp only [TOp.invMap, Function.update_of_ne h]; exact this
    · simp only [TOp.paramMap, TOp.invMap, Function.update_self, Function.update_idem]
      have : P.start d + P.stop d - (P.start d + P.stop d - v d) = v d := by ring
      rw [this, Function.update_eq_self]
  | swap a b =>
    constructor
    · intro k
      have := hv (Equiv.swap a b k)
      change P.start (Equiv.swap a b (Equiv.swap a b k)) ≤ _ ∧ _ ≤ P.stop (Equiv.swap a b (Equiv.swap a b k)) at this
      rw [Equiv.swap_apply_self] at this
      exact this
    · funext k; simp [TOp.paramMap, TOp.invMap]
  | reparam d s' e' =>
    have hd : 0 < P.stop d - P.start d := sub_pos.mpr (hP d)
    have hw : 0 < e' - s' := sub_pos.mpr hop
    constructor
    · intro k
      have := hv k
      change (P.reparam d s' e').start k ≤ _ ∧ _ ≤ (P.reparam d s' e').stop k at this
      by_cases h : k = d
      · subst h
        rw [reparam_start, reparam_stop _ _ _ _ (ne_of_lt (hP k))] at this
        simp only [TOp.invMap, Function.update_self]
        have h1 : 0 ≤ (v k - s') * (P.stop k - P.start k) / (e' - s') :=
          div_nonneg (mul_nonneg (sub_nonneg.mpr this.1) hd.le) hw.le
        have h2 : (v k - s') * (P.stop k - P.start k) / (e' - s') ≤ P.stop k - P.start k := by
          rw [div_le_iff₀ hw]
          have := mul_le_mul_of_nonneg_right (sub_le_sub_right this.2 s') hd.le
          linarith
        constructor <;> linarith
      · rw [reparam_start_ne _ _ _ _ _ h, reparam_stop_ne _ _ _ _ _ h] at this
        simp only [TOp.invMap, Function.update_of_ne h]; exact this
    · simp only [TOp.paramMap, TOp.invMap, Function.update_self, Function.update_idem, reparamMap_eq]
      have : s' + (P.start d + (v d - s') * (P.stop d - P.start d) / (e' - s') - P.start d) * (e' - s')
          / (P.stop d - P.start d) = v d := by
        field_simp
        ring
      rw [this, Function.update_eq_self]

/-- **No operation changes the image of the object.** -/
theorem image_apply (P : TP K m) (op : TOp K m) (hP : P.Dom) (hop : op.WF) :
    (P.apply op).imageSet = P.imageSet := by
  ext x
  constructor
  · rintro ⟨s', v, hv, rfl⟩
    obtain ⟨hb, hinv⟩ := box_inv P op hP hop v hv
    refine ⟨op.sideMap s', op.invMap P v, hb, ?_⟩
    rw [← eval_apply P op hP hop (op.sideMap s') (op.invMap P v), sideMap_sideMap, hinv]
  · rintro ⟨s, u, hu, rfl⟩
    exact ⟨op.sideMap s, op.paramMap P u, box_apply P op hP hop u hu, (eval_apply P op hP hop s u).symm⟩

/-- **Closure under arbitrary histories**: a history induces a parameter map `φ = paramOps` and a
side map such that `eval(new)(φ u) = eval(old)(u)`; the domains stay non-degenerate, `φ` maps the
old domain box into the new one and the image is unchanged. -/
theorem run_spec (ops : List (TOp K m)) (P : TP K m) (hP : P.Dom) (hops : ∀ op ∈ ops, op.WF) :
    (∀ s u, (run ops P).eval (sideOps ops s) (paramOps ops P u) = P.eval s u)
    ∧ (run ops P).Dom
    ∧ (∀ u, P.Box u → (run ops P).Box (paramOps ops P u))
    ∧ (run ops P).imageSet = P.imageSet := by
  induction ops generalizing P with
  | nil => exact ⟨fun _ _ => rfl, hP, fun _ h => h, rfl⟩
  | cons op ops ih =>
    have hop : op.WF := hops op (List.mem_cons_self ..)
    have hrest : ∀ o ∈ ops, o.WF := fun o ho => hops o (List.mem_cons_of_mem _ ho)
    obtain ⟨h1, h2, h3, h4⟩ := ih (P.apply op) (dom_apply P op hP hop) hrest
    refine ⟨?_, h2, ?_, ?_⟩
    · intro s u
      show (run ops (P.apply op)).eval (sideOps ops (op.sideMap s)) (paramOps ops (P.apply op) (op.paramMap P u)) = _
      rw [h1, eval_apply P op hP hop]
    · intro u hu
      exact h3 _ (box_apply P op hP hop u hu)
    · show (run ops (P.apply op)).imageSet = _
      rw [h4, image_apply P op hP hop]

end TP

end Splipy.C06
