import Splipy.Lemmas.C04CoverMain

/-!
# C04 helper lemmas, part 23: the knots of a periodic basis after insertions (audit item B6)

* `Basis.perMult b v` — the number of knots of one period (the first `n` knots) that are
  congruent to `v` modulo the period `T = end - start`: the multiplicity of `v` in the periodic
  knot set.
* `PerIns b b' w` — on `ℤ`, one period (`n+1` consecutive knots) of `b'` is one period (`n`
  consecutive knots) of `b` with `w` inserted in sorted position.
* `insertKnot_per_step_all` — ANY valid periodic basis (no lower bound on the number of
  functions), any real `x0`: `insert_knot` succeeds, `PerRefines b b' C 1`, `PerIns b b' (wrapVal b x0)`.
* `perIns_perMult` — `PerIns` adds exactly one to the multiplicity of the class of `w`.
-/

namespace Splipy
namespace C04

set_option linter.unusedSectionVars false

open Classical in
/-- number of `j < N` with `f (a + j) ≡ v (mod T)` -/
noncomputable def cntZ {K : Type} [Field K] (f : ℤ → K) (T v : K) (a : ℤ) (N : ℕ) : ℕ :=
  ∑ j ∈ Finset.range N, if (∃ m : ℤ, f (a + j) = v + (m : K) * T) then 1 else 0

open Classical in
/-- multiplicity of the class of `v` modulo the period among the knots of one period -/
noncomputable def _root_.Splipy.Basis.perMult {K : Type} [Field K] [LinearOrder K] (b : Basis K)
    (v : K) : ℕ :=
  ∑ j ∈ Finset.range b.numFunctions,
    if (∃ m : ℤ, b.kn j = v + (m : K) * (b.stop - b.start)) then 1 else 0

variable {K : Type} [Field K] [LinearOrder K] [IsStrictOrderedRing K] [FloorRing K]

theorem cong_add_period (T u v : K) :
    (∃ m : ℤ, u + T = v + (m : K) * T) ↔ (∃ m : ℤ, u = v + (m : K) * T) := by
  constructor
  · rintro ⟨m, hm⟩; exact ⟨m - 1, by push_cast; linarith⟩
  · rintro ⟨m, hm⟩; exact ⟨m + 1, by push_cast; linarith⟩

/-- the count over a window of one period does not depend on where the window starts -/
theorem cntZ_shift (f : ℤ → K) (T v : K) (N : ℕ) (hf : ∀ i, f (i + N) = f i + T) (a : ℤ) :
    cntZ f T v (a + 1) N = cntZ f T v a N := by
  classical
  unfold cntZ
  have h1 := Finset.sum_range_succ
    (fun j : ℕ => if (∃ m : ℤ, f (a + j) = v + (m : K) * T) then 1 else 0) N
  have h2 := Finset.sum_range_succ'
    (fun j : ℕ => if (∃ m : ℤ, f (a + j) = v + (m : K) * T) then 1 else 0) N
  have e3 : (if (∃ m : ℤ, f (a + (N : ℕ)) = v + (m : K) * T) then 1 else 0)
      = (if (∃ m : ℤ, f (a + ((0 : ℕ) : ℤ)) = v + (m : K) * T) then 1 else 0) := by
    rw [hf a]
    simp only [Nat.cast_zero, add_zero]
    exact if_congr (cong_add_period T (f a) v) rfl rfl
  have e4 : ∀ j : ℕ, f (a + 1 + (j : ℤ)) = f (a + ((j + 1 : ℕ) : ℤ)) := by
    intro j; congr 1; push_cast; ring
  simp only [e4]
  omega

theorem cntZ_indep (f : ℤ → K) (T v : K) (N : ℕ) (hf : ∀ i, f (i + N) = f i + T) (a : ℤ) :
    cntZ f T v a N = cntZ f T v 0 N := by
  induction a using Int.induction_on with
  | zero => rfl
  | succ a ih => rw [cntZ_shift f T v N hf, ih]
  | pred a ih =>
    have := cntZ_shift f T v N hf (-(a : ℤ) - 1)
    rw [show -(a : ℤ) - 1 + 1 = -(a : ℤ) by ring] at this
    rw [← this, ih]

theorem perMult_eq_cntZ (b : Basis K) (hv : b.Valid) (hper : 0 ≤ b.periodic) (v : K) :
    b.perMult v = cntZ (zext b) (b.stop - b.start) v 0 b.numFunctions := by
  classical
  unfold Basis.perMult cntZ
  apply Finset.sum_congr rfl
  intro j hj
  have hj' := Finset.mem_range.1 hj
  have hn : b.numFunctions ≤ b.knots.size := by unfold Basis.numFunctions; omega
  rw [zero_add, zext_kn b hv hper j (by omega)]

/-- on `ℤ`: one period of `b'` is one period of `b` with `w` inserted -/
def PerIns (b b' : Basis K) (w : K) : Prop :=
  ∃ μ : ℤ, ∀ i, μ - b.numFunctions ≤ i → i ≤ μ → zext b' i = insZ (zext b) μ w i

/-- `PerIns` adds one to the multiplicity of the class of `w` and nothing else. -/
theorem perIns_perMult (b b' : Basis K) (C : Mat K) (w : K) (hv : b.Valid) (hper : 0 ≤ b.periodic)
    (hr : PerRefines b b' C 1) (hins : PerIns b b' w) (v : K) :
    b'.perMult v = b.perMult v
      + (open Classical in if (∃ m : ℤ, w = v + (m : K) * (b.stop - b.start)) then 1 else 0) := by
  classical
  obtain ⟨μ, hμ⟩ := hins
  have hper' : 0 ≤ b'.periodic := by rw [hr.periodic_eq]; exact hper
  rw [perMult_eq_cntZ b' hr.valid hper', perMult_eq_cntZ b hv hper, hr.start_eq, hr.stop_eq, hr.num_eq]
  have hf' : ∀ i, zext b' (i + ((b.numFunctions + 1 : ℕ) : ℤ)) = zext b' i + (b.stop - b.start) := by
    intro i
    have := zext_add b' hr.valid i
    rw [hr.num_eq, hr.start_eq, hr.stop_eq] at this
    exact this
  rw [← cntZ_indep (zext b') _ v _ hf' (μ - b.numFunctions),
    ← cntZ_indep (zext b) _ v _ (zext_add b hv) (μ - b.numFunctions)]
  unfold cntZ
  rw [Finset.sum_range_succ]
  congr 1
  · apply Finset.sum_congr rfl
    intro j hj
    have hj' := Finset.mem_range.1 hj
    rw [hμ _ (by omega) (by omega), insZ_lt (by omega)]
  · rw [hμ _ (by omega) (by omega), show μ - (b.numFunctions : ℤ) + ((b.numFunctions : ℕ) : ℤ) = μ by ring,
      insZ_self]

/-- **One periodic insertion, any number of functions.**  Valid periodic basis, any real `x0`
    (wrapped into the domain by the code): `insert_knot` succeeds and refines the basis
    (`PerRefines`: validity, sizes, domain, the periodic spline with all derivatives), and one
    period of the new knots is one period of the old knots with the wrapped value inserted. -/
theorem insertKnot_per_step_all (b : Basis K) (hv : b.Valid) (k : ℕ) (hk : b.periodic = (k : Int))
    (x0 : K) :
    ∃ b' C, b.insertKnot x0 = .ok (b', C) ∧ PerRefines b b' C 1 ∧ PerIns b b' (wrapVal b x0) := by
  obtain ⟨h1, h2, _⟩ := wrapVal_mem b hv.start_lt_stop x0
  rw [insertKnot_wrap b (by rw [hk]; omega) hv.start_lt_stop x0]
  by_cases hg : b.order + k ≤ b.numFunctions
  · obtain ⟨b', C, e1, hr, lo, l1, l2, l3, lkn⟩ :=
      insertKnot_periodic_full b hv k hk hg (wrapVal b x0) ⟨h1, h2⟩
    refine ⟨b', C, e1, hr, (b.insertMu (wrapVal b x0) : ℤ), fun i hi1 hi2 => ?_⟩
    exact step_zext b b' C hv k hk _ hr lo l1 l2 l3 lkn i hi1 (by omega)
  · obtain ⟨b', C, e1, hr, hins⟩ :=
      insertKnot_periodic_small b hv k hk (by omega) (wrapVal b x0) ⟨h1, h2⟩
    exact ⟨b', C, e1, hr, hins⟩

/-- the wrapped value lies in the class of the given value -/
theorem wrapVal_cong (b : Basis K) (x0 v : K) :
    (∃ m : ℤ, wrapVal b x0 = v + (m : K) * (b.stop - b.start))
      ↔ (∃ m : ℤ, x0 = v + (m : K) * (b.stop - b.start)) := by
  unfold wrapVal
  by_cases h : x0 < b.start ∨ x0 > b.stop
  · rw [if_pos h]
    unfold pmod
    constructor
    · rintro ⟨m, hm⟩
      exact ⟨m + ⌊(x0 - b.start) / (b.stop - b.start)⌋, by push_cast; linarith⟩
    · rintro ⟨m, hm⟩
      exact ⟨m - ⌊(x0 - b.start) / (b.stop - b.start)⌋, by push_cast; linarith⟩
  · rw [if_neg h]

open Classical in
/-- the number of entries of `xs` in the class of `v` modulo `T` -/
noncomputable def congCount (T : K) (xs : List K) (v : K) : ℕ :=
  (xs.filter (fun x => decide (∃ m : ℤ, x = v + (m : K) * T))).length

theorem congCount_nil (T v : K) : congCount T ([] : List K) v = 0 := rfl

theorem congCount_cons (T : K) (x : K) (xs : List K) (v : K) :
    congCount T (x :: xs) v
      = (open Classical in if (∃ m : ℤ, x = v + (m : K) * T) then 1 else 0) + congCount T xs v := by
  classical
  unfold congCount
  rw [List.filter_cons]
  by_cases h : ∃ m : ℤ, x = v + (m : K) * T
  · simp [h]; omega
  · simp [h]

/-- Sequence of periodic insertions into ANY valid periodic basis, generalised over the
    accumulated matrix and the accumulated knot count. -/
theorem insertMany_periodic_all_aux (b0 : Basis K) (hv0 : b0.Valid) (k : ℕ)
    (hk : b0.periodic = (k : Int)) (xs : List K) :
    ∀ (b : Basis K) (Cacc : Mat K) (m : ℕ) (g : K → ℕ), PerRefines b0 b Cacc m →
      (∀ v, b.perMult v = b0.perMult v + g v) →
      ∃ b' C, insertMany b Cacc xs = .ok (b', C) ∧ PerRefines b0 b' C (m + xs.length) ∧
        ∀ v, b'.perMult v = b0.perMult v + g v + congCount (b0.stop - b0.start) xs v := by
  induction xs with
  | nil =>
    intro b Cacc m g h hg
    exact ⟨b, Cacc, rfl, h, fun v => by rw [congCount_nil, hg v]; rfl⟩
  | cons x xs ih =>
    intro b Cacc m g h hg
    have hkb : b.periodic = (k : Int) := h.periodic_eq.trans hk
    obtain ⟨b1, C1, hins, hr1, hpi⟩ := insertKnot_per_step_all b h.valid k hkb x
    have hcount1 : ∀ v, b1.perMult v = b0.perMult v
        + (g v + (open Classical in if (∃ m : ℤ, x = v + (m : K) * (b0.stop - b0.start)) then 1 else 0)) := by
      intro v
      classical
      rw [perIns_perMult b b1 C1 _ h.valid (by rw [hkb]; omega) hr1 hpi v, hg v, h.start_eq, h.stop_eq]
      have := wrapVal_cong b x v
      rw [h.start_eq, h.stop_eq] at this
      rw [if_congr this rfl rfl]
      omega
    obtain ⟨b', C, hm, hr, hc⟩ := ih b1 (Mat.mul C1 Cacc) (m + 1) _ (perRefines_trans hv0 h hr1) hcount1
    refine ⟨b', C, ?_, ?_, fun v => ?_⟩
    · unfold insertMany at hm ⊢
      rw [List.foldlM_cons]
      have : stepIns (b, Cacc) x = .ok (b1, Mat.mul C1 Cacc) := by
        unfold stepIns
        simp only [hins]
        rfl
      rw [this]
      exact hm
    · have e : m + (x :: xs).length = m + 1 + xs.length := by simp; omega
      rw [e]; exact hr
    · rw [hc v, congCount_cons]
      omega

/-- **Sequence of periodic insertions, any valid periodic basis.**  Besides `PerRefines` (validity,
    sizes, domain, ghost knots consistent, the periodic spline with all derivatives), the periodic
    knot set: for every value `v` the multiplicity of its class modulo the period among the knots of
    one period grows by exactly the number of inserted values in that class. -/
theorem insertMany_periodic_all (b : Basis K) (hv : b.Valid) (k : ℕ) (hk : b.periodic = (k : Int))
    (xs : List K) :
    ∃ b' C, insertMany b (Mat.identity b.numFunctions) xs = .ok (b', C) ∧
      PerRefines b b' C xs.length ∧
      ∀ v, b'.perMult v = b.perMult v + congCount (b.stop - b.start) xs v := by
  obtain ⟨b', C, h1, h2, h3⟩ :=
    insertMany_periodic_all_aux b hv k hk xs b (Mat.identity b.numFunctions) 0 (fun _ => 0)
      (perRefines_refl b hv) (fun v => rfl)
  exact ⟨b', C, h1, by simpa using h2, fun v => by rw [h3 v]; rfl⟩

/-- `Obj.insertKnots` along ANY valid periodic direction (control-net length `n`): success, refined
    periodic basis (`PerRefines`), knot multiplicities, every control-net fibre along `dir` is `C`
    applied to the old fibre. -/
theorem insertKnots_fibres_periodic_all (o : Obj K) (dir : ℕ) (hdir : dir < o.bases.size)
    (hax : dir < o.cps.shape.length) (hv : (o.basis dir).Valid) (k : ℕ)
    (hk : (o.basis dir).periodic = (k : Int))
    (hshape : o.cps.shape.getD dir 0 = (o.basis dir).numFunctions) (xs : List K) :
    ∃ o' C, o.insertKnots xs dir = .ok o' ∧
      PerRefines (o.basis dir) (o'.basis dir) C xs.length ∧
      (∀ v, (o'.basis dir).perMult v = (o.basis dir).perMult v
        + congCount ((o.basis dir).stop - (o.basis dir).start) xs v) ∧
      (∀ d, d ≠ dir → o'.basis d = o.basis d) ∧ o'.rational = o.rational ∧
      o'.cps.shape = o.cps.shape.set dir ((o.basis dir).numFunctions + xs.length) ∧
      outerN o' dir = outerN o dir ∧ innerN o' dir = innerN o dir ∧
      (∀ a i r, a < outerN o dir → i < innerN o dir → r < (o.basis dir).numFunctions + xs.length →
        fibre o' dir a i r = mulVec C (o.basis dir).numFunctions (fibre o dir a i) r) ∧
      o'.bases = o.bases.set! dir (o'.basis dir) := by
  obtain ⟨b', C, hm, hr, hcnt⟩ := insertMany_periodic_all (o.basis dir) hv k hk xs
  have hCsize : C.size = (o.basis dir).numFunctions + xs.length := hr.shape.1
  have hmid : (Tensor.split3 o.cps.shape dir).2.1 = (o.basis dir).numFunctions := by
    rw [← hshape]
    simp only [Tensor.split3, List.getD_eq_getElem?_getD, List.getElem?_eq_getElem hax]
    rfl
  refine ⟨{ o with bases := o.bases.set! dir b', cps := Tensor.applyAxis C o.cps dir }, C, ?_, ?_, ?_,
    fun d hd => basis_set_ne o dir d hd _ _, rfl, ?_, ?_, ?_, ?_, ?_⟩
  · rw [insertKnots_eq, hshape, hm]; rfl
  · rw [basis_set o dir hdir]; exact hr
  · rw [basis_set o dir hdir]; exact hcnt
  rotate_right
  · rw [basis_set o dir hdir]
  · change (Tensor.applyAxis C o.cps dir).shape = _
    rw [applyAxis_shape, hCsize]
  · change (Tensor.split3 (Tensor.applyAxis C o.cps dir).shape dir).1 = _
    rw [applyAxis_shape]
    simp only [Tensor.split3]
    rw [List.take_set_of_le (le_refl _)]
    rfl
  · change (Tensor.split3 (Tensor.applyAxis C o.cps dir).shape dir).2.2 = _
    rw [applyAxis_shape]
    simp only [Tensor.split3]
    rw [List.drop_set_of_lt (by omega)]
    rfl
  · intro a i r ha hi hr'
    change (Tensor.applyAxis C o.cps dir).at3 dir a r i = _
    rw [applyAxis_fibre C o.cps dir hax a r i ha (by omega) hi, hmid]
    rfl

end C04
end Splipy
