import Mathlib.Tactic.Ring
import Mathlib.Tactic.Linarith
import Mathlib.Algebra.BigOperators.Intervals
import Mathlib.Algebra.BigOperators.Ring.Finset
import Mathlib.Algebra.Order.BigOperators.Group.Finset
import Splipy.Model.Object

/-!
# L11: index algebra of the dense-array model (`Tensor`)

`build3` read-back, shape / size / entry formula of `applyAxis`, and the entry formulas of
`contractGrid` / `contractPointwise` for parametric dimension 1, 2 and 3.
-/

namespace Splipy

set_option linter.unusedSectionVars false

namespace Tensor

/-! ## `prod` and `split3` -/

theorem foldl_mul (x : ℕ) (l : List ℕ) : l.foldl (· * ·) x = x * l.foldl (· * ·) 1 := by
  induction l generalizing x with
  | nil => simp
  | cons a l ih =>
    simp only [List.foldl_cons]
    rw [ih (x * a), ih (1 * a)]
    ring

theorem prod_nil : prod [] = 1 := rfl

theorem prod_cons (a : ℕ) (l : List ℕ) : prod (a :: l) = a * prod l := by
  unfold prod
  simp only [List.foldl_cons]
  rw [foldl_mul]
  ring

theorem prod_append (l₁ l₂ : List ℕ) : prod (l₁ ++ l₂) = prod l₁ * prod l₂ := by
  induction l₁ with
  | nil => simp [prod_nil]
  | cons a l ih => rw [List.cons_append, prod_cons, prod_cons, ih, Nat.mul_assoc]

/-- The three factors of `split3` multiply to the total size. -/
theorem prod_split (shape : List ℕ) (ax : ℕ) (h : ax < shape.length) :
    prod (shape.take ax) * shape.getD ax 1 * prod (shape.drop (ax + 1)) = prod shape := by
  conv_rhs => rw [← List.take_append_drop ax shape]
  rw [prod_append, List.drop_eq_getElem_cons h, prod_cons]
  simp [List.getD, h, Nat.mul_assoc]

theorem prod_set (shape : List ℕ) (ax m : ℕ) (h : ax < shape.length) :
    prod (shape.set ax m) = prod (shape.take ax) * m * prod (shape.drop (ax + 1)) := by
  have h' : ax < (shape.set ax m).length := by simpa using h
  rw [← prod_split (shape.set ax m) ax h']
  simp [List.getD, h, List.take_set_of_le, List.drop_set_of_lt]

theorem split3_set (shape : List ℕ) (ax m : ℕ) (h : ax < shape.length) :
    split3 (shape.set ax m) ax = (prod (shape.take ax), m, prod (shape.drop (ax + 1))) := by
  unfold split3
  simp [List.getD, h, List.take_set_of_le, List.drop_set_of_lt]

/-! ## Arithmetic of the flat index `(a*m + r)*inn + i` -/

theorem flat_lt {o m inn a r i : ℕ} (ha : a < o) (hr : r < m) (hi : i < inn) :
    (a * m + r) * inn + i < o * m * inn := by
  have h1 : a * m + r + 1 ≤ o * m := by
    calc a * m + r + 1 ≤ a * m + m := by omega
      _ = (a + 1) * m := by ring
      _ ≤ o * m := Nat.mul_le_mul_right m ha
  calc (a * m + r) * inn + i < (a * m + r) * inn + inn := by omega
    _ = (a * m + r + 1) * inn := by ring
    _ ≤ o * m * inn := Nat.mul_le_mul_right inn h1

theorem pair_lt {m inn r i : ℕ} (hr : r < m) (hi : i < inn) : r * inn + i < m * inn := by
  have := flat_lt (o := 1) (a := 0) (Nat.zero_lt_one) hr hi
  simpa using this

theorem flat_mod {m inn a r i : ℕ} (hi : i < inn) : ((a * m + r) * inn + i) % inn = i := by
  rw [Nat.add_comm, Nat.add_mul_mod_self_right, Nat.mod_eq_of_lt hi]

theorem flat_div {m inn a r i : ℕ} (hi : i < inn) : ((a * m + r) * inn + i) / inn = a * m + r := by
  have hpos : 0 < inn := by omega
  rw [Nat.add_comm, Nat.add_mul_div_right _ _ hpos, Nat.div_eq_of_lt hi, Nat.zero_add]

theorem flat_div_mod {m inn a r i : ℕ} (hr : r < m) (hi : i < inn) :
    (((a * m + r) * inn + i) / inn) % m = r := by
  rw [flat_div hi, Nat.add_comm, Nat.add_mul_mod_self_right, Nat.mod_eq_of_lt hr]

theorem flat_div_div {m inn a r i : ℕ} (hr : r < m) (hi : i < inn) :
    ((a * m + r) * inn + i) / (inn * m) = a := by
  rw [← Nat.div_div_eq_div_mul, flat_div hi]
  have hpos : 0 < m := by omega
  rw [Nat.add_comm, Nat.add_mul_div_right _ _ hpos, Nat.div_eq_of_lt hr, Nat.zero_add]

/-! ## `build3` read-back -/

variable {K : Type} [Zero K]

theorem getD_ofFn {n : ℕ} (g : Fin n → K) {k : ℕ} (hk : k < n) (d : K) :
    (Array.ofFn g).getD k d = g ⟨k, hk⟩ := by
  simp [Array.getD, hk]

theorem build3_shape (shape : List ℕ) (ax m : ℕ) (f : ℕ → ℕ → ℕ → K) :
    (build3 shape ax m f).shape = shape.set ax m := rfl

theorem build3_data_size (shape : List ℕ) (ax m : ℕ) (f : ℕ → ℕ → ℕ → K) :
    (build3 shape ax m f).data.size
      = prod (shape.take ax) * m * prod (shape.drop (ax + 1)) := by
  simp [build3, split3]

/-- The data size of a `build3` result is the product of its shape. -/
theorem build3_data_size_eq_prod (shape : List ℕ) (ax m : ℕ) (f : ℕ → ℕ → ℕ → K)
    (h : ax < shape.length) :
    (build3 shape ax m f).data.size = prod (build3 shape ax m f).shape := by
  rw [build3_data_size, build3_shape, prod_set _ _ _ h]

/-- Read-back: flat index `(a*m + r)*inn + i` of `build3 shape ax m f` is `f a r i`. -/
theorem build3_readback (shape : List ℕ) (ax m : ℕ) (f : ℕ → ℕ → ℕ → K) {a r i : ℕ}
    (ha : a < prod (shape.take ax)) (hr : r < m) (hi : i < prod (shape.drop (ax + 1))) :
    (build3 shape ax m f).get ((a * m + r) * prod (shape.drop (ax + 1)) + i) = f a r i := by
  have hlt := flat_lt ha hr hi
  unfold Tensor.get build3 split3
  simp only []
  rw [getD_ofFn _ hlt]
  simp only []
  rw [flat_mod hi, flat_div_mod hr hi, flat_div_div hr hi]

/-- Read-back through `at3` (same axis). -/
theorem build3_at3 (shape : List ℕ) (ax m : ℕ) (f : ℕ → ℕ → ℕ → K) (h : ax < shape.length)
    {a r i : ℕ} (ha : a < prod (shape.take ax)) (hr : r < m)
    (hi : i < prod (shape.drop (ax + 1))) :
    (build3 shape ax m f).at3 ax a r i = f a r i := by
  unfold at3
  rw [build3_shape, split3_set _ _ _ h]
  exact build3_readback shape ax m f ha hr hi

/-- Well-formed array: the flat data has exactly `prod shape` entries. -/
def WF (t : Tensor K) : Prop := t.data.size = prod t.shape

end Tensor

/-! ## `applyAxis`: shape, size, entry formula -/

section Apply

open Tensor

variable {K : Type} [Field K]

theorem foldl_range_add_sum (g : ℕ → K) (n : ℕ) :
    (List.range n).foldl (fun acc j => acc + g j) 0 = ∑ j ∈ Finset.range n, g j := by
  induction n with
  | zero => simp
  | succ n ih => rw [List.range_succ, List.foldl_append, ih, Finset.sum_range_succ]; simp

theorem applyAxis_shape (M : Mat K) (t : Tensor K) (ax : ℕ) :
    (applyAxis M t ax).shape = t.shape.set ax M.size := rfl

theorem applyAxis_wf (M : Mat K) (t : Tensor K) (ax : ℕ) (h : ax < t.shape.length) :
    (applyAxis M t ax).WF :=
  build3_data_size_eq_prod _ _ _ _ h

/-- **L11** entry formula of the one-axis contraction (`tensordot` + `transpose_fix`):
`(applyAxis M t ax)[a, r, i] = Σ_j M[r][j] · t[a, j, i]`. -/
theorem applyAxis_at3 (M : Mat K) (t : Tensor K) (ax : ℕ) (h : ax < t.shape.length) {a r i : ℕ}
    (ha : a < prod (t.shape.take ax)) (hr : r < M.size) (hi : i < prod (t.shape.drop (ax + 1))) :
    (applyAxis M t ax).at3 ax a r i
      = ∑ j ∈ Finset.range (t.shape.getD ax 1), (M.getD r #[]).getD j 0 * t.at3 ax a j i := by
  unfold applyAxis
  simp only [split3]
  rw [build3_at3 _ _ _ _ h ha hr hi, foldl_range_add_sum]

/-- The same with explicit flat indices, for a known `split3`. -/
theorem applyAxis_get (M : Mat K) (t : Tensor K) (ax : ℕ) (h : ax < t.shape.length) {o n inn : ℕ}
    (hs : split3 t.shape ax = (o, n, inn)) {a r i : ℕ} (ha : a < o) (hr : r < M.size)
    (hi : i < inn) {k : ℕ} (hk : k = (a * M.size + r) * inn + i) :
    (applyAxis M t ax).get k
      = ∑ j ∈ Finset.range n, (M.getD r #[]).getD j 0 * t.get ((a * n + j) * inn + i) := by
  have h1 : o = prod (t.shape.take ax) := by rw [split3] at hs; exact (congrArg Prod.fst hs).symm
  have h2 : n = t.shape.getD ax 1 := by
    rw [split3] at hs; exact (congrArg (fun x => x.2.1) hs).symm
  have h3 : inn = prod (t.shape.drop (ax + 1)) := by
    rw [split3] at hs; exact (congrArg (fun x => x.2.2) hs).symm
  subst h1 h2 h3
  have := applyAxis_at3 M t ax h ha hr hi
  unfold at3 at this
  rw [applyAxis_shape, split3_set _ _ _ h] at this
  simp only [split3] at this
  rw [hk]
  exact this

end Apply

/-! ## `contractGrid` for parametric dimension 1, 2, 3 -/

section Grid

open Tensor

variable {K : Type} [Field K]

theorem contractGrid_one (N1 : Mat K) (cps : Tensor K) :
    Obj.contractGrid [N1] cps = applyAxis N1 cps 0 := rfl


theorem contractGrid_two (N1 N2 : Mat K) (cps : Tensor K) :
    Obj.contractGrid [N1, N2] cps = applyAxis N1 (applyAxis N2 cps 1) 0 := rfl

theorem contractGrid_three (N1 N2 N3 : Mat K) (cps : Tensor K) :
    Obj.contractGrid [N1, N2, N3] cps
      = applyAxis N1 (applyAxis N2 (applyAxis N3 cps 2) 1) 0 := rfl

theorem contractGrid1_get (N1 : Mat K) (cps : Tensor K) {n1 nc : ℕ} (hs : cps.shape = [n1, nc])
    {i1 c : ℕ} (h1 : i1 < N1.size) (hc : c < nc) :
    (Obj.contractGrid [N1] cps).get (i1 * nc + c)
      = ∑ j1 ∈ Finset.range n1, (N1.getD i1 #[]).getD j1 0 * cps.get (j1 * nc + c) := by
  rw [contractGrid_one]
  rw [applyAxis_get N1 cps 0 (by rw [hs]; simp) (o := 1) (n := n1) (inn := nc)
    (by simp [split3, hs, prod]) (a := 0) (by omega) h1 hc (by ring)]
  simp
theorem contractGrid2_get (N1 N2 : Mat K) (cps : Tensor K) {n1 n2 nc : ℕ}
    (hs : cps.shape = [n1, n2, nc]) {i1 i2 c : ℕ} (h1 : i1 < N1.size) (h2 : i2 < N2.size)
    (hc : c < nc) :
    (Obj.contractGrid [N1, N2] cps).get ((i1 * N2.size + i2) * nc + c)
      = ∑ j1 ∈ Finset.range n1, ∑ j2 ∈ Finset.range n2,
          (N1.getD i1 #[]).getD j1 0 * (N2.getD i2 #[]).getD j2 0
            * cps.get ((j1 * n2 + j2) * nc + c) := by
  rw [contractGrid_two]
  have hs2 : (applyAxis N2 cps 1).shape = [n1, N2.size, nc] := by
    rw [applyAxis_shape, hs]; rfl
  rw [applyAxis_get N1 _ 0 (by rw [hs2]; simp) (o := 1) (n := n1) (inn := N2.size * nc)
    (by simp [split3, hs2, prod]) (a := 0) (by omega) h1 (i := i2 * nc + c) (pair_lt h2 hc)
    (by ring)]
  apply Finset.sum_congr rfl
  intro j1 hj1
  rw [Finset.mem_range] at hj1
  rw [applyAxis_get N2 cps 1 (by rw [hs]; simp) (o := n1) (n := n2) (inn := nc)
    (by simp [split3, hs, prod]) (a := j1) hj1 h2 hc (by ring), Finset.mul_sum]
  apply Finset.sum_congr rfl
  intro j2 _
  ring

theorem contractGrid3_get (N1 N2 N3 : Mat K) (cps : Tensor K) {n1 n2 n3 nc : ℕ}
    (hs : cps.shape = [n1, n2, n3, nc]) {i1 i2 i3 c : ℕ} (h1 : i1 < N1.size) (h2 : i2 < N2.size)
    (h3 : i3 < N3.size) (hc : c < nc) :
    (Obj.contractGrid [N1, N2, N3] cps).get (((i1 * N2.size + i2) * N3.size + i3) * nc + c)
      = ∑ j1 ∈ Finset.range n1, ∑ j2 ∈ Finset.range n2, ∑ j3 ∈ Finset.range n3,
          (N1.getD i1 #[]).getD j1 0 * (N2.getD i2 #[]).getD j2 0 * (N3.getD i3 #[]).getD j3 0
            * cps.get (((j1 * n2 + j2) * n3 + j3) * nc + c) := by
  rw [contractGrid_three]
  have hs3 : (applyAxis N3 cps 2).shape = [n1, n2, N3.size, nc] := by
    rw [applyAxis_shape, hs]; rfl
  have hs2 : (applyAxis N2 (applyAxis N3 cps 2) 1).shape = [n1, N2.size, N3.size, nc] := by
    rw [applyAxis_shape, hs3]; rfl
  rw [applyAxis_get N1 _ 0 (by rw [hs2]; simp) (o := 1) (n := n1) (inn := N2.size * (N3.size * nc))
    (by simp [split3, hs2, prod, Nat.mul_assoc]) (a := 0) (by omega) h1
    (i := i2 * (N3.size * nc) + (i3 * nc + c)) (pair_lt h2 (pair_lt h3 hc)) (by ring)]
  apply Finset.sum_congr rfl
  intro j1 hj1
  rw [Finset.mem_range] at hj1
  rw [applyAxis_get N2 _ 1 (by rw [hs3]; simp) (o := n1) (n := n2) (inn := N3.size * nc)
    (by simp [split3, hs3, prod]) (a := j1) hj1 h2 (i := i3 * nc + c) (pair_lt h3 hc) (by ring),
    Finset.mul_sum]
  apply Finset.sum_congr rfl
  intro j2 hj2
  rw [Finset.mem_range] at hj2
  rw [applyAxis_get N3 cps 2 (by rw [hs]; simp) (o := n1 * n2) (n := n3) (inn := nc)
    (by simp [split3, hs, prod]) (a := j1 * n2 + j2) (pair_lt hj1 hj2) h3 hc (by ring),
    Finset.mul_sum, Finset.mul_sum]
  apply Finset.sum_congr rfl
  intro j3 _
  ring

end Grid

/-! ## `contractPointwise` (`tensor=False`, the `einsum` form) -/

section Pointwise

open Tensor

variable {K : Type} [Field K]

theorem foldl_append_size (rows : List (Array K)) (acc : Array K) (nc : ℕ)
    (hrows : ∀ r ∈ rows, r.size = nc) :
    (rows.foldl (· ++ ·) acc).size = acc.size + rows.length * nc := by
  induction rows generalizing acc with
  | nil => simp
  | cons r rs ih =>
    simp only [List.foldl_cons, List.length_cons]
    rw [ih _ (fun x hx => hrows x (List.mem_cons_of_mem _ hx)), Array.size_append,
      hrows r List.mem_cons_self]
    ring

theorem foldl_append_getD_lt (rows : List (Array K)) (acc : Array K) {j : ℕ} (hj : j < acc.size)
    (d : K) : (rows.foldl (· ++ ·) acc).getD j d = acc.getD j d := by
  induction rows generalizing acc with
  | nil => simp
  | cons r rs ih =>
    simp only [List.foldl_cons]
    rw [ih _ (by rw [Array.size_append]; omega)]
    simp [Array.getD, hj, Array.getElem_append_left, Array.size_append]
    intro h; omega

theorem foldl_append_getD (rows : List (Array K)) (acc : Array K) (nc k : ℕ)
    (hrows : ∀ r ∈ rows, r.size = nc) (hacc : acc.size = k * nc) {i c : ℕ}
    (hi : i < rows.length) (hc : c < nc) (d : K) :
    (rows.foldl (· ++ ·) acc).getD ((k + i) * nc + c) d = (rows.getD i #[]).getD c d := by
  induction rows generalizing acc k i with
  | nil => simp at hi
  | cons r rs ih =>
    simp only [List.foldl_cons]
    have hr := hrows r List.mem_cons_self
    have hsz : (acc ++ r).size = (k + 1) * nc := by rw [Array.size_append, hacc, hr]; ring
    cases i with
    | zero =>
      rw [foldl_append_getD_lt _ _ (by rw [hsz]; nlinarith)]
      simp only [Nat.add_zero, List.getD_cons_zero]
      have h1 : k * nc + c < (acc ++ r).size := by rw [hsz]; nlinarith
      have h2 : acc.size ≤ k * nc + c := by omega
      rw [Array.getD_eq_getD_getElem?, Array.getD_eq_getD_getElem?,
        Array.getElem?_append_right h2, hacc]
      simp
    | succ i =>
      have := ih (acc ++ r) (k + 1) (fun x hx => hrows x (List.mem_cons_of_mem _ hx)) hsz
        (i := i) (by simpa using hi)
      rw [show k + (i + 1) = k + 1 + i by omega, this]
      simp


theorem contractPointwise_shape (Ns : List (Mat K)) (cps : Tensor K) (m : ℕ) :
    (Obj.contractPointwise Ns cps m).shape = [m, cps.shape.getLastD 1] := rfl

/-- Row `i` of the pointwise form is the data of the grid form for the one-row matrices
`#[N_k[i]]`. -/
theorem contractPointwise_get (Ns : List (Mat K)) (cps : Tensor K) (m nc : ℕ)
    (hsz : ∀ i, i < m →
      (Obj.contractGrid (Ns.map (fun N => #[N.getD i #[]])) cps).data.size = nc)
    {i c : ℕ} (hi : i < m) (hc : c < nc) :
    (Obj.contractPointwise Ns cps m).get (i * nc + c)
      = (Obj.contractGrid (Ns.map (fun N => #[N.getD i #[]])) cps).get c := by
  unfold Obj.contractPointwise Tensor.get
  simp only []
  have h := foldl_append_getD
    ((List.range m).map (fun i => (Obj.contractGrid (Ns.map (fun N => #[N.getD i #[]])) cps).data))
    #[] nc 0
    (by
      intro r hr
      rw [List.mem_map] at hr
      obtain ⟨j, hj, rfl⟩ := hr
      exact hsz j (List.mem_range.mp hj))
    (by simp) (i := i) (c := c) (by simpa using hi) hc 0
  rw [Nat.zero_add] at h
  rw [h]
  simp [List.getD_eq_getElem?_getD, hi]

theorem contractPointwise_wf (Ns : List (Mat K)) (cps : Tensor K) (m : ℕ)
    (hsz : ∀ i, i < m →
      (Obj.contractGrid (Ns.map (fun N => #[N.getD i #[]])) cps).data.size
        = cps.shape.getLastD 1) :
    (Obj.contractPointwise Ns cps m).WF := by
  unfold Tensor.WF Obj.contractPointwise
  simp only []
  rw [foldl_append_size _ _ (cps.shape.getLastD 1)]
  · simp [prod]
  · intro r hr
    rw [List.mem_map] at hr
    obtain ⟨j, hj, rfl⟩ := hr
    exact hsz j (List.mem_range.mp hj)

theorem contractGrid1_size (N1 : Mat K) (cps : Tensor K) {n1 nc : ℕ} (hs : cps.shape = [n1, nc]) :
    (Obj.contractGrid [N1] cps).shape = [N1.size, nc] ∧
    (Obj.contractGrid [N1] cps).data.size = N1.size * nc := by
  have h1 : (Obj.contractGrid [N1] cps).shape = [N1.size, nc] := by
    rw [contractGrid_one, applyAxis_shape, hs]; rfl
  refine ⟨h1, ?_⟩
  have := applyAxis_wf N1 cps 0 (by rw [hs]; simp)
  rw [← contractGrid_one] at this
  rw [this, h1]; simp [prod]

theorem contractGrid2_size (N1 N2 : Mat K) (cps : Tensor K) {n1 n2 nc : ℕ}
    (hs : cps.shape = [n1, n2, nc]) :
    (Obj.contractGrid [N1, N2] cps).shape = [N1.size, N2.size, nc] ∧
    (Obj.contractGrid [N1, N2] cps).data.size = N1.size * N2.size * nc := by
  have h1 : (Obj.contractGrid [N1, N2] cps).shape = [N1.size, N2.size, nc] := by
    rw [contractGrid_two, applyAxis_shape, applyAxis_shape, hs]; rfl
  refine ⟨h1, ?_⟩
  have := applyAxis_wf N1 (applyAxis N2 cps 1) 0 (by rw [applyAxis_shape, hs]; simp)
  rw [← contractGrid_two] at this
  rw [this, h1]; simp [prod]

theorem contractGrid3_size (N1 N2 N3 : Mat K) (cps : Tensor K) {n1 n2 n3 nc : ℕ}
    (hs : cps.shape = [n1, n2, n3, nc]) :
    (Obj.contractGrid [N1, N2, N3] cps).shape = [N1.size, N2.size, N3.size, nc] ∧
    (Obj.contractGrid [N1, N2, N3] cps).data.size = N1.size * N2.size * N3.size * nc := by
  have h1 : (Obj.contractGrid [N1, N2, N3] cps).shape = [N1.size, N2.size, N3.size, nc] := by
    rw [contractGrid_three, applyAxis_shape, applyAxis_shape, applyAxis_shape, hs]; rfl
  refine ⟨h1, ?_⟩
  have := applyAxis_wf N1 (applyAxis N2 (applyAxis N3 cps 2) 1) 0
    (by rw [applyAxis_shape, applyAxis_shape, hs]; simp)
  rw [← contractGrid_three] at this
  rw [this, h1]; simp [prod]


theorem contractPointwise1_get (N1 : Mat K) (cps : Tensor K) (m : ℕ) {n1 nc : ℕ}
    (hs : cps.shape = [n1, nc]) {i c : ℕ} (hi : i < m) (hc : c < nc) :
    (Obj.contractPointwise [N1] cps m).get (i * nc + c)
      = ∑ j1 ∈ Finset.range n1, (N1.getD i #[]).getD j1 0 * cps.get (j1 * nc + c) := by
  rw [contractPointwise_get [N1] cps m nc
    (fun k _ => by
      have := (contractGrid1_size #[N1.getD k #[]] cps hs).2
      simpa using this) hi hc]
  have := contractGrid1_get #[N1.getD i #[]] cps hs (i1 := 0) (by simp) hc
  simpa using this

theorem contractPointwise2_get (N1 N2 : Mat K) (cps : Tensor K) (m : ℕ) {n1 n2 nc : ℕ}
    (hs : cps.shape = [n1, n2, nc]) {i c : ℕ} (hi : i < m) (hc : c < nc) :
    (Obj.contractPointwise [N1, N2] cps m).get (i * nc + c)
      = ∑ j1 ∈ Finset.range n1, ∑ j2 ∈ Finset.range n2,
          (N1.getD i #[]).getD j1 0 * (N2.getD i #[]).getD j2 0
            * cps.get ((j1 * n2 + j2) * nc + c) := by
  rw [contractPointwise_get [N1, N2] cps m nc
    (fun k _ => by
      have := (contractGrid2_size #[N1.getD k #[]] #[N2.getD k #[]] cps hs).2
      simpa using this) hi hc]
  have := contractGrid2_get #[N1.getD i #[]] #[N2.getD i #[]] cps hs (i1 := 0) (i2 := 0)
    (by simp) (by simp) hc
  simpa using this

theorem contractPointwise3_get (N1 N2 N3 : Mat K) (cps : Tensor K) (m : ℕ) {n1 n2 n3 nc : ℕ}
    (hs : cps.shape = [n1, n2, n3, nc]) {i c : ℕ} (hi : i < m) (hc : c < nc) :
    (Obj.contractPointwise [N1, N2, N3] cps m).get (i * nc + c)
      = ∑ j1 ∈ Finset.range n1, ∑ j2 ∈ Finset.range n2, ∑ j3 ∈ Finset.range n3,
          (N1.getD i #[]).getD j1 0 * (N2.getD i #[]).getD j2 0 * (N3.getD i #[]).getD j3 0
            * cps.get (((j1 * n2 + j2) * n3 + j3) * nc + c) := by
  rw [contractPointwise_get [N1, N2, N3] cps m nc
    (fun k _ => by
      have := (contractGrid3_size #[N1.getD k #[]] #[N2.getD k #[]] #[N3.getD k #[]] cps hs).2
      simpa using this) hi hc]
  have := contractGrid3_get #[N1.getD i #[]] #[N2.getD i #[]] #[N3.getD i #[]] cps hs
    (i1 := 0) (i2 := 0) (i3 := 0) (by simp) (by simp) (by simp) hc
  simpa using this

theorem contractPointwise_size_of_shape (Ns : List (Mat K)) (cps : Tensor K) (m nc : ℕ)
    (hnc : cps.shape.getLastD 1 = nc)
    (hsz : ∀ i, i < m →
      (Obj.contractGrid (Ns.map (fun N => #[N.getD i #[]])) cps).data.size = nc) :
    (Obj.contractPointwise Ns cps m).shape = [m, nc] ∧
      (Obj.contractPointwise Ns cps m).data.size = m * nc := by
  refine ⟨by rw [contractPointwise_shape, hnc], ?_⟩
  have := contractPointwise_wf Ns cps m (by rw [hnc]; exact hsz)
  rw [Tensor.WF, contractPointwise_shape, hnc] at this
  rw [this]; simp [prod]

end Pointwise

/-! ## `mapLast` and `project` (division by the weight) -/

section Project

open Tensor

variable {K : Type} [Field K]

theorem map_range_getD {α : Type} (g : ℕ → α) (n : ℕ) {i : ℕ} (hi : i < n) (d : α) :
    ((List.range n).map g).getD i d = g i := by
  simp [List.getD_eq_getElem?_getD, hi]

theorem map_range_toArray_getD {α : Type} (g : ℕ → α) (n : ℕ) {i : ℕ} (hi : i < n) (d : α) :
    ((List.range n).map g).toArray.getD i d = g i := by
  rw [Array.getD_eq_getD_getElem?]
  simp [hi]

/-- The rows pushed by `mapLast`. -/
def mapLastRow (t : Tensor K) (m : ℕ) (f : Array K → Array K) (pI : ℕ) : Array K :=
  ((List.range m).map (fun c =>
    (f (t.data.extract (pI * t.shape.getLastD 1)
      (pI * t.shape.getLastD 1 + t.shape.getLastD 1))).getD c 0)).toArray

theorem mapLast_data (t : Tensor K) (m : ℕ) (f : Array K → Array K) :
    (t.mapLast m f).data
      = ((List.range (t.size / t.shape.getLastD 1)).map (mapLastRow t m f)).foldl (· ++ ·) #[] := by
  unfold mapLast
  simp only []
  rw [List.foldl_map]
  simp [mapLastRow, List.range_eq_range', List.getLastD_eq_getLast?]

theorem mapLast_shape (t : Tensor K) (m : ℕ) (f : Array K → Array K) :
    (t.mapLast m f).shape = t.shape.dropLast ++ [m] := rfl

theorem mapLast_data_size (t : Tensor K) (m : ℕ) (f : Array K → Array K) :
    (t.mapLast m f).data.size = t.size / t.shape.getLastD 1 * m := by
  rw [mapLast_data, foldl_append_size _ _ m]
  · simp
  · intro r hr
    rw [List.mem_map] at hr
    obtain ⟨j, _, rfl⟩ := hr
    simp [mapLastRow]

/-- Entry formula of `mapLast`: point `pI`, new component `c`. -/
theorem mapLast_get (t : Tensor K) (m : ℕ) (f : Array K → Array K) {pI c : ℕ}
    (hp : pI < t.size / t.shape.getLastD 1) (hc : c < m) :
    (t.mapLast m f).get (pI * m + c)
      = (f (t.data.extract (pI * t.shape.getLastD 1)
          (pI * t.shape.getLastD 1 + t.shape.getLastD 1))).getD c 0 := by
  unfold Tensor.get
  rw [mapLast_data]
  have h := foldl_append_getD
    ((List.range (t.size / t.shape.getLastD 1)).map (mapLastRow t m f)) #[] m 0
    (by
      intro r hr
      rw [List.mem_map] at hr
      obtain ⟨j, _, rfl⟩ := hr
      simp [mapLastRow])
    (by simp) (i := pI) (c := c) (by simpa using hp) hc 0
  rw [Nat.zero_add] at h
  rw [h, map_range_getD _ _ hp]
  unfold mapLastRow
  rw [map_range_toArray_getD _ _ hc]

theorem extract_getD (a : Array K) (s e c : ℕ) (hc : s + c < e) (d : K) :
    (a.extract s e).getD c d = a.getD (s + c) d := by
  rw [Array.getD_eq_getD_getElem?, Array.getD_eq_getD_getElem?, Array.getElem?_extract]
  split_ifs with h
  · rfl
  · have h2 : a.size ≤ s + c := by
      rcases Nat.le_total e a.size with h3 | h3
      · rw [Nat.min_eq_left h3] at h; omega
      · rw [Nat.min_eq_right h3] at h; omega
    rw [Array.getElem?_eq_none h2]

/-- Entry formula of `project` (division by the weight component `dim`). -/
theorem project_get (t : Tensor K) (dim nc : ℕ) (hnc : t.shape.getLastD 1 = nc) (hd : dim < nc)
    {pI c : ℕ} (hp : pI < t.size / nc) (hc : c < dim) :
    (Obj.project t dim).get (pI * dim + c)
      = t.get (pI * nc + c) / t.get (pI * nc + dim) := by
  unfold Obj.project
  rw [mapLast_get t dim _ (by rw [hnc]; exact hp) hc, hnc, getD_ofFn _ hc]
  simp only []
  rw [extract_getD _ _ _ _ (by omega), extract_getD _ _ _ _ (by omega)]
  rfl

theorem project_shape (t : Tensor K) (dim : ℕ) :
    (Obj.project t dim).shape = t.shape.dropLast ++ [dim] := rfl

theorem project_data_size (t : Tensor K) (dim : ℕ) :
    (Obj.project t dim).data.size = t.size / t.shape.getLastD 1 * dim :=
  mapLast_data_size _ _ _

end Project

end Splipy
