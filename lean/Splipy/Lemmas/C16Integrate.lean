import Splipy.Lemmas.C10Cummax
import Splipy.Lemmas.C16Model
import Splipy.Lemmas.EvalRow
import Splipy.Properties.C01

/-!
# C16: the executable `Basis.integrate` computes `intF(t1) − intF(t0)` (from `Basis.Valid` alone)
-/

namespace Splipy

variable {K : Type} [Field K] [LinearOrder K] [IsStrictOrderedRing K]

namespace Basis

omit [LinearOrder K] [IsStrictOrderedRing K] in
theorem augKnots_size (b : Basis K) : b.augKnots.size = b.knots.size + 2 := by
  simp [augKnots]; omega

omit [LinearOrder K] [IsStrictOrderedRing K] in
theorem aug_size (b : Basis K) : b.aug.knots.size = b.knots.size + 2 := b.augKnots_size

/-- Reading the extended array: position `0` is `knots[0]`, position `j ≥ 1` is `knots[j-1]`, the
last one `knots[-1]` again. -/
theorem augKnots_getD (b : Basis K) (j : ℕ) (hj : j < b.knots.size + 2) (_hs : 0 < b.knots.size) :
    b.augKnots.getD j 0 = b.kn (j - 1) := by
  unfold augKnots
  rcases Nat.lt_or_ge j (b.knots.size + 1) with h1 | h1
  · rcases Nat.eq_zero_or_pos j with h0 | h0
    · subst h0
      simp [Array.getD]
    · have hj1 : j - 1 < b.knots.size := by omega
      have : ¬ j < 1 := by omega
      simp [Array.getD, Array.getElem_push, Array.getElem_append, this, b.kn_of_lt hj1]
      rw [if_pos (by omega), dif_pos hj1]
  · have hj' : j = b.knots.size + 1 := by omega
    subst hj'
    have e : 1 + b.knots.size = b.knots.size + 1 := by omega
    simp [Array.getD, Array.getElem_push]
    exact (b.kn_of_ge (i := b.knots.size) le_rfl).symm

/-- The total knot accessor of the extended basis is the original one shifted by one. -/
theorem aug_kn (b : Basis K) (hs : 0 < b.knots.size) (j : ℕ) : b.aug.kn j = b.kn (j - 1) := by
  have hsz := b.aug_size
  rcases Nat.lt_or_ge j (b.knots.size + 2) with h | h
  · have : b.aug.kn j = b.augKnots.getD j 0 := by
      have hj : j < b.aug.knots.size := by omega
      rw [b.aug.kn_of_lt hj]
      simp [aug, Array.getD, b.augKnots_size, h]
    rw [this, b.augKnots_getD j h hs]
  · rw [b.aug.kn_of_ge (by omega), hsz]
    have h1 : b.knots.size + 2 - 1 < b.aug.knots.size := by omega
    have : b.aug.kn (b.knots.size + 2 - 1) = b.augKnots.getD (b.knots.size + 2 - 1) 0 := by
      rw [b.aug.kn_of_lt h1]
      simp [aug, Array.getD, b.augKnots_size]
    rw [this, b.augKnots_getD _ (by omega) hs]
    rw [b.kn_of_ge (i := b.knots.size + 2 - 1 - 1) (by omega), b.kn_of_ge (i := j - 1) (by omega)]

theorem aug_kn_succ (b : Basis K) (hs : 0 < b.knots.size) (j : ℕ) : b.aug.kn (j + 1) = b.kn j := by
  rw [b.aug_kn hs]; rfl

omit [IsStrictOrderedRing K] in
theorem Valid.size_pos {b : Basis K} (hv : b.Valid) : 0 < b.knots.size := by
  have := hv.size_ge; have := hv.order_pos; omega

theorem aug_start {b : Basis K} (hv : b.Valid) : b.aug.start = b.start := by
  unfold start
  rw [b.aug_kn hv.size_pos]
  rfl

theorem aug_stop {b : Basis K} (hv : b.Valid) : b.aug.stop = b.stop := by
  unfold stop
  rw [b.aug_kn hv.size_pos, b.aug_size]
  have := hv.size_ge
  have : b.knots.size + 2 - b.aug.order - 1 = b.knots.size - b.order := by
    show b.knots.size + 2 - (b.order + 1) - 1 = b.knots.size - b.order
    omega
  rw [this]

omit [IsStrictOrderedRing K] in
theorem aug_nAll {b : Basis K} (hv : b.Valid) : b.aug.nAll = b.nAll + 1 := by
  have := hv.size_ge
  show b.aug.knots.size - (b.order + 1) = b.knots.size - b.order + 1
  rw [b.aug_size]; omega

theorem aug_numFunctions {b : Basis K} (hv : b.Valid) : b.aug.numFunctions = b.nAll + 1 := by
  rw [numFunctions_of_nonperiodic (b := b.aug) rfl, aug_nAll hv]

/-- The integration basis of a valid basis is valid (non-periodic, same domain). -/
theorem aug_valid {b : Basis K} (hv : b.Valid) : b.aug.Valid where
  order_pos := by show 1 ≤ b.order + 1; omega
  size_ge := by
    have := hv.size_ge
    rw [b.aug_size]; show 2 * (b.order + 1) ≤ b.knots.size + 2; omega
  sorted := by
    intro i _
    rw [b.aug_kn hv.size_pos, b.aug_kn hv.size_pos]
    exact hv.kn_mono (by omega)
  periodic_ge := by show (-1 : Int) ≤ -1; exact le_rfl
  periodic_le := Or.inr rfl
  start_lt_stop := by rw [aug_start hv, aug_stop hv]; exact hv.start_lt_stop
  ghosts := by
    intro h
    exact absurd h (by show ¬ (0 : Int) ≤ -1; decide)

/-- A parameter that is exact for `b` is exact for the integration basis (same knot values). -/
theorem aug_exactAt {b : Basis K} (hv : b.Valid) {tol t : K} (h : b.ExactAt tol t) :
    b.aug.ExactAt tol t := by
  intro i hi
  rw [b.aug_size] at hi
  rw [b.aug_kn hv.size_pos]
  rcases Nat.lt_or_ge (i - 1) b.knots.size with h1 | h1
  · exact h (i - 1) h1
  · rw [b.kn_of_ge h1]
    exact h (b.knots.size - 1) (by have := hv.size_pos; omega)

/-- The constructor call `BSplineBasis(p + 1, knot)` of `integrate` succeeds and returns `b.aug`. -/
theorem mk?_augKnots {b : Basis K} (hv : b.Valid) {tol : K} (htol : 0 < tol) :
    mk? (b.order + 1) b.augKnots (-1) tol = .ok b.aug := by
  have hsz := b.augKnots_size
  have hge := hv.size_ge
  unfold mk?
  simp only []
  have hmax : max (-1 : Int) (-1) = -1 := max_self _
  rw [if_neg (by omega), if_neg (by rw [hsz]; omega), hmax]
  rw [if_neg (by rintro ⟨h, -⟩; exact absurd h (by decide))]
  rw [if_neg (by rintro ⟨h, -⟩; exact absurd h (by decide))]
  have hsort : ∀ i, i + 1 < b.augKnots.size → b.augKnots.getD i 0 ≤ b.augKnots.getD (i + 1) 0 := by
    intro i hi
    rw [hsz] at hi
    rw [b.augKnots_getD (i+1) (by omega) hv.size_pos, b.augKnots_getD i (by omega) hv.size_pos]
    exact hv.kn_mono (show i - 1 ≤ i + 1 - 1 by omega)
  rw [if_neg, cummax_of_sorted _ hsort]
  · rfl
  · rw [Bool.not_eq_true, List.any_eq_false]
    intro i hi
    rw [List.mem_range] at hi
    rw [decide_eq_true_eq, not_lt]
    have := hsort i (by omega)
    linarith

/-- The side on which `evaluate(t)` (default `from_right=True`) evaluates: from the right, except
at the domain end. -/
def intSide (b : Basis K) (t : K) : Side := if t = b.stop then .left else .right

variable [FloorRing K]

/-- C01 for the integration basis: the evaluated row holds the order-`p+1` B-spline values. -/
theorem aug_evaluate_getD {b : Basis K} (hv : b.Valid) {tol t : K} (htol : 0 < tol)
    (hex : b.ExactAt tol t) (h1 : b.start ≤ t) (h2 : t ≤ b.stop) {j : ℕ} (hj : j < b.nAll + 1) :
    (b.aug.evaluate tol t 0 true).getD j 0 = B (b.intSide t) b.aug.kn b.order j t := by
  have h := C01_value_deriv_open (b := b.aug) (aug_valid hv) rfl htol (aug_exactAt hv hex)
    (by rw [aug_start hv]; exact h1) (by rw [aug_stop hv]; exact h2) (fromRight := true)
    (by simp) (d := 0) (by show 0 < b.order + 1; omega) (c := j)
    (by rw [aug_numFunctions hv]; exact hj)
  rw [h, dB_zero]
  have e : effSide b.aug t true = b.intSide t := by
    unfold effSide intSide
    rw [aug_stop hv]
    simp
  rw [e]
  rfl

/-- **The list `N[1:]` of `integrate`**: `nAll` entries, entry `c` is
`intF(t1) − intF(t0)` for the extended index `c+1`. -/
theorem integrateRaw_spec {b : Basis K} (hv : b.Valid) {tol t0 t1 : K} (htol : 0 < tol)
    (hex0 : b.ExactAt tol t0) (hex1 : b.ExactAt tol t1)
    (h0 : b.start ≤ t0) (h0' : t0 ≤ b.stop) (h1 : b.start ≤ t1) (h1' : t1 ≤ b.stop) :
    (b.integrateRaw b.aug tol t0 t1).size = b.nAll ∧
    ∀ c, c < b.nAll → (b.integrateRaw b.aug tol t0 t1).getD c 0
      = intF (b.intSide t1) b.aug.kn (b.order - 1) (b.nAll + 1) (c + 1) t1
        - intF (b.intSide t0) b.aug.kn (b.order - 1) (b.nAll + 1) (c + 1) t0 := by
  have hs0 : (b.aug.evaluate tol t0 0 true).size = b.nAll + 1 := by
    rw [evaluate_size, aug_numFunctions hv]
  have hp := hv.order_pos
  have e : b.order - 1 + 1 = b.order := by omega
  have hnp := hv.nAll_add
  unfold integrateRaw
  simp only []
  constructor
  · simp [hs0]
  · intro c hc
    have hget : ((Array.ofFn (n := (b.aug.evaluate tol t0 0 true).size) (fun i =>
          integrateEntry b.augKnots b.order (b.aug.evaluate tol t0 0 true)
            (b.aug.evaluate tol t1 0 true) i.val)).extract 1
          (Array.ofFn (n := (b.aug.evaluate tol t0 0 true).size) (fun i =>
          integrateEntry b.augKnots b.order (b.aug.evaluate tol t0 0 true)
            (b.aug.evaluate tol t1 0 true) i.val)).size).getD c 0
        = integrateEntry b.augKnots b.order (b.aug.evaluate tol t0 0 true)
            (b.aug.evaluate tol t1 0 true) (c + 1) := by
      have hlt : c < (b.aug.evaluate tol t0 0 true).size - 1 := by rw [hs0]; omega
      simp [Array.getD, hlt, Nat.add_comm]
    rw [hget]
    have h := integrateEntry_eq_intF b.augKnots b.aug.kn (b.order - 1)
      (b.aug.evaluate tol t0 0 true) (b.aug.evaluate tol t1 0 true) (c + 1)
      (by rw [hs0]; omega)
      (by rw [b.augKnots_getD _ (by omega) hv.size_pos, b.aug_kn hv.size_pos])
      (by rw [b.augKnots_getD _ (by omega) hv.size_pos, b.aug_kn hv.size_pos]
          congr 1)
      (b.intSide t0) (b.intSide t1) t0 t1
      (by intro j hj; rw [hs0] at hj; rw [e]; exact aug_evaluate_getD hv htol hex0 h0 h0' hj)
      (by intro j hj; rw [hs0] at hj; rw [e]; exact aug_evaluate_getD hv htol hex1 h1 h1' hj)
    rw [e, hs0] at h
    exact h

/-- The spec-level value of entry `i` (original numbering) of `integrate(t0,t1)` before the
periodic collapse: `intF(t1) − intF(t0)` on the extended knots, extended index `i+1`. -/
def intEntry (b : Basis K) (t0 t1 : K) (i : ℕ) : K :=
  intF (b.intSide t1) b.aug.kn (b.order - 1) (b.nAll + 1) (i + 1) t1
    - intF (b.intSide t0) b.aug.kn (b.order - 1) (b.nAll + 1) (i + 1) t0

/-- `integrate` up to the collapse, for limits inside the domain. -/
theorem integrate_eq {b : Basis K} (hv : b.Valid) {tol t0 t1 : K} (htol : 0 < tol)
    (h0 : b.start ≤ t0) (h1' : t1 ≤ b.stop) :
    b.integrate tol t0 t1
      = if b.periodic > -1 then b.integrateCollapse (b.integrateRaw b.aug tol t0 t1)
        else .ok (b.integrateRaw b.aug tol t0 t1) := by
  unfold integrate
  rw [if_neg (by rintro ⟨-, h | h⟩ <;> [exact absurd h (not_lt.mpr h0); exact absurd h (not_lt.mpr h1')])]
  simp only []
  rw [mk?_augKnots hv htol, max_eq_left h0, min_eq_left h1']

/-- **Non-periodic basis**: `integrate(t0,t1)` returns `nAll` numbers, number `c` is `intEntry c`. -/
theorem integrate_nonperiodic {b : Basis K} (hv : b.Valid) (hper : b.periodic = -1) {tol t0 t1 : K}
    (htol : 0 < tol) (hex0 : b.ExactAt tol t0) (hex1 : b.ExactAt tol t1)
    (h0 : b.start ≤ t0) (h0' : t0 ≤ b.stop) (h1 : b.start ≤ t1) (h1' : t1 ≤ b.stop) :
    ∃ r, b.integrate tol t0 t1 = .ok r ∧ r.size = b.numFunctions ∧
      ∀ c, c < b.numFunctions → r.getD c 0 = b.intEntry t0 t1 c := by
  obtain ⟨hs, hg⟩ := integrateRaw_spec hv htol hex0 hex1 h0 h0' h1 h1'
  refine ⟨b.integrateRaw b.aug tol t0 t1, ?_, ?_, ?_⟩
  · rw [integrate_eq hv htol h0 h1', if_neg (by rw [hper]; decide)]
  · rw [hs, numFunctions_of_nonperiodic hper]
  · intro c hc
    rw [numFunctions_of_nonperiodic hper] at hc
    exact hg c hc

/-- **Periodic basis**: `integrate(t0,t1)` returns `num_functions` numbers, number `c` is the sum
of `intEntry i` over all images `i ≡ c (mod num_functions)`. -/
theorem integrate_periodic {b : Basis K} (hv : b.Valid) (hper : 0 ≤ b.periodic) {tol t0 t1 : K}
    (htol : 0 < tol) (hex0 : b.ExactAt tol t0) (hex1 : b.ExactAt tol t1)
    (h0 : b.start ≤ t0) (h0' : t0 ≤ b.stop) (h1 : b.start ≤ t1) (h1' : t1 ≤ b.stop) :
    ∃ r, b.integrate tol t0 t1 = .ok r ∧ r.size = b.numFunctions ∧
      ∀ c, c < b.numFunctions → r.getD c 0
        = ∑ i ∈ (Finset.range b.nAll).filter (fun i => i % b.numFunctions = c),
            b.intEntry t0 t1 i := by
  obtain ⟨hs, hg⟩ := integrateRaw_spec hv htol hex0 hex1 h0 h0' h1 h1'
  have hn := hv.numFunctions_pos
  have hnf : b.numFunctions = b.nAll - (b.periodic + 1).toNat := rfl
  have hle := hv.order_le_nAll
  have hp := hv.order_pos
  rw [integrate_eq hv htol h0 h1', if_pos (by omega)]
  unfold integrateCollapse
  simp only []
  rw [hs, if_neg (by omega), if_neg (by omega), if_neg (by omega), ← hnf]
  refine ⟨_, rfl, by simp, ?_⟩
  intro c hc
  have : (Array.ofFn (n := b.numFunctions) (fun (c : Fin b.numFunctions) =>
      (List.range b.nAll).foldl (fun acc i => if i % b.numFunctions = c.val
        then acc + (b.integrateRaw b.aug tol t0 t1).getD i 0 else acc) 0)).getD c 0
      = (List.range b.nAll).foldl (fun acc i => if i % b.numFunctions = c
        then acc + (b.integrateRaw b.aug tol t0 t1).getD i 0 else acc) 0 := by
    simp [Array.getD, hc]
  rw [this, foldl_range_cond_sum, Finset.sum_filter]
  apply Finset.sum_congr rfl
  intro i hi
  rw [Finset.mem_range] at hi
  rw [hg i hi]
  rfl

end Basis

end Splipy
