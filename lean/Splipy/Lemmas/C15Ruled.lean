import Splipy.Lemmas.C15Identical
import Splipy.Lemmas.C15Section
import Splipy.Model.Sections

/-!
# The two-input branch of `edge_curves` / `edge_surfaces` (`Obj.ruled`) through `make_splines_identical`
-/

set_option linter.unusedSectionVars false

namespace Splipy
namespace C15

open C06 C12 Obj Basis

variable {K : Type} [Field K] [LinearOrder K] [IsStrictOrderedRing K] [FloorRing K]

theorem ncomp_eq_dim_add {o : Obj K} (h : o.WF) :
    o.ncomp = o.dimension + (if o.rational then 1 else 0) := by
  have := h.ncomp_pos
  unfold Obj.dimension
  split_ifs <;> omega

/-- After `make_splines_compatible` both objects have the same number of homogeneous components. -/
theorem makeCompatible_ncomp {o1 o2 : Obj K} (h1 : o1.WF) (h2 : o2.WF) :
    (makeCompatible o1 o2).1.ncomp = (makeCompatible o1 o2).2.ncomp := by
  obtain ⟨e1, e2, d1, d2, r1, r2⟩ := makeCompatible_spec h1 h2
  rw [ncomp_eq_dim_add e1.wf, ncomp_eq_dim_add e2.wf, d1, d2, r1, r2]

/-- `make_splines_identical(c1, c2)` (default `direction=None`) on two curve objects is the single
    call for direction 0 on the compatible pair. -/
theorem makeIdentical_curves (tol : K) (cf1 cf2 : Bool) (c1 c2 : Obj K) (h1 : c1.WF) (h2 : c2.WF)
    (hsz : (makeCompatible c1 c2).1.bases.size = 1) :
    makeIdentical tol cf1 cf2 c1 c2 none = identicalDir tol cf1 cf2 (makeCompatible c1 c2) 0 := by
  show identicalLoop tol cf1 cf2 (List.range (makeCompatible c1 c2).1.pardimB) (makeCompatible c1 c2) = _
  have hp : (makeCompatible c1 c2).1.pardimB = 1 := hsz
  rw [hp]
  have hr1 : List.range 1 = [0] := rfl
  rw [hr1]
  simp only [identicalLoop, makeIdenticalDir]
  rw [makeCompatible_idem h1 h2, hp]
  have hcd : Splipy.checkDirection (.int ((0 : ℕ) : Int)) 1 = .ok 0 := by decide
  simp only [hcd]
  cases identicalDir tol cf1 cf2 (makeCompatible c1 c2) 0 <;> rfl

/-- **Two clamped curves of different orders / knots / rationality / dimension → ruled surface.**
    `s = make_splines_compatible(c1, c2)`, `a` the pair after `reparam`; hypotheses exactly those of
    `C12_open_curves`.  Then the model of `edge_curves(c1, c2)` succeeds with the surface on
    `(common basis) × BSplineBasis(2)` whose control net is the two made-identical curves stacked;
    both are exact rescalings of the inputs, and both are well formed. -/
theorem ruled_curves (tol : K) (htol : 0 < tol) (p1 p2 : ℕ) (hp1 : 2 ≤ p1) (hp2 : 2 ≤ p2)
    (x0 xl : K) (L : List (K × ℕ × ℕ)) (hm : ∀ e ∈ L, e.2.1 ≤ p1 - 1 ∧ e.2.2 ≤ p2 - 1)
    (hgap : Splipy.Separated (2 * ((max p1 p2 - 1 : ℕ) : K) * tol) (clampedU x0 xl (L.map (·.1))))
    (c1 c2 : Obj K) (h1 : c1.WF) (h2 : c2.WF) (a : Obj K × Obj K)
    (hw1 : C06.WF (makeCompatible c1 c2).1 1) (hw2 : C06.WF (makeCompatible c1 c2).2 1)
    (ha : stageReparam (makeCompatible c1 c2) 0 = .ok a)
    (hb1 : a.1.basis 0 = openBasis p1 (clampedU x0 xl (L.map (·.1))) (clampedM p1 (L.map (·.2.1))))
    (hb2 : a.2.basis 0 = openBasis p2 (clampedU x0 xl (L.map (·.1))) (clampedM p2 (L.map (·.2.2)))) :
    ∃ r : Obj K × Obj K,
      Obj.ruled tol true c1 c2 = .ok { bases := r.1.bases.push linearBasis,
                                       cps := stack2 r.1.cps r.2.cps, rational := r.1.rational }
      ∧ r.1.basis 0 = openBasis (max p1 p2) (clampedU x0 xl (L.map (·.1)))
          (clampedM (max p1 p2) (L.map (fun e =>
            max (raisedMult (max p1 p2 - p1) e.2.1) (raisedMult (max p1 p2 - p2) e.2.2))))
      ∧ r.2.basis 0 = r.1.basis 0
      ∧ Rescaled 1 0 ((makeCompatible c1 c2).1.basis 0).start ((makeCompatible c1 c2).1.basis 0).stop
          (makeCompatible c1 c2).1 r.1
      ∧ Rescaled 1 0 ((makeCompatible c1 c2).2.basis 0).start ((makeCompatible c1 c2).2.basis 0).stop
          (makeCompatible c1 c2).2 r.2
      ∧ C06.WF r.1 1 ∧ C06.WF r.2 1 ∧ r.2.cps.shape = r.1.cps.shape
      ∧ identicalDir tol true true (makeCompatible c1 c2) 0 = .ok r := by
  have hfac : tol ≤ 2 * ((max p1 p2 - 1 : ℕ) : K) * tol := by
    have h : (1 : K) ≤ ((max p1 p2 - 1 : ℕ) : K) := by
      have : 1 ≤ max p1 p2 - 1 := by have := le_max_left p1 p2; omega
      exact_mod_cast this
    nlinarith
  obtain ⟨_, _, ha1, ha2⟩ := stageReparam_ok ha
  have hwa1 := (reparam_rescaled hw1 0 ha1).2.1
  have hwa2 := (reparam_rescaled hw2 0 ha2).2.1
  obtain ⟨r, hr, hb, hbb, _, hre1, hre2, hwr1, hwr2⟩ :=
    identicalDir_open_wf (m := 1) tol htol true true p1 p2 hp1 hp2 x0 xl L (separated_mono hfac hgap) 0
      (by decide) (makeCompatible c1 c2) a hw1 hw2 ha hb1 hb2
      (fun _ => raisesTo_curve tol htol p1 (max p1 p2) hp1 (le_max_left _ _) x0 xl L (·.1) (·.2.1)
        (fun e he => (hm e he).1) hgap a.1 hwa1 hb1 true)
      (fun _ => raisesTo_curve tol htol p2 (max p1 p2) hp2 (le_max_right _ _) x0 xl L (·.1) (·.2.2)
        (fun e he => (hm e he).2) hgap a.2 hwa2 hb2 true)
  have hshape : r.2.cps.shape = r.1.cps.shape := by
    rw [hwr1.shape, hwr2.shape, hre1.ncomp, hre2.ncomp, makeCompatible_ncomp h1 h2]
    congr 1
    funext d
    have : d = 0 := Subsingleton.elim d 0
    subst this
    show (r.2.basis ((0 : Fin 1) : ℕ)).numFunctions = (r.1.basis ((0 : Fin 1) : ℕ)).numFunctions
    rw [hbb]
  refine ⟨r, ?_, hb, hbb, hre1, hre2, hwr1, hwr2, hshape, hr⟩
  have hr' : identicalDir tol true true (makeCompatible c1 c2) 0 = .ok r := hr
  unfold Obj.ruled
  rw [makeIdentical_curves tol true true c1 c2 h1 h2 hw1.size, hr']
  simp only [hshape, ne_eq, not_true_eq_false, if_false]

/-! ## The sections of a ruled surface are the two (made identical) curves -/

open Tensor Sections in
/-- Control array of a well-formed curve object: shape `[n, nc]`, and `getIdx [j, c]` is the flat
    entry `j * nc + c`. -/
theorem curve_shape {o : Obj K} (hw : C06.WF o 1) :
    o.cps.shape = [(o.basis 0).numFunctions, o.ncomp] := by
  rw [hw.shape]; simp [midx]

theorem getIdx_pair (t : Tensor K) (n nc j c : ℕ) (hs : t.shape = [n, nc]) :
    t.getIdx [j, c] = t.get (j * nc + c) := by
  unfold Tensor.getIdx
  rw [hs]
  simp [Tensor.ravel, Tensor.prod]

theorem bases_of_size_one {o : Obj K} (h : o.bases.size = 1) : o.bases.toList = [o.basis 0] := by
  have hl : o.bases.toList.length = 1 := by simpa using h
  match hb : o.bases.toList, hl with
  | [b], _ =>
    have : o.basis 0 = b := by
      unfold Obj.basis
      rw [Array.getD_eq_getD_getElem?, ← Array.getElem?_toList, hb]
      rfl
    rw [this]

open Tensor Sections in
/-- **Sections of the ruled surface built from two curves with the same control-array shape**: the
    `v = 0` (`sel = some 0`) resp. `v = -1` section returned by the model's `section` is a `Curve` on
    the first curve's basis whose control net is, entry by entry, the net of the first resp. second
    curve. -/
theorem ruled_section (r1 r2 : Obj K) (hw1 : C06.WF r1 1) (hsh : r2.cps.shape = r1.cps.shape)
    (last : Bool) (unwrap : Bool) :
    ∃ cpsA : Tensor K,
      ({ bases := r1.bases.push linearBasis, cps := stack2 r1.cps r2.cps, rational := r1.rational } : Obj K).sectionSel
          [none, some (if last then -1 else 0)] unwrap
        = .ok (.obj "Curve" { bases := #[r1.basis 0], cps := cpsA, rational := r1.rational })
      ∧ cpsA.shape = r1.cps.shape
      ∧ ∀ j c, j < (r1.basis 0).numFunctions → c < r1.ncomp →
          cpsA.get (j * r1.ncomp + c) = (if last then r2 else r1).cps.get (j * r1.ncomp + c) := by
  set n := (r1.basis 0).numFunctions with hn
  set nc := r1.ncomp with hnc
  have hs1 : r1.cps.shape = [n, nc] := curve_shape hw1
  have hs2 : r2.cps.shape = [n, nc] := hsh.trans hs1
  set srf : Obj K := { bases := r1.bases.push linearBasis, cps := stack2 r1.cps r2.cps, rational := r1.rational }
  have hss : srf.cps.shape = [n, 2, nc] := stack2_shape r1.cps r2.cps [n] nc hs1
  let D : Dir K := ⟨(r1.basis 0).kn, (r1.basis 0).order - 1, n⟩
  let ds : List (Dir K × BSel) := [(D, .free), (linDir, if last then .hi else .lo)]
  have hsel : selOf ds = [none, some (if last then -1 else 0)] := by
    cases last <;> rfl
  have hdims : dimsOf ds = [n, 2] := by cases last <;> rfl
  have hfix : FixedPos ds := by
    cases last
    · exact ⟨by show 1 ≤ (linDir : Dir K).n; simp [linDir], trivial⟩
    · exact ⟨by show 1 ≤ (linDir : Dir K).n; simp [linDir], trivial⟩
  obtain ⟨cps', h1, h2, h3⟩ := sectionSel_boundary srf ds nc (by rw [hss, hdims]; rfl) hfix unwrap
  have hfree : freeDims (idxOf ds) (dimsOf ds) = [n] := by cases last <;> rfl
  have hbl : srf.bases.toList = [r1.basis 0, linearBasis] := by
    show (r1.bases.push linearBasis).toList = _
    rw [Array.toList_push, bases_of_size_one hw1.size]
    rfl
  have hfb : Obj.freeBases srf.bases.toList (selOf ds) = [r1.basis 0] := by
    rw [hbl, hsel]; rfl
  refine ⟨cps', ?_, by rw [h1, hfree, hs1]; rfl, ?_⟩
  · rw [← hsel, h3, hfb]
    simp [Obj.className]
    rfl
  · intro j c hj hc
    have e := h2 [j] c (by rw [hfree]; exact List.Forall₂.cons hj List.Forall₂.nil) hc
    have hcs : cps'.shape = [n, nc] := by rw [h1, hfree]; rfl
    rw [← getIdx_pair cps' n nc j c hcs]
    show cps'.getIdx ([j] ++ [c]) = _
    rw [e]
    cases last
    · show srf.cps.getIdx ([j] ++ [0, c]) = _
      rw [stack2_getIdx r1.cps r2.cps [n] nc hs1 hs2 [j] 0 c
        (List.Forall₂.cons hj List.Forall₂.nil) (by omega) hc]
      simp only [if_true, Bool.false_eq_true, if_false]
      exact getIdx_pair r1.cps n nc j c hs1
    · show srf.cps.getIdx ([j] ++ [(linDir : Dir K).n - 1, c]) = _
      have e2 : (linDir : Dir K).n - 1 = 1 := by simp [linDir]
      rw [e2, stack2_getIdx r1.cps r2.cps [n] nc hs1 hs2 [j] 1 c
        (List.Forall₂.cons hj List.Forall₂.nil) (by omega) hc]
      simp only [one_ne_zero, if_false, if_true]
      exact getIdx_pair r2.cps n nc j c hs2

end C15
end Splipy
