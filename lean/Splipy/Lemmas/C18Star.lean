import Splipy.Lemmas.C18NumberingE

/-!
# C18 — soundness of the decidable guard `starOK`
-/

set_option linter.unusedSectionVars false

namespace Splipy.MP.C18L

open Splipy.MP

variable {γ : Type} [Inhabited γ]

theorem wellOrdered_of_B (plans : List PatchPlan) (h : wellOrderedB plans = true) : WellOrdered plans := by
  intro k p hp f hf ho v hv
  unfold wellOrderedB at h
  rw [List.all_eq_true] at h
  have h1 := h (p, k) (List.mk_mem_zipIdx_iff_getElem?.2 hp)
  rw [List.all_eq_true] at h1
  have h2 := h1 f hf
  simp only [ho, hv, Bool.false_or, decide_eq_true_eq] at h2
  exact h2

theorem compat_of_B : ∀ (ns : List (NdArr ℤ)) (ps : List (NdArr γ)), compatB ns ps = true → Compat ns ps
  | [], [], _ => List.Forall₂.nil
  | n :: ns, p :: ps, h => by
    simp only [compatB, Bool.and_eq_true, beq_iff_eq] at h
    exact List.Forall₂.cons ⟨h.1.1, h.1.2⟩ (compat_of_B ns ps h.2)
  | [], _ :: _, h => by simp [compatB] at h
  | _ :: _, [], h => by simp [compatB] at h

theorem flagged_of_B (p : PatchPlan) (q : ℕ) (hq : q < shapeSize p.shape) (h : flaggedB p q = true) : Flagged p q := by
  by_contra hn
  have := ((flagArray_spec p).2 q hq).2 hn
  unfold flaggedB at h
  have h' : (flagArray p).data.getD q 0 = -1 := by simpa using h
  have e : (flagArray p).data.getD q 0 = (flagArray p).data.getD q default := rfl
  rw [e, this] at h'
  exact absurd h' (by decide)

theorem getD_of_getElem? {plans : List PatchPlan} {k : ℕ} {p : PatchPlan} (h : plans[k]? = some p) :
    plans.getD k default = p := by
  rw [List.getD_eq_getElem?_getD, h]; rfl

/-- **soundness of `starOK`**: it implies all hypotheses of the numbering theorem. -/
theorem starOK_sound [DecidableEq γ] (plans : List PatchPlan) (P : List (NdArr γ)) (h : starOK plans P = true) :
    Compat (generateAll plans 0).1 P ∧ readAllG plans P.toArray = .ok P.toArray ∧
    (∀ p ∈ allData P, p ≠ default) ∧ WellOrdered plans ∧
    (∀ k k' q q', ValidPos plans k q → ValidPos plans k' q' → k' < k → ptAt P k q = ptAt P k' q' →
      ∃ p, plans[k]? = some p ∧ Flagged p q) ∧
    (∀ k q q', ValidPos plans k q → ValidPos plans k q' → ptAt P k q = ptAt P k q' → q = q') := by
  unfold starOK at h
  simp only [Bool.and_eq_true, decide_eq_true_eq] at h
  obtain ⟨⟨⟨⟨⟨h1, h2⟩, h3⟩, h4⟩, h5⟩, h6⟩ := h
  refine ⟨compat_of_B _ _ h1, h2, ?_, wellOrdered_of_B _ h4, ?_, ?_⟩
  · intro x hx
    obtain ⟨a, ha, hxa⟩ := List.mem_flatMap.1 hx
    rw [List.all_eq_true] at h3
    have := h3 a ha
    rw [Array.all_eq_true'] at this
    have := this x (by simpa using hxa)
    simpa using this
  · intro k k' q q' ⟨p, hp, hq⟩ ⟨p', hp', hq'⟩ hlt hpt
    refine ⟨p, hp, ?_⟩
    unfold starB at h5
    rw [List.all_eq_true] at h5
    have hk : k < plans.length := (List.getElem?_eq_some_iff.1 hp).1
    have a1 := h5 k (List.mem_range.2 hk)
    simp only [getD_of_getElem? hp] at a1
    rw [List.all_eq_true] at a1
    have a2 := a1 q (List.mem_range.2 hq)
    rw [Bool.or_eq_true] at a2
    rcases a2 with a2 | a2
    · exact flagged_of_B p q hq a2
    · exfalso
      rw [List.all_eq_true] at a2
      have a3 := a2 k' (List.mem_range.2 hlt)
      simp only [getD_of_getElem? hp'] at a3
      rw [List.all_eq_true] at a3
      have a4 := a3 q' (List.mem_range.2 hq')
      simp [hpt] at a4
  · intro k q q' ⟨p, hp, hq⟩ ⟨p', hp', hq'⟩ hpt
    rw [hp] at hp'; cases hp'
    unfold injB at h6
    rw [List.all_eq_true] at h6
    have hk : k < plans.length := (List.getElem?_eq_some_iff.1 hp).1
    have a1 := h6 k (List.mem_range.2 hk)
    simp only [getD_of_getElem? hp] at a1
    rw [List.all_eq_true] at a1
    by_contra hne
    rcases Nat.lt_or_gt_of_ne hne with hlt | hlt
    · have a2 := a1 q' (List.mem_range.2 hq')
      rw [List.all_eq_true] at a2
      have a3 := a2 q (List.mem_range.2 hlt)
      simp [hpt] at a3
    · have a2 := a1 q (List.mem_range.2 hq)
      rw [List.all_eq_true] at a2
      have a3 := a2 q' (List.mem_range.2 hlt)
      simp [hpt] at a3

end Splipy.MP.C18L
