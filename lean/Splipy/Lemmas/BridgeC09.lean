import Splipy.Lemmas.BridgeTransfer
import Splipy.Properties.C09

/-!
# Bridge (p11), part 4: affine operations and `Obj.evaluate`

* `inplace_dropLast` — no C09 operation changes the parametric part of the control-net shape;
* `affine_entries` — from `IsEval` of the original and of the transformed object (same weight
  families over the same number of control points) to "entries of the new result = affine image
  of the entries of the old result" (`C09_affine_commutes`).
-/

namespace Splipy
namespace Bridge

set_option linter.unusedSectionVars false

open Finset Obj C09

section shape
variable {K : Type} [Field K]

theorem mapCps_dropLast (o : Obj K) (m : ℕ) (rat : Bool) (f : Array K → Array K) :
    (o.mapCps m rat f).cps.shape.dropLast = o.cps.shape.dropLast := by
  show (o.cps.mapLast m f).shape.dropLast = _
  rw [Tensor.mapLast_shape, List.dropLast_concat]

theorem affineCp_dropLast (o : Obj K) (M : ℕ → ℕ → K) (tr : ℕ → K) :
    (o.affineCp M tr).cps.shape.dropLast = o.cps.shape.dropLast := by
  rw [affineCp_eq]; exact mapCps_dropLast _ _ _ _

theorem setDimension_dropLast (o : Obj K) (n : ℕ) :
    (o.setDimension n).cps.shape.dropLast = o.cps.shape.dropLast := by
  rw [setDimension_eq]; exact mapCps_dropLast _ _ _ _

theorem forceRational_dropLast (o : Obj K) :
    o.forceRational.cps.shape.dropLast = o.cps.shape.dropLast := by
  cases hr : o.rational with
  | true => rw [forceRational_of_rational o hr]
  | false => rw [forceRational_eq o hr]; exact mapCps_dropLast _ _ _ _

theorem projectPlane_dropLast (o : Obj K) (keep : List Bool) :
    (o.projectPlane keep).cps.shape.dropLast = o.cps.shape.dropLast := by
  rw [projectPlane_eq]; exact mapCps_dropLast _ _ _ _

theorem translate_dropLast (o : Obj K) (x : List K) :
    (o.translate x).cps.shape.dropLast = o.cps.shape.dropLast := by
  rw [translate_eq, affineCp_dropLast]
  split_ifs
  · exact setDimension_dropLast _ _
  · rfl

end shape

section ops
variable {K : Type} [Field K] [LinearOrder K]

theorem scale_dropLast {o o' : Obj K} (s : List K) (hs : o.scale s = .ok o') :
    o'.cps.shape.dropLast = o.cps.shape.dropLast := by
  rw [scale_eq] at hs
  split_ifs at hs
  injection hs with hs; subst hs
  exact affineCp_dropLast _ _ _

theorem mirror_dropLast {o o' : Obj K} (n : List K) (hs : o.mirror n = .ok o') :
    o'.cps.shape.dropLast = o.cps.shape.dropLast := by
  rw [mirror_eq] at hs
  split_ifs at hs
  injection hs with hs; subst hs
  exact affineCp_dropLast _ _ _

theorem rotatePromoted_dropLast (o : Obj K) (n : List K) :
    (rotatePromoted o n).cps.shape.dropLast = o.cps.shape.dropLast := by
  unfold rotatePromoted
  split_ifs
  · rfl
  · exact setDimension_dropLast _ _

theorem rotate_dropLast {o o' : Obj K} (ch sh : K) (n u : List K)
    (hs : o.rotate ch sh n u = .ok o') : o'.cps.shape.dropLast = o.cps.shape.dropLast := by
  rw [rotate_eq] at hs
  split_ifs at hs
  · injection hs with hs; subst hs
    rw [affineCp_dropLast, rotatePromoted_dropLast]
  · injection hs with hs; subst hs
    rw [affineCp_dropLast, rotatePromoted_dropLast]

theorem translateChecked_dropLast {o o' : Obj K} (x : List K)
    (hs : o.translateChecked x = .ok o') : o'.cps.shape.dropLast = o.cps.shape.dropLast := by
  unfold translateChecked at hs
  split_ifs at hs
  injection hs with hs; subst hs
  exact translate_dropLast _ _

theorem scaleArgs_dropLast {o o' : Obj K} (args : List (ScaleArg K))
    (hs : o.scaleArgs args = .ok o') : o'.cps.shape.dropLast = o.cps.shape.dropLast := by
  unfold scaleArgs at hs
  cases hn : Obj.scaleNums o.dimension args with
  | error e => rw [hn] at hs; cases hs
  | ok nums => rw [hn] at hs; exact scale_dropLast nums hs

/-- No C09 operation touches the parametric part of the control-net shape. -/
theorem inplace_dropLast {o o' : Obj K} (op : AffOp K) (hs : op.inplace o = .ok o') :
    o'.cps.shape.dropLast = o.cps.shape.dropLast := by
  cases op with
  | translate x => exact translateChecked_dropLast x hs
  | iadd x => exact translateChecked_dropLast x hs
  | add x => exact translateChecked_dropLast x hs
  | radd x => exact translateChecked_dropLast x hs
  | isub x => exact translateChecked_dropLast _ hs
  | sub x => exact translateChecked_dropLast _ hs
  | scale args => exact scaleArgs_dropLast args hs
  | imul a => exact scaleArgs_dropLast [a] hs
  | mul a => exact scaleArgs_dropLast [a] hs
  | rmul a => exact scaleArgs_dropLast [a] hs
  | itruediv a =>
    simp only [AffOp.inplace] at hs
    cases hr : AffOp.recip a with
    | error e => rw [hr] at hs; cases hs
    | ok r => rw [hr] at hs; exact scaleArgs_dropLast [r] hs
  | div a =>
    simp only [AffOp.inplace] at hs
    cases hr : AffOp.recip a with
    | error e => rw [hr] at hs; cases hs
    | ok r => rw [hr] at hs; exact scaleArgs_dropLast [r] hs
  | rotate ch sh n u => exact rotate_dropLast ch sh n u hs
  | mirror n => exact mirror_dropLast n hs
  | project keep =>
    simp only [AffOp.inplace, projectChecked] at hs
    split_ifs at hs
    injection hs with hs; subst hs
    exact projectPlane_dropLast _ _
  | setDimension n =>
    simp only [AffOp.inplace] at hs
    injection hs with hs; subst hs
    exact setDimension_dropLast _ _
  | forceRational =>
    simp only [AffOp.inplace] at hs
    injection hs with hs; subst hs
    exact forceRational_dropLast _

/-- … nor by a sequence of them. -/
theorem run_dropLast (ops : List (AffOp K)) {o o' : Obj K} (hs : AffOp.run o ops = .ok o') :
    o'.cps.shape.dropLast = o.cps.shape.dropLast := by
  induction ops generalizing o with
  | nil =>
    simp only [AffOp.run, List.foldlM_nil] at hs
    injection hs with hs; subst hs; rfl
  | cons op rest ih =>
    simp only [AffOp.run, List.foldlM_cons] at hs
    cases h1 : op.inplace o with
    | error e => rw [h1] at hs; cases hs
    | ok o1 =>
      rw [h1] at hs
      exact (ih hs).trans (inplace_dropLast op h1)

/-- Shape of the transformed control net: parametric part ++ new number of components. -/
theorem shape_of_acts {o o' : Obj K} {A : HomAffine K} (hA : Acts o o' A) {pre : List ℕ}
    {nc : ℕ} (hs : o.cps.shape = pre ++ [nc])
    (hd : o'.cps.shape.dropLast = o.cps.shape.dropLast) : o'.cps.shape = pre ++ [o'.ncomp] := by
  rw [hA.wf.shape_eq, hd, hs, List.dropLast_concat]

end ops

section eval
variable {K : Type} [Field K] [LinearOrder K] [IsStrictOrderedRing K] [FloorRing K]

/-- **Affine image, entrywise.**  `o'` arises from `o` by the action `A` (`Obj.Acts`); both
results are `IsEval` with the same weight families `W p` over the same control points; the
families sum to one and, for a rational object, all weights are positive.  Then every point of the
new result is `A` applied to the (zero-padded) point of the old result. -/
theorem affine_entries {o o' : Obj K} {A : HomAffine K} (hA : Acts o o' A)
    {M : ℕ} {W : ℕ → ℕ → K} {res res' : Tensor K}
    (h : IsEval o o.npts M W res) (h' : IsEval o' o.npts M W res')
    (hconv : ∀ p, p < M → Convex o.npts (W p))
    (hw : o.rational = true → ∀ k, k < o.npts → 0 < o.cpWt k)
    {p c : ℕ} (hp : p < M) (hc : c < o'.dimension) :
    res'.get (p * o'.dimension + c)
      = A.apply (fun c => if c < o.dimension then res.get (p * o.dimension + c) else 0) c := by
  have hW : homW (range o.npts) (W p) o.cpWt ≠ 0 := by
    cases hr : o.rational with
    | false =>
      have : homW (range o.npts) (W p) o.cpWt = 1 := by
        unfold homW Obj.cpWt
        simp only [hr, Bool.false_eq_true, if_false, mul_one]
        exact (hconv p hp).2
      rw [this]; exact one_ne_zero
    | true => exact ne_of_gt ((hconv p hp).homW_pos (hw hr))
  have h'' : IsEval o' o'.npts M W res' := by rw [hA.npts]; exact h'
  have e1 := h''.evalPt (fun hr p hp => by
    rw [hA.npts]
    exact (hconv p hp).2) hp hc
  rw [e1, hA.npts, hA.evalPt (range o.npts) (fun i hi => mem_range.mp hi) (W p) hW]
  congr 1
  funext c'
  by_cases hc' : c' < o.dimension
  · rw [if_pos hc']
    exact (h.evalPt (fun hr p hp => (hconv p hp).2) hp hc').symm
  · rw [if_neg hc']
    exact evalPt_beyond o (W p) hc'

/-- `Obj.WF` (C09) and the number of control points from an explicit shape. -/
theorem wf_of_shape {o : Obj K} {pre : List ℕ} {nc : ℕ} (hs : o.cps.shape = pre ++ [nc])
    (hnc : 0 < nc) (hdata : o.cps.data.size = Tensor.prod pre * nc) :
    o.WF ∧ o.npts = Tensor.prod pre ∧ o.ncomp = nc := by
  have hncomp : o.ncomp = nc := (Obj.dimension_of_shape hs).1
  have hsize : o.cps.size = Tensor.prod pre * nc := by
    unfold Tensor.size; rw [hs]; exact Tensor.prod_append_singleton _ _
  refine ⟨⟨by rw [hs]; simp, by rw [hncomp]; exact hnc, by rw [hdata, hsize]⟩, ?_, hncomp⟩
  unfold Obj.npts
  rw [hsize, hncomp, Nat.mul_div_cancel _ hnc]

/-- Positivity of the weights in terms of the flat control array. -/
theorem cpWt_pos {o : Obj K} {nc : ℕ} (hncomp : o.ncomp = nc) {N : ℕ}
    (hw : o.rational = true → ∀ k, k < N → 0 < o.cps.get (k * nc + (nc - 1)))
    (hr : o.rational = true) (k : ℕ) (hk : k < N) : 0 < o.cpWt k := by
  unfold Obj.cpWt Obj.cp Obj.dimension
  rw [hr, hncomp]
  simp only [if_true]
  exact hw hr k hk

/-- Curves: any action `A` on the control points (`Obj.Acts`, parametric shape kept). -/
theorem acts_curve {o o' : Obj K} {A : HomAffine K} (hA : Acts o o' A)
    (hd : o'.cps.shape.dropLast = o.cps.shape.dropLast) {b1 : Basis K} (hb : o.bases = #[b1])
    (hv1 : b1.Valid) {nc : ℕ} (hs : o.cps.shape = [b1.numFunctions, nc]) (hnc : 0 < nc)
    (hdata : o.cps.data.size = b1.numFunctions * nc)
    (hw : o.rational = true → ∀ k, k < b1.numFunctions → 0 < o.cps.get (k * nc + (nc - 1)))
    {tol : K} (htol : 0 < tol) {us : List K} (hus : ∀ u ∈ us, b1.Admissible tol u)
    (hneA1 : b1.periodic < 0 → us ≠ [] := by (first | assumption | (simp; done) | skip)) :
    ∃ res res', o.evaluate tol [us] true = .ok res ∧ o'.evaluate tol [us] true = .ok res' ∧
      res.shape = [us.length, o.dimension] ∧ res'.shape = [us.length, o'.dimension] ∧
      ∀ i c, i < us.length → c < o'.dimension →
        res'.get (i * o'.dimension + c)
          = A.apply (fun c => if c < o.dimension then res.get (i * o.dimension + c) else 0) c := by
  obtain ⟨hwf, hnpts, hncomp⟩ := wf_of_shape (o := o) (pre := [b1.numFunctions]) hs hnc
    (by rw [hdata]; simp [Tensor.prod])
  have hnpts' : o.npts = b1.numFunctions := by rw [hnpts]; simp [Tensor.prod]
  have hs' : o'.cps.shape = [b1.numFunctions, o'.ncomp] :=
    shape_of_acts hA (pre := [b1.numFunctions]) hs hd
  obtain ⟨res, e1, e2, e3⟩ := eval_curve hb hv1 hs (fun _ => hnc) htol hus
  obtain ⟨res', e1', e2', e3'⟩ := eval_curve (hA.bases.trans hb) hv1 hs'
    (fun _ => hA.wf.ncomp_pos) htol hus
  refine ⟨res, res', e1, e1', e2, e2', fun i c hi hc => ?_⟩
  rw [← hnpts'] at e3 e3'
  exact affine_entries hA e3 e3'
    (fun p hp => by rw [hnpts']; exact convex_specRow hv1 htol (hus _ (getD_mem_of_lt us hp 0)))
    (fun hr k hk => cpWt_pos hncomp hw hr k (by rw [← hnpts']; exact hk)) hi hc

/-- Surfaces. -/
theorem acts_surface {o o' : Obj K} {A : HomAffine K} (hA : Acts o o' A)
    (hd : o'.cps.shape.dropLast = o.cps.shape.dropLast) {b1 b2 : Basis K}
    (hb : o.bases = #[b1, b2]) (hv1 : b1.Valid) (hv2 : b2.Valid) {nc : ℕ}
    (hs : o.cps.shape = [b1.numFunctions, b2.numFunctions, nc]) (hnc : 0 < nc)
    (hdata : o.cps.data.size = b1.numFunctions * b2.numFunctions * nc)
    (hw : o.rational = true → ∀ k, k < b1.numFunctions * b2.numFunctions →
      0 < o.cps.get (k * nc + (nc - 1)))
    {tol : K} (htol : 0 < tol) {us vs : List K} (hus : ∀ u ∈ us, b1.Admissible tol u)
    (hvs : ∀ v ∈ vs, b2.Admissible tol v)
    (hneA1 : b1.periodic < 0 → us ≠ [] := by (first | assumption | (simp; done) | skip))
    (hneA2 : b2.periodic < 0 → vs ≠ [] := by (first | assumption | (simp; done) | skip)) :
    ∃ res res', o.evaluate tol [us, vs] true = .ok res ∧
      o'.evaluate tol [us, vs] true = .ok res' ∧
      res.shape = [us.length, vs.length, o.dimension] ∧
      res'.shape = [us.length, vs.length, o'.dimension] ∧
      ∀ i1 i2 c, i1 < us.length → i2 < vs.length → c < o'.dimension →
        res'.get ((i1 * vs.length + i2) * o'.dimension + c)
          = A.apply (fun c => if c < o.dimension
              then res.get ((i1 * vs.length + i2) * o.dimension + c) else 0) c := by
  obtain ⟨hwf, hnpts, hncomp⟩ := wf_of_shape (o := o)
    (pre := [b1.numFunctions, b2.numFunctions]) hs hnc (by rw [hdata]; simp [Tensor.prod])
  have hnpts' : o.npts = b1.numFunctions * b2.numFunctions := by rw [hnpts]; simp [Tensor.prod]
  have hs' : o'.cps.shape = [b1.numFunctions, b2.numFunctions, o'.ncomp] :=
    shape_of_acts hA (pre := [b1.numFunctions, b2.numFunctions]) hs hd
  obtain ⟨res, e1, e2, e3⟩ := eval_surface hb hv1 hv2 hs (fun _ => hnc) htol hus hvs
  obtain ⟨res', e1', e2', e3'⟩ := eval_surface (hA.bases.trans hb) hv1 hv2 hs'
    (fun _ => hA.wf.ncomp_pos) htol hus hvs
  refine ⟨res, res', e1, e1', e2, e2', fun i1 i2 c hi1 hi2 hc => ?_⟩
  rw [← hnpts'] at e3 e3'
  have hp : i1 * vs.length + i2 < us.length * vs.length := by
    calc i1 * vs.length + i2 < i1 * vs.length + vs.length := by omega
      _ = (i1 + 1) * vs.length := by ring
      _ ≤ us.length * vs.length := Nat.mul_le_mul_right _ hi1
  exact affine_entries hA e3 e3'
    (fun p hp => by
      rw [hnpts']
      have hpos : 0 < vs.length := by
        rcases Nat.eq_zero_or_pos vs.length with h0 | h0
        · rw [h0] at hp; omega
        · exact h0
      exact (convex_specRow hv1 htol (hus _ (getD_mem_of_lt us
          (Nat.div_lt_of_lt_mul (by rw [Nat.mul_comm]; exact hp)) 0))).ws
        (convex_specRow hv2 htol (hvs _ (getD_mem_of_lt vs (Nat.mod_lt _ hpos) 0))))
    (fun hr k hk => cpWt_pos hncomp hw hr k (by rw [← hnpts']; exact hk)) hp hc

/-- Volumes. -/
theorem acts_volume {o o' : Obj K} {A : HomAffine K} (hA : Acts o o' A)
    (hd : o'.cps.shape.dropLast = o.cps.shape.dropLast) {b1 b2 b3 : Basis K}
    (hb : o.bases = #[b1, b2, b3]) (hv1 : b1.Valid) (hv2 : b2.Valid) (hv3 : b3.Valid) {nc : ℕ}
    (hs : o.cps.shape = [b1.numFunctions, b2.numFunctions, b3.numFunctions, nc]) (hnc : 0 < nc)
    (hdata : o.cps.data.size = b1.numFunctions * b2.numFunctions * b3.numFunctions * nc)
    (hw : o.rational = true → ∀ k, k < b1.numFunctions * b2.numFunctions * b3.numFunctions →
      0 < o.cps.get (k * nc + (nc - 1)))
    {tol : K} (htol : 0 < tol) {us vs ws : List K} (hus : ∀ u ∈ us, b1.Admissible tol u)
    (hvs : ∀ v ∈ vs, b2.Admissible tol v) (hws : ∀ w ∈ ws, b3.Admissible tol w)
    (hneA1 : b1.periodic < 0 → us ≠ [] := by (first | assumption | (simp; done) | skip))
    (hneA2 : b2.periodic < 0 → vs ≠ [] := by (first | assumption | (simp; done) | skip))
    (hneA3 : b3.periodic < 0 → ws ≠ [] := by (first | assumption | (simp; done) | skip)) :
    ∃ res res', o.evaluate tol [us, vs, ws] true = .ok res ∧
      o'.evaluate tol [us, vs, ws] true = .ok res' ∧
      res.shape = [us.length, vs.length, ws.length, o.dimension] ∧
      res'.shape = [us.length, vs.length, ws.length, o'.dimension] ∧
      ∀ i1 i2 i3 c, i1 < us.length → i2 < vs.length → i3 < ws.length → c < o'.dimension →
        res'.get (((i1 * vs.length + i2) * ws.length + i3) * o'.dimension + c)
          = A.apply (fun c => if c < o.dimension
              then res.get (((i1 * vs.length + i2) * ws.length + i3) * o.dimension + c)
              else 0) c := by
  obtain ⟨hwf, hnpts, hncomp⟩ := wf_of_shape (o := o)
    (pre := [b1.numFunctions, b2.numFunctions, b3.numFunctions]) hs hnc
    (by rw [hdata]; simp [Tensor.prod])
  have hnpts' : o.npts = b1.numFunctions * b2.numFunctions * b3.numFunctions := by
    rw [hnpts]; simp [Tensor.prod]
  have hs' : o'.cps.shape = [b1.numFunctions, b2.numFunctions, b3.numFunctions, o'.ncomp] :=
    shape_of_acts hA (pre := [b1.numFunctions, b2.numFunctions, b3.numFunctions]) hs hd
  obtain ⟨res, e1, e2, e3⟩ := eval_volume hb hv1 hv2 hv3 hs (fun _ => hnc) htol hus hvs hws
  obtain ⟨res', e1', e2', e3'⟩ := eval_volume (hA.bases.trans hb) hv1 hv2 hv3 hs'
    (fun _ => hA.wf.ncomp_pos) htol hus hvs hws
  refine ⟨res, res', e1, e1', e2, e2', fun i1 i2 i3 c hi1 hi2 hi3 hc => ?_⟩
  rw [← hnpts'] at e3 e3'
  have hp12 : i1 * vs.length + i2 < us.length * vs.length := by
    calc i1 * vs.length + i2 < i1 * vs.length + vs.length := by omega
      _ = (i1 + 1) * vs.length := by ring
      _ ≤ us.length * vs.length := Nat.mul_le_mul_right _ hi1
  have hp : (i1 * vs.length + i2) * ws.length + i3 < us.length * vs.length * ws.length := by
    calc (i1 * vs.length + i2) * ws.length + i3
        < (i1 * vs.length + i2) * ws.length + ws.length := by omega
      _ = (i1 * vs.length + i2 + 1) * ws.length := by ring
      _ ≤ us.length * vs.length * ws.length := Nat.mul_le_mul_right _ hp12
  exact affine_entries hA e3 e3'
    (fun p hp => by
      rw [hnpts']
      obtain ⟨h1, h2, h3⟩ := vol_idx hp
      exact Convex.wv (convex_specRow hv1 htol (hus _ (getD_mem_of_lt us h1 0)))
        (convex_specRow hv2 htol (hvs _ (getD_mem_of_lt vs h2 0)))
        (convex_specRow hv3 htol (hws _ (getD_mem_of_lt ws h3 0))))
    (fun hr k hk => cpWt_pos hncomp hw hr k (by rw [← hnpts']; exact hk)) hp hc

/-! ### `tensor=False` -/

omit [LinearOrder K] [IsStrictOrderedRing K] [FloorRing K] in
/-- From the grid form to the pointwise form along a diagonal index map. -/
theorem affine_diag {A : HomAffine K} {d d' m : ℕ} {rg rg' rp rp' : Tensor K} (diag : ℕ → ℕ)
    (hg : ∀ i c, i < m → c < d' → rg'.get (diag i * d' + c)
      = A.apply (fun c => if c < d then rg.get (diag i * d + c) else 0) c)
    (hp : ∀ i c, i < m → c < d → rp.get (i * d + c) = rg.get (diag i * d + c))
    (hp' : ∀ i c, i < m → c < d' → rp'.get (i * d' + c) = rg'.get (diag i * d' + c))
    {i c : ℕ} (hi : i < m) (hc : c < d') :
    rp'.get (i * d' + c) = A.apply (fun c => if c < d then rp.get (i * d + c) else 0) c := by
  rw [hp' i c hi hc, hg i c hi hc]
  congr 1
  funext c'
  by_cases h : c' < d
  · rw [if_pos h, if_pos h, hp i c' hi h]
  · rw [if_neg h, if_neg h]

/-- Curves, `tensor=False`. -/
theorem acts_curve_pw {o o' : Obj K} {A : HomAffine K} (hA : Acts o o' A)
    (hd : o'.cps.shape.dropLast = o.cps.shape.dropLast) {b1 : Basis K} (hb : o.bases = #[b1])
    (hv1 : b1.Valid) {nc : ℕ} (hs : o.cps.shape = [b1.numFunctions, nc]) (hnc : 0 < nc)
    (hdata : o.cps.data.size = b1.numFunctions * nc)
    (hw : o.rational = true → ∀ k, k < b1.numFunctions → 0 < o.cps.get (k * nc + (nc - 1)))
    {tol : K} (htol : 0 < tol) {us : List K} (hus : ∀ u ∈ us, b1.Admissible tol u)
    (hneA1 : b1.periodic < 0 → us ≠ [] := by (first | assumption | (simp; done) | skip)) :
    ∃ rp rp', o.evaluate tol [us] false = .ok rp ∧ o'.evaluate tol [us] false = .ok rp' ∧
      rp.shape = [us.length, o.dimension] ∧ rp'.shape = [us.length, o'.dimension] ∧
      ∀ i c, i < us.length → c < o'.dimension →
        rp'.get (i * o'.dimension + c)
          = A.apply (fun c => if c < o.dimension then rp.get (i * o.dimension + c) else 0) c := by
  obtain ⟨rg0, rg0', g1, g1', _, _, hg⟩ := acts_curve hA hd hb hv1 hs hnc hdata hw htol hus
  have hs' : o'.cps.shape = [b1.numFunctions, o'.ncomp] :=
    shape_of_acts hA (pre := [b1.numFunctions]) hs hd
  have hb' := hA.bases.trans hb
  obtain ⟨rg, rp, e1, e2, sh, _, ent⟩ := Obj.evaluate1_pointwise_diag hb hs (fun _ => hnc) tol us
    (Obj.not_outOfDomain1 hb hv1 htol hus)
  obtain ⟨rg', rp', e1', e2', sh', _, ent'⟩ := Obj.evaluate1_pointwise_diag hb' hs'
    (fun _ => hA.wf.ncomp_pos) tol us (Obj.not_outOfDomain1 hb' hv1 htol hus)
  rw [g1] at e1; injection e1 with e1; subst e1
  rw [g1'] at e1'; injection e1' with e1'; subst e1'
  exact ⟨rp, rp', e2, e2', sh, sh', fun i c hi hc =>
    affine_diag (m := us.length) (fun i => i) hg ent ent' hi hc⟩

/-- Surfaces, `tensor=False` (lists of equal length). -/
theorem acts_surface_pw {o o' : Obj K} {A : HomAffine K} (hA : Acts o o' A)
    (hd : o'.cps.shape.dropLast = o.cps.shape.dropLast) {b1 b2 : Basis K}
    (hb : o.bases = #[b1, b2]) (hv1 : b1.Valid) (hv2 : b2.Valid) {nc : ℕ}
    (hs : o.cps.shape = [b1.numFunctions, b2.numFunctions, nc]) (hnc : 0 < nc)
    (hdata : o.cps.data.size = b1.numFunctions * b2.numFunctions * nc)
    (hw : o.rational = true → ∀ k, k < b1.numFunctions * b2.numFunctions →
      0 < o.cps.get (k * nc + (nc - 1)))
    {tol : K} (htol : 0 < tol) {us vs : List K} (hlen : vs.length = us.length)
    (hus : ∀ u ∈ us, b1.Admissible tol u) (hvs : ∀ v ∈ vs, b2.Admissible tol v)
    (hneA1 : b1.periodic < 0 → us ≠ [] := by (first | assumption | (simp; done) | skip))
    (hneA2 : b2.periodic < 0 → vs ≠ [] := by (first | assumption | (simp; done) | skip)) :
    ∃ rp rp', o.evaluate tol [us, vs] false = .ok rp ∧
      o'.evaluate tol [us, vs] false = .ok rp' ∧
      rp.shape = [us.length, o.dimension] ∧ rp'.shape = [us.length, o'.dimension] ∧
      ∀ i c, i < us.length → c < o'.dimension →
        rp'.get (i * o'.dimension + c)
          = A.apply (fun c => if c < o.dimension then rp.get (i * o.dimension + c) else 0) c := by
  obtain ⟨rg0, rg0', g1, g1', _, _, hg⟩ :=
    acts_surface hA hd hb hv1 hv2 hs hnc hdata hw htol hus hvs
  have hs' : o'.cps.shape = [b1.numFunctions, b2.numFunctions, o'.ncomp] :=
    shape_of_acts hA (pre := [b1.numFunctions, b2.numFunctions]) hs hd
  have hb' := hA.bases.trans hb
  obtain ⟨rg, rp, e1, e2, sh, _, ent⟩ := Obj.evaluate2_pointwise_diag hb hs (fun _ => hnc) tol
    us vs hlen (Obj.not_outOfDomain2 hb hv1 hv2 htol hus hvs)
  obtain ⟨rg', rp', e1', e2', sh', _, ent'⟩ := Obj.evaluate2_pointwise_diag hb' hs'
    (fun _ => hA.wf.ncomp_pos) tol us vs hlen (Obj.not_outOfDomain2 hb' hv1 hv2 htol hus hvs)
  rw [g1] at e1; injection e1 with e1; subst e1
  rw [g1'] at e1'; injection e1' with e1'; subst e1'
  exact ⟨rp, rp', e2, e2', sh, sh', fun i c hi hc =>
    affine_diag (m := us.length) (fun i => i * vs.length + i)
      (fun i c hi hc => hg i i c hi (by rw [hlen]; exact hi) hc) ent ent' hi hc⟩

/-- Volumes, `tensor=False` (lists of equal length). -/
theorem acts_volume_pw {o o' : Obj K} {A : HomAffine K} (hA : Acts o o' A)
    (hd : o'.cps.shape.dropLast = o.cps.shape.dropLast) {b1 b2 b3 : Basis K}
    (hb : o.bases = #[b1, b2, b3]) (hv1 : b1.Valid) (hv2 : b2.Valid) (hv3 : b3.Valid) {nc : ℕ}
    (hs : o.cps.shape = [b1.numFunctions, b2.numFunctions, b3.numFunctions, nc]) (hnc : 0 < nc)
    (hdata : o.cps.data.size = b1.numFunctions * b2.numFunctions * b3.numFunctions * nc)
    (hw : o.rational = true → ∀ k, k < b1.numFunctions * b2.numFunctions * b3.numFunctions →
      0 < o.cps.get (k * nc + (nc - 1)))
    {tol : K} (htol : 0 < tol) {us vs ws : List K} (hlen2 : vs.length = us.length)
    (hlen3 : ws.length = us.length) (hus : ∀ u ∈ us, b1.Admissible tol u)
    (hvs : ∀ v ∈ vs, b2.Admissible tol v) (hws : ∀ w ∈ ws, b3.Admissible tol w)
    (hneA1 : b1.periodic < 0 → us ≠ [] := by (first | assumption | (simp; done) | skip))
    (hneA2 : b2.periodic < 0 → vs ≠ [] := by (first | assumption | (simp; done) | skip))
    (hneA3 : b3.periodic < 0 → ws ≠ [] := by (first | assumption | (simp; done) | skip)) :
    ∃ rp rp', o.evaluate tol [us, vs, ws] false = .ok rp ∧
      o'.evaluate tol [us, vs, ws] false = .ok rp' ∧
      rp.shape = [us.length, o.dimension] ∧ rp'.shape = [us.length, o'.dimension] ∧
      ∀ i c, i < us.length → c < o'.dimension →
        rp'.get (i * o'.dimension + c)
          = A.apply (fun c => if c < o.dimension then rp.get (i * o.dimension + c) else 0) c := by
  obtain ⟨rg0, rg0', g1, g1', _, _, hg⟩ :=
    acts_volume hA hd hb hv1 hv2 hv3 hs hnc hdata hw htol hus hvs hws
  have hs' : o'.cps.shape = [b1.numFunctions, b2.numFunctions, b3.numFunctions, o'.ncomp] :=
    shape_of_acts hA (pre := [b1.numFunctions, b2.numFunctions, b3.numFunctions]) hs hd
  have hb' := hA.bases.trans hb
  obtain ⟨rg, rp, e1, e2, sh, _, ent⟩ := Obj.evaluate3_pointwise_diag hb hs (fun _ => hnc) tol
    us vs ws hlen2 hlen3 (Obj.not_outOfDomain3 hb hv1 hv2 hv3 htol hus hvs hws)
  obtain ⟨rg', rp', e1', e2', sh', _, ent'⟩ := Obj.evaluate3_pointwise_diag hb' hs'
    (fun _ => hA.wf.ncomp_pos) tol us vs ws hlen2 hlen3
    (Obj.not_outOfDomain3 hb' hv1 hv2 hv3 htol hus hvs hws)
  rw [g1] at e1; injection e1 with e1; subst e1
  rw [g1'] at e1'; injection e1' with e1'; subst e1'
  exact ⟨rp, rp', e2, e2', sh, sh', fun i c hi hc =>
    affine_diag (m := us.length) (fun i => (i * vs.length + i) * ws.length + i)
      (fun i c hi hc => hg i i i c hi (by rw [hlen2]; exact hi) (by rw [hlen3]; exact hi) hc)
      ent ent' hi hc⟩

end eval

end Bridge
end Splipy
