import Splipy.Lemmas.C10Tensor
import Splipy.Lemmas.C04Refine
import Splipy.Model.History
import Mathlib.Tactic.FieldSimp
import Mathlib.Tactic.Linarith
import Mathlib.Algebra.Order.BigOperators.Group.Finset

/-!
# C10 helper lemmas: knot insertion and `refine` along a non-periodic direction keep an object well formed

The matrix `C` returned by `BSplineBasis.insert_knot` for a non-periodic basis is *row stochastic*:
every entry is `≥ 0` and every row sums to `1` (each new control point is a convex combination of old
ones).  Products of row-stochastic matrices are row stochastic, and a row-stochastic matrix maps a
positive vector to a positive vector — hence the weights of a rational object stay positive.

* `C10.RowStochastic`, `C10.rowStochastic_identity`, `C10.RowStochastic.mul`,
  `C10.RowStochastic.mulVec_pos`;
* `C10.insertKnot_stochastic` (one insertion), `C10.insertMany_stochastic` (the accumulated matrix);
* `Obj.WellFormed.insertKnots` (object level);
* `History.stepOut_insertKnot_wf`, `History.stepOut_refine_wf` (the two history steps).
-/

set_option linter.unusedSectionVars false

namespace Splipy

variable {K : Type} [Field K] [LinearOrder K] [IsStrictOrderedRing K] [FloorRing K]

namespace C10

/-! ## row-stochastic matrices -/

/-- `C` is a `rows × cols` array with non-negative entries whose rows sum to one. -/
def RowStochastic (rows cols : ℕ) (C : Mat K) : Prop :=
  C04.Shape rows cols C ∧ (∀ r c, r < rows → c < cols → 0 ≤ C04.entry C r c) ∧
    (∀ r, r < rows → (Finset.range cols).sum (fun c => C04.entry C r c) = 1)

theorem entry_identity (n r c : ℕ) (hr : r < n) (hc : c < n) :
    C04.entry (Mat.identity n : Mat K) r c = if r = c then 1 else 0 := by
  unfold Mat.identity
  exact C04.entry_ofFn2 n n (fun i j => if i = j then (1:K) else 0) r c hr hc

theorem rowStochastic_identity (n : ℕ) : RowStochastic n n (Mat.identity n : Mat K) := by
  refine ⟨C04.shape_identity n, fun r c hr hc => ?_, fun r hr => ?_⟩
  · rw [entry_identity n r c hr hc]
    split_ifs
    · exact zero_le_one
    · exact le_refl _
  · rw [Finset.sum_congr rfl (fun c hc => entry_identity n r c hr (Finset.mem_range.1 hc)),
      Finset.sum_ite_eq, if_pos (Finset.mem_range.2 hr)]

theorem RowStochastic.mul {a m n : ℕ} {A B : Mat K} (hA : RowStochastic a m A)
    (hB : RowStochastic m n B) (hm : 0 < m) : RowStochastic a n (Mat.mul A B) := by
  refine ⟨C04.shape_mul hA.1 hB.1 hm, fun r c hr hc => ?_, fun r hr => ?_⟩
  · rw [C04.entry_mul hA.1 hB.1 hm r c hr hc]
    exact Finset.sum_nonneg (fun l hl => mul_nonneg (hA.2.1 r l hr (Finset.mem_range.1 hl))
      (hB.2.1 l c (Finset.mem_range.1 hl) hc))
  · rw [Finset.sum_congr rfl (fun c hc => C04.entry_mul hA.1 hB.1 hm r c hr (Finset.mem_range.1 hc)),
      Finset.sum_comm]
    have : ∀ l ∈ Finset.range m, (Finset.range n).sum (fun c => C04.entry A r l * C04.entry B l c)
        = C04.entry A r l := by
      intro l hl
      rw [← Finset.mul_sum, hB.2.2 l (Finset.mem_range.1 hl), mul_one]
    rw [Finset.sum_congr rfl this]
    exact hA.2.2 r hr

/-- A row-stochastic matrix maps positive vectors to positive vectors. -/
theorem RowStochastic.mulVec_pos {rows cols : ℕ} {C : Mat K} (h : RowStochastic rows cols C)
    (w : ℕ → K) (hw : ∀ j, j < cols → 0 < w j) (r : ℕ) (hr : r < rows) :
    0 < C04.mulVec C cols w r := by
  unfold C04.mulVec
  apply Finset.sum_pos'
  · intro j hj
    exact mul_nonneg (h.2.1 r j hr (Finset.mem_range.1 hj)) (le_of_lt (hw j (Finset.mem_range.1 hj)))
  · by_contra hcon
    have hz : ∀ j ∈ Finset.range cols, C04.entry C r j = 0 := by
      intro j hj
      have h1 := h.2.1 r j hr (Finset.mem_range.1 hj)
      rcases lt_or_eq_of_le h1 with h2 | h2
      · exact absurd ⟨j, hj, mul_pos h2 (hw j (Finset.mem_range.1 hj))⟩ hcon
      · exact h2.symm
    have := h.2.2 r hr
    rw [Finset.sum_eq_zero hz] at this
    exact zero_ne_one this

/-! ## the closed form `codeF` of the insertion matrix is row stochastic -/

theorem gd_nonneg (τ : ℕ → K) (hτ : Monotone τ) (x : K) (p c : ℕ) (hp : 1 ≤ p) (hc : τ c ≤ x) :
    0 ≤ C04.gd τ x p c := by
  unfold C04.gd
  split_ifs
  · exact zero_le_one
  · exact div_nonneg (sub_nonneg.2 hc) (sub_nonneg.2 (hτ (by omega)))

theorem gs_nonneg (τ : ℕ → K) (hτ : Monotone τ) (x : K) (p c : ℕ) (hp : 1 ≤ p)
    (hc : x ≤ τ (c + p)) : 0 ≤ C04.gs τ x p c := by
  unfold C04.gs
  split_ifs
  · exact zero_le_one
  · exact div_nonneg (sub_nonneg.2 hc) (sub_nonneg.2 (hτ (by omega)))

theorem codeF_nonneg (τ : ℕ → K) (hτ : Monotone τ) (x : K) (n p mu : ℕ) (hp : 1 ≤ p)
    (hlo : ∀ i, i < mu → τ i ≤ x) (hhi : ∀ i, mu ≤ i → i < n + p → x < τ i) (r c : ℕ) (hc : c < n) :
    0 ≤ C04.codeF τ x p mu r c := by
  unfold C04.codeF
  by_cases h1 : c + p < mu
  · rw [if_pos h1]
    split_ifs
    · exact zero_le_one
    · exact le_refl _
  · rw [if_neg h1]
    by_cases h2 : c < mu
    · rw [if_pos h2]
      by_cases h3 : r = c
      · rw [if_pos h3]; exact gd_nonneg τ hτ x p c hp (hlo c h2)
      · rw [if_neg h3]
        by_cases h4 : r = c + 1
        · rw [if_pos h4]
          exact gs_nonneg τ hτ x p c hp (le_of_lt (hhi (c + p) (by omega) (by omega)))
        · rw [if_neg h4]
    · rw [if_neg h2]
      split_ifs
      · exact zero_le_one
      · exact le_refl _

theorem codeF_zero (τ : ℕ → K) (x : K) (p mu r c : ℕ) (h1 : c ≠ r) (h2 : c + 1 ≠ r) :
    C04.codeF τ x p mu r c = 0 := by
  unfold C04.codeF
  split_ifs <;> first | rfl | (exfalso; omega)

/-- A sum with at most the two non-zero terms `f r` and `f (r-1)`. -/
theorem sum_two (f : ℕ → K) (n r : ℕ) (hr : r < n + 1)
    (h0 : ∀ c, c < n → c ≠ r → c + 1 ≠ r → f c = 0) :
    (Finset.range n).sum f = (if r < n then f r else 0) + (if 0 < r then f (r - 1) else 0) := by
  rcases Nat.eq_zero_or_pos r with h | h
  · subst h
    rw [if_neg (Nat.lt_irrefl 0), add_zero]
    by_cases hn : 0 < n
    · rw [if_pos hn]
      exact Finset.sum_eq_single 0
        (fun c hc hne => h0 c (Finset.mem_range.1 hc) hne (by omega))
        (fun hni => absurd (Finset.mem_range.2 hn) hni)
    · have : n = 0 := by omega
      subst this
      simp
  · rw [if_pos h]
    by_cases hn : r < n
    · rw [if_pos hn]
      exact Finset.sum_eq_add r (r - 1) (by omega)
        (fun c hc hne => h0 c (Finset.mem_range.1 hc) hne.1 (by have := hne.2; omega))
        (fun hni => absurd (Finset.mem_range.2 hn) hni)
        (fun hni => absurd (Finset.mem_range.2 (by omega)) hni)
    · rw [if_neg hn, zero_add]
      exact Finset.sum_eq_single (r - 1)
        (fun c hc hne => h0 c (Finset.mem_range.1 hc) (by have := Finset.mem_range.1 hc; omega)
          (by omega))
        (fun hni => absurd (Finset.mem_range.2 (by omega)) hni)

/-- The interior rows (`mu - p < r < mu`): `gd r + gs (r-1) = 1`. -/
theorem gd_add_gs (τ : ℕ → K) (x : K) (p r : ℕ) (hr : 1 ≤ r) (h1 : τ (r - 1) ≤ x) (h2 : τ r ≤ x)
    (h3 : x < τ (r + p - 1)) : C04.gd τ x p r + C04.gs τ x p (r - 1) = 1 := by
  have e1 : r - 1 + p = r + p - 1 := by omega
  have e2 : r - 1 + 1 = r := by omega
  unfold C04.gd C04.gs
  rw [e1, e2, if_neg (fun h => absurd h.1 (not_le.2 h3))]
  by_cases hx : x ≤ τ r
  · have hxe : x = τ r := le_antisymm hx h2
    rw [if_pos ⟨h1, hx⟩, hxe, sub_self, zero_div, zero_add]
  · rw [if_neg (fun h => hx h.2)]
    have hD : τ (r + p - 1) - τ r ≠ 0 := ne_of_gt (sub_pos.2 (lt_of_le_of_lt h2 h3))
    rw [← add_div, div_eq_one_iff_eq hD]
    ring

theorem codeF_row_sum (τ : ℕ → K) (x : K) (n p mu : ℕ) (hp : 1 ≤ p) (hpm : p ≤ mu)
    (hmn : mu ≤ n) (hlo : ∀ i, i < mu → τ i ≤ x) (hhi : ∀ i, mu ≤ i → i < n + p → x < τ i)
    (r : ℕ) (hr : r < n + 1) :
    (Finset.range n).sum (fun c => C04.codeF τ x p mu r c) = 1 := by
  rw [sum_two (fun c => C04.codeF τ x p mu r c) n r hr
    (fun c _ h1 h2 => codeF_zero τ x p mu r c h1 h2)]
  have hxx : τ (mu - 1) ≤ x ∧ x ≤ τ mu := ⟨hlo _ (by omega), le_of_lt (hhi mu le_rfl (by omega))⟩
  rcases Nat.lt_trichotomy r mu with hlt | heq | hgt
  · -- r < mu
    have hrn : r < n := by omega
    rw [if_pos hrn]
    rcases Nat.lt_trichotomy (r + p) mu with h1 | h1 | h1
    · -- untouched row
      have hA : C04.codeF τ x p mu r r = 1 := by
        unfold C04.codeF; rw [if_pos h1, if_pos rfl]
      have hB : (if 0 < r then C04.codeF τ x p mu r (r - 1) else 0) = 0 := by
        split_ifs with h0
        · unfold C04.codeF; rw [if_pos (by omega), if_neg (by omega)]
        · rfl
      rw [hA, hB, add_zero]
    · -- r = mu - p
      have hA : C04.codeF τ x p mu r r = 1 := by
        unfold C04.codeF
        rw [if_neg (by omega), if_pos hlt, if_pos rfl]
        unfold C04.gd
        rw [if_pos]
        rw [show r + p - 1 = mu - 1 by omega, h1]
        exact hxx
      have hB : (if 0 < r then C04.codeF τ x p mu r (r - 1) else 0) = 0 := by
        split_ifs with h0
        · unfold C04.codeF; rw [if_pos (by omega), if_neg (by omega)]
        · rfl
      rw [hA, hB, add_zero]
    · -- mu - p < r < mu
      have h0 : 0 < r := by omega
      rw [if_pos h0]
      have hA : C04.codeF τ x p mu r r = C04.gd τ x p r := by
        unfold C04.codeF; rw [if_neg (by omega), if_pos hlt, if_pos rfl]
      have hB : C04.codeF τ x p mu r (r - 1) = C04.gs τ x p (r - 1) := by
        unfold C04.codeF
        rw [if_neg (by omega), if_pos (by omega), if_neg (by omega), if_pos (by omega)]
      rw [hA, hB]
      exact gd_add_gs τ x p r h0 (hlo _ (by omega)) (hlo _ hlt) (hhi _ (by omega) (by omega))
  · -- r = mu
    subst heq
    have h0 : 0 < r := by omega
    rw [if_pos h0]
    have hA : (if r < n then C04.codeF τ x p r r r else 0) = 0 := by
      split_ifs with h
      · unfold C04.codeF
        rw [if_neg (by omega), if_neg (Nat.lt_irrefl r), if_neg (by omega)]
      · rfl
    have hB : C04.codeF τ x p r r (r - 1) = 1 := by
      unfold C04.codeF
      rw [if_neg (by omega), if_pos (by omega), if_neg (by omega), if_pos (by omega)]
      unfold C04.gs
      rw [if_pos]
      rw [show r - 1 + 1 = r by omega]
      exact hxx
    rw [hA, hB, zero_add]
  · -- r > mu
    have h0 : 0 < r := by omega
    rw [if_pos h0]
    have hA : (if r < n then C04.codeF τ x p mu r r else 0) = 0 := by
      split_ifs with h
      · unfold C04.codeF
        rw [if_neg (by omega), if_neg (by omega), if_neg (by omega)]
      · rfl
    have hB : C04.codeF τ x p mu r (r - 1) = 1 := by
      unfold C04.codeF
      rw [if_neg (by omega), if_neg (by omega), if_pos (by omega)]
    rw [hA, hB, zero_add]

/-! ## one insertion -/

/-- `insertKnot` of a valid non-periodic basis at `start ≤ x < end`, with the matrix named. -/
theorem insertKnot_matC (b : Basis K) (hv : b.Valid) (hper : b.periodic = -1) (x : K)
    (hx : b.start ≤ x ∧ x < b.stop) :
    b.insertKnot x = .ok ({ b with knots := Basis.insertAt b.knots (b.bisectR x) x },
      C04.matC b.kn x b.numFunctions b.order (b.bisectR x)) ∧
    b.order ≤ b.bisectR x ∧ b.bisectR x ≤ b.numFunctions ∧
    b.numFunctions + b.order = b.knots.size ∧
    (∀ i, i < b.bisectR x → b.kn i ≤ x) ∧
    (∀ i, b.bisectR x ≤ i → i < b.numFunctions + b.order → x < b.kn i) := by
  have hmono : Monotone b.kn := C04.kn_mono hv.sorted
  have hp := hv.order_pos
  have hsz := hv.size_ge
  have hμ := C04.guard_of_lt_stop b hv x hx.2
  obtain ⟨hm1, hm2, hm3⟩ := bisectRight_spec b.kn hmono x b.knots.size
  set mu := b.bisectR x with hmu
  have hm1' : mu ≤ b.knots.size := hm1
  have hm2' : ∀ i, i < mu → b.kn i ≤ x := hm2
  have hm3' : ∀ i, mu ≤ i → i < b.knots.size → x < b.kn i := hm3
  have hpm : b.order ≤ mu := by
    by_contra hlt
    have := hm3' (b.order - 1) (by omega) (by omega)
    exact absurd hx.1 (not_le.2 this)
  have hn : b.numFunctions = b.knots.size - b.order := by
    unfold Basis.numFunctions; rw [hper]; simp
  have hmn : mu ≤ b.numFunctions := by omega
  have hns : b.numFunctions + b.order = b.knots.size := by omega
  refine ⟨?_, hpm, hmn, hns, hm2', fun i h1 h2 => hm3' i h1 (by omega)⟩
  rw [C04.insertKnot_eq b x (C04.not_coverCond_of_nonperiodic b (by rw [hper]; decide))
    (fun y _ => C04.insertMu_nonperiodic b (by rw [hper]; decide) y)]
  have hw : C04.wrapX b x = .ok x := by
    unfold C04.wrapX
    rw [if_neg (by rw [hper]; decide),
      if_neg (not_or.2 ⟨not_lt.2 hx.1, not_lt.2 (le_of_lt hx.2)⟩)]
  rw [hw]
  have hidx : ¬ C04.idxErr b x mu := by
    unfold C04.idxErr
    omega
  simp only []
  rw [← hmu, if_neg (by rw [hper]; omega), if_neg (by omega), if_neg hidx]
  unfold C04.repair
  rw [if_neg (by rw [hper]; decide)]

/-- **One insertion is row stochastic.** -/
theorem insertKnot_stochastic (b : Basis K) (hv : b.Valid) (hper : b.periodic = -1) (x : K)
    (hx : b.start ≤ x ∧ x < b.stop) {b' : Basis K} {C : Mat K} (h : b.insertKnot x = .ok (b', C)) :
    RowStochastic (b.numFunctions + 1) b.numFunctions C := by
  obtain ⟨hins, hpm, hmn, hns, hlo, hhi⟩ := insertKnot_matC b hv hper x hx
  rw [hins] at h
  have hC : C = C04.matC b.kn x b.numFunctions b.order (b.bisectR x) := by
    have := Except.ok.inj h
    exact (Prod.mk.inj this).2.symm
  have hmono : Monotone b.kn := C04.kn_mono hv.sorted
  have hp := hv.order_pos
  have hn : 0 < b.numFunctions := by omega
  have hrel := C04.rel_matC b.kn x b.numFunctions b.order (b.bisectR x) hn
  have hxx : b.kn (b.bisectR x - 1) ≤ x ∧ x ≤ b.kn (b.bisectR x) :=
    ⟨hlo _ (by omega), le_of_lt (hhi _ le_rfl (by omega))⟩
  have hent : ∀ r c, r < b.numFunctions + 1 → c < b.numFunctions →
      C04.entry C r c = C04.codeF b.kn x b.order (b.bisectR x) r c := by
    intro r c hr hc
    rw [hC, hrel.2 r c hr hc,
      C04.matF_closed b.kn x b.numFunctions b.order (b.bisectR x) hp hpm hmn hxx r c hc]
  refine ⟨by rw [hC]; exact hrel.1, fun r c hr hc => ?_, fun r hr => ?_⟩
  · rw [hent r c hr hc]
    exact codeF_nonneg b.kn hmono x b.numFunctions b.order (b.bisectR x) hp hlo hhi r c hc
  · rw [Finset.sum_congr rfl (fun c hc => hent r c hr (Finset.mem_range.1 hc))]
    exact codeF_row_sum b.kn x b.numFunctions b.order (b.bisectR x) hp hpm hmn hlo hhi r hr

/-! ## a sequence of insertions -/

theorem insertMany_stochastic_aux (b0 : Basis K) (hv0 : b0.Valid) (hper : b0.periodic = -1)
    (xs : List K) :
    ∀ (b : Basis K) (Cacc : Mat K) (k : ℕ), C04.Refines b0 b Cacc k →
      RowStochastic (b0.numFunctions + k) b0.numFunctions Cacc →
      (∀ x ∈ xs, b0.start ≤ x ∧ x < b0.stop) →
      ∀ {b' : Basis K} {C : Mat K}, C04.insertMany b Cacc xs = .ok (b', C) →
        RowStochastic (b0.numFunctions + (k + xs.length)) b0.numFunctions C := by
  induction xs with
  | nil =>
    intro b Cacc k _ hst _ b' C h
    have : (b, Cacc) = (b', C) := Except.ok.inj h
    rw [← (Prod.mk.inj this).2]
    simpa using hst
  | cons x xs ih =>
    intro b Cacc k href hst hxs b' C h
    have hx := hxs x List.mem_cons_self
    have hper' : b.periodic = -1 := href.periodic_eq.trans hper
    have hxb : b.start ≤ x ∧ x < b.stop := by
      rw [href.start_eq, href.stop_eq]; exact hx
    obtain ⟨b1, C1, hins, hr1, _, _⟩ := C04.insertKnot_open b href.valid hper' x
      ⟨hxb.1, le_of_lt hxb.2⟩ (C04.guard_of_lt_stop b href.valid x hxb.2)
    have hst1 := insertKnot_stochastic b href.valid hper' x hxb hins
    rw [href.num_eq] at hst1
    have hstep : C04.stepIns (b, Cacc) x = .ok (b1, Mat.mul C1 Cacc) := by
      unfold C04.stepIns
      simp only [hins]
      rfl
    unfold C04.insertMany at h
    rw [List.foldlM_cons, hstep] at h
    have hn0 := C04.numFunctions_pos hv0
    have := ih b1 (Mat.mul C1 Cacc) (k + 1) (C04.refines_trans hv0 href hr1)
      (hst1.mul hst (by omega)) (fun y hy => hxs y (List.mem_cons_of_mem _ hy)) h
    have e : k + (x :: xs).length = k + 1 + xs.length := by simp; omega
    rw [e]; exact this

/-- **The accumulated matrix of a sequence of insertions is row stochastic.** -/
theorem insertMany_stochastic (b : Basis K) (hv : b.Valid) (hper : b.periodic = -1) (xs : List K)
    (hxs : ∀ x ∈ xs, b.start ≤ x ∧ x < b.stop) {b' : Basis K} {C : Mat K}
    (h : C04.insertMany b (Mat.identity b.numFunctions) xs = .ok (b', C)) :
    RowStochastic (b.numFunctions + xs.length) b.numFunctions C := by
  have := insertMany_stochastic_aux b hv hper xs b (Mat.identity b.numFunctions) 0
    (C04.refines_refl b hv) (by simpa using rowStochastic_identity b.numFunctions) hxs h
  simpa using this

end C10

/-! ## object level -/

namespace Obj

/-- **`SplineObject.insert_knot` along a non-periodic direction keeps the object well formed.** -/
theorem WellFormed.insertKnots {o o' : Obj K} (h : o.WellFormed) (dir : ℕ) (hd : dir < o.bases.size)
    (hper : (o.basis dir).periodic = -1) (xs : List K)
    (hxs : ∀ x ∈ xs, (o.basis dir).start ≤ x ∧ x < (o.basis dir).stop)
    (hs : o.insertKnots xs dir = .ok o') :
    o'.WellFormed ∧ o'.bases.size = o.bases.size ∧ (∀ d, d ≠ dir → o'.basis d = o.basis d) ∧
      (o'.basis dir).periodic = -1 ∧ (o'.basis dir).start = (o.basis dir).start ∧
      (o'.basis dir).stop = (o.basis dir).stop := by
  have hv := h.valid dir hd
  have hshape : o.cps.shape.getD dir 0 = (o.basis dir).numFunctions := h.shape_getD dir 0 hd
  obtain ⟨b', C, hm, href, _⟩ := C04.insertMany_open (o.basis dir) hv hper xs hxs
  have hst := C10.insertMany_stochastic (o.basis dir) hv hper xs hxs hm
  rw [C04.insertKnots_eq, hshape, hm] at hs
  have ho' : o' = { o with bases := o.bases.set! dir b', cps := Tensor.applyAxis C o.cps dir } :=
    (Except.ok.inj hs).symm
  subst ho'
  have hCsize : C.size = (o.basis dir).numFunctions + xs.length := href.shape.1
  have hmid : (Tensor.split3 o.cps.shape dir).2.1 = (o.basis dir).numFunctions := by
    simp only [Tensor.split3]; exact h.shape_getD dir 1 hd
  have hax1 : dir + 1 < o.cps.shape.length := by rw [h.shape_length]; omega
  refine ⟨?_, ?_, fun d hd' => C04.basis_set_ne o dir d hd' _ _, ?_, ?_, ?_⟩
  · refine h.build3 dir C.size (fun a r i =>
      (List.range (Tensor.split3 o.cps.shape dir).2.1).foldl
        (fun acc j => acc + (C.getD r #[]).getD j 0 * o.cps.at3 dir a j i) 0) b' hd href.valid
      (by rw [href.num_eq, hCsize]) ?_
    intro hr a r i ha hr' hi him
    have e : (List.range (Tensor.split3 o.cps.shape dir).2.1).foldl
        (fun acc j => acc + (C.getD r #[]).getD j 0 * o.cps.at3 dir a j i) 0
        = C04.mulVec C (o.basis dir).numFunctions (fun j => o.cps.at3 dir a j i) r := by
      rw [C04.foldl_add_eq_sum, hmid]; rfl
    rw [e]
    apply hst.mulVec_pos _ _ r (by omega)
    intro j hj
    exact C10.at3_pos o.cps o.ncomp o.dimension h.data_size (h.tpos hr) dir hax1 (h.last_eq 1) a j i ha
      (by rw [hmid]; exact hj) hi him
  · show (o.bases.set! dir b').size = o.bases.size
    simp
  · rw [C04.basis_set o dir hd]; exact href.periodic_eq.trans hper
  · rw [C04.basis_set o dir hd]; exact href.start_eq
  · rw [C04.basis_set o dir hd]; exact href.stop_eq

/-- Invariant of the loop of `refine`: well formed, every direction non-periodic. -/
def OpenWF (o : Obj K) : Prop := o.WellFormed ∧ ∀ d, d < o.bases.size → (o.basis d).periodic = -1

theorem OpenWF.refineDir {o o' : Obj K} (h : o.OpenWF) (tol : K) (htol : 0 ≤ tol) (n d : ℕ)
    (hs : o.refineDir tol n d = .ok o') : o'.OpenWF := by
  unfold Obj.refineDir at hs
  by_cases hpd : d < o.pardim
  · rw [if_pos hpd] at hs
    simp only [] at hs
    unfold Obj.insertKnotDir at hs
    rw [if_pos hpd] at hs
    have hd : d < o.bases.size := by rw [← h.1.pardim_eq]; exact hpd
    have hv := h.1.valid d hd
    obtain ⟨hs1, hs2⟩ := C04.knotSpans_spec (o.basis d) hv tol htol
    have hmem : ∀ v ∈ refineValues ((o.basis d).knotSpans tol false).toList n,
        (o.basis d).start ≤ v ∧ v < (o.basis d).stop := by
      intro v hv'
      have := C04.refineValues_mem _ hs1 _ _ hs2 n v hv'
      exact ⟨le_of_lt this.2.1, this.2.2⟩
    obtain ⟨hw, hsz, hoth, hp, _, _⟩ := h.1.insertKnots d hd (h.2 d hd) _ hmem hs
    refine ⟨hw, fun d' hd' => ?_⟩
    by_cases e : d' = d
    · subst e; exact hp
    · rw [hoth d' e]; exact h.2 d' (by rw [← hsz]; exact hd')
  · rw [if_neg hpd] at hs
    cases hs

theorem OpenWF.refineFold (tol : K) (htol : 0 ≤ tol) (l : List (ℕ × ℕ)) :
    ∀ (o o' : Obj K), o.OpenWF →
      l.foldlM (fun (o : Obj K) (nd : ℕ × ℕ) => o.refineDir tol nd.1 nd.2) o = .ok o' → o'.OpenWF := by
  induction l with
  | nil =>
    intro o o' h hs
    have : o = o' := Except.ok.inj hs
    rw [← this]; exact h
  | cons nd l ih =>
    intro o o' h hs
    rw [List.foldlM_cons] at hs
    cases hres : o.refineDir tol nd.1 nd.2 with
    | error e => rw [hres] at hs; cases hs
    | ok o1 =>
      rw [hres] at hs
      exact ih o1 o' (h.refineDir tol htol nd.1 nd.2 hres) hs

/-- `refine` is a fold of `refineDir`. -/
theorem refine_eq_fold {o o' : Obj K} (tol : K) (ns : List ℕ) (direction : Option ℕ)
    (hs : o.refine tol ns direction = .ok o') :
    ∃ l : List (ℕ × ℕ),
      l.foldlM (fun (o : Obj K) (nd : ℕ × ℕ) => o.refineDir tol nd.1 nd.2) o = .ok o' := by
  unfold Obj.refine at hs
  rcases ns with _ | ⟨n, _ | ⟨n2, t⟩⟩ <;> rcases direction with _ | d
  · exact ⟨_, hs⟩
  · exact ⟨_, hs⟩
  · exact ⟨_, hs⟩
  · by_cases hpd : d < o.pardim
    · simp only [if_pos hpd] at hs
      exact ⟨_, hs⟩
    · simp only [if_neg hpd] at hs
      cases hs
  · exact ⟨_, hs⟩
  · exact ⟨_, hs⟩

end Obj

/-! ## history steps -/

namespace History

theorem stepOut_insertKnot_wf {o : Obj K} (h : o.WellFormed) (tol : K) (knots : List K) (dir : ℕ)
    (hper : (o.basis dir).periodic = -1)
    (hxs : ∀ x ∈ knots, (o.basis dir).start ≤ x ∧ x < (o.basis dir).stop)
    {out : Out K} (hs : stepOut tol o (.insertKnot knots dir) = .ok out) :
    out.recv.WellFormed ∧ out.news = [] := by
  change inPlace (o.insertKnotDir knots dir) = .ok out at hs
  unfold inPlace Obj.insertKnotDir at hs
  by_cases hpd : dir < o.pardim
  · rw [if_pos hpd] at hs
    have hd : dir < o.bases.size := by rw [← h.pardim_eq]; exact hpd
    cases hres : o.insertKnots knots dir with
    | error e => rw [hres] at hs; cases hs
    | ok o1 =>
      rw [hres] at hs
      have : ({ recv := o1, news := [] } : Out K) = out := Except.ok.inj hs
      rw [← this]
      exact ⟨(h.insertKnots dir hd hper knots hxs hres).1, rfl⟩
  · rw [if_neg hpd] at hs
    cases hs

theorem stepOut_refine_wf {o : Obj K} (h : o.WellFormed) (tol : K) (htol : 0 ≤ tol) (ns : List ℕ)
    (direction : Option ℕ) (hper : ∀ d, d < o.bases.size → (o.basis d).periodic = -1)
    {out : Out K} (hs : stepOut tol o (.refine ns direction) = .ok out) :
    out.recv.WellFormed ∧ out.news = [] := by
  change inPlace (o.refine tol ns direction) = .ok out at hs
  unfold inPlace at hs
  cases hres : o.refine tol ns direction with
  | error e => rw [hres] at hs; cases hs
  | ok o1 =>
    rw [hres] at hs
    have : ({ recv := o1, news := [] } : Out K) = out := Except.ok.inj hs
    rw [← this]
    obtain ⟨l, hl⟩ := Obj.refine_eq_fold tol ns direction hres
    exact ⟨(Obj.OpenWF.refineFold tol htol l o o1 ⟨h, hper⟩ hl).1, rfl⟩

end History

end Splipy
